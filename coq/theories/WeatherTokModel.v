(* WeatherTokModel.v — the three weather readers of hermes/weather_input.go at CHARACTER level:
   bufio.ScanLines (LF, one trailing CR dropped), Explode = strings.FieldsFunc (runs of separators
   collapse, EMPTY FIELDS VANISH), strings.TrimSpace, strconv.ParseFloat / ParseInt on plain decimal
   texts, time.Parse for "2006-01-02" and "2006002", readHeader, the header lines (incl. the
   three-line header with altitude / wind height / CO2), and the order in which a line's tokens
   are indexed and parsed — which decides whether a malformed line ends in an index panic, in
   log.Fatal, in a returned error, is skipped, or is silently read as a SHIFTED record.

   Result classes ([tres]):  TOk  nil returned;  TErr  error returned (the multi-year readers'
   error ends the run; WetterK's is discarded by run.go: F9);  TPanic  index out of range;
   TFatal  log.Fatal (process exit);  TUnk  the text leaves the modelled fragment of strconv
   (exponent/hex/inf/nan spellings, more than 2^53 as digit string): the model abstains.

   Characters are bytes; every separator, digit and sign is ASCII, so bytes = runes here. *)
From Coq Require Import ZArith List Bool Ascii String Lia.
From Hermes Require Import Num Calendar DateModel WeatherModel.
Import ListNotations.
Open Scope Z_scope.

Definition str := list ascii.       (* = DateModel.lstr *)

Definition ch_eqb (a b : ascii) : bool := Ascii.eqb a b.
Definition LF : ascii := ascii_of_nat 10.
Definition CR : ascii := ascii_of_nat 13.
Definition TAB : ascii := ascii_of_nat 9.
Definition VT : ascii := ascii_of_nat 11.
Definition FF : ascii := ascii_of_nat 12.
Definition SP : ascii := " "%char.

(* ------------------------------------------------------------------ *)
(* bufio.Scanner with ScanLines                                         *)

Definition drop_cr (rev_line : str) : str :=
  match rev_line with c :: r => if ch_eqb c CR then r else rev_line | [] => [] end.

(* [cur] = current line reversed *)
Fixpoint scan_lines_aux (cur : str) (s : str) : list str :=
  match s with
  | [] => match cur with [] => [] | _ => [rev (drop_cr cur)] end    (* unterminated last line *)
  | c :: r => if ch_eqb c LF then rev (drop_cr cur) :: scan_lines_aux [] r
              else scan_lines_aux (c :: cur) r
  end.
Definition scan_lines (s : str) : list str := scan_lines_aux [] s.

(* ------------------------------------------------------------------ *)
(* Explode(str, seps) = strings.FieldsFunc                              *)

Definition is_sep (seps : list ascii) (c : ascii) : bool := existsb (ch_eqb c) seps.

(* [cur] = current field reversed *)
Fixpoint explode_aux (seps : list ascii) (cur : str) (s : str) : list str :=
  match s with
  | [] => match cur with [] => [] | _ => [rev cur] end
  | c :: r => if is_sep seps c
              then match cur with [] => explode_aux seps [] r | _ => rev cur :: explode_aux seps [] r end
              else explode_aux seps (c :: cur) r
  end.
Definition explode (seps : list ascii) (s : str) : list str := explode_aux seps [] s.

Definition SEPS_YEAR : list ascii := [","%char; ";"%char].                    (* WetterK *)
Definition SEPS_CSV : list ascii := [","%char; ";"%char; TAB].                (* ReadWeatherCSV *)
Definition SEPS_CZ : list ascii := [","%char; ";"%char; TAB; SP].             (* ReadWeatherCZ, readHeader *)

(* strings.TrimSpace (ASCII part), digits: the definitions of DateModel (C12) *)
Definition trim_space (s : str) : str := trim s.

(* ------------------------------------------------------------------ *)
(* numbers                                                              *)

Definition digit_of (c : ascii) : option Z := digit_val c.
Definition is_digit (c : ascii) : bool := match digit_val c with Some _ => true | None => false end.
Definition digits_val (acc : Z) (s : str) : option Z := parse_digits acc s.

Definition split_sign (s : str) : bool * str :=
  match s with
  | c :: r => if ch_eqb c "-"%char then (true, r) else if ch_eqb c "+"%char then (false, r) else (false, s)
  | [] => (false, [])
  end.

(* strconv.ParseInt(s, 10, 64): sign, one or more digits, int64 range *)
Definition parse_int (s : str) : option Z :=
  let '(neg, r) := split_sign s in
  match r with
  | [] => None
  | _ => match digits_val 0 r with
         | None => None
         | Some m => let v := if neg then - m else m in
                     if (- 2 ^ 63 <=? v) && (v <=? 2 ^ 63 - 1) then Some v else None
         end
  end.

Fixpoint split_dot (s : str) : str * option str :=
  match s with
  | [] => ([], None)
  | c :: r => if ch_eqb c "."%char then ([], Some r)
              else let '(a, b) := split_dot r in (c :: a, b)
  end.

Inductive fres (T : Type) := FOk (v : T) | FErr | FUnk.
Arguments FOk {T} v. Arguments FErr {T}. Arguments FUnk {T}.

Definition plain_char (c : ascii) : bool :=
  is_digit c || ch_eqb c "+"%char || ch_eqb c "-"%char || ch_eqb c "."%char.
(* every spelling strconv.ParseFloat accepts is written with these characters *)
Definition float_char (c : ascii) : bool :=
  plain_char c || existsb (ch_eqb c) (lstr_of "eExXpP_iInNfFaAtTyY"%string).

Section Floats.
  Context {T : Type} {NT : Num T}.

  (* [+-]? digits [. digits]  |  [+-]? . digits  ; the value is the correctly rounded m / 10^k
     (exact for m < 2^53, k <= 22: both operands are binary64 numbers) *)
  Definition parse_plain (s : str) : fres T :=
    let '(neg, r) := split_sign s in
    let '(ip, fpo) := split_dot r in
    let fp := match fpo with Some f => f | None => [] end in
    match ip, fp with
    | [], [] => FErr
    | _, _ =>
        match digits_val 0 (ip ++ fp) with
        | None => FErr
        | Some m =>
            let k := List.length fp in
            if (m <? 2 ^ 53) && (Nat.leb k 22)
            then FOk (let v := Num.dec m k in if neg then opp v else v)
            else FUnk
        end
    end.

  Definition parse_float (s : str) : fres T :=
    match s with
    | [] => FErr
    | _ => if forallb plain_char s then parse_plain s
           else if forallb float_char s then FUnk else FErr
    end.
End Floats.

(* ------------------------------------------------------------------ *)
(* dates                                                                *)

Definition num_of (s : str) : option Z := match s with [] => None | _ => digits_val 0 s end.

(* time.Parse("2006-01-02", s): dddd-dd-dd, a date of the civil calendar *)
Definition parse_iso (s : str) : option date :=
  match s with
  | [y1; y2; y3; y4; h1; m1; m2; h2; d1; d2] =>
      if ch_eqb h1 "-"%char && ch_eqb h2 "-"%char then
        match num_of [y1; y2; y3; y4], num_of [m1; m2], num_of [d1; d2] with
        | Some y, Some m, Some d => let t := mkdate y m d in if valid_date t then Some t else None
        | _, _, _ => None
        end
      else None
  | _ => None
  end.

(* time.Parse("2006002", s): yyyyddd, day of the year 1..365/366 *)
Definition parse_yyyyddd (s : str) : option (Z * Z) :=
  match s with
  | [y1; y2; y3; y4; d1; d2; d3] =>
      match num_of [y1; y2; y3; y4], num_of [d1; d2; d3] with
      | Some y, Some d => if (1 <=? d) && (d <=? ylen y) then Some (y, d) else None
      | _, _ => None
      end
  | _ => None
  end.

(* ------------------------------------------------------------------ *)
(* results                                                              *)

Inductive tres (A : Type) := TOk (a : A) | TErr (a : A) | TPanic | TFatal | TUnk.
Arguments TOk {A} a. Arguments TErr {A} a. Arguments TPanic {A}. Arguments TFatal {A}. Arguments TUnk {A}.

Fixpoint str_eqb (a b : str) : bool :=
  match a, b with
  | [], [] => true
  | x :: a', y :: b' => ch_eqb x y && str_eqb a' b'
  | _, _ => false
  end.

Fixpoint index_of (name : str) (toks : list str) (i : nat) : option nat :=
  match toks with
  | [] => None
  | t :: r => if str_eqb t name then Some i else index_of name r (S i)
  end.

(* readHeader: column of the first of the synonyms that occurs (a header carrying two synonyms of
   one column makes the Go result depend on map iteration order: outside the model) *)
Fixpoint index_any (names : list str) (toks : list str) : option nat :=
  match names with
  | [] => None
  | n :: r => match index_of n toks 0 with Some i => Some i | None => index_any r toks end
  end.

Record header := mkh {
  h_date_iso : option nat; h_date_doy : option nat;
  h_tmin : option nat; h_tavg : option nat; h_tmax : option nat; h_prec : option nat; h_rad : option nat;
  h_wind : option nat; h_rh : option nat; h_co2 : option nat; h_sun : option nat; h_verd : option nat }.

Definition read_header (line : str) : header :=
  let t := explode SEPS_CZ line in
  let f := fun names => index_any (map lstr_of names) t in
  mkh (f ["iso-date"%string]) (f ["@YYYYJJJ"%string])
      (f ["tmin"; "TMIN"]%string) (f ["tavg"%string]) (f ["tmax"; "TMAX"]%string) (f ["precip"; "PREC"]%string)
      (f ["globrad"; "RAD"]%string) (f ["wind"; "WIND"]%string) (f ["relhumid"; "RH"]%string) (f ["CO2"%string])
      (f ["sunhours"; "SUNH"; "sun"]%string) (f ["VERD"; "verd"]%string).

(* h[x] of a Go map: a missing key reads as column 0 *)
Definition col (o : option nat) : nat := match o with Some i => i | None => O end.

Section Readers.
  Context {T : Type} {NT : Num T}.
  Variable none : T.

  (* altitude, wind height, base CO2 of the three-line header *)
  Record meta := mkmeta { m_alt : option T; m_windhi : option T; m_co2 : option T }.
  Definition no_meta : meta := mkmeta None None None.

  (* ValAsFloat: TrimSpace, ParseFloat, log.Fatal on error *)
  Definition val_as_float (tok : str) : tres T :=
    match parse_float (trim_space tok) with FOk v => TOk v | FErr => TFatal | FUnk => TUnk end.

  (* third header line: Explode(",;"); high[0], high[1], optional high[2] unless it starts with '-' *)
  Definition heights_line (line : str) : tres meta :=
    let high := explode SEPS_YEAR line in
    match high with
    | [] => TPanic
    | h0 :: rest =>
        match val_as_float h0 with
        | TOk a =>
            match rest with
            | [] => TPanic
            | h1 :: rest2 =>
                match val_as_float h1 with
                | TOk w =>
                    match rest2 with
                    | ((c :: _) as h2) :: _ =>
                        if ch_eqb c "-"%char then TOk (mkmeta (Some a) (Some w) None)
                        else match val_as_float h2 with
                             | TOk co => TOk (mkmeta (Some a) (Some w) (Some co))
                             | TFatal => TFatal | TUnk => TUnk | _ => TPanic
                             end
                    | _ => TOk (mkmeta (Some a) (Some w) None)
                    end
                | TFatal => TFatal | TUnk => TUnk | _ => TPanic
                end
            end
        | TFatal => TFatal | TUnk => TUnk | _ => TPanic
        end
    end.

  (* LineInut n times: running out of lines is log.Fatal("EOF") *)
  Fixpoint skip_lines (n : nat) (ls : list str) : option (list str) :=
    match n with O => Some ls | S k => match ls with [] => None | _ :: r => skip_lines k r end end.

  (* -------------------------------------------------------------- *)
  (* WetterK: per-year layout                                        *)

  (* the ten value columns in the order they are parsed; the model keeps seven of them *)
  Fixpoint parse_all (toks : list str) : tres (list T) :=
    match toks with
    | [] => TOk []
    | t :: r => match val_as_float t with
                | TOk v => match parse_all r with TOk l => TOk (v :: l) | e => e end
                | TFatal => TFatal | TUnk => TUnk | TPanic => TPanic | TErr _ => TFatal
                end
    end.

  Definition year_rec (v : list T) : wrec T :=
    match v with
    | [tavg; tmin; tmax; et0; rh; verd; wind; sund; rad; prec] => mkw tavg tmin tmax rh rad wind prec
    | _ => wzero
    end.

  (* the optional columns of the year file (index 3 = ET0, 5 = saturation deficit, 7 = sunshine hours) as a column of
     values, for a file that wetterk_text reads without error: fed to WeatherModel.opt_year / sund_year *)
  Definition opt_value (k : nat) (line : str) : T :=
    match parse_all (firstn 10 (explode SEPS_YEAR line)) with TOk v => nth k v zero | _ => zero end.
  Definition year_body (numheader : Z) (text : str) : list str :=
    let ls := scan_lines text in
    if numheader =? 3 then match skip_lines 2 ls with Some (_ :: rest) => rest | _ => [] end
    else match skip_lines (Z.to_nat numheader) ls with Some rest => rest | None => [] end.
  Definition year_column (k : nat) (numheader : Z) (text : str) : list T := map (opt_value k) (year_body numheader text).

  (* one line of the loop; state = (Tlast, slot) *)
  Definition year_line (line : str) (Tlast : Z) (s : slot T) : tres (Z * slot T) :=
    let w := explode SEPS_YEAR line in
    match nth_error w 10 with
    | None => TPanic                                              (* Wettin[10] *)
    | Some jd =>
        match parse_int (trim_space jd) with
        | None => TFatal                                          (* ValAsInt *)
        | Some Tv =>
            if negb (Tlast + 1 =? Tv) then TErr (Tlast, s)         (* "missing days", before any value is parsed *)
            else match parse_all (firstn 10 w) with
                 | TOk v =>
                     (* Wettin[0] is parsed before s.TMP[0][T-1] is indexed *)
                     if Tv >? 366 then TPanic else TOk (Tv, put_slot s (s_jar s) Tv (year_rec v))
                 | TFatal => TFatal | TUnk => TUnk | _ => TPanic
                 end
        end
    end.

  Fixpoint year_lines (ls : list str) (Tlast : Z) (s : slot T) : tres (slot T) :=
    match ls with
    | [] => TOk s
    | l :: r => match year_line l Tlast s with
                | TOk (Tv, s') => year_lines r Tv s'
                | TErr (_, s') => TErr s'
                | TPanic => TPanic | TFatal => TFatal | TUnk => TUnk
                end
    end.

  Definition wetterk_text (corr : list T) (numheader : Z) (year : Z) (file : option str) (st : store T)
    : tres (store T * meta) :=
    match file with
    | None => TErr (st, no_meta)
    | Some text =>
        let ls := scan_lines text in
        let hdr : tres (meta * list str) :=
          if numheader =? 3 then
            match skip_lines 2 ls with
            | Some (h :: rest) => match heights_line h with
                                  | TOk m => TOk (m, rest) | TFatal => TFatal | TUnk => TUnk | _ => TPanic end
            | _ => TFatal
            end
          else match skip_lines (Z.to_nat numheader) ls with Some rest => TOk (no_meta, rest) | None => TFatal end in
        match hdr with
        | TOk (m, body) =>
            let s0 := slot_at st 0 in
            match year_lines body 0 (mkslot year (s_cells s0) (s_maxd s0)) with
            | TOk s => TOk (transform corr 1 (replace_missing none 1 [s]), m)
            | TErr s => TErr ([s], m)
            | TPanic => TPanic | TFatal => TFatal | TUnk => TUnk
            end
        | TFatal => TFatal | TUnk => TUnk | _ => TPanic
        end
    end.

  (* -------------------------------------------------------------- *)
  (* ReadWeatherCSV / ReadWeatherCZ: one line -> item                 *)

  Inductive item := IRec (r : mrec T) (co2 : option T) | ISkip | IPanic | IErr | IUnk.

  (* strconv.ParseFloat(tokens[i]) with the error collected, not returned at once *)
  Inductive pf := PV (v : T) | PE | PU | PX.     (* value | parse error | unknown | index out of range *)
  Definition pfield (toks : list str) (i : nat) : pf :=
    match nth_error toks i with
    | None => PX
    | Some t => match parse_float t with FOk v => PV v | FErr => PE | FUnk => PU end
    end.

  (* combine in source order: the first out-of-range index panics whatever was collected before *)
  Fixpoint collect (l : list pf) : tres (list T) :=
    match l with
    | [] => TOk []
    | p :: r =>
        match p with
        | PX => TPanic
        | _ => match collect r with
               | TPanic => TPanic
               | rest =>
                   match p, rest with
                   | PU, _ => TUnk | _, TUnk => TUnk
                   | PE, _ => TErr [] | _, TErr _ => TErr []
                   | PV v, TOk l' => TOk (v :: l')
                   | _, _ => TFatal
                   end
               end
        end
    end.

  Definition opt_field (toks : list str) (o : option nat) : list pf :=
    match o with Some i => [pfield toks i] | None => [] end.

  (* the sunshine column must lie in 0..24 unless it is the sentinel *)
  Definition sun_ok (l : list pf) : bool :=
    match l with
    | [PV v] => negb ((ltb (ofZ 24) v || ltb v zero) && negb (eqb v none))
    | _ => true
    end.

  Definition csv_line (h : header) (startyear : Z) (line : str) : item :=
    let toks := explode SEPS_CSV line in
    match nth_error toks (col (h_date_iso h)) with
    | None => IPanic
    | Some dt =>
        match parse_iso dt with
        | None => ISkip                                  (* zero time: Year() = 1 < startyear *)
        | Some t =>
            if dy t <? startyear then ISkip else
            let f := pfield toks in
            let sun := opt_field toks (h_sun h) in
            let l := [f (col (h_wind h)); f (col (h_prec h))] ++ opt_field toks (h_rad h)
                     ++ [f (col (h_tmax h)); f (col (h_tmin h)); f (col (h_tavg h)); f (col (h_rh h))]
                     ++ sun ++ opt_field toks (h_verd h) in
            match collect l with
            | TPanic => IPanic | TUnk => IUnk | TErr _ => IErr | TFatal => IUnk
            | TOk v =>
                if negb (sun_ok sun) then IErr else
                let '(wind, v1) := (nth 0 v zero, tl v) in
                let '(prec, v2) := (nth 0 v1 zero, tl v1) in
                let '(rad, v3) := match h_rad h with Some _ => (nth 0 v2 zero, tl v2) | None => (none, v2) end in
                match v3 with
                | tmax :: tmin :: tavg :: rh :: _ => IRec (dy t, doy t, mkw tavg tmin tmax rh rad wind prec) None
                | _ => IUnk
                end
            end
        end
    end.

  Definition cz_line (h : header) (startyear : Z) (line : str) : item :=
    let toks := explode SEPS_CZ line in
    match nth_error toks (col (h_date_doy h)) with
    | None => IPanic
    | Some dt =>
        match parse_yyyyddd dt with
        | None => ISkip
        | Some (y, ddd) =>
            if y <? startyear then ISkip else
            let f := pfield toks in
            let sun := opt_field toks (h_sun h) in
            let co2 := match h_co2 h with
                       | Some i => if Nat.ltb i (List.length toks) then [pfield toks i] else []
                       | None => [] end in
            let l := [f (col (h_wind h)); f (col (h_prec h)); f (col (h_tmax h)); f (col (h_tmin h)); f (col (h_rh h))]
                     ++ sun ++ opt_field toks (h_rad h) ++ opt_field toks (h_verd h) ++ co2 in
            match collect l with
            | TPanic => IPanic | TUnk => IUnk | TErr _ => IErr | TFatal => IUnk
            | TOk v =>
                if negb (sun_ok sun) then IErr else
                match v with
                | wind :: prec :: tmax :: tmin :: rh :: v1 =>
                    let v2 := match h_sun h with Some _ => tl v1 | None => v1 end in
                    let '(rad, v3) := match h_rad h with Some _ => (nth 0 v2 zero, tl v2) | None => (zero, v2) end in
                    let v4 := match h_verd h with Some _ => tl v3 | None => v3 end in
                    let c := match co2 with [] => None | _ => Some (nth 0 v4 zero) end in
                    IRec (cz_rec y ddd (mkw zero tmin tmax rh rad wind prec)) c
                | _ => IUnk
                end
            end
        end
    end.

  (* the loop of the multi-year readers over items; CO2KONZ[yrz-1] = value current at the last line
     of the year (CZ only) *)
  Fixpoint rm_items (startyear : Z) (items : list item) (Tv yrz : Z) (first : bool)
           (st : store T) (cur : option T) (co2s : list (Z * option T)) : tres (store T * Z * list (Z * option T)) :=
    match items with
    | [] => TOk (st, yrz, co2s)
    | it :: rest =>
        let Tv := Tv + 1 in
        match it with
        | ISkip => rm_items startyear rest Tv yrz first st cur co2s
        | IPanic => TPanic
        | IUnk => TUnk
        | IErr => TErr (st, yrz, co2s)
        | IRec (y, yd, r) c =>
            if negb first && (yd =? 1) && negb (prev_year_ok st yrz y) then TErr (st, yrz, co2s) else
            let cur := match c with Some v => Some v | None => cur end in
            let '(Tv, yrz) := if first then (yd, 1)
                              else if yd =? 1 then (1, yrz + 1) else (Tv, yrz) in
            if negb (yd =? Tv) then TErr (st, yrz, co2s)
            else if yrz >? Z.of_nat (List.length st) then TOk (st, yrz - 1, co2s)
            else rm_items startyear rest Tv yrz false (put st (Z.to_nat (yrz - 1)) y Tv r) cur
                          ((yrz - 1, cur) :: co2s)
        end
    end.

  Definition multi_text (cz : bool) (corr : list T) (numheader startyear nslots : Z) (file : option str)
    : tres (store T * meta * list (Z * option T)) :=
    match file, new_store (T:=T) nslots with
    | None, _ => TErr ([], no_meta, [])
    | _, None => TPanic
    | Some text, Some st0 =>
        match scan_lines text with
        | [] => TFatal                                           (* LineInut: EOF *)
        | hl :: ls =>
            let h := read_header hl in
            let hdr : tres (meta * list str) :=
              if negb cz && (numheader =? 3) then
                match skip_lines 1 ls with
                | Some (hh :: rest) => match heights_line hh with
                                       | TOk m => TOk (m, rest) | TFatal => TFatal | TUnk => TUnk | _ => TPanic end
                | _ => TFatal
                end
              else match skip_lines (Z.to_nat (numheader - 1)) ls with Some rest => TOk (no_meta, rest) | None => TFatal end in
            match hdr with
            | TOk (m, body) =>
                let items := map (if cz then cz_line h startyear else csv_line h startyear) body in
                match rm_items startyear items 0 0 true st0 None [] with
                | TOk (st, yrz, co2s) =>
                    let n := Z.to_nat yrz in
                    TOk (transform corr n (replace_missing none n st), m, co2s)
                | TErr (st, yrz, co2s) => TErr (st, m, co2s)
                | TPanic => TPanic | TFatal => TFatal | TUnk => TUnk
                end
            | TFatal => TFatal | TUnk => TUnk | _ => TPanic
            end
        end
    end.
End Readers.

Arguments item : clear implicits.
Arguments meta : clear implicits.
