(* WeatherModel.v — executable model of hermes/weather_input.go at RECORD level (after
   tokenisation: every line of a weather file is a date key plus seven numbers).  Written once over
   the numeric class [Num]: the [float] instance runs and is compared bit for bit with whole runs
   of the real simulator (C04Corr), the theorems (WeatherProofs) hold for every instance.

   Modelled columns: TMP TMI TMA RELF RADI WIN REG (the seven the day loop echoes).  VERD/SUND/
   ETNULL go through the same code shape as TMP (gap fill) resp. are copied unchanged; they are not
   observed and not modelled.  Not modelled: Explode/strconv.ParseFloat/time.Parse (a record whose
   text does not parse is a returned error in the multi-year readers, log.Fatal in the per-year one). *)
From Coq Require Import ZArith List Bool Lia.
From Hermes Require Import Num Calendar.
Import ListNotations.
Open Scope Z_scope.

Section Weather.
  Context {T : Type} {NT : Num T}.

  Record wrec := mkw { w_tavg : T; w_tmin : T; w_tmax : T; w_rh : T; w_rad : T; w_wind : T; w_prec : T }.
  Definition wzero : wrec := mkw zero zero zero zero zero zero zero.

  (* one year of WeatherDataShared: JAR[y], the seven [366]float64 rows as one row of records,
     MaxYearDays[y]  (weather_input.go:26-50) *)
  Record slot := mkslot { s_jar : Z; s_cells : list wrec; s_maxd : Z }.
  Definition store := list slot.
  Definition empty_slot : slot := mkslot 0 (repeat wzero 366) 0.
  (* NewWeatherDataShared(years): make() panics on a negative length *)
  Definition new_store (years : Z) : option store :=
    if years <? 0 then None else Some (repeat empty_slot (Z.to_nat years)).

  Definition slot_at (st : store) (y : nat) : slot := nth y st empty_slot.
  Definition cell (st : store) (y i : nat) : wrec := nth i (s_cells (slot_at st y)) wzero.
  Definition maxd_at (st : store) (y : nat) : Z := s_maxd (slot_at st y).

  Definition upd_slot (st : store) (y : nat) (f : slot -> slot) : store := upd st y (f (slot_at st y)).
  Definition set_cell (st : store) (y i : nat) (r : wrec) : store :=
    upd_slot st y (fun s => mkslot (s_jar s) (upd (s_cells s) i r) (s_maxd s)).
  (* s.JAR[y] = year; s.X[y][T-1] = ...; s.MaxYearDays[y] = T *)
  Definition put_slot (s : slot) (year Tv : Z) (r : wrec) : slot :=
    mkslot year (upd (s_cells s) (Z.to_nat (Tv - 1)) r) Tv.
  Definition put (st : store) (y : nat) (year Tv : Z) (r : wrec) : store :=
    upd_slot st y (fun s => put_slot s year Tv r).

  (* ---------------------------------------------------------------- *)
  (* replaceMissingValues (weather_input.go:609-674), one (y, index) iteration *)

  Definition nextpos (st : store) (yrz y index : nat) : option (nat * nat) :=
    if (Z.to_nat (maxd_at st y) <=? index + 1)%nat        (* nextIndex >= T *)
    then (if (yrz <=? y + 1)%nat then None else Some (S y, O))
    else Some (y, S index).

  Definition prevpos (st : store) (y index : nat) : option (nat * nat) :=
    match index with
    | S i => Some (y, i)
    | O => match y with
           | O => None
           | S y' => let p := maxd_at st y' - 1 in            (* MaxYearDays[y-1] - 1 *)
                     if p <? 0 then None else Some (y', Z.to_nat p)
           end
    end.

  Definition set_tavg (r : wrec) (v : T) : wrec := mkw v (w_tmin r) (w_tmax r) (w_rh r) (w_rad r) (w_wind r) (w_prec r).
  Definition set_rad (r : wrec) (v : T) : wrec := mkw (w_tavg r) (w_tmin r) (w_tmax r) (w_rh r) v (w_wind r) (w_prec r).
  Definition set_wind (r : wrec) (v : T) : wrec := mkw (w_tavg r) (w_tmin r) (w_tmax r) (w_rh r) (w_rad r) v (w_prec r).
  Definition set_prec (r : wrec) (v : T) : wrec := mkw (w_tavg r) (w_tmin r) (w_tmax r) (w_rh r) (w_rad r) (w_wind r) v.

  Definition fill_tavg (none : T) (st : store) (yrz y index : nat) : T :=
    let cur := w_tavg (cell st y index) in
    match prevpos st y index, nextpos st yrz y index with
    | Some (py, pi), Some (ny, ni) =>
        let p := w_tavg (cell st py pi) in
        let n := w_tavg (cell st ny ni) in
        if eqb cur none && negb (eqb p none) && negb (eqb n none)
        then div (add p n) two else cur
    | _, _ => if eqb cur none then zero else cur
    end.

  Definition rm_at (none : T) (yrz : nat) (st : store) (pos : nat * nat) : store :=
    let '(y, index) := pos in
    let r := cell st y index in
    let r := set_tavg r (fill_tavg none st yrz y index) in
    let r := if eqb (w_rad r) none then set_rad r zero else r in
    let r := if eqb (w_prec r) none then set_prec r zero else r in
    set_cell st y index r.

  (* the (y, index) pairs in the order the two loops visit them; MaxYearDays does not change meanwhile *)
  Definition positions (st : store) (yrz : nat) : list (nat * nat) :=
    flat_map (fun y => map (fun i => (y, i)) (seq 0 (Z.to_nat (maxd_at st y)))) (seq 0 yrz).

  Definition replace_missing (none : T) (yrz : nat) (st : store) : store :=
    fold_left (rm_at none yrz) (positions st yrz) st.

  (* ---------------------------------------------------------------- *)
  (* transformWeatherData (weather_input.go:585-607) *)

  (* getCorrValue: month table by day-of-year thresholds of a 365-day year *)
  Definition corr_value (corr : list T) (Tv : Z) : T :=
    let c := fun k => nth k corr one in
    if Tv <? 32 then c 0%nat else if Tv <? 60 then c 1%nat else if Tv <? 91 then c 2%nat
    else if Tv <? 121 then c 3%nat else if Tv <? 152 then c 4%nat else if Tv <? 182 then c 5%nat
    else if Tv <? 213 then c 6%nat else if Tv <? 244 then c 7%nat else if Tv <? 274 then c 8%nat
    else if Tv <? 305 then c 9%nat else if Tv <? 335 then c 10%nat else c 11%nat.

  Definition half : T := div one two.

  (* the monthly factor is looked up by the day of a 365-day year: 29 February is skipped when
     JAR[y] % 4 == 0 (weather_input.go:589-593) *)
  Definition corr_day (jar : Z) (index : nat) : Z :=
    let d := Z.of_nat index + 1 in
    if (Z.rem jar 4 =? 0) && (d >? 59) then d - 1 else d.

  (* REG/10*cor, RADI/2, wind floor 0.5 — every day of every loaded year *)
  Definition norm_cell (corr : list T) (jar : Z) (index : nat) (r : wrec) : wrec :=
    let r := set_prec r (mul (div (w_prec r) ten) (corr_value corr (corr_day jar index))) in
    let r := set_rad r (div (w_rad r) two) in
    if ltb (w_wind r) half then set_wind r half else r.

  Fixpoint norm_cells (corr : list T) (jar : Z) (n : nat) (index : nat) (l : list wrec) : list wrec :=
    match n, l with
    | S k, r :: rest => norm_cell corr jar index r :: norm_cells corr jar k (S index) rest
    | _, _ => l
    end.

  Definition transform_year (corr : list T) (st : store) (y : nat) : store :=
    let Tv := maxd_at st y in
    upd_slot st y (fun s => mkslot (s_jar s) (norm_cells corr (s_jar s) (Z.to_nat Tv) 0 (s_cells s)) (s_maxd s)).

  Definition transform (corr : list T) (yrz : nat) (st : store) : store :=
    fold_left (transform_year corr) (seq 0 yrz) st.

  (* ---------------------------------------------------------------- *)
  (* ReadWeatherCSV / ReadWeatherCZ, the loop over the records (weather_input.go:345-437, 482-577).
     A record = (year, day of the year, values); for the CSV layout the key comes from the ISO date
     (time.Time.Year / YearDay), for the CZ layout from yyyyddd.  "Day()==1 && Month()==January"
     is "day of the year = 1". *)

  Definition mrec := (Z * Z * wrec)%type.

  Definition prev_year_ok (st : store) (yrz y : Z) : bool :=
    let s := slot_at st (Z.to_nat (yrz - 1)) in
    (s_jar s =? y - 1) && (s_maxd s =? ylen (y - 1)).

  Fixpoint rm_loop (startyear : Z) (recs : list mrec) (Tv yrz : Z) (first : bool) (st : store)
    : option (store * Z) :=
    match recs with
    | [] => Some (st, yrz)
    | (y, yd, r) :: rest =>
        let Tv := Tv + 1 in                                        (* T++ *)
        if y <? startyear then rm_loop startyear rest Tv yrz first st   (* continue *)
        else
          (* a 1 January closes the slot before it, which has to hold the year before this one (F33)
             up to its 31st of December (F32): JAR = year-1 and MaxYearDays = YearDay(31 Dec of year-1),
             else "missing days" *)
          if negb first && (yd =? 1) && negb (prev_year_ok st yrz y) then None else
          let '(Tv, yrz) := if first then (yd, 1)
                            else if yd =? 1 then (1, yrz + 1) else (Tv, yrz) in
          if negb (yd =? Tv) then None                             (* "missing days" *)
          else if yrz >? Z.of_nat (length st) then Some (st, yrz - 1)   (* break *)
          else rm_loop startyear rest Tv yrz false (put st (Z.to_nat (yrz - 1)) y Tv r)
    end.

  Definition read_multi (none : T) (corr : list T) (startyear nslots : Z) (recs : list mrec) : option store :=
    match new_store nslots with
    | None => None
    | Some st0 =>
        match rm_loop startyear recs 0 0 true st0 with
        | None => None
        | Some (st, yrz) =>
            let n := Z.to_nat yrz in
            Some (transform corr n (replace_missing none n st))
        end
    end.

  (* CSV layout: key from the civil date *)
  Definition csv_rec (t : date) (r : wrec) : mrec := (dy t, doy t, r).
  (* CZ layout: yyyyddd; tavg = (tmax + tmin) / 2 (weather_input.go:546) *)
  Definition cz_rec (y ddd : Z) (r : wrec) : mrec := (y, ddd, set_tavg r (div (add (w_tmax r) (w_tmin r)) two)).

  (* ---------------------------------------------------------------- *)
  (* WetterK, per-year layout (weather_input.go:104-179): one slot, reused for every year.
     Result: the store after the call and whether nil was returned — run.go discards the error
     and goes on with whatever is in the store (F9).  [None] = index out of range (T > 366). *)

  Fixpoint wk_loop (recs : list (Z * wrec)) (Tlast : Z) (s : slot) : option (slot * bool) :=
    match recs with
    | [] => Some (s, true)
    | (Tv, r) :: rest =>
        if negb (Tlast + 1 =? Tv) then Some (s, false)              (* "missing days": returned before the tail *)
        else if Tv >? 366 then None
        else wk_loop rest Tv (put_slot s (s_jar s) Tv r)
    end.

  Definition wetterk (none : T) (corr : list T) (year : Z) (file : option (list (Z * wrec))) (st : store)
    : option (store * bool) :=
    match file with
    | None => Some (st, false)                                      (* file cannot be opened *)
    | Some recs =>
        let s0 := slot_at st 0 in
        match wk_loop recs 0 (mkslot year (s_cells s0) (s_maxd s0)) with
        | None => None
        | Some (s, false) => Some ([s], false)
        | Some (s, true) => Some (transform corr 1 (replace_missing none 1 [s]), true)
        end
    end.

  (* ---------------------------------------------------------------- *)
  (* LoadYear (weather_input.go:677-735): first slot whose JAR equals the year; copies
     MaxYearDays cells into the [366] arrays of the run state (swapping tmin/tmax when
     tmin > tmax + 0.5), JTAG = MaxYearDays.  None = "requested year was not loaded". *)

  Definition fix_minmax (r : wrec) : wrec :=
    if ltb (add (w_tmax r) half) (w_tmin r)
    then mkw (w_tavg r) (w_tmax r) (w_tmin r) (w_rh r) (w_rad r) (w_wind r) (w_prec r) else r.

  Fixpoint find_year (st : store) (year : Z) : option slot :=
    match st with
    | [] => None
    | s :: rest => if s_jar s =? year then Some s else find_year rest year
    end.

  Fixpoint overwrite (n : nat) (src dst : list wrec) : list wrec :=
    match n, src, dst with
    | S k, a :: src', _ :: dst' => fix_minmax a :: overwrite k src' dst'
    | _, _, _ => dst
    end.

  Definition load_year (g : list wrec) (jtag : Z) (st : store) (year : Z) : list wrec * Z * bool :=
    match find_year st year with
    | None => (g, jtag, false)
    | Some s => (overwrite (Z.to_nat (s_maxd s)) (s_cells s) g, s_maxd s, true)
    end.

  (* ---------------------------------------------------------------- *)
  (* Optional columns of the per-year layout: VERD (saturation deficit), SUND (sunshine hours) and, since F34,
     ETNULL (reference evapotranspiration).  replaceMissingValues treats each of them with the very clauses of TMP
     (SUND has one more: a sentinel that is left over becomes 0, see sund_pass).  One column of one year file is modelled by the
     pass itself, run on a one-year store that carries the column in the average-temperature field. *)
  Definition lift_col (v : T) : wrec := set_tavg wzero v.
  Definition col_slot (vals : list T) : slot :=
    mkslot 0 (map lift_col vals ++ repeat wzero (366 - length vals)) (Z.of_nat (length vals)).
  Definition opt_year (none : T) (vals : list T) : list T :=
    map w_tavg (firstn (length vals) (s_cells (slot_at (replace_missing none 1 [col_slot vals]) 0))).
  (* SUND: the same clauses plus "a sentinel that is left becomes 0", all IN PLACE and in file order: when the next day is
     looked at, its predecessor has already been processed (an unfilled sentinel is 0 by then), its successor is still raw *)
  Fixpoint sund_pass (none : T) (prev : option T) (l : list T) : list T :=
    match l with
    | [] => []
    | v :: rest =>
        let v1 := match prev, rest with
                  | Some p, n :: _ => if eqb v none && negb (eqb p none) && negb (eqb n none) then div (add p n) two else v
                  | _, _ => if eqb v none then zero else v
                  end in
        let v2 := if eqb v1 none then zero else v1 in
        v2 :: sund_pass none (Some v2) rest
    end.
  Definition sund_year (none : T) (vals : list T) : list T := sund_pass none None vals.

End Weather.


Arguments wrec : clear implicits.
Arguments slot : clear implicits.
Arguments store : clear implicits.
Arguments mrec : clear implicits.
