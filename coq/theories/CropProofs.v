(* CropProofs.v — lemmas about CropModel: the stage index never decreases and stage dates are ordered
   (any numeric type), and over the reals: organ masses / LAI / assimilate pool stay non-negative,
   0 <= REDUK <= 1, 1 <= WURZ <= min(N, max(1, round(WURZMAX*WUMAXPF/11))), N uptake clamps. *)
From Coq Require Import ZArith Reals List Bool Lia Lra Psatz.
From Hermes Require Import Num RUtil CropModel.
Import ListNotations.

(* ==================================================================== *)
(* 1. development stage — purely structural, holds for every Num instance *)

Section Stage.
  Context {T : Type} {NT : Num T}.
  Notation sst := (stage_st (T:=T)).
  Notation sin_ := (stage_in (T:=T)).

  Lemma stage_advance_k (x : sin_) (s : sst) :
    (st_k s <= st_k (stage_advance x s) <= S (st_k s))%nat.
  Proof. unfold stage_advance. destruct (_ && _ && _); cbn; lia. Qed.

  Lemma stage_inc_k (x : sin_) (s : sst) : st_k (stage_inc x s) = st_k s.
  Proof. unfold stage_inc. destruct (_ && _); reflexivity. Qed.

  Lemma stage_inc_dates (x : sin_) (s : sst) : st_dates (stage_inc x s) = st_dates s.
  Proof. unfold stage_inc. destruct (_ && _); reflexivity. Qed.

  Lemma stage_step_k (x : sin_) (s : sst) :
    (st_k s <= st_k (stage_step x s) <= S (st_k s))%nat.
  Proof.
    unfold stage_step. rewrite stage_inc_k.
    match goal with |- context [stage_advance x ?s1] => pose proof (stage_advance_k x s1) as H; cbn in H end.
    exact H.
  Qed.

  (* the stage index never decreases over any sequence of days *)
  Lemma stage_run_k (xs : list sin_) (s : sst) : (st_k s <= st_k (stage_run xs s))%nat.
  Proof.
    revert s; induction xs as [|x r IH]; intros s; cbn; [lia|].
    pose proof (stage_step_k x s). specialize (IH (stage_step x s)). lia.
  Qed.

  (* ... and along the run: the index after any prefix is at most the index after the whole run *)
  Lemma stage_run_prefix (xs ys : list sin_) (s : sst) :
    (st_k (stage_run xs s) <= st_k (stage_run (xs ++ ys) s))%nat.
  Proof.
    revert s; induction xs as [|x r IH]; intros s; cbn; [apply stage_run_k | apply IH].
  Qed.

  (* stage dates: entries 0..k are sorted and none lies after the last day processed *)
  Definition dates_ok (s : sst) (z : Z) : Prop :=
    (st_k s < length (st_dates s))%nat /\
    (forall i j, (i <= j <= st_k s)%nat -> (nth i (st_dates s) 0 <= nth j (st_dates s) 0)%Z) /\
    (forall i, (i <= st_k s)%nat -> (nth i (st_dates s) 0 <= z)%Z).

  (* the days of a crop cycle come in calendar order; NRENTW fits the stage arrays *)
  Fixpoint days_from (z : Z) (len : nat) (xs : list sin_) : Prop :=
    match xs with
    | [] => True
    | x :: r => (z <= si_zeit x)%Z /\ (si_nrentw x <= Z.of_nat len)%Z /\ days_from (si_zeit x) len r
    end.

  Lemma nth_upd_same (l : list Z) i v : (i < length l)%nat -> nth i (upd l i v) 0%Z = v.
  Proof. apply (get_upd_same 0%Z). Qed.
  Lemma nth_upd_other (l : list Z) i j v : i <> j -> nth j (upd l i v) 0%Z = nth j l 0%Z.
  Proof. apply (get_upd_other 0%Z). Qed.

  Lemma stage_step_dates (x : sin_) (s : sst) (z : Z) :
    dates_ok s z -> (z <= si_zeit x)%Z -> (si_nrentw x <= Z.of_nat (length (st_dates s)))%Z ->
    dates_ok (stage_step x s) (si_zeit x) /\ length (st_dates (stage_step x s)) = length (st_dates s).
  Proof.
    intros (Hlen & Hsort & Hle) Hz Hn.
    unfold stage_step. rewrite stage_inc_dates. unfold dates_ok. rewrite stage_inc_k, stage_inc_dates.
    unfold stage_advance. cbn [st_k st_sum st_dates].
    destruct (_ && _ && (Z.of_nat (st_k s) + 1 <? si_nrentw x)%Z) eqn:E; cbn [st_k st_dates].
    - apply andb_true_iff in E as [_ E]. apply Z.ltb_lt in E.
      assert (HS : (S (st_k s) < length (st_dates s))%nat) by lia.
      rewrite upd_length. split; [|reflexivity]. split; [exact HS|]. split.
      + intros i j Hij.
        destruct (Nat.eq_dec j (S (st_k s))) as [->|Hj].
        * rewrite nth_upd_same by exact HS.
          destruct (Nat.eq_dec i (S (st_k s))) as [->|Hi].
          -- rewrite nth_upd_same by exact HS. lia.
          -- rewrite nth_upd_other by lia. specialize (Hle i). lia.
        * rewrite !nth_upd_other by lia. apply Hsort. lia.
      + intros i Hi. destruct (Nat.eq_dec i (S (st_k s))) as [->|Hi'].
        * rewrite nth_upd_same by exact HS. lia.
        * rewrite nth_upd_other by lia. specialize (Hle i). lia.
    - split; [|reflexivity]. split; [exact Hlen|]. split; [exact Hsort|].
      intros i Hi. specialize (Hle i Hi). lia.
  Qed.

  Lemma stage_run_dates (xs : list sin_) (s : sst) (z : Z) :
    dates_ok s z -> days_from z (length (st_dates s)) xs ->
    let s' := stage_run xs s in
    forall i j, (i <= j <= st_k s')%nat -> (nth i (st_dates s') 0 <= nth j (st_dates s') 0)%Z.
  Proof.
    revert s z; induction xs as [|x r IH]; intros s z Hok Hd; cbn.
    - destruct Hok as (_ & H & _). exact H.
    - destruct Hd as (Hz & Hn & Hr).
      destruct (stage_step_dates x s z Hok Hz Hn) as [Hok' Hl].
      apply (IH (stage_step x s) (si_zeit x) Hok'). rewrite Hl. exact Hr.
  Qed.

  Lemma stage_monotone_lemma (xs : list sin_) (s : sst) (z : Z) :
    dates_ok s z -> days_from z (length (st_dates s)) xs ->
    let s' := stage_run xs s in
    (st_k s <= st_k s')%nat /\
    (forall ys zs, xs = ys ++ zs -> (st_k (stage_run ys s) <= st_k s')%nat) /\
    (forall i j, (i <= j <= st_k s')%nat -> (nth i (st_dates s') 0 <= nth j (st_dates s') 0)%Z).
  Proof.
    intros Hok Hd. split; [apply stage_run_k|]. split.
    - intros ys zs ->. apply stage_run_prefix.
    - apply (stage_run_dates xs s z Hok Hd).
  Qed.
End Stage.

(* ==================================================================== *)
(* from here on: the reals                                                *)

Local Open Scope R_scope.

Lemma lebR a b : @leb R RNum a b = true <-> a <= b.
Proof. cbn. destruct (RI.leb_spec a b); split; intros; try lra; congruence. Qed.
Lemma lebR_false a b : @leb R RNum a b = false <-> b < a.
Proof. cbn. destruct (RI.leb_spec a b); split; intros; try lra; congruence. Qed.
Lemma gebR a b : @geb R RNum a b = true <-> b <= a.
Proof. unfold geb. apply lebR. Qed.
Lemma gebR_false a b : @geb R RNum a b = false <-> a < b.
Proof. unfold geb. apply lebR_false. Qed.

Lemma decR (m : Z) (k : nat) : @dec R RNum m k = IZR m / IZR (10 ^ Z.of_nat k).
Proof. reflexivity. Qed.

Ltac decs := repeat match goal with
  | |- context [@dec R RNum ?m ?k] =>
      let v := eval vm_compute in (10 ^ Z.of_nat k)%Z in change (@dec R RNum m k) with (IZR m / IZR v)
  | H : context [@dec R RNum ?m ?k] |- _ =>
      let v := eval vm_compute in (10 ^ Z.of_nat k)%Z in change (@dec R RNum m k) with (IZR m / IZR v) in H
  end.

(* ==================================================================== *)
(* 2. REDUK                                                              *)

Lemma reduk_range_lemma (gehob gehmin : R) (ngefkt1 : bool) (e : R) :
  0 < e < 1 -> 0 <= reduk_of gehob gehmin ngefkt1 e <= 1.
Proof.
  intros He. unfold reduk_of.
  destruct (ltb gehob gehmin); [|rsimp; lra].
  destruct (leb gehob _); rsimp; [lra|]. nra.
Qed.

(* real analysis: for AUX in (0,1) the argument 1 + 1/(AUX-1) is negative, so its exponential lies in (0,1) *)
Lemma exp_aux_range (aux : R) : 0 < aux < 1 -> 0 < exp (1 + 1 / (aux - 1)) < 1.
Proof.
  intros [H0 H1]. split; [apply exp_pos|].
  assert (Hy : aux - 1 < 0) by lra.
  assert (Hy' : -1 < aux - 1) by lra.
  assert (Hne : aux - 1 <> 0) by lra.
  pose proof (Rinv_r (aux - 1) Hne) as Hinv.
  assert (Hneg : / (aux - 1) < 0) by (apply Rinv_lt_0_compat; exact Hy).
  assert (Hlt : / (aux - 1) < -1).
  { destruct (Rlt_dec (/ (aux - 1)) (-1)) as [|Hn]; [assumption|exfalso].
    assert (-1 <= / (aux - 1)) by lra.
    assert ((aux - 1) * / (aux - 1) < 1) by nra. lra. }
  assert (Harg : 1 + 1 / (aux - 1) < 0) by (unfold Rdiv; lra).
  pose proof (exp_increasing _ _ Harg) as He. rewrite exp_0 in He. exact He.
Qed.

Lemma reduk_minin_pos ngefkt1 : 0 < @reduk_minin R RNum ngefkt1.
Proof. unfold reduk_minin. destruct ngefkt1; decs; lra. Qed.

(* with the true exponential in place of the oracle: REDUK is in [0,1] for every N content *)
Lemma reduk_exp_lemma (gehob gehmin : R) (ngefkt1 : bool) :
  let minin := reduk_minin ngefkt1 in
  0 <= reduk_of gehob gehmin ngefkt1 (exp (reduk_arg gehob gehmin minin)) <= 1.
Proof.
  intros minin. unfold reduk_of. fold minin.
  destruct (ltb gehob gehmin) eqn:E1; [|rsimp; lra].
  destruct (leb gehob minin) eqn:E2; [rsimp; lra|].
  apply ltbR in E1. apply lebR_false in E2.
  assert (Ha : 0 < (gehob - minin) / (gehmin - minin) < 1).
  { split.
    - apply Rdiv_lt_0_compat; lra.
    - apply (Rmult_lt_reg_r (gehmin - minin)); [lra|].
      unfold Rdiv. rewrite Rmult_assoc, Rinv_l by lra. lra. }
  pose proof (exp_aux_range _ Ha) as He.
  unfold reduk_arg. rsimp.
  set (e := exp _) in *. nra.
Qed.

(* ==================================================================== *)
(* 3. organs                                                             *)

Lemma organ_mass_nonneg (x : organ_in (T:=R)) s i gorg dgorg : 0 <= fst (organ_mass x s i gorg dgorg).
Proof.
  unfold organ_mass.
  destruct (Nat.ltb i 3).
  - destruct (gtb _ _) eqn:E; cbn [fst].
    + apply gtbR in E. revert E. decs. rsimp. intros E.
      assert (0 < 1 / 10000000000000) by (apply Rdiv_lt_0_compat; lra). lra.
    + decs. lra.
  - match goal with |- context [ltb ?w zero] => destruct (ltb w zero) eqn:E end; cbn [fst].
    + rsimp. lra.
    + apply ltbR_false in E. rsimp. exact E.
Qed.

Lemma organ_step_worg_same (x : organ_in (T:=R)) s i :
  (i < length (os_worg s))%nat -> 0 <= get 0 (os_worg (organ_step x s i)) i.
Proof.
  intros Hi. unfold organ_step.
  destruct (organ_rates x s i) as [gorg dg0].
  pose proof (organ_mass_nonneg x s i gorg dg0) as H.
  destruct (organ_mass x s i gorg dg0) as [w' dg]. cbn [os_worg fst] in *.
  rewrite get_upd_same by exact Hi. exact H.
Qed.

Lemma organ_step_worg_other (x : organ_in (T:=R)) s i j :
  i <> j -> get 0 (os_worg (organ_step x s i)) j = get 0 (os_worg s) j.
Proof.
  intros Hij. unfold organ_step.
  destruct (organ_rates x s i) as [gorg dg0]. destruct (organ_mass x s i gorg dg0) as [w' dg].
  cbn [os_worg]. apply get_upd_other. exact Hij.
Qed.

Lemma organ_step_len (x : organ_in (T:=R)) s i : length (os_worg (organ_step x s i)) = length (os_worg s).
Proof.
  unfold organ_step. destruct (organ_rates x s i) as [gorg dg0]. destruct (organ_mass x s i gorg dg0) as [w' dg].
  cbn [os_worg]. apply upd_length.
Qed.

Lemma organ_step_lai (x : organ_in (T:=R)) s i : 0 <= os_lai s -> 0 <= os_lai (organ_step x s i).
Proof.
  intros H. unfold organ_step.
  destruct (organ_rates x s i) as [gorg dg0]. destruct (organ_mass x s i gorg dg0) as [w' dg].
  cbn [os_lai]. destruct (Nat.eqb i 1); [|exact H].
  match goal with |- context [ltb ?w zero] => destruct (ltb w zero) eqn:E end.
  - rsimp. lra.
  - apply ltbR_false in E. rsimp. exact E.
Qed.

Lemma organs_fold (x : organ_in (T:=R)) (n a : nat) (s : organ_st) :
  let s' := fold_left (organ_step x) (seq a n) s in
  length (os_worg s') = length (os_worg s) /\
  (0 <= os_lai s -> 0 <= os_lai s') /\
  forall j, ((a <= j < a + n)%nat -> (j < length (os_worg s))%nat -> 0 <= get 0 (os_worg s') j) /\
            (~ (a <= j < a + n)%nat -> get 0 (os_worg s') j = get 0 (os_worg s) j).
Proof.
  revert a s; induction n as [|n IH]; intros a s; cbn [seq fold_left].
  - split; [reflexivity|]. split; [auto|]. intros j. split; [lia|reflexivity].
  - specialize (IH (S a) (organ_step x s a)). cbv zeta in IH. destruct IH as (Hl & Hlai & Hj).
    rewrite organ_step_len in Hl. split; [exact Hl|]. split.
    + intros H. apply Hlai. apply organ_step_lai. exact H.
    + intros j. destruct (Hj j) as [Hin Hout]. split.
      * intros Hr Hlen. destruct (Nat.eq_dec j a) as [->|Hne].
        -- rewrite Hout by lia. apply organ_step_worg_same. exact Hlen.
        -- apply Hin; [lia|]. rewrite organ_step_len. exact Hlen.
      * intros Hr. rewrite Hout by lia. apply organ_step_worg_other. lia.
Qed.

Lemma lai_floor_pos (lai : R) : 0 < lai_floor lai.
Proof.
  unfold lai_floor. destruct (leb lai zero) eqn:E.
  - decs. lra.
  - apply lebR_false in E. rsimp. exact E.
Qed.

Lemma organs_nonneg_lemma (x : organ_in (T:=R)) (s : organ_st) :
  (oi_nrkom x <= length (os_worg s))%nat ->
  let s' := organs_day x s in
  (forall i, (i < oi_nrkom x)%nat -> 0 <= get 0 (os_worg s') i) /\
  (forall i, (oi_nrkom x <= i)%nat -> get 0 (os_worg s') i = get 0 (os_worg s) i) /\
  ((forall i, 0 <= get 0 (os_worg s) i) -> forall i, 0 <= get 0 (os_worg s') i) /\
  0 <= os_lai s' /\
  (forall gtw reduk, 0 <= gtw -> 0 <= reduk <= 1 -> 0 <= aspoo_of gtw reduk).
Proof.
  intros Hn. unfold organs_day.
  match goal with |- context [fold_left _ _ ?s0] => pose proof (organs_fold x (oi_nrkom x) 0 s0) as H end.
  cbv zeta in H. cbn [os_worg os_lai] in H. destruct H as (Hl & Hlai & Hj).
  assert (A : forall i, (i < oi_nrkom x)%nat -> 0 <= get 0 (os_worg (fold_left (organ_step x) (seq 0 (oi_nrkom x))
     {| os_worg := os_worg s; os_gorg := os_gorg s; os_dgorg := os_dgorg s; os_wdorg := os_wdorg s;
        os_lai := lai_floor (os_lai s); os_pesum := os_pesum s |})) i).
  { intros i Hi. apply (proj1 (Hj i)); lia. }
  assert (B : forall i, (oi_nrkom x <= i)%nat -> get 0 (os_worg (fold_left (organ_step x) (seq 0 (oi_nrkom x))
     {| os_worg := os_worg s; os_gorg := os_gorg s; os_dgorg := os_dgorg s; os_wdorg := os_wdorg s;
        os_lai := lai_floor (os_lai s); os_pesum := os_pesum s |})) i = get 0 (os_worg s) i).
  { intros i Hi. apply (proj2 (Hj i)). lia. }
  cbv zeta. split; [exact A|]. split; [exact B|]. split.
  - intros Hall i. destruct (Nat.lt_ge_cases i (oi_nrkom x)) as [Hi|Hi]; [apply A; exact Hi|rewrite B by exact Hi; apply Hall].
  - split.
    + apply Hlai. apply Rlt_le, lai_floor_pos.
    + intros gtw reduk Hg Hr. unfold aspoo_of. rsimp. nra.
Qed.

(* ==================================================================== *)
(* 4. rooting depth                                                      *)

Lemma Int_part_IZR (z : Z) : Int_part (IZR z) = z.
Proof.
  destruct (base_Int_part (IZR z)) as [H1 H2].
  apply le_IZR in H1.
  assert (H3 : IZR (z - 1) < IZR (Int_part (IZR z))) by (rewrite minus_IZR; lra).
  apply lt_IZR in H3. lia.
Qed.

Lemma trunc_IZR (z : Z) : RI.trunc_Z (IZR z) = z.
Proof.
  unfold RI.trunc_Z. destruct (Rle_dec 0 (IZR z)); [apply Int_part_IZR|].
  rewrite <- opp_IZR, Int_part_IZR. lia.
Qed.

Lemma round_is_int (x : R) : exists z, RI.round x = IZR z.
Proof.
  unfold RI.round. destruct (Rle_dec 0 x); [eexists; reflexivity|].
  exists (- Int_part (- x + / 2))%Z. rewrite opp_IZR. reflexivity.
Qed.

Lemma trunc_bounds (x : R) (m : Z) : 1 <= x <= IZR m -> (1 <= RI.trunc_Z x <= m)%Z.
Proof.
  intros [H1 H2]. unfold RI.trunc_Z. destruct (Rle_dec 0 x); [|lra].
  destruct (base_Int_part x) as [A B]. split.
  - assert (IZR 0 < IZR (Int_part x)) by (cbn; lra). apply lt_IZR in H. lia.
  - apply le_IZR. lra.
Qed.

Lemma root_limit_of_int (wurzmax n : Z) (wumaxpf : R) : (1 <= n)%Z ->
  @root_limit_of R RNum wurzmax n wumaxpf =
    IZR (Z.min n (Z.max 1 (roundZ (IZR wurzmax * (wumaxpf / 11))))).
Proof.
  intros Hn. unfold root_limit_of, roundZ. rsimp. cbn [truncZ roundv RNum].
  destruct (round_is_int (IZR wurzmax * (wumaxpf / 11))) as [z Hz]. rewrite Hz, trunc_IZR.
  destruct (RI.ltb_spec (IZR n) (IZR z)) as [E1|E1].
  - apply lt_IZR in E1.
    destruct (RI.ltb_spec (IZR n) 1) as [E2|E2].
    + apply lt_IZR in E2. lia.
    + f_equal. lia.
  - assert (E1' : IZR z <= IZR n) by lra. apply le_IZR in E1'.
    destruct (RI.ltb_spec (IZR z) 1) as [E2|E2].
    + apply lt_IZR in E2. change 1 with (IZR 1). f_equal. lia.
    + assert (E2' : IZR 1 <= IZR z) by lra. apply le_IZR in E2'. f_equal. lia.
Qed.

Lemma root_core (W q2 dz : R) :
  1 <= W -> 0 < dz <= 12 -> 0 < q2 -> 45 / 10 / (W * dz) <= q2 ->
  (q2 = 45 / 10 / (W * dz) \/ q2 <= 35 / 100) ->
  1 <= 45 / 10 / q2 / dz <= W.
Proof.
  intros HW Hdz Hq2 Ha Hc.
  set (lim := 45 / 10 / (W * dz)) in *.
  assert (Hlimeq : lim * (W * dz) = 45 / 10).
  { unfold lim, Rdiv. rewrite Rmult_assoc, Rinv_l by nra. lra. }
  assert (Heq : 45 / 10 / q2 / dz * (q2 * dz) = 45 / 10).
  { unfold Rdiv. field. lra. }
  assert (Hpos : 0 < q2 * dz) by nra.
  split.
  - destruct Hc as [Hc|Hc].
    + assert (45 / 10 / q2 / dz = W); [|lra].
      apply (Rmult_eq_reg_r (q2 * dz)); [|nra]. rewrite Heq, Hc. nra.
    + apply (Rmult_le_reg_r (q2 * dz)); [exact Hpos|]. rewrite Heq. nra.
  - apply (Rmult_le_reg_r (q2 * dz)); [exact Hpos|]. rewrite Heq.
    assert (lim * (W * dz) <= q2 * (W * dz)) by (apply Rmult_le_compat_r; nra). nra.
Qed.

Lemma root_limit_lemma (wurzmax n : Z) (wumaxpf qrez dz : R) :
  (1 <= n)%Z -> 0 < qrez -> 0 < dz <= 12 ->
  let m := Z.min n (Z.max 1 (roundZ (IZR wurzmax * (wumaxpf / 11)))) in
  (1 <= root_depth wurzmax n wumaxpf qrez dz <= m)%Z.
Proof.
  intros Hn Hq Hdz m. unfold root_depth. rewrite root_limit_of_int by exact Hn. fold m.
  assert (Hm : (1 <= m)%Z) by (unfold m; lia).
  assert (HmR : 1 <= IZR m) by (apply (IZR_le 1); exact Hm).
  cbn [truncZ RNum]. apply trunc_bounds. decs. rsimp.
  set (W := IZR m) in *.
  assert (Hlim : 0 < 45 / 10 / (W * dz)) by (apply Rdiv_lt_0_compat; nra).
  destruct (RI.ltb_spec (35 / 100) qrez) as [E1|E1].
  - destruct (RI.ltb_spec (35 / 100) (45 / 10 / (W * dz))) as [E2|E2]; apply root_core; try lra.
  - destruct (RI.ltb_spec qrez (45 / 10 / (W * dz))) as [E2|E2]; apply root_core; try lra.
Qed.

(* ==================================================================== *)
(* 5. N uptake                                                           *)

Lemma demand_cap_range (d dt : R) : 0 <= dt -> 0 <= demand_cap d dt <= 6 * dt.
Proof.
  intros Hdt. unfold demand_cap. rsimp.
  destruct (RI.ltb_spec (6 * dt) d) as [E1|E1].
  - destruct (RI.ltb_spec (6 * dt) 0); lra.
  - destruct (RI.ltb_spec d 0); lra.
Qed.

Lemma demand_rootcap_le (d wulaen maxup dt : R) (legum : bool) : demand_rootcap d wulaen maxup dt legum <= d.
Proof.
  unfold demand_rootcap. rsimp.
  destruct (RI.ltb_spec (wulaen * maxup * dt) d); destruct legum; lra.
Qed.

Lemma pe_layer_range (d trnsum sumdiff mass diff c1 : R) :
  0 <= pe_layer d trnsum sumdiff mass diff c1 <= Rmax 0 (c1 - 75 / 100).
Proof.
  unfold pe_layer. decs. rsimp.
  destruct (RI.ltb_spec 0 d); [|split; [lra|apply Rmax_l]].
  match goal with |- context [if RI.leb d trnsum then ?a else ?b] =>
    generalize (if RI.leb d trnsum then a else b); intros p end.
  destruct (RI.ltb_spec (c1 - 75 / 100) p) as [E1|E1].
  - destruct (RI.ltb_spec (c1 - 75 / 100) 0) as [E2|E2].
    + split; [lra|apply Rmax_l].
    + split; [lra|apply Rmax_r].
  - destruct (RI.ltb_spec p 0) as [E2|E2].
    + split; [lra|apply Rmax_l].
    + split; [lra|]. eapply Rle_trans; [|apply Rmax_r]. lra.
Qed.

Lemma pe_layers_range (d trnsum sumdiff : R) (mass diff c1 : list R) :
  Forall2 (fun pe c => 0 <= pe <= Rmax 0 (c - 75 / 100))
          (pe_layers d trnsum sumdiff mass diff c1)
          (firstn (length (pe_layers d trnsum sumdiff mass diff c1)) c1).
Proof.
  revert diff c1; induction mass as [|m mr IH]; intros [|df dr] [|c cr]; cbn; try constructor.
  - apply pe_layer_range.
  - apply IH.
Qed.

Lemma nfix_range (legum : bool) (d sumpe : R) :
  0 <= d -> sumpe <= d -> 0 <= nfix_of legum d sumpe <= 74 / 100 * d.
Proof.
  intros Hd Hs. unfold nfix_of. destruct legum; [|rsimp; lra].
  decs. rsimp. destruct (RI.ltb_spec (74 / 100 * d) (d - sumpe)); lra.
Qed.

Lemma uptake_clamps_lemma (x : uptake_in (T:=R)) :
  0 <= ui_dt x ->
  let '(pe, nfix) := uptake_day x in
  uptake_demand x <= 6 * ui_dt x /\
  Forall2 (fun p c => 0 <= p <= Rmax 0 (c - 75 / 100)) pe (firstn (length pe) (ui_c1 x)) /\
  (0 <= uptake_demand x -> sum_list pe <= uptake_demand x -> 0 <= nfix <= 74 / 100 * uptake_demand x).
Proof.
  intros Hdt. unfold uptake_day. split; [|split].
  - unfold uptake_demand. eapply Rle_trans; [apply demand_rootcap_le|]. apply demand_cap_range. exact Hdt.
  - apply pe_layers_range.
  - intros H1 H2. apply nfix_range; assumption.
Qed.

(* ---- the day's total uptake never exceeds the (capped) demand when the supplies are non-negative ---- *)

Lemma sum_list_Rsum_acc (l : list R) (a : R) : fold_left Rplus l a = a + Rsum l.
Proof. revert a; induction l as [|x l IH]; intros a; cbn; [lra|rewrite IH; lra]. Qed.

Lemma sum_list_Rsum (l : list R) : @sum_list R RNum l = Rsum l.
Proof. unfold sum_list. rsimp. rewrite sum_list_Rsum_acc. lra. Qed.

Lemma pe_layer_le_lin (d T S m df c a b : R) :
  0 <= a * m + b * df ->
  (if RI.leb d T then d * m / T else if RI.ltb (d - T) S then m + (d - T) * df / S else m + df) = a * m + b * df ->
  pe_layer d T S m df c <= a * m + b * df.
Proof.
  intros Hnn Hp. unfold pe_layer. decs. rsimp.
  destruct (RI.ltb_spec 0 d); [|lra].
  rewrite Hp. set (p := a * m + b * df) in *.
  destruct (RI.ltb_spec (c - 75 / 100) p).
  - destruct (RI.ltb_spec (c - 75 / 100) 0); lra.
  - destruct (RI.ltb_spec p 0); lra.
Qed.

Lemma pe_layers_sum_lin (d T S a b : R) (mass diff c1 : list R) :
  Forall (fun m => 0 <= m) mass -> Forall (fun m => 0 <= m) diff -> 0 <= a -> 0 <= b ->
  length diff = length mass ->
  (forall m df, (if RI.leb d T then d * m / T else if RI.ltb (d - T) S then m + (d - T) * df / S else m + df) = a * m + b * df) ->
  Rsum (pe_layers d T S mass diff c1) <= a * Rsum mass + b * Rsum diff.
Proof.
  intros Hm Hd Ha Hb Hl Hp. revert diff c1 Hd Hl.
  induction Hm as [|m mr Hm0 Hmr IH]; intros [|df dr] c1 Hd Hl; cbn in *; try lia; try lra.
  inversion Hd as [|? ? Hdf Hdr]; subst.
  destruct c1 as [|c cr]; cbn.
  - assert (0 <= a * Rsum mr + b * Rsum dr).
    { assert (0 <= Rsum mr) by (clear -Hmr; induction Hmr; cbn; lra).
      assert (0 <= Rsum dr) by (clear -Hdr; induction Hdr; cbn; lra). nra. }
    nra.
  - assert (H1 : pe_layer d T S m df c <= a * m + b * df) by (apply pe_layer_le_lin; [nra|apply Hp]).
    specialize (IH dr cr Hdr ltac:(lia)). lra.
Qed.

Lemma uptake_total_lemma (d : R) (mass diff c1 : list R) :
  0 < d -> Forall (fun m => 0 <= m) mass -> Forall (fun m => 0 <= m) diff -> length diff = length mass ->
  Rsum (pe_layers d (Rsum mass) (Rsum diff) mass diff c1) <= d.
Proof.
  intros Hd Hm Hdf Hl.
  assert (HT : 0 <= Rsum mass) by (clear -Hm; induction Hm; cbn; lra).
  assert (HS : 0 <= Rsum diff) by (clear -Hdf; induction Hdf; cbn; lra).
  set (T := Rsum mass) in *. set (S := Rsum diff) in *.
  destruct (RI.leb_spec d T) as [E1|E1].
  - (* mass flow alone covers the demand *)
    eapply Rle_trans.
    + apply (pe_layers_sum_lin d T S (d / T) 0); try assumption; try lra.
      * apply Rlt_le, Rdiv_lt_0_compat; lra.
      * intros m df. destruct (RI.leb_spec d T); [|lra]. unfold Rdiv. lra.
    + fold T. unfold Rdiv. rewrite Rmult_assoc, Rinv_l by lra. lra.
  - destruct (RI.ltb_spec (d - T) S) as [E2|E2].
    + (* diffusion fills the gap *)
      eapply Rle_trans.
      * apply (pe_layers_sum_lin d T S 1 ((d - T) / S)); try assumption; try lra.
        -- apply Rlt_le, Rdiv_lt_0_compat; lra.
        -- intros m df. destruct (RI.leb_spec d T); [lra|]. destruct (RI.ltb_spec (d - T) S); [|lra]. unfold Rdiv. lra.
      * fold T S. unfold Rdiv. rewrite Rmult_assoc, Rinv_l by lra. lra.
    + (* supply limited *)
      eapply Rle_trans.
      * apply (pe_layers_sum_lin d T S 1 1); try assumption; try lra.
        intros m df. destruct (RI.leb_spec d T); [lra|]. destruct (RI.ltb_spec (d - T) S); lra.
      * fold T S. lra.
Qed.

(* non-vacuity of the hypotheses of the stage theorem *)
Lemma c09_nonvacuous_lemma :
  let s := {| st_k := 0; st_sum := [0; 0; 0; 0; 0; 0; 0; 0; 0; 0]; st_dev := [0; 0; 0; 0; 0; 0; 0; 0; 0; 0]%Z;
              st_dates := [100; 0; 0; 0; 0; 0; 0; 0; 0; 0]%Z; st_phyllo := 0 |} in
  let day z := {| si_tsum := [100; 200; 300; 300; 300; 300; 0; 0; 0; 0]; si_bas := [1; 1; 1; 1; 1; 1; 0; 0; 0; 0];
                  si_nrentw := 6; si_doy := z; si_zeit := z; si_temp := 15; si_wg00 := 3 / 10; si_w0 := 3 / 10;
                  si_wmin0 := 1 / 10; si_dt := 1; si_fv := 1; si_fp := 1; si_devprog := 1 |} in
  dates_ok s 100 /\ days_from 100 (length (st_dates s)) [day 101%Z; day 102%Z].
Proof.
  cbn. unfold dates_ok. cbn. repeat split; try lia.
  - intros i j H. assert (i = 0%nat) by lia. assert (j = 0%nat) by lia. subst. cbn. lia.
  - intros i H. assert (i = 0%nat) by lia. subst. cbn. lia.
Qed.
