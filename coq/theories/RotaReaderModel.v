(* RotaReaderModel.v — executable model of the crop rotation reader in hermes/input.go:358-600
   (crop_<project>.txt: white-space separated tokens, strings.Fields; crop_<project>.csv: cells
   split at ',' — EMPTY CELLS ARE KEPT — with the columns found by the header names), for runs
   without automatic sowing / harvest / fertilisation / irrigation (the automan.txt table is then
   not consulted).  No proofs here.  A line is a list of bytes; a panic (index out of range, the
   date-order check) or log.Fatal is [Crash], the error return "Field_ID not found" is [Err].
   Dates go through DateModel.date_converter (= g.Datum).  Numbers: any number type [T].
   Plus the two renderings of an abstract rotation the agreement theorem is about. *)
From Coq Require Import ZArith List Bool Ascii String Lia.
From Hermes Require Import Num DateModel CropParamModel SoilModel.
Import ListNotations.
Local Open Scope Z_scope.

(* column indices of the row tokens (input.go:362-369; the CSV header may move them :381-399) *)
Record hidx := { hS : nat; hC : nat; hSow : nat; hHar : nat; hJN : nat; hRes : nat; hOrg : nat; hVar : nat }.
Definition hidx_default : hidx :=
  {| hS := 0; hC := 1; hSow := 2; hHar := 3; hJN := 4; hRes := 5; hOrg := 6; hVar := 7 |}.

Fixpoint hidx_scan (toks : list lstr) (i : nat) (h : hidx) : hidx :=
  match toks with
  | [] => h
  | t :: r =>
      let h' :=
        if leqb t (lstr_of "Field_ID") then {| hS := i; hC := hC h; hSow := hSow h; hHar := hHar h; hJN := hJN h; hRes := hRes h; hOrg := hOrg h; hVar := hVar h |}
        else if leqb t (lstr_of "crop") then {| hS := hS h; hC := i; hSow := hSow h; hHar := hHar h; hJN := hJN h; hRes := hRes h; hOrg := hOrg h; hVar := hVar h |}
        else if leqb t (lstr_of "sowing") then {| hS := hS h; hC := hC h; hSow := i; hHar := hHar h; hJN := hJN h; hRes := hRes h; hOrg := hOrg h; hVar := hVar h |}
        else if leqb t (lstr_of "harvest") then {| hS := hS h; hC := hC h; hSow := hSow h; hHar := i; hJN := hJN h; hRes := hRes h; hOrg := hOrg h; hVar := hVar h |}
        else if leqb t (lstr_of "Rex") then {| hS := hS h; hC := hC h; hSow := hSow h; hHar := hHar h; hJN := i; hRes := hRes h; hOrg := hOrg h; hVar := hVar h |}
        else if leqb t (lstr_of "yld") then {| hS := hS h; hC := hC h; hSow := hSow h; hHar := hHar h; hJN := hJN h; hRes := i; hOrg := hOrg h; hVar := hVar h |}
        else if leqb t (lstr_of "autorg") then {| hS := hS h; hC := hC h; hSow := hSow h; hHar := hHar h; hJN := hJN h; hRes := hRes h; hOrg := i; hVar := hVar h |}
        else if leqb t (lstr_of "variety") then {| hS := hS h; hC := hC h; hSow := hSow h; hHar := hHar h; hJN := hJN h; hRes := hRes h; hOrg := hOrg h; hVar := i |}
        else h in
      hidx_scan r (S i) h'
  end.

(* what the reader looks at in one row: NextLineInut's validity and trimmed id (helper.go:31), the cells
   by index (None: index out of range when read), the two length tests *)
Record rview := {
  rv_valid : bool; rv_id : lstr; rv_crop : option lstr; rv_sow : option lstr; rv_har : option lstr;
  rv_jn : option lstr; rv_res : option lstr; rv_org : option lstr (* None: len <= hOrg: 0 *);
  rv_var : lstr (* "" when len <= hVar: the fresh array cell *) }.

Definition view (h : hidx) (toks : list lstr) : rview :=
  {| rv_valid := Nat.ltb (hS h) (List.length toks);
     rv_id := match nth_error toks (hS h) with Some t => trim t | None => [] end;
     rv_crop := option_map trim (nth_error toks (hC h));          (* ToCropType trims *)
     rv_sow := nth_error toks (hSow h); rv_har := nth_error toks (hHar h);
     rv_jn := nth_error toks (hJN h); rv_res := nth_error toks (hRes h);
     rv_org := if Nat.ltb (hOrg h) (List.length toks) then nth_error toks (hOrg h) else None;
     rv_var := if Nat.ltb (hVar h) (List.length toks) then match nth_error toks (hVar h) with Some t => t | None => [] end else [] |}.

Section Model.
  Context {T : Type} {NT : Num T}.

  Record rentry := { re_crop : lstr; re_var : lstr; re_saat : Z; re_ernte : Z; re_odu : T; re_jn : T; re_ertr : T }.
  (* entries in rotation order, day of year of the first harvest (ITAG), and what is written behind the
     last row of every block of rows of the field: crop SM, SAAT1 = SAAT2 = last sowing + 365
     (input.go:588-594) as (array index, value); a later row overwrites the crop, not SAAT1/SAAT2 *)
  Record rotation := { ro_entries : list rentry; ro_itag : Z; ro_sentinels : list (nat * Z) }.

  (* the strictly increasing date check (:400-417): last date seen, 0 = none yet *)
  Definition check_date (cent : Z) (f : datefmt) (last : Z) (d : lstr) : res Z :=
    match date_converter cent f d with
    | None => Crash
    | Some (_, n) => if last =? 0 then Ok n else if n <=? last then Crash else Ok n
    end.

  (* the two nested loops (:419-596).  [inner = false]: the outer loop has just read the row: an invalid
     row (no id cell) ends the reading, a row of another field is skipped.  [inner = true]: the row was read
     at the end of the inner loop body: if it is not a valid row of the field the block ends — the entry
     behind it is written — and the row is dropped (the outer loop reads the next one). *)
  Fixpoint scan_rows (cent : Z) (f : datefmt) (pkt : lstr) (inner : bool) (rows : list rview)
      (acc : list rentry) (sent : list (nat * Z)) (itag last : Z) : res (list rentry * list (nat * Z) * Z) :=
    let close := match acc with e :: _ => sent ++ [(List.length acc, re_saat e + 365)] | [] => sent end in
    match rows with
    | [] => Ok (rev acc, (if inner then close else sent), itag)
    | r :: rest =>
        let mine := rv_valid r && leqb (rv_id r) pkt in
        if negb mine then
          if inner then scan_rows cent f pkt false rest acc close itag last
          else if negb (rv_valid r) then Ok (rev acc, sent, itag)
          else scan_rows cent f pkt false rest acc sent itag last
        else
        let first := match acc with [] => true | _ => false end in
        let* crop := crash_if_none (rv_crop r) in
        let* lastS := if first then Ok last
                      else (let* s := crash_if_none (rv_sow r) in check_date cent f last s) in
        let* hs := crash_if_none (rv_har r) in
        let* lastH := check_date cent f lastS hs in
        let* odu := match rv_org r with Some t => crash_if_none (val_as_float t) | None => Ok zero end in
        let* jn := crash_if_none (let? t := rv_jn r in val_as_float t) in
        let* ertr := if first then crash_if_none (let? t := rv_res r in val_as_float t) else Ok zero in
        let itag' := if first then match date_converter cent f hs with Some (z, _) => z | None => 0 end else itag in
        scan_rows cent f pkt true rest
          ({| re_crop := crop; re_var := rv_var r; re_saat := if first then 0 else lastS; re_ernte := lastH;
              re_odu := odu; re_jn := div jn (ofZ 100); re_ertr := ertr |} :: acc) sent itag' lastH
    end.

  Definition read_rows (cent : Z) (f : datefmt) (pkt : lstr) (rows : list rview) : res rotation :=
    let* r := scan_rows cent f pkt false rows [] [] 0 0 in
    let '(es, sent, itag) := r in
    match es with
    | [] => Err                                                       (* :597 Field_ID not found *)
    | _ => Ok {| ro_entries := es; ro_itag := itag; ro_sentinels := sent |}
    end.

  (* the two encodings: header line, then rows *)
  Definition read_rot_txt (cent : Z) (f : datefmt) (pkt : lstr) (lines : list lstr) : res rotation :=
    match lines with
    | [] => Crash
    | _ :: data => read_rows cent f pkt (map (fun l => view hidx_default (fields l)) data)
    end.

  Definition read_rot_csv (cent : Z) (f : datefmt) (pkt : lstr) (lines : list lstr) : res rotation :=
    match lines with
    | [] => Crash
    | hd :: data =>
        let h := hidx_scan (split_on ","%char hd) 0 hidx_default in
        read_rows cent f pkt (map (fun l => view h (split_on ","%char l)) data)
    end.
End Model.

Arguments rentry T : clear implicits.
Arguments rotation T : clear implicits.

(* ------------------------------------------------------------------ *)
(* an abstract rotation row and its two renderings.  The text form has no empty cells: a row ends after
   yld, after autorg, or after the variety (then a comment may follow); the CSV form has all nine cells
   when autorg is given (variety and comment possibly empty) and six otherwise. *)
Record arow := { ar_field : lstr; ar_crop : lstr; ar_sow : lstr; ar_har : lstr; ar_rex : lstr; ar_yld : lstr;
                 ar_org : option lstr; ar_var : lstr (* "" = none *); ar_comment : lstr (* CSV only when no variety *) }.

Definition txt_tokens (r : arow) : list lstr :=
  [ar_field r; ar_crop r; ar_sow r; ar_har r; ar_rex r; ar_yld r] ++
  match ar_org r with
  | None => []
  | Some o => o :: match ar_var r with [] => [] | v => [v] ++ match ar_comment r with [] => [] | c => [c] end end
  end.
Definition render_rot_txt_row (r : arow) : lstr := List.concat (map (fun t => t ++ [" "%char]) (txt_tokens r)).

Definition csv_cells (r : arow) : list lstr :=
  [ar_field r; ar_crop r; ar_sow r; ar_har r; ar_rex r; ar_yld r] ++
  match ar_org r with None => [] | Some o => [o; ar_var r; ar_comment r] end.
Definition render_rot_csv_row (r : arow) : lstr := intercalate [","%char] (csv_cells r).

Definition rot_txt_header : lstr := lstr_of "Field_ID crp sowing harvst Rex yld autorg variety comment".
Definition rot_csv_header : lstr := lstr_of "Field_ID,crp,sowing,harvst,Rex,yld,autorg,variety,comment".
Definition render_rot_txt (rows : list arow) : list lstr := rot_txt_header :: map render_rot_txt_row rows ++ [lstr_of "end"].
Definition render_rot_csv (rows : list arow) : list lstr := rot_csv_header :: map render_rot_csv_row rows ++ [lstr_of "end"].
