(* Prop_C16.v — property C16 (crop rotation is followed and automatic management respects its
   windows), stated about RotationModel (model of the rotation cursor of hermes/nitro.go, the sowing
   test of hermes/crop.go and the automatic sowing / harvest / irrigation / N blocks of hermes/run.go,
   hermes/crop.go, hermes/nitro.go).  Only statements, each closed by [exact lemma], and Print
   Assumptions.  Weather- and state-dependent trigger conditions are boolean oracle arguments
   ([trig]): the theorems hold for every value of them, i.e. for all weather. *)
From Coq Require Import ZArith List Bool Reals Sorted.
From Hermes Require Import Num RotationModel RotationProofs SchedModel SchedProofs.
Import ListNotations.
Open Scope Z_scope.

(* rotation_order: with the rotation entries (s_k, e_k), k = 1.., BEGINN = e_0 < s_1 < e_1 < s_2 < ...,
   harvests happen in the order of the entries, each entry at most once, and every event of entry j
   is on the date of entry j *)
Theorem C16_rotation_order :
  forall (saat ernte ernte2 : Z -> Z) (B : Z) (l : list (Z * Z)) (fuel : nat),
  0 < B -> holds saat ernte ernte2 0 ((0, B) :: l) -> chain B l ->
  let evs := rot_run saat ernte ernte2 fuel B 0 in
  StronglySorted Z.lt (flat_map (fun e => match e with (_, Harv, j) => [j] | _ => [] end) evs) /\
  (forall z kind j, In (z, kind, j) evs ->
     z <= B + Z.of_nat fuel - 1 /\ 0 <= j <= Z.of_nat (length l) /\
     z = (match kind with Sow => fst | Harv => snd end) (nth (Z.to_nat j) ((0, B) :: l) (0, 0))).
Proof. exact rot_order. Qed.

(* ... and every crop record is the one of a harvested entry k >= 1: crop code FRUCHT[k], year of its
   harvest day *)
Theorem C16_crop_records :
  forall (frucht year : Z -> Z) (evs : list (Z * rkind * Z)) (k c y : Z),
  In (k, c, y) (crop_records frucht year evs) ->
  1 <= k /\ c = frucht k /\ exists z, In (z, Harv, k) evs /\ y = year z.
Proof. exact crop_records_spec. Qed.

(* fixed_dates: automation off -> the whole event sequence of the run is: (harvest of the initial
   crop on BEGINN,) sowing k on s_k, harvest k on e_k, for every date <= ENDE, in order *)
Theorem C16_fixed_dates :
  forall (saat ernte ernte2 : Z -> Z) (B : Z) (l : list (Z * Z)) (fuel : nat),
  0 < B -> holds saat ernte ernte2 0 ((0, B) :: l) -> chain B l ->
  rot_run saat ernte ernte2 fuel B 0 = rot_expected (B + Z.of_nat fuel - 1) 0 true ((0, B) :: l).
Proof. exact rot_fixed_dates. Qed.

(* sow_window, one day: the automatic sowing block sets SAAT only to today, only inside the window,
   and — unless today is the window end — only if the trigger holds and today > previous harvest + 4 *)
Theorem C16_sow_window_day :
  forall (z saat1 saat2 prev : Z) (trig : bool) (s' : Z),
  auto_sow z 0 saat1 saat2 prev trig = s' -> s' <> 0 ->
  s' = z /\ saat1 <= z /\ (z = saat2 \/ (trig = true /\ prev + 4 < z)).
Proof. exact auto_sow_rule. Qed.

(* sow_window, whole window, for all weather: an entry that is current from a day z <= SAAT2 on is sown
   on a day s with SAAT1 <= s <= SAAT2, z <= s, and s = SAAT2 (forced) or s > previous harvest + 4 *)
Theorem C16_sow_window :
  forall (trig : Z -> bool) (saat1 saat2 prev : Z) (fuel : nat) (z : Z),
  0 < saat1 -> saat1 <= saat2 -> z <= saat2 -> saat2 < z + Z.of_nat fuel ->
  let s := sow_loop trig saat1 saat2 prev fuel z 0 in
  saat1 <= s <= saat2 /\ z <= s /\ (s = saat2 \/ prev + 4 < s).
Proof. exact sow_loop_window. Qed.

(* harvest_latest, for all weather: from a day z before the latest date on, the harvest date is fixed
   on a day e with z <= e <= ERNTE2 (forced on ERNTE2-1 to ERNTE2) *)
Theorem C16_harvest_latest :
  forall (trig : Z -> bool) (fuel : nat) (z e2 : Z),
  0 < z -> z <= e2 - 1 -> e2 - 1 < z + Z.of_nat fuel ->
  let '(e, e2') := harvest_loop trig fuel z 0 e2 in
  z <= e <= e2 /\ e2' = (if e <? e2 then e else e2) /\ e <> 0.
Proof. exact harvest_loop_latest. Qed.

(* the rule of crop.go:192-195/551-554: a fixed sowing date of the next entry that already passed is
   moved (with its window end) to harvest + 4, otherwise left alone *)
Theorem C16_next_sowing_moved :
  forall z h s s2 : Z, let '(s', s2') := move_next_sowing z h s s2 in
  (0 < s < z -> s' = h + 4 /\ s2' = h + 4) /\ (~ (0 < s < z) -> s' = s /\ s2' = s2).
Proof. exact move_next_sowing_rule. Qed.

(* irr_window: automatic irrigation is applied only after sowing, only between the configured stages,
   amount = min(0.9 * deficit, IRRMAX) <= IRRMAX, and >= 0 for a non-negative deficit *)
Theorem C16_irr_window :
  forall (z saat : Z) (intwick irrst1 irrst2 : R) (trig : bool) (defzsum irrmax amount : R),
  auto_irr z saat intwick irrst1 irrst2 trig defzsum irrmax = Some amount ->
  (0 < saat < z) /\ (irrst1 <= intwick < irrst2 + 1)%R /\ trig = true /\
  amount = Rmin (defzsum * (9 / 10)) irrmax /\ (amount <= irrmax)%R /\
  ((0 <= defzsum)%R -> (0 <= irrmax)%R -> (0 <= amount)%R).
Proof. exact auto_irr_rule. Qed.

Theorem C16_irr_outside_window :
  forall (z saat : Z) (intwick irrst1 irrst2 : R) (trig : bool) (defzsum irrmax : R),
  (~ (0 < saat < z) \/ (intwick < irrst1)%R \/ (irrst2 + 1 <= intwick)%R \/ trig = false) ->
  auto_irr z saat intwick irrst1 irrst2 trig defzsum irrmax = None.
Proof. exact auto_irr_outside. Qed.

(* autofert_nonneg: every automatic mineral N amount is max(demand - Nmin, 0) >= 0, and the organic
   amounts of a table row with fractions in [0,1] are non-negative *)
Theorem C16_autofert_nonneg :
  forall ndem nmin : R, (0 <= auto_n ndem nmin)%R /\ auto_n ndem nmin = Rmax (ndem - nmin) 0.
Proof. exact auto_n_nonneg. Qed.

Theorem C16_autofert_organic_nonneg :
  forall (dgmg : R) (r : frow R),
  (0 <= dgmg)%R -> (0 <= f_ntot r)%R -> (0 <= f_ndir r <= 1)%R -> (0 <= f_nfst r)%R -> (0 <= f_nslo r)%R ->
  (0 <= f_nh4 r <= 1)%R -> (0 <= f_loss r <= 1)%R ->
  let p := dueng_row dgmg r in
  (0 <= p_ndir p /\ 0 <= p_nh4n p /\ 0 <= p_nsas p /\ 0 <= p_nlas p)%R.
Proof. exact dueng_row_nonneg. Qed.

(* ---- statements about the state (the trigger conditions are modelled, RotationModel.sow_cond / harvest_cond /
        irr_state / autofert_day; tied bit-exact to the real runs on the traced days) ---- *)

(* sowing happens on the first day of the window on which the modelled condition (temperature sum of the year,
   sliding mean and daily temperature against TSLMIN/TSLMAX, top-layer moisture between MINMOI and MAXMOI, rain
   today <= 0.5 and yesterday <= 5) holds and that is later than the previous harvest + 4 — else on the last day *)
Theorem C16_sow_first_day :
  forall (env : Z -> sow_env R) (saat1 saat2 prev : Z) (fuel : nat) (z : Z),
  0 < z -> 0 < saat1 -> saat1 <= saat2 -> z <= saat2 -> saat2 < z + Z.of_nat fuel ->
  let s := sow_loop (fun y => sow_cond (env y)) saat1 saat2 prev fuel z 0 in
  let lo := Z.max z saat1 in
  lo <= s <= saat2 /\
  (forall y, lo <= y < s -> ~ (sow_cond (env y) = true /\ prev + 4 < y)) /\
  (s < saat2 -> sow_cond (env s) = true /\ prev + 4 < s).
Proof. exact sow_first_day_state. Qed.

(* harvest happens on the first day on which the modelled condition (emerged, last development stage with more than
   60 % of its temperature sum, top-layer moisture between MINHMOI and MAXHMOI, four-day rain <= RAINLIM, rain today
   <= RAINACT, day of year > 3) holds — else on the configured latest date *)
Theorem C16_harvest_first_day :
  forall (env : Z -> harv_env R) (fuel : nat) (z e2 : Z),
  0 < z -> z <= e2 - 1 -> e2 - 1 < z + Z.of_nat fuel ->
  let '(e, e2') := harvest_loop (fun y => harvest_cond (env y)) fuel z 0 e2 in
  z <= e <= e2 /\ (forall y, z <= y < e -> y <= e2 - 1 -> harvest_cond (env y) = false) /\
  (e < e2 -> harvest_cond (env e) = true) /\ e2' = (if e <? e2 then e else e2).
Proof. exact harvest_first_day_state. Qed.

(* automatic irrigation as a function of the state: applied only after sowing, inside the stage window, when the mean
   plant-available water over the irrigation depth is below IRRLOW and the two-day rain forecast is below 0.9;
   amount = 90 % of the modelled deficit clipped to IRRMAX; non-negative when field capacity exceeds the wilting point *)
Theorem C16_irr_state :
  forall (z saat : Z) (intwick irrst1 irrst2 irrmax : R) (e : irr_env R) (amount : R),
  auto_irr_state z saat intwick irrst1 irrst2 irrmax e = Some amount ->
  (0 < saat < z) /\ (irrst1 <= intwick < irrst2 + 1)%R /\
  (fst (irr_state e) < ie_irrlow e)%R /\ (ie_rain1 e + ie_rain2 e < 9 / 10)%R /\
  amount = Rmin (snd (irr_state e) * (9 / 10)) irrmax /\ (amount <= irrmax)%R /\
  ((forall wg w wmin, In (wg, w, wmin) (ie_layers e) -> (wmin < w)%R) -> (0 <= irrmax)%R -> (0 <= amount)%R).
Proof. exact auto_irr_state_rule. Qed.

Theorem C16_irr_state_none :
  forall (z saat : Z) (intwick irrst1 irrst2 irrmax : R) (e : irr_env R),
  (~ (0 < saat < z) \/ (intwick < irrst1)%R \/ (irrst2 + 1 <= intwick)%R \/ irr_cond e = false) ->
  auto_irr_state z saat intwick irrst1 irrst2 irrmax e = None.
Proof. exact auto_irr_state_none. Qed.

(* every event of an automatic-fertilisation call: organic (directly available N of the table split) or a mineral
   dose = max(0, demand - Nmin) >= 0 *)
Theorem C16_autofert_doses :
  forall (e : af_env R) (s : af_state R) (k : Z) (a : R),
  In (k, a) (snd (autofert_day e s)) ->
  (k = 0 /\ a = o_ndir (ae_pay_prev e)) \/ (k = 1 /\ a = o_ndir (ae_pay_cur e)) \/
  ((0 <= a)%R /\ exists nmin, a = Rmax ((if k =? 2 then ae_ndem1 e else if k =? 3 then ae_ndem2 e else ae_ndem3 e) - nmin) 0 /\
                           2 <= k <= 4).
Proof. exact autofert_doses. Qed.

(* non-vacuity: a window 130..140 after a harvest on day 128, trigger true from day 131 on: sown on 133 *)
Example C16_sow_example :
  sow_loop (fun z => 131 <=? z) 130 140 128 30 120 0 = 133.
Proof. vm_compute. reflexivity. Qed.

Print Assumptions C16_rotation_order.
Print Assumptions C16_crop_records.
Print Assumptions C16_fixed_dates.
Print Assumptions C16_sow_window_day.
Print Assumptions C16_sow_window.
Print Assumptions C16_harvest_latest.
Print Assumptions C16_next_sowing_moved.
Print Assumptions C16_irr_window.
Print Assumptions C16_irr_outside_window.
Print Assumptions C16_autofert_nonneg.
Print Assumptions C16_autofert_organic_nonneg.
Print Assumptions C16_sow_first_day.
Print Assumptions C16_harvest_first_day.
Print Assumptions C16_irr_state.
Print Assumptions C16_irr_state_none.
Print Assumptions C16_autofert_doses.
