(* OverrideProofs.v — lemmas about OverrideModel: the batch-line override equals the same edit in
   the crop file, on the full crop state. *)
From Coq Require Import ZArith List Bool Ascii String Lia.
From Hermes Require Import Num DateModel CropParamModel CropParamProofs OverrideModel.
Import ListNotations.
Local Open Scope Z_scope.

Section Commute.
  Context {T : Type} {NT : Num T}.

  Lemma invalid_rejected_lemma : forall cont (o : cropow T) s,
    valid o (NRKOM s) (NRENTW s) = false -> apply cont o s = s.
  Proof. intros cont o s H. unfold apply. now rewrite H. Qed.

  Lemma other_file_untouched_lemma : forall cont target (o : cropow T) file s,
    target <> base_name file -> apply_to cont target o file s = s.
  Proof.
    intros cont target o file s H. unfold apply_to, applies_to, lstr_eqb.
    destruct (list_eq_dec ascii_dec target (base_name file)); [contradiction|reflexivity].
  Qed.

  Lemma addressed_file_lemma : forall cont (o : cropow T) file s,
    apply_to cont (base_name file) o file s = apply cont o s.
  Proof.
    intros. unfold apply_to, applies_to, lstr_eqb.
    destruct (list_eq_dec ascii_dec (base_name file) (base_name file)); [reflexivity|congruence].
  Qed.

  (* what validity says about the entries the lookups can return *)
  Lemma look_stage_range (o : cropow T) nk ne p k v :
    valid o nk ne = true -> look_stage o p k = Some v -> 1 <= k <= ne.
  Proof.
    unfold valid, look_stage. intros V L.
    apply andb_true_iff in V as [V _]. apply andb_true_iff in V as [_ V].
    destruct (find _ (ow_stage o)) as [e|] eqn:F; [|discriminate].
    apply find_some in F as [Hin Hp]. rewrite forallb_forall in V. specialize (V e Hin).
    apply andb_true_iff in Hp as [_ Hk]. apply Z.eqb_eq in Hk. subst k.
    unfold stage_ok in V. apply andb_true_iff in V as [V _]. apply andb_true_iff in V as [A B].
    apply Z.leb_le in A. apply Z.leb_le in B. lia.
  Qed.

  Lemma look_part_range (o : cropow T) nk ne p i j v :
    valid o nk ne = true -> look_part o p i j = Some v -> 1 <= i <= ne /\ 1 <= j <= nk.
  Proof.
    unfold valid, look_part. intros V L.
    apply andb_true_iff in V as [_ V].
    destruct (find _ (ow_part o)) as [e|] eqn:F; [|discriminate].
    apply find_some in F as [Hin Hp]. rewrite forallb_forall in V. specialize (V e Hin).
    apply andb_true_iff in Hp as [Hp Hj]. apply andb_true_iff in Hp as [_ Hi].
    apply Z.eqb_eq in Hi. apply Z.eqb_eq in Hj. subst i j.
    unfold part_ok in V. apply andb_true_iff in V as [V _].
    apply andb_true_iff in V as [V D]. apply andb_true_iff in V as [V C]. apply andb_true_iff in V as [A B].
    apply Z.leb_le in A. apply Z.leb_le in B. apply Z.leb_le in C. apply Z.leb_le in D. lia.
  Qed.

  Lemma look_stage_none_beyond (o : cropow T) nk ne p k :
    valid o nk ne = true -> ~ (1 <= k <= ne) -> look_stage o p k = None.
  Proof.
    intros V H. destruct (look_stage o p k) eqn:L; [|reflexivity].
    exfalso. apply H. eapply look_stage_range; eauto.
  Qed.

  Lemma look_part_none_beyond (o : cropow T) nk ne p i j :
    valid o nk ne = true -> ~ (1 <= i <= ne /\ 1 <= j <= nk) -> look_part o p i j = None.
  Proof.
    intros V H. destruct (look_part o p i j) eqn:L; [|reflexivity].
    exfalso. apply H. eapply look_part_range; eauto.
  Qed.

  Lemma no_key_no_value (o : cropow T) p k : has_stage_key o p = false -> look_stage o p k = None.
  Proof.
    unfold has_stage_key, look_stage. intros H.
    destruct (find _ (ow_stage o)) as [e|] eqn:F; [|reflexivity].
    apply find_some in F as [Hin Hp]. apply andb_true_iff in Hp as [Hp _].
    assert (existsb (fun e => pname_eqb (fst (fst e)) p) (ow_stage o) = true)
      by (apply existsb_exists; eauto).
    congruence.
  Qed.

  (* a stage array after the loop, edited record vs override on the loaded state *)
  Lemma stage_array_commutes (o : cropow T) nk ne p (f : stage_rec T -> T) sts old :
    valid o nk ne = true -> Z.of_nat (List.length sts) = Z.max 0 ne ->
    (forall i st, f (edit_stage o i st) = orelse (look_stage o p (Z.of_nat i + 1)) (f st)) ->
    tab 10 (stage_entry (mapi (edit_stage o) sts) f old zero) =
    upd_stage o p (tab 10 (stage_entry sts f old zero)).
  Proof.
    intros V L Hf. unfold upd_stage. rewrite mapi_tab. apply tab_ext. intros i _.
    unfold stage_entry. rewrite nth_error_mapi.
    destruct (nth_error sts i) eqn:E; cbn [option_map].
    - apply Hf.
    - apply nth_error_None in E.
      rewrite (look_stage_none_beyond o nk ne) by (auto; lia). reflexivity.
  Qed.

  Lemma part_table_commutes (o : cropow T) nkz ne p (f : stage_rec T -> list T) sts dauer old :
    valid o nkz ne = true -> Z.of_nat (List.length sts) = Z.max 0 ne ->
    Forall (fun st => (ztn nkz <= List.length (f st))%nat) sts ->
    (forall i st, f (edit_stage o i st) =
                  mapi (fun j x => orelse (look_part o p (Z.of_nat i + 1) (Z.of_nat j + 1)) x) (f st)) ->
    tab 10 (fun i => tab 5 (part_entry (mapi (edit_stage o) sts) f (ztn nkz) dauer old i)) =
    upd_part o p (tab 10 (fun i => tab 5 (part_entry sts f (ztn nkz) dauer old i))).
  Proof.
    intros V L Hlen Hf. unfold upd_part. rewrite mapi_tab. apply tab_ext. intros i _.
    rewrite mapi_tab. apply tab_ext. intros j _.
    unfold part_entry. rewrite nth_error_mapi.
    destruct (nth_error sts i) eqn:E; cbn [option_map].
    - rewrite Hf, firstn_mapi, nth_error_mapi.
      destruct (nth_error (firstn (ztn nkz) (f s)) j) eqn:E2; cbn [option_map]; [reflexivity|].
      apply nth_error_None in E2. rewrite firstn_length in E2.
      rewrite Forall_forall in Hlen. pose proof (Hlen s (nth_error_In _ _ E)) as Hs.
      rewrite (look_part_none_beyond o nkz ne) by (auto; unfold ztn in *; lia). reflexivity.
    - apply nth_error_None in E.
      rewrite (look_part_none_beyond o nkz ne) by (auto; lia). reflexivity.
  Qed.

  Lemma existsb_bbch (l : list (stage_rec T)) :
    existsb (fun st => 0 <? st_bbch st) l = existsb (fun b => 0 <? b) (map st_bbch l).
  Proof. induction l as [|x l IH]; cbn; [reflexivity|]. now rewrite <- IH. Qed.

  Ltac inv_if H :=
    repeat match type of H with
           | (if ?b then None else _) = Some _ =>
               let E := fresh "C" in destruct b eqn:E; [discriminate H|]
           end.

  Theorem override_commutes_lemma : forall cont (r : crop_rec T) s0 s (o : cropow T),
    state_of_yaml cont r s0 = Some s ->
    valid o (NRKOM s) (NRENTW s) = true ->
    state_of_yaml cont (edit_rec o r) s0 = Some (apply cont o s).
  Proof.
    intros cont r s0 s o H V.
    unfold state_of_yaml in H. inv_if H. injection H as Hs.
    assert (Nk : NRKOM s = r_nrkom r) by (subst s; reflexivity).
    assert (Ne : NRENTW s = r_nrentw r) by (subst s; reflexivity).
    rewrite Nk, Ne in V.
    apply negb_false_iff in C0, C2, C3, C4, C5, C6. apply Z.ltb_ge in C, C1.
    apply Nat.leb_le in C5.
    set (ne := ztn (r_nrentw r)) in *. set (nk := ztn (r_nrkom r)) in *.
    set (sts := firstn ne (r_stages r)) in *.
    assert (Lsts : List.length sts = ne) by (subst sts; rewrite firstn_length; lia).
    assert (LstsZ : Z.of_nat (List.length sts) = Z.max 0 (r_nrentw r)) by (rewrite Lsts; subst ne; unfold ztn; lia).
    assert (Flen : Forall (fun st => (nk <= List.length (st_pro st))%nat /\ (nk <= List.length (st_dead st))%nat) sts).
    { apply Forall_forall. intros st Hin. rewrite forallb_forall in C6. specialize (C6 st Hin).
      unfold stage_long_enough in C6. apply andb_true_iff in C6 as [A B].
      apply Nat.leb_le in A. apply Nat.leb_le in B. auto. }
    unfold state_of_yaml.
    cbn [edit_rec r_nrkom r_nrentw r_ago r_nnames r_worg r_mairt r_stages r_maxamax r_temptyp
      r_mintmp r_wumaxpf r_veloc r_ngefkt r_rga r_rgb r_suborgan r_yorgan r_yifak r_dauerkult r_legum
      r_initbiom r_initroot r_kcini].
    fold ne nk.
    replace (5 <? r_nrkom r) with false by (symmetry; apply Z.ltb_ge; lia).
    rewrite C0. cbn [negb].
    replace (10 <? r_nrentw r) with false by (symmetry; apply Z.ltb_ge; lia).
    rewrite C2, C3, C4. cbn [negb].
    replace (10 <? r_nrentw r) with false by (symmetry; apply Z.ltb_ge; lia).
    rewrite mapi_length. replace (Nat.leb ne (List.length (r_stages r))) with true by (symmetry; apply Nat.leb_le; lia).
    cbn [negb]. rewrite firstn_mapi. fold sts.
    replace (forallb (stage_long_enough nk) (mapi (edit_stage o) sts)) with true.
    2:{ symmetry. apply forallb_forall. intros st Hin. apply In_nth_error in Hin as [i Hi].
        rewrite nth_error_mapi in Hi. destruct (nth_error sts i) as [st0|] eqn:E; [|discriminate]. cbn in Hi. inversion Hi; subst st.
        rewrite Forall_forall in Flen. destruct (Flen st0 (nth_error_In _ _ E)) as [A B].
        unfold stage_long_enough. cbn [edit_stage st_pro st_dead]. rewrite !mapi_length.
        apply andb_true_iff. split; apply Nat.leb_le; assumption. }
    cbn [negb]. f_equal.
    unfold apply. rewrite Nk, Ne, V. cbn [negb].
    apply crop_state_ext; subst s;
    cbn [MAXAMAX temptyp MINTMP WUMAXPF VELOC NGEFKT RGA RGB SubOrgan AGO YORGAN YIFAK NRKOM DAUERKULT LEGUM
         STAGEDAYS PHYLLO VERNTAGE SUM DEV PRO DEAD TROOTSUM GEHOB WUGEH WORG MAIRT WDORG kcini NRENTW tendsum
         useBBCH ENDBBCH TSUM BAS VSCHWELL DAYL DLBAS DRYSWELL LUKRIT LAIFKT WGMAX kc build_state];
    try (match goal with |- ?a = ?b => constr_eq a b; reflexivity end).
    - destruct (look_base o VELOC_); reflexivity.
    - apply (part_table_commutes o (r_nrkom r) (r_nrentw r)); auto; try (intros; reflexivity).
      eapply Forall_impl; [|exact Flen]. intros st0 [A _]; exact A.
    - apply (part_table_commutes o (r_nrkom r) (r_nrentw r)); auto; try (intros; reflexivity).
      eapply Forall_impl; [|exact Flen]. intros st0 [_ B]; exact B.
    - destruct (look_base o INITCONCNBIOM_), (r_dauerkult r && cont); reflexivity.
    - destruct (look_base o INITCONCNROOT_), (r_dauerkult r && cont); reflexivity.
    - destruct (has_stage_key o TSUM_) eqn:K.
      + rewrite <- (stage_array_commutes o (r_nrkom r) (r_nrentw r) TSUM_ st_tsum sts (TSUM s0)) by (auto; intros; reflexivity).
        rewrite firstn_tab by (fold ne; unfold ne, ztn; lia). fold ne.
        replace ne with (List.length (mapi (edit_stage o) sts)) by (now rewrite mapi_length).
        now rewrite tab_stage_entry.
      + f_equal. apply nth_error_ext. intros i. rewrite nth_error_map, nth_error_mapi, nth_error_map.
        destruct (nth_error sts i); cbn [option_map]; [|reflexivity].
        cbn [edit_stage st_tsum]. now rewrite no_key_no_value.
    - rewrite !existsb_bbch. f_equal. apply nth_error_ext. intros i.
      rewrite nth_error_map, nth_error_mapi, nth_error_map. destruct (nth_error sts i); reflexivity.
    - apply tab_ext. intros i _. unfold stage_entry. rewrite nth_error_mapi.
      destruct (nth_error sts i); reflexivity.
    - apply (stage_array_commutes o (r_nrkom r) (r_nrentw r)); auto; intros; reflexivity.
    - apply (stage_array_commutes o (r_nrkom r) (r_nrentw r)); auto; intros; reflexivity.
    - apply (stage_array_commutes o (r_nrkom r) (r_nrentw r)); auto; intros; reflexivity.
    - apply (stage_array_commutes o (r_nrkom r) (r_nrentw r)); auto; intros; reflexivity.
    - apply (stage_array_commutes o (r_nrkom r) (r_nrentw r)); auto; intros; reflexivity.
    - apply (stage_array_commutes o (r_nrkom r) (r_nrentw r)); auto; intros; reflexivity.
    - apply (stage_array_commutes o (r_nrkom r) (r_nrentw r)); auto; intros; reflexivity.
    - apply (stage_array_commutes o (r_nrkom r) (r_nrentw r)); auto; intros; reflexivity.
    - apply (stage_array_commutes o (r_nrkom r) (r_nrentw r)); auto; intros; reflexivity.
    - apply (stage_array_commutes o (r_nrkom r) (r_nrentw r)); auto; intros; reflexivity.
  Qed.

  (* the classic file: any file that parses to the edited record gives the overridden state
     (the parse of [edit_lines] is the edited record: see edit_lines_parse_* below and the
     CEdit / CConvert cases of the correspondence) *)
  Theorem override_commutes_classic_lemma : forall cont lines lines' (r : crop_rec T) s0 s (o : cropow T),
    convert_core lines = Some r -> convert_core lines' = Some (edit_rec o r) ->
    r_nrkom r <= 5 -> r_nrentw r <= 10 -> ago_ok (r_nrkom r) (r_ago r) = true ->
    bbch_ok lines (ztn (r_nrentw r)) -> bbch_ok lines' (ztn (r_nrentw r)) ->
    stale_ok lines s0 -> stale_ok lines' s0 ->
    state_of_classic cont lines s0 = Some s ->
    valid o (NRKOM s) (NRENTW s) = true ->
    state_of_classic cont lines' s0 = Some (apply cont o s).
  Proof.
    intros cont lines lines' r s0 s o P P' Hk He Ha Hb Hb' Hs Hs' L V.
    rewrite <- (crop_yaml_agree_core cont lines r s0) in L by assumption.
    rewrite <- (crop_yaml_agree_core cont lines' (edit_rec o r) s0) by assumption.
    now apply override_commutes_lemma.
  Qed.
End Commute.
