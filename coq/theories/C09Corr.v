(* C09Corr.v — runs the CropModel kernels at binary64 on the PhytoOut transitions observed in traced
   runs of the real code (state before / after the call, shadow CropSharedVars, oracle values) and
   compares every output bit for bit. *)
From Coq Require Import ZArith List Bool Floats.
From Hermes Require Import Num CropModel CropNModel DevModel RootDistModel RadiaModel SupplyModel.
Import ListNotations.

(* one evaluation of the N-content functions: inputs with oracle values, the arguments the harness passed to
   Go's math functions, GEHMIN/GEHMAX before and after *)
Record nc_obs := { nco_in : nc_in (T:=float); nco_a1 : float; nco_a2 : float;
                   nco_min0 : float; nco_max0 : float; nco_o_min : float; nco_o_max : float }.

(* 1 = GEHMIN/GEHMAX differ, 2 = the model would pass another argument to Exp / Pow than the harness did *)
Definition nc_check (o : nc_obs) : nat :=
  let x := nco_in o in
  let '(mn, mx) := match ncontent x with Some v => v | None => (nco_min0 o, nco_max0 o) end in
  let '(a1, a2) := nc_args x in
  ((if float_same mn (nco_o_min o) && float_same mx (nco_o_max o) then 0 else 1)
   + (if float_same a1 (nco_a1 o) && float_same a2 (nco_a2 o) then 0 else 2))%nat.

Record c09_obs := {
  (* N content functions, N concentrations after the uptake, partition / death-rate tables *)
  ob_ncs : list nc_obs; ob_nq : nq_in (T:=float) (* nq_sumpe is filled in from ob_o_pe *);
  ob_o_gehob : float; ob_o_wugeh : float; ob_pro : list (list float); ob_dead : list (list float);
  (* stage *)
  ob_si : stage_in (T:=float); ob_k0 : nat; ob_sum : list float; ob_dev : list Z; ob_phyllo : float;
  ob_o_k : nat; ob_o_sum : list float; ob_o_dev : list Z; ob_o_phyllo : float;
  (* N stress *)
  ob_gehob : float; ob_gehmin : float; ob_ngefkt1 : bool; ob_earg : float; ob_e : float; ob_o_reduk : float;
  (* organs *)
  ob_oi : organ_in (T:=float); ob_os : organ_st (T:=float); ob_above : list nat;
  ob_o_worg : list float; ob_o_gorg : list float; ob_o_dgorg : list float; ob_o_wdorg : list float;
  ob_o_lai : float; ob_o_pesum : float; ob_o_aspoo : float; ob_o_obmas : float; ob_o_wumas : float;
  (* rooting depth *)
  ob_wurzmax : Z; ob_n : Z; ob_wumaxpf : float; ob_qrez : float; ob_dz : float; ob_o_wurz : Z;
  (* N uptake *)
  ob_ui : uptake_in (T:=float); ob_o_pe : list float; ob_o_nfix : float
}.

Fixpoint zs_same (a b : list Z) : bool :=
  match a, b with
  | [], [] => true
  | x :: r, y :: r' => Z.eqb x y && zs_same r r'
  | _, _ => false
  end.

(* bitmask of the groups that differ:
   1 stage index / SUM / DEV / PHYLLO, 2 REDUK, 4 organ masses, rates, dead mass, LAI, PESUM,
   8 assimilate pool / OBMAS / WUMAS, 16 rooting depth, 32 N uptake / fixation,
   64 bookkeeping (growth flag, argument of exp, number of uptake layers),
   128 GEHOB / WUGEH after the uptake, 256 an evaluation of the N-content functions *)
Definition c09_check (o : c09_obs) : nat :=
  let b (ok : bool) (v : nat) := if ok then 0%nat else v in
  let s0 := {| st_k := ob_k0 o; st_sum := ob_sum o; st_dev := ob_dev o; st_dates := ob_dev o; st_phyllo := ob_phyllo o |} in
  let s1 := stage_step (ob_si o) s0 in
  let gr := grown (st_sum s1) (si_tsum (ob_si o)) in
  let stage_ok := Nat.eqb (st_k s1) (ob_o_k o) && floats_same (st_sum s1) (ob_o_sum o)
                  && zs_same (st_dev s1) (ob_o_dev o) && float_same (st_phyllo s1) (ob_o_phyllo o) in
  let minin := reduk_minin (ob_ngefkt1 o) in
  let in_exp := PrimFloat.ltb (ob_gehob o) (ob_gehmin o) && negb (PrimFloat.leb (ob_gehob o) minin) in
  let reduk_ok := if gr then float_same (reduk_of (ob_gehob o) (ob_gehmin o) (ob_ngefkt1 o) (ob_e o)) (ob_o_reduk o) else true in
  let arg_ok := if gr && in_exp then float_same (reduk_arg (ob_gehob o) (ob_gehmin o) minin) (ob_earg o) else true in
  (* the partition and death-rate rows are looked up in the full tables by the stage index *)
  let oi := organ_in_of_tables (ob_pro o) (ob_dead o) (ob_o_k o) (ob_oi o) in
  let os1 := organs_day oi (ob_os o) in
  let organs_ok := if gr then
       floats_same (os_worg os1) (ob_o_worg o) && floats_same (os_gorg os1) (ob_o_gorg o)
       && floats_same (os_dgorg os1) (ob_o_dgorg o) && floats_same (os_wdorg os1) (ob_o_wdorg o)
       && float_same (os_lai os1) (ob_o_lai o) && float_same (os_pesum os1) (ob_o_pesum o)
     else true in
  let pool_ok := if gr then
       float_same (aspoo_of (oi_gtw (ob_oi o)) (oi_reduk (ob_oi o))) (ob_o_aspoo o)
       && float_same (obmas_of (os_worg os1) (ob_above o)) (ob_o_obmas o)
       && float_same (cg (os_worg os1) 0) (ob_o_wumas o)
     else true in
  let root_ok := Z.eqb (root_depth (ob_wurzmax o) (ob_n o) (ob_wumaxpf o) (ob_qrez o) (ob_dz o)) (ob_o_wurz o) in
  let '(pe, nfix) := uptake_day (ob_ui o) in
  let uptake_ok := floats_same pe (ob_o_pe o) && float_same nfix (ob_o_nfix o) in
  let book_ok := Bool.eqb gr (ui_grown (ob_ui o)) && arg_ok
                 && Z.eqb (Z.max 0 (uptake_layers (ob_ui o))) (Z.of_nat (length (ob_o_pe o))) in
  let q := ob_nq o in
  let nq := {| nq_zrk := nq_zrk q; nq_wumalt := nq_wumalt q; nq_obalt := nq_obalt q; nq_gehalt := nq_gehalt q;
               nq_wumas := nq_wumas q; nq_obmas := nq_obmas q; nq_worg3 := nq_worg3 q; nq_wugeh := nq_wugeh q;
               nq_wgmax := nq_wgmax q; nq_pesum := nq_pesum q; nq_sumpe := sum_list (ob_o_pe o); nq_nfix := nq_nfix q |} in
  let '(geh, wug) := nquota nq in
  let nq_ok := float_same geh (ob_o_gehob o) && float_same wug (ob_o_wugeh o) in
  let nc_ok := forallb (fun c => Nat.eqb (nc_check c) 0) (ob_ncs o) in
  (b stage_ok 1 + b reduk_ok 2 + b organs_ok 4 + b pool_ok 8 + b root_ok 16 + b uptake_ok 32 + b book_ok 64
   + b nq_ok 128 + b nc_ok 256)%nat.

Fixpoint c09_mismatches (i : nat) (l : list c09_obs) : list (nat * nat) :=
  match l with
  | [] => []
  | c :: r => let v := c09_check c in
              if Nat.eqb v 0 then c09_mismatches (S i) r else (i, v) :: c09_mismatches (S i) r
  end.

(* the decimal tables the theorems are about (text of the parameter files) denote, at binary64, exactly the
   floats the real readers put into g.PRO / g.DEAD *)
Fixpoint tables_same (t : list (list (Z * nat))) (h : list (list float)) : bool :=
  match t, h with
  | [], [] => true
  | r :: t', hr :: h' => floats_same (dec_row (T:=float) r) hr && tables_same t' h'
  | _, _ => false
  end.

(* one grid point of hermes.CalculateDayLenght: values, the arguments the harness passed to math.Asin, observed hours.
   1 = a day length differs, 2 = the model passes another argument to asin *)
Record dl_obs := { dlo_in : dl_in (T:=float); dlo_a0 : float; dlo_a1 : float; dlo_a2 : float;
                   dlo_dl : float; dlo_dle : float; dlo_dlp : float }.
Definition dl_check (o : dl_obs) : nat :=
  let '(a0, a1, a2) := dl_args (dlo_in o) in
  let '(dl, dle, dlp) := daylengths (dlo_in o) in
  ((if float_same dl (dlo_dl o) && float_same dle (dlo_dle o) && float_same dlp (dlo_dlp o) then 0 else 1)
   + (if float_same a0 (dlo_a0 o) && float_same a1 (dlo_a1 o) && float_same a2 (dlo_a2 o) then 0 else 2))%nat.
Fixpoint dl_mismatches (i : nat) (l : list dl_obs) : list (nat * nat) :=
  match l with
  | [] => []
  | c :: r => let v := dl_check c in
              if Nat.eqb v 0 then dl_mismatches (S i) r else (i, v) :: dl_mismatches (S i) r
  end.

(* the development-rate block of one traced day (DevModel): inputs of vern() / FP / devprog for the stage reached,
   the power oracle of root(); observed: vernalisation days, FV, FP after the call, devprog as mirrored by the
   harness (it is a local of PhytoOut; the increment it enters is compared by c09_check group 1), POTROOTINGDEPTH.
   bitmask: 1 vernalisation days / FV, 2 FP, 4 devprog, 8 potential rooting depth *)
Record dev_obs := { dvo_temp : float; dvo_vt0 : float; dvo_dt : float; dvo_vschwell : float; dvo_dlp : float;
                    dvo_dayl : float; dvo_dlbas : float; dvo_nons : bool; dvo_reduk : float; dvo_trrel : float;
                    dvo_dry : float; dvo_lured : float; dvo_p : float;
                    dvo_o_vt : float; dvo_o_fv : float; dvo_o_fp : float; dvo_o_devprog : float; dvo_o_pot : float }.
Definition dev_check (o : dev_obs) : nat :=
  let b (ok : bool) (v : nat) := if ok then 0%nat else v in
  let '(vt, fv) := dev_fv (dvo_temp o) (dvo_vt0 o) (dvo_dt o) (dvo_vschwell o) in
  let fp := dev_fp (dvo_dlp o) (dvo_dayl o) (dvo_dlbas o) in
  let dp := dev_prog (dvo_nons o) (dvo_reduk o) (dvo_trrel o) (dvo_dry o) (dvo_lured o) in
  let pot := pot_root_depth (root_qrez (dvo_p o)) in
  (b (float_same vt (dvo_o_vt o) && float_same fv (dvo_o_fv o)) 1 + b (float_same fp (dvo_o_fp o)) 2
   + b (float_same dp (dvo_o_devprog o)) 4 + b (float_same pot (dvo_o_pot o)) 8)%nat.
Fixpoint dev_mismatches (i : nat) (l : list dev_obs) : list (nat * nat) :=
  match l with
  | [] => []
  | c :: r => let v := dev_check c in
              if Nat.eqb v 0 then dev_mismatches (S i) r else (i, v) :: dev_mismatches (S i) r
  end.

(* the root distribution block of one traced day (RootDistModel): root mass, per-layer exponentials (oracle),
   observed root length density WUDICH and root shares WUANT of the rooted layers.  1 = WUDICH, 2 = WUANT *)
Record rootdist_obs := { rdo_zrk : bool; rdo_wumas : float; rdo_pi : float; rdo_dz : float; rdo_es : list (float * float);
                         rdo_o_wudich : list float; rdo_o_wuant : list float }.
Definition rootdist_check (o : rootdist_obs) : nat :=
  let r := root_dist (rdo_zrk o) (rdo_wumas o) (rdo_pi o) (rdo_dz o) (rdo_es o) in
  ((if floats_same (map fst r) (rdo_o_wudich o) then 0 else 1) + (if floats_same (map snd r) (rdo_o_wuant o) then 0 else 2))%nat.
Fixpoint rootdist_mismatches (i : nat) (l : list rootdist_obs) : list (nat * nat) :=
  match l with
  | [] => []
  | c :: r => let v := rootdist_check c in
              if Nat.eqb v 0 then rootdist_mismatches (S i) r else (i, v) :: rootdist_mismatches (S i) r
  end.

(* the assimilation kernel of radia() on one traced day (CropNModel.assim_of): the locals the harness' verbatim shadow of radia()
   recorded (the shadow is compared with the real kernel, hook VerifRadia, on every case) and the results GPHOT, MAINT of the REAL
   kernel.  1 = GPHOT, 2 = MAINT *)
Record assim_obs := { aso_in : as_in (T:=float); aso_o_gphot : float; aso_o_maint : float }.
Definition assim_check (o : assim_obs) : nat :=
  let '(gp, mt) := assim_of (aso_in o) in
  ((if float_same gp (aso_o_gphot o) then 0 else 1) + (if float_same mt (aso_o_maint o) then 0 else 2))%nat.
Fixpoint assim_mismatches (i : nat) (l : list assim_obs) : list (nat * nat) :=
  match l with
  | [] => []
  | c :: r => let v := assim_check c in
              if Nat.eqb v 0 then assim_mismatches (S i) r else (i, v) :: assim_mismatches (S i) r
  end.

(* the head of radia() on one traced day (RadiaModel.rd_light): inputs, oracle values by call site as the harness' shadow recorded them,
   and the recorded locals AMAX, EFFE, DLE, DGAC, DGAO; the arguments the code passed to the two logarithms and the two saturation
   exponentials.  1 = AMAX / EFFE / DLE, 2 = DGAC / DGAO, 4 = an argument *)
Record radia_obs := { rao_in : rd_in (T:=float); rao_o_amax : float; rao_o_effe : float; rao_o_dle : float;
                      rao_o_dgac : float; rao_o_dgao : float;
                      rao_xarg : float; rao_yarg : float; rao_ecarg : float; rao_eoarg : float }.
Definition radia_check (o : radia_obs) : nat :=
  let r := rd_light (rao_in o) in
  ((if float_same (ro_amax r) (rao_o_amax o) && float_same (ro_effe r) (rao_o_effe o) && float_same (ro_dle r) (rao_o_dle o) then 0 else 1)
   + (if float_same (ro_dgac r) (rao_o_dgac o) && float_same (ro_dgao r) (rao_o_dgao o) then 0 else 2)
   + (if float_same (ro_xarg r) (rao_xarg o) && float_same (ro_yarg r) (rao_yarg o)
         && float_same (ro_ecarg r) (rao_ecarg o) && float_same (ro_eoarg r) (rao_eoarg o) then 0 else 4))%nat.
Fixpoint radia_mismatches (i : nat) (l : list radia_obs) : list (nat * nat) :=
  match l with
  | [] => []
  | c :: r => let v := radia_check c in
              if Nat.eqb v 0 then radia_mismatches (S i) r else (i, v) :: radia_mismatches (S i) r
  end.

(* the supply terms of one traced day (SupplyModel): raw inputs of the first min(cnt,10) uptake layers, class and inputs of maxup;
   compared with the values the uptake tie (c09_check group 32) consumes.  1 = MASS, 2 = DIFF, 4 = maxup *)
Record supply_obs := { spo_zrk : bool; spo_pi : float; spo_dz : float; spo_dt : float; spo_layers : list (sup_layer (T:=float));
                       spo_class : maxup_class; spo_phyllo : float; spo_tendsum : float;
                       spo_o_mass : list float; spo_o_diff : list float; spo_o_maxup : float }.
Definition supply_check (o : supply_obs) : nat :=
  let r := supply (spo_zrk o) (spo_pi o) (spo_dz o) (spo_dt o) (spo_layers o) in
  ((if floats_same (map fst r) (spo_o_mass o) then 0 else 1) + (if floats_same (map snd r) (spo_o_diff o) then 0 else 2)
   + (if float_same (maxup_of (spo_class o) (spo_phyllo o) (spo_tendsum o)) (spo_o_maxup o) then 0 else 4))%nat.
Fixpoint supply_mismatches (i : nat) (l : list supply_obs) : list (nat * nat) :=
  match l with
  | [] => []
  | c :: r => let v := supply_check c in
              if Nat.eqb v 0 then supply_mismatches (S i) r else (i, v) :: supply_mismatches (S i) r
  end.

(* the organic pools of the rooted layers before / after PhytoOut on an ordinary growth day (RootDistModel.pools_after): dead leaves and
   stems of organs 2, 3, dead roots by root share (WUMM from the root mass before / after and the root N concentration).
   1 = NFOS, 2 = NAOS *)
Record pool_obs := { plo_dgorgs : list float; plo_gehalt : float; plo_dt : float; plo_wumas : float; plo_wumalt : float; plo_wugeh : float;
                     plo_shares : list float; plo_nfos : list float; plo_naos : list float; plo_o_nfos : list float; plo_o_naos : list float }.
Definition pool_check (o : pool_obs) : nat :=
  let wumm := dead_root_n (plo_wumas o) (plo_wumalt o) (plo_wugeh o) in
  let '(f, a) := pools_after (plo_dgorgs o) (plo_gehalt o) (plo_dt o) wumm (plo_shares o) (plo_nfos o) (plo_naos o) in
  ((if floats_same f (plo_o_nfos o) then 0 else 1) + (if floats_same a (plo_o_naos o) then 0 else 2))%nat.
Fixpoint pool_mismatches (i : nat) (l : list pool_obs) : list (nat * nat) :=
  match l with
  | [] => []
  | c :: r => let v := pool_check c in
              if Nat.eqb v 0 then pool_mismatches (S i) r else (i, v) :: pool_mismatches (S i) r
  end.

(* crop coefficient and BBCH code of one traced day (DevModel.fkc_of / bbch_of in the growth block, fkc_pre / bbch_pre before emergence).
   1 = FKC, 2 = BBCH *)
Record fkc_obs := { fko_grown : bool; fko_first : bool; fko_kcini : float; fko_kcprev : float; fko_kc : float;
                    fko_endprev : float; fko_end : float; fko_sum : float; fko_tsum : float; fko_o_fkc : float; fko_o_bbch : Z }.
Definition fkc_check (o : fkc_obs) : nat :=
  let '(f, bb) :=
    if fko_grown o then
      let r := relint_of (fko_sum o) (fko_tsum o) in
      (fkc_of (fko_first o) (fko_kcini o) (fko_kcprev o) (fko_kc o) r, bbch_of (fko_first o) (fko_endprev o) (fko_end o) r)
    else (fkc_pre (fko_kcini o) (fko_kc o) (fko_sum o) (fko_tsum o), bbch_pre (fko_end o) (fko_sum o) (fko_tsum o)) in
  ((if float_same f (fko_o_fkc o) then 0 else 1) + (if Z.eqb bb (fko_o_bbch o) then 0 else 2))%nat.
Fixpoint fkc_mismatches (i : nat) (l : list fkc_obs) : list (nat * nat) :=
  match l with
  | [] => []
  | c :: r => let v := fkc_check c in
              if Nat.eqb v 0 then fkc_mismatches (S i) r else (i, v) :: fkc_mismatches (S i) r
  end.

(* maintenance of one traced day (RadiaModel.maint_pot_of / mant_of): organ masses and maintenance rates handed to radia(), the power
   oracle TEFF; observed MAINTS*TEFF (recorded by the shadow) and the shares MANT of the REAL kernel.  1 = MAINTS*TEFF, 2 = MANT *)
Record maint_obs := { mto_worg : list float; mto_mairt : list float; mto_teff : float; mto_o_pot : float; mto_o_mant : list float }.
Definition maint_check (o : maint_obs) : nat :=
  ((if float_same (maint_pot_of (mto_worg o) (mto_mairt o) (mto_teff o)) (mto_o_pot o) then 0 else 1)
   + (if floats_same (mant_of (mto_worg o) (mto_mairt o)) (mto_o_mant o) then 0 else 2))%nat.
Fixpoint maint_mismatches (i : nat) (l : list maint_obs) : list (nat * nat) :=
  match l with
  | [] => []
  | c :: r => let v := maint_check c in
              if Nat.eqb v 0 then maint_mismatches (S i) r else (i, v) :: maint_mismatches (S i) r
  end.
