(* C09Corr.v — runs the CropModel kernels at binary64 on the PhytoOut transitions observed in traced
   runs of the real code (state before / after the call, shadow CropSharedVars, oracle values) and
   compares every output bit for bit. *)
From Coq Require Import ZArith List Bool Floats.
From Hermes Require Import Num CropModel.
Import ListNotations.

Record c09_obs := {
  (* stage *)
  ob_si : stage_in (T:=float); ob_k0 : nat; ob_sum : list float; ob_dev : list Z; ob_phyllo : float;
  ob_o_k : nat; ob_o_sum : list float; ob_o_dev : list Z; ob_o_phyllo : float;
  (* N stress *)
  ob_gehob : float; ob_gehmin : float; ob_ngefkt1 : bool; ob_earg : float; ob_e : float; ob_o_reduk : float;
  (* organs *)
  ob_oi : organ_in (T:=float); ob_os : organ_st (T:=float); ob_above : list nat;
  ob_o_worg : list float; ob_o_gorg : list float; ob_o_dgorg : list float; ob_o_wdorg : list float;
  ob_o_lai : float; ob_o_pesum : float; ob_o_aspoo : float; ob_o_obmas : float; ob_o_wumas : float;
  (* rooting depth *)
  ob_wurzmax : Z; ob_n : Z; ob_wumaxpf : float; ob_qrez : float; ob_dz : float; ob_o_wurz : Z;
  (* N uptake *)
  ob_ui : uptake_in (T:=float); ob_o_pe : list float; ob_o_nfix : float
}.

Fixpoint zs_same (a b : list Z) : bool :=
  match a, b with
  | [], [] => true
  | x :: r, y :: r' => Z.eqb x y && zs_same r r'
  | _, _ => false
  end.

(* bitmask of the groups that differ:
   1 stage index / SUM / DEV / PHYLLO, 2 REDUK, 4 organ masses, rates, dead mass, LAI, PESUM,
   8 assimilate pool / OBMAS / WUMAS, 16 rooting depth, 32 N uptake / fixation,
   64 bookkeeping (growth flag, argument of exp, number of uptake layers) *)
Definition c09_check (o : c09_obs) : nat :=
  let b (ok : bool) (v : nat) := if ok then 0%nat else v in
  let s0 := {| st_k := ob_k0 o; st_sum := ob_sum o; st_dev := ob_dev o; st_dates := ob_dev o; st_phyllo := ob_phyllo o |} in
  let s1 := stage_step (ob_si o) s0 in
  let gr := grown (st_sum s1) (si_tsum (ob_si o)) in
  let stage_ok := Nat.eqb (st_k s1) (ob_o_k o) && floats_same (st_sum s1) (ob_o_sum o)
                  && zs_same (st_dev s1) (ob_o_dev o) && float_same (st_phyllo s1) (ob_o_phyllo o) in
  let minin := reduk_minin (ob_ngefkt1 o) in
  let in_exp := PrimFloat.ltb (ob_gehob o) (ob_gehmin o) && negb (PrimFloat.leb (ob_gehob o) minin) in
  let reduk_ok := if gr then float_same (reduk_of (ob_gehob o) (ob_gehmin o) (ob_ngefkt1 o) (ob_e o)) (ob_o_reduk o) else true in
  let arg_ok := if gr && in_exp then float_same (reduk_arg (ob_gehob o) (ob_gehmin o) minin) (ob_earg o) else true in
  let os1 := organs_day (ob_oi o) (ob_os o) in
  let organs_ok := if gr then
       floats_same (os_worg os1) (ob_o_worg o) && floats_same (os_gorg os1) (ob_o_gorg o)
       && floats_same (os_dgorg os1) (ob_o_dgorg o) && floats_same (os_wdorg os1) (ob_o_wdorg o)
       && float_same (os_lai os1) (ob_o_lai o) && float_same (os_pesum os1) (ob_o_pesum o)
     else true in
  let pool_ok := if gr then
       float_same (aspoo_of (oi_gtw (ob_oi o)) (oi_reduk (ob_oi o))) (ob_o_aspoo o)
       && float_same (obmas_of (os_worg os1) (ob_above o)) (ob_o_obmas o)
       && float_same (cg (os_worg os1) 0) (ob_o_wumas o)
     else true in
  let root_ok := Z.eqb (root_depth (ob_wurzmax o) (ob_n o) (ob_wumaxpf o) (ob_qrez o) (ob_dz o)) (ob_o_wurz o) in
  let '(pe, nfix) := uptake_day (ob_ui o) in
  let uptake_ok := floats_same pe (ob_o_pe o) && float_same nfix (ob_o_nfix o) in
  let book_ok := Bool.eqb gr (ui_grown (ob_ui o)) && arg_ok
                 && Z.eqb (Z.max 0 (uptake_layers (ob_ui o))) (Z.of_nat (length (ob_o_pe o))) in
  (b stage_ok 1 + b reduk_ok 2 + b organs_ok 4 + b pool_ok 8 + b root_ok 16 + b uptake_ok 32 + b book_ok 64)%nat.

Fixpoint c09_mismatches (i : nat) (l : list c09_obs) : list (nat * nat) :=
  match l with
  | [] => []
  | c :: r => let v := c09_check c in
              if Nat.eqb v 0 then c09_mismatches (S i) r else (i, v) :: c09_mismatches (S i) r
  end.
