(* DayNitroRun.v — the mineral-N balance (C02) over a whole RUN: any number of days, each with its own inputs, events
   and number of sub-steps; what is carried from the end of one day to the start of the next is the mineral N profile
   C1 and the three counters the balance refers to (leaching OUTSUM, drain loss, cumulated denitrification) — the day
   loop carries them unchanged (checked on every traced day: the model's end-of-day state is compared with the next
   day's start).  Everything else a day uses (pools, uptake demand, water fluxes, oracles, events) is the day's own
   input, whatever the other modules made it.  By induction over the list of days from DayNitroProofs.day_balance_lemma. *)
From Coq Require Import ZArith Reals List Bool Lra Lia.
From Hermes Require Import Num RUtil NitroModel NitroProofs DayNitroModel DayNitroProofs.
Import ListNotations.
Local Open Scope R_scope.

(* the day's inputs with the carried state put in *)
Definition carry_n (x : dayn_in (T:=R)) (c1 : list R) (outsum drainloss cumdenit : R) : dayn_in (T:=R) :=
  {| dy_add := dy_add x; dy_irr := dy_irr x; dy_brkz := dy_brkz x; dy_breg := dy_breg x;
     dy_depos := dy_depos x; dy_dt := dy_dt x;
     dy_c1 := c1;
     dy_nfos := dy_nfos x; dy_naos := dy_naos x; dy_minfos := dy_minfos x; dy_minaos := dy_minaos x;
     dy_pe := dy_pe x;
     dy_pesum := dy_pesum x; dy_aufnasum := dy_aufnasum x; dy_outsum := outsum; dy_nleag := dy_nleag x;
     dy_drainloss := drainloss;
     dy_dsumm := dy_dsumm x; dy_ums := dy_ums x; dy_nh4sum := dy_nh4sum x; dy_nh4ums := dy_nh4ums x;
     dy_n2onitsum := dy_n2onitsum x; dy_n2onitdaily := dy_n2onitdaily x; dy_minsum := dy_minsum x;
     dy_cumdenit := cumdenit;
     dy_fert := dy_fert x; dy_nsas := dy_nsas x; dy_nlas := dy_nlas x; dy_ndir := dy_ndir x; dy_nh4n := dy_nh4n x;
     dy_till := dy_till x; dy_eint := dy_eint x; dy_tilart := dy_tilart x;
     dy_menv := dy_menv x; dy_wred := dy_wred x; dy_porges0 := dy_porges0 x;
     dy_wdt := dy_wdt x; dy_after_sow := dy_after_sow x; dy_growing := dy_growing x; dy_dv := dy_dv x;
     dy_draidep := dy_draidep x; dy_outn := dy_outn x; dy_stab := dy_stab x; dy_schnorr := dy_schnorr x;
     dy_ad := dy_ad x; dy_w := dy_w x; dy_subs := dy_subs x;
     dy_peat := dy_peat x; dy_nq := dy_nq x; dy_fth := dy_fth x; dy_fte := dy_fte x |}.

(* the carried state: mineral N profile, leaching counter, drain-loss counter, cumulated denitrification *)
Record ncarry := { nc_c1 : list R; nc_out : R; nc_drain : R; nc_den : R }.

Definition put (d : dayn_in (T:=R)) (s : ncarry) : dayn_in (T:=R) :=
  carry_n d (nc_c1 s) (nc_out s) (nc_drain s) (nc_den s).

Definition day_next (d : dayn_in (T:=R)) (s : ncarry) : ncarry :=
  let o := day_nitro (put d s) in
  {| nc_c1 := dn_c1 o; nc_out := dn_outsum o; nc_drain := dn_drainloss o; nc_den := dn_cumdenit o |}.

(* what the day adds to the soil's mineral N: deposition, irrigation N, the source term (net mineralisation +
   dissolved fertiliser - nitrification N2O) less the crop's uptake *)
Definition day_gain (d : dayn_in (T:=R)) (s : ncarry) : R :=
  let x := put d s in
  day_dep x + day_irr x + day_source x - Rsum (dn_pe_taken (day_nitro x)).

(* the run: carried state at the end, summed gains, summed denitrification losses of the soil, summed clamp slack *)
Fixpoint nrun (n : nat) (s : ncarry) (days : list (dayn_in (T:=R))) : ncarry * R * R * R :=
  match days with
  | [] => (s, 0, 0, 0)
  | d :: r => let '(s', g, dl, sl) := nrun n (day_next d s) r in
              (s', day_gain d s + g, day_denit_loss (put d s) + dl, day_slack (put d s) n + sl)
  end.

(* the hypotheses of the day theorem do not look at the carried values, only at the length of the profile *)
Definition nday_ok (n : nat) (d : dayn_in (T:=R)) : Prop := day_wf d n.

Lemma put_wf n d s : nday_ok n d -> length (nc_c1 s) = n -> day_wf (put d s) n.
Proof.
  unfold nday_ok, day_wf, put, carry_n. cbn.
  intros (H1 & _ & H3 & H4 & H5 & H6 & H7 & H8 & H9 & H10 & H11 & H12 & H13 & H14 & H15 & H16) L.
  repeat split; assumption.
Qed.

Lemma day_next_length n d s : nday_ok n d -> length (nc_c1 s) = n -> length (nc_c1 (day_next d s)) = n.
Proof.
  intros Hd L. pose proof (put_wf n d s Hd L) as Hwf. unfold day_next. cbn [nc_c1].
  destruct (day_nitro_fields (put d s)) as (F1 & _). cbv zeta in F1. rewrite F1.
  destruct (d_subs_facts (put d s) n Hwf) as (S0 & _ & _ & S3 & _).
  pose proof (day_wf_n (put d s) n Hwf) as Hn.
  assert (Hp : dy_peat (put d s) = true -> (9 <= n)%nat)
    by (pose proof Hwf as (_ & _ & _ & _ & _ & _ & _ & _ & _ & _ & _ & _ & _ & _ & _ & H); exact H).
  pose proof (denit_stage_books (dy_peat (put d s)) (dy_nq (put d s)) (dy_fth (put d s)) (dy_fte (put d s))
                (st_c1 (d_st (put d s))) (dy_cumdenit (put d s)) n S0 Hn Hp S3) as HD.
  fold (d_den (put d s)) in HD. destruct (d_den (put d s)) as [c1e cum]. cbn [fst]. exact (proj1 HD).
Qed.

(* C02 over the run: final mineral N = initial + gains - what the leaching and the drain counters gained - the soil's
   denitrification losses + the clamp slack; the losses are at most what the denitrification counter gained; the
   slack is >= 0 *)
Lemma nrun_balance_lemma n days : forall s,
  length (nc_c1 s) = n -> Forall (nday_ok n) days ->
  let '(s', g, dl, sl) := nrun n s days in
  Rsum (nc_c1 s') = Rsum (nc_c1 s) + g - (nc_out s' - nc_out s) - (nc_drain s' - nc_drain s) - dl + sl /\
  dl <= nc_den s' - nc_den s /\
  0 <= sl /\ length (nc_c1 s') = n.
Proof.
  induction days as [|d r IH]; intros s L HF.
  - cbn [nrun]. repeat split; try lra. exact L.
  - pose proof (Forall_inv HF) as Hd. pose proof (Forall_inv_tail HF) as Hr.
    pose proof (put_wf n d s Hd L) as Hwf.
    pose proof (day_balance_lemma (put d s) n Hwf) as HB. cbv zeta in HB.
    destruct HB as (B1 & B2 & B3 & _).
    pose proof (day_next_length n d s Hd L) as L'.
    specialize (IH (day_next d s) L' Hr).
    cbn [nrun]. destruct (nrun n (day_next d s) r) as [[[s' g] dl] sl].
    destruct IH as (I1 & I2 & I3 & I4).
    unfold day_gain. cbv zeta. unfold day_next in I1, I2. cbn [nc_c1 nc_out nc_drain nc_den] in I1, I2.
    assert (E1 : dy_c1 (put d s) = nc_c1 s) by reflexivity.
    assert (E2 : dy_outsum (put d s) = nc_out s) by reflexivity.
    assert (E3 : dy_drainloss (put d s) = nc_drain s) by reflexivity.
    assert (E4 : dy_cumdenit (put d s) = nc_den s) by reflexivity.
    rewrite E1, E2, E3 in B1. rewrite E4 in B3.
    repeat split; try lra. exact I4.
Qed.

(* non-vacuity: a run of three days (two sub-steps each, irrigation N, deposition, a fertiliser event) satisfies the
   hypotheses, from a start state of the right length *)
Lemma ex_day_wf : day_wf ex_day 2.
Proof.
  unfold day_wf. cbn [ex_day dy_c1 dy_pe dy_nfos dy_naos dy_minfos dy_minaos dy_ad dy_w dy_outn dy_menv dy_subs dy_wdt
                      dy_till dy_peat dy_eint length].
  repeat split; try lia; try discriminate.
  - repeat (apply Forall_cons; [apply ex_sub_ok|]). apply Forall_nil.
  - cbn. lra.
Qed.

Lemma nrun_nonvacuous :
  exists (days : list (dayn_in (T:=R))) (s : ncarry),
    length days = 3%nat /\ length (nc_c1 s) = 2%nat /\ Forall (nday_ok 2) days.
Proof.
  exists [ex_day; ex_day; ex_day], {| nc_c1 := [30; 20]; nc_out := 3; nc_drain := 0; nc_den := 4 |}.
  repeat split. repeat (apply Forall_cons; [exact ex_day_wf|]). apply Forall_nil.
Qed.
