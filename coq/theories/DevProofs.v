(* DevProofs.v — lemmas about DevModel: ranges of the vernalisation / day-length / stress factors as the
   code computes them, the development run as a stage run over factor-filled inputs (any numeric type),
   monotonicity of the vernalisation days and the phyllochron sum over any run of days, and root():
   range of Qrez / potential rooting depth for ANY value of the power oracle, monotonicity of the depth
   in the temperature sum for the true functions. *)
From Coq Require Import ZArith Reals List Bool Lia Lra Psatz.
From Hermes Require Import Num RUtil CropModel CropProofs DevModel.
Import ListNotations.
Local Open Scope R_scope.

Ltac rn := unfold gtb, geb in *; rsimp; unfold RI.ltb, RI.leb, RI.eqb in *; decs.
Ltac cases :=
  repeat match goal with
  | |- context [Rlt_dec ?a ?b] => destruct (Rlt_dec a b); cbn [andb orb negb]
  | |- context [Rle_dec ?a ?b] => destruct (Rle_dec a b); cbn [andb orb negb]
  | |- context [Req_EM_T ?a ?b] => destruct (Req_EM_T a b); cbn [andb orb negb]
  end.

Lemma vern_eff_range (t : R) : 0 <= vern_eff t <= 1.
Proof. unfold vern_eff. rn. cases; lra. Qed.

Lemma clamp01 (f : R) :
  0 <= (if RI.ltb f 0 then 0 else if RI.ltb 1 f then 1 else f) <= 1.
Proof. unfold RI.ltb. cases; lra. Qed.

Lemma vern_step_spec (t vt dt vs : R) : 0 <= dt ->
  vt <= fst (vern_step t vt dt vs) /\ 0 <= snd (vern_step t vt dt vs) <= 1.
Proof.
  intros Hdt. unfold vern_step. cbn [fst snd]. split.
  - pose proof (vern_eff_range t). rsimp. nra.
  - unfold geb, gtb. rsimp.
    destruct (RI.leb 1 _).
    + apply clamp01.
    + split; lra.
Qed.

Lemma dev_fv_spec (t vt dt vs : R) : 0 <= dt ->
  vt <= fst (dev_fv t vt dt vs) /\ 0 <= snd (dev_fv t vt dt vs) <= 1.
Proof.
  intros Hdt. unfold dev_fv. destruct (eqb vs zero); [cbn [fst snd]; rsimp; lra | apply vern_step_spec; exact Hdt].
Qed.

Lemma dev_fp_range (dlp dayl dlbas : R) : 0 <= dev_fp dlp dayl dlbas <= 1.
Proof.
  unfold dev_fp. rn.
  match goal with |- context [if (if Rlt_dec 1 ?f then true else false) then _ else _] => generalize f end.
  intros f. cases; lra.
Qed.

Lemma dev_prog_ge1 b (reduk trrel dry lured : R) : 1 <= dev_prog b reduk trrel dry lured.
Proof.
  unfold dev_prog. rn.
  pose proof (Rle_0_sqr (1 - reduk)) as H1; unfold Rsqr in H1.
  pose proof (Rle_0_sqr (1 - trrel)) as H2; unfold Rsqr in H2.
  destruct b; cases; unfold Rmax; cases; try lra; nra.
Qed.

Lemma dev_prog_le2 b (reduk trrel dry lured : R) :
  0 <= reduk <= 1 -> 0 <= trrel <= 1 -> dev_prog b reduk trrel dry lured <= 2.
Proof.
  intros Hr Ht. unfold dev_prog. rn.
  assert (H1 : (1 - reduk) * (1 - reduk) <= 1) by nra.
  assert (H2 : (1 - trrel) * (1 - trrel) <= 1) by nra.
  destruct b; cases; unfold Rmax; cases; try lra; nra.
Qed.

Lemma dev_factors_spec (x : dev_in (T:=R)) (k : nat) (v : R) : 0 <= si_dt (di_stage x) ->
  let '(vt, fv, fp, dp) := dev_factors x k v in
  v <= vt /\ 0 <= fv <= 1 /\ 0 <= fp <= 1 /\ 1 <= dp.
Proof.
  intros Hdt. unfold dev_factors.
  pose proof (dev_fv_spec (si_temp (di_stage x)) v (si_dt (di_stage x)) (cg (di_vschwell x) k) Hdt) as Hv.
  destruct (dev_fv _ _ _ _) as [vt fv]. cbn [fst snd] in Hv.
  pose proof (dev_fp_range (di_dlp x) (cg (di_dayl x) k) (cg (di_dlbas x) k)).
  pose proof (dev_prog_ge1 (di_no_nstress x) (di_reduk x) (di_trrel x) (cg (di_dryswell x) k) (di_lured x)).
  tauto.
Qed.

(* the increment of the day is non-negative whenever the factors are *)
Lemma stage_inc_phyllo (sx : stage_in (T:=R)) (s : stage_st (T:=R)) :
  0 <= si_fv sx -> 0 <= si_fp sx -> 0 <= si_devprog sx -> 0 <= si_dt sx ->
  st_phyllo s <= st_phyllo (stage_inc sx s).
Proof.
  intros Hv Hp Hd Ht. unfold stage_inc.
  destruct (grown _ _); cbn [andb]; [|lra].
  destruct (geb (si_temp sx) (cg (si_bas sx) (st_k s))) eqn:E; [|lra].
  cbn [st_phyllo]. unfold geb in E. apply lebR in E. rsimp.
  assert (0 <= si_temp sx - cg (si_bas sx) (st_k s)) by lra.
  assert (0 <= (si_temp sx - cg (si_bas sx) (st_k s)) * si_fv sx) by (apply Rmult_le_pos; assumption).
  assert (0 <= (si_temp sx - cg (si_bas sx) (st_k s)) * si_fv sx * si_fp sx) by (apply Rmult_le_pos; assumption).
  assert (0 <= (si_temp sx - cg (si_bas sx) (st_k s)) * si_fv sx * si_fp sx * si_devprog sx) by (apply Rmult_le_pos; assumption).
  assert (0 <= (si_temp sx - cg (si_bas sx) (st_k s)) * si_fv sx * si_fp sx * si_devprog sx * si_dt sx) by (apply Rmult_le_pos; assumption).
  lra.
Qed.

Lemma stage_inc_sum (sx : stage_in (T:=R)) (s : stage_st (T:=R)) :
  0 <= si_fv sx -> 0 <= si_fp sx -> 0 <= si_devprog sx -> 0 <= si_dt sx ->
  (st_k s < length (st_sum s))%nat ->
  cg (st_sum s) (st_k s) <= cg (st_sum (stage_inc sx s)) (st_k s).
Proof.
  intros Hv Hp Hd Ht Hk. unfold stage_inc.
  destruct (grown _ _); cbn [andb]; [|lra].
  destruct (geb (si_temp sx) (cg (si_bas sx) (st_k s))) eqn:E; [|lra].
  cbn [st_sum]. unfold cg at 2. rewrite get_upd_same by exact Hk.
  unfold geb in E. apply lebR in E. rsimp.
  assert (0 <= si_temp sx - cg (si_bas sx) (st_k s)) by lra.
  assert (0 <= (si_temp sx - cg (si_bas sx) (st_k s)) * si_fv sx) by (apply Rmult_le_pos; assumption).
  assert (0 <= (si_temp sx - cg (si_bas sx) (st_k s)) * si_fv sx * si_fp sx) by (apply Rmult_le_pos; assumption).
  assert (0 <= (si_temp sx - cg (si_bas sx) (st_k s)) * si_fv sx * si_fp sx * si_devprog sx) by (apply Rmult_le_pos; assumption).
  assert (0 <= (si_temp sx - cg (si_bas sx) (st_k s)) * si_fv sx * si_fp sx * si_devprog sx * si_dt sx) by (apply Rmult_le_pos; assumption).
  lra.
Qed.

(* dev_step is stage_step with the computed factors in place of the oracles *)
Lemma dev_step_refines (x : dev_in (T:=R)) (s : dev_st (T:=R)) : 0 <= si_dt (di_stage x) ->
  exists fv fp dp, 0 <= fv <= 1 /\ 0 <= fp <= 1 /\ 1 <= dp /\
    ds_stage (dev_step x s) = stage_step (with_factors (di_stage x) fv fp dp) (ds_stage s) /\
    ds_verntage s <= ds_verntage (dev_step x s).
Proof.
  intros Hdt. unfold dev_step.
  set (s1 := {| st_k := _; st_sum := _; st_dev := _; st_dates := _; st_phyllo := _ |}).
  set (s2 := stage_advance (di_stage x) s1).
  destruct (grown (st_sum s2) (si_tsum (di_stage x))) eqn:G.
  - pose proof (dev_factors_spec x (st_k s2) (ds_verntage s) Hdt) as H.
    destruct (dev_factors x (st_k s2) (ds_verntage s)) as [[[vt fv] fp] dp].
    exists fv, fp, dp. cbn [ds_stage ds_verntage]. intuition.
  - exists 1, 1, 1. cbn [ds_stage ds_verntage]. repeat split; try lra.
    unfold stage_step. cbn [with_factors si_tsum si_bas si_nrentw si_doy si_zeit si_temp si_wg00 si_w0 si_wmin0 si_dt].
    change (s2 = stage_inc (with_factors (di_stage x) 1 1 1) s2).
    unfold stage_inc. cbn [with_factors si_tsum]. rewrite G. reflexivity.
Qed.

(* ---- dev_step as stage_step over factor-filled inputs (any numeric type) ---- *)
Section Filled.
  Context {T : Type} {NT : Num T}.

  Definition dev_filled (x : dev_in (T:=T)) (s : dev_st (T:=T)) : stage_in (T:=T) :=
    let sx := di_stage x in
    let st := ds_stage s in
    let s1 := {| st_k := st_k st; st_sum := emerge_sum sx (st_k st) (st_sum st); st_dev := st_dev st;
                 st_dates := st_dates st; st_phyllo := st_phyllo st |} in
    let s2 := stage_advance sx s1 in
    let '(vt, fv, fp, dp) := dev_factors x (st_k s2) (ds_verntage s) in
    with_factors sx fv fp dp.

  Lemma dev_step_stage (x : dev_in (T:=T)) (s : dev_st (T:=T)) :
    ds_stage (dev_step x s) = stage_step (dev_filled x s) (ds_stage s).
  Proof.
    unfold dev_step, dev_filled, stage_step.
    set (s1 := {| st_k := _; st_sum := emerge_sum (di_stage x) _ _; st_dev := _; st_dates := _; st_phyllo := _ |}).
    set (s2 := stage_advance (di_stage x) s1).
    destruct (dev_factors x (st_k s2) (ds_verntage s)) as [[[vt fv] fp] dp].
    change (emerge_sum (with_factors (di_stage x) fv fp dp)) with (emerge_sum (di_stage x)).
    fold s1.
    change (stage_advance (with_factors (di_stage x) fv fp dp) s1) with s2.
    destruct (grown (st_sum s2) (si_tsum (di_stage x))) eqn:G; cbn [ds_stage]; [reflexivity|].
    unfold stage_inc. cbn [with_factors si_tsum]. rewrite G. reflexivity.
  Qed.

  Fixpoint dev_trace (xs : list (dev_in (T:=T))) (s : dev_st (T:=T)) : list (stage_in (T:=T)) :=
    match xs with
    | [] => []
    | x :: r => dev_filled x s :: dev_trace r (dev_step x s)
    end.

  Lemma dev_run_stage xs (s : dev_st (T:=T)) :
    ds_stage (dev_run xs s) = stage_run (dev_trace xs s) (ds_stage s).
  Proof.
    revert s; induction xs as [|x r IH]; intros s; cbn [dev_run dev_trace stage_run]; [reflexivity|].
    rewrite IH, dev_step_stage. reflexivity.
  Qed.

  Lemma dev_filled_zeit x s : si_zeit (dev_filled x s) = si_zeit (di_stage x) /\
                              si_nrentw (dev_filled x s) = si_nrentw (di_stage x).
  Proof.
    unfold dev_filled.
    destruct (dev_factors _ _ _) as [[[vt fv] fp] dp]. split; reflexivity.
  Qed.

  Lemma dev_trace_days z len xs (s : dev_st (T:=T)) :
    days_from z len (map (@di_stage T) xs) -> days_from z len (dev_trace xs s).
  Proof.
    revert z s; induction xs as [|x r IH]; intros z s H; cbn in *; [exact I|].
    destruct (dev_filled_zeit x s) as [Hz Hn]. rewrite Hz, Hn.
    destruct H as (H1 & H2 & H3). repeat split; try assumption. apply IH. exact H3.
  Qed.

  Lemma dev_trace_app xs ys (s : dev_st (T:=T)) :
    dev_trace (xs ++ ys) s = dev_trace xs s ++ dev_trace ys (dev_run xs s).
  Proof.
    revert s; induction xs as [|x r IH]; intros s; cbn; [reflexivity|]. rewrite IH. reflexivity.
  Qed.

  (* development never runs backwards with the factors COMPUTED, for any numeric type *)
  Lemma dev_monotone_lemma (xs : list (dev_in (T:=T))) (s : dev_st (T:=T)) (z : Z) :
    dates_ok (ds_stage s) z -> days_from z (length (st_dates (ds_stage s))) (map (@di_stage T) xs) ->
    let s' := ds_stage (dev_run xs s) in
    (st_k (ds_stage s) <= st_k s')%nat /\
    (forall ys zs, xs = ys ++ zs -> (st_k (ds_stage (dev_run ys s)) <= st_k s')%nat) /\
    (forall i j, (i <= j <= st_k s')%nat -> (nth i (st_dates s') 0 <= nth j (st_dates s') 0)%Z).
  Proof.
    intros Hok Hd. cbv zeta. rewrite dev_run_stage.
    pose proof (stage_monotone_lemma (dev_trace xs s) (ds_stage s) z Hok (dev_trace_days _ _ _ _ Hd)) as (H1 & H2 & H3).
    split; [exact H1|]. split; [|exact H3].
    intros ys zs ->. rewrite dev_run_stage. apply (H2 (dev_trace ys s) (dev_trace zs (dev_run ys s))).
    apply dev_trace_app.
  Qed.
End Filled.

Lemma stage_step_phyllo (sx : stage_in (T:=R)) (s : stage_st (T:=R)) :
  0 <= si_fv sx -> 0 <= si_fp sx -> 0 <= si_devprog sx -> 0 <= si_dt sx ->
  st_phyllo s <= st_phyllo (stage_step sx s).
Proof.
  intros Hv Hp Hd Ht. unfold stage_step.
  match goal with |- context [stage_advance sx ?s1] => set (s1' := s1) end.
  pose proof (stage_inc_phyllo sx (stage_advance sx s1') Hv Hp Hd Ht) as H.
  assert (E : st_phyllo (stage_advance sx s1') = st_phyllo s).
  { unfold stage_advance. destruct (_ && _ && _); reflexivity. }
  rewrite E in H. exact H.
Qed.

Lemma dev_step_mono (x : dev_in (T:=R)) (s : dev_st (T:=R)) : 0 <= si_dt (di_stage x) ->
  ds_verntage s <= ds_verntage (dev_step x s) /\
  st_phyllo (ds_stage s) <= st_phyllo (ds_stage (dev_step x s)).
Proof.
  intros Hdt. destruct (dev_step_refines x s Hdt) as (fv & fp & dp & Hv & Hp & Hd & E & Hvt).
  split; [exact Hvt|]. rewrite E. apply stage_step_phyllo; cbn [with_factors si_fv si_fp si_devprog si_dt]; lra.
Qed.

(* over any run of days with non-negative time steps the vernalisation days and the phyllochron sum never decrease *)
Lemma dev_run_mono (xs : list (dev_in (T:=R))) (s : dev_st (T:=R)) :
  Forall (fun x => 0 <= si_dt (di_stage x)) xs ->
  ds_verntage s <= ds_verntage (dev_run xs s) /\
  st_phyllo (ds_stage s) <= st_phyllo (ds_stage (dev_run xs s)).
Proof.
  revert s; induction xs as [|x r IH]; intros s H; cbn [dev_run]; [lra|].
  inversion H as [|? ? Hx Hr]; subst.
  destruct (dev_step_mono x s Hx). destruct (IH (dev_step x s) Hr). lra.
Qed.

(* ==================================================================== *)
(* root() *)

Lemma root_qrez_ge (p : R) : 22 / 1000 <= root_qrez p.
Proof. unfold root_qrez. rsimp. decs. apply Rmax_r. Qed.

Lemma root_depth_range (p : R) : 0 < pot_root_depth (root_qrez p) <= 4500 / 22.
Proof.
  pose proof (root_qrez_ge p) as H. unfold pot_root_depth. rsimp. decs.
  set (q := root_qrez p) in *. assert (Hq : 0 < q) by lra.
  split.
  - apply Rdiv_lt_0_compat; lra.
  - apply (Rmult_le_reg_r q); [exact Hq|]. unfold Rdiv at 1. rewrite Rmult_assoc, Rinv_l by lra. lra.
Qed.

Lemma root_cum_range (e : R) : 0 < e <= 1 -> 0 <= root_cum e < 100.
Proof. intros H. unfold root_cum. rsimp. lra. Qed.

Lemma root_cum_mono (e1 e2 : R) : e2 <= e1 -> root_cum e1 <= root_cum e2.
Proof. intros H. unfold root_cum. rsimp. lra. Qed.

(* root() with the true functions: the potential rooting depth never decreases when the temperature sum grows *)
Definition root_pow_true (veloc tb tempsum : R) : R :=
  Rpower (81476 / 1000000 + exp (- veloc * (tempsum + tb))) (18 / 10).

Lemma root_depth_true_mono (veloc tb t1 t2 : R) : 0 <= veloc -> t1 <= t2 ->
  pot_root_depth (root_qrez (root_pow_true veloc tb t1)) <= pot_root_depth (root_qrez (root_pow_true veloc tb t2)).
Proof.
  intros Hv Ht.
  assert (Hp : root_pow_true veloc tb t2 <= root_pow_true veloc tb t1).
  { unfold root_pow_true. apply Rle_Rpower_l; [lra|]. split.
    - pose proof (exp_pos (- veloc * (t2 + tb))). lra.
    - assert (- veloc * (t2 + tb) <= - veloc * (t1 + tb)) by nra.
      destruct (Req_dec (- veloc * (t2 + tb)) (- veloc * (t1 + tb))) as [E|N]; [rewrite E; lra|].
      assert (L : - veloc * (t2 + tb) < - veloc * (t1 + tb)) by lra.
      pose proof (exp_increasing _ _ L). lra. }
  pose proof (root_qrez_ge (root_pow_true veloc tb t1)) as H1.
  pose proof (root_qrez_ge (root_pow_true veloc tb t2)) as H2.
  assert (Hq : root_qrez (root_pow_true veloc tb t2) <= root_qrez (root_pow_true veloc tb t1)).
  { unfold root_qrez. rsimp. apply Rle_max_compat_r. exact Hp. }
  unfold pot_root_depth. rsimp. decs.
  set (q1 := root_qrez _) in *. set (q2 := root_qrez _) in *.
  unfold Rdiv. apply Rmult_le_compat_l; [lra|].
  apply Rinv_le_contravar; lra.
Qed.

(* ==================================================================== *)
(* crop coefficient from the development progress *)

Lemma relint_range (sum tsum : R) : 0 <= sum -> 0 < tsum -> 0 <= relint_of sum tsum <= 1.
Proof.
  intros Hs Ht. unfold relint_of. rn.
  assert (0 <= sum / tsum) by (unfold Rdiv; apply Rmult_le_pos; [assumption | left; apply Rinv_0_lt_compat; assumption]).
  destruct (Rlt_dec 1 (sum / tsum)); lra.
Qed.

(* the crop coefficient is a convex combination of the two tabulated values: between them, hence >= 0 for non-negative tables *)
Lemma fkc_between (b : bool) (kcini kp kk r : R) : 0 <= r <= 1 ->
  let lo := if b then Rmin kcini kk else Rmin kp kk in
  let hi := if b then Rmax kcini kk else Rmax kp kk in
  lo <= fkc_of b kcini kp kk r <= hi.
Proof.
  intros Hr. unfold fkc_of. destruct b; rsimp; unfold Rmin, Rmax;
    repeat match goal with |- context [Rle_dec ?a ?b] => destruct (Rle_dec a b) end; split; nra.
Qed.

Lemma fkc_nonneg (b : bool) (kcini kp kk r : R) : 0 <= r <= 1 -> 0 <= kcini -> 0 <= kp -> 0 <= kk -> 0 <= fkc_of b kcini kp kk r.
Proof.
  intros Hr H1 H2 H3. pose proof (fkc_between b kcini kp kk r Hr) as H. cbv zeta in H.
  destruct b; unfold Rmin in H; repeat match type of H with context [Rle_dec ?a ?b] => destruct (Rle_dec a b) end; lra.
Qed.

Lemma fkc_pre_nonneg (kcini k0 s t : R) : 0 <= s <= t -> 0 < t -> 0 <= kcini -> 0 <= k0 -> 0 <= fkc_pre kcini k0 s t.
Proof.
  intros Hs Ht H1 H2. unfold fkc_pre. rsimp.
  assert (Hq : 0 <= s / t <= 1).
  { split; [unfold Rdiv; apply Rmult_le_pos; [lra | left; apply Rinv_0_lt_compat; lra]|].
    apply (Rmult_le_reg_r t); [lra|]. unfold Rdiv. rewrite Rmult_assoc, Rinv_l by lra. lra. }
  replace ((k0 - kcini) * s / t) with ((k0 - kcini) * (s / t)) by (unfold Rdiv; ring). nra.
Qed.

(* ==================================================================== *)
(* the argument of root() over a run *)

Lemma cg_upd0 (l : list R) k v : cg (upd l k v) 0 = if (Nat.eqb k 0 && Nat.ltb 0 (length l))%bool then v else cg l 0.
Proof. unfold cg, get. destruct l as [|x l]; destruct k as [|k]; cbn; reflexivity. Qed.

(* conditions on a day's inputs under which the temperature sums cannot decrease: non-negative time step, and a top soil whose water
   content and emergence threshold 0.3*(W-WMIN)+WMIN are sane *)
Definition day_sane (x : dev_in (T:=R)) : Prop :=
  let sx := di_stage x in
  0 <= si_dt sx /\ 0 <= si_wg00 sx /\ 0 < 3 / 10 * (si_w0 sx - si_wmin0 sx) + si_wmin0 sx.

Lemma emerge_sum0 (sx : stage_in (T:=R)) k (sum : list R) :
  0 <= si_dt sx -> 0 <= si_wg00 sx -> 0 < 3 / 10 * (si_w0 sx - si_wmin0 sx) + si_wmin0 sx ->
  cg sum 0 <= cg (emerge_sum sx k sum) 0.
Proof.
  intros Hdt Hwg Hlim. unfold emerge_sum.
  destruct (Nat.eqb k 0); [|lra].
  destruct (gtb (si_temp sx) (cg (si_bas sx) 0)) eqn:E; [|lra].
  apply gtbR in E.
  assert (Hd : 0 <= si_temp sx - cg (si_bas sx) 0) by lra.
  destruct (gtb _ _); rewrite cg_upd0; cbn [Nat.eqb andb]; destruct (Nat.ltb 0 (length sum)); try lra; rn.
  - assert (0 <= (si_temp sx - cg (si_bas sx) 0) * si_dt sx) by (apply Rmult_le_pos; assumption). lra.
  - assert (0 <= si_wg00 sx / (3 / 10 * (si_w0 sx - si_wmin0 sx) + si_wmin0 sx)).
    { unfold Rdiv. apply Rmult_le_pos; [assumption | left; apply Rinv_0_lt_compat; assumption]. }
    assert (0 <= (si_temp sx - cg (si_bas sx) 0) * (si_wg00 sx / (3 / 10 * (si_w0 sx - si_wmin0 sx) + si_wmin0 sx)) * si_dt sx)
      by (apply Rmult_le_pos; [apply Rmult_le_pos|]; assumption).
    lra.
Qed.

Lemma stage_advance_sum0 (sx : stage_in (T:=R)) (s : stage_st (T:=R)) : cg (st_sum (stage_advance sx s)) 0 = cg (st_sum s) 0.
Proof.
  unfold stage_advance. destruct (_ && _ && _); [|reflexivity]. cbn [st_sum]. rewrite cg_upd0. reflexivity.
Qed.

Lemma stage_inc_sum0 (sx : stage_in (T:=R)) (s : stage_st (T:=R)) :
  0 <= si_fv sx -> 0 <= si_fp sx -> 0 <= si_devprog sx -> 0 <= si_dt sx ->
  cg (st_sum s) 0 <= cg (st_sum (stage_inc sx s)) 0.
Proof.
  intros Hv Hp Hd Ht. unfold stage_inc.
  destruct (grown _ _); cbn [andb]; [|lra].
  destruct (geb (si_temp sx) (cg (si_bas sx) (st_k s))) eqn:E; [|lra].
  cbn [st_sum]. rewrite cg_upd0.
  destruct (Nat.eqb (st_k s) 0) eqn:K; cbn [andb]; [|lra].
  destruct (Nat.ltb 0 (length (st_sum s))); [|lra].
  apply Nat.eqb_eq in K. rewrite K in *. unfold geb in E. apply lebR in E. rsimp.
  assert (0 <= si_temp sx - cg (si_bas sx) 0) by lra.
  assert (0 <= (si_temp sx - cg (si_bas sx) 0) * si_fv sx * si_fp sx * si_devprog sx * si_dt sx)
    by (repeat (apply Rmult_le_pos; [|assumption]); assumption).
  lra.
Qed.

(* one day: the argument of root() - phyllochron sum + emergence sum - does not decrease *)
Lemma dev_step_tempsum (x : dev_in (T:=R)) (s : dev_st (T:=R)) : day_sane x ->
  st_phyllo (ds_stage s) + cg (st_sum (ds_stage s)) 0 <=
  st_phyllo (ds_stage (dev_step x s)) + cg (st_sum (ds_stage (dev_step x s))) 0.
Proof.
  intros (Hdt & Hwg & Hlim).
  destruct (dev_step_mono x s Hdt) as [_ Hph].
  destruct (dev_step_refines x s Hdt) as (fv & fp & dp & Hv & Hp & Hd & E & _).
  assert (Hs : cg (st_sum (ds_stage s)) 0 <= cg (st_sum (ds_stage (dev_step x s))) 0).
  { rewrite E. unfold stage_step.
    match goal with |- context [stage_advance ?a ?b] => set (s1 := b) end.
    eapply Rle_trans; [|apply stage_inc_sum0; cbn [with_factors si_fv si_fp si_devprog si_dt]; lra].
    rewrite stage_advance_sum0. subst s1. cbn [st_sum].
    apply (emerge_sum0 (with_factors (di_stage x) fv fp dp)); cbn [with_factors si_dt si_wg00 si_w0 si_wmin0]; assumption. }
  lra.
Qed.

Lemma dev_run_tempsum (xs : list (dev_in (T:=R))) (s : dev_st (T:=R)) : Forall day_sane xs ->
  st_phyllo (ds_stage s) + cg (st_sum (ds_stage s)) 0 <=
  st_phyllo (ds_stage (dev_run xs s)) + cg (st_sum (ds_stage (dev_run xs s))) 0.
Proof.
  revert s; induction xs as [|x r IH]; intros s H; cbn [dev_run]; [lra|].
  inversion H as [|? ? Hx Hr]; subst.
  eapply Rle_trans; [apply (dev_step_tempsum x s Hx) | apply IH; exact Hr].
Qed.

(* ... hence, with the true power and exponential, the potential rooting depth never decreases over any run of sane days *)
Lemma dev_run_root_depth (veloc tb : R) (xs : list (dev_in (T:=R))) (s : dev_st (T:=R)) : 0 <= veloc -> Forall day_sane xs ->
  let ts (d : dev_st (T:=R)) := st_phyllo (ds_stage d) + cg (st_sum (ds_stage d)) 0 in
  pot_root_depth (root_qrez (root_pow_true veloc tb (ts s))) <= pot_root_depth (root_qrez (root_pow_true veloc tb (ts (dev_run xs s)))).
Proof.
  intros Hv H. cbv zeta. apply root_depth_true_mono; [exact Hv | apply dev_run_tempsum; exact H].
Qed.

(* innermost comparisons first (for closed instances) *)
Ltac nodec t := lazymatch t with context [Rlt_dec] => fail | context [Rle_dec] => fail | context [Req_EM_T] => fail | _ => idtac end.
Ltac icases :=
  repeat match goal with
  | |- context [Rlt_dec ?a ?b] => nodec a; nodec b; destruct (Rlt_dec a b); [|try lra]; [try lra|..]; cbn [andb orb negb]
  | |- context [Rle_dec ?a ?b] => nodec a; nodec b; destruct (Rle_dec a b); [|try lra]; [try lra|..]; cbn [andb orb negb]
  | |- context [Req_EM_T ?a ?b] => nodec a; nodec b; destruct (Req_EM_T a b); [|try lra]; [try lra|..]; cbn [andb orb negb]
  end.

Lemma dev_nonvacuous :
  vern_eff 4 = 1 - 2 / 10 * (4 - 3) / 4 /\ 0 < snd (dev_fv 4 20 1 50) < 1 /\ 0 < dev_fp 14 20 7 < 1 /\
  1 < dev_prog false (1/2) 1 0 1.
Proof.
  split; [|split; [|split]].
  - unfold vern_eff. rn. icases; lra.
  - assert (Hm : Rmin 50 9 = 9) by (unfold Rmin; destruct (Rle_dec 50 9); lra).
    unfold dev_fv, vern_step, vern_eff. rn. rewrite Hm. icases; cbn [snd]; lra.
  - unfold dev_fp. rn. icases; lra.
  - unfold dev_prog. rn. unfold Rmax. icases; lra.
Qed.
