(* WeatherProofs.v — lemmas about WeatherModel (model of hermes/weather_input.go), for every
   instance of the numeric class. *)
From Coq Require Import ZArith List Bool Lia FinFun.
From Hermes Require Import Num Util Calendar DateModel DateProofs WeatherModel.
Import ListNotations.
Open Scope Z_scope.

(* ------------------------------------------------------------------ *)
(* lists                                                                *)

Lemma nth_upd_same {A} (l : list A) i v d : (i < length l)%nat -> nth i (upd l i v) d = v.
Proof. revert i; induction l as [|x l IH]; intros [|i] H; cbn in *; try lia; auto. apply IH; lia. Qed.

Lemma nth_upd_other {A} (l : list A) i j v d : i <> j -> nth j (upd l i v) d = nth j l d.
Proof.
  revert i j; induction l as [|x l IH]; intros [|i] [|j] H; cbn; auto; try congruence.
Qed.

Lemma upd_overflow {A} (l : list A) i v : (length l <= i)%nat -> upd l i v = l.
Proof. revert i; induction l as [|x l IH]; intros [|i] H; cbn in *; try lia; auto. rewrite IH; [reflexivity | lia]. Qed.

Lemma NoDup_app_intro {A} (a b : list A) :
  NoDup a -> NoDup b -> (forall x, In x a -> In x b -> False) -> NoDup (a ++ b).
Proof.
  induction a as [|x a IH]; intros Na Nb H; [exact Nb|]. cbn.
  inversion Na as [|? ? Hx Ha]; subst. constructor.
  - intros K. apply in_app_or in K as [K|K]; [exact (Hx K) | exact (H x (or_introl eq_refl) K)].
  - apply IH; auto. intros y Hy. apply H. right. exact Hy.
Qed.

Section WP.
  Context {T : Type} {NT : Num T}.
  Notation wrec := (wrec T).
  Notation store := (store T).
  Notation slot := (slot T).

  (* ---------------------------------------------------------------- *)
  (* LoadYear's copy                                                   *)

  Lemma overwrite_length n (src dst : list wrec) : length (overwrite n src dst) = length dst.
  Proof.
    revert src dst; induction n as [|n IH]; intros src dst; [reflexivity|].
    destruct src as [|a src]; [reflexivity|]. destruct dst as [|b dst]; [reflexivity|].
    cbn. rewrite IH. reflexivity.
  Qed.

  Lemma overwrite_nth n (src dst : list wrec) i :
    (i < n)%nat -> (n <= length src)%nat -> (n <= length dst)%nat ->
    nth i (overwrite n src dst) wzero = fix_minmax (nth i src wzero).
  Proof.
    revert src dst i; induction n as [|n IH]; intros src dst i Hi Hs Hd; [lia|].
    destruct src as [|a src]; [cbn in Hs; lia|]. destruct dst as [|b dst]; [cbn in Hd; lia|].
    cbn [overwrite]. destruct i as [|i]; [reflexivity|]. cbn [nth]. apply IH; cbn in *; lia.
  Qed.

  Lemma overwrite_nth_ge n (src dst : list wrec) i :
    (n <= i)%nat -> nth i (overwrite n src dst) wzero = nth i dst wzero.
  Proof.
    revert src dst i; induction n as [|n IH]; intros src dst i Hi; [reflexivity|].
    destruct src as [|a src]; [reflexivity|]. destruct dst as [|b dst]; [reflexivity|].
    destruct i as [|i]; [lia|]. cbn. apply IH. lia.
  Qed.

  (* ---------------------------------------------------------------- *)
  (* the store as a two-level array                                    *)

  Lemma slot_at_upd_same (st : store) y s : (y < length st)%nat -> slot_at (upd st y s) y = s.
  Proof. intros H. unfold slot_at. apply nth_upd_same. exact H. Qed.

  Lemma slot_at_upd_other (st : store) y y' s : y <> y' -> slot_at (upd st y s) y' = slot_at st y'.
  Proof. intros H. unfold slot_at. apply nth_upd_other. exact H. Qed.

  Lemma length_upd_slot (st : store) y f : length (upd_slot st y f) = length st.
  Proof. unfold upd_slot. apply upd_length. Qed.

  Lemma slot_at_upd_slot (st : store) y f y' :
    slot_at (upd_slot st y f) y' = if (Nat.eqb y y' && (y <? length st)%nat)%bool then f (slot_at st y) else slot_at st y'.
  Proof.
    unfold upd_slot. destruct (Nat.eqb_spec y y') as [<-|Hne]; cbn [andb].
    - destruct (Nat.ltb_spec y (length st)) as [L|L].
      + apply slot_at_upd_same. exact L.
      + rewrite upd_overflow by lia. reflexivity.
    - apply slot_at_upd_other. exact Hne.
  Qed.

  Lemma maxd_set_cell (st : store) y i r y' : maxd_at (set_cell st y i r) y' = maxd_at st y'.
  Proof.
    unfold maxd_at, set_cell. rewrite slot_at_upd_slot.
    destruct (Nat.eqb_spec y y') as [<-|]; cbn [andb]; [|reflexivity].
    destruct (y <? length st)%nat; reflexivity.
  Qed.

  Lemma jar_set_cell (st : store) y i r y' : s_jar (slot_at (set_cell st y i r) y') = s_jar (slot_at st y').
  Proof.
    unfold set_cell. rewrite slot_at_upd_slot.
    destruct (Nat.eqb_spec y y') as [<-|]; cbn [andb]; [|reflexivity].
    destruct (y <? length st)%nat; reflexivity.
  Qed.

  Lemma cells_len_set_cell (st : store) y i r y' :
    length (s_cells (slot_at (set_cell st y i r) y')) = length (s_cells (slot_at st y')).
  Proof.
    unfold set_cell. rewrite slot_at_upd_slot.
    destruct (Nat.eqb_spec y y') as [<-|]; cbn [andb]; [|reflexivity].
    destruct (y <? length st)%nat; [|reflexivity]. cbn [s_cells]. apply upd_length.
  Qed.

  Lemma length_set_cell (st : store) y i r : length (set_cell st y i r) = length st.
  Proof. apply length_upd_slot. Qed.

  Lemma cell_set_cell_same (st : store) y i r :
    (y < length st)%nat -> (i < length (s_cells (slot_at st y)))%nat -> cell (set_cell st y i r) y i = r.
  Proof.
    intros Hy Hi. unfold cell, set_cell. rewrite slot_at_upd_slot, Nat.eqb_refl.
    replace (y <? length st)%nat with true by (symmetry; apply Nat.ltb_lt; exact Hy).
    cbn [andb s_cells]. apply nth_upd_same. exact Hi.
  Qed.

  Lemma cell_set_cell_other (st : store) y i r y' i' :
    (y, i) <> (y', i') -> cell (set_cell st y i r) y' i' = cell st y' i'.
  Proof.
    intros Hne. unfold cell, set_cell. rewrite slot_at_upd_slot.
    destruct (Nat.eqb_spec y y') as [<-|]; cbn [andb]; [|reflexivity].
    destruct (y <? length st)%nat; [|reflexivity]. cbn [s_cells].
    apply nth_upd_other. intros ->. apply Hne. reflexivity.
  Qed.

  (* well-formed store: every year row has the 366 cells of the Go arrays, 0 <= MaxYearDays <= 366 *)
  Definition wf (st : store) : Prop :=
    forall y, (y < length st)%nat -> length (s_cells (slot_at st y)) = 366%nat /\ 0 <= maxd_at st y <= 366.

  Lemma wf_set_cell st y i r : wf st -> wf (set_cell st y i r).
  Proof.
    intros W y' Hy'. rewrite length_set_cell in Hy'. rewrite cells_len_set_cell, maxd_set_cell. apply W. exact Hy'.
  Qed.

  (* ---------------------------------------------------------------- *)
  (* replaceMissingValues                                              *)

  Section Replace.
    Variable none : T.
    Variable yrz : nat.

    Lemma rm_at_maxd st p y' : maxd_at (rm_at none yrz st p) y' = maxd_at st y'.
    Proof. destruct p as [y i]. unfold rm_at. apply maxd_set_cell. Qed.

    Lemma rm_at_jar st p y' : s_jar (slot_at (rm_at none yrz st p) y') = s_jar (slot_at st y').
    Proof. destruct p as [y i]. unfold rm_at. apply jar_set_cell. Qed.

    Lemma rm_at_length st p : length (rm_at none yrz st p) = length st.
    Proof. destruct p as [y i]. unfold rm_at. apply length_set_cell. Qed.

    Lemma rm_at_wf st p : wf st -> wf (rm_at none yrz st p).
    Proof. destruct p as [y i]. unfold rm_at. apply wf_set_cell. Qed.

    Lemma rm_at_other st p y' i' : p <> (y', i') -> cell (rm_at none yrz st p) y' i' = cell st y' i'.
    Proof. destruct p as [y i]. unfold rm_at. apply cell_set_cell_other. Qed.

    Lemma nextpos_ext st st' y i : (forall y', maxd_at st' y' = maxd_at st y') -> nextpos st' yrz y i = nextpos st yrz y i.
    Proof. intros H. unfold nextpos. rewrite H. reflexivity. Qed.

    Lemma prevpos_ext st st' y i : (forall y', maxd_at st' y' = maxd_at st y') -> prevpos st' y i = prevpos st y i.
    Proof. intros H. unfold prevpos. destruct i; [|reflexivity]. destruct y; [reflexivity|]. rewrite H. reflexivity. Qed.

    (* a present average temperature is never touched *)
    Lemma fill_tavg_keep st y i :
      eqb (w_tavg (cell st y i)) none = false -> fill_tavg none st yrz y i = w_tavg (cell st y i).
    Proof.
      intros H. unfold fill_tavg.
      destruct (prevpos st y i) as [[py pi]|]; [destruct (nextpos st yrz y i) as [[ny ni]|]|]; rewrite H; reflexivity.
    Qed.

    (* the fields of the processed cell *)
    Definition fix_rad (r : wrec) : T := if eqb (w_rad r) none then zero else w_rad r.
    Definition fix_prec (r : wrec) : T := if eqb (w_prec r) none then zero else w_prec r.

    Lemma rm_at_same st y i :
      (y < length st)%nat -> (i < length (s_cells (slot_at st y)))%nat ->
      let r := cell st y i in let r' := cell (rm_at none yrz st (y, i)) y i in
      w_tavg r' = fill_tavg none st yrz y i /\ w_tmin r' = w_tmin r /\ w_tmax r' = w_tmax r /\
      w_rh r' = w_rh r /\ w_wind r' = w_wind r /\ w_rad r' = fix_rad r /\ w_prec r' = fix_prec r.
    Proof.
      intros Hy Hi r r'. unfold r', rm_at. rewrite cell_set_cell_same by assumption.
      fold r. unfold fix_rad, fix_prec.
      destruct r as [a b c d e f g]; cbn.
      destruct (eqb e none); cbn; destruct (eqb g none); cbn; repeat split; reflexivity.
    Qed.

    Notation run := (fold_left (rm_at none yrz)).

    Lemma run_maxd ps st y' : maxd_at (run ps st) y' = maxd_at st y'.
    Proof. revert st; induction ps as [|p ps IH]; intros st; [reflexivity|]. cbn [fold_left]. rewrite IH. apply rm_at_maxd. Qed.

    Lemma run_jar ps st y' : s_jar (slot_at (run ps st) y') = s_jar (slot_at st y').
    Proof. revert st; induction ps as [|p ps IH]; intros st; [reflexivity|]. cbn [fold_left]. rewrite IH. apply rm_at_jar. Qed.

    Lemma run_length ps st : length (run ps st) = length st.
    Proof. revert st; induction ps as [|p ps IH]; intros st; [reflexivity|]. cbn [fold_left]. rewrite IH. apply rm_at_length. Qed.

    Lemma run_wf ps st : wf st -> wf (run ps st).
    Proof. revert st; induction ps as [|p ps IH]; intros st W; [exact W|]. cbn [fold_left]. apply IH. apply rm_at_wf. exact W. Qed.

    Lemma run_other ps st y i : ~ In (y, i) ps -> cell (run ps st) y i = cell st y i.
    Proof.
      revert st; induction ps as [|p ps IH]; intros st H; [reflexivity|]. cbn [fold_left].
      rewrite IH by (intros K; apply H; right; exact K).
      apply rm_at_other. intros ->. apply H. left. reflexivity.
    Qed.

    Definition inb (st : store) (y i : nat) : Prop := (y < length st)%nat /\ (i < length (s_cells (slot_at st y)))%nat.

    Lemma inb_rm_at st p y i : inb st y i -> inb (rm_at none yrz st p) y i.
    Proof.
      destruct p as [py pi]. intros [A B]. unfold inb, rm_at. rewrite length_set_cell, cells_len_set_cell. split; assumption.
    Qed.

    (* present average temperatures survive the whole pass *)
    Lemma run_keeps_tavg ps st y i :
      eqb (w_tavg (cell st y i)) none = false -> w_tavg (cell (run ps st) y i) = w_tavg (cell st y i).
    Proof.
      revert st; induction ps as [|p ps IH]; intros st H; [reflexivity|]. cbn [fold_left].
      assert (K : w_tavg (cell (rm_at none yrz st p) y i) = w_tavg (cell st y i)).
      { destruct p as [py pi]. destruct (Nat.eq_dec py y) as [->|Hy].
        - destruct (Nat.eq_dec pi i) as [->|Hi].
          + destruct (Nat.lt_ge_cases y (length st)) as [Ly|Ly].
            * destruct (Nat.lt_ge_cases i (length (s_cells (slot_at st y)))) as [Li|Li].
              -- destruct (rm_at_same st y i Ly Li) as (A & _). rewrite A. apply fill_tavg_keep. exact H.
              -- unfold rm_at, set_cell, upd_slot. rewrite (upd_overflow (s_cells (slot_at st y))) by lia.
                 unfold cell at 1. rewrite slot_at_upd_same by exact Ly. cbn [s_cells]. reflexivity.
            * unfold rm_at, set_cell, upd_slot. rewrite upd_overflow by lia. reflexivity.
          + rewrite rm_at_other by congruence. reflexivity.
        - rewrite rm_at_other by congruence. reflexivity. }
      rewrite IH; rewrite K; [reflexivity | exact H].
    Qed.

    (* the cell at a position that is visited exactly once *)
    Lemma run_at ps1 ps2 st y i :
      ~ In (y, i) ps1 -> ~ In (y, i) ps2 ->
      cell (run (ps1 ++ (y, i) :: ps2) st) y i = cell (rm_at none yrz (run ps1 st) (y, i)) y i.
    Proof. intros H1 H2. rewrite fold_left_app. cbn [fold_left]. apply run_other. exact H2. Qed.

    (* gap filling: a sentinel whose two neighbours (as the loop determines them) are present
       becomes their mean *)
    Lemma gapfill_lemma ps1 ps2 st y i py pi ny ni :
      inb st y i -> ~ In (y, i) ps1 -> ~ In (y, i) ps2 ->
      prevpos st y i = Some (py, pi) -> nextpos st yrz y i = Some (ny, ni) ->
      eqb (w_tavg (cell st y i)) none = true ->
      eqb (w_tavg (cell st py pi)) none = false -> eqb (w_tavg (cell st ny ni)) none = false ->
      w_tavg (cell (run (ps1 ++ (y, i) :: ps2) st) y i)
        = div (add (w_tavg (cell st py pi)) (w_tavg (cell st ny ni))) two.
    Proof.
      intros [By Bi] H1 H2 Hp Hn Hc Hpv Hnx.
      rewrite run_at by assumption.
      set (st1 := run ps1 st).
      assert (By1 : (y < length st1)%nat) by (unfold st1; rewrite run_length; exact By).
      assert (Bi1 : (i < length (s_cells (slot_at st1 y)))%nat).
      { unfold st1. clear -Bi. revert st Bi. induction ps1 as [|p ps IH]; intros st Bi; [exact Bi|].
        cbn [fold_left]. apply IH. destruct p as [a b]. unfold rm_at. rewrite cells_len_set_cell. exact Bi. }
      destruct (rm_at_same st1 y i By1 Bi1) as (A & _). rewrite A.
      unfold fill_tavg.
      rewrite (prevpos_ext st st1) by (intros; apply run_maxd).
      rewrite (nextpos_ext st st1) by (intros; apply run_maxd).
      rewrite Hp, Hn.
      unfold st1. rewrite (run_other ps1 st y i H1).
      rewrite !run_keeps_tavg by assumption.
      rewrite Hc, Hpv, Hnx. reflexivity.
    Qed.

    (* the other fields of a position visited exactly once *)
    Lemma replace_fields_lemma ps1 ps2 st y i :
      inb st y i -> ~ In (y, i) ps1 -> ~ In (y, i) ps2 ->
      let r := cell st y i in let r' := cell (run (ps1 ++ (y, i) :: ps2) st) y i in
      w_tmin r' = w_tmin r /\ w_tmax r' = w_tmax r /\ w_rh r' = w_rh r /\ w_wind r' = w_wind r /\
      w_rad r' = fix_rad r /\ w_prec r' = fix_prec r /\
      (eqb (w_tavg r) none = false -> w_tavg r' = w_tavg r).
    Proof.
      intros [By Bi] H1 H2 r r'. unfold r'. rewrite run_at by assumption.
      set (st1 := run ps1 st).
      assert (By1 : (y < length st1)%nat) by (unfold st1; rewrite run_length; exact By).
      assert (Bi1 : (i < length (s_cells (slot_at st1 y)))%nat).
      { unfold st1. clear -Bi. revert st Bi. induction ps1 as [|p ps IH]; intros st Bi; [exact Bi|].
        cbn [fold_left]. apply IH. destruct p as [a b]. unfold rm_at. rewrite cells_len_set_cell. exact Bi. }
      destruct (rm_at_same st1 y i By1 Bi1) as (A0 & A1 & A2 & A3 & A4 & A5 & A6).
      assert (E : cell st1 y i = r) by (unfold st1; apply run_other; exact H1).
      rewrite E in *. repeat split; try assumption.
      intros K. rewrite A0. rewrite fill_tavg_keep; rewrite E; [reflexivity | exact K].
    Qed.

    (* a sentinel on the first / last cell of what is loaded (no previous or no next cell) becomes 0 *)
    Lemma edge_lemma ps1 ps2 st y i :
      inb st y i -> ~ In (y, i) ps1 -> ~ In (y, i) ps2 ->
      prevpos st y i = None \/ nextpos st yrz y i = None ->
      eqb (w_tavg (cell st y i)) none = true ->
      w_tavg (cell (run (ps1 ++ (y, i) :: ps2) st) y i) = zero.
    Proof.
      intros [By Bi] H1 H2 Hpn Hc.
      rewrite run_at by assumption.
      set (st1 := run ps1 st).
      assert (By1 : (y < length st1)%nat) by (unfold st1; rewrite run_length; exact By).
      assert (Bi1 : (i < length (s_cells (slot_at st1 y)))%nat).
      { unfold st1. clear -Bi. revert st Bi. induction ps1 as [|p ps IH]; intros st Bi; [exact Bi|].
        cbn [fold_left]. apply IH. destruct p as [a b]. unfold rm_at. rewrite cells_len_set_cell. exact Bi. }
      destruct (rm_at_same st1 y i By1 Bi1) as (A & _). rewrite A.
      unfold fill_tavg.
      rewrite (prevpos_ext st st1) by (intros; apply run_maxd).
      rewrite (nextpos_ext st st1) by (intros; apply run_maxd).
      unfold st1. rewrite (run_other ps1 st y i H1). rewrite Hc.
      destruct Hpn as [Hp | Hn].
      - rewrite Hp. reflexivity.
      - rewrite Hn. destruct (prevpos st y i) as [[py pi]|]; reflexivity.
    Qed.
  End Replace.

  (* the positions of the pass are pairwise distinct *)
  Lemma positions_NoDup (st : store) yrz : NoDup (positions st yrz).
  Proof.
    unfold positions.
    assert (G : forall ys, NoDup ys ->
                NoDup (flat_map (fun y => map (fun i => (y, i)) (seq 0 (Z.to_nat (maxd_at st y)))) ys)).
    { induction ys as [|y ys IH]; intros N; [constructor|]. cbn [flat_map].
      inversion N as [|? ? Hn Hd]; subst.
      apply NoDup_app_intro.
      - apply FinFun.Injective_map_NoDup; [|apply seq_NoDup]. intros a b E. congruence.
      - apply IH. exact Hd.
      - intros [a b] H1 H2. apply in_map_iff in H1 as (i & E & _). injection E as <- <-.
        apply in_flat_map in H2 as (y' & Hy' & H2). apply in_map_iff in H2 as (i' & E' & _).
        injection E' as -> _. apply Hn. exact Hy'. }
    apply G. apply seq_NoDup.
  Qed.

  Lemma positions_In (st : store) yrz y i :
    In (y, i) (positions st yrz) <-> (y < yrz)%nat /\ (i < Z.to_nat (maxd_at st y))%nat.
  Proof.
    unfold positions. rewrite in_flat_map. split.
    - intros (y' & Hy' & H). apply in_map_iff in H as (i' & E & Hi'). injection E as -> ->.
      apply in_seq in Hy', Hi'. lia.
    - intros [Hy Hi]. exists y. split; [apply in_seq; lia|].
      apply in_map_iff. exists i. split; [reflexivity | apply in_seq; lia].
  Qed.

  Lemma split_once {A} (l : list A) x :
    In x l -> NoDup l -> exists l1 l2, l = l1 ++ x :: l2 /\ ~ In x l1 /\ ~ In x l2.
  Proof.
    intros H N. destruct (in_split x l H) as (l1 & l2 & ->). exists l1, l2. split; [reflexivity|].
    apply NoDup_remove_2 in N. split; intros K; apply N; apply in_or_app; [left | right]; exact K.
  Qed.

  Lemma wf_inb st yrz y i :
    wf st -> (yrz <= length st)%nat -> In (y, i) (positions st yrz) -> inb st y i.
  Proof.
    intros W L H. apply positions_In in H as [Hy Hi]. destruct (W y ltac:(lia)) as [Lc Hm].
    split; [lia|]. rewrite Lc. lia.
  Qed.

  (* gapfill_adjacent at the level of replaceMissingValues *)
  Lemma gapfill_replace none yrz (st : store) y i py pi ny ni :
    wf st -> (yrz <= length st)%nat -> (y < yrz)%nat -> (i < Z.to_nat (maxd_at st y))%nat ->
    prevpos st y i = Some (py, pi) -> nextpos st yrz y i = Some (ny, ni) ->
    eqb (w_tavg (cell st y i)) none = true ->
    eqb (w_tavg (cell st py pi)) none = false -> eqb (w_tavg (cell st ny ni)) none = false ->
    w_tavg (cell (replace_missing none yrz st) y i)
      = div (add (w_tavg (cell st py pi)) (w_tavg (cell st ny ni))) two.
  Proof.
    intros W L Hy Hi Hp Hn Hc Hpv Hnx. unfold replace_missing.
    assert (Hin : In (y, i) (positions st yrz)) by (apply positions_In; split; assumption).
    destruct (split_once _ _ Hin (positions_NoDup st yrz)) as (l1 & l2 & E & N1 & N2). rewrite E.
    apply gapfill_lemma; auto. apply (wf_inb st yrz); assumption.
  Qed.

  (* which cells the loop takes as neighbours: the previous / next array cell, across the year
     boundary the last cell of the previous year / the FIRST cell of the next year (F10 repaired) *)
  Lemma prevpos_inside (st : store) y i : prevpos st y (S i) = Some (y, i).
  Proof. reflexivity. Qed.
  Lemma prevpos_first (st : store) y : 1 <= maxd_at st y -> prevpos st (S y) 0 = Some (y, Z.to_nat (maxd_at st y - 1)).
  Proof. intros H. unfold prevpos. replace (maxd_at st y - 1 <? 0) with false by (symmetry; apply Z.ltb_ge; lia). reflexivity. Qed.
  Lemma nextpos_inside (st : store) yrz y i : (S i < Z.to_nat (maxd_at st y))%nat -> nextpos st yrz y i = Some (y, S i).
  Proof. intros H. unfold nextpos. replace (Z.to_nat (maxd_at st y) <=? i + 1)%nat with false by (symmetry; apply Nat.leb_gt; lia). reflexivity. Qed.
  Lemma nextpos_last (st : store) yrz y i :
    Z.to_nat (maxd_at st y) = S i -> (S y < yrz)%nat -> nextpos st yrz y i = Some (S y, 0%nat).
  Proof.
    intros H Hy. unfold nextpos. replace (Z.to_nat (maxd_at st y) <=? i + 1)%nat with true by (symmetry; apply Nat.leb_le; lia).
    replace (yrz <=? y + 1)%nat with false by (symmetry; apply Nat.leb_gt; lia). reflexivity.
  Qed.

  (* the other fields after replaceMissingValues *)
  Lemma replace_fields none yrz (st : store) y i :
    wf st -> (yrz <= length st)%nat -> (y < yrz)%nat -> (i < Z.to_nat (maxd_at st y))%nat ->
    let r := cell st y i in let r' := cell (replace_missing none yrz st) y i in
    w_tmin r' = w_tmin r /\ w_tmax r' = w_tmax r /\ w_rh r' = w_rh r /\ w_wind r' = w_wind r /\
    w_rad r' = fix_rad none r /\ w_prec r' = fix_prec none r /\
    (eqb (w_tavg r) none = false -> w_tavg r' = w_tavg r).
  Proof.
    intros W L Hy Hi. unfold replace_missing.
    assert (Hin : In (y, i) (positions st yrz)) by (apply positions_In; split; assumption).
    destruct (split_once _ _ Hin (positions_NoDup st yrz)) as (l1 & l2 & E & N1 & N2). rewrite E.
    apply replace_fields_lemma; auto. apply (wf_inb st yrz); assumption.
  Qed.

  Lemma replace_maxd none yrz (st : store) y : maxd_at (replace_missing none yrz st) y = maxd_at st y.
  Proof. apply run_maxd. Qed.
  Lemma replace_jar none yrz (st : store) y : s_jar (slot_at (replace_missing none yrz st) y) = s_jar (slot_at st y).
  Proof. apply run_jar. Qed.
  Lemma replace_length none yrz (st : store) : length (replace_missing none yrz st) = length st.
  Proof. apply run_length. Qed.
  Lemma replace_wf none yrz (st : store) : wf st -> wf (replace_missing none yrz st).
  Proof. apply run_wf. Qed.

  Lemma edge_replace none yrz (st : store) y i :
    wf st -> (yrz <= length st)%nat -> (y < yrz)%nat -> (i < Z.to_nat (maxd_at st y))%nat ->
    prevpos st y i = None \/ nextpos st yrz y i = None ->
    eqb (w_tavg (cell st y i)) none = true ->
    w_tavg (cell (replace_missing none yrz st) y i) = zero.
  Proof.
    intros W L Hy Hi Hpn Hc. unfold replace_missing.
    assert (Hin : In (y, i) (positions st yrz)) by (apply positions_In; split; assumption).
    destruct (split_once _ _ Hin (positions_NoDup st yrz)) as (l1 & l2 & E & N1 & N2). rewrite E.
    apply edge_lemma; auto. apply (wf_inb st yrz); assumption.
  Qed.

  (* ---------------------------------------------------------------- *)
  (* optional columns of a year file (VERD, SUND, ETNULL since F34): WeatherModel.opt_year            *)

  Lemma nth_firstn_lt {A} (l : list A) n i d : (i < n)%nat -> nth i (firstn n l) d = nth i l d.
  Proof.
    revert n i. induction l as [|a l IH]; intros n i H.
    - rewrite firstn_nil. reflexivity.
    - destruct n; [lia|]. destruct i; [reflexivity|]. cbn. apply IH. lia.
  Qed.

  Lemma col_slot_wf vals : (length vals <= 366)%nat -> wf [col_slot vals].
  Proof.
    intros H y Hy. cbn in Hy. assert (y = 0%nat) by lia. subst y.
    unfold slot_at, maxd_at, slot_at, col_slot. cbn [nth s_cells s_maxd].
    rewrite app_length, map_length, repeat_length. split; lia.
  Qed.

  Lemma col_slot_maxd vals : Z.to_nat (maxd_at [col_slot vals] 0) = length vals.
  Proof. unfold maxd_at, slot_at, col_slot. cbn [nth s_maxd]. apply Nat2Z.id. Qed.

  Lemma cell_col vals i : (i < length vals)%nat -> w_tavg (cell [col_slot vals] 0 i) = nth i vals zero.
  Proof.
    intros H. unfold cell, slot_at, col_slot. cbn [nth s_cells].
    rewrite app_nth1 by (rewrite map_length; exact H).
    change (@wzero T NT) with (lift_col zero) at 1.
    rewrite (map_nth lift_col). reflexivity.
  Qed.

  Lemma opt_year_nth none vals i :
    (i < length vals)%nat ->
    nth i (opt_year none vals) zero = w_tavg (cell (replace_missing none 1 [col_slot vals]) 0 i).
  Proof.
    intros H. unfold opt_year.
    change (@zero T NT) with (w_tavg (@wzero T NT)) at 1.
    rewrite (map_nth w_tavg). rewrite nth_firstn_lt by exact H. reflexivity.
  Qed.

  (* a present value of an optional column reaches the model unchanged *)
  Lemma optional_keep_lemma none vals i :
    (i < length vals)%nat -> (length vals <= 366)%nat ->
    eqb (nth i vals zero) none = false -> nth i (opt_year none vals) zero = nth i vals zero.
  Proof.
    intros Hi Hl Hv. rewrite opt_year_nth by exact Hi.
    destruct (replace_fields none 1 [col_slot vals] 0 i) as (_ & _ & _ & _ & _ & _ & K).
    - apply col_slot_wf; exact Hl.
    - cbn; lia.
    - lia.
    - rewrite col_slot_maxd; exact Hi.
    - rewrite K; rewrite cell_col by exact Hi; [reflexivity | exact Hv].
  Qed.

  (* a sentinel between two present values of the same year file becomes their mean *)
  Lemma optional_gapfill_lemma none vals i :
    (S (S i) < length vals)%nat -> (length vals <= 366)%nat ->
    eqb (nth (S i) vals zero) none = true ->
    eqb (nth i vals zero) none = false -> eqb (nth (S (S i)) vals zero) none = false ->
    nth (S i) (opt_year none vals) zero = div (add (nth i vals zero) (nth (S (S i)) vals zero)) two.
  Proof.
    intros Hi Hl Hc Hp Hn. rewrite opt_year_nth by lia.
    rewrite (gapfill_replace none 1 [col_slot vals] 0 (S i) 0 i 0 (S (S i))).
    - rewrite !cell_col by lia. reflexivity.
    - apply col_slot_wf; exact Hl.
    - cbn; lia.
    - lia.
    - rewrite col_slot_maxd; lia.
    - reflexivity.
    - apply nextpos_inside. rewrite col_slot_maxd; lia.
    - rewrite cell_col by lia; exact Hc.
    - rewrite cell_col by lia; exact Hp.
    - rewrite cell_col by lia; exact Hn.
  Qed.

  (* sunshine hours: a present value reaches the model unchanged *)
  Lemma sund_keep_lemma none vals : forall prev i,
    eqb (nth i vals none) none = false -> nth i (sund_pass none prev vals) none = nth i vals none.
  Proof.
    induction vals as [|v rest IH]; intros prev i H; [destruct i; reflexivity|].
    destruct i as [|i].
    - cbn [nth] in H. cbn [sund_pass nth]. rewrite H.
      destruct prev as [p|]; [destruct rest as [|n r]|]; cbn [andb]; rewrite H; reflexivity.
    - cbn [sund_pass nth]. apply IH. exact H.
  Qed.

  (* a sentinel on the first or the last record of the year file becomes 0 *)
  Lemma optional_edge_lemma none vals i :
    (i < length vals)%nat -> (length vals <= 366)%nat -> i = 0%nat \/ S i = length vals ->
    eqb (nth i vals zero) none = true -> nth i (opt_year none vals) zero = zero.
  Proof.
    intros Hi Hl He Hc. rewrite opt_year_nth by exact Hi.
    apply edge_replace.
    - apply col_slot_wf; exact Hl.
    - cbn; lia.
    - lia.
    - rewrite col_slot_maxd; exact Hi.
    - destruct He as [-> | He].
      + left. reflexivity.
      + right. unfold nextpos. rewrite col_slot_maxd.
        replace (length vals <=? i + 1)%nat with true by (symmetry; apply Nat.leb_le; lia). reflexivity.
    - rewrite cell_col by exact Hi; exact Hc.
  Qed.

  (* ---------------------------------------------------------------- *)
  (* transformWeatherData                                              *)

  Definition tslot (corr : list T) (s : slot) : slot :=
    mkslot (s_jar s) (norm_cells corr (s_jar s) (Z.to_nat (s_maxd s)) 0 (s_cells s)) (s_maxd s).

  Lemma norm_cells_length corr jar n k (l : list wrec) : length (norm_cells corr jar n k l) = length l.
  Proof.
    revert k l; induction n as [|n IH]; intros k l; [reflexivity|].
    destruct l as [|a l]; [reflexivity|]. cbn. rewrite IH. reflexivity.
  Qed.

  Lemma norm_cells_nth corr jar n k (l : list wrec) i :
    (i < n)%nat -> (i < length l)%nat ->
    nth i (norm_cells corr jar n k l) wzero = norm_cell corr jar (k + i) (nth i l wzero).
  Proof.
    revert k l i; induction n as [|n IH]; intros k l i Hi Hl; [lia|].
    destruct l as [|a l]; [cbn in Hl; lia|]. cbn [norm_cells].
    destruct i as [|i]; [cbn; rewrite Nat.add_0_r; reflexivity|].
    cbn [nth]. rewrite IH by (cbn in Hl; lia). f_equal. lia.
  Qed.

  Lemma norm_cells_nth_ge corr jar n k (l : list wrec) i :
    (n <= i)%nat -> nth i (norm_cells corr jar n k l) wzero = nth i l wzero.
  Proof.
    revert k l i; induction n as [|n IH]; intros k l i Hi; [reflexivity|].
    destruct l as [|a l]; [reflexivity|]. destruct i as [|i]; [lia|]. cbn. apply IH. lia.
  Qed.

  Lemma transform_year_slot corr (st : store) y y' :
    slot_at (transform_year corr st y) y' =
      if (Nat.eqb y y' && (y <? length st)%nat)%bool then tslot corr (slot_at st y) else slot_at st y'.
  Proof. unfold transform_year, maxd_at. rewrite slot_at_upd_slot. reflexivity. Qed.

  Lemma transform_slots corr ys (st : store) y :
    NoDup ys -> (forall x, In x ys -> (x < length st)%nat) ->
    slot_at (fold_left (transform_year corr) ys st) y = if in_dec Nat.eq_dec y ys then tslot corr (slot_at st y) else slot_at st y.
  Proof.
    revert st; induction ys as [|a ys IH]; intros st N B; [reflexivity|].
    inversion N as [|? ? Ha Nd]; subst. cbn [fold_left].
    rewrite IH; [|exact Nd|].
    2:{ intros x Hx. unfold transform_year. rewrite length_upd_slot. apply B. right. exact Hx. }
    rewrite transform_year_slot.
    assert (La : (a <? length st)%nat = true) by (apply Nat.ltb_lt; apply B; left; reflexivity).
    rewrite La, andb_true_r.
    destruct (in_dec Nat.eq_dec y ys) as [I|I]; destruct (in_dec Nat.eq_dec y (a :: ys)) as [J|J].
    - destruct (Nat.eqb_spec a y) as [->|]; [contradiction | reflexivity].
    - exfalso. apply J. right. exact I.
    - destruct J as [->|J]; [|contradiction]. rewrite Nat.eqb_refl. reflexivity.
    - destruct (Nat.eqb_spec a y) as [->|]; [exfalso; apply J; left; reflexivity | reflexivity].
  Qed.

  Lemma transform_slot corr yrz (st : store) y :
    (yrz <= length st)%nat ->
    slot_at (transform corr yrz st) y = if (y <? yrz)%nat then tslot corr (slot_at st y) else slot_at st y.
  Proof.
    intros L. unfold transform. rewrite transform_slots.
    - destruct (in_dec Nat.eq_dec y (seq 0 yrz)) as [I|I]; destruct (Nat.ltb_spec y yrz) as [K|K]; try reflexivity.
      + apply in_seq in I. lia.
      + exfalso. apply I. apply in_seq. lia.
    - apply seq_NoDup.
    - intros x Hx. apply in_seq in Hx. lia.
  Qed.

  (* every cell below MaxYearDays of a loaded year is normalised, nothing else changes *)
  Lemma transform_cell corr yrz (st : store) y i :
    wf st -> (yrz <= length st)%nat -> (y < yrz)%nat -> (i < Z.to_nat (maxd_at st y))%nat ->
    cell (transform corr yrz st) y i = norm_cell corr (s_jar (slot_at st y)) i (cell st y i) /\
    maxd_at (transform corr yrz st) y = maxd_at st y /\ s_jar (slot_at (transform corr yrz st) y) = s_jar (slot_at st y).
  Proof.
    intros W L Hy Hi. unfold cell, maxd_at. rewrite transform_slot by exact L.
    replace (y <? yrz)%nat with true by (symmetry; apply Nat.ltb_lt; exact Hy).
    unfold tslot; cbn [s_cells s_maxd s_jar]. repeat split.
    destruct (W y ltac:(lia)) as [Lc Hm]. unfold maxd_at in *.
    rewrite norm_cells_nth by lia. reflexivity.
  Qed.

  Lemma transform_length corr yrz (st : store) : length (transform corr yrz st) = length st.
  Proof.
    unfold transform. generalize (seq 0 yrz) as ys. intros ys; revert st; induction ys as [|a ys IH]; intros st; [reflexivity|].
    cbn [fold_left]. rewrite IH. unfold transform_year. apply length_upd_slot.
  Qed.

  Lemma transform_cells_len corr yrz (st : store) y :
    (yrz <= length st)%nat -> length (s_cells (slot_at (transform corr yrz st) y)) = length (s_cells (slot_at st y)).
  Proof.
    intros L. rewrite transform_slot by exact L. destruct (y <? yrz)%nat; [|reflexivity].
    unfold tslot; cbn [s_cells]. apply norm_cells_length.
  Qed.

  (* ---------------------------------------------------------------- *)
  (* errors the loaders detect                                         *)

  (* multi-year readers: a kept record that is neither the successor day of the previous one nor
     a 1 January ends the read with "missing days" *)
  Lemma gap_is_error_multi sy y yd (r : wrec) rest Tv yrz (st : store) :
    sy <= y -> yd <> Tv + 1 -> yd <> 1 -> rm_loop sy ((y, yd, r) :: rest) Tv yrz false st = None.
  Proof.
    intros Hy H1 H2. cbn [rm_loop].
    replace (y <? sy) with false by (symmetry; apply Z.ltb_ge; lia).
    replace (yd =? 1) with false by (symmetry; apply Z.eqb_neq; exact H2).
    replace (yd =? Tv + 1) with false by (symmetry; apply Z.eqb_neq; exact H1). reflexivity.
  Qed.

  (* first kept record: any day of the year is accepted ("failsave if the first date is not 1.Jan") *)
  Lemma first_record_accepted sy y yd (r : wrec) Tv yrz (st : store) :
    sy <= y -> (1 <= length st)%nat ->
    rm_loop sy [(y, yd, r)] Tv yrz true st = Some (put st 0 y yd r, 1).
  Proof.
    intros Hy L. cbn [rm_loop].
    replace (y <? sy) with false by (symmetry; apply Z.ltb_ge; lia).
    rewrite Z.eqb_refl. cbn [negb].
    replace (1 >? Z.of_nat (length st)) with false by (symmetry; rewrite Z.gtb_ltb; apply Z.ltb_ge; lia).
    reflexivity.
  Qed.

  (* per-year reader: a day-of-year column that does not continue Tlast + 1 ends the read with the
     error flag (run.go discards it: F9) *)
  Lemma gap_is_error_year Tv (r : wrec) rest Tlast (s : slot) :
    Tv <> Tlast + 1 -> wk_loop ((Tv, r) :: rest) Tlast s = Some (s, false).
  Proof.
    intros H. cbn [wk_loop]. replace (Tlast + 1 =? Tv) with false by (symmetry; apply Z.eqb_neq; lia). reflexivity.
  Qed.

  Lemma missing_file_is_error none corr year (st : store) : wetterk none corr year None st = Some (st, false).
  Proof. reflexivity. Qed.

  (* LoadYear reports a year that is not in the store *)
  Lemma find_year_none (st : store) year : (forall s, In s st -> s_jar s <> year) -> find_year st year = None.
  Proof.
    induction st as [|s st IH]; intros H; [reflexivity|]. cbn [find_year].
    replace (s_jar s =? year) with false by (symmetry; apply Z.eqb_neq; apply H; left; reflexivity).
    apply IH. intros s' Hs'. apply H. right. exact Hs'.
  Qed.

  Lemma uncovered_year_is_loader_error (g : list wrec) jtag (st : store) year :
    (forall s, In s st -> s_jar s <> year) -> load_year g jtag st year = (g, jtag, false).
  Proof. intros H. unfold load_year. rewrite find_year_none by exact H. reflexivity. Qed.

  (* CSV and CZ layouts: the same series gives the same store when the CSV tavg column holds
     (tmax + tmin) / 2 *)
  Lemma layouts_agree_multi none corr sy nslots (ser : list (date * wrec)) :
    (forall t r, In (t, r) ser -> w_tavg r = div (add (w_tmax r) (w_tmin r)) two) ->
    read_multi none corr sy nslots (map (fun tr => csv_rec (fst tr) (snd tr)) ser)
    = read_multi none corr sy nslots (map (fun tr => cz_rec (dy (fst tr)) (doy (fst tr)) (snd tr)) ser).
  Proof.
    intros H. f_equal. apply map_ext_in. intros [t r] Hin. unfold csv_rec, cz_rec. cbn [fst snd].
    f_equal. rewrite <- (H t r Hin). destruct r; reflexivity.
  Qed.

  (* ---------------------------------------------------------------- *)
  (* placement by the readers                                          *)

  Variable raw : Z -> Z -> wrec.      (* the series: year -> day of the year -> values of that line *)

  Definition place_days (st : store) (k : nat) (y a : Z) (n : nat) : store :=
    fold_left (fun st d => put st k y d (raw y d)) (zrange a n) st.

  (* slot j holds the complete year y *)
  Definition year_slot (st : store) (j : nat) (y : Z) : Prop :=
    s_jar (slot_at st j) = y /\ maxd_at st j = ylen y /\
    forall d, 1 <= d <= ylen y -> cell st j (Z.to_nat (d - 1)) = raw y d.

  Lemma put_slot_at (st : store) k y Tv r j :
    slot_at (put st k y Tv r) j = if (Nat.eqb k j && (k <? length st)%nat)%bool then put_slot (slot_at st k) y Tv r else slot_at st j.
  Proof. unfold put. apply slot_at_upd_slot. Qed.

  Lemma place_days_spec n : forall (st : store) k y a,
    wf st -> (k < length st)%nat -> 1 <= a -> a - 1 + Z.of_nat n <= 366 ->
    let st' := place_days st k y a n in
    wf st' /\ length st' = length st /\
    (forall j, j <> k -> slot_at st' j = slot_at st j) /\
    ((1 <= n)%nat -> s_jar (slot_at st' k) = y /\ maxd_at st' k = a - 1 + Z.of_nat n) /\
    (forall d, a <= d < a + Z.of_nat n -> cell st' k (Z.to_nat (d - 1)) = raw y d) /\
    (forall d, 1 <= d < a -> cell st' k (Z.to_nat (d - 1)) = cell st k (Z.to_nat (d - 1))).
  Proof.
    induction n as [|n IH]; intros st k y a W Hk Ha Hn st'.
    - unfold st', place_days. cbn [zrange fold_left].
      split; [exact W|]. split; [reflexivity|]. split; [intros; reflexivity|].
      split; [intros; lia|]. split; [intros; lia | intros; reflexivity].
    - unfold st', place_days. cbn [zrange fold_left].
      set (st1 := put st k y a (raw y a)).
      assert (L1 : length st1 = length st) by (unfold st1, put; apply length_upd_slot).
      assert (Kb : (k <? length st)%nat = true) by (apply Nat.ltb_lt; exact Hk).
      assert (S1 : slot_at st1 k = put_slot (slot_at st k) y a (raw y a)).
      { unfold st1. rewrite put_slot_at, Nat.eqb_refl, Kb. reflexivity. }
      destruct (W k Hk) as [Lc Hm].
      assert (W1 : wf st1).
      { intros j Hj. rewrite L1 in Hj. unfold maxd_at. destruct (Nat.eq_dec j k) as [->|Hne].
        - rewrite S1. unfold put_slot; cbn [s_cells s_maxd]. rewrite upd_length. split; [exact Lc | lia].
        - unfold st1. rewrite put_slot_at. replace (Nat.eqb k j) with false by (symmetry; apply Nat.eqb_neq; congruence).
          cbn [andb]. apply W. exact Hj. }
      destruct (IH st1 k y (a + 1) W1 ltac:(lia) ltac:(lia) ltac:(lia)) as (Wn & Ln & Fr & Jm & Cd & Cb).
      fold (place_days st1 k y (a + 1) n) in *.
      split; [exact Wn|]. split; [lia|]. split; [|split; [|split]].
      + intros j Hj. rewrite Fr by exact Hj. unfold st1. rewrite put_slot_at.
        replace (Nat.eqb k j) with false by (symmetry; apply Nat.eqb_neq; congruence). reflexivity.
      + intros _. destruct n as [|n'].
        * unfold place_days; cbn [zrange fold_left]. unfold maxd_at. rewrite S1. unfold put_slot; cbn. split; [reflexivity | lia].
        * destruct (Jm ltac:(lia)) as [J1 J2]. split; [exact J1 | lia].
      + intros d Hd. destruct (Z.eq_dec d a) as [->|Hne].
        * rewrite Cb by lia. unfold cell. rewrite S1. unfold put_slot; cbn [s_cells].
          apply nth_upd_same. rewrite Lc. lia.
        * apply Cd. lia.
      + intros d Hd. rewrite Cb by lia. unfold cell. rewrite S1. unfold put_slot; cbn [s_cells].
        apply nth_upd_other. lia.
  Qed.

  Lemma ylen_nat y : (1 <= Z.to_nat (ylen y))%nat /\ Z.of_nat (Z.to_nat (ylen y)) = ylen y.
  Proof. unfold ylen. destruct (leap y); split; lia. Qed.

  Lemma place_year_spec (st : store) k y :
    wf st -> (k < length st)%nat ->
    let st' := place_days st k y 1 (Z.to_nat (ylen y)) in
    wf st' /\ length st' = length st /\ (forall j, j <> k -> slot_at st' j = slot_at st j) /\ year_slot st' k y.
  Proof.
    intros W Hk st'. subst st'. destruct (ylen_nat y) as [N1 N2].
    assert (Hl : ylen y <= 366) by (unfold ylen; destruct (leap y); lia).
    destruct (place_days_spec (Z.to_nat (ylen y)) st k y 1 W Hk ltac:(lia) ltac:(lia)) as (A & B & C & D & E & _).
    split; [exact A|]. split; [exact B|]. split; [exact C|].
    destruct (D N1) as [D1 D2]. split; [exact D1|]. split; [lia|].
    intros d Hd. apply E. lia.
  Qed.

  Section Loop.
    Variable sy : Z.

    Definition recs_of (y a : Z) (n : nat) : list (mrec T) := map (fun d => (y, d, raw y d)) (zrange a n).
    Definition block (y : Z) : list (mrec T) := recs_of y 1 (Z.to_nat (ylen y)).

    Lemma rm_days n : forall a rest yrz (st : store) y,
      sy <= y -> 2 <= a -> 1 <= yrz <= Z.of_nat (length st) ->
      rm_loop sy (recs_of y a n ++ rest) (a - 1) yrz false st
      = rm_loop sy rest (a - 1 + Z.of_nat n) yrz false (place_days st (Z.to_nat (yrz - 1)) y a n).
    Proof.
      induction n as [|n IH]; intros a rest yrz st y Hy Ha Hz.
      - cbn. f_equal. lia.
      - unfold recs_of, place_days. cbn [zrange map app fold_left rm_loop].
        replace (y <? sy) with false by (symmetry; apply Z.ltb_ge; lia).
        replace (a =? 1) with false by (symmetry; apply Z.eqb_neq; lia).
        cbn [negb andb].
        replace (a - 1 + 1) with a by lia. rewrite Z.eqb_refl. cbn [negb].
        replace (yrz >? Z.of_nat (length st)) with false by (symmetry; rewrite Z.gtb_ltb; apply Z.ltb_ge; lia).
        pose proof (IH (a + 1) rest yrz (put st (Z.to_nat (yrz - 1)) y a (raw y a)) y Hy ltac:(lia)) as K.
        replace (a + 1 - 1) with a in K by lia. unfold recs_of, place_days in K. rewrite K.
        + f_equal. lia.
        + unfold put. rewrite length_upd_slot. exact Hz.
    Qed.

    Lemma prev_ok_of_slot (st : store) yrz y :
      s_jar (slot_at st (Z.to_nat (yrz - 1))) = y - 1 -> maxd_at st (Z.to_nat (yrz - 1)) = ylen (y - 1) ->
      prev_year_ok st yrz y = true.
    Proof. intros A B. unfold prev_year_ok. unfold maxd_at in B. rewrite A, B, !Z.eqb_refl. reflexivity. Qed.

    (* a whole year block at the head of the remaining input *)
    Lemma rm_year_gen (isfirst : bool) y rest Tv yrz (st : store) :
      sy <= y -> 0 <= yrz ->
      (isfirst = false -> prev_year_ok st yrz y = true) ->      (* the slot before holds the complete year before (F32, F33) *)
      let yrz1 := if isfirst then 1 else yrz + 1 in
      rm_loop sy (block y ++ rest) Tv yrz isfirst st
      = if yrz1 >? Z.of_nat (length st) then Some (st, yrz1 - 1)
        else rm_loop sy rest (ylen y) yrz1 false (place_days st (Z.to_nat (yrz1 - 1)) y 1 (Z.to_nat (ylen y))).
    Proof.
      intros Hy Hz Hprev yrz1. destruct (ylen_nat y) as [N1 N2].
      unfold block. destruct (Z.to_nat (ylen y)) as [|n] eqn:En; [lia|].
      unfold recs_of at 1. cbn [zrange map app rm_loop].
      replace (y <? sy) with false by (symmetry; apply Z.ltb_ge; lia).
      assert (Hchk : (negb isfirst && (1 =? 1) && negb (prev_year_ok st yrz y)) = false).
      { destruct isfirst; [reflexivity|]. rewrite (Hprev eq_refl). reflexivity. }
      rewrite Hchk.
      assert (Hsel : (if isfirst then (1, 1) else if 1 =? 1 then (1, yrz + 1) else (Tv + 1, yrz)) = (1, yrz1)).
      { unfold yrz1. destruct isfirst; reflexivity. }
      rewrite Hsel. cbn [Z.eqb Pos.eqb negb].
      destruct (yrz1 >? Z.of_nat (length st)) eqn:G; [reflexivity|].
      rewrite Z.gtb_ltb in G. apply Z.ltb_ge in G.
      assert (H1 : 1 <= yrz1) by (unfold yrz1; destruct isfirst; lia).
      fold (recs_of y (1 + 1) n).
      pose proof (rm_days n 2 rest yrz1 (put st (Z.to_nat (yrz1 - 1)) y 1 (raw y 1)) y Hy ltac:(lia)) as K.
      replace (2 - 1) with 1 in K by lia. change (1 + 1) with 2. rewrite K.
      - unfold place_days. cbn [zrange fold_left]. change (1 + 1) with 2. f_equal. lia.
      - unfold put. rewrite length_upd_slot. lia.
    Qed.

    (* records of years before the start year are skipped; [first] stays set *)
    Lemma rm_skip (l : list (mrec T)) rest Tv yrz (st : store) :
      (forall y d r, In (y, d, r) l -> y < sy) ->
      rm_loop sy (l ++ rest) Tv yrz true st = rm_loop sy rest (Tv + Z.of_nat (length l)) yrz true st.
    Proof.
      revert Tv; induction l as [|[[y d] r] l IH]; intros Tv H.
      - cbn. f_equal. lia.
      - cbn [app rm_loop]. replace (y <? sy) with true by (symmetry; apply Z.ltb_lt; apply (H y d r); left; reflexivity).
        rewrite IH by (intros y' d' r' K; apply (H y' d' r'); right; exact K). f_equal. cbn [length]. lia.
    Qed.

    (* with [first] set, the value of T and yrz at a kept year block does not matter *)
    (* consecutive complete years y, y+1, ... after the first kept one *)
    Lemma rm_years n : forall y Tv yrz (st : store),
      wf st -> sy <= y -> 0 <= yrz <= Z.of_nat (length st) ->
      prev_year_ok st yrz y = true ->
      exists st' yrz',
        rm_loop sy (flat_map block (zrange y n)) Tv yrz false st = Some (st', yrz') /\
        wf st' /\ length st' = length st /\
        yrz' = Z.min (yrz + Z.of_nat n) (Z.of_nat (length st)) /\
        (forall j, (Z.of_nat j < yrz) -> slot_at st' j = slot_at st j) /\
        (forall j, yrz <= Z.of_nat j < yrz' -> year_slot st' j (y + (Z.of_nat j - yrz))).
    Proof.
      induction n as [|n IH]; intros y Tv yrz st W Hy Hz Hp.
      - exists st, yrz. cbn [zrange flat_map rm_loop].
        split; [reflexivity|]. split; [exact W|]. split; [reflexivity|]. split; [lia|].
        split; [intros; reflexivity | intros; lia].
      - cbn [zrange flat_map]. rewrite (rm_year_gen false y _ Tv yrz st Hy ltac:(lia) (fun _ => Hp)). cbv zeta.
        destruct (yrz + 1 >? Z.of_nat (length st)) eqn:G.
        + rewrite Z.gtb_ltb in G. apply Z.ltb_lt in G.
          exists st, yrz. replace (yrz + 1 - 1) with yrz by lia.
          split; [reflexivity|]. split; [exact W|]. split; [reflexivity|]. split; [lia|].
          split; [intros; reflexivity | intros; lia].
        + rewrite Z.gtb_ltb in G. apply Z.ltb_ge in G.
          replace (yrz + 1 - 1) with yrz by lia.
          destruct (place_year_spec st (Z.to_nat yrz) y W ltac:(lia)) as (W1 & L1 & F1 & Y1).
          set (st1 := place_days st (Z.to_nat yrz) y 1 (Z.to_nat (ylen y))) in *.
          assert (Hp1 : prev_year_ok st1 (yrz + 1) (y + 1) = true).
          { apply prev_ok_of_slot; replace (yrz + 1 - 1) with yrz by lia; replace (y + 1 - 1) with y by lia; apply Y1. }
          destruct (IH (y + 1) (ylen y) (yrz + 1) st1 W1 ltac:(lia) ltac:(lia) Hp1) as (st' & yrz' & R & W' & L' & M' & F' & Y').
          exists st', yrz'. split; [exact R|]. split; [exact W'|]. split; [lia|]. split; [lia|]. split.
          * intros j Hj. rewrite F' by lia. apply F1. lia.
          * intros j Hj. destruct (Z.eq_dec (Z.of_nat j) yrz) as [E|Hne].
            -- replace (y + (Z.of_nat j - yrz)) with y by lia.
               assert (Ej : j = Z.to_nat yrz) by lia. subst j.
               destruct Y1 as (A & B & C). unfold year_slot, maxd_at, cell in *.
               rewrite (F' (Z.to_nat yrz)) by lia. repeat split; assumption.
            -- replace (y + (Z.of_nat j - yrz)) with (y + 1 + (Z.of_nat j - (yrz + 1))) by lia.
               apply Y'. lia.
    Qed.
  End Loop.

  (* ---------------------------------------------------------------- *)
  (* loader_places: what LoadYear finds after a read                   *)

  (* the documented normalisation of one line [r] of day d of year y; the average temperature of
     a line that carries the sentinel is fixed by gapfill_adjacent, not here *)
  Definition normalised (none : T) (corr : list T) (y d : Z) (r c : wrec) : Prop :=
    w_tmin c = w_tmin r /\ w_tmax c = w_tmax r /\ w_rh c = w_rh r /\
    w_wind c = (if ltb (w_wind r) half then half else w_wind r) /\
    w_rad c = div (fix_rad none r) two /\
    w_prec c = mul (div (fix_prec none r) ten) (corr_value corr (corr_day y (Z.to_nat (d - 1)))) /\
    (eqb (w_tavg r) none = false -> w_tavg c = w_tavg r).

  Lemma find_year_nth (st : store) j y :
    (j < length st)%nat -> s_jar (slot_at st j) = y ->
    (forall j', (j' < j)%nat -> s_jar (slot_at st j') <> y) ->
    find_year st y = Some (slot_at st j).
  Proof.
    revert j; induction st as [|s st IH]; intros j Hj Hy Hb; [cbn in Hj; lia|].
    destruct j as [|j].
    - cbn in Hy |- *. rewrite Hy, Z.eqb_refl. reflexivity.
    - cbn [find_year]. pose proof (Hb 0%nat ltac:(lia)) as H0. cbn in H0.
      replace (s_jar s =? y) with false by (symmetry; apply Z.eqb_neq; exact H0).
      unfold slot_at in *. cbn [nth]. apply IH; [cbn in Hj; lia | exact Hy |].
      intros j' Hj'. apply (Hb (S j')). lia.
  Qed.

  Lemma zrange_app lo a b : zrange lo (a + b) = zrange lo a ++ zrange (lo + Z.of_nat a) b.
  Proof.
    revert lo; induction a as [|a IH]; intros lo; [cbn; f_equal; lia|].
    cbn [Nat.add zrange app]. rewrite IH. f_equal. f_equal. f_equal. lia.
  Qed.

  Lemma wf_new n : wf (repeat (@empty_slot T NT) n).
  Proof.
    intros y Hy. rewrite repeat_length in Hy. unfold maxd_at, slot_at.
    rewrite nth_repeat. unfold empty_slot; cbn [s_cells s_maxd]. rewrite repeat_length. split; [reflexivity | lia].
  Qed.

  (* after replaceMissingValues and transformWeatherData a completely placed year is normalised *)
  Lemma finish_year none corr yrz (st : store) j y :
    wf st -> (yrz <= length st)%nat -> (j < yrz)%nat -> year_slot st j y ->
    let st' := transform corr yrz (replace_missing none yrz st) in
    s_jar (slot_at st' j) = y /\ maxd_at st' j = ylen y /\ length (s_cells (slot_at st' j)) = 366%nat /\
    forall d, 1 <= d <= ylen y -> normalised none corr y d (raw y d) (cell st' j (Z.to_nat (d - 1))).
  Proof.
    intros W L Hj (Yj & Ym & Yc) st'.
    set (st1 := replace_missing none yrz st).
    assert (W1 : wf st1) by (apply replace_wf; exact W).
    assert (L1 : (yrz <= length st1)%nat) by (unfold st1; rewrite replace_length; exact L).
    assert (M1 : maxd_at st1 j = ylen y) by (unfold st1; rewrite replace_maxd; exact Ym).
    assert (J1 : s_jar (slot_at st1 j) = y) by (unfold st1; rewrite replace_jar; exact Yj).
    pose proof (ylen_nat y) as [N1 N2].
    split; [|split; [|split]].
    - destruct (transform_cell corr yrz st1 j 0 W1 L1 Hj ltac:(lia)) as (_ & _ & A). unfold st'. fold st1. rewrite A. exact J1.
    - destruct (transform_cell corr yrz st1 j 0 W1 L1 Hj ltac:(lia)) as (_ & A & _). unfold st'. fold st1. rewrite A. exact M1.
    - unfold st'. fold st1. rewrite transform_cells_len by exact L1. apply (W1 j). lia.
    - intros d Hd. set (i := Z.to_nat (d - 1)).
      assert (Hi : (i < Z.to_nat (maxd_at st j))%nat) by (unfold i; lia).
      destruct (transform_cell corr yrz st1 j i W1 L1 Hj ltac:(unfold i; lia)) as (A & _ & _).
      unfold st'. fold st1. rewrite A, J1.
      destruct (replace_fields none yrz st j i W L Hj Hi) as (F1 & F2 & F3 & F4 & F5 & F6 & F7).
      fold st1 in F1, F2, F3, F4, F5, F6, F7. unfold i in F1, F2, F3, F4, F5, F6, F7. rewrite (Yc d Hd) in *. fold i in F1, F2, F3, F4, F5, F6, F7.
      unfold normalised, norm_cell.
      set (c := cell st1 j i) in *.
      assert (Ew : forall r : wrec, w_wind (if ltb (w_wind r) half then set_wind r half else r)
                                    = if ltb (w_wind r) half then half else w_wind r).
      { intros r. destruct (ltb (w_wind r) half); reflexivity. }
      assert (Ef : forall (r : wrec) (f : wrec -> T), (f (set_wind r half) = f r) ->
                   f (if ltb (w_wind r) half then set_wind r half else r) = f r).
      { intros r f Hf. destruct (ltb (w_wind r) half); [exact Hf | reflexivity]. }
      repeat split.
      + rewrite (Ef _ w_tmin) by reflexivity. cbn. exact F1.
      + rewrite (Ef _ w_tmax) by reflexivity. cbn. exact F2.
      + rewrite (Ef _ w_rh) by reflexivity. cbn. exact F3.
      + rewrite Ew. cbn. rewrite F4. reflexivity.
      + rewrite (Ef _ w_rad) by reflexivity. cbn. rewrite F5. reflexivity.
      + rewrite (Ef _ w_prec) by reflexivity. cbn. rewrite F6. reflexivity.
      + intros K. rewrite (Ef _ w_tavg) by reflexivity. cbn. apply F7. exact K.
  Qed.

  (* multi-year layouts: a file of complete years ya .. ya+n-1 that contains the start year *)
  Lemma loader_places_multi_lemma none corr sy nslots ya n :
    ya <= sy < ya + Z.of_nat n -> 1 <= nslots ->
    exists st, read_multi none corr sy nslots (flat_map block (zrange ya n)) = Some st /\
      forall y, sy <= y < sy + Z.min (ya + Z.of_nat n - sy) nslots ->
        exists s, find_year st y = Some s /\ s_maxd s = ylen y /\ length (s_cells s) = 366%nat /\
                  forall d, 1 <= d <= ylen y ->
                    normalised none corr y d (raw y d) (nth (Z.to_nat (d - 1)) (s_cells s) wzero).
  Proof.
    intros Hs Hn. unfold read_multi, new_store.
    replace (nslots <? 0) with false by (symmetry; apply Z.ltb_ge; lia).
    set (st0 := repeat (@empty_slot T NT) (Z.to_nat nslots)).
    assert (W0 : wf st0) by apply wf_new.
    assert (L0 : Z.of_nat (length st0) = nslots) by (unfold st0; rewrite repeat_length; lia).
    (* split the file at the start year *)
    set (k := Z.to_nat (sy - ya)). set (m := (n - k - 1)%nat).
    assert (En : n = (k + S m)%nat) by (unfold k, m; lia).
    rewrite En, zrange_app, flat_map_app.
    replace (ya + Z.of_nat k) with sy by (unfold k; lia).
    rewrite rm_skip.
    2:{ intros y d r H. apply in_flat_map in H as (y' & Hy' & H). apply zrange_In in Hy'.
        unfold block, recs_of in H. apply in_map_iff in H as (d' & E & _). injection E as <- _ _. unfold k in Hy'. lia. }
    cbn [zrange flat_map].
    rewrite (rm_year_gen sy true sy _ _ 0 st0 ltac:(lia) ltac:(lia) ltac:(discriminate)). cbv zeta.
    replace (1 >? Z.of_nat (length st0)) with false by (symmetry; rewrite Z.gtb_ltb; apply Z.ltb_ge; lia).
    replace (1 - 1) with 0 by lia. change (Z.to_nat 0) with 0%nat.
    destruct (place_year_spec st0 0 sy W0 ltac:(lia)) as (W1 & L1 & F1 & Y1).
    set (st1 := place_days st0 0 sy 1 (Z.to_nat (ylen sy))) in *.
    assert (Hp0 : prev_year_ok st1 1 (sy + 1) = true).
    { apply prev_ok_of_slot; change (Z.to_nat (1 - 1)) with 0%nat; replace (sy + 1 - 1) with sy by lia; apply Y1. }
    destruct (rm_years sy m (sy + 1) (ylen sy) 1 st1 W1 ltac:(lia) ltac:(lia) Hp0) as (st' & yrz' & R & W' & L' & M' & F' & Y').
    rewrite R. eexists. split; [reflexivity|].
    intros y Hy.
    assert (Eyrz : yrz' = Z.min (ya + Z.of_nat n - sy) nslots) by (unfold k in *; lia).
    set (j := Z.to_nat (y - sy)).
    assert (Hj : (j < Z.to_nat yrz')%nat) by (unfold j; lia).
    assert (Lz : (Z.to_nat yrz' <= length st')%nat) by lia.
    assert (YS : forall j', (j' < Z.to_nat yrz')%nat -> year_slot st' j' (sy + Z.of_nat j')).
    { intros j' Hj'. destruct j' as [|j'].
      - replace (sy + Z.of_nat 0) with sy by lia.
        destruct Y1 as (A & B & C). unfold year_slot, maxd_at, cell in *. rewrite (F' 0%nat) by lia. repeat split; assumption.
      - replace (sy + Z.of_nat (S j')) with (sy + 1 + (Z.of_nat (S j') - 1)) by lia. apply Y'. lia. }
    pose proof (YS j Hj) as Yj. replace (sy + Z.of_nat j) with y in Yj by (unfold j; lia).
    destruct (finish_year none corr (Z.to_nat yrz') st' j y W' Lz Hj Yj) as (A & B & C & E).
    set (stf := transform corr (Z.to_nat yrz') (replace_missing none (Z.to_nat yrz') st')) in *.
    exists (slot_at stf j). split; [|split; [exact B | split; [exact C | exact E]]].
    apply find_year_nth.
    - unfold stf. rewrite transform_length, replace_length. lia.
    - exact A.
    - intros j' Hj'. destruct (finish_year none corr (Z.to_nat yrz') st' j' (sy + Z.of_nat j') W' Lz ltac:(lia) (YS j' ltac:(lia))) as (A' & _).
      fold stf in A'. rewrite A'. unfold j in Hj'. lia.
  Qed.

  (* ---------------------------------------------------------------- *)
  (* per-year layout                                                   *)

  Definition year_recs (y : Z) : list (Z * wrec) := map (fun d => (d, raw y d)) (zrange 1 (Z.to_nat (ylen y))).

  Lemma wk_days y n : forall a (s : slot),
    1 <= a -> a - 1 + Z.of_nat n <= 366 -> s_jar s = y ->
    wk_loop (map (fun d => (d, raw y d)) (zrange a n)) (a - 1) s
    = Some (nth 0 (place_days [s] 0 y a n) empty_slot, true).
  Proof.
    induction n as [|n IH]; intros a s Ha Hn Hj; [reflexivity|].
    cbn [zrange map wk_loop].
    replace (a - 1 + 1 =? a) with true by (symmetry; apply Z.eqb_eq; lia). cbn [negb].
    replace (a >? 366) with false by (symmetry; rewrite Z.gtb_ltb; apply Z.ltb_ge; lia).
    pose proof (IH (a + 1) (put_slot s (s_jar s) a (raw y a)) ltac:(lia) ltac:(lia)) as K.
    replace (a + 1 - 1) with a in K by lia. rewrite K by (cbn; exact Hj).
    unfold place_days. cbn [zrange fold_left]. rewrite Hj. reflexivity.
  Qed.

  Lemma place_days_single (s : slot) y a n : length (place_days [s] 0 y a n) = 1%nat.
  Proof.
    unfold place_days. generalize (zrange a n) as l. intros l; revert s; induction l as [|d l IH]; intros s; [reflexivity|].
    cbn [fold_left]. unfold put at 2, upd_slot. cbn [upd slot_at nth]. apply IH.
  Qed.

  Lemma single_eq (st : store) : length st = 1%nat -> st = [slot_at st 0].
  Proof. destruct st as [|s [|? ?]]; cbn; intros H; try discriminate. reflexivity. Qed.

  (* a complete year file: WetterK returns nil and LoadYear finds the normalised year *)
  Lemma loader_places_year_lemma none corr y (st : store) :
    length st = 1%nat -> wf st ->
    exists st' s,
      wetterk none corr y (Some (year_recs y)) st = Some (st', true) /\
      length st' = 1%nat /\ wf st' /\
      find_year st' y = Some s /\ s_maxd s = ylen y /\ length (s_cells s) = 366%nat /\
      forall d, 1 <= d <= ylen y -> normalised none corr y d (raw y d) (nth (Z.to_nat (d - 1)) (s_cells s) wzero).
  Proof.
    intros L W. unfold wetterk.
    set (s0 := mkslot y (s_cells (slot_at st 0)) (s_maxd (slot_at st 0))).
    destruct (W 0%nat ltac:(lia)) as [Lc Hm]. unfold maxd_at in Hm.
    assert (W0 : wf [s0]).
    { intros j Hj. cbn in Hj. assert (j = 0)%nat by lia. subst j. unfold maxd_at, slot_at. cbn. split; [exact Lc | exact Hm]. }
    destruct (ylen_nat y) as [N1 N2].
    assert (Hl : ylen y <= 366) by (unfold ylen; destruct (leap y); lia).
    unfold year_recs.
    pose proof (wk_days y (Z.to_nat (ylen y)) 1 s0 ltac:(lia) ltac:(lia) eq_refl) as K.
    replace (1 - 1) with 0 in K by lia. rewrite K.
    destruct (place_year_spec [s0] 0 y W0 ltac:(cbn; lia)) as (W1 & L1 & _ & Y1).
    set (st1 := place_days [s0] 0 y 1 (Z.to_nat (ylen y))) in *.
    assert (L1' : length st1 = 1%nat) by (rewrite L1; reflexivity).
    assert (E1 : [nth 0 st1 empty_slot] = st1) by (symmetry; apply single_eq; exact L1').
    rewrite E1.
    destruct (finish_year none corr 1 st1 0 y W1 ltac:(lia) ltac:(lia) Y1) as (A & B & C & D).
    set (stf := transform corr 1 (replace_missing none 1 st1)) in *.
    assert (Lf : length stf = 1%nat) by (unfold stf; rewrite transform_length, replace_length; exact L1').
    exists stf, (slot_at stf 0). split; [reflexivity|]. split; [exact Lf|]. split.
    - intros j Hj. rewrite Lf in Hj. assert (j = 0)%nat by lia. subst j. rewrite C. split; [reflexivity|].
      rewrite B. lia.
    - split; [|split; [exact B | split; [exact C | exact D]]].
      apply find_year_nth; [lia | exact A | intros; lia].
  Qed.

  (* ---------------------------------------------------------------- *)
  (* gapfill_adjacent in terms of the series: the neighbours are the lines of the civil day
     before and after, also across 31 December / 1 January (F10 repaired)                    *)

  Lemma gapfill_inside_lemma none yrz (st : store) j y d :
    wf st -> (yrz <= length st)%nat -> (j < yrz)%nat -> year_slot st j y -> 1 < d < ylen y ->
    eqb (w_tavg (raw y d)) none = true ->
    eqb (w_tavg (raw y (d - 1))) none = false -> eqb (w_tavg (raw y (d + 1))) none = false ->
    w_tavg (cell (replace_missing none yrz st) j (Z.to_nat (d - 1)))
      = div (add (w_tavg (raw y (d - 1))) (w_tavg (raw y (d + 1)))) two.
  Proof.
    intros W L Hj (Yj & Ym & Yc) Hd Hc Hp Hn.
    pose proof (Yc d ltac:(lia)) as C0. pose proof (Yc (d - 1) ltac:(lia)) as C1. pose proof (Yc (d + 1) ltac:(lia)) as C2.
    replace (d + 1 - 1) with d in C2 by lia.
    assert (E : Z.to_nat (d - 1) = S (Z.to_nat (d - 1 - 1))) by lia.
    rewrite (gapfill_replace none yrz st j (Z.to_nat (d - 1)) j (Z.to_nat (d - 1 - 1)) j (Z.to_nat d)); auto; try lia.
    - rewrite C1, C2. reflexivity.
    - rewrite E. apply prevpos_inside.
    - replace (Z.to_nat d) with (S (Z.to_nat (d - 1))) by lia. apply nextpos_inside. lia.
    - rewrite C0. exact Hc.
    - rewrite C1. exact Hp.
    - rewrite C2. exact Hn.
  Qed.

  Lemma gapfill_31dec_lemma none yrz (st : store) j y :
    wf st -> (yrz <= length st)%nat -> (S j < yrz)%nat -> year_slot st j y -> year_slot st (S j) (y + 1) ->
    eqb (w_tavg (raw y (ylen y))) none = true ->
    eqb (w_tavg (raw y (ylen y - 1))) none = false -> eqb (w_tavg (raw (y + 1) 1)) none = false ->
    w_tavg (cell (replace_missing none yrz st) j (Z.to_nat (ylen y - 1)))
      = div (add (w_tavg (raw y (ylen y - 1))) (w_tavg (raw (y + 1) 1))) two.
  Proof.
    intros W L Hj (Yj & Ym & Yc) (Zj & Zm & Zc) Hc Hp Hn.
    pose proof (ylen_nat y) as [N1 N2]. pose proof (ylen_nat (y + 1)) as [N3 N4].
    assert (Hl : 365 <= ylen y) by (unfold ylen; destruct (leap y); lia).
    pose proof (Yc (ylen y) ltac:(lia)) as C0. pose proof (Yc (ylen y - 1) ltac:(lia)) as C1.
    pose proof (Zc 1 ltac:(lia)) as C2. change (Z.to_nat (1 - 1)) with 0%nat in C2.
    rewrite (gapfill_replace none yrz st j (Z.to_nat (ylen y - 1)) j (Z.to_nat (ylen y - 1 - 1)) (S j) 0%nat); auto; try lia.
    - rewrite C1, C2. reflexivity.
    - replace (Z.to_nat (ylen y - 1)) with (S (Z.to_nat (ylen y - 1 - 1))) by lia. apply prevpos_inside.
    - apply nextpos_last; [lia | exact Hj].
    - rewrite C0. exact Hc.
    - rewrite C1. exact Hp.
    - rewrite C2. exact Hn.
  Qed.

  Lemma gapfill_1jan_lemma none yrz (st : store) j y :
    wf st -> (yrz <= length st)%nat -> (S j < yrz)%nat -> year_slot st j y -> year_slot st (S j) (y + 1) ->
    eqb (w_tavg (raw (y + 1) 1)) none = true ->
    eqb (w_tavg (raw y (ylen y))) none = false -> eqb (w_tavg (raw (y + 1) 2)) none = false ->
    w_tavg (cell (replace_missing none yrz st) (S j) 0)
      = div (add (w_tavg (raw y (ylen y))) (w_tavg (raw (y + 1) 2))) two.
  Proof.
    intros W L Hj (Yj & Ym & Yc) (Zj & Zm & Zc) Hc Hp Hn.
    pose proof (ylen_nat y) as [N1 N2]. pose proof (ylen_nat (y + 1)) as [N3 N4].
    assert (Hl : 365 <= ylen y) by (unfold ylen; destruct (leap y); lia).
    assert (Hl1 : 365 <= ylen (y + 1)) by (unfold ylen; destruct (leap (y + 1)); lia).
    pose proof (Yc (ylen y) ltac:(lia)) as C1.
    pose proof (Zc 1 ltac:(lia)) as C0. change (Z.to_nat (1 - 1)) with 0%nat in C0.
    pose proof (Zc 2 ltac:(lia)) as C2. change (Z.to_nat (2 - 1)) with 1%nat in C2.
    rewrite (gapfill_replace none yrz st (S j) 0 j (Z.to_nat (ylen y - 1)) (S j) 1%nat); auto; try lia.
    - rewrite C1, C2. reflexivity.
    - rewrite <- Ym. apply prevpos_first. lia.
    - apply nextpos_inside. lia.
    - rewrite C0. exact Hc.
    - rewrite C1. exact Hp.
    - rewrite C2. exact Hn.
  Qed.

  (* two loads of the same line agree on everything the property fixes (layouts_agree between
     the per-year and the multi-year layouts) *)
  Lemma normalised_agree none corr y d r c1 c2 :
    normalised none corr y d r c1 -> normalised none corr y d r c2 ->
    w_tmin c1 = w_tmin c2 /\ w_tmax c1 = w_tmax c2 /\ w_rh c1 = w_rh c2 /\ w_wind c1 = w_wind c2 /\
    w_rad c1 = w_rad c2 /\ w_prec c1 = w_prec c2 /\ (eqb (w_tavg r) none = false -> w_tavg c1 = w_tavg c2).
  Proof.
    intros (A1 & A2 & A3 & A4 & A5 & A6 & A7) (B1 & B2 & B3 & B4 & B5 & B6 & B7).
    repeat split; try congruence. intros K. rewrite A7, B7 by exact K. reflexivity.
  Qed.

  (* ---------------------------------------------------------------- *)
  (* partial first and last year (multi-year layouts): the series may begin on any day of the
     start year and end on any day of a later year                                            *)

  (* slot j holds the days a..b of year y, MaxYearDays = b *)
  Definition part_slot (st : store) (j : nat) (y a b : Z) : Prop :=
    s_jar (slot_at st j) = y /\ maxd_at st j = b /\
    forall d, a <= d <= b -> cell st j (Z.to_nat (d - 1)) = raw y d.

  Lemma year_part_slot st j y : year_slot st j y -> part_slot st j y 1 (ylen y).
  Proof. intros H. exact H. Qed.

  Lemma finish_part none corr yrz (st : store) j y a b :
    wf st -> (yrz <= length st)%nat -> (j < yrz)%nat -> 1 <= a -> part_slot st j y a b ->
    let st' := transform corr yrz (replace_missing none yrz st) in
    s_jar (slot_at st' j) = y /\ maxd_at st' j = b /\ length (s_cells (slot_at st' j)) = 366%nat /\
    forall d, a <= d <= b -> normalised none corr y d (raw y d) (cell st' j (Z.to_nat (d - 1))).
  Proof.
    intros W L Hj Ha (Yj & Ym & Yc) st'.
    set (st1 := replace_missing none yrz st).
    assert (W1 : wf st1) by (apply replace_wf; exact W).
    assert (L1 : (yrz <= length st1)%nat) by (unfold st1; rewrite replace_length; exact L).
    assert (M1 : maxd_at st1 j = b) by (unfold st1; rewrite replace_maxd; exact Ym).
    assert (J1 : s_jar (slot_at st1 j) = y) by (unfold st1; rewrite replace_jar; exact Yj).
    assert (TS : slot_at st' j = tslot corr (slot_at st1 j)).
    { unfold st'. fold st1. rewrite transform_slot by exact L1.
      replace (j <? yrz)%nat with true by (symmetry; apply Nat.ltb_lt; exact Hj). reflexivity. }
    split; [|split; [|split]].
    - rewrite TS. unfold tslot; cbn [s_jar]. exact J1.
    - unfold maxd_at. rewrite TS. unfold tslot; cbn [s_maxd]. exact M1.
    - unfold st'. fold st1. rewrite transform_cells_len by exact L1. apply (W1 j). lia.
    - intros d Hd. set (i := Z.to_nat (d - 1)).
      assert (Hi : (i < Z.to_nat (maxd_at st j))%nat) by (unfold i; lia).
      destruct (transform_cell corr yrz st1 j i W1 L1 Hj ltac:(unfold i; lia)) as (A & _ & _).
      unfold st'. fold st1. rewrite A, J1.
      destruct (replace_fields none yrz st j i W L Hj Hi) as (F1 & F2 & F3 & F4 & F5 & F6 & F7).
      fold st1 in F1, F2, F3, F4, F5, F6, F7. unfold i in F1, F2, F3, F4, F5, F6, F7. rewrite (Yc d Hd) in *. fold i in F1, F2, F3, F4, F5, F6, F7.
      unfold normalised, norm_cell.
      set (c := cell st1 j i) in *.
      assert (Ew : forall r : wrec, w_wind (if ltb (w_wind r) half then set_wind r half else r)
                                    = if ltb (w_wind r) half then half else w_wind r).
      { intros r. destruct (ltb (w_wind r) half); reflexivity. }
      assert (Ef : forall (r : wrec) (f : wrec -> T), (f (set_wind r half) = f r) ->
                   f (if ltb (w_wind r) half then set_wind r half else r) = f r).
      { intros r f Hf. destruct (ltb (w_wind r) half); [exact Hf | reflexivity]. }
      repeat split.
      + rewrite (Ef _ w_tmin) by reflexivity. cbn. exact F1.
      + rewrite (Ef _ w_tmax) by reflexivity. cbn. exact F2.
      + rewrite (Ef _ w_rh) by reflexivity. cbn. exact F3.
      + rewrite Ew. cbn. rewrite F4. reflexivity.
      + rewrite (Ef _ w_rad) by reflexivity. cbn. rewrite F5. reflexivity.
      + rewrite (Ef _ w_prec) by reflexivity. cbn. rewrite F6. reflexivity.
      + intros K. rewrite (Ef _ w_tavg) by reflexivity. cbn. apply F7. exact K.
  Qed.

  (* complete years with enough slots, followed by further input *)
  Lemma rm_years_rest sy n : forall y Tv yrz (st : store) rest,
    wf st -> sy <= y -> 0 <= yrz -> yrz + Z.of_nat n <= Z.of_nat (length st) ->
    prev_year_ok st yrz y = true ->
    exists st' Tv',
      rm_loop sy (flat_map block (zrange y n) ++ rest) Tv yrz false st = rm_loop sy rest Tv' (yrz + Z.of_nat n) false st' /\
      wf st' /\ length st' = length st /\
      (forall j, (Z.of_nat j < yrz \/ yrz + Z.of_nat n <= Z.of_nat j) -> slot_at st' j = slot_at st j) /\
      (forall j, yrz <= Z.of_nat j < yrz + Z.of_nat n -> year_slot st' j (y + (Z.of_nat j - yrz))).
  Proof.
    induction n as [|n IH]; intros y Tv yrz st rest W Hy Hz Hl Hp.
    - exists st, Tv. cbn [zrange flat_map app]. replace (yrz + Z.of_nat 0) with yrz by lia.
      split; [reflexivity|]. split; [exact W|]. split; [reflexivity|]. split; [intros; reflexivity | intros; lia].
    - cbn [zrange flat_map]. rewrite <- app_assoc. rewrite (rm_year_gen sy false y _ Tv yrz st Hy Hz (fun _ => Hp)). cbv zeta.
      replace (yrz + 1 >? Z.of_nat (length st)) with false by (symmetry; rewrite Z.gtb_ltb; apply Z.ltb_ge; lia).
      replace (yrz + 1 - 1) with yrz by lia.
      destruct (place_year_spec st (Z.to_nat yrz) y W ltac:(lia)) as (W1 & L1 & F1 & Y1).
      set (st1 := place_days st (Z.to_nat yrz) y 1 (Z.to_nat (ylen y))) in *.
      assert (Hp1 : prev_year_ok st1 (yrz + 1) (y + 1) = true).
      { apply prev_ok_of_slot; replace (yrz + 1 - 1) with yrz by lia; replace (y + 1 - 1) with y by lia; apply Y1. }
      destruct (IH (y + 1) (ylen y) (yrz + 1) st1 rest W1 ltac:(lia) ltac:(lia) ltac:(lia) Hp1) as (st' & Tv' & R & W' & L' & F' & Y').
      exists st', Tv'. replace (yrz + Z.of_nat (S n)) with (yrz + 1 + Z.of_nat n) by lia.
      split; [exact R|]. split; [exact W'|]. split; [lia|]. split.
      + intros j Hj. rewrite F' by lia. apply F1. lia.
      + intros j Hj. destruct (Z.eq_dec (Z.of_nat j) yrz) as [E|Hne].
        * replace (y + (Z.of_nat j - yrz)) with y by lia.
          assert (Ej : j = Z.to_nat yrz) by lia. subst j.
          destruct Y1 as (A & B & C). unfold year_slot, maxd_at, cell in *.
          rewrite (F' (Z.to_nat yrz)) by lia. repeat split; assumption.
        * replace (y + (Z.of_nat j - yrz)) with (y + 1 + (Z.of_nat j - (yrz + 1))) by lia.
          apply Y'. lia.
  Qed.

  (* file = days a..end of the start year, m complete years, days 1..b of the year after them *)
  Lemma loader_places_partial_lemma none corr sy nslots a m b :
    1 <= a <= ylen sy -> 1 <= b <= ylen (sy + 1 + Z.of_nat m) -> Z.of_nat m + 2 <= nslots ->
    let yl := sy + 1 + Z.of_nat m in
    let lo := fun y => if y =? sy then a else 1 in
    let hi := fun y => if y =? yl then b else ylen y in
    exists st,
      read_multi none corr sy nslots
        (recs_of sy a (Z.to_nat (ylen sy - a + 1)) ++ flat_map block (zrange (sy + 1) m) ++ recs_of yl 1 (Z.to_nat b)) = Some st /\
      forall y, sy <= y <= yl ->
        exists s, find_year st y = Some s /\ s_maxd s = hi y /\ length (s_cells s) = 366%nat /\
                  forall d, lo y <= d <= hi y ->
                    normalised none corr y d (raw y d) (nth (Z.to_nat (d - 1)) (s_cells s) wzero).
  Proof.
    intros Ha Hb Hn yl lo hi. unfold read_multi, new_store.
    replace (nslots <? 0) with false by (symmetry; apply Z.ltb_ge; lia).
    set (st0 := repeat (@empty_slot T NT) (Z.to_nat nslots)).
    assert (W0 : wf st0) by apply wf_new.
    assert (L0 : Z.of_nat (length st0) = nslots) by (unfold st0; rewrite repeat_length; lia).
    assert (Hl : ylen sy <= 366) by (unfold ylen; destruct (leap sy); lia).
    assert (Hll : ylen (sy + 1 + Z.of_nat m) <= 366) by (unfold ylen; destruct (leap (sy + 1 + Z.of_nat m)); lia).
    (* first record *)
    set (n0 := Z.to_nat (ylen sy - a + 1)).
    destruct n0 as [|n0'] eqn:En0; [unfold n0 in En0; lia|].
    unfold recs_of at 1. cbn [zrange map app rm_loop].
    replace (sy <? sy) with false by (symmetry; apply Z.ltb_irrefl).
    rewrite Z.eqb_refl. cbn [negb].
    replace (1 >? Z.of_nat (length st0)) with false by (symmetry; rewrite Z.gtb_ltb; apply Z.ltb_ge; lia).
    fold (recs_of sy (a + 1) n0'). change (Z.to_nat (1 - 1)) with 0%nat.
    pose proof (rm_days sy n0' (a + 1) (flat_map block (zrange (sy + 1) m) ++ recs_of yl 1 (Z.to_nat b)) 1
                        (put st0 0 sy a (raw sy a)) sy ltac:(lia) ltac:(lia)) as K.
    replace (a + 1 - 1) with a in K by lia. rewrite K by (unfold put; rewrite length_upd_slot; lia). clear K.
    change (Z.to_nat (1 - 1)) with 0%nat.
    (* the store after the first year = place_days st0 0 sy a (S n0') *)
    assert (E1 : place_days (put st0 0 sy a (raw sy a)) 0 sy (a + 1) n0' = place_days st0 0 sy a (S n0')) by reflexivity.
    rewrite E1.
    destruct (place_days_spec (S n0') st0 0%nat sy a W0 ltac:(lia) ltac:(lia) ltac:(unfold n0 in En0; lia)) as (W1 & L1 & F1 & J1 & C1 & _).
    set (st1 := place_days st0 0 sy a (S n0')) in *.
    destruct (J1 ltac:(lia)) as [J1a J1b].
    (* complete years *)
    assert (Hp1 : prev_year_ok st1 1 (sy + 1) = true).
    { apply prev_ok_of_slot; change (Z.to_nat (1 - 1)) with 0%nat; replace (sy + 1 - 1) with sy by lia; [exact J1a|].
      rewrite J1b. unfold n0 in En0. lia. }
    destruct (rm_years_rest sy m (sy + 1) (a + Z.of_nat n0') 1 st1 (recs_of yl 1 (Z.to_nat b)) W1 ltac:(lia) ltac:(lia) ltac:(lia) Hp1)
      as (st2 & Tv2 & R2 & W2 & L2 & F2 & Y2).
    rewrite R2.
    (* the year before the last, partial one is complete *)
    assert (Hlast : prev_year_ok st2 (1 + Z.of_nat m) yl = true).
    { apply prev_ok_of_slot. 
      - destruct m as [|m'].
        + change (Z.to_nat (1 + Z.of_nat 0 - 1)) with 0%nat. rewrite (F2 0%nat) by lia. rewrite J1a. unfold yl. lia.
        + pose proof (Y2 (Z.to_nat (1 + Z.of_nat (S m') - 1)) ltac:(lia)) as (A & _ & _). rewrite A. unfold yl. lia.
      - destruct m as [|m'].
        + change (Z.to_nat (1 + Z.of_nat 0 - 1)) with 0%nat. unfold maxd_at. rewrite (F2 0%nat) by lia.
          replace (yl - 1) with sy by (unfold yl; lia). unfold maxd_at in J1b. rewrite J1b. unfold n0 in En0. lia.
        + pose proof (Y2 (Z.to_nat (1 + Z.of_nat (S m') - 1)) ltac:(lia)) as (_ & B & _).
          rewrite B. f_equal. unfold yl. lia. }
    (* last, partial year *)
    set (nb := Z.to_nat b). destruct nb as [|nb'] eqn:Enb; [unfold nb in Enb; lia|].
    unfold recs_of at 1. cbn [zrange map rm_loop].
    replace (yl <? sy) with false by (symmetry; apply Z.ltb_ge; unfold yl; lia).
    rewrite Hlast.
    cbn [Z.eqb Pos.eqb negb andb].
    replace (1 + Z.of_nat m + 1 >? Z.of_nat (length st2)) with false by (symmetry; rewrite Z.gtb_ltb; apply Z.ltb_ge; lia).
    fold (recs_of yl (1 + 1) nb'). change (1 + 1) with 2.
    pose proof (rm_days sy nb' 2 [] (1 + Z.of_nat m + 1) (put st2 (Z.to_nat (1 + Z.of_nat m + 1 - 1)) yl 1 (raw yl 1)) yl
                        ltac:(unfold yl; lia) ltac:(lia)) as K.
    rewrite app_nil_r in K. replace (2 - 1) with 1 in K by lia.
    rewrite K by (unfold put; rewrite length_upd_slot; lia). clear K.
    cbn [rm_loop].
    set (kl := Z.to_nat (1 + Z.of_nat m + 1 - 1)).
    assert (E3 : place_days (put st2 kl yl 1 (raw yl 1)) kl yl 2 nb' = place_days st2 kl yl 1 (S nb')) by reflexivity.
    rewrite E3.
    destruct (place_days_spec (S nb') st2 kl yl 1 W2 ltac:(unfold kl; lia) ltac:(lia) ltac:(unfold nb in Enb; lia)) as (W3 & L3 & F3 & J3 & C3 & _).
    set (st3 := place_days st2 kl yl 1 (S nb')) in *.
    destruct (J3 ltac:(lia)) as [J3a J3b].
    eexists. split; [reflexivity|].
    set (yrz := Z.to_nat (1 + Z.of_nat m + 1)).
    assert (Lz : (yrz <= length st3)%nat) by (unfold yrz; lia).
    (* every slot 0..m+1 is a part slot *)
    assert (PS : forall j, (j < yrz)%nat -> part_slot st3 j (sy + Z.of_nat j) (lo (sy + Z.of_nat j)) (hi (sy + Z.of_nat j))).
    { intros j Hj. unfold lo, hi.
      destruct (Nat.eq_dec j 0) as [->|Hj0].
      - replace (sy + Z.of_nat 0) with sy by lia. rewrite Z.eqb_refl.
        replace (sy =? yl) with false by (symmetry; apply Z.eqb_neq; unfold yl; lia).
        unfold part_slot, maxd_at, cell. rewrite (F3 0%nat) by (unfold kl; lia). rewrite (F2 0%nat) by lia.
        split; [exact J1a|]. split; [unfold maxd_at in J1b; rewrite J1b; unfold n0 in En0; lia|].
        intros d Hd. apply C1. unfold n0 in En0. lia.
      - replace (sy + Z.of_nat j =? sy) with false by (symmetry; apply Z.eqb_neq; lia).
        destruct (Nat.eq_dec j kl) as [->|Hjk].
        + replace (sy + Z.of_nat kl) with yl by (unfold kl, yl; lia). rewrite Z.eqb_refl.
          split; [exact J3a|]. split; [rewrite J3b; unfold nb in Enb; lia|].
          intros d Hd. apply C3. unfold nb in Enb. lia.
        + replace (sy + Z.of_nat j =? yl) with false by (symmetry; apply Z.eqb_neq; unfold yl, kl in *; lia).
          pose proof (Y2 j ltac:(unfold yrz, kl in *; lia)) as Yj.
          replace (sy + 1 + (Z.of_nat j - 1)) with (sy + Z.of_nat j) in Yj by lia.
          destruct Yj as (A & B & C). unfold part_slot, maxd_at, cell in *.
          rewrite (F3 j) by exact Hjk. repeat split; assumption. }
    intros y Hy. set (j := Z.to_nat (y - sy)).
    assert (Hj : (j < yrz)%nat) by (unfold j, yrz, yl in *; lia).
    pose proof (PS j Hj) as Pj. replace (sy + Z.of_nat j) with y in Pj by (unfold j; lia).
    assert (Hlo : 1 <= lo y) by (unfold lo; destruct (y =? sy); lia).
    destruct (finish_part none corr yrz st3 j y (lo y) (hi y) W3 Lz Hj Hlo Pj) as (A & B & Lc & C).
    set (stf := transform corr yrz (replace_missing none yrz st3)) in *.
    exists (slot_at stf j). split; [|split; [exact B | split; [exact Lc | exact C]]].
    apply find_year_nth.
    - unfold stf. rewrite transform_length, replace_length. lia.
    - exact A.
    - intros j' Hj'.
      assert (Hlo' : 1 <= lo (sy + Z.of_nat j')) by (unfold lo; destruct (sy + Z.of_nat j' =? sy); lia).
      destruct (finish_part none corr yrz st3 j' (sy + Z.of_nat j') _ _ W3 Lz ltac:(lia) Hlo' (PS j' ltac:(lia))) as (A' & _).
      fold stf in A'. rewrite A'. unfold j in Hj'. lia.
  Qed.

  (* the monthly factor transformWeatherData picks for a day is the factor of the CIVIL month of that
     day, in leap and non-leap years (F21 repaired): all 12 months x both year kinds *)
  Lemma precip_factor_is_civil_month (corr : list T) (t : date) :
    1901 <= dy t <= 2099 -> valid_date t = true ->
    corr_value corr (corr_day (dy t) (Z.to_nat (doy t - 1))) = nth (Z.to_nat (dm t - 1)) corr one.
  Proof.
    intros Hy Hv. destruct t as [y m d]. cbn [dy dm dd] in *.
    pose proof (DateProofs.leap_range y Hy) as Hl.
    unfold valid_date in Hv. cbn [dy dm dd] in Hv.
    apply andb_true_iff in Hv as [Hv H4]. apply andb_true_iff in Hv as [Hv H3].
    apply andb_true_iff in Hv as [H1 H2]. apply Z.leb_le in H1, H2, H3, H4.
    assert (Hrem : (Z.rem y 4 =? 0) = (y mod 4 =? 0)) by (rewrite Z.rem_mod_nonneg by lia; reflexivity).
    unfold corr_day. rewrite Hrem.
    assert (Hm : m = 1 \/ m = 2 \/ m = 3 \/ m = 4 \/ m = 5 \/ m = 6 \/ m = 7 \/ m = 8 \/ m = 9 \/
                 m = 10 \/ m = 11 \/ m = 12) by lia.
    unfold doy. cbn [dy dm dd].
    repeat (destruct Hm as [-> | Hm]); try subst m;
      (destruct (leap y) eqn:L; rewrite <- Hl;
       cbn in H4; rewrite ?L in H4;
       cbn [days_before_month Z.to_nat Z.sub Z.add Z.opp Z.pos_sub Pos.pred_double];
       unfold Pos.to_nat; cbn [Pos.iter_op Nat.add days_before_month Z.of_nat Pos.of_succ_nat Pos.succ mlen];
       rewrite ?L;
       match goal with |- context [Z.of_nat (Z.to_nat ?e)] => rewrite (Z2Nat.id e) by lia end;
       cbn [andb]; unfold corr_value;
       repeat match goal with
              | |- context [?a >? ?b] => destruct (Z.gtb_spec a b); try lia
              | |- context [?a <? ?b] => destruct (Z.ltb_spec a b); try lia
              end; reflexivity).
  Qed.

  (* ---------------------------------------------------------------- *)
  (* F32, F33: what an ACCEPTED multi-year file looks like               *)

  (* a 1 January is only accepted when the slot it closes holds the year before it, up to its 31 December *)
  Lemma year_change_needs_31dec sy y (r : wrec) rest Tv yrz (st : store) :
    sy <= y ->
    (s_jar (slot_at st (Z.to_nat (yrz - 1))) <> y - 1 \/ maxd_at st (Z.to_nat (yrz - 1)) <> ylen (y - 1)) ->
    rm_loop sy ((y, 1, r) :: rest) Tv yrz false st = None.
  Proof.
    intros Hy Hm. cbn [rm_loop]. replace (y <? sy) with false by (symmetry; apply Z.ltb_ge; lia).
    assert (K : prev_year_ok st yrz y = false).
    { unfold prev_year_ok. unfold maxd_at in Hm. destruct Hm as [Hm|Hm].
      - replace (s_jar (slot_at st (Z.to_nat (yrz - 1))) =? y - 1) with false by (symmetry; apply Z.eqb_neq; exact Hm). reflexivity.
      - replace (s_maxd (slot_at st (Z.to_nat (yrz - 1))) =? ylen (y - 1)) with false by (symmetry; apply Z.eqb_neq; exact Hm).
        apply andb_false_r. }
    rewrite K. reflexivity.
  Qed.

  (* every slot before the current one holds a complete year *)
  Definition closed_years (st : store) (yrz : Z) : Prop :=
    forall j : nat, Z.of_nat j + 1 < yrz -> maxd_at st j = ylen (s_jar (slot_at st j)).

  Lemma put_other (st : store) k y Tv r j : j <> k -> slot_at (put st k y Tv r) j = slot_at st j.
  Proof.
    intros H. rewrite put_slot_at. replace (Nat.eqb k j) with false by (symmetry; apply Nat.eqb_neq; congruence). reflexivity.
  Qed.

  (* if the reader accepts the rest of the file, every year it has closed is complete: all years of an
     accepted file except the first (may start late) and the last (may end early) have all their days —
     for ANY record sequence *)
  Lemma accepted_years_complete sy (recs : list (mrec T)) : forall Tv yrz (st : store) st' yrz',
    1 <= yrz <= Z.of_nat (length st) -> closed_years st yrz ->
    rm_loop sy recs Tv yrz false st = Some (st', yrz') ->
    closed_years st' yrz' /\ yrz <= yrz'.
  Proof.
    induction recs as [|[[y yd] r] recs IH]; intros Tv yrz st st' yrz' Hz Hc E.
    - cbn in E. injection E as <- <-. split; [exact Hc | lia].
    - cbn [rm_loop] in E.
      destruct (y <? sy); [apply (IH _ _ _ _ _ Hz Hc E)|].
      cbn [negb andb] in E.
      destruct (yd =? 1) eqn:E1.
      + destruct (prev_year_ok st yrz y) eqn:Em; cbn [negb] in E; [|discriminate].
        unfold prev_year_ok in Em. apply andb_true_iff in Em as [Ej Em]. apply Z.eqb_eq in Ej, Em.
        apply Z.eqb_eq in E1. subst yd.
        replace (1 =? 1) with true in E by reflexivity. cbn [negb] in E.
        destruct (yrz + 1 >? Z.of_nat (length st)) eqn:G.
        * injection E as <- <-. replace (yrz + 1 - 1) with yrz by lia. split; [exact Hc | lia].
        * rewrite Z.gtb_ltb in G. apply Z.ltb_ge in G.
          replace (yrz + 1 - 1) with yrz in E by lia.
          set (st1 := put st (Z.to_nat yrz) y 1 r) in *.
          destruct (IH 1 (yrz + 1) st1 st' yrz') as [A B]; try exact E; try lia.
          -- unfold st1, put. rewrite length_upd_slot. lia.
          -- intros j Hjj. unfold maxd_at, st1. rewrite put_other by lia.
             destruct (Z.eq_dec (Z.of_nat j + 1) yrz) as [Eq|Ne].
             ++ replace j with (Z.to_nat (yrz - 1)) by lia. rewrite Em, Ej. reflexivity.
             ++ apply Hc. lia.
          -- split; [exact A | lia].
      + apply Z.eqb_neq in E1.
        destruct (negb (yd =? Tv + 1)); [discriminate|].
        destruct (yrz >? Z.of_nat (length st)) eqn:G; [rewrite Z.gtb_ltb in G; apply Z.ltb_lt in G; lia|].
        set (st1 := put st (Z.to_nat (yrz - 1)) y (Tv + 1) r) in *.
        destruct (IH (Tv + 1) yrz st1 st' yrz') as [A B]; try exact E; try lia.
        * unfold st1, put. rewrite length_upd_slot. lia.
        * intros j Hjj. unfold maxd_at, st1. rewrite put_other by lia. apply Hc. exact Hjj.
        * split; [exact A | exact B].
  Qed.
End WP.
