(* RotationModel.v — executable model of the crop rotation cursor and of the decision rules of
   automatic management (property C16; sowing/harvest part of C10).  No proofs in this file.

   Go sources mirrored:
     hermes/crop.go:61-64        sowing event        zeit == SAAT[AKF]   (PhytoOut, sub-step 1,
                                 called by run.go:610-617 only if AKF.Num > 1 && SAAT[AKF] > 0 &&
                                 SAAT[AKF] <= ZEIT <= ERNTE2[AKF])
     hermes/nitro.go:286-461     harvest             zeit == ERNTE[AKF] && subd == 1 ; crop record when
                                 AKF.Num > 1 ; AKF.Inc()
     hermes/run.go:539-578       automatic sowing
     hermes/crop.go:183-204,549-555  automatic harvest, forced at ERNTE2-1 -> ERNTE2; a fixed sowing
                                 date of the next crop that already passed is moved to harvest+4
     hermes/run.go:415-450       automatic irrigation
     hermes/nitro.go:109-226     automatic mineral N: ndung = max(NDEM - Nmin, 0)
   Weather/state dependent trigger conditions are boolean ORACLE arguments ([trig]). *)
From Coq Require Import ZArith List Bool.
From Hermes Require Import Num.
Import ListNotations.
Open Scope Z_scope.

(* ------------------------------------------------------------------------------------------ *)
(* rotation cursor with fixed dates                                                            *)

Section Rotation.
  (* arrays indexed by the rotation entry k = AKF.Index (0 = crop harvested at the start) *)
  Variables saat ernte ernte2 : Z -> Z.

  Inductive rkind := Sow | Harv.

  (* what one simulated day (sub-step 1) does to the cursor: events (day, kind, entry) *)
  Definition rot_day (z k : Z) : list (Z * rkind * Z) * Z :=
    let sow := (1 <=? k) && (0 <? saat k) && (saat k <=? z) && (z <=? ernte2 k) && (z =? saat k) in
    let harv := z =? ernte k in
    ((if sow then [(z, Sow, k)] else []) ++ (if harv then [(z, Harv, k)] else []),
     if harv then k + 1 else k).

  Fixpoint rot_run (fuel : nat) (z k : Z) : list (Z * rkind * Z) :=
    match fuel with
    | O => []
    | S f => let '(ev, k') := rot_day z k in ev ++ rot_run f (z + 1) k'
    end.

  (* a crop record is written at the harvest of every entry k >= 1 (AKF.Num > 1) and carries
     FRUCHT[k] and the year of the harvest day *)
  Definition crop_records (frucht : Z -> Z) (year : Z -> Z) (evs : list (Z * rkind * Z)) : list (Z * Z * Z) :=
    flat_map (fun e => match e with
                       | (z, Harv, k) => if 1 <=? k then [(k, frucht k, year z)] else []
                       | _ => [] end) evs.
End Rotation.

(* ------------------------------------------------------------------------------------------ *)
(* decision rules of automatic management                                                      *)

(* run.go:540-577.  [saat] current SAAT[AKF]; returns the new SAAT[AKF].  [trig] = all weather and
   soil conditions of lines 549-554 / 561-565 *)
Definition auto_sow (z saat saat1 saat2 prev_ernte : Z) (trig : bool) : Z :=
  if (saat =? 0) && (saat1 <=? z) then
    let s1 := if trig && (prev_ernte + 4 <? z) then z else saat in
    if (z =? saat2) && (s1 =? 0) then z else s1
  else saat.

(* the sowing block over consecutive days while the entry stays current *)
Fixpoint sow_loop (trig : Z -> bool) (saat1 saat2 prev_ernte : Z) (fuel : nat) (z saat : Z) : Z :=
  match fuel with
  | O => saat
  | S f => sow_loop trig saat1 saat2 prev_ernte f (z + 1) (auto_sow z saat saat1 saat2 prev_ernte (trig z))
  end.

(* crop.go:183-204 and 549-555: (ERNTE, ERNTE2) of the current entry after the day *)
Definition auto_harvest (z ernte ernte2 : Z) (trig : bool) : Z * Z :=
  if ernte =? 0 then
    let '(e, e2) := if trig then (z, z) else (ernte, ernte2) in
    if (z =? e2 - 1) && (e =? 0) then (z + 1, e2) else (e, e2)
  else (ernte, ernte2).

Fixpoint harvest_loop (trig : Z -> bool) (fuel : nat) (z ernte ernte2 : Z) : Z * Z :=
  match fuel with
  | O => (ernte, ernte2)
  | S f => let '(e, e2) := auto_harvest z ernte ernte2 (trig z) in harvest_loop trig f (z + 1) e e2
  end.

(* crop.go:192-195 / 551-554: the next entry's fixed sowing date (and window end) when the harvest
   day h is decided on day z *)
Definition move_next_sowing (z h next_saat next_saat2 : Z) : Z * Z :=
  if (0 <? next_saat) && (next_saat <? z) then (h + 4, h + 4) else (next_saat, next_saat2).

Section AutoNum.
  Context {T : Type} {N : Num T}.
  Local Open Scope num_scope.

  (* run.go:415-447: amount = math.Min(DEFZSUM*0.9, IRRMAX[AKF]) *)
  Definition auto_irr (z saat : Z) (intwick irrst1 irrst2 : T) (trig : bool) (defzsum irrmax : T) : option T :=
    if (0 <? saat)%Z && (saat <? z)%Z && (irrst1 <=? intwick) && (intwick <? irrst2 + one) && trig
    then Some (minv (defzsum * dec 9 1) irrmax) else None.

  (* nitro.go:116,131,150,169,185,201,217 *)
  Definition auto_n (ndem nmin : T) : T := maxv (ndem - nmin) zero.
End AutoNum.

(* ------------------------------------------------------------------------------------------ *)
(* the trigger conditions themselves, as functions of the state of the day                      *)

Section Triggers.
  Context {T : Type} {N : Num T}.
  Local Open Scope num_scope.

  (* relative plant-available water of the top layer incl. today's rain, percent (run.go:552/563, crop.go:186) *)
  Definition nfk1 (wg00 regen dz wmin0 wnor0 : T) : T :=
    ((wg00 + regen / dz - wmin0) / (wnor0 - wmin0)) * ofZ 100.

  (* --- automatic sowing (run.go:541-572) --- *)
  Record sow_env := {
    se_tagnum : T; se_tagidx : Z; se_window : T;
    se_temps : list T;                      (* TEMP[TAG-1], ..., TEMP[TAG-int(TSLWINDOW)] *)
    se_temp : T; se_tjahrsum : T; se_tjahr : T; se_tslmin : T; se_tslmax : T;
    se_wg00 : T; se_regen : T; se_regen_prev : T; se_dz : T; se_wmin0 : T; se_wnor0 : T;
    se_minmoi : T; se_maxmoi : T }.

  Definition slide_temp (e : sow_env) : T :=
    (if se_window e <? se_tagnum e then fold_left add (se_temps e) zero else zero) / se_window e.

  Definition sow_cond (e : sow_env) : bool :=
    let st := slide_temp e in
    let n1 := nfk1 (se_wg00 e) (se_regen e) (se_dz e) (se_wmin0 e) (se_wnor0 e) in
    let moist := (n1 <=? se_maxmoi e) && (se_minmoi e <=? n1) in
    let rain := (se_regen e <=? dec 5 1) && ((se_tagidx e <? 1)%Z || (se_regen_prev e <=? ofZ 5)) in
    if se_tjahr e <? se_tjahrsum e then
      if (zero <=? se_tslmin e) && (se_tslmax e <? zero) then
        (se_tslmin e <=? st) && (se_tslmin e <=? se_temp e) && moist && rain
      else if (se_tslmin e <? zero) && (zero <=? se_tslmax e) then
        (st <=? se_tslmax e) && (se_temp e <=? se_tslmax e) && moist && rain
      else false
    else false.

  (* --- automatic harvest (crop.go:150-156 stage advance, 183-199 condition) --- *)
  Record harv_env := {
    he_sum0 : T; he_tsum0 : T;               (* SUM[0], TSUM[0]: emergence reached *)
    he_num : Z;                              (* int(INTWICK.Num) before the day's stage advance *)
    he_nrentw : Z;                           (* number of development stages of the crop *)
    he_sum : T; he_tsum : T;                 (* SUM/TSUM of the current stage before the advance *)
    he_tsum_next : T;                        (* TSUM of the following stage *)
    he_wg00 : T; he_regen : T; he_dz : T; he_wmin0 : T; he_wnor0 : T; he_minhmoi : T; he_maxhmoi : T;
    he_tagnum : T; he_r1 : T; he_r2 : T; he_r3 : T; he_rainlim : T; he_rainact : T }.

  (* stage number (INTWICK.Num), its temperature sum and target at the moment of the harvest test *)
  Definition stage_at_test (e : harv_env) : Z * T * T :=
    if (he_tsum e <=? he_sum e) && (he_num e <? he_nrentw e)%Z
    then ((he_num e + 1)%Z, he_sum e - he_tsum e, he_tsum_next e)
    else (he_num e, he_sum e, he_tsum e).

  Definition harvest_cond (e : harv_env) : bool :=
    let '(num, s, ts) := stage_at_test e in
    let n1 := nfk1 (he_wg00 e) (he_regen e) (he_dz e) (he_wmin0 e) (he_wnor0 e) in
    (he_tsum0 e <=? he_sum0 e) && (num =? he_nrentw e)%Z && (dec 6 1 * ts <? s) &&
    (n1 <=? he_maxhmoi e) && (he_minhmoi e <=? n1) && (ofZ 3 <? he_tagnum e) &&
    (he_regen e + he_r1 e + he_r2 e + he_r3 e <=? he_rainlim e) && (he_regen e <=? he_rainact e).

  (* --- automatic irrigation (run.go:418-447) --- *)
  (* layers: (WG[0][i], W[i], WMIN[i]); [rdz] = REGEN/DZ enters the first layer only *)
  Fixpoint irr_sums (first : bool) (rdz : T) (ls : list (T * T * T)) (acc : T * T) : T * T :=
    match ls with
    | [] => acc
    | (wg, w, wmin) :: r =>
        let nfk0 := if first then (wg + rdz - wmin) / (w - wmin) else (wg - wmin) / (w - wmin) in
        let defz0 := if first then (w - wg - rdz) * ofZ 100 else (w - wg) * ofZ 100 in
        let nfk1 := if nfk0 <? zero then zero else nfk0 in
        let '(nfk, defz) := if one <? nfk1 then (one, zero) else (nfk1, defz0) in
        irr_sums false rdz r (fst acc + nfk, snd acc + defz)
    end.

  Record irr_env := {
    ie_layers : list (T * T * T); ie_wurzmax : Z; ie_irrdep : T; ie_regen : T; ie_dz : T;
    ie_irrlow : T; ie_rain1 : T; ie_rain2 : T }.

  Definition irr_maxdepth (e : irr_env) : Z := Z.min (ie_wurzmax e) (truncZ (ie_irrdep e)).

  (* (NFK50, DEFZSUM) *)
  Definition irr_state (e : irr_env) : T * T :=
    let md := irr_maxdepth e in
    let '(nfksum, defzsum) := irr_sums true (ie_regen e / ie_dz e) (firstn (Z.to_nat md) (ie_layers e)) (zero, zero) in
    (nfksum / ofZ md, defzsum).

  Definition irr_cond (e : irr_env) : bool :=
    (fst (irr_state e) <? ie_irrlow e) && (ie_rain1 e + ie_rain2 e <? dec 9 1).

  Definition auto_irr_state (z saat : Z) (intwick irrst1 irrst2 irrmax : T) (e : irr_env) : option T :=
    auto_irr z saat intwick irrst1 irrst2 (irr_cond e) (snd (irr_state e)) irrmax.

  (* --- automatic fertilisation (nitro.go:73-226), one Nitro call in sub-step 1 --- *)
  Record org_pay := { o_nsas : T; o_nlas : T; o_ndir : T }.

  Record af_env := {
    ae_z : Z; ae_akf : Z;
    ae_saat : Z;                             (* SAAT[AKF] *)
    ae_intwick : T; ae_tagnum : T;
    ae_t5 : list T;                          (* TEMP[TAG], TEMP[TAG-1], ..., TEMP[TAG-4] *)
    ae_regen : T; ae_regen_prev : T; ae_regen_next : T;
    ae_c1 : list T;                          (* C1[0..8] *)
    ae_wurz : Z;
    ae_ndem1 : T; ae_ndem2 : T; ae_ndem3 : T;
    (* organic fertiliser of the previous entry (applied after its harvest) and of the current one (after sowing) *)
    ae_prev_h : bool;                        (* AKF.Num > 1 && ODU[AKF-1] == 1 && ORGTIME[AKF-1] == "H" *)
    ae_ztdg_prev : Z; ae_pay_prev : org_pay;
    ae_cur_s : bool;                         (* ODU[AKF] == 1 && ORGTIME[AKF-1] == "S"  (sic: the timing letter of the PREVIOUS entry) *)
    ae_orgdoy : Z; ae_pay_cur : org_pay }.

  Record af_state := {
    as_ndoy1 : T; as_ndoy2 : T; as_ndoy3 : T;      (* NDOY1..3[AKF] *)
    as_ztdg : Z;                                   (* ZTDG[AKF] *)
    as_nfos0 : T; as_naos0 : T; as_dsumm : T; as_c10 : T; as_nfertsim : T }.

  Definition sum_first (n : nat) (l : list T) : T := fold_left add (firstn n l) zero.

  Definition t5_sum (l : list T) : T :=
    nth 0 l zero + nth 1 l zero + nth 2 l zero + nth 3 l zero + nth 4 l zero.

  (* a mineral dose: NFERTSIM += d; DSUMM += d *)
  Definition dose (s : af_state) (d : T) : af_state :=
    {| as_ndoy1 := as_ndoy1 s; as_ndoy2 := as_ndoy2 s; as_ndoy3 := as_ndoy3 s; as_ztdg := as_ztdg s;
       as_nfos0 := as_nfos0 s; as_naos0 := as_naos0 s; as_dsumm := as_dsumm s + d; as_c10 := as_c10 s;
       as_nfertsim := as_nfertsim s + d |}.
  Definition set_ndoy (which : Z) (s : af_state) (v : T) : af_state :=
    {| as_ndoy1 := if (which =? 1)%Z then v else as_ndoy1 s; as_ndoy2 := if (which =? 2)%Z then v else as_ndoy2 s;
       as_ndoy3 := if (which =? 3)%Z then v else as_ndoy3 s; as_ztdg := as_ztdg s;
       as_nfos0 := as_nfos0 s; as_naos0 := as_naos0 s; as_dsumm := as_dsumm s; as_c10 := as_c10 s;
       as_nfertsim := as_nfertsim s |}.

  (* events of a call: (kind, amount) with kind 0 = organic after harvest (logged), 1 = organic after sowing (not
     logged), 2/3/4 = mineral application 1/2/3 (logged) *)

  (* organic fertiliser of the previous entry, ORGDOY days after its harvest (nitro.go:74-89) *)
  Definition af_orgh (e : af_env) (s : af_state) : af_state * list (Z * T) :=
    if ae_prev_h e && (ae_z e =? ae_ztdg_prev e)%Z then
      ({| as_ndoy1 := as_ndoy1 s; as_ndoy2 := as_ndoy2 s; as_ndoy3 := as_ndoy3 s; as_ztdg := as_ztdg s;
          as_nfos0 := as_nfos0 s + o_nsas (ae_pay_prev e); as_naos0 := as_naos0 s + o_nlas (ae_pay_prev e);
          as_dsumm := as_dsumm s + o_ndir (ae_pay_prev e); as_c10 := as_c10 s; as_nfertsim := as_nfertsim s |},
       [(0%Z, o_ndir (ae_pay_prev e))])
    else (s, []).

  (* organic fertiliser of the current entry, ORGDOY days after its sowing (nitro.go:92-107) *)
  Definition af_orgs (e : af_env) (s : af_state) : af_state * list (Z * T) :=
    if ae_cur_s e then
      let zt := if (ae_z e =? ae_saat e)%Z then (ae_z e + ae_orgdoy e)%Z else as_ztdg s in
      if (ae_z e =? zt)%Z then
        let c := as_c10 s + o_ndir (ae_pay_cur e) in
        ({| as_ndoy1 := as_ndoy1 s; as_ndoy2 := as_ndoy2 s; as_ndoy3 := as_ndoy3 s; as_ztdg := zt;
            as_nfos0 := as_nfos0 s + o_nsas (ae_pay_cur e); as_naos0 := as_naos0 s + o_nlas (ae_pay_cur e);
            as_dsumm := as_dsumm s; as_c10 := if c <? zero then zero else c; as_nfertsim := as_nfertsim s |},
         [(1%Z, o_ndir (ae_pay_cur e))])
      else
        ({| as_ndoy1 := as_ndoy1 s; as_ndoy2 := as_ndoy2 s; as_ndoy3 := as_ndoy3 s; as_ztdg := zt;
            as_nfos0 := as_nfos0 s; as_naos0 := as_naos0 s; as_dsumm := as_dsumm s; as_c10 := as_c10 s;
            as_nfertsim := as_nfertsim s |}, [])
    else (s, []).

  (* first mineral application (nitro.go:109-162): at sowing (NDOY1 = 0), at a development stage (NDOY1 = 1..9) or on
     the first warm, dry day after day-of-year NDOY1 *)
  Definition af_min1 (e : af_env) (d1 : T) (s : af_state) : af_state * list (Z * T) :=
    if as_ndoy1 s <? ofZ 10 then
      if as_ndoy1 s =? zero then
        if (ae_z e =? ae_saat e)%Z then (dose s d1, [(2%Z, d1)]) else (s, [])
      else if ae_intwick e =? as_ndoy1 s then (set_ndoy 1 (dose s d1) zero, [(2%Z, d1)]) else (s, [])
    else
      if (as_ndoy1 s <? ae_tagnum e) && (ae_tagnum e <? ofZ 210) && (as_ndoy1 s <? ofZ 365) &&
         (ofZ 20 <? t5_sum (ae_t5 e)) && (ae_regen e + ae_regen_prev e <? dec 4 1) && (ae_regen_next e <? ofZ 4)
      then (set_ndoy 1 (dose s d1) (ofZ 370), [(2%Z, d1)]) else (s, []).

  (* second / third application (nitro.go:163-226): at a development stage or on day-of-year NDOYn *)
  Definition af_minn (which : Z) (e : af_env) (ndoy d : T) (s : af_state) : af_state * list (Z * T) :=
    if ndoy <? ofZ 10 then
      if ae_intwick e =? ndoy then (set_ndoy which (dose s d) zero, [((which + 1)%Z, d)]) else (s, [])
    else if ae_tagnum e =? ndoy then (dose s d, [((which + 1)%Z, d)]) else (s, []).

  Definition autofert_day (e : af_env) (s : af_state) : af_state * list (Z * T) :=
    let '(s, ev0) := af_orgh e s in
    if (0 <? ae_saat e)%Z && (ae_saat e <=? ae_z e)%Z then
      let '(s, ev1) := af_orgs e s in
      (* Nmin of the upper 3 dm / of the rooted depth (at most 9 dm), with the top layer as just updated *)
      let c1 := match ae_c1 e with [] => [] | _ :: r => as_c10 s :: r end in
      let nmin30 := sum_first 3 c1 in
      let nminw := sum_first (Z.to_nat (Z.min (ae_wurz e) 9)) c1 in
      let '(s, ev2) := af_min1 e (auto_n (ae_ndem1 e) nmin30) s in
      let '(s, ev3) := af_minn 2 e (as_ndoy2 s) (auto_n (ae_ndem2 e) nminw) s in
      let '(s, ev4) := af_minn 3 e (as_ndoy3 s) (auto_n (ae_ndem3 e) nminw) s in
      (s, ev0 ++ ev1 ++ ev2 ++ ev3 ++ ev4)
    else (s, ev0).
End Triggers.
Arguments sow_env : clear implicits.
Arguments harv_env : clear implicits.
Arguments irr_env : clear implicits.
Arguments af_env : clear implicits.
Arguments af_state : clear implicits.
Arguments org_pay : clear implicits.

(* ------------------------------------------------------------------------------------------ *)
(* harvest with organic fertiliser "H" and the crop-skip branch (nitro.go:458-528)              *)

(* what the harvest of entry k on day z does to the cursor and to ZTDG[k]:
   [org_h k] = ODU[k] == 1 && ORGTIME[k] == "H"; returns (new AKF, new ZTDG[k], skipped?) *)
Definition harvest_cursor (z k : Z) (org_h : Z -> bool) (orgdoy : Z -> Z) (saat2 : Z -> Z) (automan : bool) (ztdg_k : Z)
  : Z * Z * bool :=
  let zt := if org_h k then z + orgdoy k else ztdg_k in
  let k1 := k + 1 in
  if (saat2 k1 <=? z) && automan && org_h (k1 - 1) then (k1 + 1, zt, true) else (k1, zt, false).

(* pools at a crop skip (nitro.go:464-470): only the slow organic part and the direct N of entry k's fertiliser are
   applied; the fast organic part is not *)
Definition skip_payload {T} {N : Num T} (naos0 dsumm nfos0 : T) (nsas nlas ndir : T) : T * T * T :=
  (add naos0 nlas, add dsumm ndir, nfos0).

(* the days after the harvest while the next entry stays current: the organic fertiliser of entry k is applied
   when zeit == ZTDG[k]; [fuel] days starting at z *)
Fixpoint orgh_days (ztdg : Z) (fuel : nat) (z : Z) : list Z :=
  match fuel with
  | O => []
  | S f => (if z =? ztdg then [z] else []) ++ orgh_days ztdg f (z + 1)
  end.
