(* RotationModel.v — executable model of the crop rotation cursor and of the decision rules of
   automatic management (property C16; sowing/harvest part of C10).  No proofs in this file.

   Go sources mirrored:
     hermes/crop.go:61-64        sowing event        zeit == SAAT[AKF]   (PhytoOut, sub-step 1,
                                 called by run.go:610-617 only if AKF.Num > 1 && SAAT[AKF] > 0 &&
                                 SAAT[AKF] <= ZEIT <= ERNTE2[AKF])
     hermes/nitro.go:286-461     harvest             zeit == ERNTE[AKF] && subd == 1 ; crop record when
                                 AKF.Num > 1 ; AKF.Inc()
     hermes/run.go:539-578       automatic sowing
     hermes/crop.go:183-204,549-555  automatic harvest, forced at ERNTE2-1 -> ERNTE2; a fixed sowing
                                 date of the next crop that already passed is moved to harvest+4
     hermes/run.go:415-450       automatic irrigation
     hermes/nitro.go:109-226     automatic mineral N: ndung = max(NDEM - Nmin, 0)
   Weather/state dependent trigger conditions are boolean ORACLE arguments ([trig]). *)
From Coq Require Import ZArith List Bool.
From Hermes Require Import Num.
Import ListNotations.
Open Scope Z_scope.

(* ------------------------------------------------------------------------------------------ *)
(* rotation cursor with fixed dates                                                            *)

Section Rotation.
  (* arrays indexed by the rotation entry k = AKF.Index (0 = crop harvested at the start) *)
  Variables saat ernte ernte2 : Z -> Z.

  Inductive rkind := Sow | Harv.

  (* what one simulated day (sub-step 1) does to the cursor: events (day, kind, entry) *)
  Definition rot_day (z k : Z) : list (Z * rkind * Z) * Z :=
    let sow := (1 <=? k) && (0 <? saat k) && (saat k <=? z) && (z <=? ernte2 k) && (z =? saat k) in
    let harv := z =? ernte k in
    ((if sow then [(z, Sow, k)] else []) ++ (if harv then [(z, Harv, k)] else []),
     if harv then k + 1 else k).

  Fixpoint rot_run (fuel : nat) (z k : Z) : list (Z * rkind * Z) :=
    match fuel with
    | O => []
    | S f => let '(ev, k') := rot_day z k in ev ++ rot_run f (z + 1) k'
    end.

  (* a crop record is written at the harvest of every entry k >= 1 (AKF.Num > 1) and carries
     FRUCHT[k] and the year of the harvest day *)
  Definition crop_records (frucht : Z -> Z) (year : Z -> Z) (evs : list (Z * rkind * Z)) : list (Z * Z * Z) :=
    flat_map (fun e => match e with
                       | (z, Harv, k) => if 1 <=? k then [(k, frucht k, year z)] else []
                       | _ => [] end) evs.
End Rotation.

(* ------------------------------------------------------------------------------------------ *)
(* decision rules of automatic management                                                      *)

(* run.go:540-577.  [saat] current SAAT[AKF]; returns the new SAAT[AKF].  [trig] = all weather and
   soil conditions of lines 549-554 / 561-565 *)
Definition auto_sow (z saat saat1 saat2 prev_ernte : Z) (trig : bool) : Z :=
  if (saat =? 0) && (saat1 <=? z) then
    let s1 := if trig && (prev_ernte + 4 <? z) then z else saat in
    if (z =? saat2) && (s1 =? 0) then z else s1
  else saat.

(* the sowing block over consecutive days while the entry stays current *)
Fixpoint sow_loop (trig : Z -> bool) (saat1 saat2 prev_ernte : Z) (fuel : nat) (z saat : Z) : Z :=
  match fuel with
  | O => saat
  | S f => sow_loop trig saat1 saat2 prev_ernte f (z + 1) (auto_sow z saat saat1 saat2 prev_ernte (trig z))
  end.

(* crop.go:183-204 and 549-555: (ERNTE, ERNTE2) of the current entry after the day *)
Definition auto_harvest (z ernte ernte2 : Z) (trig : bool) : Z * Z :=
  if ernte =? 0 then
    let '(e, e2) := if trig then (z, z) else (ernte, ernte2) in
    if (z =? e2 - 1) && (e =? 0) then (z + 1, e2) else (e, e2)
  else (ernte, ernte2).

Fixpoint harvest_loop (trig : Z -> bool) (fuel : nat) (z ernte ernte2 : Z) : Z * Z :=
  match fuel with
  | O => (ernte, ernte2)
  | S f => let '(e, e2) := auto_harvest z ernte ernte2 (trig z) in harvest_loop trig f (z + 1) e e2
  end.

(* crop.go:192-195 / 551-554: the next entry's fixed sowing date (and window end) when the harvest
   day h is decided on day z *)
Definition move_next_sowing (z h next_saat next_saat2 : Z) : Z * Z :=
  if (0 <? next_saat) && (next_saat <? z) then (h + 4, h + 4) else (next_saat, next_saat2).

Section AutoNum.
  Context {T : Type} {N : Num T}.
  Local Open Scope num_scope.

  (* run.go:415-447: amount = math.Min(DEFZSUM*0.9, IRRMAX[AKF]) *)
  Definition auto_irr (z saat : Z) (intwick irrst1 irrst2 : T) (trig : bool) (defzsum irrmax : T) : option T :=
    if (0 <? saat)%Z && (saat <? z)%Z && (irrst1 <=? intwick) && (intwick <? irrst2 + one) && trig
    then Some (minv (defzsum * dec 9 1) irrmax) else None.

  (* nitro.go:116,131,150,169,185,201,217 *)
  Definition auto_n (ndem nmin : T) : T := maxv (ndem - nmin) zero.
End AutoNum.
