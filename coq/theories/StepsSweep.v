(* StepsSweep.v — C01: the number of sub-steps at binary64, a finite sweep (kept in its own file:
   the vm_compute takes about a minute). *)
From Coq Require Import ZArith List Bool Floats.
From Hermes Require Import Num Util WaterModel.

(* ---------------------------------------------------------------- *)
(* sub-step count at binary64 (run.go:576-582 as repaired): for every integral ZSR value n in
   1..2^16 the loop performs exactly n sub-steps of length 1/n                                   *)
Definition steps_ok (n : N) (_ : unit) : bool :=
  let z := Z.of_N n in
  let wdt := @wdt_of float FloatNum (F.of_Z z) in
  let '(k, w) := @steps_of float FloatNum wdt in
  (k =? z)%Z && float_same w (if (z =? 1)%Z then PrimFloat.one else wdt) && float_same wdt (PrimFloat.div PrimFloat.one (F.of_Z z)).

Definition STEPS_MAX : N := 65536.

Lemma sweep_steps : snd (Util.ic_run (fun u : unit => u) tt steps_ok STEPS_MAX) = true.
Proof. vm_compute. reflexivity. Qed.

Lemma steps_exact_lemma (n : N) : (1 <= n <= STEPS_MAX)%N -> steps_ok n tt = true.
Proof.
  intros Hn. pose proof (Util.ic_run_forall (fun u : unit => u) tt steps_ok STEPS_MAX sweep_steps n Hn) as H.
  destruct (Util.nth_iter (fun u : unit => u) tt n). exact H.
Qed.
