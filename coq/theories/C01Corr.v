(* C01Corr.v — runs WaterModel at binary64 on the states hermes.Water was run on and compares
   every output bit for bit (kernel tie, DESIGN.md §2.3). *)
From Coq Require Import ZArith List Bool Floats.
From Hermes Require Import Num WaterModel.
Import ListNotations.

Record water_obs := {
  ob_tp : list float; ob_wg1 : list float; ob_q1 : list float; ob_ev : list float;
  ob_qdrain : float; ob_cnt_in : list float; ob_cnt_out : list float;
}.

Definition cnt_of_list (l : list float) : water_counters (T:=float) :=
  let g := get PrimFloat.zero l in
  {| c_pftrans := g 0%nat; c_tray := g 1%nat; c_trag := g 2%nat; c_etag := g 3%nat; c_tp3 := g 4%nat;
     c_tp6 := g 5%nat; c_tp9 := g 6%nat; c_draisum := g 7%nat; c_sicker := g 8%nat; c_capsum := g 9%nat;
     c_perg := g 10%nat; c_infilt := g 11%nat |}.

Definition cnt_to_list (c : water_counters (T:=float)) : list float :=
  [c_pftrans c; c_tray c; c_trag c; c_etag c; c_tp3 c; c_tp6 c; c_tp9 c; c_draisum c; c_sicker c;
   c_capsum c; c_perg c; c_infilt c].

(* bitmask of the output groups that differ: 1 TP, 2 WG1, 4 Q1, 8 EV, 16 QDRAIN, 32 counters *)
Definition water_check (c : water_in (T:=float) * water_obs) : nat :=
  let '(x, o) := c in
  let m := water_step x in
  let cnt := water_counters_step x m (cnt_of_list (ob_cnt_in o)) in
  let b (ok : bool) (v : nat) := if ok then 0%nat else v in
  (b (floats_same (wo_tp m) (ob_tp o)) 1 + b (floats_same (wo_wg1 m) (ob_wg1 o)) 2 +
   b (floats_same (wo_q1 m) (ob_q1 o)) 4 + b (floats_same (wo_ev m) (ob_ev o)) 8 +
   b (float_same (wo_qdrain m) (ob_qdrain o)) 16 +
   b (floats_same (cnt_to_list cnt) (ob_cnt_out o)) 32)%nat.

Fixpoint mismatches {A} (chk : A -> nat) (i : nat) (l : list A) : list (nat * nat) :=
  match l with
  | [] => []
  | c :: r => let v := chk c in
              if Nat.eqb v 0 then mismatches chk (S i) r else (i, v) :: mismatches chk (S i) r
  end.

(* sub-step choice of run.go observed through the "steps" probe: (fluss0, regen, W, WG0) -> (STEPS, WDT) *)
Definition steps_check (c : float * float * list float * list float * (Z * float)) : nat :=
  let '(fluss0, regen, w, wg0, (n, wdt)) := c in
  let '(k, wd) := steps_of (wdt_of (zsr_of fluss0 regen w wg0)) in
  ((if Z.eqb k n then 0 else 1) + (if float_same wd wdt then 0 else 2))%nat.

(* setFieldCapacityWithGW: (GRW, W, PORGES) -> W' *)
Definition gwfc_check (c : float * list float * list float * list float) : nat :=
  let '(grw, w, porges, w') := c in
  if floats_same (set_fc_gw grw w porges) w' then 0%nat else 1%nat.
