(* Num.v — the numeric interface the kernel models are written against, with its two
   interpretations (DESIGN.md §2.1):
     FloatNum : Num float   IEEE-754 binary64 via Coq's primitive floats — this one RUNS and is
                            compared bit for bit with the Go kernels;
     RNum     : Num R       exact real arithmetic — this one is what the theorems are about.
   Go library functions that are pure binary64 arithmetic (math.Abs/Max/Min/Ceil/Floor/Round/Trunc,
   int(x)) are members; transcendental functions are NOT — they are oracle inputs of the models. *)
From Coq Require Import ZArith Reals List Bool Lia Lra Floats Uint63 SpecFloat.
Import ListNotations.

Class Num (T : Type) := {
  zero : T; one : T;
  add : T -> T -> T; sub : T -> T -> T; mul : T -> T -> T; div : T -> T -> T;
  opp : T -> T; absv : T -> T; sqrtv : T -> T;
  ltb : T -> T -> bool; leb : T -> T -> bool; eqb : T -> T -> bool;
  maxv : T -> T -> T;      (* math.Max *)
  minv : T -> T -> T;      (* math.Min *)
  ofZ : Z -> T;            (* float64(n) for |n| < 2^53 *)
  truncZ : T -> Z;         (* int(x) *)
  ceilv : T -> T;          (* math.Ceil *)
  roundv : T -> T;         (* math.Round: half away from zero *)
  frac1 : T -> T;          (* math.Mod(x, 1) for x >= 0 *)
}.

Declare Scope num_scope.
Delimit Scope num_scope with num.
Infix "+" := add : num_scope.
Infix "-" := sub : num_scope.
Infix "*" := mul : num_scope.
Infix "/" := div : num_scope.
Notation "- x" := (opp x) : num_scope.
Infix "<?" := ltb : num_scope.
Infix "<=?" := leb : num_scope.
Infix "=?" := eqb : num_scope.

Section Derived.
  Context {T : Type} {N : Num T}.
  (* decimal literal m·10^-k as Go parses it: one correctly rounded division of two exactly
     representable integers (m < 2^53, k <= 22) *)
  Definition dec (m : Z) (k : nat) : T := div (ofZ m) (ofZ (10 ^ Z.of_nat k)).
  Definition gtb (a b : T) : bool := ltb b a.
  Definition geb (a b : T) : bool := leb b a.
  Definition two : T := ofZ 2.
  Definition ten : T := ofZ 10.
  (* round(x) as an index: int(math.Round(x)) *)
  Definition roundZ (x : T) : Z := truncZ (roundv x).
  Definition ceilZ (x : T) : Z := truncZ (ceilv x).
End Derived.

(* ------------------------------------------------------------------ *)
(* binary64                                                             *)

Module F.
  Local Open Scope float_scope.

  Definition of_Z (z : Z) : float :=
    match z with
    | Z0 => PrimFloat.zero
    | Zpos _ => PrimFloat.of_uint63 (Uint63.of_Z z)
    | Zneg p => PrimFloat.opp (PrimFloat.of_uint63 (Uint63.of_Z (Zpos p)))
    end.

  (* exact integer part toward zero of a finite float; NaN/Inf give the amd64 "integer indefinite" *)
  Definition INDEF : Z := (- 2 ^ 63)%Z.
  Definition trunc_Z (x : float) : Z :=
    match Prim2SF x with
    | S754_zero _ => 0%Z
    | S754_finite s m e =>
        let mag := match e with
                   | Z0 => Zpos m
                   | Zpos p => (Zpos m * 2 ^ Zpos p)%Z
                   | Zneg p => (Zpos m / 2 ^ Zpos p)%Z
                   end in
        if s then (- mag)%Z else mag
    | _ => INDEF
    end.

  Definition is_integral (x : float) : bool :=
    match Prim2SF x with
    | S754_zero _ => true
    | S754_finite s m e =>
        match e with
        | Zneg p => (Zpos m mod 2 ^ Zpos p =? 0)%Z
        | _ => true
        end
    | _ => true
    end.

  (* |x| >= 2^52 or non-finite: already integral, math.Ceil/Round/Trunc return x *)
  Definition big (x : float) : bool :=
    negb (PrimFloat.abs x <? 0x1p52) .

  Definition trunc (x : float) : float :=
    if big x then x else
    let t := of_Z (trunc_Z x) in
    (* keep the sign of zero: trunc(-0.3) = -0 *)
    if (t =? 0) && (x <? 0) then PrimFloat.neg_zero
    else if PrimFloat.is_zero x then x else t.

  Definition ceil (x : float) : float :=
    if big x then x else
    if is_integral x then x else
    let t := trunc_Z x in
    if 0 <? x then of_Z (t + 1)
    else (if (t =? 0)%Z then PrimFloat.neg_zero else of_Z t).

  (* math.Round: nearest, halves away from zero *)
  Definition round (x : float) : float :=
    if big x then x else
    if is_integral x then x else
    let t := trunc_Z x in
    let fr := PrimFloat.abs (x - of_Z t) in      (* exact: x and t share the binade or below *)
    if fr <? 0.5 then (if (t =? 0)%Z && (x <? 0) then PrimFloat.neg_zero else of_Z t)
    else (if x <? 0 then of_Z (t - 1) else of_Z (t + 1)).

  (* math.Mod(x, 1) *)
  Definition mod1 (x : float) : float :=
    if big x then (if PrimFloat.is_finite x then (if x <? 0 then PrimFloat.neg_zero else PrimFloat.zero) else PrimFloat.nan)
    else let r := x - trunc x in
         if (r =? 0) && (x <? 0) then PrimFloat.neg_zero else r.

  Definition signbit (x : float) : bool :=
    match Prim2SF x with
    | S754_zero s => s | S754_finite s _ _ => s | S754_infinity s => s | S754_nan => false
    end.

  (* math.Max / math.Min special cases in Go's order *)
  Definition max (x y : float) : float :=
    if (x =? PrimFloat.infinity) || (y =? PrimFloat.infinity) then PrimFloat.infinity
    else if PrimFloat.is_nan x || PrimFloat.is_nan y then PrimFloat.nan
    else if PrimFloat.is_zero x && PrimFloat.is_zero y then (if signbit x then y else x)
    else if y <? x then x else y.

  Definition min (x y : float) : float :=
    if (x =? PrimFloat.neg_infinity) || (y =? PrimFloat.neg_infinity) then PrimFloat.neg_infinity
    else if PrimFloat.is_nan x || PrimFloat.is_nan y then PrimFloat.nan
    else if PrimFloat.is_zero x && PrimFloat.is_zero y then (if signbit x then x else y)
    else if x <? y then x else y.
End F.

#[global] Instance FloatNum : Num float := {|
  zero := PrimFloat.zero; one := PrimFloat.one;
  add := PrimFloat.add; sub := PrimFloat.sub; mul := PrimFloat.mul; div := PrimFloat.div;
  opp := PrimFloat.opp; absv := PrimFloat.abs; sqrtv := PrimFloat.sqrt;
  ltb := PrimFloat.ltb; leb := PrimFloat.leb; eqb := PrimFloat.eqb;
  maxv := F.max; minv := F.min;
  ofZ := F.of_Z; truncZ := F.trunc_Z;
  ceilv := F.ceil; roundv := F.round; frac1 := F.mod1;
|}.

(* ------------------------------------------------------------------ *)
(* exact reals                                                          *)

Module RI.
  Local Open Scope R_scope.
  Definition ltb (a b : R) : bool := if Rlt_dec a b then true else false.
  Definition leb (a b : R) : bool := if Rle_dec a b then true else false.
  Definition eqb (a b : R) : bool := if Req_EM_T a b then true else false.
  (* integer part toward zero *)
  Definition trunc_Z (x : R) : Z := if Rle_dec 0 x then Int_part x else (- Int_part (- x))%Z.
  Definition ceilR (x : R) : R := if Req_EM_T (IZR (Int_part x)) x then x else IZR (Int_part x + 1).
  Definition round (x : R) : R :=
    if Rle_dec 0 x then IZR (Int_part (x + /2)) else - IZR (Int_part (- x + /2)).
  Definition mod1 (x : R) : R := x - IZR (trunc_Z x).

  Lemma ltb_spec a b : reflect (a < b) (ltb a b).
  Proof. unfold ltb; destruct (Rlt_dec a b); constructor; assumption. Qed.
  Lemma leb_spec a b : reflect (a <= b) (leb a b).
  Proof. unfold leb; destruct (Rle_dec a b); constructor; assumption. Qed.
  Lemma eqb_spec a b : reflect (a = b) (eqb a b).
  Proof. unfold eqb; destruct (Req_EM_T a b); constructor; assumption. Qed.
End RI.

#[global] Instance RNum : Num R := {|
  zero := 0%R; one := 1%R;
  add := Rplus; sub := Rminus; mul := Rmult; div := Rdiv;
  opp := Ropp; absv := Rabs; sqrtv := R_sqrt.sqrt;
  ltb := RI.ltb; leb := RI.leb; eqb := RI.eqb;
  maxv := Rmax; minv := Rmin;
  ofZ := IZR; truncZ := RI.trunc_Z;
  ceilv := RI.ceilR; roundv := RI.round; frac1 := RI.mod1;
|}.

(* ------------------------------------------------------------------ *)
(* arrays as lists                                                      *)

Section Arr.
  Context {T : Type}.
  Definition get (d : T) (l : list T) (i : nat) : T := nth i l d.
  Fixpoint upd (l : list T) (i : nat) (v : T) : list T :=
    match l, i with
    | [], _ => []
    | _ :: r, O => v :: r
    | x :: r, S k => x :: upd r k v
    end.
  Lemma upd_length l i v : length (upd l i v) = length l.
  Proof. revert i; induction l as [|x l IH]; intros [|i]; cbn; auto. Qed.
  Lemma get_upd_same d l i v : (i < length l)%nat -> get d (upd l i v) i = v.
  Proof. revert i; induction l as [|x l IH]; intros [|i] H; cbn in *; try lia; auto. apply IH; lia. Qed.
  Lemma get_upd_other d l i j v : i <> j -> get d (upd l i v) j = get d l j.
  Proof.
    revert i j; induction l as [|x l IH]; intros [|i] [|j] H; cbn; auto; try congruence.
    apply IH; congruence.
  Qed.
End Arr.

(* sum of a list in the order a Go loop accumulates it: ((0 + x0) + x1) + ... *)
Section Sum.
  Context {T : Type} {N : Num T}.
  Definition sum_list (l : list T) : T := fold_left add l zero.
End Sum.

(* float comparison of two results bit for bit (NaN = NaN, -0 <> +0) *)
Definition float_same (a b : float) : bool :=
  match Prim2SF a, Prim2SF b with
  | S754_zero s, S754_zero s' => Bool.eqb s s'
  | S754_infinity s, S754_infinity s' => Bool.eqb s s'
  | S754_nan, S754_nan => true
  | S754_finite s m e, S754_finite s' m' e' => Bool.eqb s s' && Pos.eqb m m' && Z.eqb e e'
  | _, _ => false
  end.

Fixpoint floats_same (a b : list float) : bool :=
  match a, b with
  | [], [] => true
  | x :: r, y :: r' => float_same x y && floats_same r r'
  | _, _ => false
  end.
