(* Prop_C20.v — property C20 (groundwater level follows the supplied series), stated about GwModel —
   the executable model of hermes.GetGroundWaterLevel / the daily groundwater update that the
   correspondence check compares bit for bit with the Go code.  Only statements here.
   [ascending s] = dates strictly ascending and all > 0 (date 0 is the code's "not found" marker). *)
From Coq Require Import ZArith Reals List Bool Lra Sorted.
From Hermes Require Import Num RUtil GwModel GwProofs.
Import ListNotations.
Local Open Scope R_scope.

(* the level of a date that is in the series is the value given for it *)
Theorem C20_gw_hit : forall (s : list (Z * R)) d v,
  StronglySorted Z.lt (dates s) -> In (d, v) s -> level s d = Some v.
Proof. exact gw_hit_lemma. Qed.

(* any series, duplicates allowed: the last record of a date wins *)
Theorem C20_gw_hit_last : forall (s1 s2 : list (Z * R)) d v,
  ~ In d (dates s2) -> level (s1 ++ (d, v) :: s2) d = Some v.
Proof. exact gw_hit_last_lemma. Qed.

(* between two neighbouring dates a < d < b: the linear interpolant, which lies between the two values *)
Theorem C20_gw_between : forall (s1 s2 : list (Z * R)) a va b vb d,
  let s := s1 ++ (a, va) :: (b, vb) :: s2 in
  ascending s -> (a < d < b)%Z ->
  exists v, level s d = Some v /\ v = (vb - va) / IZR (b - a) * IZR (d - a) + va /\ Rmin va vb <= v <= Rmax va vb.
Proof. exact gw_between_lemma. Qed.

(* before the first date: the first value; after the last date: the last value *)
Theorem C20_gw_outside_before : forall a va (s2 : list (Z * R)) d,
  let s := (a, va) :: s2 in ascending s -> (d < a)%Z -> level s d = Some va.
Proof. exact gw_before_lemma. Qed.

Theorem C20_gw_outside_after : forall (s1 : list (Z * R)) b vb d,
  let s := s1 ++ [(b, vb)] in ascending s -> (b < d)%Z -> level s d = Some vb.
Proof. exact gw_after_lemma. Qed.

(* the empty series is an error, and only the empty series *)
Theorem C20_gw_empty_error : forall d, level (@nil (Z * R)) d = None.
Proof. exact gw_empty_lemma. Qed.

Theorem C20_gw_no_error : forall (s : list (Z * R)) d,
  s <> [] -> Forall (fun x => (0 < x)%Z) (dates s) -> level s d <> None.
Proof. exact gw_no_error_lemma. Qed.

(* polygon file: GW = (lo+hi)/2, AMPL = (lo-hi)/2, GRW = GW - AMPL*s; the only fact used about
   s = math.Sin((TAG+phase)*pi/180) is |s| <= 1 *)
Theorem C20_gw_sin : forall (grlo grhi : Z) (s : R), -1 <= s <= 1 ->
  let lo := IZR grlo in let hi := IZR grhi in
  let grw := @gw_sinus R RNum (gw_mean grlo grhi) (gw_ampl grlo grhi) s in
  Rmin lo hi <= grw <= Rmax lo hi /\ (s = 0 -> grw = (lo + hi) / 2).
Proof. exact gw_sin_lemma. Qed.

(* the day loop (run.go:362-371): with a time series the level used on day ZEIT is [level series ZEIT] *)
Theorem C20_gw_daily : forall (grw gw ampl s : R) series zeit,
  gw_day GWTimeSeries grw gw ampl s series zeit = level series zeit /\
  gw_day Polygonfile grw gw ampl s series zeit = Some (gw_sinus gw ampl s) /\
  gw_day Soilfile grw gw ampl s series zeit = Some grw.
Proof. exact gw_daily_lemma. Qed.

(* the reader (soil.go:692-730) keeps every row of the requested id, in file order — also rows that repeat the
   previous level — so a date given in the file has the level given for it *)
Theorem C20_reader_keeps_rows : forall (rows : list (Z * Z * R)) id d v,
  In (id, d, v) rows -> In (d, v) (gw_read rows id).
Proof. exact gw_read_keeps_lemma. Qed.

Theorem C20_gw_file_hit : forall (rows : list (Z * Z * R)) id d v,
  StronglySorted Z.lt (dates (gw_read rows id)) -> In (id, d, v) rows -> level (gw_read rows id) d = Some v.
Proof. exact gw_file_hit_lemma. Qed.

(* the sinusoid is evaluated at the CONFIGURED phase (any integer, also negative or beyond a year) *)
Theorem C20_gw_phase : forall (p : Z) (tag : R), sin_arg tag (gw_phase_of_config p) = sin_arg tag p.
Proof. exact gw_phase_lemma. Qed.

(* non-vacuity: a three-record series with gaps is ascending; day 25 interpolates between 10 and 40 *)
Example C20_nonvacuous :
  ascending [(10%Z, 11); (40%Z, 9); (100%Z, 12)] /\
  exists v, level [(10%Z, 11); (40%Z, 9); (100%Z, 12)] 25%Z = Some v /\ v = 10.
Proof.
  split.
  - split; cbn; repeat constructor.
  - eexists. split; [reflexivity|]. cbn. lra.
Qed.

Print Assumptions C20_gw_hit.
Print Assumptions C20_gw_hit_last.
Print Assumptions C20_gw_between.
Print Assumptions C20_gw_outside_before.
Print Assumptions C20_gw_outside_after.
Print Assumptions C20_gw_empty_error.
Print Assumptions C20_gw_no_error.
Print Assumptions C20_gw_sin.
Print Assumptions C20_gw_daily.
Print Assumptions C20_gw_phase.
Print Assumptions C20_reader_keeps_rows.
Print Assumptions C20_gw_file_hit.
