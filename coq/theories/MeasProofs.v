(* MeasProofs.v — loader agreement for the measured initial values: the text reader on the text rendering
   of an abstract measurement set = the CSV reader on its CSV rendering, for every profile depth. *)
From Coq Require Import ZArith List Bool Ascii String Lia Floats.
From Hermes Require Import Num DateModel CropParamModel CropParamProofs SoilModel SoilProofs RotaReaderModel RotaReaderProofs MeasModel.
Import ListNotations.
Local Open Scope Z_scope.

(* a text that ValAsFloat accepts *)
Definition is_dec (t : lstr) : Prop := parse_dec (trim t) <> None.

(* a row with the deep values (15 tokens, the six deep ones numbers) or without them (9 tokens) *)
Definition wf_amrow (r : amrow) : Prop :=
  Forall tok_ok (am_tokens r) /\ Forall no_comma (am_tokens r) /\
  ((exists k1 k2 k3 k4 k5 k6 w1 w2 w3 w4 w5 w6, am_k r = [k1; k2; k3; k4; k5; k6] /\ am_w r = [w1; w2; w3; w4; w5; w6] /\
      is_dec k4 /\ is_dec k5 /\ is_dec k6 /\ is_dec w4 /\ is_dec w5 /\ is_dec w6) \/
   (exists k1 k2 k3 w1 w2 w3, am_k r = [k1; k2; k3] /\ am_w r = [w1; w2; w3])).

Definition std_idx : midx :=
  {| xi := 0; xd := 1; xk := [2; 3; 4; 9; 10; 11]%nat; xm := 5; xw := [6; 7; 8; 12; 13; 14]%nat |}.

Lemma meas_header_idx : midx_of (explode [","%char; ";"%char] meas_csv_header) = std_idx.
Proof. vm_compute. reflexivity. Qed.

Lemma trim_tok t : tok_ok t -> trim t = t.
Proof.
  intros [Hne Hsp]. unfold trim.
  assert (L : forall l, (forall c, In c l -> is_space c = false) -> ltrim l = l).
  { intros l H. destruct l as [|c r]; [reflexivity|]. cbn. now rewrite (H c (or_introl eq_refl)). }
  rewrite (L t Hsp). rewrite (L (rev t)) by (intros c Hc; apply Hsp; now apply in_rev). apply rev_involutive.
Qed.

Lemma has_prefix_app p l : has_prefix p (p ++ l) = true.
Proof. induction p as [|a p IH]; cbn; [reflexivity|]. destruct (ascii_dec a a); [exact IH|congruence]. Qed.

Section MeasAgree.
  Context {T : Type} {NT : Num T}.

  Lemma vf_tf t : is_dec t -> vf (T:=T) (Some t) = tf (Some t).
  Proof.
    unfold is_dec, vf, tf, try_float, val_as_float, crash_if_none. intros H.
    destruct (parse_dec (trim t)) as [[[neg m] k]|]; [reflexivity|congruence].
  Qed.

  Lemma try_float_nil : try_float (T:=T) [] = zero.
  Proof. reflexivity. Qed.

  (* the values read from the tokens / from the cells of a well-formed row *)
  Lemma vals_agree r : wf_amrow r -> txt_vals (T:=T) (am_tokens r) = csv_vals std_idx (am_cells r).
  Proof.
    intros (_ & _ & [H|H]).
    - destruct H as (k1 & k2 & k3 & k4 & k5 & k6 & w1 & w2 & w3 & w4 & w5 & w6 & Hk & Hw & D4 & D5 & D6 & E4 & E5 & E6).
      unfold am_cells, am_tokens. rewrite Hk, Hw. cbn [firstn skipn app List.length Nat.sub repeat].
      unfold txt_vals, csv_vals, std_idx. cbn [nth_error nth xd xk xm xw List.length Nat.ltb Nat.leb].
      rewrite <- !vf_tf by assumption. reflexivity.
    - destruct H as (k1 & k2 & k3 & w1 & w2 & w3 & Hk & Hw).
      unfold am_cells, am_tokens. rewrite Hk, Hw. cbn [firstn skipn app List.length Nat.sub repeat].
      unfold txt_vals, csv_vals, std_idx. cbn [nth_error nth xd xk xm xw List.length Nat.ltb Nat.leb].
      unfold tf. rewrite try_float_nil. reflexivity.
  Qed.

  (* the first row of the plot and the number of its rows *)
  Fixpoint pick (ident : lstr) (rows : list amrow) (first : option amrow) (cnt : Z) : option amrow * Z :=
    match rows with
    | [] => (first, cnt)
    | r :: rest => if leqb (am_id r) ident
                   then pick ident rest (match first with None => Some r | s => s end) (cnt + 1)
                   else pick ident rest first cnt
    end.

  Lemma pick_in ident rows : forall first cnt r c,
    pick ident rows first cnt = (Some r, c) -> first = Some r \/ In r rows.
  Proof.
    induction rows as [|x rest IH]; intros first cnt r c H; cbn [pick] in H.
    - inversion H. now left.
    - destruct (leqb (am_id x) ident).
      + destruct (IH _ _ _ _ H) as [E|E]; [|right; now right].
        destruct first; [now left|]. inversion E. right. now left.
      + destruct (IH _ _ _ _ H) as [E|E]; [now left|right; now right].
  Qed.

  Lemma first_map {A B} (g : A -> B) (first : option A) (r : A) :
    match option_map g first with None => Some (g r) | s => s end = option_map g (match first with None => Some r | s => s end).
  Proof. destruct first; reflexivity. Qed.

  Lemma txt_scan_pick ident : forall rows b first cnt, Forall wf_amrow rows ->
    txt_scan ident b (map am_tokens rows) (option_map am_tokens first) cnt =
    (option_map am_tokens (fst (pick ident rows first cnt)), snd (pick ident rows first cnt)).
  Proof.
    induction rows as [|r rest IH]; intros b first cnt W; [reflexivity|].
    inversion W as [|? ? Wr Wrest]; subst. destruct Wr as (Tok & _ & _).
    assert (Hlen : Nat.ltb 0 (List.length (am_tokens r)) = true) by reflexivity.
    assert (Hn0 : nth 0 (am_tokens r) [] = am_id r) by reflexivity.
    assert (Tid : tok_ok (am_id r)) by (unfold am_tokens in Tok; cbn [app] in Tok; now inversion Tok).
    cbn [map txt_scan pick]. rewrite Hlen, Hn0, (trim_tok _ Tid). cbn [andb].
    destruct (leqb (am_id r) ident).
    - destruct first as [f0|]; [apply (IH true (Some f0))|apply (IH true (Some r))]; exact Wrest.
    - destruct b; cbn [negb]; apply IH; exact Wrest.
  Qed.

  Lemma cells_no_comma r : wf_amrow r -> Forall no_comma (am_cells r).
  Proof.
    intros (_ & C & _). unfold am_cells. apply Forall_app. split; [exact C|].
    apply Forall_forall. intros x Hx. apply repeat_spec in Hx. subst. intros [].
  Qed.

  Lemma csv_scan_pick ident : forall rows first cnt, Forall wf_amrow rows ->
    csv_scan std_idx ident (map render_meas_csv_row rows) (option_map am_cells first) cnt =
    Ok (option_map am_cells (fst (pick ident rows first cnt)), snd (pick ident rows first cnt)).
  Proof.
    induction rows as [|r rest IH]; intros first cnt W; [reflexivity|].
    inversion W as [|? ? Wr Wrest]; subst.
    pose proof (cells_no_comma r Wr) as NC. destruct Wr as (Tok & _ & _).
    cbn [map csv_scan pick]. unfold render_meas_csv_row.
    assert (Sh : exists rest', am_cells r = am_id r :: am_date r :: rest').
    { unfold am_cells, am_tokens. cbn [app]. eauto. }
    destruct Sh as [rest' Sh].
    assert (Tid : tok_ok (am_id r)) by (unfold am_tokens in Tok; cbn [app] in Tok; now inversion Tok).
    rewrite split_intercalate; [|rewrite Sh; discriminate|exact NC].
    destruct (leqb (am_id r) ident) eqn:E.
    - assert (Eid : am_id r = ident) by (unfold leqb in E; destruct (list_eq_dec ascii_dec (am_id r) ident); [assumption|discriminate]).
      subst ident. rewrite Sh at 1. cbn [intercalate]. rewrite has_prefix_app. cbn [negb].
      rewrite Sh at 1. cbn [nth_error xi std_idx]. rewrite (trim_tok _ Tid), E.
      destruct first as [f0|]; [apply (IH (Some f0))|apply (IH (Some r))]; exact Wrest.
    - destruct (has_prefix ident (intercalate [","%char] (am_cells r))); cbn [negb]; [|apply IH; exact Wrest].
      rewrite Sh at 1. cbn [nth_error xi std_idx]. rewrite (trim_tok _ Tid), E. apply IH. exact Wrest.
  Qed.

  Theorem measurement_agree_lemma : forall cent f n W WMIN old ident rows, Forall wf_amrow rows ->
    read_meas_txt (T:=T) cent f n W WMIN old ident (render_meas_txt rows) =
    read_meas_csv cent f n W WMIN old ident (render_meas_csv rows).
  Proof.
    intros cent f n W WMIN old ident rows Wf.
    unfold read_meas_txt, read_meas_csv, render_meas_txt, render_meas_csv.
    rewrite meas_header_idx, map_map.
    replace (map (fun x => fields (render_meas_txt_row x)) rows) with (map am_tokens rows).
    2:{ apply map_ext_in. intros r Hr. rewrite Forall_forall in Wf. destruct (Wf r Hr) as (Tok & _).
        unfold render_meas_txt_row. now rewrite fields_tokens. }
    pose proof (txt_scan_pick ident rows false None 0 Wf) as A. cbn [option_map] in A. rewrite A.
    pose proof (csv_scan_pick ident rows None 0 Wf) as B. cbn [option_map] in B. rewrite B. cbn [bind].
    destruct (pick ident rows None 0) as [[r|] c] eqn:P; cbn [fst snd option_map]; [|reflexivity].
    destruct (pick_in _ _ _ _ _ _ P) as [E|E]; [discriminate|].
    rewrite Forall_forall in Wf. rewrite (vals_agree r (Wf r E)). reflexivity.
  Qed.
End MeasAgree.

(* ---- a sample measurement set (non-vacuity) ---- *)
Lemma forallb_tok l : forallb tok_okb l = true -> Forall tok_ok l.
Proof. intros H. apply Forall_forall. intros t Ht. rewrite forallb_forall in H. apply tok_okb_ok, H, Ht. Qed.
Lemma forallb_nc l : forallb no_commab l = true -> Forall no_comma l.
Proof. intros H. apply Forall_forall. intros t Ht. rewrite forallb_forall in H. apply no_commab_ok, H, Ht. Qed.

Definition sample_meas : list amrow :=
  [ {| am_id := lstr_of "OTHER"; am_date := lstr_of "01101980"; am_k := map lstr_of ["5"; "4"; "3"]%string; am_mode := lstr_of "1";
       am_w := map lstr_of ["0.7"; "0.6"; "0.6"]%string |};
    {| am_id := lstr_of "ALLE"; am_date := lstr_of "01101980"; am_k := map lstr_of ["0010"; "0008"; "0005"; "4"; "3"; "7.5"]%string;
       am_mode := lstr_of "1"; am_w := map lstr_of ["0.700"; "0.660"; "0.666"; "0.8"; "0.8"; "0.2"]%string |} ].

Lemma sample_meas_reads :
  Forall wf_amrow sample_meas /\
  exists m, read_meas_csv (T:=PrimFloat.float) 60 DElong 17 (repeat PrimFloat.one 21) (repeat PrimFloat.zero 21) []
              (lstr_of "ALLE") (render_meas_csv sample_meas) = Ok (Some m) /\
            mi_nmess m = 1 /\ List.length (mi_cn1 m) = 17%nat /\ nth 16 (mi_cn1 m) PrimFloat.zero = PrimFloat.div 7.5%float 5%float.
Proof.
  split.
  - unfold sample_meas. apply Forall_cons; [|apply Forall_cons; [|apply Forall_nil]].
    + split; [apply forallb_tok; vm_compute; reflexivity|]. split; [apply forallb_nc; vm_compute; reflexivity|].
      right. do 6 eexists. split; reflexivity.
    + split; [apply forallb_tok; vm_compute; reflexivity|]. split; [apply forallb_nc; vm_compute; reflexivity|].
      left. do 12 eexists. split; [reflexivity|]. split; [reflexivity|].
      repeat split; unfold is_dec; vm_compute; discriminate.
  - eexists. split; [vm_compute; reflexivity|]. repeat split; vm_compute; reflexivity.
Qed.
