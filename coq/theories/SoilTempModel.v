(* SoilTempModel.v — executable model of hermes.Soiltemp (hermes/soiltemp.go:8-69) and of the initial
   profile of hermes.Init (hermes/init.go:16-20), written once over [Num]: run on binary64 for the
   bit-exact correspondence (C19Corr), read over R by the theorems (SoilTempProofs).  No proofs here.

   Arrays are lists of exactly the used length (N = g.N >= 1 soil layers):
     TSOIL[0], TSOIL[1], TD : N+1 entries (index 0 = surface, index N = lower boundary);
     BD, WG[0], HUMUS, HEATCOND, HEATCAP : N entries;  TDSUM : the N-1 accumulated entries.
   math.Exp / math.Pow(x, 1.5) are ORACLES: their results enter as inputs ([d_elai], and per layer
   [pw], [ex]); the model also returns the arguments it would pass so that the correspondence can
   check that the harness evaluated the oracle at exactly these bits.  math.Pow(DZ, 2) is modelled as
   DZ*DZ (shown bit-exact by the correspondence run); math.Sqrt is the primitive square root.
   Operation order inside every expression follows the Go source. *)
From Coq Require Import ZArith List Bool.
From Hermes Require Import Num.
Import ListNotations.
Local Open Scope num_scope.

Section SoilTemp.
  Context {T : Type} {NT : Num T}.

  (* one soil layer as Soiltemp reads it: BD[i], WG[0][i], HUMUS[i], and the two oracle values
     pw = math.Pow(WG/BD, 1.5), ex = math.Exp(-50*pw) *)
  Record layer := { l_bd : T; l_wg : T; l_hum : T; l_pw : T; l_ex : T }.

  (* what Soiltemp reads besides TSOIL[0] *)
  Record day_in := {
    d_lai : T; d_rad : T; d_eta : T; d_temp : T; d_tmin : T; d_tmax : T;   (* LAI, RAD/TEMP/TMIN/TMAX[TAG], ETA *)
    d_tbase : T; d_dt : T; d_dz : T;                                        (* TBASE, DT.Num, DZ.Num *)
    d_elai : T;                                                             (* oracle: math.Exp(-LAI) *)
    d_layers : list layer;
  }.

  (* ---- soiltemp.go:27-36: net radiation reaching the soil ---- *)
  Definition radiat_of (d : day_in) : T :=
    if d_lai d <? ofZ 3 then
      let scov0 := one - d_elai d in
      let scov := if scov0 <? zero then zero else scov0 in
      d_rad d * ofZ 200 * (one - scov) - (d_eta d * ten * (dec 2498 3 - dec 242 5 * d_temp d) * ten)
    else zero.

  (* ---- soiltemp.go:38, 41-45: the surface value TSOIL[1][0]; [t00] = TSOIL[0][0] (yesterday's surface value) ---- *)
  Definition ALBEDO : T := dec 31 2.
  Definition surface (radiat tmin tmax t00 : T) : T :=
    if gtb radiat (ofZ 833) then
      ((one - ALBEDO) * (tmin + ((tmax - tmin) * sqrtv (dec 3 4 * radiat)))) + (ALBEDO * t00)
    else (tmin + tmax) / two.

  (* ---- soiltemp.go:47-48 ---- *)
  Definition pow_arg (l : layer) : T := l_wg l / l_bd l.
  Definition exp_arg (l : layer) : T := ofZ (-50) * l_pw l.
  Definition heatcond (dt : T) (l : layer) : T :=
    ((ofZ 3 * l_bd l - dec 17 1) * dec 1 3) / (one + (dec 115 1 - ofZ 5 * l_bd l) * l_ex l) * ofZ 86400 * dt * dec 4189 3.
  Definition heatcap (l : layer) : T :=
    (l_wg l * one * one + (one - l_bd l / dec 265 2 - l_wg l) * dec 13 4 * dec 23 2
     + l_hum l * dec 13 1 * dec 13 1 * dec 45 2
     + (l_bd l / dec 265 2 - l_hum l * dec 13 1) * dec 265 2 * dec 18 2) * dec 4189 3.
  (* soiltemp.go:53 *)
  Definition alpha_of (dt : T) (l : layer) : T := heatcond dt l / heatcap l.

  (* ---- soiltemp.go:54: one interior node, one hour ---- *)
  Definition upd_T (alpha dt dz2 prev cur nxt : T) : T :=
    cur + alpha * (nxt - two * cur + prev) * dt / ofZ 24 / dz2.

  (* soiltemp.go:52-56: i = 1..N-1; [l] = T0[i..N], [prev] = T0[i-1], [alphas] = alpha[i-1..] *)
  Fixpoint inner (alphas : list T) (dt dz2 prev : T) (l : list T) {struct l} : list T :=
    match l with
    | cur :: ((nxt :: _) as tl) =>
        match alphas with
        | a :: as' => upd_T a dt dz2 prev cur nxt :: inner as' dt dz2 cur tl
        | [] => []
        end
    | _ => []
    end.

  Fixpoint zipadd (a b : list T) : list T :=
    match a, b with
    | x :: a', y :: b' => (x + y) :: zipadd a' b'
    | _, _ => []
    end.

  (* soiltemp.go:51-61: one hour: state = (TSOIL[0][0..N], TDSUM[0..N-2]) *)
  Definition hour (alphas : list T) (dt dz2 surf tbase : T) (st : list T * list T) : list T * list T :=
    let '(t0, tdsum) := st in
    match t0 with
    | top :: rest =>
        let mid := inner alphas dt dz2 top rest in
        (surf :: mid ++ [tbase], zipadd tdsum mid)
    | [] => ([], [])      (* unreachable: TSOIL[0] has N+1 >= 1 entries *)
    end.

  Fixpoint hours (k : nat) (alphas : list T) (dt dz2 surf tbase : T) (st : list T * list T) : list T * list T :=
    match k with
    | O => st
    | S k' => hours k' alphas dt dz2 surf tbase (hour alphas dt dz2 surf tbase st)
    end.

  (* soiltemp.go:39: TSOIL[0][N] = TBASE *)
  Definition set_last (t0 : list T) (v : T) : list T := removelast t0 ++ [v].

  Record day_out := {
    o_surf : T;               (* TSOIL[1][0], the surface value imposed this day *)
    o_heatcond : list T; o_heatcap : list T;
    o_tdsum : list T;         (* TDSUM[0..N-2] *)
    o_td : list T;            (* TD[0..N] *)
    o_tsoil0 : list T;        (* TSOIL[0][0..N] after the call *)
    o_tsoil1 : list T;        (* TSOIL[1][0..N] after the call *)
    o_exp_lai_arg : T; o_pow_args : list T; o_exp_args : list T;
  }.

  Definition soiltemp_day (d : day_in) (tsoil0 : list T) : day_out :=
    let radiat := radiat_of d in
    let surf := surface radiat (d_tmin d) (d_tmax d) (hd zero tsoil0) in
    let alphas := map (alpha_of (d_dt d)) (d_layers d) in
    let dz2 := d_dz d * d_dz d in
    let n1 := pred (length (d_layers d)) in
    let '(tH, sums) := hours 24 alphas (d_dt d) dz2 surf (d_tbase d)
                             (set_last tsoil0 (d_tbase d), repeat zero n1) in
    let means := map (fun s => s / ofZ 24) sums in
    let td := surf :: means ++ [d_tbase d] in          (* soiltemp.go:57, 62-65 *)
    {| o_surf := surf;
       o_heatcond := map (heatcond (d_dt d)) (d_layers d); o_heatcap := map heatcap (d_layers d);
       o_tdsum := sums; o_td := td;
       o_tsoil0 := td;   (* soiltemp.go:59 (i = 0: TSOIL[0][0] = TSOIL[1][0] = TD[0]), 66-68 (TSOIL[0][i] = TD[i]) *)
       o_tsoil1 := tH;
       o_exp_lai_arg := - d_lai d; o_pow_args := map pow_arg (d_layers d); o_exp_args := map exp_arg (d_layers d) |}.

  (* a run: the temperature profile is carried from day to day (nothing else writes TSOIL);
     returns the final TSOIL[0] and the surface values imposed, oldest first *)
  Fixpoint run (days : list day_in) (tsoil0 : list T) : list T * list T :=
    match days with
    | [] => (tsoil0, [])
    | d :: rest =>
        let o := soiltemp_day d tsoil0 in
        let '(tf, ss) := run rest (o_tsoil0 o) in
        (tf, o_surf o :: ss)
    end.

  (* ---- config.go:120: the lower-boundary temperature TBASE is the configured AnnualAverageTemperature, a constant of
     the run (nothing else may assign it: not the crop, management or automatic-sowing tables) ---- *)
  Definition tbase_of_config (annual_average_temperature : T) : T := annual_average_temperature.

  (* ---- init.go:16-20: initial linear profile between the first day's air temperature and TBASE ---- *)
  Fixpoint init_from (t00 initp : T) (i : Z) (k : nat) : list T :=
    match k with
    | O => []
    | S k' => (t00 - initp * ofZ i) :: init_from t00 initp (i + 1) k'
    end.
  Definition init_profile (tmin tmax tbase : T) (n : nat) : list T :=
    let t00 := (tmin + tmax) / two in
    let initp := (t00 - tbase) / ofZ (Z.of_nat n) in
    t00 :: init_from t00 initp 1 n.

  (* ---- where BD comes from: the soil readers and Input ----
     soil.go:308-321 BulkDensityClassToDensity: KA5 bulk density class 1..5 -> mean density (g/cm3);
     any other class leaves BULK at its initial 0 *)
  Definition bd_of_class (c : Z) : option T :=
    if Z.eqb c 1 then Some (dec 11 1)
    else if Z.eqb c 2 then Some (dec 13 1)
    else if Z.eqb c 3 then Some (dec 15 1)
    else if Z.eqb c 4 then Some (dec 17 1)
    else if Z.eqb c 5 then Some (dec 185 2)
    else None.

  (* soil.go:244-250 (csv: a measured BulkDensity wins over the class), soil.go:137-140 (txt: class only) *)
  Definition horizon_bulk (c : Z) (measured : option T) : T :=
    match measured with
    | Some v => v
    | None => match bd_of_class c with Some v => v | None => zero end
    end.

  (* input.go:208, 277: the 10-cm layers UKT[h-1]+1 .. UKT[h] of horizon h get BD = BULK[h] — the density of
     the soil file as it is; the stone content scales W, WMIN, PORGES, WNOR only.
     a horizon = (UKT lower boundary in dm, class, measured density) *)
  Fixpoint layer_bd (prev : Z) (hs : list (Z * Z * option T)) : list T :=
    match hs with
    | [] => []
    | (ukt, c, m) :: r => repeat (horizon_bulk c m) (Z.to_nat (ukt - prev)) ++ layer_bd ukt r
    end.
End SoilTemp.

Arguments layer T : clear implicits.
Arguments day_in T : clear implicits.
Arguments day_out T : clear implicits.
