(* TextureModel.v — model of the soil-texture code path of a run (C11, error class "soil
   texture not in the parameter tables"):
     hermes/soil.go:796-809  VerifyAndCorrectTexture  (normalisation of the code read from
                              the txt columns 10-12 / the csv token)
     hermes/soil.go:813-852  LoadValidSoilTextures    (keys accepted by the validation)
     hermes/input.go:129-140 the validation in Input  (EXACT match of the 3-character code
                              against that list -> run error "soil texture ... not listed")
     hermes/input.go:1155-1215 Hydro                   (look-up of the same code in
                              PARCAP.TRU, pairs of lines, last horizon only, and in
                              HYPAR.TRU, every horizon, by exact match of upper(line[0:3]);
                              running off the end of a table is log.Fatal "ERROR: EOF", a
                              line shorter than 3 bytes is a slice-bounds panic: both end
                              the whole batch process)
   Texts are ASCII (checked by the generator of the table literals). *)
From Coq Require Import List Bool String Ascii Arith.
Import ListNotations.
Local Open Scope string_scope.

Definition is_upper (c : ascii) : bool := let n := nat_of_ascii c in Nat.leb 65 n && Nat.leb n 90.
Definition is_lower (c : ascii) : bool := let n := nat_of_ascii c in Nat.leb 97 n && Nat.leb n 122.
Definition is_digit (c : ascii) : bool := let n := nat_of_ascii c in Nat.leb 48 n && Nat.leb n 57.
Definition is_space (c : ascii) : bool :=
  let n := nat_of_ascii c in Nat.eqb n 32 || (Nat.leb 9 n && Nat.leb n 13).

Definition upper_ascii (c : ascii) : ascii :=
  if is_lower c then ascii_of_nat (nat_of_ascii c - 32) else c.

Fixpoint upper (s : string) : string :=
  match s with EmptyString => EmptyString | String c r => String (upper_ascii c) (upper r) end.

Fixpoint all_chars (p : ascii -> bool) (s : string) : bool :=
  match s with EmptyString => true | String c r => p c && all_chars p r end.

(* soil.go:796-809: None = run error "invalid texture" *)
Definition normalize (raw : string) : option string :=
  match String.length raw with
  | 0 => None
  | 1 => Some (upper (raw ++ "  "))
  | 2 => Some (upper (raw ++ " "))
  | 3 => Some (upper raw)
  | _ => None
  end.

(* soil.go:813-852 (dropHeader = false) *)
Fixpoint valid_textures_acc (lines : list string) (acc : list string) : list string :=
  match lines with
  | [] => acc
  | line :: r =>
      if Nat.ltb (String.length line) 3 then valid_textures_acc r acc else
      let t := substring 0 3 line in
      if all_chars is_space t then valid_textures_acc r acc else
      if negb (all_chars (fun c => is_upper c || is_lower c || is_digit c || is_space c) t)
      then valid_textures_acc r acc else
      let t := upper t in
      if existsb (String.eqb t) acc then valid_textures_acc r acc
      else valid_textures_acc r (acc ++ [t])
  end.
Definition valid_textures (parcap : list string) : list string := valid_textures_acc parcap [].

(* input.go:129-140: exact comparison *)
Definition validate (parcap : list string) (code : string) : bool :=
  existsb (String.eqb code) (valid_textures parcap).

(* input.go:1160-1190: PARA := LineInut; PARA2 := LineInut; texture := upper(PARA[0:3]).
   true = entry found; false = the process dies (EOF -> log.Fatal, short line -> panic) *)
Fixpoint parcap_lookup (lines : list string) (code : string) : bool :=
  match lines with
  | para :: _para2 :: r =>
      if Nat.ltb (String.length para) 3 then false
      else if String.eqb (upper (substring 0 3 para)) code then true
      else parcap_lookup r code
  | _ => false
  end.

(* input.go:1198-1202: for { wa := LineInut; texture := upper(wa[0:3]); if texture == BDART *)
Fixpoint hypar_lookup (lines : list string) (code : string) : bool :=
  match lines with
  | wa :: r =>
      if Nat.ltb (String.length wa) 3 then false
      else if String.eqb (upper (substring 0 3 wa)) code then true
      else hypar_lookup r code
  | [] => false
  end.

Definition lookup (parcap hypar : list string) (code : string) : bool :=
  parcap_lookup parcap code && hypar_lookup hypar code.

(* keys that parcap_lookup can find at all *)
Fixpoint pair_keys (lines : list string) : list string :=
  match lines with
  | para :: _para2 :: r =>
      if Nat.ltb (String.length para) 3 then [] else upper (substring 0 3 para) :: pair_keys r
  | _ => []
  end.

(* the condition on a pair of tables under which validation and look-up agree; it is
   evaluated (vm_compute) on the shipped tables, regenerated from /repo on every run *)
Definition tables_wf (parcap hypar : list string) : bool :=
  forallb (lookup parcap hypar) (valid_textures parcap) &&
  forallb (fun k => negb (lookup parcap hypar k) || validate parcap k) (pair_keys parcap).

(* a soil profile: the raw codes of its horizons, top to bottom.
   Input validates every horizon; Hydro looks every horizon up in HYPAR and the last one
   also in PARCAP (input.go:1159 `horizon == g.AZHO`). *)
Inductive outcome := Accepted | RunError | ProcessDies.

Fixpoint normalize_all (raws : list string) : option (list string) :=
  match raws with
  | [] => Some []
  | r :: t => match normalize r, normalize_all t with
              | Some c, Some cs => Some (c :: cs)
              | _, _ => None
              end
  end.

Definition profile_lookup (parcap hypar : list string) (codes : list string) : bool :=
  forallb (hypar_lookup hypar) codes &&
  match last (map Some codes) None with Some c => parcap_lookup parcap c | None => true end.

Definition profile_outcome (parcap hypar : list string) (raws : list string) : outcome :=
  match normalize_all raws with
  | None => RunError                                      (* "invalid texture" *)
  | Some codes =>
      if forallb (validate parcap) codes
      then (if profile_lookup parcap hypar codes then Accepted else ProcessDies)
      else RunError                                       (* "soil texture ... is not listed" *)
  end.
