(* Prop_C11.v — property C11 (runs are isolated, always terminate, failures are reported per
   run), stated about DispatchModel (hermes_main.go doConcurrentBatchRun /
   checkResultForError), LongdayModel (hermes/longday.go as it is now, and the day loop and
   sub-step loop of hermes/run.go).  Only statements, each closed by [exact lemma].

   PARTIAL: process-level effects (log.Fatal in library code paths outside the listed error
   classes, OS errors, goroutine scheduling) are runtime behaviour, exercised only. *)
From stdpp Require Import gmap.
From Hermes Require Import PoolModel PoolProofs DispatchModel DispatchProofs LongdayModel LongdayProofs TextureModel TextureProofs.

(* dispatcher: exactly-once, bounded concurrency, termination (same lemma as C03) *)
Theorem C11_dispatch_terminates :
  forall (path bytes L R : Type) `{Countable path} (disk : path -> bytes) (nilb : bytes)
         (run_prog : L -> @prog path bytes R) (err : R -> bool)
         (c : nat) (startLine numberOfLines : Z) (lines : list L) (pl0 : gmap path bytes),
  1 <= c -> pool_ok disk pl0 ->
  let b := select_lines startLine numberOfLines 0 lines in
  let s0 := init b pl0 in
  (forall i l, (i, l) ∈ b <->
     (0 <= i /\ startLine <= i /\ (0 < numberOfLines -> i < numberOfLines) /\
      lines !! Z.to_nat i = Some l)%Z) /\
  NoDup b.*1 /\
  (forall tr s, exec disk nilb run_prog err c s0 tr s ->
     length tr <= tot (cost disk run_prog) b /\ length (active s) <= c) /\
  (exists tr s, exec disk nilb run_prog err c s0 tr s /\ stuck disk nilb run_prog err c s) /\
  (forall tr s, exec disk nilb run_prog err c s0 tr s -> stuck disk nilb run_prog err c s ->
     starts tr = b.*1 /\
     length (finishes tr) = length b /\
     rl (results s) ≡ₚ b /\
     todo s = [] /\ active s = [] /\
     length tr = 2 * length b + tot (fun x => reads disk (run_prog x.2)) b).
Proof. exact @dispatch_exact_once_lemma. Qed.

(* the final error summary, as a multiset, is { logID i | run i returned an error }; with at
   least one executed line the printed number is its size and the printed lines are the
   header plus exactly these logIDs.  With no executed line (empty -lines window) nothing is
   printed and the number shown is -1 (numErr-1 on a nil summary, hermes_main.go:244-250):
   outside C11's quantifier, recorded here. *)
Theorem C11_summary_exact :
  forall (path bytes L R : Type) `{Countable path} (disk : path -> bytes) (nilb : bytes)
         (run_prog : L -> @prog path bytes R) (err : R -> bool)
         (c : nat) (b : list (Z * L)) (pl0 : gmap path bytes) tr s,
  1 <= c -> pool_ok disk pl0 ->
  exec disk nilb run_prog err c (init b pl0) tr s -> stuck disk nilb run_prog err c s ->
  let failed := List.filter (fun x => err (eval disk (run_prog x.2))) b in
  summary s ≡ₚ failed.*1 /\
  (b <> [] -> printed_count s = Z.of_nat (length failed) /\
              printed_lines s ≡ₚ None :: (Some <$> failed.*1)) /\
  (b = [] -> printed_count s = (-1)%Z /\ printed_lines s = []).
Proof. exact @summary_exact_lemma. Qed.

(* the result a line gets inside any batch, at any concurrency, under any schedule and cache
   state, is the result of running that line alone *)
Theorem C11_isolation :
  forall (path bytes L R : Type) `{Countable path} (disk : path -> bytes) (nilb : bytes)
         (run_prog : L -> @prog path bytes R) (err : R -> bool)
         (c c' : nat) (b : list (Z * L)) (pl pl' : gmap path bytes) tr s i l v tr' s',
  1 <= c -> 1 <= c' -> pool_ok disk pl -> pool_ok disk pl' ->
  exec disk nilb run_prog err c (init b pl) tr s -> stuck disk nilb run_prog err c s ->
  (i, l, v) ∈ results s ->
  exec disk nilb run_prog err c' (init [(0%Z, l)] pl') tr' s' -> stuck disk nilb run_prog err c' s' ->
  results s' = [(0%Z, l, v)].
Proof. exact @isolation_lemma. Qed.

(* the two day-length searches of the fertiliser prediction: for EVERY day-length oracle the
   model with fuel 366 per loop returns (never runs out), after at most 367 iterations in
   total; the result is (0,0,0) (-> run error, run.go:171-174) exactly when there is no
   first day d1 <= 366 longer than 14 h followed by a day d2 <= max 366 (d1+1) longer than
   16 h; otherwise TAG = d2 = total number of iterations *)
Theorem C11_longday_terminates : forall (l14 l16 : Z -> bool) (yoff : Z),
  exists tag p1 p2 n,
    langtag l14 l16 yoff 366 = Some (tag, p1, p2, n) /\ (2 <= n <= 367)%Z /\
    ((tag, p1, p2) = (0, 0, 0)%Z <-> ~ exists d1 d2, found l14 l16 d1 d2) /\
    (forall d1 d2, found l14 l16 d1 d2 ->
       tag = d2 /\ p1 = (yoff + (d1 + 20))%Z /\ p2 = (yoff + d2)%Z /\ n = d2).
Proof. exact longday_terminates_lemma. Qed.

(* day loop of run.go: exactly ENDE-BEGINN+1 iterations (time step 1, ENDE untouched by the
   body = no fertiliser prediction, no error), stops at the first failing day otherwise;
   at most E-BEGINN+1 for any step >= 1 when the body reassigns ENDE to values <= E *)
Theorem C11_day_loop_terminates : forall (body : Z -> Z -> bool * Z) (beginn ende : Z),
  (beginn <= ende)%Z ->
  ((forall z e, snd (body z e) = e) ->
   exists k e, day_loop body (Z.to_nat (ende - beginn + 1)) beginn ende 1 0 = Some (k, e) /\
     (e = false -> k = (ende - beginn + 1)%Z /\ forall z, (beginn <= z <= ende)%Z -> fst (body z ende) = false) /\
     (e = true -> (1 <= k <= ende - beginn + 1)%Z /\ fst (body (beginn + k - 1)%Z ende) = true /\
                  forall z, (beginn <= z < beginn + k - 1)%Z -> fst (body z ende) = false)) /\
  (forall dt E, (1 <= dt)%Z -> (ende <= E)%Z -> (forall z e, (snd (body z e) <= E)%Z) ->
     exists k e, day_loop body (Z.to_nat (E - beginn + 1)) beginn ende dt 0 = Some (k, e) /\
                 (0 <= k <= E - beginn + 1)%Z).
Proof. exact day_loop_terminates_lemma. Qed.

(* sub-step loop of run.go: int(STEPS) iterations, fewer only when a sub-step returns an error *)
Theorem C11_substep_loop_terminates : forall (body : Z -> bool) (steps : Z),
  exists k e, substep_loop body (Z.to_nat steps) 1 steps 0 = Some (k, e) /\
              (0 <= k <= Z.max 0 steps)%Z /\ (e = false -> k = Z.max 0 steps).
Proof. exact substep_loop_terminates_lemma. Qed.

(* error class "soil texture not in the parameter tables": for tables satisfying the computable
   condition tables_wf (proved for the shipped PARCAP.TRU / HYPAR.TRU by the generated theorem
   shipped_tables_wf, regenerated from /repo on every run) the validation in Input accepts a
   3-character code iff Hydro's look-up finds it in both tables ... *)
Theorem C11_texture_validation_iff_lookup : forall (parcap hypar : list String.string),
  tables_wf parcap hypar = true ->
  forall code, validate parcap code = true <-> lookup parcap hypar code = true.
Proof. exact texture_validation_iff_lookup_lemma. Qed.

(* ... hence for any spelling of the codes of a soil profile the texture path ends in a run
   error or in acceptance with every look-up successful, never in the death of the process *)
Theorem C11_texture_path_never_kills : forall (parcap hypar : list String.string),
  tables_wf parcap hypar = true ->
  forall raws, profile_outcome parcap hypar raws <> ProcessDies /\
    (profile_outcome parcap hypar raws = Accepted <->
     exists codes, normalize_all raws = Some codes /\
                   forall c, In c codes -> lookup parcap hypar c = true).
Proof. exact texture_path_never_kills_lemma. Qed.

(* non-vacuity: latitude-40-like oracle (no 16 h day) gives (0,0,0) after 367 iterations; a
   52.5-like oracle (14 h from day 100, 16 h from day 150) gives TAG 150 *)
Example C11_nonvacuous :
  langtag (fun d => (120 <=? d)%Z && (d <=? 220)%Z) (fun _ => false) (year_offset 81) 366
    = Some (0, 0, 0, 366)%Z /\
  langtag (fun _ => false) (fun _ => false) 0 366 = Some (0, 0, 0, 367)%Z /\
  langtag (fun d => (100 <=? d)%Z) (fun d => (150 <=? d)%Z) (year_offset 81) 366
    = Some (150, 29220 + 120, 29220 + 150, 150)%Z /\
  day_loop (fun _ e => (false, e)) 10 5 14 1 0 = Some (10, false)%Z.
Proof. vm_compute. repeat split. Qed.

Print Assumptions C11_dispatch_terminates.
Print Assumptions C11_summary_exact.
Print Assumptions C11_isolation.
Print Assumptions C11_longday_terminates.
Print Assumptions C11_day_loop_terminates.
Print Assumptions C11_substep_loop_terminates.
Print Assumptions C11_texture_validation_iff_lookup.
Print Assumptions C11_texture_path_never_kills.
