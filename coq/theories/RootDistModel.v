(* RootDistModel.v — executable model of the root distribution block of hermes.PhytoOut
   (hermes/crop.go:563-568 dead-root N, 579-651 root radius, fresh mass, root length density WUDICH,
   share of the roots per layer WUANT, distribution of the dead-root N over the organic pools), over [Num].
   Oracles: the exponentials exp(-Qrez*Tiefe) and exp(-Qrez*(Tiefe-DZ)) of every layer and float64(math.Pi).
   math.Pow(WRAD, 2) is the product WRAD*WRAD (bit-exact, checked by the correspondence).  No proofs. *)
From Coq Require Import ZArith List Bool.
From Hermes Require Import Num.
Import ListNotations.
Local Open Scope num_scope.

Section RootDist.
  Context {T : Type} {NT : Num T}.

  (* crop.go:563-568 — N of the roots that died today *)
  Definition dead_root_n (wumas wumalt wugeh : T) : T :=
    if wumas <? wumalt then (wumalt - wumas) * wugeh else zero.

  (* crop.go:583-593 — root radius of layer i (1-based); beet and potato have a constant radius *)
  Definition wrad (zrk : bool) (i : Z) : T :=
    if zrk then dec 1 2
    else let r := dec 20 3 - ofZ i * dec 1 3 in
         if r <=? zero then (dec 20 3 - ofZ 19 * dec 1 3) / ofZ 2 else r.

  (* crop.go:607 — root fresh mass down to the lower boundary of a layer; [e] = exp(-Qrez*Tiefe) *)
  Definition root_fresh (wumas e : T) : T := wumas * (one - e) / ofZ 100000 * ofZ 100 / ofZ 7.

  (* crop.go:608-614 — root length density and root share of one layer *)
  Definition root_dense (first : bool) (fresh fresh_prev r pi dz : T) : T :=
    (if first then absv fresh else absv (fresh - fresh_prev)) / (r * r * pi) / dz.
  Definition root_share (first : bool) (e_hi e_lo : T) : T :=
    if first then one - e_hi else (one - e_hi) - (one - e_lo).

  (* the layer loop 604-626: [es] = per layer (exp(-Qrez*Tiefe), exp(-Qrez*(Tiefe-DZ))); result per layer (WUDICH, WUANT) *)
  Fixpoint root_loop (zrk : bool) (wumas pi dz : T) (i : Z) (first : bool) (prev : T) (es : list (T * T)) : list (T * T) :=
    match es with
    | [] => []
    | (e_hi, e_lo) :: r =>
        let fresh := root_fresh wumas e_hi in
        (root_dense first fresh prev (wrad zrk i) pi dz, root_share first e_hi e_lo)
        :: root_loop zrk wumas pi dz (i + 1)%Z false fresh r
    end.
  Definition root_dist (zrk : bool) (wumas pi dz : T) (es : list (T * T)) : list (T * T) :=
    root_loop zrk wumas pi dz 1%Z true zero es.

  (* crop.go:628-632 — root length (cm/cm2) *)
  Definition root_length (dz : T) (dens : list T) : T := fold_left (fun a d => a + d * dz) dens zero.

  (* crop.go:633-636 — the dead-root N goes to the fast and the slow pool of every rooted layer by root share *)
  Definition dead_root_to_pool (wumm share pool : T) : T := pool + dec 5 1 * wumm * share.
  (* ------------------------------------------------------------------ *)
  (* what the organic pools receive from the crop on an ordinary growth day (crop.go:492-497 dead leaves and stems of the organs
     2 and 3 to the top layer, 80 % fast / 20 % slow of 70 % of their N; crop.go:657-661 dead roots by root share) *)
  Definition leaf_to_pools (dgorgs : list T) (gehalt dt nfos0 naos0 : T) : T * T :=
    fold_left (fun fa d => (fst fa + dec 56 2 * d * gehalt * dt, snd fa + dec 14 2 * d * gehalt * dt)) dgorgs (nfos0, naos0).

  Fixpoint roots_to_pool (wumm : T) (shares pool : list T) : list T :=
    match shares, pool with
    | s :: sr, p :: pr => dead_root_to_pool wumm s p :: roots_to_pool wumm sr pr
    | _, _ => pool
    end.

  Definition pools_after (dgorgs : list T) (gehalt dt wumm : T) (shares nfos naos : list T) : list T * list T :=
    match nfos, naos with
    | f0 :: fr, a0 :: ar =>
        let '(f0', a0') := leaf_to_pools dgorgs gehalt dt f0 a0 in
        (roots_to_pool wumm shares (f0' :: fr), roots_to_pool wumm shares (a0' :: ar))
    | _, _ => (nfos, naos)
    end.
End RootDist.
