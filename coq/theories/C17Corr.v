(* C17Corr.v — decoding of harness observations and mismatch functions for the C17 correspondence:
   BatchModel is run on the inputs the real calcHermesBatch / hermes2go binaries were run on and
   compared with what they printed. *)
From Coq Require Import ZArith List Bool Uint63.
From Hermes Require Import Util BatchModel.
Import ListNotations.
Open Scope Z_scope.

Definition sh20 : Z := 1048576.

Definition pair_eqb (p q : Z * Z) : bool := (fst p =? fst q) && (snd p =? snd q).
Fixpoint list_eqb {A} (eqb : A -> A -> bool) (x y : list A) : bool :=
  match x, y with
  | [], [] => true
  | a :: x', b :: y' => eqb a b && list_eqb eqb x' y'
  | _, _ => false
  end.

(* observed -list output, contiguous from line 1: runs of (width, how many) packed width*2^20+n *)
Fixpoint expand_run (s w : Z) (n : nat) : list (Z * Z) * Z :=
  match n with
  | O => ([], s)
  | S k => let '(r, e) := expand_run (s + w) w k in ((s + 1, s + w) :: r, e)
  end.
Fixpoint decode_runs (s : Z) (runs : list int) : list (Z * Z) :=
  match runs with
  | [] => []
  | r :: rest =>
      let z := Uint63.to_Z r in
      let '(l, e) := expand_run s (z / sh20) (Z.to_nat (z mod sh20)) in
      l ++ decode_runs e rest
  end.

(* partition case: (L*2^20+K, printed -size, runs of the printed -list) *)
Definition part_case_ok (c : int * int * list int) : bool :=
  let '(lk, size, runs) := c in
  let L := Uint63.to_Z lk / sh20 in let K := Uint63.to_Z lk mod sh20 in
  (jobsize L K =? Uint63.to_Z size) && list_eqb pair_eqb (partition L K) (decode_runs 0 runs).

Fixpoint mismatches {A} (ok : A -> bool) (i : Z) (l : list A) : list Z :=
  match l with
  | [] => []
  | c :: r => if ok c then mismatches ok (i + 1) r else i :: mismatches ok (i + 1) r
  end.

(* file as runs byte + 256*repeat *)
Fixpoint decode_rle (runs : list int) : list Z :=
  match runs with
  | [] => []
  | r :: rest => let z := Uint63.to_Z r in repeat (z mod 256) (Z.to_nat (z / 256)) ++ decode_rle rest
  end.

(* count case: (file, count printed by the real calculator, non-empty lines bufio.Scanner returned or
   2^62-1 when the scanner rejected the file (token too long)) ; buffer size of the tool = 32*1024 *)
Definition no_scan : Z := 4611686018427387903.
Definition count_case_ok (c : list int * int * int) : bool :=
  let '(rle, cnt, scn) := c in
  let file := decode_rle rle in
  match count_lines (chunks_of (Z.to_nat 32768) file) with
  | Some n => n =? Uint63.to_Z cnt
  | None => false
  end &&
  ((Uint63.to_Z scn =? no_scan) || (len (nonempty_lines file) =? Uint63.to_Z scn)).

(* dispatch case: one start of the real simulator on a batch file with n non-empty lines.
   header = n*2^40 + a*2^20 + b; form: 0 "-lines a-b", 1 "-lines a-end", 2 "-lines b" (first b lines);
   order: the options in the order they stood on the command line (0 -batch, 1 -lines, 2 -concurrent,
   3 -logoutput, 4 -module batch, 5 -workingdir);
   observed: log id * 2^20 + index of the non-empty line whose text it executed (2^20-1: none of them) *)
Definition opt_of (n a b form code : Z) : opt Z :=
  match code with
  | 0 => OBatch 0 (Util.zrange 0 (Z.to_nat n))
  | 1 => match form with 0 => OLinesRange a b | 1 => OLinesFrom a | _ => OLinesFirst b end
  | 2 => OConcurrent 2
  | 3 => OLogoutput
  | 4 => OModule 1
  | _ => OWorkingdir 0
  end.

Definition disp_case_ok (c : int * int * list int * list int) : bool :=
  let '(h, form, order, obs) := c in
  let z := Uint63.to_Z h in
  let n := z / (sh20 * sh20) in let a := (z / sh20) mod sh20 in let b := z mod sh20 in
  match cmd_executed (map (fun code => opt_of n a b (Uint63.to_Z form) (Uint63.to_Z code)) order) with
  | Some l => list_eqb Z.eqb (map (fun p : Z * Z => fst p * sh20 + snd p) l) (map Uint63.to_Z obs)
  | None => false
  end.
