(* DayWaterCorr.v — whole-day tie: runs DayWaterModel.day_water at binary64 on the state a real run
   had at the "evatra-pre" probe of a day and compares, bit for bit, what the real run had at the
   "steps" probe, after every Water call and at the "dayend" probe (DESIGN.md §2.3, tie 2). *)
From Coq Require Import ZArith List Bool Floats.
From Hermes Require Import Num WaterModel EvatraModel DayWaterModel C01Corr.
Import ListNotations.

Record day_obs := {
  db_regen : float;                       (* REGEN[TAG] at "dayend" *)
  db_fluss0 : float; db_eta : float; db_gwauf : float; db_nfk : list float;   (* at "dayend" *)
  db_steps : Z; db_wdt : float;           (* "steps" probe *)
  db_wg1 : list float;                    (* WG[1][0..N] at "dayend" *)
  db_subs : list (list float * float);    (* after every Water call: (Q1[1..N], QDRAIN) *)
  db_cnt : list float;                    (* the 12 cumulative counters at "dayend" *)
  db_tp : list float; db_ev : list float; (* TP[0..N-1], EV[0..N] at "dayend" *)
}.

Fixpoint subs_same (outs : list (water_out (T:=float))) (obs : list (list float * float)) : bool :=
  match outs, obs with
  | [], [] => true
  | o :: r, (q, qd) :: r' => floats_same (tl (wo_q1 o)) q && float_same (wo_qdrain o) qd && subs_same r r'
  | _, _ => false
  end.

(* bitmask of the output groups that differ:
   1 REGEN', 2 Evatra (FLUSS0/ETA/GWAUF/NFK), 4 STEPS/WDT, 8 WG1, 16 sub-steps (count, Q1[1..N], QDRAIN),
   32 counters, 64 TP/EV at the end of the day *)
Definition day_check (c : day_in (T:=float) * day_obs) : nat :=
  let '(x, o) := c in
  let m := day_water x in
  let e := do_ev m in
  let outs := do_outs m in
  let '(tp, ev) := match rev outs with
                   | [] => (eo_tp e, eo_ev e ++ [di_ev_last x])
                   | l :: _ => (wo_tp l, wo_ev l)
                   end in
  let b (ok : bool) (v : nat) := if ok then 0%nat else v in
  (b (float_same (do_regen m) (db_regen o)) 1 +
   b (float_same (eo_fluss0 e) (db_fluss0 o) && float_same (eo_eta e) (db_eta o) &&
      float_same (eo_gwauf e) (db_gwauf o) && floats_same (eo_nfk e) (db_nfk o)) 2 +
   b (Z.eqb (do_steps m) (db_steps o) && float_same (do_wdt m) (db_wdt o)) 4 +
   b (floats_same (do_wg1 m) (db_wg1 o)) 8 +
   b (subs_same outs (db_subs o)) 16 +
   b (floats_same (cnt_to_list (do_cnt m)) (db_cnt o)) 32 +
   b (floats_same tp (db_tp o) && floats_same ev (db_ev o)) 64)%nat.
