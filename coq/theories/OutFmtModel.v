(* OutFmtModel.v — hermes/output_fmt.go beyond "one field per column" (CtrlModel.bind / fields /
   write_line): the format string of a column (one fmt directive: flags, width, precision, verb),
   which verbs fmt accepts for the dynamic type WriteLine passes (anything else is rendered as
   "%!verb(type=value)"), the header lines of WriteHeader in both styles (number of fields of a CSV
   header line; cursor positions of the cells of a fixed-width header line), and the width a
   fixed-width record line has.  The configurations themselves (built-in defaults and every shipped
   *out_conf.yml) are regenerated from the current source by harness command c05fmt into
   gen/OutFmtConfigs.v, where the obligations below are re-proved for each of them. *)
From Coq Require Import ZArith List Bool Ascii String Lia.
From Hermes Require Import DateModel CtrlModel.
Import ListNotations.
Open Scope Z_scope.

(* ------------------------------------------------------------------ *)
(* format strings                                                       *)

Record fspec := mkf { f_plus : bool; f_zero : bool; f_minus : bool; f_width : option Z; f_prec : option Z; f_verb : ascii }.

Definition is_dig (c : ascii) : bool := match digit_val c with Some _ => true | None => false end.

Fixpoint take_flags (s : lstr) (p z m : bool) : bool * bool * bool * lstr :=
  match s with
  | c :: r => if Ascii.eqb c "+"%char then take_flags r true z m
              else if Ascii.eqb c "0"%char then take_flags r p true m
              else if Ascii.eqb c "-"%char then take_flags r p z true
              else if Ascii.eqb c " "%char then take_flags r p z m
              else (p, z, m, s)
  | [] => (p, z, m, [])
  end.

Fixpoint take_num (s : lstr) (acc : option Z) : option Z * lstr :=
  match s with
  | c :: r => match digit_val c with
              | Some d => take_num r (Some (match acc with Some a => a * 10 + d | None => d end))
              | None => (acc, s)
              end
  | [] => (acc, [])
  end.

(* exactly one directive and nothing else: %[flags][width][.prec]verb ("%04.f": precision 0) *)
Definition parse_fmt (s : lstr) : option fspec :=
  match s with
  | c :: r =>
      if negb (Ascii.eqb c "%"%char) then None else
      let '(p, z, m, r1) := take_flags r false false false in
      let '(w, r2) := take_num r1 None in
      let '(pr, r3) := match r2 with
                       | d :: r' => if Ascii.eqb d "."%char
                                    then let '(n, r'') := take_num r' None in (Some (match n with Some v => v | None => 0 end), r'')
                                    else (None, r2)
                       | [] => (None, [])
                       end in
      match r3 with
      | [v] => Some (mkf p z m w pr v)
      | _ => None
      end
  | [] => None
  end.

Definition in_str (c : ascii) (s : string) : bool := existsb (Ascii.eqb c) (lstr_of s).

(* fmt: verbs that print the operand itself for float64 / int / string operands *)
Definition verb_ok (r : vref) (v : ascii) : bool :=
  match r with
  | RFloat | RSliceFloat => in_str v "eEfFgGvxXb"
  | RInt => in_str v "dvxXbocqU"
  | RString | RNa => in_str v "svxXq"
  | ROther => false
  end.

Record column := mkcol { c_ref : vref; c_fmt : string; c_width : Z }.

Definition col_ok (c : column) : bool :=
  supported (c_ref c) && (0 <=? c_width c) &&
  match parse_fmt (lstr_of (c_fmt c)) with Some f => verb_ok (c_ref c) (f_verb f) | None => false end.

(* ------------------------------------------------------------------ *)
(* header lines                                                         *)

Record hcell := mkhc { h_len : Z (* runes of the text *); h_align : Z (* 0 left 1 right 2 centre 3 none *); h_start : Z; h_end : Z }.

(* CSV style (WriteHeader:62-80): the texts joined by the separator, then one more separator per
   data column the line has no cell for *)
Definition csv_header_fields (ncells ncols : Z) : Z :=
  if ncells =? 0 then 1 else ncells + (if ncells <? ncols then ncols - ncells else 0).

(* fixed-width style: arrStartIndex[i] = sum of (Width + 1) of the first i data columns *)
Fixpoint arr (widths : list Z) (i : nat) : Z :=
  match i, widths with
  | S k, w :: r => w + 1 + arr r k
  | _, _ => 0
  end.

(* cursor after one cell; returns (cursor at which the text starts, cursor after the cell) *)
Definition hcell_step (widths : list Z) (cur : Z) (c : hcell) : Z * Z :=
  let a := arr widths (Z.to_nat (h_start c - 1)) in
  let e := arr widths (Z.to_nat (h_end c)) in
  let cur := Z.max cur (a - 1) in
  let cur := Z.max cur a in
  let R := e - a - 1 in
  let L := h_len c in
  let written :=
    if h_align c =? 0 then Z.min L (Z.max R 0)
    else if h_align c =? 1 then (if 0 <? R - L then R else Z.min L (Z.max R 0))
    else let fill := Z.max (Z.quot (R - L) 2) 0 in fill + Z.min L (Z.max (R - fill) 0) in
  (cur, cur + written).

Fixpoint hline (widths : list Z) (cur last : Z) (cells : list hcell) (starts : list Z) : Z * list Z :=
  match cells with
  | [] => (Z.max cur last, rev starts)
  | c :: r => let '(s, cur') := hcell_step widths cur c in
              hline widths cur' (arr widths (Z.to_nat (h_end c))) r (s :: starts)
  end.

(* (length of the header line, position at which each cell's text area starts) *)
Definition hermes_header (widths : list Z) (cells : list hcell) : Z * list Z := hline widths 0 0 cells [].

(* well-formed cells: 1 <= start <= end <= number of columns, each cell after the previous one *)
Fixpoint hcells_ok (ncols : Z) (prev_end : Z) (cells : list hcell) : bool :=
  match cells with
  | [] => true
  | c :: r => (prev_end <? h_start c) && (h_start c <=? h_end c) && (h_end c <=? ncols) && (0 <=? h_len c)
              && hcells_ok ncols (h_end c) r
  end.

(* a fixed-width record line whose fields all fit their column: sum of (Width + 1) *)
Definition record_width (widths : list Z) : Z := arr widths (List.length widths).

(* ------------------------------------------------------------------ *)
(* one configuration as the translator emits it                         *)

Record oconfig := mkoc {
  o_cols : list (option gotype * nat * nat * nat * string * Z);   (* type, sub, idx1, idx2, format, width *)
  o_heads : list (list hcell);
  o_head_texts_sepfree : bool }.

Definition col_of (c : option gotype * nat * nat * nat * string * Z) : column :=
  let '(t, sub, i1, i2, f, w) := c in mkcol (bind t sub i1 i2) f w.

Definition oconfig_ok (o : oconfig) : bool :=
  let cols := map col_of (o_cols o) in
  let n := Z.of_nat (List.length cols) in
  forallb col_ok cols
  && forallb (fun cells => (1 <=? Z.of_nat (List.length cells)) && (Z.of_nat (List.length cells) <=? n) && hcells_ok n 0 cells) (o_heads o)
  && o_head_texts_sepfree o.

(* ------------------------------------------------------------------ *)
(* result files across runs (path.go DefaultFoutGenerator, session.OpenResultFile(path, false)):
   the V / Y / C files are opened with O_CREATE|O_TRUNC|O_WRONLY — whatever an earlier run into the
   same result folder left in the file is discarded, then the header lines and records of this run
   are written.  A file = the list of its lines. *)
Definition open_result {A : Type} (append : bool) (old : list A) : list A := if append then old else [].
Definition write_run {A : Type} (old lines : list A) : list A := open_result false old ++ lines.
Fixpoint after_runs {A : Type} (file : list A) (runs : list (list A)) : list A :=
  match runs with [] => file | r :: rest => after_runs (write_run file r) rest end.

(* what a writer WITHOUT truncation leaves (O_CREATE|O_WRONLY, writing from offset 0), at the
   granularity of equally long lines: the new lines, then the old tail *)
Definition write_run_keep {A : Type} (old lines : list A) : list A := lines ++ skipn (List.length lines) old.

(* ------------------------------------------------------------------ *)
(* CSV style, text columns: writeCSVString writes the rendered fields joined by the separator, text
   is NOT quoted.  A consumer splits the line at the separator. *)
Fixpoint csv_join (sep : ascii) (fields : list lstr) : lstr :=
  match fields with
  | [] => []
  | [f] => f
  | f :: r => f ++ sep :: csv_join sep r
  end.

Fixpoint count_char (c : ascii) (s : lstr) : nat :=
  match s with [] => O | x :: r => (if Ascii.eqb x c then 1 else 0) + count_char c r end.

(* number of fields a reader gets from a line *)
Definition split_count (sep : ascii) (line : lstr) : nat := S (count_char sep line).

(* characters a text value must not contain to stay ONE field of ONE record in either CSV dialect *)
Definition sep_char (c : ascii) : bool :=
  Ascii.eqb c ","%char || Ascii.eqb c ";"%char || Ascii.eqb c (ascii_of_nat 10) || Ascii.eqb c (ascii_of_nat 13).
Definition sepfree_text (s : string) : bool := forallb (fun c => negb (sep_char c)) (lstr_of s).
