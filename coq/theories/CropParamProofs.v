(* CropParamProofs.v — lemmas about CropParamModel: list toolkit (tab / mapi / nth_error) and
   loader agreement classic reader = YAML reader o converter. *)
From Coq Require Import ZArith List Bool Ascii String Lia.
From Hermes Require Import Num DateModel CropParamModel.
Import ListNotations.
Local Open Scope Z_scope.

(* ------------------------------------------------------------------ *)
(* lists *)
Lemma nth_error_ext {A} (l1 l2 : list A) :
  (forall i, nth_error l1 i = nth_error l2 i) -> l1 = l2.
Proof.
  revert l2; induction l1 as [|x l1 IH]; intros [|y l2] H.
  - reflexivity.
  - specialize (H O); discriminate.
  - specialize (H O); discriminate.
  - pose proof (H O) as H0; cbn in H0; inversion H0; subst. f_equal.
    apply IH. intros i. exact (H (S i)).
Qed.

Lemma nth_error_firstn {A} n : forall (l : list A) i,
  nth_error (firstn n l) i = if Nat.ltb i n then nth_error l i else None.
Proof.
  induction n as [|n IH]; intros l i; cbn [firstn].
  - destruct i; reflexivity.
  - destruct l as [|x l]; [destruct i; cbn [nth_error]; [reflexivity|]; destruct (Nat.ltb (S i) (S n)); reflexivity|].
    destruct i as [|i]; cbn [nth_error]; [reflexivity|]. rewrite IH.
    change (Nat.ltb (S i) (S n)) with (Nat.ltb i n). reflexivity.
Qed.

Lemma tab_length {A} n (f : nat -> A) : List.length (tab n f) = n.
Proof. unfold tab. now rewrite map_length, seq_length. Qed.

Lemma nth_error_map_seq {A} (f : nat -> A) k n i :
  nth_error (map f (seq k n)) i = if Nat.ltb i n then Some (f (k + i)%nat) else None.
Proof.
  revert k i; induction n as [|n IH]; intros k i; cbn [seq map].
  - destruct i; reflexivity.
  - destruct i as [|i]; cbn [nth_error].
    + now rewrite Nat.add_0_r.
    + rewrite IH. replace (S k + i)%nat with (k + S i)%nat by lia.
      change (Nat.ltb (S i) (S n)) with (Nat.ltb i n). reflexivity.
Qed.

Lemma nth_error_tab {A} n (f : nat -> A) i :
  nth_error (tab n f) i = if Nat.ltb i n then Some (f i) else None.
Proof. unfold tab. now rewrite nth_error_map_seq. Qed.

Lemma tab_ext {A} n (f g : nat -> A) : (forall i, (i < n)%nat -> f i = g i) -> tab n f = tab n g.
Proof.
  intros H. apply nth_error_ext. intros i. rewrite !nth_error_tab.
  destruct (Nat.ltb i n) eqn:E; [|reflexivity]. apply Nat.ltb_lt in E. now rewrite H.
Qed.

Lemma nth_error_mapi_aux {A B} (f : nat -> A -> B) k l i :
  nth_error (mapi_aux f k l) i = option_map (f (k + i)%nat) (nth_error l i).
Proof.
  revert k i; induction l as [|x l IH]; intros k i; cbn [mapi_aux].
  - destruct i; reflexivity.
  - destruct i as [|i]; cbn [nth_error option_map].
    + now rewrite Nat.add_0_r.
    + rewrite IH. now replace (S k + i)%nat with (k + S i)%nat by lia.
Qed.

Lemma nth_error_mapi {A B} (f : nat -> A -> B) l i :
  nth_error (mapi f l) i = option_map (f i) (nth_error l i).
Proof. unfold mapi. now rewrite nth_error_mapi_aux. Qed.

Lemma mapi_length {A B} (f : nat -> A -> B) l : List.length (mapi f l) = List.length l.
Proof.
  unfold mapi. generalize O. induction l as [|x l IH]; intros k; cbn; [reflexivity | now rewrite IH].
Qed.

Lemma mapi_tab {A B} (g : nat -> A -> B) n (f : nat -> A) : mapi g (tab n f) = tab n (fun i => g i (f i)).
Proof.
  apply nth_error_ext. intros i. rewrite nth_error_mapi, !nth_error_tab.
  destruct (Nat.ltb i n); reflexivity.
Qed.

Lemma firstn_mapi {A B} (f : nat -> A -> B) n l : firstn n (mapi f l) = mapi f (firstn n l).
Proof.
  apply nth_error_ext. intros i. rewrite nth_error_mapi.
  destruct (Nat.ltb i n) eqn:E.
  - apply Nat.ltb_lt in E. rewrite !nth_error_firstn.
    destruct (Nat.ltb i n) eqn:E'; [|apply Nat.ltb_ge in E'; lia]. now rewrite nth_error_mapi.
  - apply Nat.ltb_ge in E. rewrite !nth_error_firstn.
    destruct (Nat.ltb i n) eqn:E'; [apply Nat.ltb_lt in E'; lia|]. reflexivity.
Qed.

Lemma map_mapi {A B C} (h : B -> C) (f : nat -> A -> B) l : map h (mapi f l) = mapi (fun i x => h (f i x)) l.
Proof.
  apply nth_error_ext. intros i. rewrite nth_error_map, !nth_error_mapi.
  destruct (nth_error l i); reflexivity.
Qed.

Lemma mapi_ext {A B} (f g : nat -> A -> B) l :
  (forall i x, nth_error l i = Some x -> f i x = g i x) -> mapi f l = mapi g l.
Proof.
  intros H. apply nth_error_ext. intros i. rewrite !nth_error_mapi.
  destruct (nth_error l i) eqn:E; cbn; [|reflexivity]. now rewrite (H i a E).
Qed.

Lemma mapi_id {A} (f : nat -> A -> A) l :
  (forall i x, nth_error l i = Some x -> f i x = x) -> mapi f l = l.
Proof.
  intros H. apply nth_error_ext. intros i. rewrite nth_error_mapi.
  destruct (nth_error l i) eqn:E; cbn; [|reflexivity]. now rewrite (H i a E).
Qed.

Lemma firstn_tab {A} m n (f : nat -> A) : (m <= n)%nat -> firstn m (tab n f) = tab m f.
Proof.
  intros H. apply nth_error_ext. intros i. rewrite nth_error_firstn, !nth_error_tab.
  destruct (Nat.ltb i m) eqn:E; [|reflexivity].
  apply Nat.ltb_lt in E. destruct (Nat.ltb i n) eqn:E'; [reflexivity|apply Nat.ltb_ge in E'; lia].
Qed.

Section Agree.
  Context {T : Type} {NT : Num T}.

  Lemma crop_state_ext (a b : crop_state T) :
    MAXAMAX a = MAXAMAX b ->
    temptyp a = temptyp b ->
    MINTMP a = MINTMP b ->
    WUMAXPF a = WUMAXPF b ->
    VELOC a = VELOC b ->
    NGEFKT a = NGEFKT b ->
    RGA a = RGA b ->
    RGB a = RGB b ->
    SubOrgan a = SubOrgan b ->
    AGO a = AGO b ->
    YORGAN a = YORGAN b ->
    YIFAK a = YIFAK b ->
    NRKOM a = NRKOM b ->
    DAUERKULT a = DAUERKULT b ->
    LEGUM a = LEGUM b ->
    STAGEDAYS a = STAGEDAYS b ->
    PHYLLO a = PHYLLO b ->
    VERNTAGE a = VERNTAGE b ->
    SUM a = SUM b ->
    DEV a = DEV b ->
    PRO a = PRO b ->
    DEAD a = DEAD b ->
    TROOTSUM a = TROOTSUM b ->
    GEHOB a = GEHOB b ->
    WUGEH a = WUGEH b ->
    WORG a = WORG b ->
    MAIRT a = MAIRT b ->
    WDORG a = WDORG b ->
    kcini a = kcini b ->
    NRENTW a = NRENTW b ->
    tendsum a = tendsum b ->
    useBBCH a = useBBCH b ->
    ENDBBCH a = ENDBBCH b ->
    TSUM a = TSUM b ->
    BAS a = BAS b ->
    VSCHWELL a = VSCHWELL b ->
    DAYL a = DAYL b ->
    DLBAS a = DLBAS b ->
    DRYSWELL a = DRYSWELL b ->
    LUKRIT a = LUKRIT b ->
    LAIFKT a = LAIFKT b ->
    WGMAX a = WGMAX b ->
    kc a = kc b ->
    a = b.
  Proof. destruct a, b; cbn; intros; subst; reflexivity. Qed.

  Lemma tab_stage_entry {A} (sts : list (stage_rec T)) (f : stage_rec T -> A) old d :
    tab (List.length sts) (stage_entry sts f old d) = map f sts.
  Proof.
    apply nth_error_ext. intros i. rewrite nth_error_tab, nth_error_map. unfold stage_entry.
    destruct (Nat.ltb i (List.length sts)) eqn:E.
    - apply Nat.ltb_lt in E. destruct (nth_error sts i) eqn:E'; [reflexivity|].
      apply nth_error_None in E'. lia.
    - apply Nat.ltb_ge in E. apply nth_error_None in E. now rewrite E.
  Qed.

  (* ---------------- reading ---------------- *)
  Lemma cols_length n : forall i l vs, cols (T:=T) n i l = Some vs -> List.length vs = n.
  Proof.
    induction n as [|n IH]; intros i l vs H; cbn [cols] in H.
    - now inversion H.
    - destruct (subs _ _ l); [|discriminate]. destruct (val_as_float l0); [|discriminate].
      destruct (cols n (S i) l) eqn:E; [|discriminate]. inversion H; subst. cbn. f_equal. eauto.
  Qed.

  Definition bbch_ok (lines : list lstr) (n : nat) : Prop :=
    forall i h, (i < n)%nat -> ln lines (19 + 13 * i) = Some h -> read_bbch (T:=T) true h = read_bbch false h.

  (* a code in [0,100) (or no number at all) is what the classic reader accepts *)
  Lemma bbch_in_range h :
    (forall v, val_as_float (T:=T) (skipn 65 h) = Some v -> leb zero v && ltb v (ofZ 100) = true) ->
    read_bbch (T:=T) true h = read_bbch false h.
  Proof.
    intros H. unfold read_bbch. destruct (Nat.ltb 65 (List.length h)); [|reflexivity].
    destruct (val_as_float (skipn 65 h)) eqn:E; [|reflexivity]. now rewrite (H t eq_refl).
  Qed.

  Lemma read_stage_strict nk lines i :
    (forall h, ln lines (19 + 13 * i) = Some h -> read_bbch (T:=T) true h = read_bbch false h) ->
    read_stage (T:=T) true nk lines i = read_stage false nk lines i.
  Proof.
    intros H. unfold read_stage. destruct (ln lines (19 + 13 * i)) eqn:E; [|reflexivity].
    now rewrite (H l eq_refl).
  Qed.

  Lemma read_stages_strict nk lines n : forall k,
    (forall i h, (k <= i < k + n)%nat -> ln lines (19 + 13 * i) = Some h -> read_bbch (T:=T) true h = read_bbch false h) ->
    read_stages (T:=T) true nk lines n k = read_stages false nk lines n k.
  Proof.
    induction n as [|n IH]; intros k H; cbn [read_stages]; [reflexivity|].
    rewrite read_stage_strict by (intros h; apply H; lia).
    destruct (read_stage false nk lines k); [|reflexivity].
    rewrite IH; [reflexivity|]. intros i h Hi. apply H. lia.
  Qed.

  Lemma read_stage_lengths b nk lines i st :
    read_stage (T:=T) b nk lines i = Some st -> List.length (st_pro st) = nk /\ List.length (st_dead st) = nk.
  Proof.
    unfold read_stage. intros H.
    repeat match type of H with
           | match ?e with Some _ => _ | None => None end = Some _ =>
               let E := fresh "E" in destruct e eqn:E; [|discriminate H]
           end.
    inversion H; subst; cbn. split; eapply cols_length; eauto.
  Qed.

  Lemma read_stages_facts b nk lines n : forall k sts,
    read_stages (T:=T) b nk lines n k = Some sts ->
    List.length sts = n /\ Forall (fun st => List.length (st_pro st) = nk /\ List.length (st_dead st) = nk) sts.
  Proof.
    induction n as [|n IH]; intros k sts H; cbn [read_stages] in H.
    - inversion H; subst. split; [reflexivity|constructor].
    - destruct (read_stage b nk lines k) eqn:E1; [|discriminate].
      destruct (read_stages b nk lines n (S k)) eqn:E2; [|discriminate].
      inversion H; subst. destruct (IH _ _ E2) as [L F]. split; [cbn; now rewrite L|].
      constructor; [eapply read_stage_lengths; eauto|exact F].
  Qed.

  (* what the classic reader leaves in place (stale values of the previous crop) where the
     converter writes a zero: the parameters of N-content function 5 *)
  Definition stale_ok (lines : list lstr) (s0 : crop_state T) : Prop :=
    forall l04 ng ta tb torg,
      ln lines 8 = Some l04 -> i65 l04 = Some ng -> nfun_tokens (T:=T) ng l04 = Some (ta, tb, torg) ->
      (ta = None -> RGA s0 = zero) /\ (tb = None -> RGB s0 = zero) /\
      match torg with None => SubOrgan s0 = 0 | Some o => o <= 5 end.

  Lemma build_state_keep cont s0 a1 a2 a3 a4 a5 a6 a7 a8 a9 a10 a11 a12 nrkom dauer legum ib ib' ir ir' w w' m kc_ ne sts :
    (dauer && cont = false -> ib = ib' /\ ir = ir' /\ w = w') ->
    build_state (T:=T) cont s0 a1 a2 a3 a4 a5 a6 a7 a8 a9 a10 a11 a12 nrkom dauer legum ib ir w m kc_ ne sts =
    build_state cont s0 a1 a2 a3 a4 a5 a6 a7 a8 a9 a10 a11 a12 nrkom dauer legum ib' ir' w' m kc_ ne sts.
  Proof.
    intros H. unfold build_state. destruct (dauer && cont) eqn:K.
    - reflexivity.
    - destruct (H eq_refl) as [-> [-> ->]]. reflexivity.
  Qed.

  Ltac inv_bind H :=
    repeat match type of H with
           | match ?e with Some _ => _ | None => None end = Some _ =>
               let E := fresh "E" in destruct e eqn:E; [|discriminate H]
           | (if ?b then None else _) = Some _ =>
               let E := fresh "C" in destruct b eqn:E; [discriminate H|]
           | (let '(_, _) := ?e in _) = Some _ => destruct e
           end.

  Ltac rew_all := repeat match goal with E : ?x = Some _ |- context [?x] => rewrite E end.

  Theorem crop_yaml_agree_core : forall cont lines r s0,
    convert_core (T:=T) lines = Some r ->
    r_nrkom r <= 5 -> r_nrentw r <= 10 -> ago_ok (r_nrkom r) (r_ago r) = true ->
    bbch_ok lines (ztn (r_nrentw r)) ->
    stale_ok lines s0 ->
    state_of_yaml cont r s0 = state_of_classic cont lines s0.
  Proof.
    intros cont lines r s0 H Hk He Hago Hb Hs.
    unfold convert_core in H. inv_bind H.
    inversion H; subst r; clear H.
    cbn [r_nrkom r_nrentw r_ago] in *.
    match goal with C : _ || _ = false |- _ => apply orb_false_iff in C as [Cneg Cnames]; apply Z.ltb_ge in Cneg end.
    match goal with
    | E1 : ln lines 8 = Some ?l, E2 : i65 ?l = Some ?ng, E3 : nfun_tokens ?ng ?l = Some _ |- _ =>
        destruct (Hs _ _ _ _ _ E1 E2 E3) as [Sa [Sb So]]
    end.
    match goal with E : read_stages false _ _ _ _ = Some _ |- _ =>
      destruct (read_stages_facts _ _ _ _ _ _ E) as [Lsts Fsts] end.
    match goal with E : cols _ 0 _ = Some ?w, E' : cols _ 0 _ = Some ?m |- _ =>
      pose proof (cols_length _ _ _ _ E) as Lw; pose proof (cols_length _ _ _ _ E') as Lm end.
    (* the classic side *)
    unfold state_of_classic.
    repeat (progress (rew_all; cbv beta iota)).
    replace (match o with Some o => 5 <? o | None => false end) with false
      by (destruct o; [symmetry; apply Z.ltb_ge; exact So|reflexivity]).
    repeat (progress (rew_all; cbv beta iota)).
    replace (10 <? z2) with false by (symmetry; apply Z.ltb_ge; lia).
    replace (5 <? z2) with false by (symmetry; apply Z.ltb_ge; lia).
    replace (10 <? z3) with false by (symmetry; apply Z.ltb_ge; lia).
    rewrite !andb_false_r.
    rewrite (read_stages_strict (ztn z2) lines (ztn z3) 0) by (intros i h Hi; apply Hb; lia).
    rew_all.
    (* the YAML side *)
    unfold state_of_yaml. cbn [r_nrkom r_nrentw r_ago r_nnames r_worg r_mairt r_stages r_maxamax r_temptyp
      r_mintmp r_wumaxpf r_veloc r_ngefkt r_rga r_rgb r_suborgan r_yorgan r_yifak r_dauerkult r_legum
      r_initbiom r_initroot r_kcini].
    replace (5 <? z2) with false by (symmetry; apply Z.ltb_ge; lia).
    rewrite Hago. cbn [negb].
    replace (10 <? z3) with false by (symmetry; apply Z.ltb_ge; lia).
    unfold ztn in *.
    rewrite Lw, Lm.
    replace (z2 =? Z.of_nat (Z.to_nat z2)) with true by (symmetry; apply Z.eqb_eq; lia).
    cbn [negb].
    replace (firstn (Z.to_nat z3) l23) with l23 by (rewrite <- Lsts; symmetry; apply firstn_all).
    rewrite Lsts, Nat.leb_refl. cbn [negb].
    replace (forallb (stage_long_enough (Z.to_nat z2)) l23) with true.
    2:{ symmetry. apply forallb_forall. intros st Hin. rewrite Forall_forall in Fsts.
        destruct (Fsts st Hin) as [P D]. unfold stage_long_enough. now rewrite P, D, Nat.leb_refl. }
    cbn [negb].
    replace (match o0 with Some v => v | None => RGA s0 end) with (match o0 with Some v => v | None => zero end)
      by (destruct o0; [reflexivity|now rewrite Sa]).
    replace (match o1 with Some v => v | None => RGB s0 end) with (match o1 with Some v => v | None => zero end)
      by (destruct o1; [reflexivity|now rewrite Sb]).
    replace (match o with Some v => v | None => SubOrgan s0 end) with (match o with Some v => v | None => 0 end)
      by (destruct o; [reflexivity|now rewrite So]).
    destruct (b && cont) eqn:K; cbv beta iota; f_equal; apply build_state_keep; intros K'; try congruence; repeat split.
  Qed.

  Theorem crop_yaml_agree_lemma : forall cont lines r s0,
    convert (T:=T) lines = Some r ->
    r_nrkom r <= 5 -> r_nrentw r <= 10 -> ago_ok (r_nrkom r) (r_ago r) = true ->
    bbch_ok lines (ztn (r_nrentw r)) ->
    stale_ok lines s0 ->
    state_of_yaml cont r s0 = state_of_classic cont lines s0.
  Proof.
    intros cont lines r s0 H. unfold convert in H.
    destruct (convert_core lines) as [r'|] eqn:E; [|discriminate].
    destruct (negb (conv_pro_ok (r_stages r'))); [discriminate|]. inversion H; subst r'.
    now apply crop_yaml_agree_core.
  Qed.
End Agree.
