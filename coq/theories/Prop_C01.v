(* Prop_C01.v — property C01 (soil water mass balance closes on every simulated day), stated about
   WaterModel — the executable model of hermes.Water that the correspondence check compares bit for
   bit with the Go kernel — read over the reals.  Only statements here. *)
From Coq Require Import ZArith Reals List Bool Floats.
From Hermes Require Import Num RUtil Util WaterModel WaterProofs StepsSweep WaterRun.
Local Open Scope R_scope.

(* One sub-step, any number of layers n >= 1, any state, any sub-step length:
   storage after = storage before - uptake + surface flux - flux through the lower boundary - drain. *)
Theorem C01_substep_balance : forall (x : water_in (T:=R)) (n : nat),
  wf_in x n ->
  let o := water_step x in
  Rsum (map (fun v => v * DZR) (firstn n (wo_wg1 o))) =
    Rsum (map (fun v => v * DZR) (wi_wg0 x)) - Rsum (wo_tpsum_terms o)
    + wi_fluss0 x * wi_wdt x - last (wo_q1 o) 0 - wo_qdrain o
  /\ length (wo_wg1 o) = S n /\ length (wo_q1 o) = S n /\ length (wo_tp o) = n.
Proof. exact water_step_balance_lemma. Qed.

(* The day: k >= 1 sub-steps of length 1/k (whatever k): the storage change equals the day's surface
   flux minus the (clamped) root uptake minus the summed bottom fluxes minus the summed drain outflow. *)
Theorem C01_day_balance : forall (x : water_in (T:=R)) (n k : nat),
  wf_in x n -> (1 <= k)%nat -> wi_wdt x = / INR k ->
  let outs := water_iter k x in
  let tp_day := wo_tp (water_step x) in
  storage (final_wg (wi_wg0 x) n outs) =
    storage (wi_wg0 x) - Rsum tp_day + wi_fluss0 x
    - Rsum (map (fun o => last (wo_q1 o) 0) outs)
    - Rsum (map (fun o => wo_qdrain o) outs).
Proof. exact day_balance_lemma. Qed.

(* The RUN: any number of days, each with its own inputs and its own number k_d >= 1 of sub-steps of 1/k_d, the
   water content carried from the end of a day to the start of the next: final storage = initial storage + the sum
   over the days of (surface flux - clamped uptake - bottom fluxes - drain outflow). *)
Theorem C01_run_balance : forall (n : nat) (days : list day_spec) (wg : list R),
  length wg = n -> Forall (day_ok n) days ->
  storage (fst (run_days n wg days)) = storage wg + snd (run_days n wg days)
  /\ length (fst (run_days n wg days)) = n.
Proof. exact (fun n days => run_balance_lemma n days). Qed.

Example C01_run_nonvacuous :
  let x := {| wi_subd1 := true; wi_wdt := /2; wi_after_sow := true; wi_fluss0 := 3; wi_grw := 20;
           wi_draidep := 2; wi_draifak := /2; wi_outn := 3; wi_gwauf := 0; wi_eta := 0;
           wi_wg0 := nil; wi_tp := (1/100 :: 0 :: 0 :: nil);
           wi_w := (3/10 :: 3/10 :: 3/10 :: nil); wi_wmin := (1/10 :: 1/10 :: 1/10 :: nil);
           wi_nfk := (1 :: 1 :: 1 :: nil); wi_ev := (0 :: 0 :: 0 :: 0 :: nil); wi_q1 := (0 :: 0 :: 0 :: 0 :: nil);
           wi_caps := nil |} in
  Forall (day_ok 3) ((x, 2%nat) :: (x, 2%nat) :: nil).
Proof. cbv zeta. repeat constructor; cbn; auto. Qed.

(* the reported counters mirror the fluxes: percolation + capillary counter change = 10 * flux at the
   leaching depth - 10 * uptake taken from the groundwater layer; drain counter = 10 * drain outflow *)
Theorem C01_counters_mirror : forall (x : water_in (T:=R)) (o : water_out (T:=R)) (c : water_counters (T:=R)),
  let c' := water_counters_step x o c in
  let qout := get 0 (wo_q1 o) (wi_outn x) in
  (c_sicker c' + c_capsum c') - (c_sicker c + c_capsum c) = 10 * qout - 10 * wi_gwauf x * wi_wdt x /\
  c_draisum c' - c_draisum c = 10 * wo_qdrain o /\
  (0 <= qout -> c_sicker c <= c_sicker c') /\ (qout <= 0 -> c_sicker c' = c_sicker c).
Proof. exact counters_mirror_lemma. Qed.

(* binary64: for every integral sub-step demand n = 1..65536 the day loop runs exactly n sub-steps of
   length 1/n (run.go:576-583 after the repair of F3; with truncation this fails at n = 93) *)
Theorem C01_steps_exact : forall n : N, (1 <= n <= 65536)%N -> steps_ok n tt = true.
Proof. exact steps_exact_lemma. Qed.

(* non-vacuity: a 3-layer infiltration state satisfies the hypotheses *)
Example C01_nonvacuous :
  wf_in {| wi_subd1 := true; wi_wdt := /2; wi_after_sow := true; wi_fluss0 := 3; wi_grw := 20;
           wi_draidep := 2; wi_draifak := /2; wi_outn := 3; wi_gwauf := 0; wi_eta := 0;
           wi_wg0 := (3/10 :: 3/10 :: 3/10 :: nil); wi_tp := (1/100 :: 0 :: 0 :: nil);
           wi_w := (3/10 :: 3/10 :: 3/10 :: nil); wi_wmin := (1/10 :: 1/10 :: 1/10 :: nil);
           wi_nfk := (1 :: 1 :: 1 :: nil); wi_ev := (0 :: 0 :: 0 :: 0 :: nil); wi_q1 := (0 :: 0 :: 0 :: 0 :: nil);
           wi_caps := nil |} 3.
Proof. unfold wf_in; cbn; repeat split; auto. Qed.

Print Assumptions C01_substep_balance.
Print Assumptions C01_day_balance.
Print Assumptions C01_run_balance.
Print Assumptions C01_counters_mirror.
Print Assumptions C01_steps_exact.
