(* C13Proofs.v — lemmas behind Prop_C13 that are not about the crop readers: date formats agree
   (from the C12 development), witnesses. *)
From Coq Require Import ZArith List Bool Ascii String Floats Lia.
From Hermes Require Import Util Num Calendar DateModel DateProofs PredDateModel CropParamModel CropParamProofs CropSamples.
Import ListNotations.
Local Open Scope Z_scope.

Lemma dates_agree_lemma : forall f1 f2 sep1 sep2 cent y m d,
  sep_ok sep1 -> sep_ok sep2 -> 0 <= cent <= 100 -> 1901 <= y <= 2099 ->
  valid_date (mkdate y m d) = true -> in_window f1 cent y -> in_window f2 cent y ->
  exists n, 1 <= n <= 72684 /\
    date_converter cent f1 (render_date f1 sep1 y m d) = Some (doy (mkdate y m d), n) /\
    date_converter cent f2 (render_date f2 sep2 y m d) = Some (doy (mkdate y m d), n).
Proof.
  intros f1 f2 sep1 sep2 cent y m d S1 S2 Hc Hy Hv W1 W2.
  destruct (date_is_civil y m d Hy Hv) as [n [Hn [Hciv _]]].
  pose proof (roundtrip_text_strong f1 sep1 cent n S1 Hc Hn) as R1.
  pose proof (roundtrip_text_strong f2 sep2 cent n S2 Hc Hn) as R2.
  cbv zeta in R1, R2. rewrite Hciv in R1, R2. cbn [dy dm dd] in R1, R2.
  destruct (R1 W1) as [_ A]. destruct (R2 W2) as [_ B].
  exists (Z.of_N n). split; [unfold LAST_N in Hn; lia|]. split; assumption.
Qed.

(* the year of the prediction date as LangTag extracts it = the year DateConverter works with = the civil
   year - 1900, for every date a format can express (from the C12 text lemmas) *)
Lemma prediction_year_lemma : forall f sep cent y m d,
  sep_ok sep -> 0 <= cent <= 100 -> 1901 <= y <= 2099 -> valid_date (mkdate y m d) = true -> in_window f cent y ->
  langtag_year cent f (render_date f sep y m d) = Some (y - 1900) /\
  datum_year cent f (render_date f sep y m d) = Some (y - 1900).
Proof.
  intros f sep cent y m d Hs Hc Hy Hv Hw.
  destruct (valid_bounds (mkdate y m d) Hv) as [Hm Hd]. cbn [dm dd] in Hm, Hd.
  unfold langtag_year, datum_year, in_window in *.
  destruct f; cbn [is_short render_date] in *.
  - (* DEshort *)
    set (yy := if 99 <? y - 1900 then y - 1900 - 100 else y - 1900).
    assert (Hyy : 0 <= yy <= 99) by (unfold yy; destruct (Z.ltb_spec 99 (y - 1900)); lia).
    destruct (extract_short d m yy sep Hs ltac:(lia) ltac:(lia) Hyy) as [T E]. cbv zeta in T, E. rewrite T, E.
    unfold yy. destruct (Z.ltb_spec 99 (y - 1900)).
    + destruct (Z.ltb_spec (y - 1900 - 100) cent); [|lia]. split; f_equal; lia.
    + destruct (Z.ltb_spec (y - 1900) cent); [lia|]. split; reflexivity.
  - (* DElong *)
    destruct (extract_long d m y sep Hs ltac:(lia) ltac:(lia) Hy) as [T E]. cbv zeta in T, E. rewrite T, E.
    destruct (Z.ltb_spec y 1901); [lia|]. split; reflexivity.
  - (* ENshort *)
    set (yy := if 99 <? y - 1900 then y - 1900 - 100 else y - 1900).
    assert (Hyy : 0 <= yy <= 99) by (unfold yy; destruct (Z.ltb_spec 99 (y - 1900)); lia).
    destruct (extract_short m d yy sep Hs ltac:(lia) ltac:(lia) Hyy) as [T E]. cbv zeta in T, E. rewrite T, E.
    unfold yy. destruct (Z.ltb_spec 99 (y - 1900)).
    + destruct (Z.ltb_spec (y - 1900 - 100) cent); [|lia]. split; f_equal; lia.
    + destruct (Z.ltb_spec (y - 1900) cent); [lia|]. split; reflexivity.
  - (* ENlong *)
    destruct (extract_long m d y sep Hs ltac:(lia) ltac:(lia) Hy) as [T E]. cbv zeta in T, E. rewrite T, E.
    destruct (Z.ltb_spec y 1901); [lia|]. split; reflexivity.
Qed.

Definition hl100 : lstr := repeat "-"%char 65 ++ lstr_of "100".
Lemma bbch_difference : exists h, read_bbch (T:=float) true h <> read_bbch (T:=float) false h.
Proof.
  exists hl100.
  assert (A : read_bbch (T:=float) true hl100 = 0) by (vm_compute; reflexivity).
  assert (B : read_bbch (T:=float) false hl100 = 100) by (vm_compute; reflexivity).
  rewrite A, B. discriminate.
Qed.

Lemma sample_converts :
  exists r, convert (T:=float) sample_lines = Some r /\ r_nrkom r = 2 /\ r_nrentw r = 2 /\
            ago_ok (r_nrkom r) (r_ago r) = true.
Proof.
  eexists. split.
  - vm_compute. reflexivity.
  - vm_compute. repeat split.
Qed.

(* ---- soil: a concrete well-formed profile (non-vacuity of soil_agree) ---- *)
From Hermes Require Import SoilModel SoilProofs.

Definition sample_hor (corg tex depth fc : string) : ahor :=
  {| a_corg := lstr_of corg; a_tex := lstr_of tex; a_depth := lstr_of depth; a_ld := lstr_of "2"; a_stone := lstr_of "05";
     a_cn := lstr_of "10"; a_fc := lstr_of fc; a_wp := lstr_of "12"; a_ps := lstr_of "45"; a_sand := lstr_of "26";
     a_silt := lstr_of "63"; a_clay := lstr_of "11" |}.
Definition sample_profile : aprofile :=
  {| ap_sid := lstr_of "002"; ap_root := lstr_of "05"; ap_draindepth := lstr_of "20"; ap_drainpct := lstr_of "00";
     ap_gw := lstr_of "99"; ap_hor := [sample_hor "1.14" "ULS" "03" "31"; sample_hor "0.40" "SS" "20" ""] |}.

Ltac nocomma := cbn; unfold no_comma; cbn; intuition discriminate.
Ltac fit := split; [cbn; lia | nocomma].

Lemma sample_profile_wf : wf_profile sample_profile.
Proof.
  constructor; try fit.
  - apply Forall_cons; [|apply Forall_cons; [|apply Forall_nil]]; constructor; try fit; try (split; [cbn; lia|nocomma]); try (split; [reflexivity|nocomma]).
  - cbn; lia.
Qed.

Lemma sample_profile_loads :
  wf_profile sample_profile /\
  exists sd, load_soil_txt (T:=float) true (ap_sid sample_profile) (render_txt sample_profile) = Ok sd /\
             sd_azho sd = 2 /\ sd_n sd = 20.
Proof.
  split; [exact sample_profile_wf|]. eexists. split; [vm_compute; reflexivity|]. split; reflexivity.
Qed.
