(* NitroRates.v — the hypothesis "daily rate constants at most 1" of C07_pools_nonneg, discharged for the TRUE
   exponential: for every soil temperature 0 < T <= 60 degC (warm branch; C19 bounds the soil temperature by the
   air/surface extremes) the two Arrhenius constants of mineral() (nitro.go:600-602) lie in [0, 1]. *)
From Coq Require Import Reals Lra.
From Interval Require Import Tactic.
Local Open Scope R_scope.

Lemma exp_arg_mono c t : c < 0 -> -273 < t -> t <= 60 -> c / (t + 273.16) <= c / (60 + 273.16).
Proof.
  intros Hc Ht1 Ht2.
  assert (H1 : 0 < t + 273.16) by lra.
  assert (H2 : 0 < 60 + 273.16) by lra.
  unfold Rdiv.
  assert (Hi : / (60 + 273.16) <= / (t + 273.16)) by (apply Rinv_le_contravar; lra).
  nra.
Qed.

Lemma kt0_true_le_1 t : -273 < t -> t <= 60 -> 0 <= 4000000000 * exp (-8400 / (t + 273.16)) <= 1.
Proof.
  intros H1 H2. split.
  - pose proof (exp_pos (-8400 / (t + 273.16))). lra.
  - pose proof (exp_arg_mono (-8400) t ltac:(lra) H1 H2) as Hm.
    assert (He : exp (-8400 / (t + 273.16)) <= exp (-8400 / (60 + 273.16))).
    { destruct Hm as [Hm|Hm]; [left; apply exp_increasing; exact Hm | rewrite Hm; lra]. }
    assert (Hc : 4000000000 * exp (-8400 / (60 + 273.16)) <= 1) by interval.
    lra.
Qed.

Lemma kt1_true_le_1 t : -273 < t -> t <= 60 -> 0 <= 5600000000000 * exp (-9800 / (t + 273.16)) <= 1.
Proof.
  intros H1 H2. split.
  - pose proof (exp_pos (-9800 / (t + 273.16))). lra.
  - pose proof (exp_arg_mono (-9800) t ltac:(lra) H1 H2) as Hm.
    assert (He : exp (-9800 / (t + 273.16)) <= exp (-9800 / (60 + 273.16))).
    { destruct Hm as [Hm|Hm]; [left; apply exp_increasing; exact Hm | rewrite Hm; lra]. }
    assert (Hc : 5600000000000 * exp (-9800 / (60 + 273.16)) <= 1) by interval.
    lra.
Qed.

(* and the bound is sharp in kind: at 65 degC the fast pool's constant exceeds 1 (the pool would go negative) *)
Lemma kt1_true_gt_1_at_65 : 1 < 5600000000000 * exp (-9800 / (65 + 273.16)).
Proof. interval. Qed.

From Coq Require Import List.
From Hermes Require Import Num RUtil NitroModel NitroProofs.

(* C07_pools_nonneg with its rate hypothesis discharged for the true exponential *)
Lemma pools_nonneg_true_exp z (l : mineral_layer_in (T:=R)) (g : mineral_glob (T:=R)) :
  0 <= ml_naos l -> 0 <= ml_nfos l ->
  -273 < ml_tempbo l -> ml_tempbo l <= 60 ->
  ml_e0 l = exp (-8400 / (ml_tempbo l + 273.16)) -> ml_e1 l = exp (-9800 / (ml_tempbo l + 273.16)) ->
  let '(o, g') := mineral_layer z l g in 0 <= mo_naos o /\ 0 <= mo_nfos o.
Proof.
  intros Ha Hf Ht1 Ht2 E0 E1.
  apply mineral_layer_nonneg; try assumption.
  - rewrite E0. apply kt0_true_le_1; assumption.
  - rewrite E1. apply kt1_true_le_1; assumption.
Qed.
