(* Prop_C19.v — property C19 (soil temperature stays within the envelope of its boundary
   temperatures), stated about SoilTempModel — the executable model of hermes.Soiltemp that the
   correspondence check compares bit for bit with the Go kernel — read over the reals.
   Only statements here.  [rnum dt dz2 alpha] = alpha*dt/24/dz2 is the diffusion number the code
   applies per hourly step; [within lo hi l] = every element of l lies in [lo, hi]. *)
From Coq Require Import ZArith Reals List Bool Floats Lra.
From Hermes Require Import Num RUtil SoilTempModel SoilTempProofs.
Local Open Scope R_scope.

(* bulk density 0.567..2.3 g/cm3, humus >= 0, water content >= 0; the only fact used about the oracle
   e = exp(-50*(WG/BD)^1.5) is 0 <= e <= 1; DT = 1, DZ = 10:
   0 <= HEATCOND/HEATCAP/2400 <= 0.6 - 0.34/BD < 1/2 *)
Theorem C19_diffusion_number : forall l : layer R,
  567 / 1000 <= l_bd l <= 23 / 10 /\ 0 <= l_hum l /\ 0 <= l_wg l /\ 0 <= l_ex l <= 1 ->
  let r := rnum 1 (10 * 10) (alpha_of 1 l) in
  0 <= r /\ r <= 6 / 10 - 34 / 100 / l_bd l /\ r < 1 / 2.
Proof. exact diffusion_number_lemma. Qed.

(* one interior node, one hourly step (soiltemp.go:54): with 0 <= r <= 1/2 the new value is a convex
   combination of the node and its two neighbours *)
Theorem C19_hour_step_convex : forall alpha dt dz2 prev cur nxt : R,
  0 <= rnum dt dz2 alpha <= 1 / 2 ->
  Rmin cur (Rmin prev nxt) <= @upd_T R RNum alpha dt dz2 prev cur nxt <= Rmax cur (Rmax prev nxt).
Proof. exact hour_step_convex_lemma. Qed.

(* one call of Soiltemp, any number of layers: 24 hourly steps with yesterday's surface value in the
   first and today's in the following hours, TBASE below; the daily means TD, the carried profile
   TSOIL[0] and the last hourly profile TSOIL[1] all lie in [lo, hi] when the start profile, TBASE and
   the surface value imposed this day do *)
Theorem C19_day_envelope : forall (d : day_in R) (t0 : list R) (lo hi : R),
  alphas_ok d -> within lo hi t0 -> lo <= d_tbase d <= hi ->
  let o := soiltemp_day d t0 in
  lo <= o_surf o <= hi ->
  within lo hi (o_td o) /\ within lo hi (o_tsoil0 o) /\ within lo hi (o_tsoil1 o).
Proof. exact day_envelope_lemma. Qed.

(* any number of days: [snd (run days t0)] are the surface values imposed so far *)
Theorem C19_run_envelope : forall (days : list (day_in R)) (t0 : list R) (tbase lo hi : R),
  Forall (fun d => alphas_ok d /\ d_tbase d = tbase) days ->
  within lo hi t0 -> lo <= tbase <= hi ->
  within lo hi (snd (run days t0)) ->
  within lo hi (fst (run days t0)).
Proof. exact run_envelope_lemma. Qed.

(* the start profile hermes.Init leaves lies between the first day's mean air temperature and TBASE *)
Theorem C19_init_envelope : forall (tmin tmax tbase : R) (n : nat), (1 <= n)%nat ->
  let t00 := (tmin + tmax) / 2 in
  within (Rmin t00 tbase) (Rmax t00 tbase) (init_profile tmin tmax tbase n).
Proof. exact init_envelope_lemma. Qed.

(* all together: from Init's profile, with admissible soil on every day, every layer temperature stays
   between the lowest and highest of the start surface value, TBASE and all surface values imposed *)
Theorem C19_run_envelope_admissible : forall (days : list (day_in R)) (tmin tmax tbase lo hi : R) (n : nat),
  (1 <= n)%nat -> Forall (day_admissible tbase) days ->
  let t0 := init_profile tmin tmax tbase n in
  lo <= (tmin + tmax) / 2 <= hi -> lo <= tbase <= hi ->
  within lo hi (snd (run days t0)) ->
  within lo hi (fst (run days t0)).
Proof. exact run_envelope_admissible_lemma. Qed.

(* the surface value: the mean of TMIN and TMAX, or the albedo mix with s = sqrt(0.0003*radiat);
   it stays between TMIN/TMAX/yesterday's value as long as s <= 1 (radiat <= 3333), above that it overshoots *)
Theorem C19_surface_value : forall radiat tmin tmax t00 : R, tmin <= tmax ->
  let s := R_sqrt.sqrt (3 / 10000 * radiat) in
  let v := @surface R RNum radiat tmin tmax t00 in
  (radiat <= 833 -> v = (tmin + tmax) / 2 /\ tmin <= v <= tmax) /\
  (833 < radiat -> v = (1 - 31 / 100) * (tmin + (tmax - tmin) * s) + 31 / 100 * t00 /\
                   Rmin tmin t00 <= v /\ (s <= 1 -> v <= Rmax tmax t00)).
Proof. exact surface_value_lemma. Qed.

(* F17 (known finding): without the lower bound on the bulk density the diffusion number is negative
   (witness: BD = 0.3 g/cm3, an organic horizon) ... *)
Theorem C19_diffusion_number_refuted :
  exists l : layer R, 0 < l_bd l /\ 0 <= l_hum l /\ 0 <= l_wg l /\ 0 <= l_ex l <= 1 /\
    rnum 1 (10 * 10) (alpha_of 1 l) < 0.
Proof. exact diffusion_number_refuted_lemma. Qed.

(* ... and with a negative diffusion number a single hourly step leaves the envelope of its inputs *)
Theorem C19_hour_step_refuted :
  exists alpha prev cur nxt : R, rnum 1 (10 * 10) alpha < 0 /\
    @upd_T R RNum alpha 1 (10 * 10) prev cur nxt < Rmin cur (Rmin prev nxt).
Proof. exact hour_step_refuted_lemma. Qed.

(* where BD comes from (soil.go:308-321, input.go:277): every KA5 class 1..5 maps to a density inside the
   admissible range, so for class input the readers establish the hypothesis of C19_diffusion_number ... *)
Theorem C19_class_density : forall c : Z, (1 <= c <= 5)%Z ->
  exists v : R, bd_of_class c = Some v /\ 567 / 1000 <= v <= 23 / 10.
Proof. exact class_density_lemma. Qed.

(* ... for every 10-cm layer (class input, or a measured value in the range); the stone content does not
   enter the layer density *)
Theorem C19_layer_bd_admissible : forall (hs : list (Z * Z * option R)) (prev : Z),
  Forall horizon_admissible hs -> Forall (fun v => 567 / 1000 <= v <= 23 / 10) (layer_bd prev hs).
Proof. exact layer_bd_admissible_lemma. Qed.

(* the lower boundary: TBASE is a constant of the run, the CONFIGURED AnnualAverageTemperature (config.go:120);
   every call leaves it in the lowest node, and the envelope holds with the configured value *)
Theorem C19_day_lower_boundary : forall (d : day_in R) (t0 : list R) (x : R),
  last (o_tsoil0 (soiltemp_day d t0)) x = d_tbase d /\ last (o_td (soiltemp_day d t0)) x = d_tbase d.
Proof. exact day_lower_boundary_lemma. Qed.

Theorem C19_run_envelope_configured : forall (days : list (day_in R)) (tmin tmax amt lo hi : R) (n : nat),
  (1 <= n)%nat -> Forall (day_admissible (tbase_of_config amt)) days ->
  let t0 := init_profile tmin tmax (tbase_of_config amt) n in
  lo <= (tmin + tmax) / 2 <= hi -> lo <= amt <= hi ->
  within lo hi (snd (run days t0)) ->
  within lo hi (fst (run days t0)).
Proof. exact run_envelope_configured_lemma. Qed.

(* non-vacuity: a mineral layer (BD 1.5, 2 % humus, water content 0.3) is admissible *)
Example C19_nonvacuous :
  admissible {| l_bd := 15 / 10; l_wg := 3 / 10; l_hum := 2 / 100; l_pw := 9 / 100; l_ex := 1 / 100 |}.
Proof. unfold admissible; cbn; repeat split; lra. Qed.

Print Assumptions C19_diffusion_number.
Print Assumptions C19_hour_step_convex.
Print Assumptions C19_day_envelope.
Print Assumptions C19_run_envelope.
Print Assumptions C19_init_envelope.
Print Assumptions C19_run_envelope_admissible.
Print Assumptions C19_surface_value.
Print Assumptions C19_diffusion_number_refuted.
Print Assumptions C19_hour_step_refuted.
Print Assumptions C19_class_density.
Print Assumptions C19_layer_bd_admissible.
Print Assumptions C19_day_lower_boundary.
Print Assumptions C19_run_envelope_configured.
