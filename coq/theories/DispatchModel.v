(* DispatchModel.v — model of src/hermes2go/hermes_main.go:192-263 (doConcurrentBatchRun,
   checkResultForError) as a labelled transition system.

   A run (hermes/run.go:14-795, session.Run started as a goroutine, hermes_main.go:229) is
   abstracted to a deterministic program over its own batch line that can only (a) read
   files through the session pool and (b) return its result on resultChannel:
       prog := Done v | Read p k
   ("every run allocates its own state", run.go:16-35; the only shared mutable state is
   the pool, see the generated SharedState inventory).  [prog] is inductive, i.e. a run
   performs finitely many reads and returns (run termination itself: LoopModel,
   LongdayModel).

   Transitions:
     Start i   hermes_main.go:222-230  enabled iff |active| < c and line i is the next
                                       selected line
     Read i p  a running run calls FilePool.Get (serialised by the mutex)
     Finish i  hermes_main.go:212-214 / 235-237: the dispatcher receives the result of ANY
               run that has reached its end (adversarial scheduler), decrements
               activeRuns, appends to the error summary.
   The real dispatcher only receives while activeRuns == c or after the last line; the
   model allows Finish at any time, a superset of the real schedules, so statements over
   all model schedules cover all real ones.  The log-message arms of the two selects
   (hermes_main.go:215-218, 238-241) leave the dispatcher state unchanged and are not
   transitions of the model (a run sends finitely many messages). *)
From stdpp Require Import gmap.
From Hermes Require Import PoolModel.

Section Dispatch.
  Context {path bytes L R : Type} `{Countable path}.
  Variable disk : path -> bytes.
  Variable nilb : bytes.

  Inductive prog := Done (v : R) | Read (p : path) (k : bytes -> prog).

  Variable run_prog : L -> prog.    (* session.Run(workingDir, strings.Fields(line), ...) *)
  Variable err : R -> bool.         (* !result.Success, run.go:776-780 *)
  Variable c : nat.                 (* concurrentOperations *)

  (* what the run returns when every read yields the disk content *)
  Fixpoint eval (pg : prog) : R :=
    match pg with Done v => v | Read p k => eval (k (disk p)) end.
  Fixpoint reads (pg : prog) : nat :=
    match pg with Done _ => 0 | Read p k => S (reads (k (disk p))) end.

  (* hermes_main.go:202-209
       for i, line := range configLines {
         if i < startLine { continue }
         if numberOfLines > 0 && i >= numberOfLines { break }      *)
  Fixpoint select_lines (startLine numberOfLines i : Z) (ls : list L) : list (Z * L) :=
    match ls with
    | [] => []
    | l :: r =>
        if (i <? startLine)%Z then select_lines startLine numberOfLines (i + 1) r
        else if ((0 <? numberOfLines) && (numberOfLines <=? i))%Z then []
        else (i, l) :: select_lines startLine numberOfLines (i + 1) r
    end.

  Record run := Run { rid : Z; rline : L; rprog : prog }.

  Record st := St {
    todo : list (Z * L);           (* selected lines not yet started, in file order *)
    active : list run;             (* started, result not yet received; |active| = activeRuns *)
    pool : gmap path bytes;        (* session.HermesFilePool.list *)
    summary : list Z;              (* errSummary without its header line: the failed logIDs *)
    seen : bool;                   (* errorSummaryResult has been assigned (non-nil) *)
    results : list (Z * L * R) }.  (* results received so far (observer variable) *)

  Inductive label := LStart (i : Z) | LRead (i : Z) (p : path) | LFinish (i : Z).

  Inductive step : st -> label -> st -> Prop :=
  | step_start i l td a pl sm sn rs :
      length a < c ->
      step (St ((i, l) :: td) a pl sm sn rs) (LStart i)
           (St td (Run i l (run_prog l) :: a) pl sm sn rs)
  | step_read i l p k td a1 a2 pl sm sn rs :
      step (St td (a1 ++ Run i l (Read p k) :: a2) pl sm sn rs) (LRead i p)
           (St td (a1 ++ Run i l (k (snd (get disk nilb pl p))) :: a2)
               (fst (get disk nilb pl p)) sm sn rs)
  | step_finish i l v td a1 a2 pl sm sn rs :
      step (St td (a1 ++ Run i l (Done v) :: a2) pl sm sn rs) (LFinish i)
           (St td (a1 ++ a2) pl (if err v then sm ++ [i] else sm) true ((i, l, v) :: rs)).

  Inductive exec : st -> list label -> st -> Prop :=
  | exec_nil s : exec s [] s
  | exec_cons s l s1 tr s2 : step s l s1 -> exec s1 tr s2 -> exec s (l :: tr) s2.

  Definition stuck (s : st) : Prop := forall l s', ~ step s l s'.

  Definition init (b : list (Z * L)) (pl : gmap path bytes) : st := St b [] pl [] false [].

  (* hermes_main.go:244-250: the lines printed at the end ("Error Summary:" header = None)
     and the number in "Number of errors: %v" = numErr-1 *)
  Definition printed_lines (s : st) : list (option Z) :=
    if seen s then None :: map Some (summary s) else [].
  Definition printed_count (s : st) : Z := (Z.of_nat (length (printed_lines s)) - 1)%Z.

  Definition starts (tr : list label) : list Z :=
    omap (fun l => match l with LStart i => Some i | _ => None end) tr.
  Definition finishes (tr : list label) : list Z :=
    omap (fun l => match l with LFinish i => Some i | _ => None end) tr.

  (* ---- an executable scheduler (used for the correspondence and for non-vacuity) ----
     choice ch: even and Start enabled -> Start; otherwise the (ch/2 mod |active|)-th
     active run moves (one read, or its result is received); if no run is active, Start. *)
  Definition start_step (s : st) : option (label * st) :=
    match todo s with
    | (i, l) :: td =>
        if decide (length (active s) < c)
        then Some (LStart i, St td (Run i l (run_prog l) :: active s) (pool s) (summary s) (seen s) (results s))
        else None
    | [] => None
    end.

  Definition act_step (n : nat) (s : st) : option (label * st) :=
    match active s !! n with
    | Some (Run i l (Read p k)) =>
        Some (LRead i p,
              St (todo s) (take n (active s) ++ Run i l (k (snd (get disk nilb (pool s) p))) :: drop (S n) (active s))
                 (fst (get disk nilb (pool s) p)) (summary s) (seen s) (results s))
    | Some (Run i l (Done v)) =>
        Some (LFinish i,
              St (todo s) (take n (active s) ++ drop (S n) (active s)) (pool s)
                 (if err v then summary s ++ [i] else summary s) true ((i, l, v) :: results s))
    | None => None
    end.

  Definition sim_step (ch : nat) (s : st) : option (label * st) :=
    let act := act_step ((ch / 2) mod (length (active s))) s in
    if Nat.even ch
    then match start_step s with Some x => Some x | None => act end
    else match act with Some x => Some x | None => start_step s end.

  Fixpoint sim (fuel : nat) (rnd : N) (s : st) (tr : list label) : option (list label * st) :=
    match sim_step (N.to_nat (rnd / 65536 mod 1024)) s with
    | None => Some (rev tr, s)
    | Some (l, s') =>
        match fuel with
        | O => None
        | S f => sim f ((rnd * 6364136223846793005 + 1442695040888963407) mod 18446744073709551616)%N s' (l :: tr)
        end
    end.
End Dispatch.
