(* WaterDayBounds.v — the dryness-limit clause of C06 over a WHOLE DAY of sub-steps (any number of them).

   The uptake clamp of Water is evaluated on sub-step 1 only; it limits the day's uptake TP to the water above the
   wilting point at the start of the day.  Later sub-steps apply TP*wdt again without a clamp.  On days without net
   evaporation (FLUSS0 >= 0: infiltration or nothing) every phase after the uptake only adds water or clips a layer
   to field capacity, so the invariant

        storage_i  >=  WMIN_i/3 * DZ  +  TP'_i * (remaining part of the day)

   is preserved from sub-step to sub-step and gives the bound at the end of every sub-step.  The clip to field
   capacity needs the day's uptake to fit between field capacity and the dryness limit (hypothesis [uptake_fits]).
   On days with net evaporation the evaporation phase restores the limit in every layer it reaches; with an
   arbitrary evaporation profile the chain can stop early and a layer can end below its limit: a witness is given
   ([evap_day_refuted]); the profile Evatra produces is checked on every traced day instead. *)
From Coq Require Import ZArith Reals List Bool Lra Lia.
From Hermes Require Import Num RUtil WaterModel WaterProofs WaterBounds.
Import ListNotations.
Local Open Scope R_scope.

(* ---- one sub-step without net evaporation keeps any per-layer floor that lies below field capacity ---- *)
Lemma nonevap_lower_lims (x : water_in (T:=R)) n (lims : list R) :
  wf_in x n -> params_ok x -> 0 <= wi_fluss0 x ->
  length lims = n ->
  (forall j, (j < n)%nat -> nth j lims 0 <= nth j (snd (uptake_phase x)) 0) ->
  (forall j, (j < n)%nat -> nth j lims 0 <= nth j (wi_w x) 0 * 10) ->
  forall i, (i < n)%nat -> nth i lims 0 <= get 0 (wo_wg1 (water_step x)) i * 10.
Proof.
  intros Hwf (Hwdt & Hf & Hcaps & Hwm) Hfl Llims H0' Hlim_w i Hi. unfold water_step.
  pose proof (uptake_phase_spec x n Hwf) as HU.
  destruct (uptake_phase x) as [tp' water0]. destruct HU as (_ & Lw0 & _). cbn [snd] in H0'.
  pose proof Hwf as (Hn & Lwg & Ltp & Lw & Lwmin & Lnfk & Lev & Lq1).
  (* surface phase *)
  assert (HS : Forall2 (fun w1 lim => lim <= w1) (fst (fst (fst (surface_phase x water0)))) lims).
  { unfold surface_phase. cbn zeta.
    destruct (gtb (wi_fluss0 x) zero) eqn:Hpos.
    - apply gtbR in Hpos. rsimp.
      pose proof (infil_lower (wi_draidep x) (wi_draifak x) (combine water0 (wi_w x)) lims 1
                    (wi_fluss0 x * wi_wdt x) 0 ltac:(nra) Hf) as HI.
      destruct (infil _ _ _ _ _ _) as [[w1s q1s] qd]. cbn [fst] in *. apply HI.
      apply (Forall2_of_nth _ (0, 0) 0); [rewrite combine_length; lia|].
      intros j Hj. rewrite combine_length in Hj. rewrite nth_combine by lia. cbn [fst snd].
      split; [apply H0'; lia | apply Hlim_w; lia].
    - destruct (wi_fluss0 x <? zero)%num eqn:Hneg.
      + apply ltbR in Hneg. rsimp. lra.
      + cbn [fst]. apply (Forall2_of_nth _ 0 0); [lia|]. intros j Hj. apply H0'. lia. }
  pose proof (surface_phase_spec x water0 n Hwf Lw0) as HSS.
  destruct (surface_phase x water0) as [[[water1 q1] qdrain] ev']. destruct HSS as (_ & Lw1 & Lq).
  cbn [fst] in HS.
  (* cascade *)
  unfold cascade_phase.
  assert (Ltl : length (tl q1) = length (combine water1 (wi_w x))).
  { rewrite combine_length. destruct q1; cbn in *; lia. }
  pose proof (cascade_lower (combine water1 (wi_w x)) lims zero false (tl q1) Ltl ltac:(discriminate)) as HC.
  pose proof (cascade_balance (combine water1 (wi_w x)) 0 false (tl q1) (combine_ne _ _ n Hn Lw1 Lw) Ltl) as HB.
  rsimp.
  destruct (cascade 0 false (combine water1 (wi_w x)) (tl q1)) as [water1c q1tl]. cbn [fst] in HC.
  destruct HB as (_ & Lc1 & Lc2). rewrite combine_length in Lc1, Lc2.
  assert (HCC : Forall2 (fun w1 lim => lim <= w1) water1c lims).
  { apply HC. apply (Forall2_of_nth _ (0, 0) 0); [rewrite combine_length; lia|].
    intros j Hj. rewrite combine_length in Hj. rewrite nth_combine by lia. cbn [fst snd].
    split; [exact (Forall2_get _ 0 0 _ _ HS j ltac:(lia)) | apply Hlim_w; lia]. }
  (* capillary *)
  assert (Hfin : forall water1k, Forall2 (fun w1 lim => lim <= w1) water1k lims ->
            nth i lims 0 <= get 0 (map (fun w => w / 10) water1k ++ [last (map (fun w => w / 10) water1k) 0]) i * 10).
  { intros water1k HK. pose proof (Forall2_length' _ _ _ HK) as LK.
    unfold get. rewrite app_nth1 by (rewrite map_length; lia).
    rewrite (nth_indep (map (fun w => w / 10) water1k) 0 (0 / 10)) by (rewrite map_length; lia).
    rewrite (map_nth (fun w => w / 10)).
    pose proof (Forall2_get _ 0 0 _ _ HK i ltac:(lia)) as H. cbn beta in H. lra. }
  unfold capillary_phase. cbn zeta.
  set (caplay := caplay_of 1 (wi_nfk x)).
  destruct (Nat.eqb caplay 0); [cbn [wo_wg1]; rsimp; apply Hfin; exact HCC|].
  destruct (_ <? ofZ 21)%num; [|cbn [wo_wg1]; rsimp; apply Hfin; exact HCC].
  destruct (gtb _ (dec 9 1)); [|cbn [wo_wg1]; rsimp; apply Hfin; exact HCC].
  cbn [wo_wg1]. rsimp. apply Hfin. apply upd_ge; [exact HCC|].
  match goal with |- _ <= _ + ?c => assert (0 <= c) as Hc end; [|lra].
  rewrite DZR_val.
  assert (0 <= get 0 (wi_caps x) (Z.to_nat (roundZ (Rmax (if RI.ltb (wi_grw x + 1 - IZR (Z.of_nat caplay)) 0 then 0 else wi_grw x + 1 - IZR (Z.of_nat caplay)) 1) - 1))).
  { unfold get. set (k := Z.to_nat _). clearbody k.
    destruct (Nat.lt_ge_cases k (length (wi_caps x))) as [Hk|Hk].
    - rewrite Forall_forall in Hcaps. apply Hcaps. apply nth_In. exact Hk.
    - rewrite nth_overflow by exact Hk. lra. }
  nra.
Qed.

(* ---- the invariant of a day without net evaporation ---- *)
(* [rem]: the part of the day still to come, counted from the START of the sub-step whose input is [x] *)
Definition day_inv (x : water_in (T:=R)) (n : nat) (rem : R) : Prop :=
  forall i, (i < n)%nat ->
    0 <= nth i (wi_tp x) 0 /\
    nth i (wi_wmin x) 0 / 3 * 10 + nth i (wi_tp x) 0 * rem <= nth i (wi_wg0 x) 0 * 10.

(* the day's uptake of a layer, less one sub-step, fits between field capacity and the dryness limit *)
Definition uptake_fits (x : water_in (T:=R)) (n : nat) : Prop :=
  forall i, (i < n)%nat ->
    nth i (wi_tp x) 0 * (1 - wi_wdt x) <= (nth i (wi_w x) 0 - nth i (wi_wmin x) 0 / 3) * 10.

Lemma nth_uptake_later (x : water_in (T:=R)) n i :
  wf_in x n -> wi_subd1 x = false -> (i < n)%nat ->
  nth i (snd (uptake_phase x)) 0 = nth i (wi_wg0 x) 0 * 10 - nth i (wi_tp x) 0 * wi_wdt x.
Proof.
  intros (Hn & Lwg & Ltp & Lw & Lwmin & Lnfk & Lev & Lq1) Hs Hi.
  unfold uptake_phase. cbn [snd]. rewrite Hs. rewrite map_map.
  revert i Hi Lwg Ltp Lwmin. generalize (wi_wg0 x) (wi_wmin x) (wi_tp x). clear.
  induction n as [|n IH]; intros wg wm tp i Hi Lwg Ltp Lwmin; [lia|].
  destruct wg as [|a wg], wm as [|b wm], tp as [|c tp]; cbn in *; try lia.
  destruct i as [|i].
  - unfold uptake_layer. cbn [snd]. rsimp. fold DZR. rewrite ?DZR_val. unfold DZ. rsimp. lra.
  - apply IH; lia.
Qed.

Lemma later_step_inv (x : water_in (T:=R)) n rem :
  wf_in x n -> params_ok x -> 0 <= wi_fluss0 x -> wi_subd1 x = false ->
  wi_wdt x <= rem <= 1 ->
  day_inv x n rem -> uptake_fits x n ->
  (forall i, (i < n)%nat ->
     nth i (wi_wmin x) 0 / 3 * 10 + nth i (wi_tp x) 0 * (rem - wi_wdt x) <= get 0 (wo_wg1 (water_step x)) i * 10).
Proof.
  intros Hwf Hp Hfl Hs Hrem Hinv Hfit i Hi.
  pose proof Hwf as (Hn & Lwg & Ltp & Lw & Lwmin & Lnfk & Lev & Lq1).
  pose proof Hp as (Hwdt & _ & _ & Hwm).
  set (lims := map (fun p : R * R => fst p / 3 * 10 + snd p * (rem - wi_wdt x)) (combine (wi_wmin x) (wi_tp x))).
  assert (Llims : length lims = n) by (unfold lims; rewrite map_length, combine_length; lia).
  assert (Hnth : forall j, (j < n)%nat ->
            nth j lims 0 = nth j (wi_wmin x) 0 / 3 * 10 + nth j (wi_tp x) 0 * (rem - wi_wdt x)).
  { intros j Hj. unfold lims.
    rewrite (nth_indep _ 0 ((fun p : R * R => fst p / 3 * 10 + snd p * (rem - wi_wdt x)) (0, 0)))
      by (rewrite map_length, combine_length; lia).
    rewrite (map_nth (fun p : R * R => fst p / 3 * 10 + snd p * (rem - wi_wdt x))).
    rewrite nth_combine by lia. reflexivity. }
  rewrite <- (Hnth i Hi).
  apply (nonevap_lower_lims x n lims Hwf Hp Hfl Llims); [| |exact Hi].
  - intros j Hj. rewrite (Hnth j Hj), (nth_uptake_later x n j Hwf Hs Hj).
    destruct (Hinv j Hj) as [Htp Hj']. nra.
  - intros j Hj. rewrite (Hnth j Hj).
    destruct (Hinv j Hj) as [Htp _]. specialize (Hfit j Hj).
    assert (nth j (wi_tp x) 0 * (rem - wi_wdt x) <= nth j (wi_tp x) 0 * (1 - wi_wdt x)) by nra.
    lra.
Qed.

(* the invariant carries over to the next sub-step's input *)
Lemma later_step_next (x : water_in (T:=R)) n rem :
  wf_in x n -> params_ok x -> 0 <= wi_fluss0 x -> wi_subd1 x = false ->
  wi_wdt x <= rem <= 1 ->
  day_inv x n rem -> uptake_fits x n ->
  let x' := water_next x (water_step x) in
  day_inv x' n (rem - wi_wdt x) /\ uptake_fits x' n /\ params_ok x' /\ wi_fluss0 x' = wi_fluss0 x /\ wi_wdt x' = wi_wdt x.
Proof.
  intros Hwf Hp Hfl Hs Hrem Hinv Hfit x'.
  pose proof (later_step_inv x n rem Hwf Hp Hfl Hs Hrem Hinv Hfit) as HL.
  pose proof (water_step_tp_later x n Hwf Hs) as Htp.
  pose proof (water_step_balance_lemma x n Hwf) as (_ & L1 & _).
  pose proof Hwf as (Hn & Lwg & Ltp & Lw & Lwmin & Lnfk & Lev & Lq1).
  assert (Hwg : forall i, (i < n)%nat -> nth i (wi_wg0 x') 0 = get 0 (wo_wg1 (water_step x)) i).
  { intros i Hi. unfold x', water_next. cbn [wi_wg0]. rewrite Lwg. unfold get.
    rewrite <- (firstn_skipn n (wo_wg1 (water_step x))) at 2.
    rewrite app_nth1; [reflexivity | rewrite firstn_length; lia]. }
  repeat split.
  - unfold x', water_next at 1. cbn [wi_tp]. rewrite Htp. exact (proj1 (Hinv i H)).
  - rewrite (Hwg i H). unfold x', water_next. cbn [wi_tp wi_wmin]. rewrite Htp. exact (HL i H).
  - intros i Hi. unfold x', water_next. cbn [wi_tp wi_wmin wi_w wi_wdt]. rewrite Htp. exact (Hfit i Hi).
  - unfold x', water_next. cbn. exact (proj1 Hp).
  - unfold x', water_next. cbn. exact (proj1 (proj1 (proj2 Hp))).
  - unfold x', water_next. cbn. exact (proj2 (proj1 (proj2 Hp))).
  - unfold x', water_next. cbn. exact (proj1 (proj2 (proj2 Hp))).
  - unfold x', water_next. cbn. exact (proj2 (proj2 (proj2 Hp))).
Qed.

(* every later sub-step of the day ends with every layer at or above its dryness limit *)
Lemma later_steps_lower k : forall (x : water_in (T:=R)) n rem,
  wf_in x n -> params_ok x -> 0 <= wi_fluss0 x -> wi_subd1 x = false ->
  INR k * wi_wdt x <= rem <= 1 ->
  day_inv x n rem -> uptake_fits x n ->
  Forall (fun o => forall i, (i < n)%nat -> nth i (wi_wmin x) 0 / 3 <= get 0 (wo_wg1 o) i) (water_iter k x).
Proof.
  induction k as [|k IH]; intros x n rem Hwf Hp Hfl Hs Hrem Hinv Hfit; [constructor|].
  pose proof Hp as (Hwdt & _).
  rewrite S_INR in Hrem.
  assert (Hrem1 : wi_wdt x <= rem <= 1).
  { pose proof (pos_INR k). nra. }
  cbn [water_iter]. constructor.
  - intros i Hi. pose proof (later_step_inv x n rem Hwf Hp Hfl Hs Hrem1 Hinv Hfit i Hi) as H.
    destruct (Hinv i Hi) as [Htp _].
    assert (0 <= nth i (wi_tp x) 0 * (rem - wi_wdt x)) by nra. lra.
  - destruct (later_step_next x n rem Hwf Hp Hfl Hs Hrem1 Hinv Hfit) as (Hinv' & Hfit' & Hp' & Hfl' & Hw').
    destruct (water_next_wf x n Hwf) as [Hwf' Hs'].
    specialize (IH (water_next x (water_step x)) n (rem - wi_wdt x) Hwf' Hp' ltac:(rewrite Hfl'; exact Hfl) Hs'
                  ltac:(rewrite Hw'; pose proof (pos_INR k); nra) Hinv' Hfit').
    exact IH.
Qed.

(* ---- the first sub-step: the clamp establishes the invariant ---- *)
Lemma nth_uptake_first (x : water_in (T:=R)) n i :
  wf_in x n -> wi_subd1 x = true -> (i < n)%nat ->
  let tp := nth i (wi_tp x) 0 in let wg0 := nth i (wi_wg0 x) 0 in let wmin := nth i (wi_wmin x) 0 in
  let tp' := if RI.ltb ((wg0 - wmin) * 10) tp then (if RI.ltb wg0 wmin then 0 else (wg0 - wmin) * 10) else tp in
  nth i (fst (uptake_phase x)) 0 = tp' /\ nth i (snd (uptake_phase x)) 0 = wg0 * 10 - tp' * wi_wdt x.
Proof.
  intros (Hn & Lwg & Ltp & Lw & Lwmin & Lnfk & Lev & Lq1) Hs Hi.
  unfold uptake_phase. cbn [fst snd]. rewrite Hs. rewrite !map_map.
  revert i Hi Lwg Ltp Lwmin. generalize (wi_wg0 x) (wi_wmin x) (wi_tp x). clear.
  induction n as [|n IH]; intros wg wm tp i Hi Lwg Ltp Lwmin; [lia|].
  destruct wg as [|a wg], wm as [|b wm], tp as [|c tp]; cbn [length] in *; try lia.
  destruct i as [|i].
  - cbn [combine map nth]. unfold uptake_layer, DZ. cbn [fst snd]. rsimp. fold DZR. rewrite ?DZR_val. split; reflexivity.
  - cbn [combine map nth]. apply IH; lia.
Qed.

(* the whole day: sub-step 1 with the clamp, then k more sub-steps *)
Lemma day_lower_nonevap_lemma (x : water_in (T:=R)) n k :
  wf_in x n -> params_ok x -> 0 <= wi_fluss0 x -> wi_subd1 x = true ->
  INR (S k) * wi_wdt x <= 1 ->
  Forall (fun wmin => 0 <= wmin) (wi_wmin x) ->
  Forall (fun tp => 0 <= tp) (wi_tp x) ->
  Forall2 (fun wg0 wmin => wmin / 3 <= wg0) (wi_wg0 x) (wi_wmin x) ->
  (forall i, (i < n)%nat ->
     nth i (wo_tp (water_step x)) 0 * (1 - wi_wdt x) <= (nth i (wi_w x) 0 - nth i (wi_wmin x) 0 / 3) * 10) ->
  Forall (fun o => forall i, (i < n)%nat -> nth i (wi_wmin x) 0 / 3 <= get 0 (wo_wg1 o) i) (water_iter (S k) x).
Proof.
  intros Hwf Hp Hfl Hs Hk Hwmin Htp Hstart Hfit.
  pose proof Hwf as (Hn & Lwg & Ltp & Lw & Lwmin & Lnfk & Lev & Lq1).
  pose proof Hp as (Hwdt & _).
  rewrite S_INR in Hk.
  assert (Hwdt1 : wi_wdt x <= 1) by (pose proof (pos_INR k); nra).
  (* facts about the clamped uptake of sub-step 1 *)
  assert (Hc : forall i, (i < n)%nat ->
            0 <= nth i (fst (uptake_phase x)) 0 /\
            nth i (wi_wmin x) 0 / 3 * 10 + nth i (fst (uptake_phase x)) 0 * (1 - wi_wdt x) <= nth i (snd (uptake_phase x)) 0).
  { intros i Hi. destruct (nth_uptake_first x n i Hwf Hs Hi) as [E1 E2]. rewrite E1, E2.
    pose proof (Forall2_get _ 0 0 _ _ Hstart i ltac:(lia)) as Hst. cbn beta in Hst.
    assert (Hm : 0 <= nth i (wi_wmin x) 0).
    { rewrite Forall_forall in Hwmin. apply Hwmin. apply nth_In. lia. }
    assert (Ht : 0 <= nth i (wi_tp x) 0).
    { rewrite Forall_forall in Htp. apply Htp. apply nth_In. lia. }
    destruct (RI.ltb_spec ((nth i (wi_wg0 x) 0 - nth i (wi_wmin x) 0) * 10) (nth i (wi_tp x) 0)) as [Hc|Hc].
    - destruct (RI.ltb_spec (nth i (wi_wg0 x) 0) (nth i (wi_wmin x) 0)) as [Hlt|Hge]; split; nra.
    - split; nra. }
  assert (Htp1 : wo_tp (water_step x) = fst (uptake_phase x)).
  { unfold water_step. destruct (uptake_phase x) as [tp' water0].
    destruct (surface_phase x water0) as [[[water1 q1] qdrain] ev'].
    destruct (cascade_phase x water1 q1) as [water1c q1c].
    destruct (capillary_phase x water1c q1c) as [[[water1k q1k] capterm] caplay]. reflexivity. }
  (* sub-step 1 through the generalised floor lemma *)
  set (lims := map (fun p : R * R => fst p / 3 * 10 + snd p * (1 - wi_wdt x)) (combine (wi_wmin x) (fst (uptake_phase x)))).
  pose proof (uptake_phase_spec x n Hwf) as HU.
  assert (Lup : length (fst (uptake_phase x)) = n /\ length (snd (uptake_phase x)) = n).
  { destruct (uptake_phase x) as [a b]. cbn [fst snd]. destruct HU as (_ & ? & ?). split; assumption. }
  destruct Lup as [Lup1 Lup2].
  assert (Llims : length lims = n) by (unfold lims; rewrite map_length, combine_length; lia).
  assert (Hnth : forall j, (j < n)%nat ->
            nth j lims 0 = nth j (wi_wmin x) 0 / 3 * 10 + nth j (fst (uptake_phase x)) 0 * (1 - wi_wdt x)).
  { intros j Hj. unfold lims.
    rewrite (nth_indep _ 0 ((fun p : R * R => fst p / 3 * 10 + snd p * (1 - wi_wdt x)) (0, 0)))
      by (rewrite map_length, combine_length; lia).
    rewrite (map_nth (fun p : R * R => fst p / 3 * 10 + snd p * (1 - wi_wdt x))).
    rewrite nth_combine by lia. reflexivity. }
  assert (H1 : forall i, (i < n)%nat -> nth i lims 0 <= get 0 (wo_wg1 (water_step x)) i * 10).
  { apply (nonevap_lower_lims x n lims Hwf Hp Hfl Llims).
    - intros j Hj. rewrite (Hnth j Hj). exact (proj2 (Hc j Hj)).
    - intros j Hj. rewrite (Hnth j Hj). specialize (Hfit j Hj). rewrite Htp1 in Hfit. lra. }
  cbn [water_iter]. constructor.
  - intros i Hi. specialize (H1 i Hi). rewrite (Hnth i Hi) in H1.
    destruct (Hc i Hi) as [Hc0 _].
    assert (0 <= nth i (fst (uptake_phase x)) 0 * (1 - wi_wdt x)) by nra. lra.
  - destruct (water_next_wf x n Hwf) as [Hwf' Hs'].
    set (x' := water_next x (water_step x)) in *.
    assert (Ex : wi_wmin x' = wi_wmin x /\ wi_wdt x' = wi_wdt x /\ wi_fluss0 x' = wi_fluss0 x /\ wi_w x' = wi_w x /\
                 wi_tp x' = fst (uptake_phase x)).
    { unfold x', water_next. cbn [wi_wmin wi_wdt wi_fluss0 wi_w wi_tp]. rewrite Htp1. repeat split. }
    destruct Ex as (Em & Ew & Ef & EW & Et).
    assert (Hp' : params_ok x').
    { unfold params_ok. rewrite Ew, EW, Em. unfold x', water_next. cbn [wi_draifak wi_caps]. exact Hp. }
    assert (Hwg : forall i, (i < n)%nat -> nth i (wi_wg0 x') 0 = get 0 (wo_wg1 (water_step x)) i).
    { intros i Hi. unfold x', water_next. cbn [wi_wg0]. rewrite Lwg. unfold get.
      rewrite <- (firstn_skipn n (wo_wg1 (water_step x))) at 2.
      rewrite app_nth1; [reflexivity|].
      pose proof (water_step_balance_lemma x n Hwf) as (_ & L1 & _). rewrite firstn_length. lia. }
    pose proof (later_steps_lower k x' n (1 - wi_wdt x) Hwf' Hp' ltac:(rewrite Ef; exact Hfl) Hs'
                  ltac:(rewrite Ew; lra)) as HL.
    rewrite Em in HL. apply HL.
    + intros i Hi. rewrite Et, Em, (Hwg i Hi). split; [exact (proj1 (Hc i Hi))|].
      specialize (H1 i Hi). rewrite (Hnth i Hi) in H1. exact H1.
    + intros i Hi. rewrite Et, Ew, EW, Em. specialize (Hfit i Hi). rewrite Htp1 in Hfit. exact Hfit.
Qed.

(* ---- days with net evaporation: with an evaporation profile chosen freely the day-level bound fails ---- *)
(* binary64 (the semantics the code runs), two sub-steps of 1/2, three layers.  Layer 1 dries to its limit in the
   second sub-step and hands its unmet demand to layer 2 unscaled by wdt (water.go:877), layer 2 then takes the
   whole remaining flux and the chain stops above layer 3, which evaporation had lowered to 0.00105 in sub-step 1
   and whose (clamped, legitimate) uptake of the second sub-step takes it to 0.0008 < WMIN/3 = 0.001. *)
From Coq Require Import Floats.
Set Warnings "-inexact-float".
Definition evap_day_witness : water_in (T:=float) :=
  {| wi_subd1 := true; wi_wdt := 0.5%float; wi_after_sow := false;
     wi_fluss0 := (-0.6)%float; wi_grw := 99%float; wi_draidep := 0; wi_draifak := 0%float; wi_outn := 3;
     wi_gwauf := 0%float; wi_eta := 0%float;
     wi_wg0 := [0.03; 0.2; 0.0035]%float;
     wi_tp := [0; 0; 0.005]%float;
     wi_w := [0.3; 0.3; 0.3]%float;
     wi_wmin := [0.03; 0.03; 0.003]%float;
     wi_nfk := [1; 1; 1]%float;
     wi_ev := [0.3; 0.253; 0.044; 0]%float;
     wi_q1 := [0; 0; 0; 0]%float;
     wi_caps := repeat 0%float 21 |}.

Definition third_layer_after (k : nat) : float :=
  nth 2 (wo_wg1 (nth (k - 1) (water_iter k evap_day_witness) (water_step evap_day_witness))) 0%float.

Lemma evap_day_refuted_lemma :
  (* starts above its dryness limit (and above the wilting point), evaporation profile sums to no more than the flux *)
  PrimFloat.leb (0.003 / 3)%float 0.0035%float = true /\
  PrimFloat.leb (0.3 + 0.253 + 0.044)%float 0.6%float = true /\
  (* after sub-step 1 still above the limit, after sub-step 2 below it *)
  PrimFloat.leb (0.003 / 3)%float (third_layer_after 1) = true /\
  PrimFloat.ltb (third_layer_after 2) (0.003 / 3)%float = true.
Proof. vm_compute. repeat split. Qed.
