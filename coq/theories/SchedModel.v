(* SchedModel.v — executable model of how Hermes2Go reads the management event files of one field
   and carries the events out in the day loop (property C10).  No proofs in this file.

   Go sources mirrored (line numbers of /repo at the time of writing):
     hermes/input.go:304-331   irrigation reader   (ANZBREG, ZTBR/BREG/BRKZ), :591-604 pre-start compaction
     hermes/input.go:643-674   tillage reader      (NRTIL, EINTE[1..]/EINT/TILART) + same-day shift loop
     hermes/input.go:676-710   fertiliser reader   (NDu, ZTDG/DGMG/DGART, slot 0 = residues of the
                                                    initial crop dated BEGINN) + shift loop + dueng
     hermes/input.go:1512-1529 dueng               (fertiliser table lookup and split)
     hermes/helper.go:30-41    NextLineInut        (a line without tokens is "not valid")
     hermes/nitro.go:56-69     fertiliser firing   zeit == ZTDG[NDG]+1 && subd == 1
     hermes/nitro.go:245-281   tillage firing      zeit == EINTE[NTIL+1]+1 && subd == 1
     hermes/run.go:454-468     irrigation          ZEIT == ZTBR[NBR-1]  (once per day, before Evatra)
     hermes/run.go:472-475     deposition
   Go ints are modelled on Z (all values are day numbers < 2^31); Go arrays are zero-initialised
   and modelled as total functions Z -> A (only slots inside the array bounds are ever touched as
   long as a field has fewer events than the array has slots: 299 fertiliser, 199 tillage, 499
   irrigation events — assumption of the model, see lib/props/c10.py). *)
From Coq Require Import ZArith List Bool String.
From Hermes Require Import Num.
Import ListNotations.
Open Scope Z_scope.

Definition upd {A} (f : Z -> A) (i : Z) (v : A) : Z -> A := fun j => if j =? i then v else f j.

(* ------------------------------------------------------------------------------------------ *)
(* the three readers share one shape                                                           *)

Section Reader.
  Context {P : Type}.

  (* a line of the event file as the reader of field PKT sees it:
     Mine  = first token equals PKT (date already converted by g.Datum, payload = other columns)
     Other = at least one token, first token differs (another field, "end", a unit line)
     Blank = no token (NextLineInut returns valid = false) *)
  Inductive line := Mine (d : Z) (p : P) | Other | Blank.

  (* count, date array, payload array; slot k is the k-th array slot in the reader's counting:
       fertiliser  ZTDG[k], DGMG[k], DGART[k]      (count NDu starts at 1: slot 0 is the residue event)
       tillage     EINTE[k+1], EINT[k], TILART[k]  (count NRTIL starts at 0)
       irrigation  ZTBR[k], BREG[k], BRKZ[k]       (count ANZBREG starts at 0) *)
  Record rd := { rd_n : Z; rd_date : Z -> Z; rd_pay : Z -> P }.

  (* body of the inner loop for one matching line (input.go:313-322, 654-663, 687-696):
       count++ ; arrays[count-1] = line ; if date < BEGINN { count-- } *)
  Definition rd_line (B : Z) (s : rd) (d : Z) (p : P) : rd :=
    let n1 := rd_n s + 1 in
    let idx := n1 - 1 in
    {| rd_n := if d <? B then n1 - 1 else n1;
       rd_date := upd (rd_date s) idx d;
       rd_pay := upd (rd_pay s) idx p |}.

  (* outer scan "for id, tok, valid := Next(); valid; id, tok, valid = Next()" with the inner loop
     "for ok := id == PKT; ok; ok = id == PKT && valid { ...; id, tok, valid = Next() }".
     [outer] says which loop reads the next line: after a matching line the inner loop reads,
     after any other line the outer loop's post statement reads.  A Blank line read by the outer
     loop ends the scan; read by the inner loop it only ends the block. *)
  Fixpoint rd_scan (B : Z) (outer : bool) (ls : list line) (s : rd) : rd :=
    match ls with
    | [] => s
    | Mine d p :: r => rd_scan B false r (rd_line B s d p)
    | Other :: r => rd_scan B true r s
    | Blank :: r => if outer then s else rd_scan B true r s
    end.

  (* same-day shift loop, as repaired by /repo 0cb3a63 (input.go: tillage "for i := 2; i <= NRTIL; i++ { if
     EINTE[i] <= EINTE[i-1] { EINTE[i] = EINTE[i-1]+1 } }", fertiliser "for i := 1; i < NDu; i++ { if ZTDG[i] <=
     ZTDG[i-1] { ZTDG[i] = ZTDG[i-1]+1 } }"): in slot numbering both run over the valid slots 1 .. count-1 and
     compare slot k+1 with slot k (k = 0 .. count-2) — one pass, left to right; the slot after the last valid
     one is not touched *)
  Fixpoint shift_arr (k : Z) (cnt : nat) (a : Z -> Z) : Z -> Z :=
    match cnt with
    | O => a
    | S c => shift_arr (k + 1) c (if a (k + 1) <=? a k then upd a (k + 1) (a k + 1) else a)
    end.
  Definition shift_all (n : Z) (a : Z -> Z) : Z -> Z := shift_arr 0 (Z.to_nat (n - 1)) a.

  (* compaction of the irrigation arrays once BEGINN is known (/repo 1398842, input.go:591-604):
       kept := 0; for i := 0; i < ANZBREG; i++ { if ZTBR[i] >= BEGINN { arrays[kept] = arrays[i]; kept++ } } *)
  Fixpoint compact (B : Z) (i : Z) (cnt : nat) (kept : Z) (d : Z -> Z) (p : Z -> P) : Z * (Z -> Z) * (Z -> P) :=
    match cnt with
    | O => (kept, d, p)
    | S c => if B <=? d i then compact B (i + 1) c (kept + 1) (upd d kept (d i)) (upd p kept (p i))
             else compact B (i + 1) c kept d p
    end.
End Reader.
Arguments line : clear implicits.
Arguments rd : clear implicits.

Section Readers.
  Context {P : Type} (dflt : P).
  Definition arr0 : Z -> Z := fun _ => 0.
  Definition pay0 : Z -> P := fun _ => dflt.

  (* fertiliser: ZTDG[0] = BEGINN (input.go:593), residue payload p0 (residi), NDu := 1 *)
  Definition fert_read (B : Z) (p0 : P) (ls : list (line P)) : rd P :=
    let s := rd_scan B true ls {| rd_n := 1; rd_date := upd arr0 0 B; rd_pay := upd pay0 0 p0 |} in
    {| rd_n := rd_n s; rd_date := shift_all (rd_n s) (rd_date s); rd_pay := rd_pay s |}.

  (* tillage: NRTIL := 0; after the shift loop EINTE[NRTIL+1] = 0 clears the slot after the last kept event
     (/repo 8d06013); the payload arrays EINT/TILART keep what a dropped line left there *)
  Definition till_read (B : Z) (ls : list (line P)) : rd P :=
    let s := rd_scan B true ls {| rd_n := 0; rd_date := arr0; rd_pay := pay0 |} in
    {| rd_n := rd_n s; rd_date := upd (shift_all (rd_n s) (rd_date s)) (rd_n s) 0; rd_pay := rd_pay s |}.

  (* irrigation: ANZBREG := 0, no shift loop.  The file is read (input.go:304-331) while g.BEGINN is still 0, so
     the reader itself drops nothing and zeroes the slots ANZBREG..499; after "g.BEGINN = g.ERNTE[0]" the slots
     dated before BEGINN are removed by compaction (order kept), the freed tail is zeroed, ANZBREG updated *)
  Definition irr_read (B : Z) (ls : list (line P)) : rd P :=
    let s := rd_scan 0 true ls {| rd_n := 0; rd_date := arr0; rd_pay := pay0 |} in
    let '(kept, d, p) := compact B 0 (Z.to_nat (rd_n s)) 0 (rd_date s) (rd_pay s) in
    {| rd_n := kept;
       rd_date := fun j => if j <? kept then d j else 0;
       rd_pay := fun j => if j <? kept then p j else dflt |}.
End Readers.

(* ------------------------------------------------------------------------------------------ *)
(* cursors and firing conditions over the day loop                                             *)

Section Firing.
  (* [a] date array in slot numbering, [delta] = 1 for fertiliser/tillage (zeit == date+1), 0 for
     irrigation; a fired event is (day, sub-step, slot). *)
  Variable a : Z -> Z.
  Variable delta : Z.

  (* the sub-step loop "for SUBD := 1; SUBD <= STEPS; SUBD++ { ...Nitro(WDT, SUBD, ZEIT...) }":
     the test "zeit == date[cursor]+1 && subd == 1" is evaluated in every sub-step *)
  Fixpoint sub_steps (z subd : Z) (cnt : nat) (c : Z) : Z * list (Z * Z * Z) :=
    match cnt with
    | O => (c, [])
    | S k =>
        if (z =? a c + delta) && (subd =? 1)
        then let '(c', l) := sub_steps z (subd + 1) k (c + 1) in (c', (z, subd, c) :: l)
        else sub_steps z (subd + 1) k c
    end.

  (* "for ZEIT := BEGINN; ZEIT <= ENDE; ZEIT++": [fuel] = number of days still to run,
     [steps z] = number of sub-steps of day z (an oracle input; >= 1 in the real loop) *)
  Fixpoint run_days (steps : Z -> nat) (fuel : nat) (z c : Z) : Z * list (Z * Z * Z) :=
    match fuel with
    | O => (c, [])
    | S f =>
        let '(c1, l1) := sub_steps z 1 (steps z) c in
        let '(c2, l2) := run_days steps f (z + 1) c1 in (c2, l1 ++ l2)
    end.

  (* the irrigation test is outside the sub-step loop: once per day *)
  Fixpoint run_days_once (fuel : nat) (z c : Z) : Z * list (Z * Z * Z) :=
    match fuel with
    | O => (c, [])
    | S f =>
        if z =? a c + delta
        then let '(c2, l2) := run_days_once f (z + 1) (c + 1) in (c2, (z, 0, c) :: l2)
        else run_days_once f (z + 1) c
    end.
End Firing.

Definition ndays (B E : Z) : nat := Z.to_nat (E - B + 1).

(* all fertiliser / tillage / irrigation firings of a run BEGINN..ENDE, cursors starting at slot 0
   (NDG.Index = 0, NTIL.Index = 0, NBR-1 = 0) *)
Definition fert_fired (a : Z -> Z) (steps : Z -> nat) (B E : Z) := snd (run_days a 1 steps (ndays B E) B 0).
Definition till_fired (a : Z -> Z) (steps : Z -> nat) (B E : Z) := snd (run_days a 1 steps (ndays B E) B 0).
Definition irr_fired (a : Z -> Z) (B E : Z) := snd (run_days_once a 0 (ndays B E) B 0).

(* ------------------------------------------------------------------------------------------ *)
(* payloads                                                                                    *)

Section Payload.
  Context {T : Type} {N : Num T}.
  Local Open Scope num_scope.

  (* a row of FERTILIZ.TXT: Typ Ntot Ndir Nfst Nslo NH4 Loss *)
  Record frow := { f_name : string; f_ntot : T; f_ndir : T; f_nfst : T; f_nslo : T; f_nh4 : T; f_loss : T }.
  Record fpay := { p_ndir : T; p_nh4n : T; p_nsas : T; p_nlas : T }.
  Definition fpay0 : fpay := {| p_ndir := zero; p_nh4n := zero; p_nsas := zero; p_nlas := zero |}.

  (* input.go:1519-1526, Go evaluates a*b*c as (a*b)*c *)
  Definition dueng_row (dgmg : T) (r : frow) : fpay :=
    let norg := f_ntot r in
    let vol := f_loss r in
    let ndir0 := (dgmg * norg) * f_ndir r in
    let nh4n := (ndir0 * f_nh4 r) * (one - vol) in
    let ndir := ndir0 - (ndir0 * f_nh4 r) * vol in
    {| p_ndir := ndir; p_nh4n := nh4n;
       p_nsas := ((dgmg * norg) - ndir) * f_nfst r;
       p_nlas := ((dgmg * norg) - ndir) * f_nslo r |}.

  (* the table scan has no break: the last row with that name wins; no row: arrays stay zero *)
  Fixpoint dueng (tab : list frow) (name : string) (dgmg : T) (cur : fpay) : fpay :=
    match tab with
    | [] => cur
    | r :: t => dueng t name dgmg (if String.eqb (f_name r) name then dueng_row dgmg r else cur)
    end.

  (* input.go:690  DGMG = amount * DUNGSZEN,  config.go:114  DUNGSZEN = Fertilization / 100 *)
  Definition dungszen (fertilization : T) : T := fertilization / ofZ 100.
  Definition fert_payload (tab : list frow) (fertilization amount : T) (name : string) : fpay :=
    dueng tab name (amount * dungszen fertilization) fpay0.

  (* nitro.go:58-68 *)
  Record nstate := { s_dsumm : T; s_nh4sum : T; s_nfos0 : T; s_naos0 : T; s_nfertsim : T }.
  Definition apply_fert (s : nstate) (p : fpay) : nstate :=
    {| s_nfos0 := s_nfos0 s + p_nsas p; s_naos0 := s_naos0 s + p_nlas p;
       s_dsumm := s_dsumm s + p_ndir p; s_nfertsim := s_nfertsim s + p_ndir p;
       s_nh4sum := s_nh4sum s + p_nh4n p |}.

  Definition nitro_fert (a : Z -> Z) (pay : Z -> fpay) (z subd c : Z) (s : nstate) : nstate * Z :=
    if (z =? a c + 1)%Z && (subd =? 1)%Z then (apply_fert s (pay c), (c + 1)%Z) else (s, c).

  (* run.go:454-475: REGEN[TAG] += BREG/10 ; n = BRKZ*BREG*0.01 ; if n > 0 { C1[0] += n } ; NBR++ ;
     then C1[0] += DEPOS/365*DT ; if C1[0] < 0 { C1[0] = 0 } *)
  Record istate := { s_regen : T; s_c10 : T }.
  Definition irr_n (breg brkz : T) : T := (brkz * breg) * dec 1 2.
  Definition apply_irr (s : istate) (breg brkz : T) : istate :=
    let n := irr_n breg brkz in
    {| s_regen := s_regen s + breg / ofZ 10; s_c10 := if zero <? n then s_c10 s + n else s_c10 s |}.
  Definition run_irr (a : Z -> Z) (breg brkz : Z -> T) (z c : Z) (s : istate) : istate * Z :=
    if (z =? a c)%Z then (apply_irr s (breg c) (brkz c), (c + 1)%Z) else (s, c).
  Definition deposition (depos dt c10 : T) : T :=
    let v := c10 + (depos / ofZ 365) * dt in if v <? zero then zero else v.
End Payload.
Arguments frow : clear implicits.
Arguments fpay : clear implicits.
Arguments nstate : clear implicits.
Arguments istate : clear implicits.

(* ------------------------------------------------------------------------------------------ *)
(* tillage date under automatic harvest (nitro.go:231-249, after /repo F35), evaluated in sub-step 1 before the firing test:
   a tillage that is due today while the crop is in the ground and its harvest is not yet known waits (+2 days); a tillage
   date inside (sowing, harvest] is put on the day after the harvest when the harvest is automatic and the date has not passed,
   otherwise the run ends with an error (None) *)
Definition till_adapt (z saat ernte einte : Z) (autohar : bool) : option Z :=
  let e1 := if (z =? einte) && (0 <? saat) && (saat <=? z) && (ernte =? 0) then einte + 2 else einte in
  if (0 <? saat) && (saat <? e1) && (e1 <=? ernte)
  then (if autohar && (z <=? e1) then Some (ernte + 1) else None)
  else Some e1.
