(* HydroModel.v — the hydraulic-parameter part of hermes.Hydro (input.go:1152-1419), the three assignment
   routes of Input (input.go:194-292), Init's first groundwater adjustment (init.go:22) and the daily
   groundwater update of the day loop (run.go:362-412), written once over Num.
   Not modelled: file scanning (the HYPAR.TRU rows arrive as the record the fixed columns parse to — the
   translator in lib/props/c15.py re-reads the shipped file with the same column positions and the kernel
   correspondence compares the result with the real Hydro on every row), CAPS/WUMAX/IZM/PROP/AD, and the
   `FELDW == 0 -> take the horizon above` patch (input.go:200-202; FELDW > 0 is part of the generated table check). *)
From Coq Require Import ZArith List Bool Ascii.
From Hermes Require Import Num WaterModel PtfModel.
Import ListNotations.
Local Open Scope char_scope.

(* a HYPAR.TRU row: columns [4:6] [7:9] [10:12] = FK for density classes 1-2 / 3 / 4-5 (percent), [13:15] [16:18]
   [19:21] = nFK, [22:24] [25:27] [28:30] = pore volume *)
Record hyrow := { h_fk1 : Z; h_fk3 : Z; h_fk4 : Z; h_nfk1 : Z; h_nfk3 : Z; h_nfk4 : Z; h_pv1 : Z; h_pv3 : Z; h_pv4 : Z }.

Definition texture := (ascii * ascii * ascii)%type.
Definition tex_eqb (a b : texture) : bool :=
  let '(a0, a1, a2) := a in let '(b0, b1, b2) := b in Ascii.eqb a0 b0 && Ascii.eqb a1 b1 && Ascii.eqb a2 b2.

(* (FK, nFK, GPV) in percent for a bulk density class (input.go:1194-1206); other classes leave the fields untouched *)
Definition row_for_ld (ld : Z) (r : hyrow) : option (Z * Z * Z) :=
  if (ld =? 1)%Z || (ld =? 2)%Z then Some (h_fk1 r, h_nfk1 r, h_pv1 r)
  else if (ld =? 3)%Z then Some (h_fk3 r, h_nfk3 r, h_pv3 r)
  else if (ld =? 4)%Z || (ld =? 5)%Z then Some (h_fk4 r, h_nfk4 r, h_pv4 r)
  else None.

(* which correction rule of Hydro a texture falls under (the nesting of input.go:1217-1410) *)
Inductive tkind := KSandA | KSandB | KSilt | KLoam | KClayPlain | KClayU23 | KClayU4 | KNone.

Definition tex_kind (t : texture) : tkind :=
  let '(a, b, c) := t in
  let is x y := Ascii.eqb x y in
  if is a "S" then
    (* SL2, S?U.., "SG ", "SM ", "SF " : input.go:1232 *)
    if tex_eqb t ("S", "L", "2") || is b "U" || tex_eqb t ("S", "G", " ") || tex_eqb t ("S", "M", " ")
       || tex_eqb t ("S", "F", " ") then KSandA else KSandB
  else if is a "U" then KSilt
  else if is a "L" then KLoam
  else if tex_eqb t ("T", " ", " ") || tex_eqb t (" ", "T", " ") || tex_eqb t (" ", " ", "T") then KClayPlain
  else if is a "T" then
    if is b "U" || is b "u" then
      (if is c "2" || is c "3" then KClayU23 else if is c "4" then KClayU4 else KClayPlain)
    else KClayPlain
  else KNone.

Definition tex_is_sand (t : texture) : bool := let '(a, _, _) := t in Ascii.eqb a "S".

Section Hydro.
  Context {T : Type} {NT : Num T}.
  Local Open Scope num_scope.
  Local Notation "'#' m '/' k" := (dec m k) (at level 9, m at level 0, k at level 0).

  (* KRR (added to field capacity, percent) and KRG (added to pore volume, percent) *)
  Definition krr_krg (k : tkind) (grw c : T) : T * T :=
    let z := ofZ 0 in
    match k with
    | KSandA | KSandB =>
        let krr := if grw <? ofZ 9 then ofZ 2
                   else if geb grw (ofZ 20) && (grw <? ofZ 30) then ofZ (-1)
                   else if geb grw (ofZ 30) then ofZ (-2) else z in
        match k with
        | KSandA =>
            if gtb c #46/1 then (krr + ofZ 10, ofZ 10)
            else if gtb c #23/1 then (krr + #75/1, #65/1)
            else if gtb c #116/2 then (krr + #35/1, #25/1)
            else (krr, z)
        | _ =>
            if gtb c #46/1 then (krr + #115/1, ofZ 14)
            else if gtb c #23/1 then (krr + ofZ 8, ofZ 10)
            else if gtb c #116/2 then (krr + #35/1, #45/1)
            else if gtb c #58/2 then (krr + #15/1, #150/2)
            else (krr, z)
        end
    | KSilt =>
        let krr := if grw <? ofZ 8 then ofZ 1 else if gtb grw (ofZ 35) then ofZ (-1) else z in
        (if gtb c #52/1 then krr + ofZ 12
         else if gtb c #46/1 then krr + ofZ 7
         else if gtb c #35/1 then krr + ofZ 5
         else if gtb c #23/1 then krr + ofZ 1 else krr, z)
    | KLoam =>
        let krr := if grw <? ofZ 8 then ofZ 1 else z in
        (if gtb c #46/1 then krr + ofZ 7
         else if gtb c #35/1 then krr + ofZ 4
         else if gtb c #23/1 then krr + ofZ 1 else krr, z)
    | KClayPlain => (if grw <? ofZ 8 then ofZ 1 else z, z)
    | KClayU23 =>
        let krr := if grw <? ofZ 8 then ofZ 1 else z in
        (if gtb c #46/1 then krr + ofZ 4 else if gtb c #35/1 then krr + ofZ 2 else krr, z)
    | KClayU4 =>
        let krr := if grw <? ofZ 8 then ofZ 1 else z in
        (if gtb c #46/1 then krr + ofZ 7
         else if gtb c #35/1 then krr + ofZ 4
         else if gtb c #23/1 then krr + ofZ 1 else krr, z)
    | KNone => (z, z)
    end.

  (* what Hydro leaves in FELDW, LIM, PRGES, NORMFK of the horizon, and the WRED it computes when the horizon is the first *)
  Record hydro_out := { ho_feldw : T; ho_lim : T; ho_prges : T; ho_normfk : T; ho_wred : T }.

  (* stein = stone fraction of the horizon: since the repair d7a6e7d the threshold is computed from the scaled values
     (input.go:1227-1228: calcWRed(LIM*100*(1-STEIN), FK*100*(1-STEIN))) *)
  Definition hydro (t : texture) (fk nfk pv : Z) (grw c stein : T) : hydro_out :=
    let FK := ofZ fk / ofZ 100 in
    let LIM := FK - ofZ nfk / ofZ 100 in
    let PR := ofZ pv / ofZ 100 in
    let '(krr, krg) := krr_krg (tex_kind t) grw c in
    {| ho_feldw := FK + krr / ofZ 100; ho_lim := LIM; ho_prges := PR + krg / ofZ 100; ho_normfk := FK;
       ho_wred := calc_wred (tex_is_sand t) (LIM * ofZ 100 * (one - stein)) (FK * ofZ 100 * (one - stein)) |}.

  (* ---------------- the per-layer parameters of the three routes (input.go:207-272) ---------------- *)
  Record lpar := { l_w : T; l_wmin : T; l_porges : T; l_wnor : T }.

  (* explicit FKA/WP/GPV (percent) of the soil file; no stone factor on this route *)
  Definition route_explicit (fka wp gpv : T) : lpar :=
    {| l_w := fka / ofZ 100; l_wmin := wp / ofZ 100; l_porges := gpv / ofZ 100; l_wnor := fka / ofZ 100 |}.
  (* table values times (1 - stone fraction) (also run.go:387-390) *)
  Definition route_table (h : hydro_out) (stein : T) : lpar :=
    {| l_w := ho_feldw h * (one - stein); l_wmin := ho_lim h * (one - stein);
       l_porges := ho_prges h * (one - stein); l_wnor := ho_normfk h * (one - stein) |}.
  (* pedotransfer function k on (Corg, clay, silt | sand); pore volume from the soil file *)
  Definition route_ptf (k : Z) (c ton sluf ssand gpv : T) : lpar :=
    let '(fc, wm) := ptf k c ton (if (k =? 4)%Z then ssand else sluf) in
    {| l_w := fc; l_wmin := wm; l_porges := gpv / ofZ 100; l_wnor := fc |}.

  (* WRED of the route, from the first horizon (input.go:218, 269, 1210) *)
  Definition wred_explicit (sand : bool) (fka wp : T) : T := calc_wred sand wp fka.
  Definition wred_fraction (sand : bool) (p : lpar) : T := calc_wred sand (l_wmin p * ofZ 100) (l_w p * ofZ 100).

  (* ---------------- profile level ---------------- *)
  Record params := { P_w : list T; P_wmin : list T; P_porges : list T; P_wnor : list T; P_wred : T }.

  (* horizons (parameters, lower boundary UKT in layers) -> layers 1..n *)
  Fixpoint expand (prev : Z) (hz : list (lpar * Z)) : list lpar :=
    match hz with
    | [] => []
    | (p, ukt) :: r => repeat p (Z.to_nat (ukt - prev)) ++ expand ukt r
    end.
  Definition layers (n : nat) (hz : list (lpar * Z)) : list lpar := firstn n (expand 0 hz).

  Definition params_of (ls : list lpar) (wred : T) : params :=
    {| P_w := map l_w ls; P_wmin := map l_wmin ls; P_porges := map l_porges ls; P_wnor := map l_wnor ls; P_wred := wred |}.

  (* input.go:284-292: below round(max(GW,1)) field capacity := pore volume, when GW < N *)
  Fixpoint raise_from (l m : Z) (w porges : list T) : list T :=
    match w, porges with
    | wv :: wr, pv :: pr => (if (m <=? l)%Z then pv else wv) :: raise_from (l + 1) m wr pr
    | _, _ => w
    end.
  Definition raise (gw : T) (w porges : list T) : list T :=
    if gw <? ofZ (Z.of_nat (length w)) then raise_from 1 (roundZ (maxv gw one)) w porges else w.

  (* the state the day loop starts from: Input's assignment (backup = p), the raise with the level GW Input read,
     then Init's setFieldCapacityWithGW with the level GRW0 it computed *)
  Definition initial_params (p : params) (gw grw0 : T) : params :=
    {| P_w := set_fc_gw grw0 (raise gw (P_w p) (P_porges p)) (P_porges p);
       P_wmin := P_wmin p; P_porges := P_porges p; P_wnor := P_wnor p; P_wred := P_wred p |}.

  (* run.go:395-404: restore the backup, recompute WRED from the restored top layer, saturate below the table *)
  Definition gw_update_restore (sand : bool) (backup : params) (grw : T) : params :=
    {| P_w := set_fc_gw grw (P_w backup) (P_porges backup);
       P_wmin := P_wmin backup; P_porges := P_porges backup; P_wnor := P_wnor backup;
       P_wred := calc_wred sand (nth 0 (P_wmin backup) zero * ofZ 100) (nth 0 (P_w backup) zero * ofZ 100) |}.

  (* run.go:376-393 + 404: Hydro again for every horizon with the new level, then saturate below the table.
     A horizon = (texture, (FK, nFK, GPV) of its density class, Corg, stone fraction, UKT) *)
  Definition thorizon := (texture * (Z * Z * Z) * T * T * Z)%type.
  Definition table_params (n : nat) (hz : list thorizon) (grw : T) : params :=
    let hs := map (fun h : thorizon => let '(t, (fk, nfk, pv), c, st, ukt) := h in
                                       (hydro t fk nfk pv grw c st, st, ukt)) hz in
    let ls := layers n (map (fun x : hydro_out * T * Z => let '(h, st, ukt) := x in (route_table h st, ukt)) hs) in
    params_of ls (match hs with (h, _, _) :: _ => ho_wred h | [] => zero end).
  Definition gw_update_table (n : nat) (hz : list thorizon) (grw : T) : params :=
    let p := table_params n hz grw in
    {| P_w := set_fc_gw grw (P_w p) (P_porges p); P_wmin := P_wmin p; P_porges := P_porges p; P_wnor := P_wnor p;
       P_wred := P_wred p |}.

  (* Input with PTF = 0 (input.go:207-232): the route is decided PER HORIZON — explicit values where the soil file gives a
     field capacity (FKA > 0), the texture table elsewhere.  Hydro runs for every horizon either way.  A horizon =
     (table horizon, (FKA, WP, GPV) of the soil file in percent, 0 where the optional columns are empty).
     Explicit values are NOT scaled by the stone content (and calcWRed gets the same unscaled values); table values and
     the threshold Hydro computes are. *)
  Definition fhorizon := (thorizon * (T * T * T))%type.
  Definition file_horizon (grw : T) (h : fhorizon) : lpar * Z :=
    let '((t, (fk, nfk, pv), c, st, ukt), (fka, wp, gpv)) := h in
    (if zero <? fka then route_explicit fka wp gpv else route_table (hydro t fk nfk pv grw c st) st, ukt).
  Definition file_wred (grw : T) (h : fhorizon) : T :=
    let '((t, (fk, nfk, pv), c, st, ukt), (fka, wp, gpv)) := h in
    if zero <? fka then wred_explicit (tex_is_sand t) fka wp else ho_wred (hydro t fk nfk pv grw c st).
  Definition file_params (n : nat) (hz : list fhorizon) (grw : T) : params :=
    params_of (layers n (map (file_horizon grw) hz)) (match hz with h :: _ => file_wred grw h | [] => zero end).
  (* CAPPAR after Input = the decision of the last horizon (it is assigned in the layer loop of every horizon); the day
     loop recomputes ALL horizons from the table when it is 0 and restores the backups when it is 1 (run.go:376-403) *)
  Definition file_cappar (hz : list fhorizon) : bool :=
    match rev hz with (_, (fka, _, _)) :: _ => zero <? fka | [] => false end.

  (* run.go:362-412, parameters only: nothing happens unless the level differs from yesterday's *)
  Record gwstate := { s_grw : T; s_par : params }.
  Definition day_step (upd : T -> params) (st : gwstate) (g : T) : gwstate :=
    if g =? s_grw st then st else {| s_grw := g; s_par := upd g |}.
  Fixpoint run_levels (upd : T -> params) (st : gwstate) (levels : list T) : list gwstate :=
    match levels with
    | [] => []
    | g :: r => let st' := day_step upd st g in st' :: run_levels upd st' r
    end.
End Hydro.

(* ---------------- exact (integer) mirror of the table lookup, in units of 1/200 ---------------- *)
(* class of an organic carbon content = number of thresholds 0.58 1.16 2.3 3.5 4.6 5.2 it exceeds;
   class of a groundwater level: <8, [8,9), [9,20), [20,30), [30,35], >35 *)
Section Classes.
  Context {T : Type} {NT : Num T}.
  Local Open Scope num_scope.
  Definition corg_class (c : T) : nat :=
    ((if gtb c (dec 58 2) then 1 else 0) + (if gtb c (dec 116 2) then 1 else 0) + (if gtb c (dec 23 1) then 1 else 0)
     + (if gtb c (dec 35 1) then 1 else 0) + (if gtb c (dec 46 1) then 1 else 0) + (if gtb c (dec 52 1) then 1 else 0))%nat.
  Definition gw_class (g : T) : nat :=
    if g <? ofZ 8 then 0%nat else if g <? ofZ 9 then 1%nat else if g <? ofZ 20 then 2%nat
    else if g <? ofZ 30 then 3%nat else if g <=? ofZ 35 then 4%nat else 5%nat.
End Classes.

(* 2*KRR and 2*KRG as integers, by class *)
Definition cge (a b : nat) : bool := Nat.leb b a.
Definition krr_krg_z (k : tkind) (gc cc : nat) : Z * Z :=
  match k with
  | KSandA | KSandB =>
      let krr := (if Nat.leb gc 1 then 4 else if Nat.eqb gc 2 then 0 else if Nat.eqb gc 3 then -2 else -4)%Z in
      match k with
      | KSandA => if cge cc 5 then (krr + 20, 20) else if cge cc 3 then (krr + 15, 13) else if cge cc 2 then (krr + 7, 5) else (krr, 0)
      | _ => if cge cc 5 then (krr + 23, 28) else if cge cc 3 then (krr + 16, 20) else if cge cc 2 then (krr + 7, 9)
             else if cge cc 1 then (krr + 3, 3) else (krr, 0)
      end%Z
  | KSilt =>
      let krr := (if Nat.eqb gc 0 then 2 else if Nat.eqb gc 5 then -2 else 0)%Z in
      (if cge cc 6 then krr + 24 else if cge cc 5 then krr + 14 else if cge cc 4 then krr + 10 else if cge cc 3 then krr + 2 else krr, 0)%Z
  | KLoam | KClayU4 =>
      let krr := (if Nat.eqb gc 0 then 2 else 0)%Z in
      (if cge cc 5 then krr + 14 else if cge cc 4 then krr + 8 else if cge cc 3 then krr + 2 else krr, 0)%Z
  | KClayPlain => (if Nat.eqb gc 0 then 2 else 0, 0)%Z
  | KClayU23 =>
      let krr := (if Nat.eqb gc 0 then 2 else 0)%Z in
      (if cge cc 5 then krr + 8 else if cge cc 4 then krr + 4 else krr, 0)%Z
  | KNone => (0, 0)%Z
  end.

(* (LIM, FELDW, PRGES, and the two sides of WRED < FELDW) of a table lookup in units of 1/200 *)
Definition hydro_z (t : texture) (fk nfk pv : Z) (gc cc : nat) : Z * Z * Z :=
  let '(a, b) := krr_krg_z (tex_kind t) gc cc in
  (2 * (fk - nfk), 2 * fk + a, 2 * pv + b)%Z.

(* 0 < WP < FC <= PS < 1 *)
Definition ordered_z (x : Z * Z * Z) : bool :=
  let '(lim, feldw, pv) := x in ((0 <? lim) && (lim <? feldw) && (feldw <=? pv) && (pv <? 200))%Z.
(* the first three only: what holds for the rows whose field capacity exceeds the pore volume *)
Definition ordered_low_z (x : Z * Z * Z) : bool :=
  let '(lim, feldw, pv) := x in ((0 <? lim) && (lim <? feldw) && (0 <? pv) && (pv <? 200))%Z.
(* LIM < WRED < FELDW (both sides scaled by the same stone factor): 0 < nFK and (1-f)*nFK + KRR > 0, f = 0.6 (sand) / 0.66 *)
Definition wred_z (t : texture) (nfk : Z) (gc cc : nat) : bool :=
  let '(a, _) := krr_krg_z (tex_kind t) gc cc in
  ((0 <? nfk) && (if tex_is_sand t then 0 <? 4 * nfk + 5 * a else 0 <? 17 * nfk + 25 * a))%Z.

(* ---------------- the table as a list of rows, in file order ---------------- *)
Definition tables := list (texture * hyrow).
(* Hydro takes the first line whose first three characters equal the texture *)
Fixpoint lookup (rows : tables) (t : texture) : option hyrow :=
  match rows with
  | [] => None
  | (t', r) :: rest => if tex_eqb t t' then Some r else lookup rest t
  end.
Definition triple_of (rows : tables) (t : texture) (ld : Z) : option (Z * Z * Z) :=
  match lookup rows t with Some r => row_for_ld ld r | None => None end.

(* every (texture, density class, Corg class, groundwater class) of the table, except the listed classes, is ordered; the
   listed ones still have 0 < WP < FC and 0 < PS < 1; and the top-horizon threshold lies between WP and FC *)
Definition bad_eqb (a b : texture * Z * nat * nat) : bool :=
  let '(t, ld, cc, gc) := a in let '(t', ld', cc', gc') := b in
  tex_eqb t t' && (ld =? ld')%Z && Nat.eqb cc cc' && Nat.eqb gc gc'.
Definition is_bad (bad : list (texture * Z * nat * nat)) (x : texture * Z * nat * nat) : bool := existsb (bad_eqb x) bad.
Definition class_ok (rows : tables) (bad : list (texture * Z * nat * nat)) (t : texture) (ld : Z) (cc gc : nat) : bool :=
  match triple_of rows t ld with
  | Some (fk, nfk, pv) =>
      let x := hydro_z t fk nfk pv gc cc in
      (* `if`, not `||`: vm_compute evaluates function arguments eagerly *)
      (if ordered_z x then true else (is_bad bad (t, ld, cc, gc) && ordered_low_z x)) && wred_z t nfk gc cc
  | None => false
  end.
Definition table_check (rows : tables) (both : list texture) (bad : list (texture * Z * nat * nat)) : bool :=
  forallb (fun t => forallb (fun ld => forallb (fun cc => forallb (fun gc => class_ok rows bad t ld cc gc)
    (seq 0 6)) (seq 0 7)) [1; 2; 3; 4; 5]%Z) both.
(* the listed classes are exactly the ones that are not ordered (reported, not an obligation) *)
Definition stale_bad (rows : tables) (bad : list (texture * Z * nat * nat)) : list (texture * Z * nat * nat) :=
  filter (fun b => let '(t, ld, cc, gc) := b in
                   match triple_of rows t ld with
                   | Some (fk, nfk, pv) => ordered_z (hydro_z t fk nfk pv gc cc)
                   | None => true
                   end) bad.
