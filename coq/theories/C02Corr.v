(* C02Corr.v — bit-exact comparison of NitroModel (nmove, mineral, denitr) with the Go kernels. *)
From Coq Require Import ZArith List Bool Floats.
From Hermes Require Import Num NitroModel C01Corr.
Import ListNotations.

Record nmove_obs := {
  nb_pe : list float; nb_c1 : list float; nb_q10 : float;
  nb_d : list float; nb_v : list float; nb_db : list float; nb_disp : list float; nb_konv : list float;
  nb_unstable : bool; nb_cnt : list float (* PESUM AUFNASUM OUTSUM NLEAG DRAINLOSS *)
}.

(* bitmask: 1 PE, 2 C1, 4 Q1[0], 8 D/V/DB, 16 DISP, 32 KONV, 64 flag, 128 counters *)
Definition nmove_check (c : nmove_in (T:=float) * nmove_obs) : nat :=
  let '(x, o) := c in
  let m := nmove x in
  let b (ok : bool) (v : nat) := if ok then 0%nat else v in
  (b (floats_same (no_pe m) (nb_pe o)) 1 + b (floats_same (no_c1 m) (nb_c1 o)) 2 +
   b (float_same (get PrimFloat.zero (no_q1 m) 0) (nb_q10 o)) 4 +
   b (floats_same (no_d m) (nb_d o) && floats_same (no_v m) (nb_v o) && floats_same (no_db m) (nb_db o)) 8 +
   b (floats_same (no_disp m) (nb_disp o)) 16 + b (floats_same (no_konv m) (nb_konv o)) 32 +
   b (Bool.eqb (no_unstable m) (nb_unstable o)) 64 +
   b (floats_same [no_pesum m; no_aufnasum m; no_outsum m; no_nleag m; no_drainloss m] (nb_cnt o)) 128)%nat.

(* mineral: per layer (td_prev, td, e0, e1, wg0, wnor, wmin, porges, w, naos, nfos, minaos, minfos),
   globals [wred; porges0; dsumm; ums; nh4sum; nh4ums; n2onitsum; n2onitdaily; minsum];
   observed: per layer [naos; nfos; minaos; minfos; dn; dums; dnh4ums] and the globals after *)
Definition ml_of (l : list float) : mineral_layer_in (T:=float) :=
  let g := get PrimFloat.zero l in
  {| ml_tempbo := PrimFloat.div (PrimFloat.add (g 1%nat) (g 0%nat)) 2%float;
     ml_e0 := g 2%nat; ml_e1 := g 3%nat; ml_wg0 := g 4%nat; ml_wnor := g 5%nat; ml_wmin := g 6%nat;
     ml_porges := g 7%nat; ml_w := g 8%nat; ml_naos := g 9%nat; ml_nfos := g 10%nat;
     ml_minaos := g 11%nat; ml_minfos := g 12%nat |}.
Definition mg_of (l : list float) : mineral_glob (T:=float) :=
  let g := get PrimFloat.zero l in
  {| mg_wred := g 0%nat; mg_porges0 := g 1%nat; mg_dsumm := g 2%nat; mg_ums := g 3%nat; mg_nh4sum := g 4%nat;
     mg_nh4ums := g 5%nat; mg_n2onitsum := g 6%nat; mg_n2onitdaily := g 7%nat; mg_minsum := g 8%nat |}.
Definition mg_to (g : mineral_glob (T:=float)) : list float :=
  [mg_wred g; mg_porges0 g; mg_dsumm g; mg_ums g; mg_nh4sum g; mg_nh4ums g; mg_n2onitsum g; mg_n2onitdaily g; mg_minsum g].
Definition mo_to (o : mineral_layer_out (T:=float)) : list float :=
  [mo_naos o; mo_nfos o; mo_minaos o; mo_minfos o; mo_dn o; mo_dums o; mo_dnh4ums o].

Definition mineral_check (c : list (list float) * list float * (list (list float) * list float)) : nat :=
  let '(ls, g, (ols, og)) := c in
  let '(os, g') := mineral (map ml_of ls) (mg_of g) in
  ((if forallb (fun p => floats_same (mo_to (fst p)) (snd p)) (combine os ols) && Nat.eqb (length os) (length ols) then 0 else 1)
   + (if floats_same (mg_to g') og then 0 else 2))%nat.

(* denitr: ([c1_0;c1_1;c1_2], nquadrat, ftheta, ftemp, cumdenit) -> ([c1'], cumdenit') *)
Definition denit_check (c : list float * float * float * float * float * (list float * float)) : nat :=
  let '(c1, nq, fth, fte, cum, (oc1, ocum)) := c in
  let o := denitr {| di_c1 := c1; di_nquadrat := nq; di_ftheta := fth; di_ftemp := fte; di_cumdenit := cum |} in
  ((if floats_same (do_c1 o) oc1 then 0 else 1) + (if float_same (do_cumdenit o) ocum then 0 else 2))%nat.
