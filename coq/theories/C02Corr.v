(* C02Corr.v — bit-exact comparison of NitroModel (nmove, mineral, denitr) with the Go kernels. *)
From Coq Require Import ZArith List Bool Floats.
From Hermes Require Import Num NitroModel C01Corr.
Import ListNotations.

Record nmove_obs := {
  nb_pe : list float; nb_c1 : list float; nb_q10 : float;
  nb_d : list float; nb_v : list float; nb_db : list float; nb_disp : list float; nb_konv : list float;
  nb_unstable : bool; nb_cnt : list float (* PESUM AUFNASUM OUTSUM NLEAG DRAINLOSS *)
}.

(* bitmask: 1 PE, 2 C1, 4 Q1[0], 8 D/V/DB, 16 DISP, 32 KONV, 64 flag, 128 counters *)
Definition nmove_check (c : nmove_in (T:=float) * nmove_obs) : nat :=
  let '(x, o) := c in
  let m := nmove x in
  let b (ok : bool) (v : nat) := if ok then 0%nat else v in
  (b (floats_same (no_pe m) (nb_pe o)) 1 + b (floats_same (no_c1 m) (nb_c1 o)) 2 +
   b (float_same (get PrimFloat.zero (no_q1 m) 0) (nb_q10 o)) 4 +
   b (floats_same (no_d m) (nb_d o) && floats_same (no_v m) (nb_v o) && floats_same (no_db m) (nb_db o)) 8 +
   b (floats_same (no_disp m) (nb_disp o)) 16 + b (floats_same (no_konv m) (nb_konv o)) 32 +
   b (Bool.eqb (no_unstable m) (nb_unstable o)) 64 +
   b (floats_same [no_pesum m; no_aufnasum m; no_outsum m; no_nleag m; no_drainloss m] (nb_cnt o)) 128)%nat.

(* mineral: per layer (td_prev, td, e0, e1, wg0, wnor, wmin, porges, w, naos, nfos, minaos, minfos),
   globals [wred; porges0; dsumm; ums; nh4sum; nh4ums; n2onitsum; n2onitdaily; minsum];
   observed: per layer [naos; nfos; minaos; minfos; dn; dums; dnh4ums] and the globals after *)
Definition ml_of (l : list float) : mineral_layer_in (T:=float) :=
  let g := get PrimFloat.zero l in
  {| ml_tempbo := PrimFloat.div (PrimFloat.add (g 1%nat) (g 0%nat)) 2%float;
     ml_e0 := g 2%nat; ml_e1 := g 3%nat; ml_wg0 := g 4%nat; ml_wnor := g 5%nat; ml_wmin := g 6%nat;
     ml_porges := g 7%nat; ml_w := g 8%nat; ml_naos := g 9%nat; ml_nfos := g 10%nat;
     ml_minaos := g 11%nat; ml_minfos := g 12%nat |}.
Definition mg_of (l : list float) : mineral_glob (T:=float) :=
  let g := get PrimFloat.zero l in
  {| mg_wred := g 0%nat; mg_porges0 := g 1%nat; mg_dsumm := g 2%nat; mg_ums := g 3%nat; mg_nh4sum := g 4%nat;
     mg_nh4ums := g 5%nat; mg_n2onitsum := g 6%nat; mg_n2onitdaily := g 7%nat; mg_minsum := g 8%nat |}.
Definition mg_to (g : mineral_glob (T:=float)) : list float :=
  [mg_wred g; mg_porges0 g; mg_dsumm g; mg_ums g; mg_nh4sum g; mg_nh4ums g; mg_n2onitsum g; mg_n2onitdaily g; mg_minsum g].
Definition mo_to (o : mineral_layer_out (T:=float)) : list float :=
  [mo_naos o; mo_nfos o; mo_minaos o; mo_minfos o; mo_dn o; mo_dums o; mo_dnh4ums o].

Definition mineral_check (c : list (list float) * list float * (list (list float) * list float)) : nat :=
  let '(ls, g, (ols, og)) := c in
  let '(os, g') := mineral (map ml_of ls) (mg_of g) in
  ((if forallb (fun p => floats_same (mo_to (fst p)) (snd p)) (combine os ols) && Nat.eqb (length os) (length ols) then 0 else 1)
   + (if floats_same (mg_to g') og then 0 else 2))%nat.

(* denitr: ([c1_0;c1_1;c1_2], nquadrat, ftheta, ftemp, cumdenit) -> ([c1'], cumdenit') *)
Definition denit_check (c : list float * float * float * float * float * (list float * float)) : nat :=
  let '(c1, nq, fth, fte, cum, (oc1, ocum)) := c in
  let o := denitr {| di_c1 := c1; di_nquadrat := nq; di_ftheta := fth; di_ftemp := fte; di_cumdenit := cum |} in
  ((if floats_same (do_c1 o) oc1 then 0 else 1) + (if float_same (do_cumdenit o) ocum then 0 else 2))%nat.

(* Denitmo: (c1[9], nq[3], fth[3], fte[3], cum) -> (c1'[9], cum') *)
Definition denitmo_check (c : list float * list float * list float * list float * float * (list float * float)) : nat :=
  let '(c1, nq, fth, fte, cum, (oc1, ocum)) := c in
  let o := denitmo {| dm_c1 := c1; dm_nq := nq; dm_fth := fth; dm_fte := fte; dm_cum := cum |} in
  ((if floats_same (dmo_c1 o) oc1 then 0 else 1) + (if float_same (dmo_cum o) ocum then 0 else 2))%nat.

(* tillage inside Nitro (sub-step 1, mineralisation switched off by IZM = 0): pools are compared directly,
   mineral N after the transport step that follows in the same call *)
Record till_obs := { tl_eint : float; tl_tilart : Z; tl_nfos : list float; tl_naos : list float; tl_minfos : list float;
                     tl_minaos : list float; tl_o_nfos : list float; tl_o_naos : list float; tl_o_minfos : list float;
                     tl_o_minaos : list float; tl_o_c1 : list float }.
Definition with_c1 (x : nmove_in (T:=float)) (c1 : list float) : nmove_in (T:=float) :=
  {| ni_subd1 := ni_subd1 x; ni_wdt := ni_wdt x; ni_after_sow := ni_after_sow x; ni_growing := ni_growing x;
     ni_fluss0 := ni_fluss0 x; ni_dv := ni_dv x; ni_draidep := ni_draidep x; ni_qdrain := ni_qdrain x; ni_outn := ni_outn x;
     ni_stab := ni_stab x; ni_schnorr := ni_schnorr x; ni_ad := ni_ad x; ni_expo := ni_expo x; ni_wg0 := ni_wg0 x;
     ni_w := ni_w x; ni_pe := ni_pe x; ni_c1 := c1; ni_dn := ni_dn x; ni_q1 := ni_q1 x; ni_pesum := ni_pesum x;
     ni_aufnasum := ni_aufnasum x; ni_outsum := ni_outsum x; ni_nleag := ni_nleag x; ni_drainloss := ni_drainloss x |}.
Definition till_check (c : nmove_in (T:=float) * till_obs) : nat :=
  let '(x, t) := c in
  let '(nfos, naos, minfos, minaos, c1m) :=
    tillage_mix (tl_eint t) (tl_tilart t) (tl_nfos t) (tl_naos t) (tl_minfos t) (tl_minaos t) (ni_c1 x) in
  let m := nmove (with_c1 x c1m) in
  ((if floats_same nfos (tl_o_nfos t) && floats_same naos (tl_o_naos t) then 0 else 1)
   + (if floats_same minfos (tl_o_minfos t) && floats_same minaos (tl_o_minaos t) then 0 else 2)
   + (if floats_same (no_c1 m) (tl_o_c1 t) then 0 else 4))%nat.
