(* Et0Model.v — executable model of the POTENTIAL evapotranspiration part of hermes.Evatra
   (hermes/water.go:36-61 month of the Haude factor, 132-297 crop branch, 302-468 bare soil), of stomat
   (water.go, stomatal resistance for Penman-Monteith with CO2 response) and of CalculateDayLenght
   (hermes/solar.go), written once over the numeric interface [Num].  No proofs here.

   Transcendental functions (math.Exp, Log, Sin, Cos, Tan, Asin, Acos, Pow) are ORACLES: an explicit
   record of functions [Orc T] (an argument, never an axiom).  At binary64 the record is a table of the
   values Go computed, keyed by the argument bits (C08Corr.orc_of_table); over R the theorems state the
   facts they need about the functions.  math.Sqrt is correctly rounded and is a member of [Num].
   Go constant expressions are folded exactly before rounding: (2*math.Pi/365), (8.*math.Pi/180.),
   (24.*60./math.Pi*8.20), ... are one rounding each and are the members of [Consts T]; the harness
   emits the values the Go compiler produced and the correspondence compares them with [constsF].
   DT = 1 (factors "* g.DT.Num" are exact identities and omitted).  Operation order follows the source. *)
From Coq Require Import ZArith List Bool.
From Hermes Require Import Num.
Import ListNotations.
Local Open Scope num_scope.

Record Orc (T : Type) := {
  o_exp : T -> T; o_log : T -> T; o_sin : T -> T; o_cos : T -> T; o_tan : T -> T;
  o_asin : T -> T; o_acos : T -> T; o_pow : T -> T -> T;
}.
Arguments o_exp {T}. Arguments o_log {T}. Arguments o_sin {T}. Arguments o_cos {T}. Arguments o_tan {T}.
Arguments o_asin {T}. Arguments o_acos {T}. Arguments o_pow {T}.

Record Consts (T : Type) := {
  k_pi : T;          (* math.Pi *)
  k_2pi : T;         (* 2*math.Pi *)
  k_2pi_365 : T;     (* 2*math.Pi/365 *)
  k_8pi_180 : T;     (* 8.*math.Pi/180. *)
  k_sc : T;          (* 24.*60./math.Pi*8.20 *)
  k_24_pi : T;       (* 24./math.Pi *)
}.
Arguments k_pi {T}. Arguments k_2pi {T}. Arguments k_2pi_365 {T}. Arguments k_8pi_180 {T}.
Arguments k_sc {T}. Arguments k_24_pi {T}.

Section Et0.
  Context {T : Type} {NT : Num T}.
  Variable O : Orc T.
  Variable K : Consts T.

  Definition limit (v up lo : T) : T := if gtb v up then up else if v <? lo then lo else v.
  Definition floor0 (x : T) : T := if x <? zero then zero else x.
  Definition deg2rad (x : T) : T := x * k_pi K / ofZ 180.

  (* ---- solar.go:13-46 ---- *)
  Record daylen := { d_DL : T; d_DLE : T; d_EXT : T; d_RDN : T; d_DRC : T; d_DEC : T; d_COSLD : T }.

  Definition day_length (tag lat : T) : daylen :=
    let decl := dec 409 3 * o_sin O (k_2pi_365 K * tag - dec 139 2) * ofZ 180 / k_pi K in
    let sinld := o_sin O (deg2rad decl) * o_sin O (deg2rad lat) in
    let cosld := o_cos O (deg2rad decl) * o_cos O (deg2rad lat) in
    let q := limit (sinld / cosld) one (- one) in
    let dl := ofZ 12 * (k_pi K + two * o_asin O q) / k_pi K in
    let dle := ofZ 12 * (k_pi K + two * o_asin O (limit ((- o_sin O (k_8pi_180 K) + sinld) / cosld) one (- one))) / k_pi K in
    let sc := k_sc K * (one + dec 33 3 * o_cos O (k_2pi K * tag / ofZ 365)) in
    let sha := o_acos O (limit (- o_tan O (deg2rad lat) * o_tan O (deg2rad decl)) one (- one)) in
    let ext := sc * (sha * sinld + cosld * o_sin O sha) / ofZ 100 in
    let rdn := if gtb dl zero
               then ofZ 3600 * (sinld * dl + k_24_pi K * cosld * sqrtv (one - o_pow O q two))
               else zero in
    let drc := if gtb dl zero
               then ofZ 650 * rdn * o_exp O (dec (-14) 2 / (rdn / (dl * ofZ 3600)))
               else zero in
    {| d_DL := dl; d_DLE := dle; d_EXT := ext; d_RDN := rdn; d_DRC := drc; d_DEC := decl; d_COSLD := cosld |}.

  (* ---- water.go:36-61: month index (1..12) of the Haude factor from the day of the year ---- *)
  Definition fkm_of (tag : Z) : nat :=
    if ((212 <? tag) && (tag <? 244))%Z then 8
    else if ((243 <? tag) && (tag <? 274))%Z then 9
    else if ((273 <? tag) && (tag <? 305))%Z then 10
    else if ((304 <? tag) && (tag <? 335))%Z then 11
    else if (334 <? tag)%Z then 12
    else if (tag <? 32)%Z then 1
    else if ((31 <? tag) && (tag <? 60))%Z then 2
    else if ((59 <? tag) && (tag <? 91))%Z then 3
    else if ((90 <? tag) && (tag <? 121))%Z then 4
    else if ((120 <? tag) && (tag <? 152))%Z then 5
    else if ((151 <? tag) && (tag <? 182))%Z then 6
    else 7.

  Record et0_in := {
    ti_crop : bool; ti_meth : Z; ti_tag : Z;
    ti_lat : T; ti_alti : T; ti_kcoa : T; ti_fkc : T; ti_fkb : T; ti_fkf : list T; ti_fku : list T;
    ti_verd : T; ti_temp : T; ti_tmin : T; ti_tmax : T; ti_rad : T; ti_sund : T; ti_rh : T; ti_wind : T;
    ti_windhi : T; ti_etnull : T;
    ti_ctrans : bool; ti_co2meth : Z; ti_co2konz : T; ti_mintmp : T; ti_alph : T; ti_satbeta : T;
    (* state that the call may leave unchanged *)
    ti_radsum : T; ti_rstom : T; ti_et0 : T; ti_satdef : T;
  }.

  Record et0_out := {
    to_precap : T;     (* VERDU[TAG] before the cap/floor step (a local of Evatra) *)
    to_et0 : T; to_satdef : T; to_rstom : T; to_wind : T; to_sund : T; to_fkc : T; to_radsum : T;
  }.

  (* global radiation estimated from the sunshine duration (water.go:145-149 and the like) *)
  Definition glob_of (ext sund dl : T) : T :=
    if gtb dl zero then ext * (dec 19 2 + dec 55 2 * sund / dl) else ext * dec 19 2.

  (* saturation vapour pressure term 0.6108*exp(17.27*t/(t+237.3)), both spellings of the source *)
  Definition satp_a (t : T) : T := dec 6108 4 * o_exp O (dec 1727 2 * t / (t + dec 2373 1)).
  Definition satp_b (t : T) : T := dec 6108 4 * o_exp O (dec 1727 2 * t / (dec 2373 1 + t)).
  Definition deltsat_of (t : T) : T := ofZ 4098 * satp_a t / o_pow O (t + dec 2373 1) two.
  Definition atmpress_of (alti : T) : T :=
    dec 1013 1 * o_pow O ((ofZ 293 - dec 65 4 * alti) / ofZ 293) (dec 526 2).

  (* net radiation (water.go:183, 198, 262, 278, 361, 377, 439, 454); [sw] = incoming short-wave term *)
  Definition radn_of (sw tmin tmax radratio vapres : T) : T :=
    (one - dec 23 2) * sw -
    dec 49 10 * (o_pow O (tmin + dec 27316 2) (ofZ 4) + o_pow O (tmax + dec 27316 2) (ofZ 4)) / two
      * (dec 135 2 * radratio - dec 35 2) * (dec 34 2 - dec 14 2 * sqrtv vapres).

  (* radiation ratio and net radiation of the two radiation cases; [guard] = the RAD > 0 case tests RS0 > 0
     (bare-soil Penman-Monteith only, water.go:431); [sund] = SUND[TAG] as the method reads it *)
  Definition radn_case (guard : bool) (x : et0_in) (sund : T) (d : daylen) (rs0 vapres : T) : T :=
    if gtb (ti_rad x) zero then
      let rr0 := if guard && negb (gtb rs0 zero) then one else ti_rad x * two / rs0 in
      let rr := if gtb rr0 one then one else rr0 in
      (* (1-Albedo)*RAD*2 *)
      (one - dec 23 2) * ti_rad x * two -
      dec 49 10 * (o_pow O (ti_tmin x + dec 27316 2) (ofZ 4) + o_pow O (ti_tmax x + dec 27316 2) (ofZ 4)) / two
        * (dec 135 2 * rr - dec 35 2) * (dec 34 2 - dec 14 2 * sqrtv vapres)
    else
      let glob := glob_of (d_EXT d) sund (d_DL d) in
      let rr0 := if gtb rs0 zero then glob / rs0 else one in
      let rr := if gtb rr0 one then one else rr0 in
      radn_of glob (ti_tmin x) (ti_tmax x) rr vapres.

  (* ---- water.go: stomat; returns (RSTOM, SUND[TAG], RADSUM) ---- *)
  Definition stomat (x : et0_in) (satdef rstom0 : T) : T * T * T :=
    let tagf := ofZ (ti_tag x) in
    let d := day_length tagf (ti_lat x) in
    let dl := d_DL d in
    if d_DLE d <=? zero then (rstom0, ti_sund x, ti_radsum x) else
    let dro := dec 2 1 * d_DRC d in
    let eff0 := dec 5 1 in
    let temp := ti_temp x in
    let co2 := ti_co2konz x in
    let eff :=
      if (ti_co2meth x =? 1)%Z then
        let cocomp := dec 175 1 * o_pow O two ((temp - ten) / ten) in
        (co2 - cocomp) / (co2 + two * cocomp) * eff0
      else eff0 in
    let maxamaxg := ofZ 30 in
    let amax0 :=
      if temp <? ti_mintmp x then zero
      else if temp <? ten then maxamaxg * temp / ten * dec 4 1
      else if temp <? ofZ 15 then maxamaxg * (dec 4 1 + (temp - ten) / ofZ 5 * dec 5 1)
      else if temp <? ofZ 25 then maxamaxg * (dec 9 1 + (temp - ofZ 15) / ten * dec 1 1)
      else if temp <? ofZ 35 then maxamaxg * (one - (temp - ofZ 25) / ten)
      else zero in
    let amax1 :=
      if (ti_co2meth x =? 1)%Z then
        (* the outer COcomp is never assigned (the inner := shadows it): it is 0 here *)
        amax0 * (co2 - zero) / (ofZ 350 - zero)
      else if (ti_co2meth x =? 2)%Z then
        let '(kco1, coco) :=
          if gtb (ti_rad x) zero then
            (ofZ 220 + dec 158 3 * ti_rad x * ofZ 20, ofZ 80 - dec 36 4 * ti_rad x * ofZ 20)
          else
            let sc := ofZ 1367 * (one + dec 33 3 * o_cos O (k_2pi K * tagf / ofZ 365)) in
            let ext := sc * d_RDN d / ofZ 10000 in
            let glob := glob_of ext (ti_sund x) dl in
            (ofZ 220 + dec 158 3 * glob, ofZ 80 - dec 36 4 * glob) in
        let kco2 := ((co2 - coco) / (kco1 + co2 - coco)) / ((ofZ 350 - coco) / (kco1 + ofZ 350 - coco)) in
        amax0 * kco2
      else amax0 in
    let amax := if amax1 <? dec 1 1 then dec 1 1 else amax1 in
    let dle := if (d_DLE d =? zero) && gtb dl zero then dec 1 1 else d_DLE d in
    let effe := (one - dec 8 2) * eff in
    let sslae := o_sin O ((ofZ 90 + d_DEC d - ti_lat x) * k_pi K / ofZ 180) in
    let xx := o_log O (one + dec 45 2 * d_DRC d / (dle * ofZ 3600) * effe / (sslae * amax)) in
    let phch1 := sslae * amax * dle * xx / (one + xx) in
    let yy := o_log O (one + dec 55 2 * d_DRC d / (dle * ofZ 3600) * effe / ((ofZ 5 - sslae) * amax)) in
    let phch2 := (ofZ 5 - sslae) * amax * dle * yy / (one + yy) in
    let phch := dec 95 2 * (phch1 + phch2) + dec 205 1 in
    let ecut := o_exp O (dec (-1152) 3) in
    let phc3 := phch * (one - ecut) in
    let phc4 := dl * dec 144 2 * amax in
    let '(miphc, maphc) := if phc3 <? phc4 then (phc3, phc4) else (phc4, phc3) in
    let phcl := miphc * (one - o_exp O (- maphc / miphc)) in
    let zz := dro / (dle * ofZ 3600) * effe / (ofZ 5 * amax) in
    let phoh1 := ofZ 5 * amax * dle * zz / (one + zz) in
    let phoh := dec 9935 4 * phoh1 + dec 11 1 in
    let pho3 := phoh * (one - ecut) in
    let '(mipho, mapho) := if pho3 <? phc4 then (pho3, phc4) else (phc4, pho3) in
    let phol := mipho * (one - o_exp O (- mapho / mipho)) in
    let '(dtga, sund', radsum') :=
      if ti_rad x =? zero then
        let s := if gtb (ti_sund x) dle then dle else ti_sund x in
        (s / dle * phcl + (one - s / dle) * phol, s, ti_radsum x)
      else
        let fov0 := (d_DRC d - ofZ 1000000 * ti_rad x) / (dec 8 1 * d_DRC d) in
        let fov1 := if gtb fov0 one then one else fov0 in
        let fov := if fov1 <? zero then zero else fov1 in
        (fov * phol + (one - fov) * phcl, ti_sund x, ti_radsum x + ti_rad x) in
    let agross := dtga / ofZ 38016000 * ofZ 22414 in
    (one / (ti_alph x * agross / (co2 * (one + satdef / ti_satbeta x))), sund', radsum').

  (* ---- the five methods; each returns the full output record ---- *)
  Definition keep (x : et0_in) (precap fkc : T) : et0_out :=
    {| to_precap := precap; to_et0 := ti_et0 x; to_satdef := ti_satdef x; to_rstom := ti_rstom x;
       to_wind := ti_wind x; to_sund := ti_sund x; to_fkc := fkc; to_radsum := ti_radsum x |}.

  (* 1 Haude (water.go:136, 311) *)
  Definition et0_haude (x : et0_in) : et0_out :=
    let fk := get zero (if ti_crop x then ti_fkf x else ti_fku x) (fkm_of (ti_tag x) - 1) in
    keep x (ti_verd x * fk * dec 1 1) (ti_fkc x).

  (* 2 Turc-Wendling (water.go:139-151, 315-333); the crop branch without radiation divides by
     150*(TEMP-1+123), the three other cases by 150*(TEMP+123) *)
  Definition et0_turc (x : et0_in) : et0_out :=
    let fkc := if ti_crop x then ti_fkc x else ti_fkb x in
    let temp := ti_temp x in
    let precap :=
      if gtb (ti_rad x) zero then
        (ti_rad x * ofZ 200 + ofZ 93 * ti_kcoa x) * (temp + ofZ 22) / (ofZ 150 * (temp + ofZ 123)) * fkc * dec 1 1
      else
        let d := day_length (ofZ (ti_tag x)) (ti_lat x) in
        let ext := d_EXT d * ofZ 100 in
        let glob := glob_of ext (ti_sund x) (d_DL d) in
        let den := if ti_crop x then ofZ 150 * (temp - one + ofZ 123) else ofZ 150 * (temp + ofZ 123) in
        (glob + ofZ 93 * ti_kcoa x) * (temp + ofZ 22) / den * fkc * dec 1 1 in
    keep x precap fkc.

  (* 5 reference ET read from the weather file (water.go:154, 335-337) *)
  Definition et0_file (x : et0_in) : et0_out :=
    let fkc := if ti_crop x then ti_fkc x else ti_fkb x in
    keep x (ti_etnull x * fkc * dec 1 1) fkc.

  (* 4 Priestley-Taylor (water.go:165-204 crop, 339-383 bare soil: the bare-soil variant has neither the
     division by (Deltsat+Psych) nor the factor 1.26) *)
  Definition pt_den (x : et0_in) : T :=
    deltsat_of (ti_temp x) + dec 665 6 * atmpress_of (ti_alti x).

  Definition et0_pt (x : et0_in) : et0_out :=
    let fkc := if ti_crop x then ti_fkc x else ti_fkb x in
    let d := day_length (ofZ (ti_tag x)) (ti_lat x) in
    let rs0 := (dec 75 2 + dec 2 5 * ti_alti x) * d_EXT d in
    let vapres := satp_a (ti_tmin x) in
    let deltsat := deltsat_of (ti_temp x) in
    let radn := radn_case false x (ti_sund x) d rs0 vapres in
    let et0raw :=
      if ti_crop x then dec 408 3 * deltsat * radn / pt_den x * dec 126 2
      else dec 408 3 * deltsat * radn in
    let et0 := floor0 et0raw in
    {| to_precap := et0 * fkc * dec 1 1; to_et0 := et0; to_satdef := ti_satdef x; to_rstom := ti_rstom x;
       to_wind := ti_wind x; to_sund := ti_sund x; to_fkc := fkc; to_radsum := ti_radsum x |}.

  (* 3 Penman-Monteith (water.go:218-289 crop, 397-461 bare soil) *)
  Definition wind2m (x : et0_in) : T :=
    let w := if ti_windhi x =? two then ti_wind x
             else ti_wind x * (dec 487 2 / o_log O (dec 678 1 * ti_windhi x - dec 542 2)) in
    if w <? dec 5 1 then dec 5 1 else w.

  Definition pm_den (deltsat psych rsurf wind : T) : T :=
    deltsat + psych * (one + rsurf / ofZ 208 * wind).

  Definition et0_pm (x : et0_in) : et0_out :=
    let fkc := if ti_crop x then ti_fkc x else ti_fkb x in
    let d := day_length (ofZ (ti_tag x)) (ti_lat x) in
    let rs0 := (dec 75 2 + dec 2 5 * ti_alti x) * d_EXT d in
    let psych := dec 665 6 * atmpress_of (ti_alti x) in
    let satp := (satp_b (ti_tmin x) + satp_b (ti_tmax x)) / two in
    let vapres := satp * ti_rh x / ofZ 100 in
    let satdef := satp * (one - ti_rh x / ofZ 100) in
    let deltsat := deltsat_of (ti_temp x) in
    let '(rstom, sund', radsum') :=
      if ti_crop x then stomat x satdef (ofZ 100) else (ofZ 100, ti_sund x, ti_radsum x) in
    let wind := wind2m x in
    let rsurf0 := ofZ 100 / dec 144 2 in
    let rsurf := rstom / dec 144 2 in
    (* stomat has already cut SUND[TAG] to the effective day length (water.go: stomat, SUND > DLE) *)
    let radn := radn_case (negb (ti_crop x)) x sund' d rs0 vapres in
    let num := dec 408 3 * deltsat * radn + psych * (ofZ 900 / (ti_temp x + ofZ 273)) * wind * satdef in
    let rs := if ti_crop x && negb (ti_ctrans x) then rsurf0 else rsurf in
    let et0 := floor0 (num / pm_den deltsat psych rs wind) in
    {| to_precap := et0 * fkc * dec 1 1; to_et0 := et0; to_satdef := satdef; to_rstom := rstom;
       to_wind := wind; to_sund := sund'; to_fkc := fkc; to_radsum := radsum' |}.

  (* dispatch in the order of the source; any other method number leaves VERDU[TAG] = 0 *)
  Definition et0_struct (x : et0_in) : et0_out :=
    if (ti_meth x =? 1)%Z then et0_haude x
    else if (ti_meth x =? 2)%Z then et0_turc x
    else if (ti_meth x =? 5)%Z then et0_file x
    else if (ti_meth x =? 4)%Z then et0_pt x
    else if (ti_meth x =? 3)%Z then et0_pm x
    else keep x zero (ti_fkc x).
End Et0.
