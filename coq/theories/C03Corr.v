(* C03Corr.v — correspondence of DispatchModel with the real batch binary (used by C03 and
   C11).  One case = one execution of `hermes2go -module batch -concurrent c [-lines ...]`
   on a generated batch file; the lines of the batch are given by content ids, and
   [errtab] holds, per content id, whether that line run ALONE returned an error.
   The model is executed with the scheduler [sim] (pseudo-random adversary from the case's
   seed) and its final state is compared with what the binary printed / wrote:
     - the error summary as a multiset of logIDs, and the printed "Number of errors",
     - the set of line indices that were started (their result folder exists). *)
From stdpp Require Import gmap.
From Hermes Require Import PoolModel DispatchModel OutFileModel HandleModel.

Fixpoint insert_sorted (x : Z) (l : list Z) : list Z :=
  match l with
  | [] => [x]
  | y :: r => if (x <=? y)%Z then x :: l else y :: insert_sorted x r
  end.
Definition sortZ (l : list Z) : list Z := foldr insert_sorted [] l.

Definition list_eqbZ (a b : list Z) : bool := bool_decide (a = b).

Record dcase := DCase {
  dc_c : nat; dc_start : Z; dc_nlines : Z; dc_seed : N;
  dc_batch : list Z;            (* content id of every non-empty line of the batch file *)
  dc_summary : list Z;          (* observed: logIDs listed under "Error Summary:" *)
  dc_count : Z;                 (* observed: "Number of errors: n" *)
  dc_ran : list Z }.            (* observed: indices whose result folder exists *)

Section Run.
  Variable errtab : list bool.

  Definition disk0 (p : positive) : Z := 0%Z.
  (* a run reads one shared file through the pool, then returns its (solo) outcome *)
  Definition prog_of (l : Z) : @prog positive Z bool :=
    Read 1%positive (fun _ => Done (default true (errtab !! Z.to_nat l))).

  Definition model_final (d : dcase) :=
    let b := select_lines (dc_start d) (dc_nlines d) 0 (dc_batch d) in
    sim disk0 0%Z prog_of (fun v : bool => v) (dc_c d) (4 * length b + 8) (dc_seed d)
        (init b ∅) [].

  Definition case_ok (d : dcase) : bool :=
    match model_final d with
    | None => false
    | Some (tr, s) =>
        list_eqbZ (sortZ (summary s)) (sortZ (dc_summary d)) &&
        bool_decide (printed_count s = dc_count d) &&
        list_eqbZ (sortZ (starts tr)) (sortZ (dc_ran d)) &&
        list_eqbZ (sortZ ((fun x => x.1.1) <$> results s)) (sortZ (dc_ran d)) &&
        bool_decide (length tr = 3 * length (dc_ran d))
    end.

  Fixpoint mismatches (i : Z) (l : list dcase) : list Z :=
    match l with
    | [] => []
    | d :: r => if case_ok d then mismatches (i + 1) r else i :: mismatches (i + 1) r
    end.
End Run.

(* ---- result-file writer: one case = hermes.DefaultFoutGenerator(path, append) on a file with
   the given old content (None = no file), the chunks written through Fout.Write, Close; observed
   = the bytes of the file afterwards *)
Record fcase := FCase { fc_old : option (list Z); fc_append : bool; fc_chunks : list (list Z); fc_obs : list Z }.

Definition fcase_ok (c : fcase) : bool :=
  let fs0 : gmap positive (list Z) := match fc_old c with Some o => {[ 1%positive := o ]} | None => ∅ end in
  bool_decide (write_file (fc_append c) fs0 1%positive (fc_chunks c) !! 1%positive = Some (fc_obs c)).

Fixpoint fmismatches (i : Z) (l : list fcase) : list Z :=
  match l with
  | [] => []
  | c :: r => if fcase_ok c then fmismatches (i + 1) r else i :: fmismatches (i + 1) r
  end.

(* ---- several handles of hermes.DefaultFoutGenerator open on ONE path at the same time; the
   events are the writes reaching the operating system (chunks >= 4096 bytes go through bufio
   directly, a final small chunk is written at Close); bytes are given run-length encoded *)
Inductive hev := HOpen (h : nat) (append : bool) | HWrite (h : nat) (v : Z) (n : Z).
Record hcase := HCase { hc_old : list (Z * Z); hc_events : list hev; hc_obs : list (Z * Z) }.

Definition rle (l : list (Z * Z)) : list Z := flat_map (fun vn => repeat vn.1 (Z.to_nat vn.2)) l.

(* the old content is at most one run *)
Definition file_of (l : list (Z * Z)) : @hfile Z :=
  match l with
  | (v, n) :: _ => HFile (fun p => if (p <? Z.to_N n)%N then v else 0%Z) (Z.to_N n)
  | [] => empty_file 0%Z
  end.

Fixpoint hrun (f : @hfile Z) (hs : list (nat * handle)) (evs : list hev) : @hfile Z :=
  match evs with
  | [] => f
  | HOpen h app :: r => let '(f', hd) := fout_hopen 0%Z app f in hrun f' ((h, hd) :: hs) r
  | HWrite h v n :: r =>
      match List.find (fun x => Nat.eqb x.1 h) hs with
      | Some (_, hd) => let '(f', hd') := hwritef f hd (fun _ => v) (Z.to_N n) in hrun f' ((h, hd') :: hs) r
      | None => f
      end
  end.

Definition hcase_ok (c : hcase) : bool :=
  bool_decide (file_bytes (hrun (file_of (hc_old c)) [] (hc_events c)) = rle (hc_obs c)).

Fixpoint hmismatches (i : Z) (l : list hcase) : list Z :=
  match l with
  | [] => []
  | c :: r => if hcase_ok c then hmismatches (i + 1) r else i :: hmismatches (i + 1) r
  end.
