(* OutFmtProofs.v — lemmas about OutFmtModel: header lines and record lines have the same number
   of fields (CSV style) / the header cells stand exactly above their data columns (fixed-width
   style), for every configuration that passes [oconfig_ok]. *)
From Coq Require Import ZArith List Bool Ascii String Lia.
From Hermes Require Import DateModel CtrlModel CtrlProofs OutFmtModel.
Import ListNotations.
Open Scope Z_scope.

Lemma csv_header_count ncells ncols : 1 <= ncells <= ncols -> csv_header_fields ncells ncols = ncols.
Proof.
  intros H. unfold csv_header_fields.
  destruct (Z.eqb_spec ncells 0); [lia|]. destruct (Z.ltb_spec ncells ncols); lia.
Qed.

(* more header cells than data columns: the header line is longer than every record *)
Lemma csv_header_too_many ncells ncols : 0 <= ncols < ncells -> csv_header_fields ncells ncols = ncells.
Proof.
  intros H. unfold csv_header_fields.
  destruct (Z.eqb_spec ncells 0); [lia|]. destruct (Z.ltb_spec ncells ncols); lia.
Qed.

Lemma col_ok_supported cols : forallb col_ok cols = true -> forallb supported (map c_ref cols) = true.
Proof.
  induction cols as [|c r IH]; [reflexivity|]. cbn. intros H. apply andb_true_iff in H as [Hc Hr].
  unfold col_ok in Hc. apply andb_true_iff in Hc as [Hc _]. apply andb_true_iff in Hc as [Hs _].
  rewrite Hs, IH by exact Hr. reflexivity.
Qed.

(* CSV style: every header line and every record of a configuration that passes the check has
   exactly as many fields as the configuration has columns *)
Lemma csv_counts_lemma (o : oconfig) :
  oconfig_ok o = true ->
  let cols := map col_of (o_cols o) in
  let n := List.length cols in
  (forall cells, In cells (o_heads o) -> csv_header_fields (Z.of_nat (List.length cells)) (Z.of_nat n) = Z.of_nat n) /\
  (forall (A : Type) (render : vref -> A), exists fs, write_line true render (map c_ref cols) = Some fs /\ List.length fs = n).
Proof.
  intros H cols n. unfold oconfig_ok in H. fold cols in H.
  apply andb_true_iff in H as [H _]. apply andb_true_iff in H as [Hc Hh]. split.
  - intros cells Hin. rewrite forallb_forall in Hh. specialize (Hh cells Hin).
    apply andb_true_iff in Hh as [Hh _]. apply andb_true_iff in Hh as [H1 H2].
    apply Z.leb_le in H1, H2. apply csv_header_count. unfold n. lia.
  - intros A render. destruct (field_count_lemma render (map c_ref cols) (col_ok_supported cols Hc)) as [_ K].
    destruct (K true) as (fs & E & L). exists fs. split; [exact E|]. rewrite L. unfold n. apply map_length.
Qed.

(* fixed-width style *)
Lemma arr_mono widths : Forall (fun w => 0 <= w) widths -> forall i j, (i <= j)%nat -> arr widths i <= arr widths j.
Proof.
  induction 1 as [|w r Hw Hr IH]; intros i j Hij.
  - destruct i, j; cbn; lia.
  - destruct i as [|i]; destruct j as [|j]; try lia.
    + cbn [arr]. pose proof (IH 0%nat j ltac:(lia)). destruct r; cbn in *; lia.
    + cbn [arr]. pose proof (IH i j ltac:(lia)). lia.
Qed.

Lemma arr_nonneg widths i : Forall (fun w => 0 <= w) widths -> 0 <= arr widths i.
Proof.
  intros F. pose proof (arr_mono widths F 0%nat i ltac:(lia)) as H. destruct widths; cbn in H; exact H.
Qed.

Lemma arr_step widths (k : nat) : Forall (fun w => 0 <= w) widths -> (k < List.length widths)%nat ->
  arr widths k + 1 <= arr widths (S k).
Proof.
  intros F. revert k. induction F as [|w r Hw Hr IH]; intros k Hk; [cbn in Hk; lia|].
  destruct k as [|k].
  - cbn [arr]. pose proof (arr_nonneg r 0 Hr). destruct r; cbn in *; lia.
  - cbn [arr]. cbn in Hk. pose proof (IH k ltac:(lia)). lia.
Qed.

(* one cell whose text area starts at or after the cursor: the text starts exactly above its first
   data column and the cursor stays inside the cell's span *)
Lemma hcell_step_spec widths cur c :
  Forall (fun w => 0 <= w) widths ->
  1 <= h_start c <= h_end c -> h_end c <= Z.of_nat (List.length widths) -> 0 <= h_len c ->
  cur <= arr widths (Z.to_nat (h_start c - 1)) ->
  let '(s, cur') := hcell_step widths cur c in
  s = arr widths (Z.to_nat (h_start c - 1)) /\ cur' <= arr widths (Z.to_nat (h_end c)) - 1.
Proof.
  intros F Hs He Hl Hc. unfold hcell_step.
  set (a := arr widths (Z.to_nat (h_start c - 1))) in *.
  set (e := arr widths (Z.to_nat (h_end c))).
  assert (Hae : a + 1 <= e).
  { pose proof (arr_step widths (Z.to_nat (h_start c - 1)) F ltac:(lia)).
    pose proof (arr_mono widths F (S (Z.to_nat (h_start c - 1))) (Z.to_nat (h_end c)) ltac:(lia)).
    unfold a, e. lia. }
  replace (Z.max (Z.max cur (a - 1)) a) with a by lia.
  split; [reflexivity|].
  destruct (h_align c =? 0); [lia|].
  destruct (h_align c =? 1).
  - destruct (0 <? e - a - 1 - h_len c) eqn:E; [lia|]. lia.
  - assert (Q : Z.quot (e - a - 1 - h_len c) 2 <= e - a - 1).
    { destruct (Z_lt_le_dec (e - a - 1 - h_len c) 0) as [N|P].
      - pose proof (Z.quot_opp_l (- (e - a - 1 - h_len c)) 2 ltac:(lia)) as K.
        rewrite Z.opp_involutive in K. pose proof (Z.quot_pos (- (e - a - 1 - h_len c)) 2 ltac:(lia) ltac:(lia)). lia.
      - pose proof (Z.quot_le_upper_bound (e - a - 1 - h_len c) 2 (e - a - 1) ltac:(lia) ltac:(lia)). lia. }
    lia.
Qed.

Lemma hline_spec widths cells : forall cur last pe starts,
  Forall (fun w => 0 <= w) widths ->
  hcells_ok (Z.of_nat (List.length widths)) pe cells = true -> 0 <= pe ->
  cur <= arr widths (Z.to_nat pe) -> last <= arr widths (Z.to_nat pe) -> 0 <= last ->
  hline widths cur last cells starts =
    (match cells with [] => Z.max cur last | _ => arr widths (Z.to_nat (h_end (List.last cells (mkhc 0 0 0 0)))) end,
     rev starts ++ map (fun c => arr widths (Z.to_nat (h_start c - 1))) cells).
Proof.
  induction cells as [|c r IH]; intros cur last pe starts F H Hpe Hc Hl Hl0.
  - cbn. rewrite app_nil_r. reflexivity.
  - cbn [hcells_ok] in H. apply andb_true_iff in H as [H Hr]. apply andb_true_iff in H as [H H4].
    apply andb_true_iff in H as [H H3]. apply andb_true_iff in H as [H1 H2].
    apply Z.ltb_lt in H1. apply Z.leb_le in H2, H3, H4.
    cbn [hline].
    assert (Hca : cur <= arr widths (Z.to_nat (h_start c - 1))).
    { pose proof (arr_mono widths F (Z.to_nat pe) (Z.to_nat (h_start c - 1)) ltac:(lia)). lia. }
    pose proof (hcell_step_spec widths cur c F ltac:(lia) H3 H4 Hca) as S.
    destruct (hcell_step widths cur c) as [s cur']. destruct S as [-> Hcur'].
    rewrite (IH cur' (arr widths (Z.to_nat (h_end c))) (h_end c) _ F Hr ltac:(lia) ltac:(lia) ltac:(lia) (arr_nonneg _ _ F)).
    cbn [rev map]. rewrite <- app_assoc. cbn [app]. f_equal.
    destruct r as [|c2 r']; [|reflexivity]. cbn [List.last]. lia.
Qed.

(* every header cell starts exactly at the first character of its first data column; the header
   line ends where the span of its last cell ends, not after the end of a record line *)
Lemma hermes_header_aligned_lemma widths cells :
  Forall (fun w => 0 <= w) widths -> cells <> [] ->
  hcells_ok (Z.of_nat (List.length widths)) 0 cells = true ->
  hermes_header widths cells =
    (arr widths (Z.to_nat (h_end (List.last cells (mkhc 0 0 0 0)))), map (fun c => arr widths (Z.to_nat (h_start c - 1))) cells) /\
  fst (hermes_header widths cells) <= record_width widths.
Proof.
  intros F Hne H. unfold hermes_header.
  rewrite (hline_spec widths cells 0 0 0 [] F H ltac:(lia) (arr_nonneg _ _ F) (arr_nonneg _ _ F) ltac:(lia)).
  destruct cells as [|c r]; [contradiction|]. split; [reflexivity|]. cbn [fst].
  unfold record_width. apply arr_mono; [exact F|].
  (* the last cell's end is at most the number of columns *)
  assert (G : forall cells pe, hcells_ok (Z.of_nat (List.length widths)) pe cells = true -> cells <> [] ->
              h_end (List.last cells (mkhc 0 0 0 0)) <= Z.of_nat (List.length widths)).
  { induction cells as [|x l IHl]; intros pe Hk Hn; [contradiction|].
    cbn [hcells_ok] in Hk. apply andb_true_iff in Hk as [Hk Hr]. apply andb_true_iff in Hk as [Hk _].
    apply andb_true_iff in Hk as [_ H3]. apply Z.leb_le in H3.
    destruct l as [|y l']; [exact H3|]. apply (IHl (h_end x) Hr). discriminate. }
  pose proof (G (c :: r) 0 H ltac:(discriminate)). lia.
Qed.

(* after any sequence of runs into the same result folder a result file holds exactly the lines of
   the LAST run *)
Lemma after_runs_last {A : Type} (runs : list (list A)) : forall (file last : list A),
  after_runs file (runs ++ [last]) = last.
Proof.
  induction runs as [|r runs IH]; intros file last; [reflexivity|]. cbn [app after_runs]. apply IH.
Qed.

(* the limit made visible: without truncation a shorter run after a longer one keeps the old tail *)
Lemma keep_tail_refuted_lemma :
  exists old new : list nat, write_run_keep old new <> new /\ write_run old new = new.
Proof. exists [1; 2; 3]%nat, [7]%nat. split; [discriminate | reflexivity]. Qed.

(* CSV lines: the number of fields a reader gets = number of columns + separators inside the fields *)
Lemma count_char_app c a b : count_char c (a ++ b) = (count_char c a + count_char c b)%nat.
Proof. induction a as [|x a IH]; [reflexivity|]. cbn. rewrite IH. lia. Qed.

Lemma split_count_join sep (fields : list lstr) :
  fields <> [] ->
  split_count sep (csv_join sep fields) = (List.length fields + fold_right Nat.add 0%nat (map (count_char sep) fields))%nat.
Proof.
  intros Hne. unfold split_count. induction fields as [|f r IH]; [contradiction|].
  destruct r as [|g r'].
  - cbn. lia.
  - assert (Hg : g :: r' <> []) by discriminate. specialize (IH Hg).
    change (csv_join sep (f :: g :: r')) with (f ++ sep :: csv_join sep (g :: r')).
    rewrite count_char_app. change (count_char sep (sep :: csv_join sep (g :: r')))
      with ((if Ascii.eqb sep sep then 1 else 0) + count_char sep (csv_join sep (g :: r')))%nat.
    rewrite Ascii.eqb_refl.
    change (map (count_char sep) (f :: g :: r')) with (count_char sep f :: map (count_char sep) (g :: r')).
    change (List.length (f :: g :: r')) with (S (List.length (g :: r'))).
    cbn [fold_right]. lia.
Qed.

(* separator-free fields: exactly one field per column; a field containing the separator: more *)
Lemma csv_fields_exact sep (fields : list lstr) :
  fields <> [] -> Forall (fun f => count_char sep f = 0%nat) fields ->
  split_count sep (csv_join sep fields) = List.length fields.
Proof.
  intros Hne F. rewrite split_count_join by exact Hne.
  assert (Z0 : fold_right Nat.add 0%nat (map (count_char sep) fields) = 0%nat).
  { clear Hne. induction F as [|f r Hf Hr IH]; [reflexivity|]. cbn [map fold_right]. lia. }
  rewrite Z0. lia.
Qed.

Lemma csv_field_with_separator sep (fields : list lstr) f :
  In f fields -> (0 < count_char sep f)%nat -> (List.length fields < split_count sep (csv_join sep fields))%nat.
Proof.
  intros Hin Hpos. assert (Hne : fields <> []) by (destruct fields; [contradiction | discriminate]).
  rewrite split_count_join by exact Hne.
  assert (G : (count_char sep f <= fold_right Nat.add 0%nat (map (count_char sep) fields))%nat).
  { clear Hne. induction fields as [|x r IH]; [contradiction|]. cbn. destruct Hin as [->|Hin]; [lia|]. specialize (IH Hin). lia. }
  lia.
Qed.

(* a text without , ; CR LF has no separator of either dialect *)
Lemma sepfree_text_count s : sepfree_text s = true ->
  count_char ","%char (lstr_of s) = 0%nat /\ count_char ";"%char (lstr_of s) = 0%nat.
Proof.
  unfold sepfree_text. generalize (lstr_of s) as l. induction l as [|c l IH]; [split; reflexivity|].
  cbn [forallb count_char]. intros H. apply andb_true_iff in H as [Hc Hl]. destruct (IH Hl) as [A B].
  unfold sep_char in Hc. apply negb_true_iff in Hc.
  apply orb_false_iff in Hc as [Hc _]. apply orb_false_iff in Hc as [Hc _]. apply orb_false_iff in Hc as [H1 H2].
  rewrite H1, H2, A, B. split; reflexivity.
Qed.
