(* Prop_C02.v — property C02 (soil mineral nitrogen mass balance), stated about NitroModel — the
   executable model compared bit for bit with nmove / mineral / Denitr — read over the reals. *)
From Coq Require Import ZArith Reals List Bool.
From Hermes Require Import Num RUtil NitroModel NitroProofs.
Local Open Scope R_scope.

(* convective-dispersive transport only moves N between layers: for every number of layers n >= 2, every
   flux pattern (all four sign cases at every interface, upward flow at the drain layer included) and every
   sub-step length, the new profile content equals the old one minus uptake plus the source term minus what
   the leaching counter and the drain counter gain — plus the explicit amounts added by the non-negativity
   clamps, which are each >= 0 (so the clamp may add, never remove, N) *)
Theorem C02_transport_balance : forall (x : nmove_in (T:=R)) (n : nat),
  nmove_wf x n ->
  Rsum (nm_c1 x) =
    Rsum (ni_c1 x) - (if ni_subd1 x then Rsum (nm_pe x) else 0) + Rsum (ni_dn x) * ni_wdt x
    - (nm_add_out x (ni_outsum x) - ni_outsum x) - (nm_drainloss x - ni_drainloss x)
    + (slack_uptake x n + slack_conc x n + slack_ckonz x n + slack_final x n).
Proof. exact nmove_balance_lemma. Qed.

Theorem C02_clamp_only_adds : forall (x : nmove_in (T:=R)) (n : nat),
  nmove_wf x n -> 0 <= slack_uptake x n + slack_conc x n + slack_ckonz x n + slack_final x n.
Proof. exact slack_nonneg. Qed.

(* the two telescoping facts behind it, for every interface flux pattern *)
Theorem C02_dispersion_telescopes : forall (db carr : list R) (n : nat),
  (2 <= n)%nat -> Rsum (map (fun z0 => @disp_at R RNum n db carr (S z0)) (seq 0 n)) = 0.
Proof. exact disp_sum. Qed.

Theorem C02_convection_telescopes : forall draidep qdrain (q1 carr : list R) (n : nat),
  get 0 carr 0 = 0 -> (get 0 q1 0 < 0 -> qdrain = 0) ->
  Rsum (map (fun z0 => @konv_at R RNum draidep qdrain q1 carr (S z0) * 10) (seq 0 n))
  = Fint q1 carr n + (if (Nat.ltb 0 draidep && Nat.leb draidep n)%bool then get 0 carr draidep * qdrain else 0).
Proof. exact konv_sum. Qed.

(* the instability flag is raised exactly when some pre-clamp layer content is below the threshold *)
Theorem C02_instability_flag : forall (x : nmove_in (T:=R)),
  ni_stab x <= 0 ->
  (no_unstable (nmove x) = true <-> exists ck, In ck (nm_ckonz x) /\ ck < ni_stab x).
Proof. exact unstable_iff. Qed.

(* the source term handed to the transport is net mineralisation + dissolved fertiliser - nitrification N2O *)
Theorem C02_source_term : forall z (l : mineral_layer_in (T:=R)) (g : mineral_glob (T:=R)),
  let '(o, g') := mineral_layer z l g in
  mo_naos o + mo_minaos o = ml_naos l + ml_minaos l /\
  mo_nfos o + mo_minfos o = ml_nfos l + ml_minfos l /\
  mo_naos o <= ml_naos l /\ mo_nfos o <= ml_nfos l /\
  mg_ums g' = mg_ums g + mo_dums o /\ mg_nh4ums g' = mg_nh4ums g + mo_dnh4ums o /\
  mg_dsumm g' = mg_dsumm g /\ mg_nh4sum g' = mg_nh4sum g /\
  mo_dn o = (mo_minaos o - ml_minaos l) + (mo_minfos o - ml_minfos l) + mo_dums o
            - (mg_n2onitsum g' - mg_n2onitsum g).
Proof. exact mineral_layer_books. Qed.

(* denitrification: the counter gains at least what the soil loses; contents stay non-negative *)
Theorem C02_denitrification : forall (x : denit_in (T:=R)),
  length (di_c1 x) = 3%nat -> Forall (fun c => 0 <= c) (di_c1 x) ->
  let o := denitr x in
  Forall (fun c => 0 <= c) (do_c1 o) /\
  Rsum (di_c1 x) - (do_cumdenit o - di_cumdenit x) <= Rsum (do_c1 o) /\
  (0 <= do_denit o -> Rsum (do_c1 o) <= Rsum (di_c1 x)).
Proof. exact denitr_books. Qed.

(* ... and on peat soils (three 30 cm blocks, each with its own rate) *)
Theorem C02_denitrification_peat : forall (x : denitmo_in (T:=R)),
  length (dm_c1 x) = 9%nat -> Forall (fun c => 0 <= c) (dm_c1 x) ->
  let o := denitmo x in
  Forall (fun c => 0 <= c) (dmo_c1 o) /\
  Rsum (dm_c1 x) - (dmo_cum o - dm_cum x) <= Rsum (dmo_c1 o).
Proof. exact denitmo_books. Qed.

(* tillage mixing only redistributes mineral N over the mixing depth (its clamp can only add) *)
Theorem C02_tillage_mixing_mineral_n : forall (c1 : list R) (m : nat),
  (1 <= m <= length c1)%nat ->
  Rsum c1 <= Rsum (@mix_c1 R RNum (INR m) m c1) /\
  (Forall (fun c => 0 <= c) c1 -> Rsum (@mix_c1 R RNum (INR m) m c1) = Rsum c1).
Proof. exact mix_c1_only_adds. Qed.

Print Assumptions C02_transport_balance.
Print Assumptions C02_denitrification_peat.
Print Assumptions C02_tillage_mixing_mineral_n.
Print Assumptions C02_clamp_only_adds.
Print Assumptions C02_dispersion_telescopes.
Print Assumptions C02_convection_telescopes.
Print Assumptions C02_instability_flag.
Print Assumptions C02_source_term.
Print Assumptions C02_denitrification.
