(* Prop_C02b.v — properties C02 and C07 at the level of ONE SIMULATED DAY, stated about DayNitroModel.day_nitro —
   the composition of run.go's day loop and Nitro's bookkeeping around the kernels mineral / nmove / Denitr /
   Denitmo, compared bit for bit with whole traced days (DayNitroCorr.v) — read over the reals.

   Terms (DayNitroProofs.v):
     day_dep x   = DEPOS/365*DT                       day_irr x = BRKZ*BREG*0.01 when an irrigation fires and it is > 0
     day_source  = (sum MINAOS + sum MINFOS gained over the day) + (UMS gained) - (N2onitsum gained)
     dn_pe_taken = the layer uptakes after the clamp of sub-step 1
     day_denit_loss = sum C1 before - after the denitrification call
     day_slack x n  = what the non-negativity clamps added: after the deposition, in the tillage mixing of mineral N,
                      and the four clamp slacks of every sub-step's transport (slack_uptake, slack_conc, slack_ckonz, slack_final of NitroProofs), summed over the
                      k sub-steps
   Hypotheses [day_wf x n]: n >= 2 layers; array lengths; leaching depth = profile bottom (OUTN = n); k >= 1 sub-steps
   with wdt * k = 1; per sub-step positive water contents and QDRAIN = 0 when FLUSS0*wdt < 0 (what Water guarantees);
   mineralisation depth and tillage mixing depth inside the profile; n >= 9 on peat soils. *)
From Coq Require Import ZArith Reals List Bool.
From Hermes Require Import Num RUtil NitroModel NitroProofs DayNitroModel DayNitroProofs DayNitroRun.
Local Open Scope R_scope.

(* C02: on every simulated day the change of mineral N summed over the profile equals deposition + N in irrigation
   water + (net mineralisation + dissolved fertiliser - nitrification N2O) - crop uptake - leaching through the profile
   bottom - loss to drains - the soil's loss by denitrification, plus the amounts added by the non-negativity clamps,
   which are >= 0 (the clamps may add, never remove, N); the denitrification loss is at most what CUMDENIT gains;
   the source term handed to the transport sums to the mineralisation / dissolution / N2O counters' gains.
   For every layer count n >= 2 and every number k >= 1 of sub-steps. *)
Theorem C02_day_balance : forall (x : dayn_in (T:=R)) (n : nat),
  day_wf x n ->
  let o := day_nitro x in
  Rsum (dn_c1 o) - Rsum (dy_c1 x) =
    day_dep x + day_irr x + day_source x
    - Rsum (dn_pe_taken o) - (dn_outsum o - dy_outsum x) - (dn_drainloss o - dy_drainloss x)
    - day_denit_loss x + day_slack x n /\
  0 <= day_slack x n /\
  day_denit_loss x <= dn_cumdenit o - dy_cumdenit x /\
  Rsum (dn_dn o) = day_source x.
Proof. exact day_balance_lemma. Qed.

(* C07: over the k sub-steps of a day the crop is credited exactly once: AUFNASUM gains the clamped layer uptakes of
   sub-step 1, PESUM the same plus the day's fixation while a crop grows — whatever k is; PE is zero at the end *)
Theorem C07_day_credited_once : forall (x : dayn_in (T:=R)) (n : nat),
  day_wf x n ->
  let o := day_nitro x in
  dn_aufnasum o - dy_aufnasum x = Rsum (dn_pe_taken o) /\
  dn_pesum o - dy_pesum x = Rsum (dn_pe_taken o) + (if dy_growing x then dy_schnorr x else 0) /\
  Rsum (dn_pe o) = 0.
Proof. exact day_credit_lemma. Qed.

(* C07: over a whole day (fertiliser event, tillage mixing, mineralisation) every organic pool plus its
   mineralised-amount counter changes only by the organic fertiliser applied, and the mineral fertiliser applied is
   booked in DSUMM / NH4Sum *)
Theorem C07_day_pool_books : forall (x : dayn_in (T:=R)) (n : nat),
  day_wf x n ->
  let o := day_nitro x in
  Rsum (dn_naos o) + Rsum (dn_minaos o) = Rsum (dy_naos x) + Rsum (dy_minaos x) + (if dy_fert x then dy_nlas x else 0) /\
  Rsum (dn_nfos o) + Rsum (dn_minfos o) = Rsum (dy_nfos x) + Rsum (dy_minfos x) + (if dy_fert x then dy_nsas x else 0) /\
  dn_dsumm o = dy_dsumm x + (if dy_fert x then dy_ndir x else 0) /\
  dn_nh4sum o = dy_nh4sum x + (if dy_fert x then dy_nh4n x else 0).
Proof. exact day_pools_lemma. Qed.

(* the hypotheses are satisfiable: two layers, two sub-steps, irrigation N, deposition, a fertiliser event *)
Example C02b_nonvacuous :
  exists x : dayn_in (T:=R), day_wf x 2 /\ dy_fert x = true /\ dy_add x = true /\ length (dy_subs x) = 2%nat.
Proof. exact day_wf_nonvacuous. Qed.

(* C02 over the whole RUN (every history of modelled days): any number of days, each with its own inputs, events and
   number of sub-steps; the mineral-N profile and the three counters the balance refers to (leaching, drain loss,
   cumulated denitrification) are carried from the end of a day to the start of the next.  Final mineral N = initial
   + the summed gains (deposition + irrigation N + source term - crop uptake) - what the leaching counter gained - what
   the drain counter gained - the soil's denitrification losses + the clamp slack; the losses are at most what the
   denitrification counter gained; the clamp slack is >= 0. *)
Theorem C02_run_balance : forall (n : nat) (days : list (dayn_in (T:=R))) (s : ncarry),
  length (nc_c1 s) = n -> List.Forall (nday_ok n) days ->
  let '(s', g, dl, sl) := nrun n s days in
  Rsum (nc_c1 s') = Rsum (nc_c1 s) + g - (nc_out s' - nc_out s) - (nc_drain s' - nc_drain s) - dl + sl /\
  dl <= nc_den s' - nc_den s /\
  0 <= sl /\ length (nc_c1 s') = n.
Proof. exact (fun n days s => nrun_balance_lemma n days s). Qed.

Example C02_run_nonvacuous :
  exists (days : list (dayn_in (T:=R))) (s : ncarry),
    length days = 3%nat /\ length (nc_c1 s) = 2%nat /\ List.Forall (nday_ok 2) days.
Proof. exact nrun_nonvacuous. Qed.

Print Assumptions C02_day_balance.
Print Assumptions C07_day_credited_once.
Print Assumptions C07_day_pool_books.
Print Assumptions C02_run_balance.
