(* SchedProofs.v — lemmas about SchedModel (property C10).
   Layers:  (1) the array-level readers are represented by a list of kept events + the value of
            the slot just past the count (slot/payload alignment);
            (2) the one-pass shift loop equals [shift_from] on lists; when no event is dated
            earlier than the day its predecessor was moved to ([no_overrun]) the shifted dates are
            strictly increasing, each moved by 0 or 1 day;
            (3) the day loop over a strictly increasing date array fires every event whose
            exec-day is <= ENDE exactly once, in order, on date+delta, in sub-step 1. *)
From Coq Require Import ZArith List Bool Lia Reals Lra Sorted.
From Hermes Require Import Num SchedModel.
Import ListNotations.
Open Scope Z_scope.

Lemma upd_same {A} (f : Z -> A) i v : upd f i v i = v.
Proof. unfold upd. now rewrite Z.eqb_refl. Qed.
Lemma upd_other {A} (f : Z -> A) i j v : j <> i -> upd f i v j = f j.
Proof. unfold upd. intros H. destruct (j =? i) eqn:E; [apply Z.eqb_eq in E; contradiction | reflexivity]. Qed.

(* ------------------------------------------------------------------------------------------ *)
(* (1) readers                                                                                 *)

Section ReaderProofs.
  Context {P : Type} (dflt : P).
  Notation ev := (Z * P)%type.
  Definition ev0 : ev := (0, dflt).

  (* the matching lines the scan processes, in file order *)
  Fixpoint processed (outer : bool) (ls : list (line P)) : list ev :=
    match ls with
    | [] => []
    | Mine d p :: r => (d, p) :: processed false r
    | Other :: r => processed true r
    | Blank :: r => if outer then [] else processed true r
    end.

  Definition keptb (B : Z) (x : ev) : bool := B <=? fst x.
  Definition kept (B : Z) (l : list ev) : list ev := filter (keptb B) l.

  (* content of the slot just past the count: the last processed line when that was dropped *)
  Fixpoint tail_of (B : Z) (t : ev) (l : list ev) : ev :=
    match l with
    | [] => t
    | x :: r => tail_of B (if keptb B x then ev0 else x) r
    end.

  (* array state [s] holds the events [L] in slots 0..|L|-1, [t] in slot |L|, zeros beyond *)
  Definition Repr (s : rd P) (L : list ev) (t : ev) : Prop :=
    rd_n s = Z.of_nat (length L) /\
    (forall i, (i < length L)%nat ->
       rd_date s (Z.of_nat i) = fst (nth i L ev0) /\ rd_pay s (Z.of_nat i) = snd (nth i L ev0)) /\
    (rd_date s (rd_n s) = fst t /\ rd_pay s (rd_n s) = snd t) /\
    (forall j, j > rd_n s -> rd_date s j = 0 /\ rd_pay s j = dflt).

  Lemma rd_line_repr B s L t d p :
    Repr s L t ->
    Repr (rd_line B s d p) (if B <=? d then L ++ [(d, p)] else L) (if B <=? d then ev0 else (d, p)).
  Proof.
    intros (Hn & Hs & (Ht1 & Ht2) & Hz).
    unfold rd_line. replace (rd_n s + 1 - 1) with (rd_n s) by lia.
    destruct (B <=? d) eqn:E.
    - assert (d <? B = false) as -> by (apply Z.ltb_ge; apply Z.leb_le in E; lia).
      unfold Repr; cbn [rd_n rd_date rd_pay]. rewrite app_length; cbn [length].
      split; [lia|]. split; [|split].
      + intros i Hi. destruct (Nat.eq_dec i (length L)) as [->|Hne].
        * rewrite <- Hn, !upd_same. rewrite app_nth2, Nat.sub_diag by lia. now cbn.
        * assert (i < length L)%nat by lia.
          rewrite !upd_other by lia. rewrite app_nth1 by lia. now apply Hs.
      + rewrite !upd_other by lia. apply Hz. lia.
      + intros j Hj. rewrite !upd_other by lia. apply Hz. lia.
    - assert (d <? B = true) as -> by (apply Z.ltb_lt; apply Z.leb_gt in E; lia).
      unfold Repr; cbn [rd_n rd_date rd_pay].
      split; [lia|]. split; [|split].
      + intros i Hi. rewrite !upd_other by lia. now apply Hs.
      + now rewrite !upd_same.
      + intros j Hj. rewrite !upd_other by lia. apply Hz. lia.
  Qed.

  Lemma scan_repr B : forall ls outer s L t,
    Repr s L t ->
    Repr (rd_scan B outer ls s) (L ++ kept B (processed outer ls)) (tail_of B t (processed outer ls)).
  Proof.
    induction ls as [|[d p| |] r IH]; intros outer s L t H; cbn [rd_scan processed].
    - cbn. now rewrite app_nil_r.
    - pose proof (rd_line_repr B s L t d p H) as H1.
      apply (IH false) in H1. unfold kept in *. cbn [filter tail_of].
      replace (keptb B (d, p)) with (B <=? d) by reflexivity.
      destruct (B <=? d); [rewrite <- app_assoc in H1|]; exact H1.
    - now apply IH.
    - destruct outer; [cbn; now rewrite app_nil_r | now apply IH].
  Qed.

  (* pre-start events are dropped: what is kept is exactly the processed lines dated >= BEGINN,
     each with its own payload, in file order *)
  Lemma kept_spec B l x : In x (kept B l) <-> In x l /\ B <= fst x.
  Proof. unfold kept, keptb. rewrite filter_In, Z.leb_le. tauto. Qed.

  Lemma tail_of_cases B t l :
    (tail_of B t l = t /\ l = []) \/ tail_of B t l = ev0 \/
    (exists x, In x l /\ fst x < B /\ tail_of B t l = x).
  Proof.
    revert t; induction l as [|x r IH]; intros t; cbn [tail_of]; [now left|].
    destruct (IH (if keptb B x then ev0 else x)) as [[H ->]|[H|(y & Hy & Hlt & H)]].
    - cbn [tail_of] in *. unfold keptb in *. destruct (B <=? fst x) eqn:E.
      + right; now left.
      + right; right. exists x. apply Z.leb_gt in E. cbn; auto.
    - right; now left.
    - right; right. exists y. cbn; auto.
  Qed.
End ReaderProofs.

(* ------------------------------------------------------------------------------------------ *)
(* (2) the shift loop                                                                          *)

(* list form of the loop: [p] is the (already shifted) predecessor; a date that is not later than it is
   moved to the day after it *)
Fixpoint shift_from (p : Z) (l : list Z) : list Z :=
  match l with
  | [] => []
  | d :: r => let d' := if d <=? p then p + 1 else d in d' :: shift_from d' r
  end.

Definition shiftL (l : list Z) : list Z :=
  match l with [] => [] | d :: r => d :: shift_from d r end.

Fixpoint strict_from (p : Z) (l : list Z) : Prop :=
  match l with [] => True | d :: r => p < d /\ strict_from d r end.

Fixpoint ascending_from (p : Z) (l : list Z) : Prop :=
  match l with [] => True | d :: r => p <= d /\ ascending_from d r end.

(* class of schedules on which every date moves by at most one day: no event is dated earlier than
   the day its predecessor ended up on *)
Fixpoint no_overrun (p : Z) (l : list Z) : Prop :=
  match l with
  | [] => True
  | d :: r => p <= d /\ no_overrun (if d <=? p then p + 1 else d) r
  end.

Lemma shift_from_length p l : length (shift_from p l) = length l.
Proof. revert p; induction l as [|d r IH]; intros p; cbn; [reflexivity | now rewrite IH]. Qed.

(* the repaired loop makes the dates strictly increasing — for every input *)
Lemma shift_strict p l : strict_from p (shift_from p l).
Proof.
  revert p; induction l as [|d r IH]; intros p; cbn; [exact I|]. split; [|apply IH].
  destruct (d <=? p) eqn:E; [lia | apply Z.leb_gt in E; lia].
Qed.

Lemma shift_from_nth p l i :
  (i < length l)%nat ->
  let s := shift_from p l in
  let prev := match i with O => p | S k => nth k s 0 end in
  nth i s 0 = (if nth i l 0 <=? prev then prev + 1 else nth i l 0).
Proof.
  revert p i; induction l as [|d r IH]; intros p i Hi; cbn [length] in Hi; [lia|].
  destruct i as [|i]; cbn [shift_from nth]; [reflexivity|].
  specialize (IH (if d <=? p then p + 1 else d) i ltac:(lia)). cbn zeta in IH.
  rewrite IH. destruct i; reflexivity.
Qed.

(* never earlier than the file date *)
Lemma shift_from_ge p l i : (i < length l)%nat -> nth i l 0 <= nth i (shift_from p l) 0.
Proof.
  intros Hi. pose proof (shift_from_nth p l i Hi) as H. cbn zeta in H. rewrite H.
  destruct (_ <=? _) eqn:E; [apply Z.leb_le in E; lia | lia].
Qed.

(* the least strictly increasing sequence above p that is >= the dates *)
Lemma shift_from_least p : forall l t,
  strict_from p t -> length t = length l -> (forall i, (i < length l)%nat -> nth i l 0 <= nth i t 0) ->
  forall i, (i < length l)%nat -> nth i (shift_from p l) 0 <= nth i t 0.
Proof.
  intros l; revert p; induction l as [|d r IH]; intros p t Hs Hl Hge i Hi; cbn [length] in *; [lia|].
  destruct t as [|e t']; [discriminate|]. cbn [strict_from length] in *. destruct Hs as [Hpe Hs].
  pose proof (Hge O ltac:(lia)) as H0. cbn [nth] in H0.
  set (d' := if d <=? p then p + 1 else d).
  assert (Hd' : d' <= e) by (unfold d'; destruct (d <=? p); lia).
  destruct i as [|i]; cbn [shift_from nth]; [exact Hd'|].
  apply (IH d' t'); try lia.
  - clear -Hs Hd'. destruct t' as [|f t'']; cbn in *; [exact I|]. split; [lia | tauto].
  - intros j Hj. specialize (Hge (S j) ltac:(lia)). exact Hge.
Qed.

Lemma no_overrun_bounds p l : no_overrun p l -> forall i, (i < length l)%nat ->
  nth i (shift_from p l) 0 <= nth i l 0 + 1.
Proof.
  revert p; induction l as [|d r IH]; intros p H i Hi; cbn [length] in Hi; [lia|].
  cbn [no_overrun] in H. destruct H as [Hpd H].
  destruct i as [|i]; cbn [shift_from nth].
  - destruct (d <=? p) eqn:E; [apply Z.leb_le in E; lia | lia].
  - apply IH; [exact H | lia].
Qed.

Lemma last_nonempty_indep (x : Z) l a b : last (x :: l) a = last (x :: l) b.
Proof. revert x; induction l as [|y l IH]; intros x; cbn [last]; [reflexivity | apply IH]. Qed.

Lemma strict_from_ge p l x : strict_from p l -> In x l -> p < x.
Proof.
  revert p; induction l as [|d r IH]; intros p; cbn; [tauto|].
  intros [H1 H2] [->|Hin]; [lia|]. specialize (IH d H2 Hin). lia.
Qed.

Lemma strict_from_last p l : strict_from p l -> p <= last l p.
Proof.
  revert p; induction l as [|d r IH]; intros p; cbn [strict_from last]; [lia|].
  intros [H1 H2]. destruct r as [|e r']; [lia|].
  specialize (IH d H2). rewrite (last_nonempty_indep e r' p d). lia.
Qed.

(* the array loop computes [shift_from] on the slots k+1 .. k+cnt and touches nothing else *)
Lemma shift_arr_spec : forall cnt k a l,
  length l = cnt ->
  (forall i, (i < cnt)%nat -> a (k + 1 + Z.of_nat i) = nth i l 0) ->
  let a' := shift_arr k cnt a in
  (forall j, j <= k -> a' j = a j) /\
  (forall i, (i < cnt)%nat -> a' (k + 1 + Z.of_nat i) = nth i (shift_from (a k) l) 0) /\
  (forall j, j > k + Z.of_nat cnt -> a' j = a j).
Proof.
  induction cnt as [|cnt IH]; intros k a l Hl Ha; cbn [shift_arr].
  - repeat split; intros; try reflexivity; lia.
  - destruct l as [|d r]; [discriminate|]. cbn [length] in Hl.
    assert (Hd : a (k + 1) = d) by (specialize (Ha O ltac:(lia)); cbn in Ha; rewrite Z.add_0_r in Ha; exact Ha).
    set (a1 := if a (k + 1) <=? a k then upd a (k + 1) (a k + 1) else a).
    assert (H1 : a1 (k + 1) = (if d <=? a k then a k + 1 else d)).
    { unfold a1. rewrite Hd. destruct (d <=? a k); [now rewrite upd_same | exact Hd]. }
    assert (Hoth : forall j, j <> k + 1 -> a1 j = a j).
    { intros j Hj. unfold a1. destruct (_ <=? _); [now apply upd_other | reflexivity]. }
    specialize (IH (k + 1) a1 r ltac:(lia)).
    assert (Hpre : forall i, (i < cnt)%nat -> a1 (k + 1 + 1 + Z.of_nat i) = nth i r 0).
    { intros i Hi. rewrite Hoth by lia. specialize (Ha (S i) ltac:(lia)). cbn [nth] in Ha.
      rewrite <- Ha. f_equal. lia. }
    specialize (IH Hpre). cbn zeta in IH. destruct IH as (I1 & I2 & I3).
    cbn zeta. split; [|split].
    + intros j Hj. rewrite I1 by lia. apply Hoth. lia.
    + intros i Hi. cbn [shift_from]. destruct i as [|i]; cbn [nth].
      * rewrite Z.add_0_r. rewrite I1 by lia. exact H1.
      * replace (k + 1 + Z.of_nat (S i)) with (k + 1 + 1 + Z.of_nat i) by lia.
        rewrite I2 by lia. now rewrite H1.
    + intros j Hj. rewrite I3 by lia. apply Hoth. lia.
Qed.

(* the irrigation compaction: the slots i .. i+cnt-1 hold the events L; those dated >= B are copied, in order,
   to the slots kept .. ; nothing below [kept] and nothing from i+cnt on is touched *)
Section Compact.
  Context {P : Type} (dflt : P).
  Lemma compact_spec B : forall cnt i k d p (L : list (Z * P)),
    k <= i -> length L = cnt ->
    (forall j, (j < cnt)%nat -> d (i + Z.of_nat j) = fst (nth j L (ev0 dflt)) /\ p (i + Z.of_nat j) = snd (nth j L (ev0 dflt))) ->
    let '(k', d', p') := compact B i cnt k d p in
    let K := kept B L in
    k' = k + Z.of_nat (length K) /\
    (forall j, (j < length K)%nat -> d' (k + Z.of_nat j) = fst (nth j K (ev0 dflt)) /\ p' (k + Z.of_nat j) = snd (nth j K (ev0 dflt))) /\
    (forall x, x < k -> d' x = d x /\ p' x = p x).
  Proof.
    induction cnt as [|cnt IH]; intros i k d p L Hki Hl Ha; cbn [compact].
    - destruct L; [|discriminate]. cbn. repeat split; try lia; intros; lia.
    - destruct L as [|x r]; [discriminate|]. cbn [length] in Hl.
      destruct (Ha O ltac:(lia)) as [Hd Hp]. cbn [nth] in Hd, Hp. rewrite Z.add_0_r in Hd, Hp.
      assert (Hk : keptb B x = (B <=? d i)) by (unfold keptb; now rewrite Hd).
      destruct (B <=? d i) eqn:E.
      + specialize (IH (i + 1) (k + 1) (upd d k (d i)) (upd p k (p i)) r ltac:(lia) ltac:(lia)).
        assert (Hpre : forall j, (j < cnt)%nat ->
                  upd d k (d i) (i + 1 + Z.of_nat j) = fst (nth j r (ev0 dflt)) /\ upd p k (p i) (i + 1 + Z.of_nat j) = snd (nth j r (ev0 dflt))).
        { intros j Hj. rewrite !upd_other by lia. specialize (Ha (S j) ltac:(lia)). cbn [nth] in Ha.
          replace (i + 1 + Z.of_nat j) with (i + Z.of_nat (S j)) by lia. exact Ha. }
        specialize (IH Hpre).
        assert (HK : kept B (x :: r) = x :: kept B r) by (unfold kept; cbn [filter]; now rewrite Hk).
        destruct (compact B (i + 1) cnt (k + 1) (upd d k (d i)) (upd p k (p i))) as [[k' d'] p'].
        cbn zeta in *. rewrite HK. destruct IH as (I1 & I2 & I3). cbn [length].
        split; [lia|]. split.
        * intros j Hj. destruct j as [|j]; cbn [nth].
          -- rewrite Z.add_0_r. destruct (I3 k ltac:(lia)) as [-> ->]. rewrite !upd_same. rewrite Hd, Hp. auto.
          -- replace (k + Z.of_nat (S j)) with (k + 1 + Z.of_nat j) by lia. apply I2. lia.
        * intros y Hy. destruct (I3 y ltac:(lia)) as [-> ->]. rewrite !upd_other by lia. auto.
      + specialize (IH (i + 1) k d p r ltac:(lia) ltac:(lia)).
        assert (Hpre : forall j, (j < cnt)%nat ->
                  d (i + 1 + Z.of_nat j) = fst (nth j r (ev0 dflt)) /\ p (i + 1 + Z.of_nat j) = snd (nth j r (ev0 dflt))).
        { intros j Hj. specialize (Ha (S j) ltac:(lia)). cbn [nth] in Ha.
          replace (i + 1 + Z.of_nat j) with (i + Z.of_nat (S j)) by lia. exact Ha. }
        specialize (IH Hpre).
        assert (HK : kept B (x :: r) = kept B r) by (unfold kept; cbn [filter]; now rewrite Hk).
        destruct (compact B (i + 1) cnt k d p) as [[k' d'] p']. cbn zeta in *. rewrite HK. exact IH.
  Qed.
End Compact.

Section DayLoop.
  Variable a : Z -> Z.
  Variable delta : Z.

  (* within one day at most the first sub-step fires, whatever the number of sub-steps *)
  Lemma sub_steps_not1 z : forall cnt subd c, subd <> 1 -> 1 <= subd ->
    sub_steps a delta z subd cnt c = (c, []).
  Proof.
    induction cnt as [|cnt IH]; intros subd c H1 H2; cbn [sub_steps]; [reflexivity|].
    assert (subd =? 1 = false) as -> by now apply Z.eqb_neq.
    rewrite andb_false_r. apply IH; lia.
  Qed.

  Lemma sub_steps_day z cnt c : (1 <= cnt)%nat ->
    sub_steps a delta z 1 cnt c =
    if z =? a c + delta then (c + 1, [(z, 1, c)]) else (c, []).
  Proof.
    destruct cnt as [|cnt]; [lia|]. intros _. cbn [sub_steps]. rewrite Z.eqb_refl, andb_true_r.
    destruct (z =? a c + delta); rewrite sub_steps_not1 by lia; reflexivity.
  Qed.

  (* the fired list an ideal executor would produce for dates [l] held in slots idx, idx+1, ...:
     every event whose exec-day is <= ENDE, once, in order, on date+delta *)
  Fixpoint expected (E idx : Z) (l : list Z) : list (Z * Z * Z) :=
    match l with
    | [] => []
    | d :: r => if d + delta <=? E then (d + delta, 1, idx) :: expected E (idx + 1) r else []
    end.

  Fixpoint expected_once (E idx : Z) (l : list Z) : list (Z * Z * Z) :=
    match l with
    | [] => []
    | d :: r => if d + delta <=? E then (d + delta, 0, idx) :: expected_once E (idx + 1) r else []
    end.

  (* slots c .. c+|l|-1 hold the strictly increasing dates l, none due before z; the slot after
     them can never fire on or after day z0 *)
  Definition pending (z c : Z) (l : list Z) : Prop :=
    (forall i, (i < length l)%nat -> a (c + Z.of_nat i) = nth i l 0) /\
    strict_from (z - delta - 1) l.

  (* the slot after the pending ones can never fire: it is due before today, or not after the last
     pending date (the cursor reaches it only on a later day) *)
  Definition dead_after (z0 c : Z) (l : list Z) : Prop :=
    let v := a (c + Z.of_nat (length l)) in
    match l with [] => v + delta < z0 | _ => v <= last l 0 end.

  Lemma run_days_closed steps (Hsteps : forall z, (1 <= steps z)%nat) :
    forall fuel z c l,
    pending z c l -> dead_after z c l ->
    snd (run_days a delta steps fuel z c) = expected (z + Z.of_nat fuel - 1) c l.
  Proof.
    induction fuel as [|fuel IH]; intros z c l [Ha Hs] Hd.
    - cbn [run_days snd]. destruct l as [|d r]; cbn [expected]; [reflexivity|].
      cbn [strict_from] in Hs. destruct (d + delta <=? z + Z.of_nat 0 - 1) eqn:E; [apply Z.leb_le in E; lia | reflexivity].
    - cbn [run_days]. rewrite sub_steps_day by apply Hsteps.
      destruct l as [|d r].
      + (* only the dead slot is left *)
        unfold dead_after in Hd. cbn [length] in Hd. cbn zeta in Hd. rewrite Z.add_0_r in Hd.
        assert (z =? a c + delta = false) as -> by (apply Z.eqb_neq; lia).
        specialize (IH (z + 1) c [] ).
        destruct (run_days a delta steps fuel (z + 1) c) as [c2 l2] eqn:R. cbn [snd app] in *.
        rewrite IH; [reflexivity | split; [intros i Hi; cbn in Hi; lia | exact I] | unfold dead_after; cbn [length]; cbn zeta; rewrite Z.add_0_r; lia].
      + assert (Hc : a c = d) by (specialize (Ha O ltac:(cbn; lia)); cbn in Ha; rewrite Z.add_0_r in Ha; exact Ha).
        cbn [strict_from] in Hs. destruct Hs as [Hlt Hs]. rewrite Hc.
        destruct (z =? d + delta) eqn:E; [apply Z.eqb_eq in E | apply Z.eqb_neq in E].
        * (* fires today *)
          specialize (IH (z + 1) (c + 1) r).
          destruct (run_days a delta steps fuel (z + 1) (c + 1)) as [c2 l2] eqn:R. cbn [snd app] in *.
          cbn [expected]. assert (d + delta <=? z + Z.of_nat (S fuel) - 1 = true) as -> by (apply Z.leb_le; lia).
          subst z. f_equal. rewrite IH.
          -- f_equal. lia.
          -- split.
             ++ intros i Hi. specialize (Ha (S i) ltac:(cbn; lia)). cbn [nth] in Ha. rewrite <- Ha. f_equal. lia.
             ++ replace (d + delta + 1 - delta - 1) with d by lia. exact Hs.
          -- unfold dead_after in *. cbn [length] in Hd. cbn zeta in *.
             replace (c + 1 + Z.of_nat (length r)) with (c + Z.of_nat (S (length r))) by lia.
             destruct r as [|e r']; [cbn [last] in Hd; lia | exact Hd].
        * specialize (IH (z + 1) c (d :: r)).
          destruct (run_days a delta steps fuel (z + 1) c) as [c2 l2] eqn:R. cbn [snd app] in *.
          rewrite IH.
          -- f_equal. lia.
          -- split; [exact Ha|]. cbn [strict_from]. split; [lia | exact Hs].
          -- exact Hd.
  Qed.

  Lemma run_days_once_closed :
    forall fuel z c l,
    pending z c l -> dead_after z c l ->
    snd (run_days_once a delta fuel z c) = expected_once (z + Z.of_nat fuel - 1) c l.
  Proof.
    induction fuel as [|fuel IH]; intros z c l [Ha Hs] Hd.
    - cbn [run_days_once snd]. destruct l as [|d r]; cbn [expected_once]; [reflexivity|].
      cbn [strict_from] in Hs. destruct (d + delta <=? z + Z.of_nat 0 - 1) eqn:E; [apply Z.leb_le in E; lia | reflexivity].
    - cbn [run_days_once].
      destruct l as [|d r].
      + unfold dead_after in Hd. cbn [length] in Hd. cbn zeta in Hd. rewrite Z.add_0_r in Hd.
        assert (z =? a c + delta = false) as -> by (apply Z.eqb_neq; lia).
        rewrite (IH (z + 1) c []); [reflexivity | split; [intros i Hi; cbn in Hi; lia | exact I] | unfold dead_after; cbn [length]; cbn zeta; rewrite Z.add_0_r; lia].
      + assert (Hc : a c = d) by (specialize (Ha O ltac:(cbn; lia)); cbn in Ha; rewrite Z.add_0_r in Ha; exact Ha).
        cbn [strict_from] in Hs. destruct Hs as [Hlt Hs]. rewrite Hc.
        destruct (z =? d + delta) eqn:E; [apply Z.eqb_eq in E | apply Z.eqb_neq in E].
        * specialize (IH (z + 1) (c + 1) r).
          destruct (run_days_once a delta fuel (z + 1) (c + 1)) as [c2 l2] eqn:R. cbn [snd] in *.
          cbn [expected_once]. assert (d + delta <=? z + Z.of_nat (S fuel) - 1 = true) as -> by (apply Z.leb_le; lia).
          subst z. f_equal. rewrite IH.
          -- f_equal. lia.
          -- split.
             ++ intros i Hi. specialize (Ha (S i) ltac:(cbn; lia)). cbn [nth] in Ha. rewrite <- Ha. f_equal. lia.
             ++ replace (d + delta + 1 - delta - 1) with d by lia. exact Hs.
          -- unfold dead_after in *. cbn [length] in Hd. cbn zeta in *.
             replace (c + 1 + Z.of_nat (length r)) with (c + Z.of_nat (S (length r))) by lia.
             destruct r as [|e r']; [cbn [last] in Hd; lia | exact Hd].
        * rewrite (IH (z + 1) c (d :: r)).
          -- f_equal. lia.
          -- split; [exact Ha|]. cbn [strict_from]. split; [lia | exact Hs].
          -- exact Hd.
  Qed.

  (* facts about the closed form: exactly once, in order, on time, only before ENDE *)
  Lemma expected_In E : forall l idx z s k,
    In (z, s, k) (expected E idx l) ->
    s = 1 /\ idx <= k < idx + Z.of_nat (length l) /\ z = nth (Z.to_nat (k - idx)) l 0 + delta /\ z <= E.
  Proof.
    induction l as [|d r IH]; intros idx z s k; cbn [expected]; [cbn; tauto|].
    destruct (d + delta <=? E) eqn:Ed; [|cbn; tauto]. apply Z.leb_le in Ed.
    intros [H|H].
    - inversion H; subst. cbn [length]. replace (k - k) with 0 by lia. cbn. repeat split; lia.
    - apply IH in H. destruct H as (-> & Hk & -> & Hz). cbn [length]. repeat split; try lia.
      replace (Z.to_nat (k - idx)) with (S (Z.to_nat (k - (idx + 1)))) by lia. reflexivity.
  Qed.

  Lemma expected_complete E : forall l idx i,
    strict_from (nth 0 l 0 - 1) l ->
    (i < length l)%nat -> nth i l 0 + delta <= E ->
    In (nth i l 0 + delta, 1, idx + Z.of_nat i) (expected E idx l).
  Proof.
    induction l as [|d r IH]; intros idx i Hs Hi Hle; cbn [length] in Hi; [lia|].
    cbn [expected]. cbn [strict_from nth] in Hs. destruct Hs as [_ Hs].
    destruct i as [|i]; cbn [nth] in *.
    - assert (d + delta <=? E = true) as -> by now apply Z.leb_le. left. f_equal. f_equal. lia.
    - assert (Hd : d < nth i r 0) by (apply (strict_from_ge d r); [exact Hs | apply nth_In; lia]).
      assert (d + delta <=? E = true) as -> by (apply Z.leb_le; lia).
      right. replace (idx + Z.of_nat (S i)) with (idx + 1 + Z.of_nat i) by lia.
      apply IH; try lia.
      destruct r as [|e r']; [cbn in Hi; lia|]. cbn [nth strict_from] in *. split; [lia | tauto].
  Qed.

  Lemma expected_slots_increasing E : forall l idx,
    StronglySorted Z.lt (map snd (expected E idx l)).
  Proof.
    induction l as [|d r IH]; intros idx; cbn [expected]; [constructor|].
    destruct (d + delta <=? E); [|constructor]. cbn [map snd]. constructor; [apply IH|].
    apply Forall_forall. intros k Hk. apply in_map_iff in Hk as ([[z s] k'] & Hk' & Hin). cbn in Hk'. subst k'.
    apply expected_In in Hin. lia.
  Qed.
End DayLoop.

Lemma sorted_lt_NoDup l : StronglySorted Z.lt l -> NoDup l.
Proof.
  induction 1 as [|x l Hs IH Hf]; constructor; [|exact IH].
  intros Hin. rewrite Forall_forall in Hf. specialize (Hf x Hin). lia.
Qed.

(* ------------------------------------------------------------------------------------------ *)
(* payloads (over the reals)                                                                   *)

Section PayloadR.
  Local Open Scope R_scope.

  Lemma dueng_row_R (dgmg : R) (r : frow R) :
    let p := dueng_row dgmg r in
    let gross := dgmg * f_ntot r * f_ndir r in
    p_ndir p = gross * (1 - f_nh4 r * f_loss r) /\
    p_nh4n p = gross * f_nh4 r * (1 - f_loss r) /\
    p_nsas p = (dgmg * f_ntot r - p_ndir p) * f_nfst r /\
    p_nlas p = (dgmg * f_ntot r - p_ndir p) * f_nslo r.
  Proof. cbn. repeat split; ring. Qed.

  Lemma apply_fert_R (s : nstate R) (p : fpay R) :
    let s' := apply_fert s p in
    s_dsumm s' = s_dsumm s + p_ndir p /\ s_nh4sum s' = s_nh4sum s + p_nh4n p /\
    s_nfos0 s' = s_nfos0 s + p_nsas p /\ s_naos0 s' = s_naos0 s + p_nlas p /\
    s_nfertsim s' = s_nfertsim s + p_ndir p.
  Proof. cbn. repeat split. Qed.

  Lemma apply_irr_R (s : istate R) (breg brkz : R) :
    let s' := apply_irr s breg brkz in
    s_regen s' = s_regen s + breg / 10 /\
    s_c10 s' = s_c10 s + Rmax 0 (brkz * breg * / 100).
  Proof.
    cbn. split; [reflexivity|]. unfold irr_n, dec; cbn. unfold RI.ltb.
    replace (10 ^ Z.of_nat 2)%Z with 100%Z by reflexivity.
    destruct (Rlt_dec 0 (brkz * breg * (1 / 100))) as [H|H].
    - rewrite Rmax_right by lra. lra.
    - rewrite Rmax_left by lra. lra.
  Qed.
End PayloadR.

(* ------------------------------------------------------------------------------------------ *)
(* composition: reader + shift loop + day loop                                                 *)

Lemma shift_all_repr (a : Z -> Z) (D : list Z) :
  D <> [] ->
  (forall i, (i < length D)%nat -> a (Z.of_nat i) = nth i D 0) ->
  let a' := shift_all (Z.of_nat (length D)) a in
  (forall i, (i < length D)%nat -> a' (Z.of_nat i) = nth i (shiftL D) 0) /\
  (forall j, Z.of_nat (length D) <= j -> a' j = a j).
Proof.
  destruct D as [|d0 r]; [congruence|]. intros _ Ha. cbn [length] in *.
  unfold shift_all. replace (Z.to_nat (Z.of_nat (S (length r)) - 1)) with (length r) by lia.
  assert (Ha0 : a 0 = d0) by (apply (Ha O); lia).
  pose proof (shift_arr_spec (length r) 0 a r eq_refl) as Sp.
  assert (Hpre : forall i, (i < length r)%nat -> a (0 + 1 + Z.of_nat i) = nth i r 0).
  { intros i Hi. specialize (Ha (S i) ltac:(lia)). cbn [nth] in Ha. rewrite <- Ha. f_equal. lia. }
  specialize (Sp Hpre). cbn zeta in Sp. destruct Sp as (S1 & S2 & S3). rewrite Ha0 in S2.
  cbn zeta. split.
  - intros i Hi. destruct i as [|i]; cbn [shiftL nth].
    + rewrite S1 by lia. exact Ha0.
    + specialize (S2 i ltac:(lia)). replace (Z.of_nat (S i)) with (0 + 1 + Z.of_nat i) by lia. exact S2.
  - intros j Hj. apply S3. lia.
Qed.

Lemma shiftL_length D : length (shiftL D) = length D.
Proof. destruct D; cbn; [reflexivity | now rewrite shift_from_length]. Qed.

Lemma last_shiftL_ge D : D <> [] -> hd 0 D <= last (shiftL D) 0.
Proof.
  destruct D as [|d0 r]; [congruence|]. intros _. cbn [hd shiftL].
  pose proof (strict_from_last d0 _ (shift_strict d0 r)) as Hl.
  destruct (shift_from d0 r) as [|e r'] eqn:E; [cbn; lia|].
  change (last (d0 :: e :: r') 0) with (last (e :: r') 0).
  rewrite (last_nonempty_indep e r' 0 d0). exact Hl.
Qed.

Lemma shiftL_strict D : D <> [] -> strict_from (nth 0 (shiftL D) 0 - 1) (shiftL D).
Proof.
  destruct D as [|d0 r]; [congruence|]. intros _. cbn [shiftL nth strict_from].
  split; [lia | apply shift_strict].
Qed.

Section Composition.
  Context {P : Type} (dflt : P).
  Notation ev := (Z * P)%type.

  Definition dates (K : list ev) : list Z := map fst K.

  Lemma nth_dates K i : nth i (dates K) 0 = fst (nth i K (ev0 dflt)).
  Proof. unfold dates. change 0 with (fst (ev0 dflt)). apply map_nth. Qed.

  Lemma tail_small B (t : ev) l : fst t < B -> 0 < B -> fst (tail_of dflt B t l) < B.
  Proof.
    intros Ht HB. destruct (tail_of_cases dflt B t l) as [[-> _]|[->|(x & _ & Hx & ->)]]; cbn; lia.
  Qed.

  Lemma dates_ge B (l : list ev) x : In x (dates (kept B l)) -> B <= x.
  Proof. unfold dates. intros Hin. apply in_map_iff in Hin as (y & <- & Hy). apply kept_spec in Hy. tauto. Qed.

  Lemma kept_kept B (l : list ev) : 0 <= B -> kept B (kept 0 l) = kept B l.
  Proof.
    intros HB. unfold kept. induction l as [|x r IH]; cbn [filter]; [reflexivity|].
    destruct (keptb 0 x) eqn:E0; destruct (keptb B x) eqn:EB; cbn [filter]; rewrite ?EB, ?IH; try reflexivity.
    unfold keptb in *. apply Z.leb_le in EB. apply Z.leb_gt in E0. lia.
  Qed.

  (* ---- fertiliser -------------------------------------------------------------------- *)
  Section Fert.
    Variables (B E : Z) (p0 : P) (ls : list (line P)) (steps : Z -> nat).
    Hypothesis HB : 0 < B.
    Hypothesis Hsteps : forall z, (1 <= steps z)%nat.
    Let K := kept B (processed true ls).
    Let D := B :: dates K.               (* slot 0 = residues of the initial crop, dated BEGINN *)

    Lemma fert_arrays :
      let s := fert_read dflt B p0 ls in
      rd_n s = Z.of_nat (length D) /\
      (forall i, (i < length D)%nat -> rd_date s (Z.of_nat i) = nth i (shiftL D) 0) /\
      (forall i, (i < length K)%nat -> rd_pay s (Z.of_nat (S i)) = snd (nth i K (ev0 dflt))) /\
      rd_pay s 0 = p0 /\
      rd_date s (rd_n s) < B.
    Proof.
      set (s0 := {| rd_n := 1; rd_date := upd arr0 0 B; rd_pay := upd (pay0 dflt) 0 p0 |}).
      assert (R0 : Repr dflt s0 [(B, p0)] (ev0 dflt)).
      { unfold Repr, s0; cbn [rd_n rd_date rd_pay length]. split; [reflexivity|]. split; [|split].
        - intros i Hi. assert (i = O) by lia. subst. cbn. auto.
        - rewrite !upd_other by lia. now cbn.
        - intros j Hj. rewrite !upd_other by lia. now cbn. }
      pose proof (scan_repr dflt B ls true s0 _ _ R0) as R. fold K in R.
      destruct R as (Rn & Rs & (Rt & _) & _).
      set (s := rd_scan B true ls s0) in *.
      assert (HlenD : length D = length ([(B, p0)] ++ K)) by (unfold D, dates; cbn; now rewrite map_length).
      assert (Htl : rd_date s (rd_n s) < B).
      { rewrite Rt. apply tail_small; [cbn; lia | exact HB]. }
      pose proof (shift_all_repr (rd_date s) D) as Sh.
      rewrite <- HlenD in Rn. rewrite <- Rn in Sh.
      assert (HaD : forall i, (i < length D)%nat -> rd_date s (Z.of_nat i) = nth i D 0).
      { intros i Hi. destruct (Rs i ltac:(lia)) as [Rd _]. rewrite Rd.
        destruct i as [|i]; [reflexivity|]. unfold D. cbn [nth app]. now rewrite nth_dates. }
      specialize (Sh ltac:(unfold D; congruence) HaD).
      cbn zeta in Sh. destruct Sh as [Sh1 Sh2].
      cbn zeta. unfold fert_read. fold s0. fold s. cbn [rd_n rd_date rd_pay].
      split; [exact Rn|]. split; [exact Sh1|]. split; [|split].
      - intros i Hi. destruct (Rs (S i) ltac:(cbn; rewrite app_length in *; cbn in *; lia)) as [_ Rp]. exact Rp.
      - destruct (Rs O ltac:(cbn; lia)) as [_ Rp]. exact Rp.
      - rewrite Sh2 by lia. exact Htl.
    Qed.

    (* closed form of everything the fertiliser cursor does in BEGINN..ENDE — for every file content *)
    Lemma fert_closed_form :
      fert_fired (rd_date (fert_read dflt B p0 ls)) steps B E = expected 1 E 0 (shiftL D).
    Proof.
      destruct fert_arrays as (Hn & Hd & _ & _ & Ht).
      unfold fert_fired, ndays.
      destruct (Z_lt_le_dec E B) as [HE|HE].
      - replace (Z.to_nat (E - B + 1)) with O by lia. cbn [run_days snd].
        unfold D. cbn [shiftL expected]. assert (B + 1 <=? E = false) as -> by (apply Z.leb_gt; lia). reflexivity.
      - rewrite (run_days_closed _ 1 steps Hsteps _ B 0 (shiftL D)).
        + f_equal. lia.
        + split.
          * intros i Hi. rewrite shiftL_length in Hi. now apply Hd.
          * unfold D. cbn [shiftL strict_from]. split; [lia | apply shift_strict].
        + unfold dead_after. rewrite shiftL_length. cbn zeta. rewrite Z.add_0_l, <- Hn.
          pose proof (last_shiftL_ge D ltac:(unfold D; congruence)) as Hl. unfold D in Hl at 1. cbn [hd] in Hl.
          destruct (shiftL D) eqn:Es; [unfold D in Es; discriminate|]. lia.
    Qed.
  End Fert.

  (* ---- tillage ------------------------------------------------------------------------- *)
  Section Till.
    Variables (B E : Z) (ls : list (line P)) (steps : Z -> nat).
    Hypothesis HB : 1 < B.
    Hypothesis Hsteps : forall z, (1 <= steps z)%nat.
    Let K := kept B (processed true ls).
    Let D := dates K.

    Lemma till_arrays :
      let s := till_read dflt B ls in
      rd_n s = Z.of_nat (length D) /\
      (forall i, (i < length D)%nat -> rd_date s (Z.of_nat i) = nth i (shiftL D) 0) /\
      (forall i, (i < length K)%nat -> rd_pay s (Z.of_nat i) = snd (nth i K (ev0 dflt))) /\
      rd_date s (rd_n s) = 0.
    Proof.
      set (s0 := {| rd_n := 0; rd_date := arr0; rd_pay := pay0 dflt |}).
      assert (R0 : Repr dflt s0 [] (ev0 dflt)).
      { unfold Repr, s0; cbn [rd_n rd_date rd_pay length]. split; [reflexivity|]. split; [|split].
        - intros i Hi. lia.
        - now cbn.
        - intros j Hj. now cbn. }
      pose proof (scan_repr dflt B ls true s0 _ _ R0) as R. cbn [app] in R. fold K in R.
      destruct R as (Rn & Rs & _ & _).
      set (s := rd_scan B true ls s0) in *.
      assert (HlenD : length D = length K) by (unfold D, dates; now rewrite map_length).
      cbn zeta. unfold till_read. fold s0. fold s. cbn [rd_n rd_date rd_pay].
      rewrite <- HlenD in Rn.
      assert (HaD : forall i, (i < length D)%nat -> rd_date s (Z.of_nat i) = nth i D 0).
      { intros i Hi. destruct (Rs i ltac:(lia)) as [Rd _]. rewrite Rd. unfold D. now rewrite nth_dates. }
      split; [exact Rn|]. split; [|split; [|now rewrite upd_same]].
      - intros i Hi. rewrite upd_other by lia.
        destruct D as [|d0 r] eqn:ED; [cbn in Hi; lia|].
        pose proof (shift_all_repr (rd_date s) (d0 :: r) ltac:(congruence) HaD) as Sh. cbn zeta in Sh.
        rewrite Rn. now apply Sh.
      - intros i Hi. destruct (Rs i Hi) as [_ Rp]. exact Rp.
    Qed.

    Lemma till_closed_form :
      till_fired (rd_date (till_read dflt B ls)) steps B E = expected 1 E 0 (shiftL D).
    Proof.
      destruct till_arrays as (Hn & Hd & _ & Ht).
      unfold till_fired, ndays.
      assert (HDB : forall x, In x D -> B <= x) by (intros x; apply dates_ge).
      destruct (Z_lt_le_dec E B) as [HE|HE].
      { replace (Z.to_nat (E - B + 1)) with O by lia. cbn [run_days snd].
        destruct D as [|d0 r] eqn:ED; [reflexivity|]. cbn [shiftL expected].
        specialize (HDB d0 ltac:(now left)).
        assert (d0 + 1 <=? E = false) as -> by (apply Z.leb_gt; lia). reflexivity. }
      rewrite (run_days_closed _ 1 steps Hsteps _ B 0 (shiftL D)).
      - f_equal. lia.
      - split.
        + intros i Hi. rewrite shiftL_length in Hi. now apply Hd.
        + destruct D as [|d0 r] eqn:ED; [exact I|]. cbn [shiftL strict_from].
          split; [specialize (HDB d0 ltac:(now left)); lia | apply shift_strict].
      - unfold dead_after. rewrite shiftL_length. cbn zeta. rewrite Z.add_0_l, <- Hn, Ht.
        destruct D as [|d0 r] eqn:ED; [cbn [shiftL]; lia|].
        pose proof (last_shiftL_ge (d0 :: r) ltac:(congruence)) as Hl. cbn [hd] in Hl.
        specialize (HDB d0 ltac:(now left)).
        destruct (shiftL (d0 :: r)) eqn:Es; [discriminate|]. lia.
    Qed.
  End Till.

  (* ---- irrigation ---------------------------------------------------------------------- *)
  Section Irr.
    Variables (B E : Z) (ls : list (line P)).
    Hypothesis HB : 0 < B.
    Let K := kept B (processed true ls).
    Let D := dates K.

    Lemma irr_arrays :
      let s := irr_read dflt B ls in
      rd_n s = Z.of_nat (length D) /\
      (forall i, (i < length D)%nat -> rd_date s (Z.of_nat i) = nth i D 0) /\
      (forall i, (i < length K)%nat -> rd_pay s (Z.of_nat i) = snd (nth i K (ev0 dflt))) /\
      (forall j, rd_n s <= j -> rd_date s j = 0).
    Proof.
      set (s0 := {| rd_n := 0; rd_date := arr0; rd_pay := pay0 dflt |}).
      assert (R0 : Repr dflt s0 [] (ev0 dflt)).
      { unfold Repr, s0; cbn [rd_n rd_date rd_pay length]. split; [reflexivity|]. split; [|split].
        - intros i Hi. lia.
        - now cbn.
        - intros j Hj. now cbn. }
      pose proof (scan_repr dflt 0 ls true s0 _ _ R0) as R. cbn [app] in R.
      destruct R as (Rn & Rs & _ & _).
      set (s := rd_scan 0 true ls s0) in *.
      set (K0 := kept 0 (processed true ls)) in *.
      pose proof (compact_spec dflt B (length K0) 0 0 (rd_date s) (rd_pay s) K0 ltac:(lia) eq_refl) as C.
      assert (Hpre : forall j, (j < length K0)%nat ->
                rd_date s (0 + Z.of_nat j) = fst (nth j K0 (ev0 dflt)) /\ rd_pay s (0 + Z.of_nat j) = snd (nth j K0 (ev0 dflt))).
      { intros j Hj. rewrite Z.add_0_l. now apply Rs. }
      specialize (C Hpre).
      cbn zeta. unfold irr_read. fold s0. fold s. rewrite Rn, Nat2Z.id.
      destruct (compact B 0 (length K0) 0 (rd_date s) (rd_pay s)) as [[k' d'] p'].
      cbn zeta in C. unfold K0 in C. rewrite kept_kept in C by lia. fold K in C.
      destruct C as (C1 & C2 & _). rewrite Z.add_0_l in C1.
      assert (HlenD : length D = length K) by (unfold D, dates; now rewrite map_length).
      cbn [rd_n rd_date rd_pay]. rewrite HlenD.
      split; [exact C1|]. split; [|split].
      - intros i Hi. assert (Z.of_nat i <? k' = true) as -> by (apply Z.ltb_lt; lia).
        destruct (C2 i Hi) as [Cd _]. rewrite Z.add_0_l in Cd. rewrite Cd. unfold D. now rewrite nth_dates.
      - intros i Hi. assert (Z.of_nat i <? k' = true) as -> by (apply Z.ltb_lt; lia).
        destruct (C2 i Hi) as [_ Cp]. rewrite Z.add_0_l in Cp. exact Cp.
      - intros j Hj. assert (j <? k' = false) as -> by (apply Z.ltb_ge; lia). reflexivity.
    Qed.

    (* at most one irrigation per day, ascending: the kept dates are strictly increasing *)
    Hypothesis Hstrict : strict_from (B - 1) D.

    Lemma irr_closed_form :
      irr_fired (rd_date (irr_read dflt B ls)) B E = expected_once 0 E 0 D.
    Proof.
      destruct irr_arrays as (Hn & Hd & _ & Hz).
      unfold irr_fired, ndays.
      destruct (Z_lt_le_dec E B) as [HE|HE].
      { replace (Z.to_nat (E - B + 1)) with O by lia. cbn [run_days_once snd].
        destruct D as [|d0 r] eqn:ED; [reflexivity|]. cbn [expected_once]. cbn [strict_from] in Hstrict.
        assert (d0 + 0 <=? E = false) as -> by (apply Z.leb_gt; lia). reflexivity. }
      rewrite (run_days_once_closed _ 0 _ B 0 D).
      - f_equal. lia.
      - split; [intros i Hi; now apply Hd|]. replace (B - 0 - 1) with (B - 1) by lia. exact Hstrict.
      - unfold dead_after. cbn zeta. rewrite Z.add_0_l, <- Hn, (Hz _ (Z.le_refl _)).
        destruct D as [|d0 r] eqn:ED; [lia|].
        pose proof (strict_from_last (B - 1) (d0 :: r) Hstrict) as Hl.
        rewrite (last_nonempty_indep d0 r (B - 1) 0) in Hl. lia.
    Qed.
  End Irr.
End Composition.

(* ------------------------------------------------------------------------------------------ *)
(* on time: how far a date can move                                                            *)

(* class of schedules on which no date moves by more than one day, stated on the input dates only:
   every group of consecutive events fits into the days from its first date to its last date + 1,
   and the k-th event is dated at least k days after the occupied day p.  It contains all strictly
   ascending schedules, same-day pairs and pairs followed by events on the next days; it excludes three
   events on one day and a same-day pair reached by a displacement. *)
Definition fits (p : Z) (l : list Z) : Prop :=
  (forall j, (j < length l)%nat -> p + Z.of_nat j <= nth j l 0) /\
  (forall i j, (i < j)%nat -> (j < length l)%nat -> Z.of_nat j - Z.of_nat i - 1 <= nth j l 0 - nth i l 0).

Lemma no_overrun_iff_fits : forall l p, no_overrun p l <-> fits p l.
Proof.
  induction l as [|d r IH]; intros p.
  - cbn. split; [intros _; split; intros; cbn in *; lia | tauto].
  - cbn [no_overrun]. rewrite IH. unfold fits. cbn [length]. split.
    + intros (Hpd & H1 & H2). split.
      * intros [|j] Hj; cbn [nth]; [lia|]. specialize (H1 j ltac:(lia)).
        destruct (d <=? p) eqn:E; [apply Z.leb_le in E | apply Z.leb_gt in E]; lia.
      * intros i [|j] Hij Hj; [lia|]. destruct i as [|i]; cbn [nth].
        -- specialize (H1 j ltac:(lia)).
           destruct (d <=? p) eqn:E; [apply Z.leb_le in E | apply Z.leb_gt in E]; lia.
        -- specialize (H2 i j ltac:(lia) ltac:(lia)). lia.
    + intros (H1 & H2). pose proof (H1 O ltac:(lia)) as H0. cbn in H0.
      split; [lia|]. split.
      * intros j Hj. destruct (d <=? p) eqn:E; [apply Z.leb_le in E | apply Z.leb_gt in E].
        -- specialize (H1 (S j) ltac:(lia)). cbn [nth] in H1. lia.
        -- specialize (H2 O (S j) ltac:(lia) ltac:(lia)). cbn [nth] in H2. lia.
      * intros i j Hij Hj. specialize (H2 (S i) (S j) ltac:(lia) ltac:(lia)). cbn [nth] in H2. lia.
Qed.

(* strictly increasing dates are never moved *)
Lemma strict_shift_id : forall l p, strict_from p l -> shift_from p l = l.
Proof.
  induction l as [|d r IH]; intros p; cbn; [reflexivity|].
  intros [H1 H2]. assert (d <=? p = false) as -> by (apply Z.leb_gt; lia). now rewrite IH.
Qed.

Lemma strict_from_weaken p q l : q <= p -> strict_from p l -> strict_from q l.
Proof. destruct l as [|d r]; cbn; [tauto|]. intros H [H1 H2]. split; [lia | exact H2]. Qed.

(* every date waits for itself or, when it is not later than the day its predecessor was moved to, for the day
   after that; the results are strictly increasing and never earlier than the file dates *)
Lemma shiftL_on_time D : D <> [] ->
  let Sh := shiftL D in
  length Sh = length D /\ nth 0 Sh 0 = nth 0 D 0 /\
  (forall i, (i < length D)%nat -> nth i D 0 <= nth i Sh 0) /\
  (forall i, (S i < length D)%nat ->
     nth (S i) Sh 0 = (if nth (S i) D 0 <=? nth i Sh 0 then nth i Sh 0 + 1 else nth (S i) D 0) /\
     nth i Sh 0 < nth (S i) Sh 0).
Proof.
  destruct D as [|d0 r]; [congruence|]. intros _. cbn zeta.
  split; [apply shiftL_length|]. split; [reflexivity|]. split.
  - intros [|i] Hi; cbn [shiftL nth]; [lia|]. apply shift_from_ge. cbn in Hi; lia.
  - intros i Hi. cbn [length] in Hi. cbn [shiftL nth].
    pose proof (shift_from_nth d0 r i ltac:(lia)) as Hn. cbn zeta in Hn.
    assert (Hprev : match i with O => d0 | S k => nth k (shift_from d0 r) 0 end = nth i (d0 :: shift_from d0 r) 0)
      by (destruct i; reflexivity).
    rewrite Hprev in Hn. split; [exact Hn|].
    pose proof (shift_strict d0 r) as Hst.
    clear Hn Hprev. revert i Hi. generalize dependent d0. induction r as [|d r IH]; intros d0 Hst i Hi; [cbn in Hi; lia|].
    cbn [shift_from strict_from] in *. destruct Hst as [Hlt Hst].
    destruct i as [|i]; cbn [nth]; [exact Hlt|]. apply (IH _ Hst i). cbn [length] in Hi. lia.
Qed.

(* ... and they are the LEAST strictly increasing dates that are not earlier than the file dates *)
Lemma shiftL_least D (t : list Z) : D <> [] ->
  length t = length D -> strict_from (nth 0 t 0 - 1) t -> (forall i, (i < length D)%nat -> nth i D 0 <= nth i t 0) ->
  forall i, (i < length D)%nat -> nth i (shiftL D) 0 <= nth i t 0.
Proof.
  destruct D as [|d0 r]; [congruence|]. intros _ Hl Hs Hge i Hi.
  destruct t as [|t0 t']; [discriminate|]. cbn [length nth strict_from shiftL] in *. destruct Hs as [_ Hs].
  pose proof (Hge O ltac:(lia)) as H0. cbn [nth] in H0.
  destruct i as [|i]; cbn [nth]; [exact H0|].
  apply (shift_from_least d0 r t'); try lia.
  - now apply (strict_from_weaken t0).
  - intros j Hj. exact (Hge (S j) ltac:(lia)).
Qed.

(* in the class [fits] (at most two per day, no pair reached by a displacement) nothing moves by more than a day *)
Lemma shiftL_one_day D : D <> [] -> fits (hd 0 D) (tl D) ->
  forall i, (i < length D)%nat -> nth i (shiftL D) 0 <= nth i D 0 + 1.
Proof.
  destruct D as [|d0 r]; [congruence|]. intros _ Hf i Hi. apply no_overrun_iff_fits in Hf. cbn [hd tl] in Hf.
  destruct i as [|i]; cbn [shiftL nth]; [lia|]. apply no_overrun_bounds; [exact Hf | cbn in Hi; lia].
Qed.

(* ------------------------------------------------------------------------------------------ *)
(* bundles used by the property statements                                                     *)

(* [fired] = every event of the (shifted) date list S whose exec-day S_i+delta is <= ENDE, once, in
   schedule order, on that day, with sub-step marker [mark]; nothing else *)
Definition exactly_once_in_order (fired : list (Z * Z * Z)) (S : list Z) (delta E mark : Z) : Prop :=
  (forall i, (i < length S)%nat -> nth i S 0 + delta <= E -> In (nth i S 0 + delta, mark, Z.of_nat i) fired) /\
  (forall z s k, In (z, s, k) fired ->
     s = mark /\ 0 <= k < Z.of_nat (length S) /\ z = nth (Z.to_nat k) S 0 + delta /\ z <= E) /\
  StronglySorted Z.lt (map snd fired).

Lemma expected_bundle delta E S : strict_from (nth 0 S 0 - 1) S ->
  exactly_once_in_order (expected delta E 0 S) S delta E 1.
Proof.
  intros Hs. split; [|split].
  - intros i Hi Hle. apply (expected_complete (fun _ => 0) delta E S 0 i Hs Hi Hle).
  - intros z s k Hin. apply (expected_In (fun _ => 0)) in Hin. destruct Hin as (-> & Hk & Hz & HE).
    rewrite Z.sub_0_r in Hz. repeat split; try lia; try exact Hz.
  - apply (expected_slots_increasing (fun _ => 0)).
Qed.

Lemma expected_once_as_expected delta E : forall S idx,
  expected_once delta E idx S = map (fun e => match e with (z, _, k) => (z, 0, k) end) (expected delta E idx S).
Proof.
  induction S as [|d r IH]; intros idx; cbn; [reflexivity|].
  destruct (d + delta <=? E); [|reflexivity]. cbn. now rewrite IH.
Qed.

Lemma expected_once_bundle delta E S : strict_from (nth 0 S 0 - 1) S ->
  exactly_once_in_order (expected_once delta E 0 S) S delta E 0.
Proof.
  intros Hs. destruct (expected_bundle delta E S Hs) as (H1 & H2 & H3).
  rewrite expected_once_as_expected. split; [|split].
  - intros i Hi Hle. specialize (H1 i Hi Hle). apply in_map_iff. eexists. split; [|exact H1]. reflexivity.
  - intros z s k Hin. apply in_map_iff in Hin as ([[z' s'] k'] & Heq & Hin). inversion Heq; subst.
    destruct (H2 _ _ _ Hin) as (_ & Hk & Hz & HE). auto.
  - rewrite map_map. erewrite map_ext; [exact H3|]. intros [[? ?] ?]. reflexivity.
Qed.

(* sub-step safety: the fired list does not depend on how many sub-steps the days have *)
Lemma run_days_steps_irrelevant a delta steps steps' :
  (forall z, (1 <= steps z)%nat) -> (forall z, (1 <= steps' z)%nat) ->
  forall fuel z c, run_days a delta steps fuel z c = run_days a delta steps' fuel z c.
Proof.
  intros H H'. induction fuel as [|fuel IH]; intros z c; cbn [run_days]; [reflexivity|].
  rewrite !sub_steps_day by auto. destruct (z =? a c + delta); now rewrite IH.
Qed.

Lemma run_days_substep1 a delta steps : (forall z, (1 <= steps z)%nat) ->
  forall fuel z c e, In e (snd (run_days a delta steps fuel z c)) -> snd (fst e) = 1.
Proof.
  intros H. induction fuel as [|fuel IH]; intros z c e; cbn [run_days]; [cbn; tauto|].
  rewrite sub_steps_day by auto.
  destruct (z =? a c + delta).
  - destruct (run_days a delta steps fuel (z + 1) (c + 1)) as [c2 l2] eqn:R. cbn [snd app].
    intros [<-|Hin]; [reflexivity|]. apply (IH (z + 1) (c + 1)). now rewrite R.
  - destruct (run_days a delta steps fuel (z + 1) c) as [c2 l2] eqn:R. cbn [snd app].
    intros Hin. apply (IH (z + 1) c). now rewrite R.
Qed.

(* the table lookup of dueng: the last row carrying the name decides; no row: nothing applied *)
Section DuengLookup.
  Context {T : Type} {N : Num T}.
  Lemma dueng_lookup name dgmg : forall tab cur,
    (dueng tab name dgmg cur = cur /\ forall r, In r tab -> String.eqb (f_name r) name = false) \/
    (exists r, In r tab /\ String.eqb (f_name r) name = true /\ dueng tab name dgmg cur = dueng_row dgmg r).
  Proof.
    induction tab as [|r t IH]; intros cur; cbn [dueng].
    - left. split; [reflexivity | intros r []].
    - destruct (String.eqb (f_name r) name) eqn:E.
      + destruct (IH (dueng_row dgmg r)) as [[H1 H2]|(r' & Hin & Hn & H)].
        * right. exists r. cbn. auto.
        * right. exists r'. cbn. auto.
      + destruct (IH cur) as [[H1 H2]|(r' & Hin & Hn & H)].
        * left. split; [exact H1|]. intros r' [<-|Hin]; auto.
        * right. exists r'. cbn. auto.
  Qed.
End DuengLookup.

(* non-negativity of the split for table rows whose fractions lie in [0,1] *)
Lemma dueng_row_nonneg (dgmg : R) (r : frow R) :
  (0 <= dgmg)%R -> (0 <= f_ntot r)%R -> (0 <= f_ndir r <= 1)%R -> (0 <= f_nfst r)%R -> (0 <= f_nslo r)%R ->
  (0 <= f_nh4 r <= 1)%R -> (0 <= f_loss r <= 1)%R ->
  let p := dueng_row dgmg r in
  (0 <= p_ndir p /\ 0 <= p_nh4n p /\ 0 <= p_nsas p /\ 0 <= p_nlas p)%R.
Proof.
  intros H1 H2 H3 H4 H5 H6 H7. destruct (dueng_row_R dgmg r) as (E1 & E2 & E3 & E4). cbn zeta in *.
  set (g := (dgmg * f_ntot r)%R) in *.
  assert (Hg : (0 <= g)%R) by (unfold g; apply Rmult_le_pos; lra).
  assert (Hgd : (0 <= g * f_ndir r <= g)%R).
  { split; [apply Rmult_le_pos; lra|]. rewrite <- (Rmult_1_r g) at 2. apply Rmult_le_compat_l; lra. }
  assert (Hq : (0 <= f_nh4 r * f_loss r <= 1)%R).
  { split; [apply Rmult_le_pos; lra|]. rewrite <- (Rmult_1_r 1). apply Rmult_le_compat; lra. }
  assert (Hnd : (0 <= p_ndir (dueng_row dgmg r) <= g)%R).
  { rewrite E1. fold g. split; [apply Rmult_le_pos; lra|].
    apply Rle_trans with (g * f_ndir r)%R; [|lra]. rewrite <- (Rmult_1_r (g * f_ndir r)) at 2.
    apply Rmult_le_compat_l; lra. }
  rewrite E2, E3, E4. fold g. split; [tauto|]. split; [|split].
  - apply Rmult_le_pos; [apply Rmult_le_pos; lra | lra].
  - apply Rmult_le_pos; lra.
  - apply Rmult_le_pos; lra.
Qed.

(* ------------------------------------------------------------------------------------------ *)
(* regression examples: the schedules that the code before /repo 1398842, 0cb3a63, 8d06013 did not
   carry out (former witnesses of refutation) are carried out now                                *)

Definition one_step : Z -> nat := fun _ => 1%nat.
Definition mk_lines (ds : list Z) : list (line unit) := map (fun d => Mine d tt) ds.

(* F18: two fertilisations dated on the start day (100): residues on 101, then 102, 103; the third on 151 *)
Lemma f18_example :
  fert_fired (rd_date (fert_read tt 100 tt (mk_lines [100; 100; 150]))) one_step 100 400
  = [(101, 1, 0); (102, 1, 1); (103, 1, 2); (151, 1, 3)].
Proof. vm_compute. reflexivity. Qed.

(* F18b: a same-day pair on the day after a same-day pair; three events on one day *)
Lemma pair_after_pair_example :
  fert_fired (rd_date (fert_read tt 100 tt (mk_lines [200; 200; 201; 201; 300]))) one_step 100 400
  = [(101, 1, 0); (201, 1, 1); (202, 1, 2); (203, 1, 3); (204, 1, 4); (301, 1, 5)] /\
  till_fired (rd_date (till_read tt 100 (mk_lines [200; 200; 201; 201; 300]))) one_step 100 400
  = [(201, 1, 0); (202, 1, 1); (203, 1, 2); (204, 1, 3); (301, 1, 4)] /\
  till_fired (rd_date (till_read tt 100 (mk_lines [200; 200; 200]))) one_step 100 400
  = [(201, 1, 0); (202, 1, 1); (203, 1, 2)].
Proof. vm_compute. auto. Qed.

(* F22: tillages dated before the start, the last one on BEGINN-1: nothing is carried out *)
Lemma prestart_tillage_example :
  till_fired (rd_date (till_read tt 100 (mk_lines [90; 99]))) one_step 100 400 = [].
Proof. vm_compute. reflexivity. Qed.

(* F23: an irrigation dated before the start is dropped, the later ones are applied on their dates *)
Lemma prestart_irrigation_example :
  irr_fired (rd_date (irr_read tt 100 (mk_lines [90; 150; 200]))) 100 400 = [(150, 0, 0); (200, 0, 1)].
Proof. vm_compute. reflexivity. Qed.

Lemma cascade_example :
  fits 100 [200; 200; 201] /\
  fert_fired (rd_date (fert_read tt 100 tt (mk_lines [90; 200; 200; 201]))) one_step 100 400
  = [(101, 1, 0); (201, 1, 1); (202, 1, 2); (203, 1, 3)].
Proof. split; [apply no_overrun_iff_fits; cbn; repeat split; lia | vm_compute; reflexivity]. Qed.

(* ------------------------------------------------------------------------------------------ *)
(* packaged statements for Prop_C10.v                                                          *)

Section Packaged.
  Context {P : Type} (dflt : P).
  Notation K B ls := (kept B (processed true ls)).

  Lemma c10_exact_once_fert B E p0 (ls : list (line P)) steps :
    0 < B -> (forall z, (1 <= steps z)%nat) ->
    exactly_once_in_order (fert_fired (rd_date (fert_read dflt B p0 ls)) steps B E)
                          (shiftL (B :: dates (K B ls))) 1 E 1.
  Proof.
    intros HB Hs. rewrite (fert_closed_form dflt B E p0 ls steps HB Hs).
    apply expected_bundle. apply shiftL_strict. congruence.
  Qed.

  Lemma c10_exact_once_till B E (ls : list (line P)) steps :
    1 < B -> (forall z, (1 <= steps z)%nat) ->
    exactly_once_in_order (till_fired (rd_date (till_read dflt B ls)) steps B E) (shiftL (dates (K B ls))) 1 E 1.
  Proof.
    intros HB Hs. rewrite (till_closed_form dflt B E ls steps HB Hs).
    destruct (dates (K B ls)) as [|d0 r] eqn:ED.
    - cbn. split; [intros i Hi; cbn in Hi; lia|]. split; [intros z s k []|constructor].
    - apply expected_bundle. apply shiftL_strict. congruence.
  Qed.

  Lemma c10_exact_once_irr B E (ls : list (line P)) :
    0 < B ->
    let D := dates (K B ls) in
    strict_from (B - 1) D ->
    exactly_once_in_order (irr_fired (rd_date (irr_read dflt B ls)) B E) D 0 E 0.
  Proof.
    intros HB D Hs. rewrite (irr_closed_form dflt B E ls HB Hs). fold D.
    destruct D as [|d0 r] eqn:ED.
    - cbn. split; [intros i Hi; cbn in Hi; lia|]. split; [intros z s k []|constructor].
    - apply expected_once_bundle. cbn [nth strict_from] in *. split; [lia | tauto].
  Qed.

  Lemma c10_strict_not_moved D : strict_from (hd 0 D - 1) D -> shiftL D = D.
  Proof.
    destruct D as [|d0 r]; [reflexivity|]. cbn [hd strict_from shiftL]. intros [_ H].
    now rewrite (strict_shift_id r d0 H).
  Qed.

  Lemma c10_pre_start B p0 (ls : list (line P)) :
    0 < B ->
    let s := fert_read dflt B p0 ls in
    (forall x, In x (K B ls) <-> In x (processed true ls) /\ B <= fst x) /\
    rd_n s = 1 + Z.of_nat (length (K B ls)) /\
    (forall i, (i < length (K B ls))%nat -> rd_pay s (Z.of_nat (S i)) = snd (nth i (K B ls) (ev0 dflt))) /\
    rd_pay s 0 = p0.
  Proof.
    intros HB.
    destruct (fert_arrays dflt B p0 ls HB) as (Hn & _ & Hp & H0 & _). cbn zeta.
    split; [intros x; apply kept_spec|]. split; [|split; [exact Hp | exact H0]].
    rewrite Hn. cbn [length]. unfold dates. rewrite map_length. lia.
  Qed.

  Lemma c10_pre_start_till B (ls : list (line P)) :
    let s := till_read dflt B ls in
    rd_n s = Z.of_nat (length (K B ls)) /\
    (forall i, (i < length (K B ls))%nat -> rd_pay s (Z.of_nat i) = snd (nth i (K B ls) (ev0 dflt))) /\
    rd_date s (rd_n s) = 0.
  Proof.
    destruct (till_arrays dflt B ls) as (Hn & _ & Hp & Hz). cbn zeta.
    split; [|split; [exact Hp | exact Hz]]. rewrite Hn. unfold dates. now rewrite map_length.
  Qed.

  Lemma c10_pre_start_irr B (ls : list (line P)) :
    0 < B ->
    let s := irr_read dflt B ls in
    rd_n s = Z.of_nat (length (K B ls)) /\
    (forall i, (i < length (K B ls))%nat -> rd_pay s (Z.of_nat i) = snd (nth i (K B ls) (ev0 dflt))) /\
    (forall j, rd_n s <= j -> rd_date s j = 0).
  Proof.
    intros HB. destruct (irr_arrays dflt B ls HB) as (Hn & _ & Hp & Hz). cbn zeta.
    split; [|split; [exact Hp | exact Hz]]. rewrite Hn. unfold dates. now rewrite map_length.
  Qed.
End Packaged.

Lemma c10_substep_safe a delta steps steps' :
  (forall z, (1 <= steps z)%nat) -> (forall z, (1 <= steps' z)%nat) ->
  forall fuel z c,
    run_days a delta steps fuel z c = run_days a delta steps' fuel z c /\
    (forall e, In e (snd (run_days a delta steps fuel z c)) -> snd (fst e) = 1).
Proof.
  intros H H' fuel z c. split; [now apply run_days_steps_irrelevant | now apply run_days_substep1].
Qed.

Section PackagedR.
  Local Open Scope R_scope.

  Lemma c10_payload_fert (a : Z -> Z) (pay : Z -> fpay R) (z subd c : Z) (s : nstate R) :
    let '(s', c') := nitro_fert a pay z subd c s in
    ((z = a c + 1)%Z /\ subd = 1%Z ->
       c' = (c + 1)%Z /\
       s_dsumm s' = s_dsumm s + p_ndir (pay c) /\ s_nh4sum s' = s_nh4sum s + p_nh4n (pay c) /\
       s_nfos0 s' = s_nfos0 s + p_nsas (pay c) /\ s_naos0 s' = s_naos0 s + p_nlas (pay c)) /\
    (~ ((z = a c + 1)%Z /\ subd = 1%Z) -> s' = s /\ c' = c).
  Proof.
    unfold nitro_fert.
    destruct (Z.eqb_spec z (a c + 1)) as [E1|E1]; destruct (Z.eqb_spec subd 1) as [E2|E2]; cbn [andb].
    - split; [intros _; cbn; repeat split | intros H; exfalso; apply H; auto].
    - split; [intros [_ H]; contradiction | auto].
    - split; [intros [H _]; contradiction | auto].
    - split; [intros [H _]; contradiction | auto].
  Qed.

  (* amounts: table row of that name, applied quantity, global fertilisation factor (percent) *)
  Lemma c10_payload_amounts (tab : list (frow R)) (fertilization amount : R) name :
    (forall r, In r tab -> String.eqb (f_name r) name = false) /\ fert_payload tab fertilization amount name = fpay0
    \/
    exists r, In r tab /\ String.eqb (f_name r) name = true /\
      let q := amount * (fertilization / 100) in
      let gross := q * f_ntot r * f_ndir r in
      let p := fert_payload tab fertilization amount name in
      p_ndir p = gross * (1 - f_nh4 r * f_loss r) /\
      p_nh4n p = gross * f_nh4 r * (1 - f_loss r) /\
      p_nsas p = (q * f_ntot r - p_ndir p) * f_nfst r /\
      p_nlas p = (q * f_ntot r - p_ndir p) * f_nslo r.
  Proof.
    unfold fert_payload.
    destruct (dueng_lookup name (mul amount (dungszen fertilization)) tab fpay0) as [[H1 H2]|(r & Hin & Hn & H)].
    - left. split; [exact H2 | exact H1].
    - right. exists r. split; [exact Hin|]. split; [exact Hn|]. cbn zeta. rewrite H.
      destruct (dueng_row_R (mul amount (dungszen fertilization)) r) as (E1 & E2 & E3 & E4). cbn zeta in *.
      unfold dungszen in *. cbn in *. repeat split; assumption.
  Qed.

  Lemma c10_payload_irr (a : Z -> Z) (breg brkz : Z -> R) (z c : Z) (s : istate R) :
    let '(s', c') := run_irr a breg brkz z c s in
    (z = a c -> c' = (c + 1)%Z /\ s_regen s' = s_regen s + breg c / 10 /\
                s_c10 s' = s_c10 s + Rmax 0 (brkz c * breg c * / 100)) /\
    (z <> a c -> s' = s /\ c' = c).
  Proof.
    unfold run_irr. destruct (z =? a c)%Z eqn:E; [apply Z.eqb_eq in E | apply Z.eqb_neq in E].
    - split; [|tauto]. intros _. destruct (apply_irr_R s (breg c) (brkz c)) as [H1 H2]. auto.
    - split; [tauto | auto].
  Qed.
End PackagedR.
(* the split of any quantity of a table fertiliser (used for the organic fertiliser of automatic management,
   whose quantity comes from the automan table and is not scaled by the fertilisation factor) *)
Lemma c10_dueng_amounts (tab : list (frow R)) (q : R) name :
  ((forall r, In r tab -> String.eqb (f_name r) name = false) /\ dueng tab name q fpay0 = fpay0)
  \/
  exists r, In r tab /\ String.eqb (f_name r) name = true /\
    let gross := (q * f_ntot r * f_ndir r)%R in
    let p := dueng tab name q fpay0 in
    p_ndir p = (gross * (1 - f_nh4 r * f_loss r))%R /\
    p_nh4n p = (gross * f_nh4 r * (1 - f_loss r))%R /\
    p_nsas p = ((q * f_ntot r - p_ndir p) * f_nfst r)%R /\
    p_nlas p = ((q * f_ntot r - p_ndir p) * f_nslo r)%R.
Proof.
  destruct (dueng_lookup name q tab fpay0) as [[H1 H2]|(r & Hin & Hn & H)].
  - left. split; [exact H2 | exact H1].
  - right. exists r. split; [exact Hin|]. split; [exact Hn|]. cbn zeta. rewrite H.
    destruct (dueng_row_R q r) as (E1 & E2 & E3 & E4). cbn zeta in *. repeat split; assumption.
Qed.

(* tillage under automatic harvest: the date never moves back, never stays inside a stand whose harvest is known, and moves only by
   the two documented rules *)
Lemma till_adapt_spec z saat ernte einte autohar e' :
  till_adapt z saat ernte einte autohar = Some e' ->
  einte <= e' /\ ~ (0 < saat /\ saat < e' /\ e' <= ernte) /\
  (e' = einte \/ (e' = einte + 2 /\ z = einte /\ 0 < saat <= z /\ ernte = 0) \/ (e' = ernte + 1 /\ autohar = true /\ z <= ernte)).
Proof.
  unfold till_adapt.
  destruct (z =? einte) eqn:A; destruct (0 <? saat) eqn:B; destruct (saat <=? z) eqn:C; destruct (ernte =? 0) eqn:D; cbn [andb];
    repeat match goal with |- context [?a <? ?b] => destruct (a <? b) eqn:?; cbn [andb] end;
    repeat match goal with |- context [?a <=? ?b] => destruct (a <=? b) eqn:?; cbn [andb] end;
    try destruct autohar; cbn [andb]; intros H; inversion H; subst; clear H;
    repeat match goal with
           | H : (_ =? _) = true |- _ => apply Z.eqb_eq in H | H : (_ =? _) = false |- _ => apply Z.eqb_neq in H
           | H : (_ <? _) = true |- _ => apply Z.ltb_lt in H | H : (_ <? _) = false |- _ => apply Z.ltb_ge in H
           | H : (_ <=? _) = true |- _ => apply Z.leb_le in H | H : (_ <=? _) = false |- _ => apply Z.leb_gt in H end;
    repeat split; try lia; try (intros (? & ? & ?); lia); auto; try (right; lia); try (left; lia).
Qed.
