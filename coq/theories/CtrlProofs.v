(* CtrlProofs.v — lemmas about CtrlModel (calendar stepping, output events, field dispatch).
   The civil calendar enters only through C12's [day_facts] (day number <-> civil date, day of
   the year): from it a closed form  n = jan0 (year) + doy  is derived once, everything else is
   linear arithmetic over Z. *)
From Coq Require Import ZArith List Bool Lia Sorted.
From Hermes Require Import Util Calendar DateModel DateProofs CtrlModel.
Import ListNotations.
Open Scope Z_scope.

(* ------------------------------------------------------------------ *)
(* 1. closed form of the day number                                     *)

(* day number of 31 December of year y-1 *)
Definition jan0 (y : Z) : Z := (y - 1901) * 365 + (y - 1901) / 4.

Definition civ (z : Z) : date := civil_of_day (Z.to_N z).

Lemma doy_bounds t : valid_date t = true -> 1 <= doy t <= ylen (dy t).
Proof.
  destruct t as [y m d]. unfold valid_date, doy, ylen. cbn [dy dm dd].
  intros H. apply andb_true_iff in H as [H H4]. apply andb_true_iff in H as [H H3].
  apply andb_true_iff in H as [H1 H2]. apply Z.leb_le in H1, H2, H3, H4.
  assert (Hm : m = 1 \/ m = 2 \/ m = 3 \/ m = 4 \/ m = 5 \/ m = 6 \/ m = 7 \/ m = 8 \/ m = 9 \/
               m = 10 \/ m = 11 \/ m = 12) by lia.
  repeat (destruct Hm as [-> | Hm]); try subst m;
    destruct (leap y) eqn:L; cbn in H4; rewrite ?L in H4; cbn [days_before_month Z.to_nat Z.sub Z.add Z.opp Z.pos_sub Pos.pred_double];
    unfold Pos.to_nat; cbn [Pos.iter_op Nat.add days_before_month Z.of_nat Pos.of_succ_nat Pos.succ mlen];
    rewrite ?L; lia.
Qed.

Lemma ylen_range y : 1901 <= y <= 2099 -> ylen y = 365 + (if y mod 4 =? 0 then 1 else 0).
Proof. intros H. unfold ylen. rewrite (leap_range y H). destruct (y mod 4 =? 0); reflexivity. Qed.

Lemma closed_form (n : N) :
  (1 <= n <= LAST_N)%N ->
  let t := civil_of_day n in
  Z.of_N n = jan0 (dy t) + doy t /\ 1901 <= dy t <= 2099 /\ 1 <= doy t <= ylen (dy t).
Proof.
  intros Hn t. destruct (day_facts n Hn) as (_ & Hm & Hy & Hv). fold t in Hm, Hy, Hv.
  split; [|split; [exact Hy | apply doy_bounds; exact Hv]].
  unfold masdat_num in Hm. destruct (mt_lookup (dy t - 1900) (dm t)) as [off|]; [|discriminate].
  injection Hm as H1 H2. unfold jan0.
  rewrite Z.quot_div_nonneg in H2 by lia.
  replace (dy t - 1900 - 1) with (dy t - 1901) in H2 by lia. lia.
Qed.

Lemma jan0_succ y : 1901 <= y <= 2099 -> jan0 (y + 1) = jan0 y + ylen y.
Proof.
  intros H. rewrite (ylen_range y H). unfold jan0.
  replace (y + 1 - 1901) with (y - 1901 + 1) by lia.
  destruct (y mod 4 =? 0) eqn:E; [apply Z.eqb_eq in E | apply Z.eqb_neq in E];
    Z.div_mod_to_equations; lia.
Qed.

Lemma jan0_mono a b : a <= b -> jan0 a <= jan0 b.
Proof. intros H. unfold jan0. Z.div_mod_to_equations. lia. Qed.

Lemma ylen_pos y : 365 <= ylen y <= 366.
Proof. unfold ylen. destruct (leap y); lia. Qed.

Lemma civil_unique (n : N) y d :
  (1 <= n <= LAST_N)%N -> 1901 <= y <= 2099 -> 1 <= d <= ylen y -> Z.of_N n = jan0 y + d ->
  dy (civil_of_day n) = y /\ doy (civil_of_day n) = d.
Proof.
  intros Hn Hy Hd E. destruct (closed_form n Hn) as (E' & Hy' & Hd').
  set (y' := dy (civil_of_day n)) in *. set (d' := doy (civil_of_day n)) in *.
  assert (Hyy : y' = y).
  { destruct (Z_lt_le_dec y y') as [L|L].
    - pose proof (jan0_mono (y + 1) y' ltac:(lia)). pose proof (jan0_succ y Hy). lia.
    - destruct (Z_lt_le_dec y' y) as [L'|L'].
      + pose proof (jan0_mono (y' + 1) y ltac:(lia)). pose proof (jan0_succ y' Hy'). lia.
      + lia. }
  split; [exact Hyy | rewrite Hyy in E'; lia].
Qed.

Lemma jan0_2100 : jan0 2100 = 72684.
Proof. reflexivity. Qed.

(* the same for Z day numbers *)
Lemma civ_closed z :
  1 <= z <= 72684 ->
  z = jan0 (dy (civ z)) + doy (civ z) /\ 1901 <= dy (civ z) <= 2099 /\ 1 <= doy (civ z) <= ylen (dy (civ z)).
Proof.
  intros H. unfold civ.
  assert (Hn : (1 <= Z.to_N z <= LAST_N)%N) by (unfold LAST_N; lia).
  pose proof (closed_form _ Hn) as C. cbv zeta in C. rewrite Z2N.id in C by lia. exact C.
Qed.

Lemma civ_unique z y d :
  1 <= z <= 72684 -> 1901 <= y <= 2099 -> 1 <= d <= ylen y -> z = jan0 y + d ->
  dy (civ z) = y /\ doy (civ z) = d.
Proof.
  intros H Hy Hd E. unfold civ. apply civil_unique; auto.
  - unfold LAST_N; lia.
  - rewrite Z2N.id by lia. exact E.
Qed.

(* a (year, day of the year) pair inside the calendar range names a day number in range *)
Lemma jan0_range y d : 1901 <= y <= 2099 -> 1 <= d <= ylen y -> 1 <= jan0 y + d <= 72684.
Proof.
  intros Hy Hd. pose proof (jan0_mono 1901 y ltac:(lia)). pose proof (jan0_mono (y + 1) 2100 ltac:(lia)).
  pose proof (jan0_succ y Hy). rewrite jan0_2100 in *. change (jan0 1901) with 0 in *. lia.
Qed.

(* ------------------------------------------------------------------ *)
(* 2. calendar lock-step                                                *)

(* invariant BEFORE the step of day z: the next day z is day tag+2 of year 1900+j when that
   exists, else day 1 of the next year *)
Definition cal_inv (c : cal) (z : Z) : Prop :=
  let y := 1900 + c_j c in
  1901 <= y <= 2099 /\ c_jtag c = ylen y /\ -1 <= c_tag c < c_jtag c /\ z = jan0 y + c_tag c + 2.

Definition cal_at (c : cal) (z : Z) : Prop :=
  1900 + c_j c = dy (civ z) /\ c_tag c + 1 = doy (civ z) /\ c_jtag c = ylen (dy (civ z)).

(* [yE] = last completely loaded year; the day z to be stepped into lies in or before it *)
Lemma cal_step_inv_gen ly yE c z :
  yE <= 2099 ->
  (forall y, 1900 + c_j c <= y <= yE -> ly y = Some (ylen y)) ->
  cal_inv c z -> z <= jan0 (yE + 1) -> 1900 + c_j c <= yE ->
  cal_at (cal_step ly c) z /\ cal_inv (cal_step ly c) (z + 1) /\ 1900 + c_j (cal_step ly c) <= yE.
Proof.
  intros HyE Hly (Hy & Hj & Ht & Hz) Hzmax HjE.
  set (y := 1900 + c_j c) in *.
  pose proof (ylen_pos y) as Hl.
  unfold cal_step, roll.
  destruct (c_tag c + 1 + 1 >? c_jtag c) eqn:E.
  - (* roll over into year y+1 *)
    rewrite Z.gtb_ltb in E. apply Z.ltb_lt in E.
    assert (Etag : c_tag c = ylen y - 1) by lia.
    assert (Hz' : z = jan0 (y + 1) + 1) by (rewrite (jan0_succ y Hy); lia).
    assert (Hy1 : y + 1 <= yE).
    { destruct (Z_lt_le_dec yE (y + 1)) as [L|L]; [|lia].
      pose proof (jan0_mono (yE + 1) (y + 1) ltac:(lia)). lia. }
    cbn [Z.eqb]. replace (1900 + (c_j c + 1)) with (y + 1) by (unfold y; lia).
    rewrite (Hly (y + 1)) by (unfold y; lia).
    pose proof (ylen_pos (y + 1)) as Hl1.
    destruct (civ_unique z (y + 1) 1) as [A B]; try lia.
    { pose proof (jan0_range (y + 1) 1 ltac:(lia) ltac:(lia)). lia. }
    unfold cal_at, cal_inv; cbn [c_tag c_j c_jtag].
    replace (1900 + (c_j c + 1)) with (y + 1) by (unfold y; lia).
    rewrite A, B. repeat split; lia.
  - rewrite Z.gtb_ltb in E. apply Z.ltb_ge in E.
    assert (Hd : 1 <= c_tag c + 2 <= ylen y) by lia.
    destruct (civ_unique z y (c_tag c + 2)) as [A B]; try lia.
    { pose proof (jan0_range y (c_tag c + 2) Hy Hd). lia. }
    assert (Hjt : (if c_tag c + 1 =? 0 then match ly (1900 + c_j c) with Some d => d | None => c_jtag c end
                   else c_jtag c) = ylen y).
    { destruct (c_tag c + 1 =? 0); [|exact Hj].
      fold y. rewrite (Hly y) by (unfold y; lia). reflexivity. }
    rewrite Hjt.
    unfold cal_at, cal_inv; cbn [c_tag c_j c_jtag]. fold y.
    rewrite A, B. repeat split; lia.
Qed.

Lemma cal_step_inv ly c z :
  (forall y, 1900 + c_j c <= y <= 2099 -> ly y = Some (ylen y)) ->
  cal_inv c z -> z <= 72684 ->
  cal_at (cal_step ly c) z /\ cal_inv (cal_step ly c) (z + 1).
Proof.
  intros Hly I Hz. destruct I as (Hy & I').
  assert (I : cal_inv c z) by (split; assumption).
  assert (Hz' : z <= jan0 (2099 + 1)) by (change (jan0 (2099 + 1)) with 72684; exact Hz).
  destruct (cal_step_inv_gen ly 2099 c z ltac:(lia) Hly I Hz' ltac:(lia)) as (A & B & _).
  split; assumption.
Qed.

Lemma cal_init_inv ly anjahr itag beginn :
  1901 <= anjahr <= 2099 -> ly anjahr = Some (ylen anjahr) -> 1 <= itag <= ylen anjahr ->
  beginn = jan0 anjahr + itag ->
  cal_inv (cal_init ly anjahr itag) beginn.
Proof.
  intros Hy Hl Hi Hb. unfold cal_inv, cal_init; cbn [c_tag c_j c_jtag].
  replace (1900 + (anjahr - 1900)) with anjahr by lia. rewrite Hl. repeat split; lia.
Qed.

Lemma cal_day_succ ly a i k : cal_day ly a i (S k) = cal_step ly (cal_day ly a i k).
Proof. reflexivity. Qed.

Lemma cal_inv_year_mono ly c z :
  cal_inv c z -> 1900 + c_j c <= 1900 + c_j (cal_step ly c).
Proof.
  intros _. unfold cal_step, roll. destruct (c_tag c + 1 + 1 >? c_jtag c); cbn [c_j]; lia.
Qed.

Lemma lockstep_lemma ly anjahr itag beginn :
  1 <= beginn <= 72684 ->
  dy (civ beginn) = anjahr -> doy (civ beginn) = itag ->
  (forall y, anjahr <= y <= 2099 -> ly y = Some (ylen y)) ->
  forall k : nat, beginn + Z.of_nat k <= 72684 ->
    let c := cal_day ly anjahr itag k in
    let t := civ (beginn + Z.of_nat k) in
    1900 + c_j c = dy t /\ c_tag c + 1 = doy t /\ c_jtag c = ylen (dy t).
Proof.
  intros Hb Hy Hi Hly.
  destruct (civ_closed beginn Hb) as (E & Hyr & Hd). rewrite Hy, Hi in *.
  assert (I0 : cal_inv (cal_init ly anjahr itag) beginn).
  { apply cal_init_inv; auto. apply Hly; lia. }
  assert (G : forall k : nat, beginn + Z.of_nat k <= 72684 ->
                cal_at (cal_day ly anjahr itag k) (beginn + Z.of_nat k) /\
                cal_inv (cal_day ly anjahr itag k) (beginn + Z.of_nat k + 1) /\
                anjahr <= 1900 + c_j (cal_day ly anjahr itag k)).
  { induction k as [|k IH]; intros Hk.
    - rewrite Z.add_0_r. unfold cal_day, cal_iter.
      destruct (cal_step_inv ly (cal_init ly anjahr itag) beginn) as [A B]; auto; try lia.
      { intros y Hyy. apply Hly. unfold cal_init in Hyy; cbn [c_j] in Hyy. lia. }
      repeat split; try apply A; try apply B.
      pose proof (cal_inv_year_mono ly _ _ I0) as M. unfold cal_init in M at 1; cbn [c_j] in M. lia.
    - destruct IH as (A & B & C); [lia|].
      rewrite cal_day_succ.
      replace (beginn + Z.of_nat (S k)) with (beginn + Z.of_nat k + 1) by lia.
      destruct (cal_step_inv ly (cal_day ly anjahr itag k) (beginn + Z.of_nat k + 1)) as [A' B']; auto; try lia.
      { intros y Hyy. apply Hly. lia. }
      repeat split; try apply A'; try apply B'.
      pose proof (cal_inv_year_mono ly _ _ B). lia. }
  intros k Hk. destruct (G k Hk) as (A & _ & _). exact A.
Qed.

(* start_ok is the comparison of the civil year of BEGINN with StartYear *)
Lemma start_ok_civil beginn anjahr :
  1 <= beginn <= 72684 -> start_ok beginn anjahr = (dy (civ beginn) =? anjahr).
Proof.
  intros H. unfold start_ok, civ.
  assert (Hn : (1 <= Z.to_N beginn <= LAST_N)%N) by (unfold LAST_N; lia).
  destruct (day_facts _ Hn) as (K & _). rewrite Z2N.id in K by lia. rewrite K. reflexivity.
Qed.

(* ------------------------------------------------------------------ *)
(* 3. output events                                                     *)

Section EventProofs.
  Variable ly : Z -> option Z.
  Variable outint outday : Z.
  Variable ernte : list Z.

  Notation day_ev := (day_events ly outint outday ernte).
  Notation ev_from := (events_from ly outint outday ernte).

  Lemma daily_of_app a b : daily_of (a ++ b) = daily_of a ++ daily_of b.
  Proof. unfold daily_of. apply flat_map_app. Qed.
  Lemma annual_of_app a b : annual_of (a ++ b) = annual_of a ++ annual_of b.
  Proof. unfold annual_of. apply flat_map_app. Qed.
  Lemma crop_of_app a b : crop_of (a ++ b) = crop_of a ++ crop_of b.
  Proof. unfold crop_of. apply flat_map_app. Qed.

  Definition daily_day (z : Z) : list Z := if (0 <? outint) && (Z.rem z outint =? 0) then [z] else [].

  Lemma day_daily z st : daily_of (snd (day_ev z st)) = daily_day z.
  Proof.
    unfold day_events, daily_day.
    destruct (z =? nth (v_akf st) ernte 0); cbn [snd];
      rewrite !daily_of_app;
      destruct ((0 <? outint) && (Z.rem z outint =? 0));
      destruct (c_tag (cal_step ly (v_cal st)) + 1 =? outday);
      destruct (1 <=? v_akf st)%nat; reflexivity.
  Qed.

  (* daily records: exactly the days of the window whose number is a multiple of the interval *)
  Lemma daily_lemma n z st :
    daily_of (ev_from n z st) = flat_map daily_day (zrange z n).
  Proof.
    revert z st; induction n as [|n IH]; intros z st; [reflexivity|].
    cbn [events_from zrange flat_map].
    pose proof (day_daily z st) as D.
    destruct (day_ev z st) as [st' ev]. cbn [snd] in D.
    rewrite daily_of_app, D, IH. reflexivity.
  Qed.

  Lemma cal_of_day z st : v_cal (fst (day_ev z st)) = cal_step ly (v_cal st).
  Proof. unfold day_events. destruct (z =? nth (v_akf st) ernte 0); reflexivity. Qed.

  Lemma day_annual z st :
    annual_of (snd (day_ev z st)) = if c_tag (cal_step ly (v_cal st)) + 1 =? outday then [z] else [].
  Proof.
    unfold day_events.
    destruct (z =? nth (v_akf st) ernte 0); cbn [snd];
      rewrite !annual_of_app;
      destruct ((0 <? outint) && (Z.rem z outint =? 0));
      destruct (c_tag (cal_step ly (v_cal st)) + 1 =? outday);
      destruct (1 <=? v_akf st)%nat; reflexivity.
  Qed.

  Definition annual_day (z : Z) : list Z := if doy (civ z) =? outday then [z] else [].

  (* with the calendar in lock-step the yearly record is written on the days whose day of the
     year is OUTDAY *)
  Lemma annual_lemma n z st :
    (forall y, 1900 + c_j (v_cal st) <= y <= 2099 -> ly y = Some (ylen y)) ->
    cal_inv (v_cal st) z -> z + Z.of_nat n <= 72685 ->
    annual_of (ev_from n z st) = flat_map annual_day (zrange z n).
  Proof.
    revert z st; induction n as [|n IH]; intros z st Hly I Hz; [reflexivity|].
    cbn [events_from zrange flat_map].
    pose proof (day_annual z st) as D. pose proof (cal_of_day z st) as C.
    destruct (day_ev z st) as [st' ev]. cbn [snd fst] in D, C.
    destruct (cal_step_inv ly (v_cal st) z Hly I ltac:(lia)) as [(A1 & A2 & A3) B].
    rewrite annual_of_app, D. unfold annual_day at 1. rewrite A2. f_equal.
    apply IH.
    - intros y Hy. apply Hly. rewrite C in Hy.
      pose proof (cal_inv_year_mono ly _ _ I). lia.
    - rewrite C. exact B.
    - lia.
  Qed.

  (* crop cursor: AKF counts the rotation entries harvested so far *)
  Lemma day_crop z st :
    crop_of (snd (day_ev z st)) =
      (if (z =? nth (v_akf st) ernte 0) && (1 <=? v_akf st)%nat then [Z.of_nat (v_akf st) + 1] else []) /\
    v_akf (fst (day_ev z st)) = if z =? nth (v_akf st) ernte 0 then S (v_akf st) else v_akf st.
  Proof.
    unfold day_events.
    destruct (z =? nth (v_akf st) ernte 0); cbn [snd fst v_akf]; rewrite !crop_of_app;
      destruct ((0 <? outint) && (Z.rem z outint =? 0));
      destruct (c_tag (cal_step ly (v_cal st)) + 1 =? outday);
      destruct (1 <=? v_akf st)%nat; split; reflexivity.
  Qed.
End EventProofs.

Lemma skipn_nth_cons {A} k (l : list A) d : (k < length l)%nat -> skipn k l = nth k l d :: skipn (S k) l.
Proof.
  revert l; induction k as [|k IH]; intros [|a l] H; cbn in *; try lia; [reflexivity|].
  apply IH. lia.
Qed.

Lemma nth_skipn' {A} k (l : list A) i d : nth i (skipn k l) d = nth (k + i) l d.
Proof.
  revert l; induction k as [|k IH]; intros l; [reflexivity|].
  destruct l as [|a l]; cbn [skipn]; [destruct i; reflexivity|]. apply IH.
Qed.

(* strictly increasing harvest dates, the first one is BEGINN *)
Fixpoint increasing (l : list Z) : Prop :=
  match l with
  | a :: ((b :: _) as r) => a < b /\ increasing r
  | _ => True
  end.

Lemma increasing_nth l : increasing l -> forall i j, (i < j < length l)%nat -> nth i l 0 < nth j l 0.
Proof.
  induction l as [|a l IH]; intros H i j Hij; [cbn in Hij; lia|].
  destruct l as [|b l']; [cbn in Hij; lia|].
  destruct H as [Hab Hr].
  destruct j as [|j]; [lia|]. destruct i as [|i].
  - cbn [nth]. destruct j as [|j]; [exact Hab|].
    pose proof (IH Hr 0%nat (S j) ltac:(cbn in *; lia)) as K. cbn [nth] in K. cbn [nth]. lia.
  - cbn [nth]. apply (IH Hr i j). cbn in *; lia.
Qed.

(* the crop records of the days z, z+1, ..., z+n-1 when the cursor stands at [akf]:
   the entries akf+1 .. (1-based) whose harvest date lies in the window, in rotation order *)
Fixpoint crops_due (ernte : list Z) (k : nat) (hi : Z) : list Z :=
  match ernte with
  | [] => []
  | e :: r => (if (e <=? hi) && (1 <=? k)%nat then [Z.of_nat k + 1] else []) ++ crops_due r (S k) hi
  end.

Lemma crops_due_none ernte k hi : (forall e, In e ernte -> hi < e) -> crops_due ernte k hi = [].
Proof.
  revert k; induction ernte as [|e r IH]; intros k H; [reflexivity|].
  cbn [crops_due]. assert (hi < e) by (apply H; left; reflexivity).
  replace (e <=? hi) with false by (symmetry; apply Z.leb_gt; lia). cbn.
  apply IH. intros e' He'. apply H. right. exact He'.
Qed.

Lemma crop_lemma ly outint outday ernte n z st :
  increasing ernte -> (forall e, In e ernte -> 1 <= e) ->
  (* cursor invariant: entries before the cursor are in the past, the one under it is not *)
  (forall i, (i < v_akf st)%nat -> nth i ernte 0 < z) ->
  (forall i, (v_akf st <= i < length ernte)%nat -> z <= nth i ernte 0) ->
  1 <= z ->
  crop_of (events_from ly outint outday ernte n z st) =
    crops_due (skipn (v_akf st) ernte) (v_akf st) (z + Z.of_nat n - 1).
Proof.
  intros Hinc Hpos. revert z st; induction n as [|n IH]; intros z st Hpast Hfut Hz.
  - cbn [events_from crop_of flat_map]. symmetry. apply crops_due_none.
    intros e He. apply In_nth with (d := 0) in He. destruct He as (i & Hi & <-).
    rewrite skipn_length in Hi. rewrite nth_skipn'.
    pose proof (Hfut (v_akf st + i)%nat ltac:(lia)). lia.
  - cbn [events_from].
    destruct (day_crop ly outint outday ernte z st) as [D A].
    destruct (day_events ly outint outday ernte z st) as [st' ev]. cbn [snd fst] in D, A.
    rewrite crop_of_app, D.
    set (k := v_akf st) in *.
    pose proof (IH (z + 1) st') as IH'. rewrite A in IH'.
    replace (z + 1 + Z.of_nat n - 1) with (z + Z.of_nat (S n) - 1) in IH' by lia.
    destruct (Nat.lt_ge_cases k (length ernte)) as [Hk|Hk].
    + (* there is an entry under the cursor *)
      destruct (z =? nth k ernte 0) eqn:E.
      * apply Z.eqb_eq in E.
        rewrite (skipn_nth_cons k ernte 0 Hk). cbn [crops_due].
        replace (nth k ernte 0 <=? z + Z.of_nat (S n) - 1) with true by (symmetry; apply Z.leb_le; lia).
        cbn [andb]. f_equal. apply IH'.
        -- intros i Hi. destruct (Nat.eq_dec i k) as [->|Hne]; [lia|].
           pose proof (Hpast i ltac:(lia)). lia.
        -- intros i Hi. pose proof (increasing_nth ernte Hinc k i ltac:(lia)). lia.
        -- lia.
      * apply Z.eqb_neq in E. cbn [andb app].
        pose proof (Hfut k ltac:(lia)) as Hf.
        apply IH'.
        -- intros i Hi. pose proof (Hpast i Hi). lia.
        -- intros i Hi. destruct (Nat.eq_dec i k) as [->|Hne]; [lia|].
           pose proof (increasing_nth ernte Hinc k i ltac:(lia)). lia.
        -- lia.
    + (* cursor beyond the rotation: ERNTE[AKF] = 0 never equals a day number *)
      rewrite (nth_overflow ernte 0 Hk) in *.
      replace (z =? 0) with false in * by (symmetry; apply Z.eqb_neq; lia).
      cbn [andb app]. apply IH'.
      * intros i Hi. pose proof (Hpast i Hi). lia.
      * intros i Hi. lia.
      * lia.
Qed.

(* ------------------------------------------------------------------ *)
(* 4. the statements of C05                                             *)

Lemma flat_map_filter {A} (p : A -> bool) l :
  flat_map (fun z => if p z then [z] else []) l = filter p l.
Proof. induction l as [|a l IH]; [reflexivity|]. cbn. destruct (p a); cbn; rewrite IH; reflexivity. Qed.

Lemma run_events_unfold ly outint outday ernte anjahr beginn itag ende ev :
  beginn <= ende ->
  run_events ly outint outday ernte anjahr beginn itag ende = Some ev ->
  start_ok beginn anjahr = true /\
  ev = events_from ly outint outday ernte (ndays beginn ende) beginn (mkev (cal_init ly anjahr itag) 0).
Proof.
  intros H. unfold run_events. replace (ende <? beginn) with false by (symmetry; apply Z.ltb_ge; lia).
  destruct (start_ok beginn anjahr); cbn [negb]; [|discriminate].
  intros E. injection E as <-. split; reflexivity.
Qed.

Lemma daily_records_lemma ly outint outday ernte anjahr beginn itag ende ev :
  1 <= outint -> beginn <= ende ->
  run_events ly outint outday ernte anjahr beginn itag ende = Some ev ->
  daily_of ev = filter (fun z => Z.rem z outint =? 0) (zrange beginn (ndays beginn ende)).
Proof.
  intros Hk Hbe E. destruct (run_events_unfold _ _ _ _ _ _ _ _ _ Hbe E) as [_ ->].
  rewrite daily_lemma. unfold daily_day.
  replace (0 <? outint) with true by (symmetry; apply Z.ltb_lt; lia). cbn [andb].
  apply (flat_map_filter (fun z => Z.rem z outint =? 0)).
Qed.

Lemma zrange_lt lo n : forall x, In x (zrange lo n) -> lo <= x.
Proof. intros x H. apply zrange_In in H. lia. Qed.

Lemma zrange_sorted lo n : StronglySorted Z.lt (zrange lo n).
Proof.
  revert lo; induction n as [|n IH]; intros lo; cbn; constructor; [apply IH|].
  apply Forall_forall. intros x H. apply zrange_In in H. lia.
Qed.

Lemma filter_sorted (p : Z -> bool) l : StronglySorted Z.lt l -> StronglySorted Z.lt (filter p l).
Proof.
  induction 1 as [|a l Hs IH Hf]; cbn; [constructor|].
  destruct (p a); [|exact IH]. constructor; [exact IH|].
  apply Forall_forall. intros x Hx. apply filter_In in Hx as [Hx _].
  rewrite Forall_forall in Hf. apply Hf. exact Hx.
Qed.

Lemma daily_sorted_lemma ly outint outday ernte anjahr beginn itag ende ev :
  1 <= outint -> beginn <= ende ->
  run_events ly outint outday ernte anjahr beginn itag ende = Some ev ->
  StronglySorted Z.lt (daily_of ev).
Proof.
  intros Hk Hbe E. rewrite (daily_records_lemma _ _ _ _ _ _ _ _ _ Hk Hbe E).
  apply filter_sorted, zrange_sorted.
Qed.

Lemma filter_true {A} (l : list A) : filter (fun _ => true) l = l.
Proof. induction l as [|a l IH]; cbn; [reflexivity | rewrite IH; reflexivity]. Qed.

Lemma civ_succ z : 0 <= z -> civ (z + 1) = next_day (civ z).
Proof.
  intros H. unfold civ. replace (Z.to_N (z + 1)) with (N.succ (Z.to_N z)) by lia. apply civil_succ.
Qed.

Lemma daily_dates_lemma ly outday ernte anjahr beginn itag ende ev :
  0 <= beginn <= ende ->
  run_events ly 1 outday ernte anjahr beginn itag ende = Some ev ->
  daily_of ev = zrange beginn (ndays beginn ende) /\
  forall z, beginn <= z -> civ (z + 1) = next_day (civ z).
Proof.
  intros Hbe E. split.
  - assert (H1 : 1 <= 1) by lia. assert (H2 : beginn <= ende) by lia.
    rewrite (daily_records_lemma ly 1 outday ernte anjahr beginn itag ende ev H1 H2 E).
    erewrite filter_ext; [apply filter_true|]. intros z. cbv beta. rewrite Z.rem_1_r. reflexivity.
  - intros z Hz. apply civ_succ. lia.
Qed.

(* the hypotheses under which the calendar runs in lock-step (C04): the start year check passed,
   ITAG is the day of the year of BEGINN, every year of the window is loaded completely *)
Definition in_step (ly : Z -> option Z) (anjahr beginn itag ende : Z) : Prop :=
  1 <= beginn /\ ende <= 72684 /\ doy (civ beginn) = itag /\
  (forall y, anjahr <= y <= 2099 -> ly y = Some (ylen y)).

Lemma annual_records_lemma ly outint outday ernte anjahr beginn itag ende ev :
  beginn <= ende -> in_step ly anjahr beginn itag ende ->
  run_events ly outint outday ernte anjahr beginn itag ende = Some ev ->
  annual_of ev = filter (fun z => doy (civ z) =? outday) (zrange beginn (ndays beginn ende)).
Proof.
  intros Hbe (Hb & He & Hi & Hly) E.
  destruct (run_events_unfold _ _ _ _ _ _ _ _ _ Hbe E) as [Hs ->].
  rewrite start_ok_civil in Hs by lia. apply Z.eqb_eq in Hs.
  destruct (civ_closed beginn ltac:(lia)) as (Ec & Hyr & Hd). rewrite Hs, Hi in *.
  rewrite annual_lemma.
  - unfold annual_day. apply (flat_map_filter (fun z => doy (civ z) =? outday)).
  - cbn [v_cal]. unfold cal_init; cbn [c_j]. intros y Hy. apply Hly. lia.
  - cbn [v_cal]. apply cal_init_inv; auto. apply Hly; lia.
  - unfold ndays. lia.
Qed.

(* exactly one yearly record per civil year whose day-of-year OUTDAY lies in the window *)
Lemma annual_one_per_year_lemma ly outint outday ernte anjahr beginn itag ende ev :
  beginn <= ende -> in_step ly anjahr beginn itag ende -> 1 <= outday <= 365 ->
  run_events ly outint outday ernte anjahr beginn itag ende = Some ev ->
  (forall y, 1901 <= y <= 2099 -> beginn <= jan0 y + outday <= ende ->
     In (jan0 y + outday) (annual_of ev)) /\
  (forall z, In z (annual_of ev) ->
     beginn <= z <= ende /\ doy (civ z) = outday /\ z = jan0 (dy (civ z)) + outday) /\
  NoDup (annual_of ev).
Proof.
  intros Hbe I Ho E. pose proof (annual_records_lemma _ _ _ _ _ _ _ _ _ Hbe I E) as A.
  destruct I as (Hb & He & Hi & Hly). rewrite A. split; [|split].
  - intros y Hy Hw. apply filter_In. split.
    + apply zrange_In. unfold ndays. lia.
    + pose proof (ylen_pos y).
      assert (B : dy (civ (jan0 y + outday)) = y /\ doy (civ (jan0 y + outday)) = outday)
        by (apply civ_unique; lia).
      apply Z.eqb_eq. exact (proj2 B).
  - intros z H. apply filter_In in H as [H1 H2]. apply Z.eqb_eq in H2.
    apply zrange_In in H1. unfold ndays in H1.
    destruct (civ_closed z ltac:(lia)) as (Ec & _). repeat split; lia.
  - apply NoDup_filter. generalize (ndays beginn ende) as n. generalize beginn as lo.
    intros lo n; revert lo; induction n as [|n IH]; intros lo; cbn; constructor; [|apply IH].
    intros H. apply zrange_In in H. lia.
Qed.

Lemma ende_extension_lemma ende ye d :
  1 <= d ->
  let e := ende_ext ende (jan0 ye + d) in
  ende <= e /\ jan0 ye + outday_of d <= e /\ (jan0 ye + d < ende -> e = ende) /\
  (ende <= jan0 ye + d -> e = jan0 ye + d + 1).
Proof.
  intros Hd e. unfold e, ende_ext, outday_of.
  destruct (jan0 ye + d >=? ende) eqn:E; [apply Z.geb_le in E | rewrite Z.geb_leb in E; apply Z.leb_gt in E];
    destruct (d >? 365) eqn:F; [apply Z.gtb_lt in F | rewrite Z.gtb_ltb in F; apply Z.ltb_ge in F
                               | apply Z.gtb_lt in F | rewrite Z.gtb_ltb in F; apply Z.ltb_ge in F];
    repeat split; lia.
Qed.

Fixpoint numbered (k : Z) (l : list Z) : list (Z * Z) :=
  match l with [] => [] | e :: r => (k, e) :: numbered (k + 1) r end.

(* rotation entries 2..m whose harvest date is not after the end, in rotation order *)
Definition crop_spec (ernte : list Z) (ende : Z) : list Z :=
  map fst (filter (fun p : Z * Z => (2 <=? fst p) && (snd p <=? ende)) (numbered 1 ernte)).

Lemma crops_due_spec l k hi :
  crops_due l k hi = map fst (filter (fun p : Z * Z => (2 <=? fst p) && (snd p <=? hi)) (numbered (Z.of_nat k + 1) l)).
Proof.
  revert k; induction l as [|e r IH]; intros k; [reflexivity|].
  cbn [crops_due numbered filter fst snd].
  replace (2 <=? Z.of_nat k + 1) with (1 <=? k)%nat.
  2:{ destruct (Nat.leb_spec 1 k); symmetry; [apply Z.leb_le | apply Z.leb_gt]; lia. }
  rewrite IH. replace (Z.of_nat (S k) + 1) with (Z.of_nat k + 1 + 1) by lia.
  rewrite andb_comm. destruct ((1 <=? k)%nat && (e <=? hi)); reflexivity.
Qed.

Lemma increasing_from l : increasing l -> forall i, (i < length l)%nat -> nth 0 l 0 <= nth i l 0.
Proof.
  intros H i Hi. destruct i as [|i]; [lia|].
  pose proof (increasing_nth l H 0%nat (S i) ltac:(lia)). lia.
Qed.

Lemma crop_records_lemma ly outint outday ernte anjahr beginn itag ende ev :
  1 <= beginn <= ende -> increasing ernte -> nth 0 ernte 0 = beginn ->
  run_events ly outint outday ernte anjahr beginn itag ende = Some ev ->
  crop_of ev = crop_spec ernte ende /\ NoDup (crop_of ev).
Proof.
  intros Hbe Hinc H0 E. assert (Hle : beginn <= ende) by lia.
  destruct (run_events_unfold _ _ _ _ _ _ _ _ _ Hle E) as [_ ->].
  assert (C : crop_of (events_from ly outint outday ernte (ndays beginn ende) beginn (mkev (cal_init ly anjahr itag) 0))
              = crop_spec ernte ende).
  { rewrite crop_lemma; cbn [v_akf]; auto; try lia.
    - cbn [skipn]. rewrite crops_due_spec. unfold crop_spec. cbn [Z.of_nat Z.add].
      replace (beginn + Z.of_nat (ndays beginn ende) - 1) with ende by (unfold ndays; lia). reflexivity.
    - intros e He. apply In_nth with (d := 0) in He. destruct He as (i & Hi & <-).
      pose proof (increasing_from ernte Hinc i Hi). lia.
    - intros i Hi. pose proof (increasing_from ernte Hinc i ltac:(lia)). lia. }
  split; [exact C|]. rewrite C. unfold crop_spec.
  (* the numbers of [numbered] are pairwise distinct *)
  assert (N : forall k l, NoDup (map fst (numbered k l)) /\ forall x, In x (map fst (numbered k l)) -> k <= x).
  { intros k l; revert k; induction l as [|e r IH]; intros k; cbn; [split; [constructor | tauto]|].
    destruct (IH (k + 1)) as [A B]. split.
    - constructor; [|exact A]. intros H. apply B in H. lia.
    - intros x [<-|H]; [lia|]. apply B in H. lia. }
  generalize (proj1 (N 1 ernte)). generalize (numbered 1 ernte) as l. clear.
  induction l as [|p l IH]; cbn; intros H; [constructor|].
  inversion H as [|? ? Hn Hd]; subst.
  destruct ((2 <=? fst p) && (snd p <=? ende)); cbn; [|apply IH; exact Hd].
  constructor; [|apply IH; exact Hd].
  intros Hin. apply Hn. apply in_map_iff in Hin as (q & Hq & Hf). apply filter_In in Hf as [Hf _].
  apply in_map_iff. exists q. split; assumption.
Qed.

(* field dispatch *)
Definition elem_ok (t : gotype) : bool :=
  match t with TFloat | TInt | TString | TSliceFloat => true | _ => false end.
Definition arr_ok (t : gotype) : bool :=
  match t with
  | TArray _ (TArray _ e) => elem_ok e
  | TArray _ e => elem_ok e
  | _ => elem_ok t
  end.
(* float64 / int / string, []float64, elements of one- and two-dimensional arrays of those,
   and the same one level inside a struct-typed field ("TAG.Num") *)
Definition kind_ok (t : gotype) (sub : nat) : bool :=
  match t with
  | TStruct fs => match field_of fs sub with Some t' => arr_ok t' | None => true end
  | _ => arr_ok t
  end.

Lemma ref_of_ok t : elem_ok t = true -> supported (ref_of t) = true.
Proof. destruct t; cbn; intros H; try discriminate; reflexivity. Qed.

Lemma arr_ok_supported t i1 i2 :
  arr_ok t = true ->
  supported (match t with
             | TArray n e => if (n <=? i1)%nat then RNa else
                             match e with TArray n2 e2 => if (n2 <=? i2)%nat then RNa else ref_of e2 | _ => ref_of e end
             | t2 => ref_of t2 end) = true.
Proof.
  destruct t as [| | | | |n e| | |fs]; cbn; intros H; try discriminate; try reflexivity.
  destruct (n <=? i1)%nat; [reflexivity|].
  destruct e as [| | | | |n2 e2| | |fs2]; cbn in *; try discriminate; try reflexivity.
  destruct (n2 <=? i2)%nat; [reflexivity|]. apply ref_of_ok. exact H.
Qed.

Lemma bind_supported_lemma t sub i1 i2 : kind_ok t sub = true -> supported (bind (Some t) sub i1 i2) = true.
Proof.
  unfold kind_ok, bind. destruct t as [| | | | |n e| | |fs]; intros H;
    try (apply (arr_ok_supported _ i1 i2) in H; exact H).
  destruct (field_of fs sub) as [t'|]; [|reflexivity].
  apply (arr_ok_supported _ i1 i2) in H. exact H.
Qed.

Lemma unbound_supported_lemma sub i1 i2 : supported (bind None sub i1 i2) = true.
Proof. reflexivity. Qed.

Lemma field_count_lemma {A} (render : vref -> A) cols :
  forallb supported cols = true ->
  length (fields render cols) = length cols /\
  forall csv, exists fs, write_line csv render cols = Some fs /\ length fs = length cols.
Proof.
  intros H.
  assert (L : length (fields render cols) = length cols).
  { induction cols as [|c r IH]; [reflexivity|]. cbn in H. apply andb_true_iff in H as [Hc Hr].
    unfold fields in *. cbn [flat_map]. rewrite Hc. cbn. rewrite IH by exact Hr. reflexivity. }
  split; [exact L|]. intros csv. unfold write_line. rewrite L, Nat.eqb_refl.
  exists (fields render cols). destruct csv; split; auto.
Qed.

(* a column of an unsupported kind loses its field: the fixed-width style then writes nothing *)
Lemma unsupported_loses_field {A} (render : vref -> A) a b :
  forallb supported a = true -> forallb supported b = true ->
  length (fields render (a ++ ROther :: b)) = (length a + length b)%nat /\
  write_line false render (a ++ ROther :: b) = None.
Proof.
  intros Ha Hb.
  assert (L : length (fields render (a ++ ROther :: b)) = (length a + length b)%nat).
  { unfold fields. rewrite flat_map_app, app_length. cbn [flat_map supported app].
    fold (fields render a). fold (fields render b).
    rewrite (proj1 (field_count_lemma render a Ha)), (proj1 (field_count_lemma render b Hb)). reflexivity. }
  split; [exact L|]. unfold write_line. rewrite L, app_length. cbn [length].
  replace (length a + length b =? length a + S (length b))%nat with false; [reflexivity|].
  symmetry. apply Nat.eqb_neq. lia.
Qed.

(* F16: annual date 31 Oct, end year 1981 (OUTDAY = 304): the yearly record of the leap year 1980
   is written on 30 October *)
Lemma annual_on_date_refuted_lemma :
  exists b ev z,
    bounds_of 1 1 1980 31 12 1981 31 10 = Some b /\
    run_events (fun y => Some (ylen y)) 1 (b_outday b) [b_beginn b] 1980 (b_beginn b) (b_itag b) (b_ende b) = Some ev /\
    In z (annual_of ev) /\ civ z = mkdate 1980 10 30 /\ (dm (civ z), dd (civ z)) <> (10, 31).
Proof.
  eexists. eexists. exists 29158.
  split; [vm_compute; reflexivity|].
  split; [vm_compute; reflexivity|].
  split; [vm_compute; left; reflexivity|].
  split; [vm_compute; reflexivity | vm_compute; discriminate].
Qed.
