(* C13SoilCorr.v — correspondence of SoilModel with the real LoadSoil / LoadSoilCSV (harness command
   soilstate): the models are run on the bytes the real loaders read; every field of SoilFileData is
   compared bit for bit; python's renderings of an abstract profile are compared with the Coq
   renderers render_txt / render_csv. *)
From Coq Require Import ZArith List Bool Ascii String Floats Uint63.
From Hermes Require Import Num DateModel CropParamModel SoilModel C13Corr.
Import ListNotations.
Local Open Scope Z_scope.

Inductive sobs := SOk (f : list float) (z : list Z) (s : list string) | SErr | SCrash.

Definition flat_hor_f (h : horizon float) : list float :=
  [h_bulk h; h_cgehalt h; h_cnratio h; h_ngehalt h; h_humus h; h_stein h; h_fka h; h_wp h; h_gpv h; h_ssand h; h_sluf h; h_ton h].
Definition flat_soil (sd : soildata float) : list float * list Z * list lstr :=
  (sd_draifak sd :: List.concat (map flat_hor_f (sd_hor sd)),
   [sd_azho sd; sd_wurzmax sd; sd_gw sd; sd_draidep sd; sd_n sd] ++ List.concat (map (fun h => [h_ukt h; h_ld h]) (sd_hor sd)),
   map (fun h => h_bart h) (sd_hor sd)).

Fixpoint diff_s (i : Z) (a : list lstr) (b : list string) : list Z :=
  match a, b with
  | [], [] => []
  | x :: r, y :: r' => if leqb x (lstr_of y) then diff_s (i + 1) r r' else i :: diff_s (i + 1) r r'
  | _, _ => [99997]
  end.

Definition soil_cmp (m : res (soildata float)) (o : sobs) : list Z :=
  match m, o with
  | Ok sd, SOk f z s => let '(mf, mz, ms) := flat_soil sd in diff_f 0 mf f ++ diff_z 10000 mz z ++ diff_s 20000 ms s
  | Err, SErr => []
  | Crash, SCrash => []
  | Ok _, _ => [77777]
  | _, SOk _ _ _ => [88888]
  | _, _ => [70000]                       (* error vs Fatal *)
  end.

Definition mk_ahor (f : list string) : ahor :=
  let g k := lstr_of (nth k f ""%string) in
  {| a_corg := g 0%nat; a_tex := g 1%nat; a_depth := g 2%nat; a_ld := g 3%nat; a_stone := g 4%nat; a_cn := g 5%nat;
     a_fc := g 6%nat; a_wp := g 7%nat; a_ps := g 8%nat; a_sand := g 9%nat; a_silt := g 10%nat; a_clay := g 11%nat |}.
Definition mk_aprofile (sid root dd dp gw : string) (hs : list (list string)) : aprofile :=
  {| ap_sid := lstr_of sid; ap_root := lstr_of root; ap_draindepth := lstr_of dd; ap_drainpct := lstr_of dp;
     ap_gw := lstr_of gw; ap_hor := map mk_ahor hs |}.

Inductive scase :=
  | SLoad (file : nat) (csv gw : bool) (sid : string) (o : sobs)
  | SRender (p : aprofile) (txt csv : nat).

Definition scase_diff (files : list (list lstr)) (c : scase) : list Z :=
  match c with
  | SLoad f csv gw sid o =>
      soil_cmp ((if csv then load_soil_csv else load_soil_txt) gw (lstr_of sid) (nth f files [])) o
  | SRender p t c =>
      (if lines_eqb (render_txt p) (nth t files []) then [] else [66661]) ++
      (if lines_eqb (render_csv p) (nth c files []) then [] else [66662])
  end.

Fixpoint smismatches_from (files : list (list lstr)) (i : nat) (cs : list scase) : list (nat * list Z) :=
  match cs with
  | [] => []
  | c :: r => match scase_diff files c with
              | [] => smismatches_from files (S i) r
              | d => (i, firstn 6 d) :: smismatches_from files (S i) r
              end
  end.
Definition smismatches (fs : list fsrc) (cs : list scase) : list (nat * list Z) :=
  smismatches_from (resolve [] fs) 0 cs.
