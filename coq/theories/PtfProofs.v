(* PtfProofs.v — 0 < WP < FC < 1 for the four pedotransfer functions on the whole domain of the property:
   clay, silt, sand >= 5 %, sand <= 85 %, sum 100 %, organic carbon 0..6 %.
   PTF2/PTF3 are linear: lra.  PTF1 (rational in Corg, bilinear in clay x silt) and PTF4 (cubic) are proved with
   Coq-Interval, bisecting all three variables, after parametrising the triangle {x >= 5, y >= 5, x + y <= 95}
   as x in [5,90], y = 5 + mu*(90 - x), mu in [0,1] (so the sum constraint is built in; the minima lie on that edge). *)
From Coq Require Import ZArith Reals List Bool Lra Lia Psatz.
From Interval Require Import Tactic.
From Hermes Require Import Num RUtil PtfModel HydroProofs.
Local Open Scope R_scope.

(* the domain, in the argument order of PTF1-3: (Corg, clay, silt) *)
Definition ptf_domain (c ton sluf : R) : Prop :=
  0 <= c <= 6 /\ 5 <= ton /\ 5 <= sluf /\ 5 <= 100 - ton - sluf <= 85.
(* ... and of PTF4: (Corg, clay, sand) *)
Definition ptf_domain4 (c ton ssand : R) : Prop :=
  0 <= c <= 6 /\ 5 <= ton /\ 5 <= ssand <= 85 /\ 5 <= 100 - ton - ssand.

Definition ptf_ordered (r : R * R) : Prop := 0 < snd r /\ snd r < fst r /\ fst r < 1.

Lemma triangle_param (x y : R) : 5 <= x -> 5 <= y -> x + y <= 95 ->
  exists mu, 0 <= mu <= 1 /\ y = 5 + mu * (90 - x).
Proof.
  intros Hx Hy Hs. destruct (Req_dec x 90) as [E|E].
  - exists 0. split; [lra|]. subst x. lra.
  - exists ((y - 5) / (90 - x)). assert (0 < 90 - x) by lra. split.
    + split; [apply Rmult_le_pos; [lra | left; apply Rinv_0_lt_compat; lra]|].
      apply Rmult_le_reg_r with (90 - x); [lra|]. unfold Rdiv. rewrite Rmult_assoc, Rinv_l by lra. lra.
    + field. lra.
Qed.

Lemma ptf2_ordered_lemma (c ton sluf : R) : ptf_domain c ton sluf -> ptf_ordered (ptf2 c ton sluf).
Proof. intros (Hc & Ht & Hs & Hd). unfold ptf_ordered, ptf2. cbn [fst snd]. runfold. repeat split; lra. Qed.

Lemma ptf3_ordered_lemma (c ton sluf : R) : ptf_domain c ton sluf -> ptf_ordered (ptf3 c ton sluf).
Proof. intros (Hc & Ht & Hs & Hd). unfold ptf_ordered, ptf3. cbn [fst snd]. runfold. repeat split; lra. Qed.

Lemma ptf1_param (c t mu : R) : 0 <= c <= 6 -> 5 <= t <= 90 -> 0 <= mu <= 1 ->
  ptf_ordered (ptf1 c t (5 + mu * (90 - t))).
Proof.
  intros Hc Ht Hm. unfold ptf_ordered, ptf1. cbn [fst snd]. runfold. repeat split.
  - interval with (i_bisect c, i_bisect t, i_bisect mu, i_depth 40).
  - apply Rminus_gt_0_lt. interval with (i_bisect c, i_bisect t, i_bisect mu, i_depth 40).
  - interval with (i_bisect c, i_bisect t, i_bisect mu, i_depth 40).
Qed.

Lemma ptf1_ordered_lemma (c ton sluf : R) : ptf_domain c ton sluf -> ptf_ordered (ptf1 c ton sluf).
Proof.
  intros (Hc & Ht & Hs & Hd).
  destruct (triangle_param ton sluf Ht Hs ltac:(lra)) as (mu & Hm & ->).
  apply ptf1_param; lra.
Qed.

Lemma ptf4_param (c s mu : R) : 0 <= c <= 6 -> 5 <= s <= 85 -> 0 <= mu <= 1 ->
  ptf_ordered (ptf4 c (5 + mu * (90 - s)) s).
Proof.
  intros Hc Hs Hm. unfold ptf_ordered, ptf4. cbn [fst snd]. runfold. repeat split.
  - interval with (i_bisect c, i_bisect s, i_bisect mu, i_depth 40).
  - apply Rminus_gt_0_lt. interval with (i_bisect c, i_bisect s, i_bisect mu, i_depth 40).
  - interval with (i_bisect c, i_bisect s, i_bisect mu, i_depth 40).
Qed.

Lemma ptf4_ordered_lemma (c ton ssand : R) : ptf_domain4 c ton ssand -> ptf_ordered (ptf4 c ton ssand).
Proof.
  intros (Hc & Ht & Hs & Hd).
  destruct (triangle_param ssand ton ltac:(lra) Ht ltac:(lra)) as (mu & Hm & ->).
  apply ptf4_param; lra.
Qed.
