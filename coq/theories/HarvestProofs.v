(* HarvestProofs.v — C07 for the harvest branch: the residue inputs to the organic pools (HarvestModel, read over R).
     - both residue amounts are >= 0 for EVERY input (the two clamps), their fast / slow parts too when the crop's
       fast share is a fraction;
     - the parts add up exactly to the amounts (nothing is created by the split);
     - for annual crops the residues never exceed the crop's N: DGM + DGU <= PESUM, so the crop's N stays >= 0;
     - the pools stay >= 0 and gain exactly NSA + NUSA * sum WUANT (fast) and NLA + NULA * sum WUANT (slow). *)
From Coq Require Import ZArith Reals List Bool Lra Lia.
From Hermes Require Import Num RUtil HarvestModel.
Import ListNotations.
Local Open Scope R_scope.

Lemma clamp0_R (v : R) : 0 <= @clamp0 R RNum v /\ (0 <= v -> @clamp0 R RNum v = v) /\ (@clamp0 R RNum v = v \/ @clamp0 R RNum v = 0 /\ v < 0).
Proof.
  unfold clamp0. rsimp. destruct (RI.ltb_spec v 0); (split; [lra | split; [intros; lra |]]); [right | left]; lra.
Qed.

Lemma resid_split_nonneg (x : resid_in (T:=R)) : 0 <= fst (resid_split x) /\ 0 <= snd (resid_split x).
Proof.
  unfold resid_split.
  destruct (if ri_jn x =? zero then _ else _)%num as [dgm dgu]. cbn [fst snd].
  split; apply clamp0_R.
Qed.

(* every part is >= 0 when the fast share is a fraction; the parts add up to the amounts *)
Lemma resid_parts (x : resid_in (T:=R)) :
  let o := resid x in
  ro_nsa o + ro_nla o = fst (resid_split x) /\ ro_nusa o + ro_nula o = snd (resid_split x) /\
  ro_nresid o = fst (resid_split x) /\ ro_ndi o = 0 /\
  (0 <= ri_nfast x <= 1 -> 0 <= ro_nsa o /\ 0 <= ro_nla o /\ 0 <= ro_nusa o /\ 0 <= ro_nula o).
Proof.
  cbv zeta. unfold resid. pose proof (resid_split_nonneg x) as [H1 H2].
  destruct (resid_split x) as [dgm dgu]. cbn [fst snd] in *.
  cbn [ro_nsa ro_nla ro_nusa ro_nula ro_nresid ro_ndi]. rsimp.
  split; [lra | split; [lra | split; [reflexivity | split; [reflexivity | intros [Ha Hb]; repeat split; nra]]]].
Qed.

(* annual crops: the residues never exceed the crop's N *)
Definition annual_ok (x : resid_in (T:=R)) : Prop :=
  ri_dauer x = false /\ 0 <= ri_pesum x /\ 0 <= ri_nwura x <= 1 /\ 0 < ri_nernt x /\ 0 <= ri_kostro x * ri_nkopp x /\
  (0 <= ri_jn x <= 1 \/ ri_jn x = 2).

Lemma straw_bounds (x : resid_in (T:=R)) :
  0 <= ri_pesum x -> 0 <= ri_nwura x <= 1 -> 0 < ri_nernt x -> 0 <= ri_kostro x * ri_nkopp x -> 0 <= ri_jn x <= 1 ->
  0 <= straw_n x <= ri_pesum x * (1 - ri_nwura x).
Proof.
  intros Hp Hw Hn Hk Hj. unfold straw_n. rsimp.
  set (k := ri_kostro x * ri_nkopp x) in *. set (p := ri_pesum x) in *. set (w := ri_nwura x) in *. set (e := ri_nernt x) in *.
  assert (Hr : 0 <= e / (e + k) <= 1).
  { split.
    - apply Rmult_le_pos; [lra | left; apply Rinv_0_lt_compat; lra].
    - unfold Rdiv. replace 1 with ((e + k) * / (e + k)) by (field; lra).
      apply Rmult_le_compat_r; [left; apply Rinv_0_lt_compat; lra | lra]. }
  replace (p - p * (1 - w) * e / (e + k) - p * w) with (p * (1 - w) * (1 - e / (e + k))) by (field; lra).
  assert (H0 : 0 <= p * (1 - w)) by nra.
  assert (H1 : 0 <= p * (1 - w) * (1 - e / (e + k)) <= p * (1 - w)) by nra.
  split; nra.
Qed.

Lemma resid_le_crop_n (x : resid_in (T:=R)) :
  annual_ok x -> fst (resid_split x) + snd (resid_split x) <= ri_pesum x.
Proof.
  intros (Hd & Hp & Hw & Hn & Hk & Hj). unfold resid_split. rewrite Hd. rsimp.
  assert (Hroots : 0 <= ri_pesum x * ri_nwura x <= ri_pesum x) by nra.
  destruct (RI.eqb_spec (ri_jn x) 0) as [E0|E0].
  - cbn [fst snd]. pose proof (straw_bounds x Hp Hw Hn Hk ltac:(lra)) as HS.
    destruct (clamp0_R (straw_n x)) as (_ & C1 & _). destruct (clamp0_R (ri_pesum x * ri_nwura x)) as (_ & C2 & _).
    rewrite C1, C2 by lra. lra.
  - destruct (RI.eqb_spec (ri_jn x) 1) as [E1|E1].
    + cbn [fst snd]. destruct (clamp0_R 0) as (_ & C1 & _). destruct (clamp0_R (ri_pesum x * ri_nwura x)) as (_ & C2 & _).
      rewrite C1, C2 by lra. lra.
    + destruct (RI.eqb_spec (ri_jn x) 2) as [E2|E2].
      * cbn [fst snd]. destruct (clamp0_R (ri_pesum x - ri_pesum x * ri_nwura x)) as (_ & C1 & _).
        destruct (clamp0_R (ri_pesum x * ri_nwura x)) as (_ & C2 & _). rewrite C1, C2 by lra. lra.
      * cbn [fst snd]. destruct Hj as [Hj|Hj]; [|lra].
        pose proof (straw_bounds x Hp Hw Hn Hk Hj) as HS.
        destruct (clamp0_R (straw_n x)) as (_ & C1 & _). destruct (clamp0_R (ri_pesum x * ri_nwura x)) as (_ & C2 & _).
        rewrite C1, C2 by lra. lra.
Qed.

(* ---------------- the pools ---------------- *)
Lemma put_top_facts (v : R) (pool : list R) :
  (0 < length pool)%nat -> 0 <= v -> Forall (fun p => 0 <= p) pool ->
  Rsum (@put_top R RNum v pool) = Rsum pool + v /\ length (@put_top R RNum v pool) = length pool /\
  Forall (fun p => 0 <= p) (@put_top R RNum v pool).
Proof.
  intros L Hv HF. destruct pool as [|p pr]; [cbn in L; lia|]. cbn [put_top Rsum length]. rsimp.
  inversion HF as [|? ? H0 HF']; subst. repeat split; try lra. constructor; [lra | exact HF'].
Qed.

Lemma add_roots_facts (v : R) : forall (wuant pool : list R),
  (length wuant <= length pool)%nat -> 0 <= v -> Forall (fun w => 0 <= w) wuant -> Forall (fun p => 0 <= p) pool ->
  Rsum (@add_roots R RNum v wuant pool) = Rsum pool + v * Rsum wuant /\
  length (@add_roots R RNum v wuant pool) = length pool /\
  Forall (fun p => 0 <= p) (@add_roots R RNum v wuant pool).
Proof.
  induction wuant as [|w wr IH]; intros pool L Hv HW HP.
  - cbn [add_roots Rsum]. destruct pool; repeat split; try lra; assumption.
  - destruct pool as [|p pr]; [cbn in L; lia|]. cbn [add_roots Rsum length]. rsimp.
    inversion HW as [|? ? W0 HW']; subst. inversion HP as [|? ? P0 HP']; subst.
    destruct (IH pr ltac:(cbn in L; lia) Hv HW' HP') as (I1 & I2 & I3).
    rewrite I1, I2. repeat split; try lra. constructor; [nra | exact I3].
Qed.

Definition harvest_wf (h : harvest_in (T:=R)) : Prop :=
  (0 < length (hi_nfos h))%nat /\ (0 < length (hi_naos h))%nat /\
  (length (hi_wuant h) <= length (hi_nfos h))%nat /\ (length (hi_wuant h) <= length (hi_naos h))%nat /\
  Forall (fun w => 0 <= w) (hi_wuant h) /\ Forall (fun p => 0 <= p) (hi_nfos h) /\ Forall (fun p => 0 <= p) (hi_naos h) /\
  0 <= ri_nfast (hi_resid h) <= 1.

(* C07 at harvest: the pools stay >= 0; they gain exactly the residues (above-ground parts to the top layer, root
   parts times the summed root shares); applied fertiliser is unchanged; the split creates nothing *)
Lemma harvest_books (h : harvest_in (T:=R)) :
  harvest_wf h ->
  let o := harvest h in let r := ho_res o in
  Forall (fun p => 0 <= p) (ho_nfos o) /\ Forall (fun p => 0 <= p) (ho_naos o) /\
  Rsum (ho_nfos o) = Rsum (hi_nfos h) + ro_nsa r + ro_nusa r * Rsum (hi_wuant h) /\
  Rsum (ho_naos o) = Rsum (hi_naos h) + ro_nla r + ro_nula r * Rsum (hi_wuant h) /\
  ho_dsumm o = hi_dsumm h /\
  ho_pesum o = ri_pesum (hi_resid h) - (ro_nsa r + ro_nla r) /\
  0 <= ro_nsa r /\ 0 <= ro_nla r /\ 0 <= ro_nusa r /\ 0 <= ro_nula r /\
  length (ho_nfos o) = length (hi_nfos h) /\ length (ho_naos o) = length (hi_naos h).
Proof.
  intros (L1 & L2 & L3 & L4 & HW & HF & HA & Hf). cbv zeta. unfold harvest.
  set (r := if hi_first h then no_resid (hi_resid h) else resid (hi_resid h)).
  assert (Hr : 0 <= ro_nsa r /\ 0 <= ro_nla r /\ 0 <= ro_nusa r /\ 0 <= ro_nula r /\ ro_ndi r = 0).
  { unfold r. destruct (hi_first h).
    - cbn. rsimp. repeat split; lra.
    - pose proof (resid_parts (hi_resid h)) as (_ & _ & _ & Hd & Hn). cbv zeta in *. destruct (Hn Hf) as (A & B & C & D).
      repeat split; assumption. }
  destruct Hr as (R1 & R2 & R3 & R4 & R5).
  cbn [ho_nfos ho_naos ho_dsumm ho_pesum ho_res].
  destruct (put_top_facts (ro_nsa r) (hi_nfos h) L1 R1 HF) as (T1 & T2 & T3).
  destruct (put_top_facts (ro_nla r) (hi_naos h) L2 R2 HA) as (U1 & U2 & U3).
  destruct (add_roots_facts (ro_nusa r) (hi_wuant h) (put_top (ro_nsa r) (hi_nfos h)) ltac:(rewrite T2; exact L3) R3 HW T3) as (V1 & V2 & V3).
  destruct (add_roots_facts (ro_nula r) (hi_wuant h) (put_top (ro_nla r) (hi_naos h)) ltac:(rewrite U2; exact L4) R4 HW U3) as (X1 & X2 & X3).
  rsimp. rewrite V1, X1, T1, U1, V2, X2, T2, U2, R5.
  repeat split; try assumption; try lra.
Qed.

(* ... and for annual crops, with root shares that sum to at most 1, what the harvest hands to the soil never exceeds
   the crop's N, and the crop's N stays >= 0 *)
Lemma harvest_le_crop_n (h : harvest_in (T:=R)) :
  harvest_wf h -> hi_first h = false -> annual_ok (hi_resid h) -> Rsum (hi_wuant h) <= 1 ->
  let o := harvest h in
  (Rsum (ho_nfos o) + Rsum (ho_naos o)) - (Rsum (hi_nfos h) + Rsum (hi_naos h)) <= ri_pesum (hi_resid h) /\
  0 <= ho_pesum o.
Proof.
  intros Hwf Hfirst Han Hsum. pose proof (harvest_books h Hwf) as HB. cbv zeta in *.
  destruct HB as (_ & _ & B3 & B4 & _ & B6 & N1 & N2 & N3 & N4 & _).
  assert (Er : ho_res (harvest h) = resid (hi_resid h)) by (unfold harvest; rewrite Hfirst; reflexivity).
  rewrite Er in *.
  pose proof (resid_parts (hi_resid h)) as (P1 & P2 & _). cbv zeta in *.
  pose proof (resid_le_crop_n (hi_resid h) Han) as HL.
  pose proof (resid_split_nonneg (hi_resid h)) as [S1 S2].
  assert (HWs : 0 <= Rsum (hi_wuant h)).
  { destruct Hwf as (_ & _ & _ & _ & HW & _). clear - HW. induction HW; cbn [Rsum]; lra. }
  rewrite B3, B4, B6. split; [|lra].
  assert ((ro_nusa (resid (hi_resid h)) + ro_nula (resid (hi_resid h))) * Rsum (hi_wuant h) <= snd (resid_split (hi_resid h))) by nra.
  nra.
Qed.

(* the simulated dressing of the fertiliser prognosis never takes N out of the soil: the booked amount is >= 0 for EVERY
   input (demand, supply, water content, layer thickness, N already there), the top layer gains exactly it *)
Lemma prog_dress_nonneg (c10 dtgesn angebot wg0 dz : R) :
  let '(c1', bed) := @prog_dress R RNum c10 dtgesn angebot wg0 dz in
  0 <= bed /\ c1' = c10 + bed.
Proof.
  unfold prog_dress. rsimp.
  destruct (RI.ltb_spec angebot dtgesn) as [H|H]; [|split; lra].
  destruct (RI.ltb_spec ((c10 + (dtgesn - angebot)) / (wg0 * dz) * 10) 200) as [H2|H2]; [split; lra|].
  destruct (RI.ltb_spec (200 * wg0 * dz / 10 - c10) 0) as [H3|H3]; split; lra.
Qed.

(* non-vacuity: winter wheat row of the shipped table, residues stay, three rooted layers *)
Definition ex_resid : resid_in (T:=R) :=
  {| ri_jn := 0; ri_dauer := false; ri_aa := false; ri_pesum := 180; ri_obmas := 12000; ri_gehob := 15 / 1000;
     ri_kostro := 1; ri_nernt := 19 / 10; ri_nkopp := 1 / 2; ri_nwura := 1 / 10; ri_nfast := 0 |}.
Definition ex_harvest : harvest_in (T:=R) :=
  {| hi_resid := ex_resid; hi_first := false; hi_wuant := [5 / 10; 3 / 10; 1 / 10];
     hi_nfos := [10; 5; 2; 0]; hi_naos := [1000; 800; 500; 0]; hi_dsumm := 60 |}.
Lemma harvest_nonvacuous :
  harvest_wf ex_harvest /\ hi_first ex_harvest = false /\ annual_ok (hi_resid ex_harvest) /\ Rsum (hi_wuant ex_harvest) <= 1 /\
  0 < fst (resid_split ex_resid).
Proof.
  unfold harvest_wf, annual_ok, ex_harvest, ex_resid. cbn [hi_nfos hi_naos hi_wuant hi_resid hi_first ri_nfast ri_dauer
    ri_pesum ri_nwura ri_nernt ri_kostro ri_nkopp ri_jn length Rsum].
  repeat split; try lia; try lra; repeat (constructor; try lra).
  unfold resid_split, straw_n. cbn [ri_jn ri_dauer ri_pesum ri_nwura ri_nernt ri_kostro ri_nkopp]. rsimp.
  destruct (RI.eqb_spec 0 0) as [_|E]; [|lra]. cbn [fst].
  destruct (clamp0_R ((1 - 0) * (180 - 180 * (1 - 1 / 10) * (19 / 10) / (19 / 10 + 1 * (1 / 2)) - 180 * (1 / 10)))) as (_ & C & _).
  rewrite C; lra.
Qed.
