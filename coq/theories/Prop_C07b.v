(* Prop_C07b.v — property C07 at HARVEST: "pool plus counter changes only through inputs such as residues ..." — the
   residue inputs themselves.  Stated about HarvestModel (resid, nitro.go:842-927, and the harvest branch of Nitro,
   nitro.go:286-312), which is compared bit for bit with hermes.Nitro called on harvest days with generated
   CROP_N.TXT tables (HarvestCorr.v), read over the reals. *)
From Coq Require Import ZArith Reals List Bool Lra.
From Hermes Require Import Num RUtil HarvestModel HarvestProofs.
Local Open Scope R_scope.

(* the two residue amounts (above ground, roots) are >= 0 for EVERY input: any residue code, annual or permanent
   crop, any table row, any crop state *)
Theorem C07_residue_amounts_nonneg : forall x : resid_in (T:=R),
  0 <= fst (resid_split x) /\ 0 <= snd (resid_split x).
Proof. exact resid_split_nonneg. Qed.

(* the split into fast and slow parts creates nothing: the parts add up exactly to the amounts; the figure of the
   crop record is the above-ground amount; with a fast share in [0, 1] every part is >= 0 *)
Theorem C07_residue_parts : forall x : resid_in (T:=R),
  let o := resid x in
  ro_nsa o + ro_nla o = fst (resid_split x) /\ ro_nusa o + ro_nula o = snd (resid_split x) /\
  ro_nresid o = fst (resid_split x) /\ ro_ndi o = 0 /\
  (0 <= ri_nfast x <= 1 -> 0 <= ro_nsa o /\ 0 <= ro_nla o /\ 0 <= ro_nusa o /\ 0 <= ro_nula o).
Proof. exact resid_parts. Qed.

(* annual crops (crop N >= 0, root share in [0, 1], N content of the product > 0, residue code 2 or in [0, 1]): the
   residues never exceed the crop's N *)
Theorem C07_residues_le_crop_n : forall x : resid_in (T:=R),
  annual_ok x -> fst (resid_split x) + snd (resid_split x) <= ri_pesum x.
Proof. exact resid_le_crop_n. Qed.

(* the harvest: the pools stay >= 0 and gain exactly the residues (above-ground parts in the top layer, root parts
   times the summed root shares of the rooted layers); applied fertiliser is unchanged; the crop's N loses the
   above-ground parts.  [harvest_wf]: non-empty non-negative pools, at most as many rooted layers as pool layers,
   root shares >= 0, fast share in [0, 1]. *)
Theorem C07_harvest_books : forall h : harvest_in (T:=R),
  harvest_wf h ->
  let o := harvest h in let r := ho_res o in
  List.Forall (fun p => 0 <= p) (ho_nfos o) /\ List.Forall (fun p => 0 <= p) (ho_naos o) /\
  Rsum (ho_nfos o) = Rsum (hi_nfos h) + ro_nsa r + ro_nusa r * Rsum (hi_wuant h) /\
  Rsum (ho_naos o) = Rsum (hi_naos h) + ro_nla r + ro_nula r * Rsum (hi_wuant h) /\
  ho_dsumm o = hi_dsumm h /\
  ho_pesum o = ri_pesum (hi_resid h) - (ro_nsa r + ro_nla r) /\
  0 <= ro_nsa r /\ 0 <= ro_nla r /\ 0 <= ro_nusa r /\ 0 <= ro_nula r /\
  length (ho_nfos o) = length (hi_nfos h) /\ length (ho_naos o) = length (hi_naos h).
Proof. exact harvest_books. Qed.

(* ... and for an annual crop whose root shares sum to at most 1, what the harvest hands to the soil never exceeds the
   crop's N, and the crop's N stays >= 0 *)
Theorem C07_harvest_le_crop_n : forall h : harvest_in (T:=R),
  harvest_wf h -> hi_first h = false -> annual_ok (hi_resid h) -> Rsum (hi_wuant h) <= 1 ->
  let o := harvest h in
  (Rsum (ho_nfos o) + Rsum (ho_naos o)) - (Rsum (hi_nfos h) + Rsum (hi_naos h)) <= ri_pesum (hi_resid h) /\
  0 <= ho_pesum o.
Proof. exact harvest_le_crop_n. Qed.

(* the simulated dressing of the fertiliser prognosis (dung.go, fertiliser demand not covered by the supply, capped at
   200 mg N/l in the top layer): the booked amount is >= 0 and the top layer gains exactly it, for EVERY input — the
   dressing never takes mineral N out of the soil and never books a negative fertiliser amount *)
Theorem C07_prognosis_dressing_nonneg : forall c10 dtgesn angebot wg0 dz : R,
  let '(c1', bed) := @prog_dress R RNum c10 dtgesn angebot wg0 dz in
  0 <= bed /\ c1' = c10 + bed.
Proof. exact prog_dress_nonneg. Qed.

(* non-vacuity: the winter-wheat row of the shipped table, residues stay, three rooted layers: every hypothesis
   holds and the above-ground residue is positive *)
Example C07_harvest_nonvacuous :
  harvest_wf ex_harvest /\ hi_first ex_harvest = false /\ annual_ok (hi_resid ex_harvest) /\
  Rsum (hi_wuant ex_harvest) <= 1 /\ 0 < fst (resid_split ex_resid).
Proof. exact harvest_nonvacuous. Qed.

Print Assumptions C07_residue_amounts_nonneg.
Print Assumptions C07_residue_parts.
Print Assumptions C07_residues_le_crop_n.
Print Assumptions C07_harvest_books.
Print Assumptions C07_harvest_le_crop_n.
Print Assumptions C07_prognosis_dressing_nonneg.
