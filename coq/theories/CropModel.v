(* CropModel.v — executable models of the decision / clamp logic inside hermes.PhytoOut
   (hermes/crop.go:27-764), written once over the numeric interface [Num]: run on binary64 for the
   bit-exact correspondence with traced PhytoOut transitions, read over R by the theorems.  No proofs.

   PhytoOut is one long function; what is modelled are five fragments:
     1. development stage  (crop.go:130-137, 150-158, 287-289)
     2. N stress factor REDUK from the N content  (crop.go:423-440)
     3. organ growth / death with the floors, LAI, assimilate pool, biomass sums  (crop.go:206-208, 452-520)
     4. rooting depth with the soil limit  (crop.go:572-606)
     5. N-uptake demand and per-layer uptake with their clamps, N fixation  (crop.go:542-562, 653-738)
   Everything computed by code that is NOT modelled enters as an explicit ORACLE argument (never an
   axiom): the photosynthesis result GTW = GPHOT + ASPOO and the maintenance terms MAINT*MANT[i]*0.7 of
   radia(), the vernalisation / day-length factors FV, FP, the stress acceleration devprog, the value of
   math.Exp in REDUK, Qrez of root(), maxup, and the mass-flow / diffusion supplies MASS[i], DIFF[i].
   Arrays are lists; SUM/TSUM/BAS/DEV/dates have 10 entries, organ arrays 5.
   Operation order inside every expression follows the Go source (it matters at binary64). *)
From Coq Require Import ZArith List Bool.
From Hermes Require Import Num.
Import ListNotations.
Local Open Scope num_scope.

Section Crop.
  Context {T : Type} {NT : Num T}.

  Definition cg (l : list T) (i : nat) : T := get zero l i.

  (* ------------------------------------------------------------------ *)
  (* 1. development stage                                                 *)

  Record stage_st := { st_k : nat;            (* INTWICK.Index *)
                       st_sum : list T;       (* SUM *)
                       st_dev : list Z;       (* DEV: day of year a stage was reached *)
                       st_dates : list Z;     (* ZEIT a stage was reached (DevStateDate); [0] = sowing *)
                       st_phyllo : T }.

  Record stage_in := { si_tsum : list T; si_bas : list T; si_nrentw : Z; si_doy : Z; si_zeit : Z;
                       si_temp : T; si_wg00 : T; si_w0 : T; si_wmin0 : T; si_dt : T;
                       si_fv : T; si_fp : T; si_devprog : T (* oracles *) }.

  (* crop.go:130-137: temperature sum of the emergence stage, reduced when the top layer is dry *)
  Definition emerge_sum (x : stage_in) (k : nat) (sum : list T) : list T :=
    if Nat.eqb k 0 then
      if gtb (si_temp x) (cg (si_bas x) 0) then
        let lim := dec 3 1 * (si_w0 x - si_wmin0 x) + si_wmin0 x in
        if gtb (si_wg00 x) lim then
          upd sum 0 (cg sum 0 + (si_temp x - cg (si_bas x) 0) * si_dt x)
        else
          upd sum 0 (cg sum 0 + (si_temp x - cg (si_bas x) 0) * (si_wg00 x / lim) * si_dt x)
      else sum
    else sum.

  (* crop.go:150: the growth block runs once the emergence sum is reached *)
  Definition grown (sum tsum : list T) : bool := geb (cg sum 0) (cg tsum 0).

  (* crop.go:151-158: advance by at most one stage, carrying the surplus over *)
  Definition stage_advance (x : stage_in) (s : stage_st) : stage_st :=
    let k := st_k s in
    if grown (st_sum s) (si_tsum x) && geb (cg (st_sum s) k) (cg (si_tsum x) k)
       && (Z.of_nat k + 1 <? si_nrentw x)%Z then
      {| st_k := S k;
         st_sum := upd (st_sum s) (S k) (cg (st_sum s) k - cg (si_tsum x) k);
         st_dev := upd (st_dev s) (S k) (si_doy x);
         st_dates := upd (st_dates s) (S k) (si_zeit x);
         st_phyllo := st_phyllo s |}
    else s.

  (* crop.go:287-289: the day's effective temperature increment *)
  Definition stage_inc (x : stage_in) (s : stage_st) : stage_st :=
    let k := st_k s in
    if grown (st_sum s) (si_tsum x) && geb (si_temp x) (cg (si_bas x) k) then
      let inc := (si_temp x - cg (si_bas x) k) * si_fv x * si_fp x * si_devprog x * si_dt x in
      {| st_k := k; st_sum := upd (st_sum s) k (cg (st_sum s) k + inc); st_dev := st_dev s;
         st_dates := st_dates s; st_phyllo := st_phyllo s + inc |}
    else s.

  Definition stage_step (x : stage_in) (s : stage_st) : stage_st :=
    let s1 := {| st_k := st_k s; st_sum := emerge_sum x (st_k s) (st_sum s); st_dev := st_dev s;
                 st_dates := st_dates s; st_phyllo := st_phyllo s |} in
    stage_inc x (stage_advance x s1).

  (* the days of one crop cycle, in order *)
  Fixpoint stage_run (xs : list stage_in) (s : stage_st) : stage_st :=
    match xs with
    | [] => s
    | x :: r => stage_run r (stage_step x s)
    end.

  (* ------------------------------------------------------------------ *)
  (* 2. N stress factor (crop.go:423-440); [e] = math.Exp(reduk_arg)      *)

  Definition reduk_minin (ngefkt1 : bool) : T := if ngefkt1 then dec 5 3 else dec 4 3.

  Definition reduk_arg (gehob gehmin minin : T) : T :=
    let aux := (gehob - minin) / (gehmin - minin) in
    one + one / (aux - one).

  Definition reduk_of (gehob gehmin : T) (ngefkt1 : bool) (e : T) : T :=
    if gehob <? gehmin then
      if gehob <=? reduk_minin ngefkt1 then zero
      else (one - e) * (one - e)                 (* math.Pow(1-e, 2) *)
    else one.

  (* ------------------------------------------------------------------ *)
  (* 3. organs                                                            *)

  Record organ_in := { oi_nrkom : nat; oi_last : bool (* INTWICK.Num >= NRENTW *);
                       oi_sumk : T; oi_tsumk : T; oi_gtw : T; oi_mterm : list T; oi_reduk : T;
                       oi_pro_lo : list T; oi_pro_hi : list T; oi_dead_lo : list T; oi_dead_hi : list T;
                       oi_dt : T; oi_laifkt_lo : T; oi_laifkt_hi : T; oi_laifkt0 : T; oi_gehalt : T }.

  Record organ_st := { os_worg : list T; os_gorg : list T; os_dgorg : list T; os_wdorg : list T;
                       os_lai : T; os_pesum : T }.

  (* crop.go:206-208 *)
  Definition lai_floor (lai : T) : T := if lai <=? zero then dec 1 3 else lai.

  (* crop.go:453-459 *)
  Definition organ_rates (x : organ_in) (s : organ_st) (i : nat) : T * T :=
    if gtb (oi_sumk x / oi_tsumk x) one then (zero, cg (os_dgorg s) i)
    else
      (oi_gtw x * dec 7 1 * (cg (oi_pro_lo x) i + (cg (oi_pro_hi x) i - cg (oi_pro_lo x) i) * oi_sumk x / oi_tsumk x) * oi_reduk x
         - cg (oi_mterm x) i,
       cg (os_worg s) i * (cg (oi_dead_lo x) i + (cg (oi_dead_hi x) i - cg (oi_dead_lo x) i) * minv one (oi_sumk x / oi_tsumk x))).

  (* crop.go:463-480: new mass and (possibly corrected) death rate of organ i *)
  Definition organ_mass (x : organ_in) (s : organ_st) (i : nat) (gorg dgorg : T) : T * T :=
    let w := cg (os_worg s) i in
    let dt := oi_dt x in
    if Nat.ltb i 3 then
      if gtb (w + (gorg - dgorg) * dt) (dec 1 13) then (w + gorg * dt - dgorg * dt, dgorg)
      else (dec 1 1, w / dt + gorg)
    else
      let d := os_dgorg s in
      let w1 := if oi_last x then w + gorg * dt - dgorg * dt
                else w + gorg * dt - dgorg * dt
                     + dec 3 1 * (cg d (i - 1) * dt + cg d (i - 2) * dt + cg d (i - 3) * dt) in
      if w1 <? zero then (zero, dgorg + w1 / dt) else (w1, dgorg).

  Definition organ_step (x : organ_in) (s : organ_st) (i : nat) : organ_st :=
    let '(gorg, dgorg0) := organ_rates x s i in
    let '(w', dgorg) := organ_mass x s i gorg dgorg0 in
    let dt := oi_dt x in
    let lai' :=
      if Nat.eqb i 1 then
        let l1 := os_lai s + gorg * (oi_laifkt_lo x + (oi_sumk x / oi_tsumk x * (oi_laifkt_hi x - oi_laifkt_lo x))) * dt
                  - dgorg * oi_laifkt0 x * dt in
        if l1 <? zero then zero else l1
      else os_lai s in
    let pesum' :=
      if Nat.eqb i 0 then os_pesum s
      else if Nat.ltb i 3 then os_pesum s - dec 7 1 * dgorg * oi_gehalt x * dt
      else os_pesum s in
    let wd0 := cg (os_wdorg s) i + dgorg * dt in
    let wd := if (w' - wd0) <=? zero then w' - dec 1 3 else wd0 in
    {| os_worg := upd (os_worg s) i w'; os_gorg := upd (os_gorg s) i gorg; os_dgorg := upd (os_dgorg s) i dgorg;
       os_wdorg := upd (os_wdorg s) i wd; os_lai := lai'; os_pesum := pesum' |}.

  Definition organs_day (x : organ_in) (s : organ_st) : organ_st :=
    fold_left (organ_step x) (seq 0 (oi_nrkom x))
      {| os_worg := os_worg s; os_gorg := os_gorg s; os_dgorg := os_dgorg s; os_wdorg := os_wdorg s;
         os_lai := lai_floor (os_lai s); os_pesum := os_pesum s |}.

  (* crop.go:227, 505: the assimilate pool keeps what N stress did not let the organs use *)
  Definition aspoo_of (gtw reduk : T) : T := zero + gtw * (one - reduk).

  (* crop.go:512-520 *)
  Definition obmas_of (worg : list T) (above : list nat) : T :=
    fold_left (fun a komp => a + cg worg (komp - 1)) above zero.

  (* ------------------------------------------------------------------ *)
  (* 4. rooting depth (crop.go:572-606); [qrez] is the oracle value of root() *)

  Definition root_limit_of (wurzmax n : Z) (wumaxpf : T) : T :=
    let w0 := roundv (ofZ wurzmax * (wumaxpf / ofZ 11)) in
    let w1 := if gtb w0 (ofZ n) then ofZ n else w0 in
    if w1 <? one then one else w1.

  Definition root_depth (wurzmax n : Z) (wumaxpf qrez dz : T) : Z :=
    let wurm := root_limit_of wurzmax n wumaxpf in
    let q1 := if gtb qrez (dec 35 2) then dec 35 2 else qrez in
    let lim := dec 45 1 / (wurm * dz) in
    let q2 := if q1 <? lim then lim else q1 in
    truncZ (dec 45 1 / q2 / dz).

  (* ------------------------------------------------------------------ *)
  (* 5. N uptake                                                          *)

  (* crop.go:542-546 *)
  Definition demand_raw (grown_ zrk : bool) (gehmax obmas wumas worg3 wgmax pesum dt : T) : T :=
    if grown_ then
      if zrk then (gehmax * obmas + (wumas + worg3) * wgmax - pesum) * dt
      else (gehmax * obmas + wumas * wgmax - pesum) * dt
    else zero.

  (* crop.go:557-562: at most 6 kg N/ha per day, never negative *)
  Definition demand_cap (d dt : T) : T :=
    let d1 := if gtb d (ofZ 6 * dt) then ofZ 6 * dt else d in
    if d1 <? zero then zero else d1.

  (* crop.go:653-657 *)
  Definition root_length (wudich : list T) (dz : T) : T := fold_left (fun a x => a + x * dz) wudich zero.

  (* crop.go:683-687: uptake capacity of the root system (not for legumes) *)
  Definition demand_rootcap (d wulaen maxup dt : T) (legum : bool) : T :=
    if gtb d (wulaen * maxup * dt) then (if legum then d else wulaen * maxup * dt) else d.

  (* crop.go:707-727 *)
  Definition pe_layer (d trnsum sumdiff mass diff c1 : T) : T :=
    if gtb d zero then
      let p := if geb trnsum d then d * mass / trnsum
               else if (d - trnsum) <? sumdiff then mass + (d - trnsum) * diff / sumdiff
               else mass + diff in
      let p1 := if gtb p (c1 - dec 75 2) then c1 - dec 75 2 else p in
      if p1 <? zero then zero else p1
    else zero.

  Fixpoint pe_layers (d trnsum sumdiff : T) (mass diff c1 : list T) : list T :=
    match mass, diff, c1 with
    | m :: mr, df :: dr, c :: cr => pe_layer d trnsum sumdiff m df c :: pe_layers d trnsum sumdiff mr dr cr
    | _, _, _ => []
    end.

  (* crop.go:730-738 *)
  Definition nfix_of (legum : bool) (d sumpe : T) : T :=
    if legum then
      if gtb (d - sumpe) (dec 74 2 * d) then dec 74 2 * d else d - sumpe
    else zero.

  Record uptake_in := { ui_grown : bool; ui_zrk : bool; ui_legum : bool;
                        ui_gehmax : T; ui_obmas : T; ui_wumas : T; ui_worg3 : T; ui_wgmax : T; ui_pesum : T;
                        ui_dt : T; ui_dz : T; ui_wudich : list T; ui_maxup : T;
                        ui_wurz : Z; ui_grw : T;
                        ui_mass : list T; ui_diff : list T; ui_c1 : list T }.

  Definition uptake_demand (x : uptake_in) : T :=
    let d0 := demand_raw (ui_grown x) (ui_zrk x) (ui_gehmax x) (ui_obmas x) (ui_wumas x) (ui_worg3 x)
                         (ui_wgmax x) (ui_pesum x) (ui_dt x) in
    demand_rootcap (demand_cap d0 (ui_dt x)) (root_length (ui_wudich x) (ui_dz x)) (ui_maxup x) (ui_dt x) (ui_legum x).

  (* number of layers taken up from: int(math.Min(float64(WURZ), GRW)) *)
  Definition uptake_layers (x : uptake_in) : Z := truncZ (minv (ofZ (ui_wurz x)) (ui_grw x)).

  Definition uptake_day (x : uptake_in) : list T * T :=
    let d := uptake_demand x in
    let trnsum := sum_list (firstn 10 (ui_mass x)) in
    let sumdiff := sum_list (firstn 10 (ui_diff x)) in
    let pe := pe_layers d trnsum sumdiff (ui_mass x) (ui_diff x) (ui_c1 x) in
    (pe, nfix_of (ui_legum x) d (sum_list pe)).
End Crop.
