(* GwProofs.v — property C20: the groundwater level of a day follows the supplied series (exact hit,
   linear interpolation between neighbours, nearest value outside, error on an empty series) or the
   sinusoid between the two polygon-file levels.  The search is integer/decision code (proved for any
   numeric type where possible); the interpolation bound is over the reals. *)
From Coq Require Import ZArith Reals List Bool Lra Lia Psatz Sorted.
From Hermes Require Import Num RUtil GwModel.
Import ListNotations.

Section Generic.
  Context {T : Type} {NT : Num T}.

  Definition dates (s : list (Z * T)) : list Z := map fst s.
  (* strictly ascending dates, all positive (date 0 is the code's "not found" marker) *)
  Definition ascending (s : list (Z * T)) : Prop :=
    StronglySorted Z.lt (dates s) /\ Forall (fun d => (0 < d)%Z) (dates s).

  Lemma lookup_none s d : ~ In d (dates s) -> lookup s d = None.
  Proof.
    induction s as [|[d' v] r IH]; intros H; cbn [lookup]; [reflexivity|].
    cbn [dates map fst In] in H. rewrite IH by tauto.
    destruct (Z.eqb_spec d' d); [tauto | reflexivity].
  Qed.

  Lemma lookup_sorted s d v : StronglySorted Z.lt (dates s) -> In (d, v) s -> lookup s d = Some v.
  Proof.
    induction s as [|[d' v'] r IH]; intros Hs Hin; [destruct Hin|].
    cbn [dates map fst] in Hs. apply StronglySorted_inv in Hs. destruct Hs as [Hr Hall].
    cbn [lookup]. destruct Hin as [E | Hin].
    - inversion E; subst. rewrite lookup_none.
      + rewrite Z.eqb_refl. reflexivity.
      + intros Hi. rewrite Forall_forall in Hall. specialize (Hall _ Hi). lia.
    - rewrite (IH Hr Hin). reflexivity.
  Qed.

  Lemma last_default_irrelevant (l : list Z) a b : l <> [] -> last l a = last l b.
  Proof.
    induction l as [|x l IH]; [congruence|]. intros _. destruct l as [|y l]; [reflexivity|].
    change (last (y :: l) a = last (y :: l) b). apply IH. discriminate.
  Qed.

  Lemma search_app_lt date : forall l1 l2 p, Forall (fun d => (d < date)%Z) l1 ->
    search (l1 ++ l2) date p = search l2 date (last l1 p).
  Proof.
    induction l1 as [|d l1 IH]; intros l2 p H; [reflexivity|].
    inversion H; subst. cbn [app search]. destruct (Z.ltb_spec d date); [|lia].
    rewrite IH by assumption. f_equal. destruct l1 as [|z l1]; [reflexivity|].
    change (last (z :: l1) d = last (z :: l1) p). apply last_default_irrelevant. discriminate.
  Qed.

  Lemma sorted_app_inv (l1 : list Z) x l2 : StronglySorted Z.lt (l1 ++ x :: l2) ->
    Forall (fun d => (d < x)%Z) l1 /\ Forall (fun d => (x < d)%Z) l2 /\ StronglySorted Z.lt l2.
  Proof.
    induction l1 as [|y l1 IH]; cbn [app]; intros H; apply StronglySorted_inv in H; destruct H as [Hs Hall].
    - repeat split; auto.
    - destruct (IH Hs) as (H1 & H2 & H3). repeat split; auto. constructor; auto.
      rewrite Forall_forall in Hall. apply Hall. apply in_or_app. right. left. reflexivity.
  Qed.

  Lemma value_of_sorted s d v : StronglySorted Z.lt (dates s) -> In (d, v) s -> value_of s d = v.
  Proof. intros Hs Hin. unfold value_of. rewrite (lookup_sorted s d v Hs Hin). reflexivity. Qed.

  (* ---- exact hit ---- *)
  Lemma gw_hit_lemma : forall s d v, StronglySorted Z.lt (dates s) -> In (d, v) s -> level s d = Some v.
  Proof. intros s d v Hs Hin. unfold level. rewrite (lookup_sorted s d v Hs Hin). reflexivity. Qed.

  (* with duplicate dates the LAST record of that date is used (the Go map was overwritten) *)
  Lemma gw_hit_last_lemma : forall s1 s2 d v, ~ In d (dates s2) -> level (s1 ++ (d, v) :: s2) d = Some v.
  Proof.
    intros s1 s2 d v Hn. unfold level.
    assert (E : lookup (s1 ++ (d, v) :: s2) d = Some v).
    { induction s1 as [|[d' v'] s1 IH]; cbn [app lookup].
      - rewrite lookup_none by assumption. rewrite Z.eqb_refl. reflexivity.
      - rewrite IH. reflexivity. }
    rewrite E. reflexivity.
  Qed.

  (* ---- the search between two neighbours: the interpolation formula ---- *)
  Lemma gw_between_formula : forall s1 s2 a va b vb d,
    let s := s1 ++ (a, va) :: (b, vb) :: s2 in
    ascending s -> (a < d < b)%Z ->
    level s d = Some ((vb - va) / ofZ (b - a) * ofZ (d - a) + va)%num.
  Proof.
    intros s1 s2 a va b vb d s [Hs Hpos] Hd. subst s. unfold level.
    assert (Hdates : dates (s1 ++ (a, va) :: (b, vb) :: s2) = dates s1 ++ a :: b :: dates s2)
      by (unfold dates; rewrite map_app; reflexivity).
    rewrite Hdates in Hs, Hpos.
    destruct (sorted_app_inv _ _ _ Hs) as (H1 & H2 & H3).
    apply StronglySorted_inv in H3. destruct H3 as [_ H3].
    assert (Hnot : ~ In d (dates (s1 ++ (a, va) :: (b, vb) :: s2))).
    { rewrite Hdates. intros Hi. apply in_app_or in Hi. rewrite Forall_forall in H1, H3.
      destruct Hi as [Hi | [Hi | [Hi | Hi]]]; try lia.
      - specialize (H1 _ Hi). lia.
      - specialize (H3 _ Hi). lia. }
    rewrite (lookup_none _ _ Hnot).
    fold (dates (s1 ++ (a, va) :: (b, vb) :: s2)). rewrite Hdates.
    rewrite search_app_lt by (eapply Forall_impl; [|exact H1]; cbn beta; intros; lia).
    cbn [search]. destruct (Z.ltb_spec a d); [|lia]. destruct (Z.ltb_spec b d); [lia|].
    destruct (Z.ltb_spec d b); [|lia].
    assert (Ha0 : (0 < a)%Z) by (rewrite Forall_forall in Hpos; apply Hpos; apply in_or_app; right; left; reflexivity).
    destruct (Z.eqb_spec a 0); [lia|]. destruct (Z.eqb_spec b 0); [lia|]. cbn [andb].
    assert (Hs' : StronglySorted Z.lt (dates (s1 ++ (a, va) :: (b, vb) :: s2))) by (rewrite Hdates; exact Hs).
    rewrite (value_of_sorted _ a va Hs') by (apply in_or_app; right; left; reflexivity).
    rewrite (value_of_sorted _ b vb Hs') by (apply in_or_app; right; right; left; reflexivity).
    reflexivity.
  Qed.

  (* ---- outside the covered span ---- *)
  Lemma gw_before_lemma : forall a va s2 d,
    let s := (a, va) :: s2 in ascending s -> (d < a)%Z -> level s d = Some va.
  Proof.
    intros a va s2 d s [Hs Hpos] Hd. subst s. unfold level.
    cbn [dates map fst] in Hs, Hpos.
    pose proof (StronglySorted_inv Hs) as [_ Hall].
    rewrite lookup_none.
    2:{ cbn [dates map fst In]. intros [E | Hi]; [lia|]. rewrite Forall_forall in Hall. specialize (Hall _ Hi). lia. }
    cbn [map fst search]. destruct (Z.ltb_spec a d); [lia|]. destruct (Z.ltb_spec d a); [|lia].
    assert (Ha0 : (0 < a)%Z) by (inversion Hpos; assumption).
    cbn [Z.eqb andb]. destruct (Z.eqb_spec a 0); [lia|].
    rewrite (value_of_sorted _ a va) by (auto; left; reflexivity). reflexivity.
  Qed.

  Lemma gw_after_lemma : forall s1 b vb d,
    let s := s1 ++ [(b, vb)] in ascending s -> (b < d)%Z -> level s d = Some vb.
  Proof.
    intros s1 b vb d s [Hs Hpos] Hd. subst s. unfold level.
    assert (Hdates : dates (s1 ++ [(b, vb)]) = dates s1 ++ [b]) by (unfold dates; rewrite map_app; reflexivity).
    rewrite Hdates in Hs, Hpos.
    destruct (sorted_app_inv _ _ _ Hs) as (H1 & _ & _).
    rewrite lookup_none.
    2:{ rewrite Hdates. intros Hi. apply in_app_or in Hi. rewrite Forall_forall in H1.
        destruct Hi as [Hi | [Hi | []]]; [specialize (H1 _ Hi)|]; lia. }
    fold (dates (s1 ++ [(b, vb)])). rewrite Hdates.
    replace (dates s1 ++ [b]) with ((dates s1 ++ [b]) ++ []) by apply app_nil_r.
    rewrite search_app_lt.
    2:{ apply Forall_app; split; [eapply Forall_impl; [|exact H1]; cbn beta; intros; lia | constructor; auto]. }
    rewrite last_last. cbn [search].
    assert (Hb0 : (0 < b)%Z) by (rewrite Forall_forall in Hpos; apply Hpos; apply in_or_app; right; left; reflexivity).
    destruct (Z.eqb_spec b 0); [lia|]. cbn [andb Z.eqb].
    assert (Hs' : StronglySorted Z.lt (dates (s1 ++ [(b, vb)]))) by (rewrite Hdates; exact Hs).
    rewrite (value_of_sorted _ b vb Hs') by (apply in_or_app; right; left; reflexivity). reflexivity.
  Qed.

  Lemma gw_empty_lemma : forall d, level (@nil (Z * T)) d = None.
  Proof. reflexivity. Qed.

  Lemma lookup_in_not_none s d : In d (dates s) -> lookup s d <> None.
  Proof.
    induction s as [|[d' v] r IH]; intros Hi; [destruct Hi|]. cbn [lookup].
    destruct (lookup r d) eqn:E; [discriminate|].
    destruct (Z.eqb_spec d' d); [discriminate|].
    cbn [dates map fst In] in Hi. destruct Hi as [Hi | Hi]; [congruence|]. exfalso. apply (IH Hi). reflexivity.
  Qed.

  (* an error is returned only for the empty series (positive dates) *)
  Lemma gw_no_error_lemma : forall s d, s <> [] -> Forall (fun x => (0 < x)%Z) (dates s) -> level s d <> None.
  Proof.
    intros s d Hne Hpos. unfold level. destruct (lookup s d) eqn:El; [discriminate|].
    assert (Hnot : ~ In d (dates s)) by (intros Hi; apply (lookup_in_not_none s d Hi); exact El).
    assert (G : forall l p, Forall (fun x => (0 < x)%Z) l -> ~ In d l -> (l <> [] \/ 0 < p)%Z ->
                  (0 < fst (search l d p) \/ 0 < snd (search l d p))%Z).
    { induction l as [|x l IH]; intros p Hl Hn Hor; cbn [search].
      - cbn [fst snd]. destruct Hor as [Hor | Hor]; [congruence | lia].
      - inversion Hl; subst. cbn [In] in Hn. destruct (Z.ltb_spec x d).
        + apply IH; [assumption | tauto | right; lia].
        + destruct (Z.ltb_spec d x); [cbn [fst snd]; lia|]. exfalso. apply Hn. left. lia. }
    assert (Hor : (map fst s <> [] \/ 0 < 0)%Z) by (left; destruct s; [congruence | discriminate]).
    specialize (G (map fst s) 0%Z Hpos Hnot Hor).
    destruct (search (map fst s) d 0) as [p n]. cbn [fst snd] in G.
    destruct (Z.eqb_spec p 0), (Z.eqb_spec n 0); cbn [andb]; try discriminate. lia.
  Qed.

  (* ---- the day loop: run.go:362-371 ---- *)
  Lemma gw_daily_lemma : forall grw gw ampl s series zeit,
    gw_day GWTimeSeries grw gw ampl s series zeit = level series zeit /\
    gw_day Polygonfile grw gw ampl s series zeit = Some (gw_sinus gw ampl s) /\
    gw_day Soilfile grw gw ampl s series zeit = Some grw.
  Proof. intros. repeat split. Qed.

  (* ---- the reader keeps every row of the id, in order ---- *)
  Lemma gw_read_spec : forall (rows : list (Z * Z * T)) id,
    gw_read rows id = map (fun r => (snd (fst r), snd r)) (filter (fun r => Z.eqb (fst (fst r)) id) rows).
  Proof.
    induction rows as [|[[i d] v] r IH]; intros id; cbn [gw_read filter map fst snd]; [reflexivity|].
    destruct (Z.eqb i id); cbn [map fst snd]; rewrite IH; reflexivity.
  Qed.

  Lemma gw_read_keeps_lemma : forall (rows : list (Z * Z * T)) id d v,
    In (id, d, v) rows -> In (d, v) (gw_read rows id).
  Proof.
    intros rows id d v H. rewrite gw_read_spec. apply in_map_iff. exists (id, d, v). split; [reflexivity|].
    apply filter_In. split; [exact H|]. cbn. apply Z.eqb_refl.
  Qed.

  (* hence: a date given in the file (ascending rows of that id) has exactly the level given for it *)
  Lemma gw_file_hit_lemma : forall (rows : list (Z * Z * T)) id d v,
    StronglySorted Z.lt (dates (gw_read rows id)) -> In (id, d, v) rows -> level (gw_read rows id) d = Some v.
  Proof. intros. apply gw_hit_lemma; [assumption | apply gw_read_keeps_lemma; assumption]. Qed.

  (* the phase the sinusoid uses is the configured one *)
  Lemma gw_phase_lemma : forall (p : Z) (tag : T), sin_arg tag (gw_phase_of_config p) = sin_arg tag p.
  Proof. reflexivity. Qed.
End Generic.

(* ------------------------------------------------------------------ *)
(* over the reals                                                       *)
Local Open Scope R_scope.

Lemma interp_between (va vb : R) (a b d : Z) : (a < d < b)%Z ->
  Rmin va vb <= (vb - va) / IZR (b - a) * IZR (d - a) + va <= Rmax va vb.
Proof.
  intros Hd.
  assert (Hba : 0 < IZR (b - a)) by (apply IZR_lt; lia).
  set (t := IZR (d - a) / IZR (b - a)).
  assert (Ht : 0 <= t <= 1).
  { unfold t. split.
    - apply Rmult_le_pos; [apply IZR_le; lia | left; apply Rinv_0_lt_compat; auto].
    - apply Rmult_le_reg_r with (IZR (b - a)); auto. unfold Rdiv. rewrite Rmult_assoc, Rinv_l by lra.
      rewrite Rmult_1_r, Rmult_1_l. apply IZR_le. lia. }
  replace ((vb - va) / IZR (b - a) * IZR (d - a) + va) with ((1 - t) * va + t * vb) by (unfold t; field; lra).
  pose proof (Rmin_l va vb). pose proof (Rmin_r va vb). pose proof (Rmax_l va vb). pose proof (Rmax_r va vb).
  split; nra.
Qed.

Lemma gw_between_lemma : forall (s1 s2 : list (Z * R)) a va b vb d,
  let s := s1 ++ (a, va) :: (b, vb) :: s2 in
  ascending s -> (a < d < b)%Z ->
  exists v, level s d = Some v /\ v = (vb - va) / IZR (b - a) * IZR (d - a) + va /\ Rmin va vb <= v <= Rmax va vb.
Proof.
  intros s1 s2 a va b vb d s Hs Hd. eexists. split; [apply gw_between_formula; auto|].
  rsimp. split; [reflexivity | apply interp_between; auto].
Qed.

(* the polygon-file sinusoid: the only fact used about s = math.Sin(..) is |s| <= 1 *)
Lemma gw_sin_lemma : forall (grlo grhi : Z) (s : R), -1 <= s <= 1 ->
  let lo := IZR grlo in let hi := IZR grhi in
  let grw := @gw_sinus R RNum (gw_mean grlo grhi) (gw_ampl grlo grhi) s in
  Rmin lo hi <= grw <= Rmax lo hi /\ (s = 0 -> grw = (lo + hi) / 2).
Proof.
  intros grlo grhi s Hs lo hi grw. subst grw. unfold gw_sinus, gw_mean, gw_ampl. rsimp.
  rewrite plus_IZR, minus_IZR. fold lo hi.
  pose proof (Rmin_l lo hi). pose proof (Rmin_r lo hi). pose proof (Rmax_l lo hi). pose proof (Rmax_r lo hi).
  assert (Rmin lo hi = lo \/ Rmin lo hi = hi) by (unfold Rmin; destruct (Rle_dec lo hi); auto).
  assert (Rmax lo hi = lo \/ Rmax lo hi = hi) by (unfold Rmax; destruct (Rle_dec lo hi); auto).
  split; [|intros ->; lra].
  split; nra.
Qed.
