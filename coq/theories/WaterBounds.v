(* WaterBounds.v — C06 lemmas: per-layer upper and lower bounds of the Water kernel model over R. *)
From Coq Require Import ZArith Reals List Bool Lia Lra Floats.
From Hermes Require Import Num RUtil WaterModel WaterProofs.
Import ListNotations.
Local Open Scope R_scope.

Lemma Forall2_get {A B} (P : A -> B -> Prop) (da : A) (db : B) l1 l2 :
  Forall2 P l1 l2 -> forall i, (i < length l1)%nat -> P (nth i l1 da) (nth i l2 db).
Proof.
  induction 1 as [|a b l1 l2 Hab H IH]; intros i Hi; [cbn in Hi; lia|].
  destruct i as [|i]; cbn; [exact Hab | apply IH; cbn in Hi; lia].
Qed.

Lemma Forall2_weaken {A B} (P Q : A -> B -> Prop) l1 l2 :
  (forall a b, P a b -> Q a b) -> Forall2 P l1 l2 -> Forall2 Q l1 l2.
Proof. intros H; induction 1; constructor; auto. Qed.

Lemma Forall2_length' {A B} (P : A -> B -> Prop) l1 l2 : Forall2 P l1 l2 -> length l1 = length l2.
Proof. induction 1; cbn; congruence. Qed.

(* ---------------- upper bound: after the cascade no layer exceeds W*DZ ---------------- *)
Lemma cascade_upper ls : forall carry hc q1s,
  length q1s = length ls ->
  Forall2 (fun w1' (p : R * R) => w1' <= snd p * 10) (fst (@cascade R RNum carry hc ls q1s)) ls.
Proof.
  induction ls as [|[w1 w] rest IH]; intros carry hc q1s Hlen.
  - destruct q1s; cbn; constructor.
  - destruct q1s as [|q qrest]; [cbn in Hlen; lia|].
    cbn -[Rsum last length].
    set (w1c := if hc then w1 + carry else w1).
    destruct (RI.ltb_spec w (w1c / 10)) as [Hov|Hno].
    + specialize (IH (w1c - w * 10) true qrest ltac:(cbn in Hlen; lia)).
      destruct (cascade (w1c - w * 10) true rest qrest) as [ws qs]. cbn [fst snd] in *.
      constructor; [cbn; lra | exact IH].
    + specialize (IH 0 false qrest ltac:(cbn in Hlen; lia)).
      destruct (cascade 0 false rest qrest) as [ws qs]. cbn [fst snd] in *.
      constructor; [cbn; lra | exact IH].
Qed.

(* ---------------- lower bounds, phase by phase ---------------- *)
(* [lims]: a per-layer floor with  lim <= W*DZ *)

Lemma map_fst_ge (ls : list (R * R)) lims :
  Forall2 (fun (p : R * R) lim => lim <= fst p) ls lims -> Forall2 (fun w1 lim => lim <= w1) (map fst ls) lims.
Proof. induction 1; cbn; constructor; auto. Qed.

Lemma infil_lower draidep draifak ls : forall lims k1 a qd,
  0 <= a -> 0 <= draifak <= 1 ->
  Forall2 (fun (p : R * R) lim => lim <= fst p /\ lim <= snd p * 10) ls lims ->
  Forall2 (fun w1 lim => lim <= w1) (fst (fst (@infil R RNum draidep draifak k1 a qd ls))) lims.
Proof.
  induction ls as [|[w0 w] rest IH]; intros lims k1 a qd Ha Hf HF; inversion HF as [|p lim ls' lims' [H1 H2] HF' E1 E2]; subst.
  - cbn. constructor.
  - cbn -[Rsum last length]. cbn [fst snd] in *.
    destruct (RI.ltb_spec (a + w0 - w * 10) 0) as [Hneg|Hpos].
    + cbn [fst]. constructor; [lra|]. apply map_fst_ge.
      eapply Forall2_weaken; [|exact HF']. intros [x y] l [Hx _]. exact Hx.
    + destruct (Nat.eqb k1 draidep).
      * specialize (IH lims' (S k1) ((1 - draifak) * (a + w0 - w * 10)) (draifak * (a + w0 - w * 10))
                       ltac:(nra) Hf HF').
        destruct (infil draidep draifak (S k1) _ _ rest) as [[w1s q1s] qd']. cbn [fst] in *.
        constructor; [lra | exact IH].
      * specialize (IH lims' (S k1) (a + w0 - w * 10) qd ltac:(lra) Hf HF').
        destruct (infil draidep draifak (S k1) _ _ rest) as [[w1s q1s] qd']. cbn [fst] in *.
        constructor; [lra | exact IH].
Qed.

(* evaporation never takes a layer below its dryness limit WMIN/3*DZ; layers below the break keep their water *)
Lemma evap_lower wdt ls : forall a1 ev evs,
  Forall (fun p : R * R => snd p / 3 * 10 <= fst p) ls ->
  Forall2 (fun w1 (p : R * R) => snd p / 3 * 10 <= w1) (fst (fst (@evap R RNum wdt a1 ev evs ls))) ls.
Proof.
  induction ls as [|[w0 wmin] rest IH]; intros a1 ev evs HF; inversion HF as [|p l H0 HF' E]; subst.
  - cbn. constructor.
  - cbn -[Rsum last length]. cbn [fst snd] in *.
    set (low := RI.ltb (w0 - ev * wdt) (wmin / 3 * 10)).
    assert (Hlim : wmin / 3 * 10 <= (if low then wmin / 3 * 10 else w0 - ev * wdt)).
    { unfold low. destruct (RI.ltb_spec (w0 - ev * wdt) (wmin / 3 * 10)); lra. }
    set (lim := if low then wmin / 3 * 10 else w0 - ev * wdt) in *.
    set (evn := if low then hd 0 evs + (ev - w0 + wmin / 3 * 10) else hd 0 evs).
    destruct (RI.ltb_spec a1 (w0 - lim)) as [Hbrk|Hcont].
    + cbn [fst]. constructor; [cbn; lra|].
      clear -HF'. induction HF' as [|[x y] l Hx HF' IH]; cbn; constructor; auto.
    + specialize (IH (a1 - (w0 - lim)) evn (tl evs) HF').
      destruct (evap wdt (a1 - (w0 - lim)) evn (tl evs) rest) as [[w1s q1s] evs']. cbn [fst] in *.
      constructor; [cbn; lra | exact IH].
Qed.

Lemma cascade_lower ls : forall lims carry hc q1s,
  length q1s = length ls -> (hc = true -> 0 <= carry) ->
  Forall2 (fun (p : R * R) lim => lim <= fst p /\ lim <= snd p * 10) ls lims ->
  Forall2 (fun w1 lim => lim <= w1) (fst (@cascade R RNum carry hc ls q1s)) lims.
Proof.
  induction ls as [|[w1 w] rest IH]; intros lims carry hc q1s Hlen Hc HF;
    inversion HF as [|p lim ls' lims' [H1 H2] HF' E1 E2]; subst.
  - destruct q1s; cbn; constructor.
  - destruct q1s as [|q qrest]; [cbn in Hlen; lia|].
    cbn -[Rsum last length]. cbn [fst snd] in *.
    set (w1c := if hc then w1 + carry else w1).
    assert (Hw1c : w1 <= w1c) by (unfold w1c; destruct hc; [specialize (Hc eq_refl); lra | lra]).
    destruct (RI.ltb_spec w (w1c / 10)) as [Hov|Hno].
    + specialize (IH lims' (w1c - w * 10) true qrest ltac:(cbn in Hlen; lia) ltac:(intros _; lra) HF').
      destruct (cascade (w1c - w * 10) true rest qrest) as [ws qs]. cbn [fst] in *.
      constructor; [lra | exact IH].
    + specialize (IH lims' 0 false qrest ltac:(cbn in Hlen; lia) ltac:(discriminate) HF').
      destruct (cascade 0 false rest qrest) as [ws qs]. cbn [fst] in *.
      constructor; [lra | exact IH].
Qed.

Lemma upd_ge (l lims : list R) i v :
  Forall2 (fun w lim => lim <= w) l lims -> get 0 l i <= v ->
  Forall2 (fun w lim => lim <= w) (upd l i v) lims.
Proof.
  intros H; revert i; induction H as [|w lim l lims Hw H IH]; intros i Hv.
  - destruct i; cbn; constructor.
  - destruct i as [|i]; cbn [upd].
    + constructor; [unfold get in Hv; cbn in Hv; lra | exact H].
    + constructor; [exact Hw | apply IH; exact Hv].
Qed.

(* ---------------- setFieldCapacityWithGW (model in WaterModel.v) ---------------- *)
Lemma set_fc_gw_below (w porges : list R) first fr : forall l i,
  length w = length porges -> (i < length w)%nat -> (first < l + i)%nat ->
  nth i (@set_fc_gw_from R RNum l first fr w porges) 0 = nth i porges 0.
Proof.
  revert porges; induction w as [|wv wr IH]; intros porges l i Hlen Hi Hlt; [cbn in Hi; lia|].
  destruct porges as [|pv pr]; [cbn in Hlen; lia|].
  cbn [set_fc_gw_from]. destruct i as [|i].
  - cbn [nth]. destruct (Nat.ltb_spec l first); [lia|]. destruct (Nat.eqb_spec l first); [lia|]. reflexivity.
  - cbn [nth]. apply IH; cbn in *; lia.
Qed.

Lemma set_fc_gw_above (w porges : list R) first fr : forall l i,
  (l + i < first)%nat -> nth i (@set_fc_gw_from R RNum l first fr w porges) 0 = nth i w 0.
Proof.
  revert porges; induction w as [|wv wr IH]; intros porges l i Hlt; [destruct porges; reflexivity|].
  destruct porges as [|pv pr]; [reflexivity|].
  cbn [set_fc_gw_from]. destruct i as [|i].
  - cbn [nth]. destruct (Nat.ltb_spec l first); [reflexivity|lia].
  - cbn [nth]. apply IH; lia.
Qed.

(* ---------------- assembly ---------------- *)

Lemma combine_Forall2 {A B} (P : A -> (A * B) -> Prop) (Q : A -> B -> Prop) l1 l2 :
  length l1 = length l2 -> (forall a b, Q a b -> P a (a, b)) ->
  Forall2 Q l1 l2 -> Forall2 P l1 (combine l1 l2).
Proof. intros _ H F. induction F; cbn; constructor; auto. Qed.

(* physical parameter hypotheses used by the lower bound *)
Definition params_ok (x : water_in (T:=R)) : Prop :=
  0 <= wi_wdt x /\ 0 <= wi_draifak x <= 1 /\
  Forall (fun c => 0 <= c) (wi_caps x) /\
  Forall2 (fun w wmin => wmin / 3 <= w) (wi_w x) (wi_wmin x).

Lemma nth_combine {A B} (l1 : list A) (l2 : list B) da db i :
  length l1 = length l2 -> nth i (combine l1 l2) (da, db) = (nth i l1 da, nth i l2 db).
Proof.
  revert l2 i; induction l1 as [|a l1 IH]; intros [|b l2] [|i] H; cbn in *; try lia; auto.
Qed.

Lemma upper_bound_lemma (x : water_in (T:=R)) n :
  wf_in x n ->
  let o := water_step x in
  forall i, (i < n)%nat ->
    get 0 (wo_wg1 o) i <= get 0 (wi_w x) i
      + (if Nat.eqb (S i) (wo_caplay o) then wo_capterm o / 10 else 0).
Proof.
  intros Hwf o i Hi. subst o. unfold water_step.
  pose proof (uptake_phase_spec x n Hwf) as HU.
  destruct (uptake_phase x) as [tp' water0]. destruct HU as (_ & Lw0 & _).
  pose proof (surface_phase_spec x water0 n Hwf Lw0) as HS.
  destruct (surface_phase x water0) as [[[water1 q1] qdrain] ev']. destruct HS as (_ & Lw1 & Lq).
  pose proof Hwf as (Hn & Lwg & Ltp & Lw & Lwmin & Lnfk & Lev & Lq1).
  (* cascade *)
  unfold cascade_phase.
  assert (Ltl : length (tl q1) = length (combine water1 (wi_w x))).
  { rewrite combine_length. destruct q1; cbn in *; lia. }
  pose proof (cascade_upper (combine water1 (wi_w x)) zero false (tl q1) Ltl) as HC.
  pose proof (cascade_balance (combine water1 (wi_w x)) 0 false (tl q1) (combine_ne _ _ n Hn Lw1 Lw) Ltl) as HB.
  rsimp.
  destruct (cascade 0 false (combine water1 (wi_w x)) (tl q1)) as [water1c q1tl]. cbn [fst] in HC.
  destruct HB as (_ & Lc1 & Lc2). rewrite combine_length in Lc1, Lc2.
  assert (Hc_i : forall j, (j < n)%nat -> nth j water1c 0 <= nth j (wi_w x) 0 * 10).
  { intros j Hj. pose proof (Forall2_get _ 0 (0, 0) _ _ HC j ltac:(lia)) as H.
    rewrite nth_combine in H by lia. exact H. }
  (* capillary *)
  unfold capillary_phase. cbn zeta.
  set (caplay := caplay_of 1 (wi_nfk x)).
  assert (Hfin : forall water1k capterm cl,
            (forall j, (j < n)%nat -> nth j water1k 0 <= nth j (wi_w x) 0 * 10 + (if Nat.eqb (S j) cl then capterm else 0)) ->
            length water1k = n ->
            get 0 (map (fun w => w / 10) water1k ++ [last (map (fun w => w / 10) water1k) 0]) i
              <= get 0 (wi_w x) i + (if Nat.eqb (S i) cl then capterm / 10 else 0)).
  { intros water1k capterm cl H L. unfold get. rewrite app_nth1 by (rewrite map_length; lia).
    rewrite (nth_indep _ 0 (0 / 10)) by (rewrite map_length; lia).
    rewrite (map_nth (fun w => w / 10)). specialize (H i Hi).
    destruct (Nat.eqb (S i) cl); lra. }
  destruct (Nat.eqb caplay 0) eqn:Hc0.
  { cbn [wo_wg1 wo_caplay wo_capterm]. rsimp. apply Hfin; [|lia].
    intros j Hj. specialize (Hc_i j Hj). destruct (Nat.eqb (S j) caplay); lra. }
  destruct (_ <? ofZ 21)%num.
  2:{ cbn [wo_wg1 wo_caplay wo_capterm]. rsimp. apply Hfin; [|lia].
      intros j Hj. specialize (Hc_i j Hj). destruct (Nat.eqb (S j) caplay); lra. }
  destruct (gtb _ (dec 9 1)).
  2:{ cbn [wo_wg1 wo_caplay wo_capterm]. rsimp. apply Hfin; [|lia].
      intros j Hj. specialize (Hc_i j Hj). destruct (Nat.eqb (S j) caplay); lra. }
  cbn [wo_wg1 wo_caplay wo_capterm]. rsimp.
  match goal with |- context [upd water1c (caplay - 1) (get 0 water1c (caplay - 1) + ?c)] => set (cc := c); clearbody cc end.
  apply Hfin; [|rewrite upd_length; lia].
  intros j Hj. specialize (Hc_i j Hj).
  change (nth j (upd water1c (caplay - 1) (get 0 water1c (caplay - 1) + cc)) 0)
    with (get 0 (upd water1c (caplay - 1) (get 0 water1c (caplay - 1) + cc)) j).
  destruct (Nat.eqb_spec (S j) caplay) as [E|NE].
  - replace (caplay - 1)%nat with j by lia.
    rewrite get_upd_same by lia. unfold get. rsimp. lra.
  - apply Nat.eqb_neq in Hc0. rewrite get_upd_other by lia. unfold get. rsimp. lra.
Qed.

Lemma Forall2_combine_l {A B} (P : A -> B -> Prop) l1 l2 :
  Forall2 P l1 l2 -> Forall (fun p : A * B => P (fst p) (snd p)) (combine l1 l2).
Proof. induction 1; cbn; constructor; auto. Qed.

Lemma Forall2_of_nth {A B} (P : A -> B -> Prop) da db l1 l2 :
  length l1 = length l2 -> (forall i, (i < length l1)%nat -> P (nth i l1 da) (nth i l2 db)) -> Forall2 P l1 l2.
Proof.
  revert l2; induction l1 as [|a l1 IH]; intros [|b l2] L H; cbn in L; try lia; constructor.
  - apply (H 0%nat). cbn; lia.
  - apply IH; [lia|]. intros i Hi. apply (H (S i)). cbn; lia.
Qed.

(* one sub-step: if every layer's storage after the uptake is at or above its dryness limit
   WMIN/3*DZ, so is every layer's storage at the end of the sub-step *)
Lemma lower_bound_lemma (x : water_in (T:=R)) n :
  wf_in x n -> params_ok x ->
  Forall2 (fun w0 wmin => wmin / 3 * 10 <= w0) (snd (uptake_phase x)) (wi_wmin x) ->
  let o := water_step x in
  forall i, (i < n)%nat -> get 0 (wi_wmin x) i / 3 <= get 0 (wo_wg1 o) i.
Proof.
  intros Hwf (Hwdt & Hf & Hcaps & Hwm) H0 o i Hi. subst o. unfold water_step.
  pose proof (uptake_phase_spec x n Hwf) as HU.
  destruct (uptake_phase x) as [tp' water0]. destruct HU as (_ & Lw0 & _). cbn [snd] in H0.
  pose proof Hwf as (Hn & Lwg & Ltp & Lw & Lwmin & Lnfk & Lev & Lq1).
  set (lims := map (fun wmin => wmin / 3 * 10) (wi_wmin x)).
  assert (Llims : length lims = n) by (unfold lims; rewrite map_length; exact Lwmin).
  assert (Hlim_w : forall j, (j < n)%nat -> nth j lims 0 <= nth j (wi_w x) 0 * 10).
  { intros j Hj. unfold lims. rewrite (nth_indep _ 0 (0 / 3 * 10)) by (rewrite map_length; lia).
    rewrite (map_nth (fun wmin => wmin / 3 * 10)).
    pose proof (Forall2_get _ 0 0 _ _ Hwm j ltac:(lia)) as H. cbn in H. lra. }
  assert (H0' : forall j, (j < n)%nat -> nth j lims 0 <= nth j water0 0).
  { intros j Hj. unfold lims. rewrite (nth_indep _ 0 (0 / 3 * 10)) by (rewrite map_length; lia).
    rewrite (map_nth (fun wmin => wmin / 3 * 10)).
    exact (Forall2_get _ 0 0 _ _ H0 j ltac:(lia)). }
  (* surface phase *)
  assert (HS : Forall2 (fun w1 lim => lim <= w1) (fst (fst (fst (surface_phase x water0)))) lims).
  { unfold surface_phase. cbn zeta.
    destruct (gtb (wi_fluss0 x) zero) eqn:Hpos.
    - apply gtbR in Hpos. rsimp.
      pose proof (infil_lower (wi_draidep x) (wi_draifak x) (combine water0 (wi_w x)) lims 1
                    (wi_fluss0 x * wi_wdt x) 0 ltac:(nra) Hf) as HI.
      destruct (infil _ _ _ _ _ _) as [[w1s q1s] qd]. cbn [fst] in *. apply HI.
      apply (Forall2_of_nth _ (0, 0) 0); [rewrite combine_length; lia|].
      intros j Hj. rewrite combine_length in Hj. rewrite nth_combine by lia. cbn [fst snd].
      split; [apply H0'; lia | apply Hlim_w; lia].
    - destruct (wi_fluss0 x <? zero)%num.
      + pose proof (evap_lower (wi_wdt x) (combine water0 (wi_wmin x)) (absv (wi_fluss0 x) * wi_wdt x)%num
                      (hd zero (wi_ev x)) (tl (wi_ev x))) as HE.
        destruct (evap _ _ _ _ _) as [[w1s q1s] evs]. cbn [fst] in *.
        assert (HF : Forall (fun p : R * R => snd p / 3 * 10 <= fst p) (combine water0 (wi_wmin x))).
        { apply (Forall2_combine_l (fun w0 wmin => wmin / 3 * 10 <= w0)). exact H0. }
        specialize (HE HF).
        apply (Forall2_of_nth _ 0 0).
        * rewrite (Forall2_length' _ _ _ HE), combine_length. lia.
        * intros j Hj. pose proof (Forall2_get _ 0 (0, 0) _ _ HE j Hj) as H.
          rewrite nth_combine in H by lia. cbn [snd] in H.
          unfold lims. rewrite (nth_indep _ 0 (0 / 3 * 10)).
          -- rewrite (map_nth (fun wmin => wmin / 3 * 10)). exact H.
          -- rewrite map_length. rewrite (Forall2_length' _ _ _ HE), combine_length in Hj. lia.
      + cbn [fst]. apply (Forall2_of_nth _ 0 0); [lia|]. intros j Hj. apply H0'. lia. }
  pose proof (surface_phase_spec x water0 n Hwf Lw0) as HSS.
  destruct (surface_phase x water0) as [[[water1 q1] qdrain] ev']. destruct HSS as (_ & Lw1 & Lq).
  cbn [fst] in HS.
  (* cascade *)
  unfold cascade_phase.
  assert (Ltl : length (tl q1) = length (combine water1 (wi_w x))).
  { rewrite combine_length. destruct q1; cbn in *; lia. }
  pose proof (cascade_lower (combine water1 (wi_w x)) lims zero false (tl q1) Ltl ltac:(discriminate)) as HC.
  pose proof (cascade_balance (combine water1 (wi_w x)) 0 false (tl q1) (combine_ne _ _ n Hn Lw1 Lw) Ltl) as HB.
  rsimp.
  destruct (cascade 0 false (combine water1 (wi_w x)) (tl q1)) as [water1c q1tl]. cbn [fst] in HC.
  destruct HB as (_ & Lc1 & Lc2). rewrite combine_length in Lc1, Lc2.
  assert (HCC : Forall2 (fun w1 lim => lim <= w1) water1c lims).
  { apply HC. apply (Forall2_of_nth _ (0, 0) 0); [rewrite combine_length; lia|].
    intros j Hj. rewrite combine_length in Hj. rewrite nth_combine by lia. cbn [fst snd].
    split; [exact (Forall2_get _ 0 0 _ _ HS j ltac:(lia)) | apply Hlim_w; lia]. }
  (* capillary *)
  assert (Hfin : forall water1k, Forall2 (fun w1 lim => lim <= w1) water1k lims ->
            get 0 (wi_wmin x) i / 3 <= get 0 (map (fun w => w / 10) water1k ++ [last (map (fun w => w / 10) water1k) 0]) i).
  { intros water1k HK. pose proof (Forall2_length' _ _ _ HK) as LK.
    unfold get. rewrite app_nth1 by (rewrite map_length; lia).
    rewrite (nth_indep (map (fun w => w / 10) water1k) 0 (0 / 10)) by (rewrite map_length; lia).
    rewrite (map_nth (fun w => w / 10)).
    pose proof (Forall2_get _ 0 0 _ _ HK i ltac:(lia)) as H. cbn beta in H.
    unfold lims in H. rewrite (nth_indep _ 0 (0 / 3 * 10)) in H by (rewrite map_length; lia).
    rewrite (map_nth (fun wmin => wmin / 3 * 10)) in H. lra. }
  unfold capillary_phase. cbn zeta.
  set (caplay := caplay_of 1 (wi_nfk x)).
  destruct (Nat.eqb caplay 0); [cbn [wo_wg1]; rsimp; apply Hfin; exact HCC|].
  destruct (_ <? ofZ 21)%num; [|cbn [wo_wg1]; rsimp; apply Hfin; exact HCC].
  destruct (gtb _ (dec 9 1)); [|cbn [wo_wg1]; rsimp; apply Hfin; exact HCC].
  cbn [wo_wg1]. rsimp. apply Hfin. apply upd_ge; [exact HCC|].
  match goal with |- _ <= _ + ?c => assert (0 <= c) as Hc end; [|lra].
  rewrite DZR_val.
  assert (0 <= get 0 (wi_caps x) (Z.to_nat (roundZ (Rmax (if RI.ltb (wi_grw x + 1 - IZR (Z.of_nat caplay)) 0 then 0 else wi_grw x + 1 - IZR (Z.of_nat caplay)) 1) - 1))).
  { unfold get. set (k := Z.to_nat _). clearbody k.
    destruct (Nat.lt_ge_cases k (length (wi_caps x))) as [Hk|Hk].
    - rewrite Forall_forall in Hcaps. apply Hcaps. apply nth_In. exact Hk.
    - rewrite nth_overflow by exact Hk. lra. }
  nra.
Qed.

(* first sub-step: the uptake clamp leaves every layer that starts at or above its dryness limit
   at or above it (the clamp limits the day's uptake to the water above the wilting point) *)
Lemma uptake_first_lower (x : water_in (T:=R)) n :
  wf_in x n -> wi_subd1 x = true -> 0 <= wi_wdt x <= 1 ->
  Forall (fun wmin => 0 <= wmin) (wi_wmin x) ->
  Forall2 (fun wg0 wmin => wmin / 3 <= wg0) (wi_wg0 x) (wi_wmin x) ->
  Forall2 (fun w0 wmin => wmin / 3 * 10 <= w0) (snd (uptake_phase x)) (wi_wmin x).
Proof.
  intros (Hn & Lwg & Ltp & Lw & Lwmin & Lnfk & Lev & Lq1) Hs Hwdt Hpos H.
  unfold uptake_phase. cbn [snd]. rewrite Hs.
  revert Ltp Lwg Lwmin Hpos. generalize (wi_tp x). generalize n.
  induction H as [|wg0 wmin wgs wmins Hw H IH]; intros m tps Ltp Lwg Lwmin Hpos.
  - cbn. constructor.
  - destruct tps as [|tp tps]; [cbn in *; lia|].
    inversion Hpos as [|a l Ha Hpos' E]; subst.
    cbn [combine map snd]. constructor.
    + unfold uptake_layer. cbn [snd]. rsimp. rewrite DZR_val.
      destruct (RI.ltb_spec ((wg0 - wmin) * 10) tp) as [Hc|Hc].
      * destruct (RI.ltb_spec wg0 wmin) as [Hlt|Hge]; nra.
      * destruct (Rle_lt_dec wmin wg0); nra.
    + apply (IH (length wgs) tps); cbn in *; try lia; auto.
Qed.

(* init.go:90-98 over R: every layer strictly below the fractional one gets field capacity = pore volume;
   layers above it keep theirs *)
Lemma fc_below_gw_lemma (grw : R) (w porges : list R) :
  length w = length porges ->
  let first := Z.to_nat (RI.trunc_Z (grw + 1)) in
  let w' := @set_fc_gw R RNum grw w porges in
  forall i, (i < length w)%nat ->
    ((first < S i)%nat -> nth i w' 0 = nth i porges 0) /\
    ((S i < first)%nat -> nth i w' 0 = nth i w 0).
Proof.
  intros L first w' i Hi. subst w'. unfold set_fc_gw. rsimp. cbn [truncZ RNum]. fold first. split; intros H.
  - apply set_fc_gw_below; lia.
  - apply set_fc_gw_above; lia.
Qed.

(* ---------------- binary64: the overflow clamp is exact ---------------- *)
(* At binary64, for EVERY float input (NaN included): after the cascade each layer's storage is either exactly the
   clamp value W*DZ or a value x with not (W < x/DZ) — and x/DZ is literally the water content the code reports.
   No rounding can push a non-clamped layer above its field capacity. *)
Lemma cascade_upper_binary64 (ls : list (float * float)) : forall carry hc q1s,
  length q1s = length ls ->
  Forall2 (fun w1' (p : float * float) =>
             w1' = PrimFloat.mul (snd p) (@DZ float FloatNum) \/
             PrimFloat.ltb (snd p) (PrimFloat.div w1' (@DZ float FloatNum)) = false)
          (fst (@cascade float FloatNum carry hc ls q1s)) ls.
Proof.
  induction ls as [|[w1 w] rest IH]; intros carry hc q1s Hlen.
  - destruct q1s; cbn; constructor.
  - destruct q1s as [|q qrest]; [cbn in Hlen; lia|].
    cbn [cascade]. unfold gtb. cbn [ltb FloatNum div mul sub add].
    set (w1c := if hc then PrimFloat.add w1 carry else w1).
    destruct (PrimFloat.ltb w (PrimFloat.div w1c DZ)) eqn:E.
    + specialize (IH (PrimFloat.sub w1c (PrimFloat.mul w DZ)) true qrest ltac:(cbn in Hlen; lia)).
      destruct (cascade (PrimFloat.sub w1c (PrimFloat.mul w DZ)) true rest qrest) as [ws qs]. cbn [fst snd] in *.
      constructor; [left; reflexivity | exact IH].
    + specialize (IH (@zero float FloatNum) false qrest ltac:(cbn in Hlen; lia)).
      destruct (cascade zero false rest qrest) as [ws qs]. cbn [fst snd] in *.
      constructor; [right; exact E | exact IH].
Qed.
