(* SharedStateModel.v — the obligation checked on the generated inventory SharedState.v
   (tie 3, regenerated from /repo on every run by `vh sharedstate`, go/ast + go/types).

   An entry is a package-level variable of package hermes (or of the batch main package),
   or a field of the two structs that concurrent runs share through the session
   (HermesSession, FilePool), with every site inside a function body that can change it:
   assignment (also through an index/field/dereference rooted at the variable), ++/--,
   address-taking, delete(), call of a pointer-receiver method (or of any method when the type
   comes from an import and is unknown to the translator), declaration with a type of package
   sync or sync/atomic (KSyncType); for the struct fields also
   every read.  Each site records the enclosing function and whether it lies between
   <x>.mux.Lock() and the matching non-deferred Unlock() of that function.

   A variable is acceptable when it is
     inert       never changed outside its declaration or an init function, or
     classified  in the hand-written table below, and the generated sites satisfy the
                 mechanical condition of its class.
   Any new mutable package-level variable (or an unguarded access to the pool map) makes
   [forallb inert_or_guarded inventory = true] fail. *)
From Coq Require Import List Bool String Arith.
Import ListNotations.
Local Open Scope string_scope.

Inductive kind := KAssign | KIncDec | KAddr | KDelete | KPtrCall (method : string) | KSyncType | KRead.

Record site := Site { skind : kind; sfunc : string; slocked : bool }.
Record entry := Entry { ename : string; esites : list site }.

Definition mutating (k : kind) : bool := match k with KRead => false | _ => true end.

Definition inert (e : entry) : bool :=
  forallb (fun s => negb (mutating (skind s)) || String.eqb (sfunc s) "init") (esites e).

Inductive cls :=
| Guarded                            (* every access (read or write) holds the mutex *)
| WrittenOnlyIn (fs : list string)   (* every change is inside one of these functions *)
| OnlyMethods (ms : list string).    (* changed only by calling these pointer-receiver methods *)

(* name, class, reason *)
Definition table : list (string * cls * string) := [
  ("hermes.FilePool.list", Guarded,
   "the pool map: Get and Close lock fp.mux around every access (path.go:205-232); PoolModel");
  ("hermes.HermesSession.HermesFilePool", OnlyMethods ["Get"; "Close"],
   "the pool is reached only through FilePool.Get / FilePool.Close, whose bodies are covered by the entry hermes.FilePool.list");
  ("hermes.HermesSession.HermesOutWriter", WrittenOnlyIn ["OpenResultFile"],
   "set by NewHermesSession (composite literal) before the session is shared; the assignment in OpenResultFile (session.go:106-108) is under `== nil` and never runs for a session made by NewHermesSession (hermes_main.go:35)");
  ("main.concurrentOperations", WrittenOnlyIn ["main"],
   "written by main() while parsing the arguments (hermes_main.go:96), before any run goroutine exists; afterwards only read, by the dispatcher goroutine")
].

Fixpoint lookup_cls (n : string) (t : list (string * cls * string)) : option cls :=
  match t with
  | [] => None
  | (m, c, _) :: r => if String.eqb n m then Some c else lookup_cls n r
  end.

Definition class_ok (c : cls) (e : entry) : bool :=
  match c with
  | Guarded => forallb slocked (esites e)
  | WrittenOnlyIn fs =>
      forallb (fun s => negb (mutating (skind s)) || existsb (String.eqb (sfunc s)) fs) (esites e)
  | OnlyMethods ms =>
      forallb (fun s => match skind s with
                        | KRead => true
                        | KPtrCall m => existsb (String.eqb m) ms
                        | _ => false
                        end) (esites e)
  end.

Definition inert_or_guarded (e : entry) : bool :=
  inert e || match lookup_cls (ename e) table with Some c => class_ok c e | None => false end.

(* the inventory must at least contain the pool map with a guarded write, and the
   read-only lookup tables: an empty or truncated inventory is not accepted *)
Definition has (n : string) (inv : list entry) : bool := existsb (fun e => String.eqb (ename e) n) inv.
Definition inventory_plausible (inv : list entry) : bool :=
  existsb (fun e => String.eqb (ename e) "hermes.FilePool.list" &&
                    existsb (fun s => mutating (skind s) && slocked s) (esites e)) inv &&
  has "hermes.cropTypeLookup" inv && has "hermes.HermesSession.HermesFilePool" inv &&
  has "main.concurrentOperations" inv && (10 <=? List.length inv)%nat.

Lemma inventory_all (inv : list entry) :
  forallb inert_or_guarded inv = true -> forall e, In e inv -> inert_or_guarded e = true.
Proof. intros H e He. rewrite forallb_forall in H. exact (H e He). Qed.
