(* C04TokCorr.v — tie of WeatherTokModel with the real readers: harness command c04tok calls
   hermes.WetterK / ReadWeatherCSV / ReadWeatherCZ on a generated file and dumps the result class and
   the WeatherDataShared arrays; the character-level model is run on the same bytes. *)
From Coq Require Import ZArith List Bool Ascii String Floats.
From Hermes Require Import Num Calendar DateModel WeatherModel WeatherTokModel.
Import ListNotations.
Open Scope Z_scope.

(* file text as a Coq string with ~n ~r ~t ~q ~~ escapes *)
Fixpoint unesc (s : str) : str :=
  match s with
  | [] => []
  | c :: r =>
      if ch_eqb c "~"%char then
        match r with
        | e :: r' =>
            (if ch_eqb e "n"%char then LF else if ch_eqb e "r"%char then CR else if ch_eqb e "t"%char then TAB
             else if ch_eqb e "q"%char then """"%char else e) :: unesc r'
        | [] => [c]
        end
      else c :: unesc r
  end.

Record obs_slot := mkos {
  o_jar : Z; o_maxd : Z; o_cells : list (list float);
  o_load : list float;        (* WINDHI, ALTI, CO2KONZ after LoadYear; -1 = left untouched *)
  o_jtag : Z;
  o_opt : list (list float) }.   (* SUND, VERD, ETNULL of every stored day *)

Record tokcase := mktc {
  t_layout : Z; t_nh : Z; t_none : float; t_year : Z; t_nslots : Z;
  t_text : option string;     (* None: no such file *)
  t_class : Z;                (* 0 nil | 1 error | 2 index panic | 3 log.Fatal *)
  t_slots : list obs_slot }.

Definition cells_same (maxd : Z) (cells : list (wrec float)) (o : list (list float)) : bool :=
  let want := firstn (Z.to_nat maxd) cells in
  (Nat.eqb (List.length want) (List.length o)) &&
  forallb (fun p : wrec float * list float =>
             floats_same [w_tavg (fst p); w_tmin (fst p); w_tmax (fst p); w_rh (fst p); w_rad (fst p); w_wind (fst p); w_prec (fst p)] (snd p))
          (combine want o).

(* the optional columns of a year file read without error: the arrays of the real WetterK against opt_year / sund_year *)
Fixpoint opt_rows (sund verd et0 : list float) (o : list (list float)) : bool :=
  match sund, verd, et0, o with
  | [], [], [], [] => true
  | a :: sund', b :: verd', c :: et0', r :: o' => floats_same [a; b; c] r && opt_rows sund' verd' et0' o'
  | _, _, _, _ => false
  end.
Definition opt_same (none : float) (nh : Z) (text : option str) (os : list obs_slot) : bool :=
  match text, os with
  | Some t, [o] =>
      opt_rows (sund_year none (year_column 7 nh t)) (opt_year none (year_column 5 nh t)) (opt_year none (year_column 3 nh t)) (o_opt o)
  | _, _ => false
  end.

Definition opt_or (o : option float) (d : float) : float := match o with Some v => v | None => d end.

Fixpoint co2_of (slot : Z) (l : list (Z * option float)) : option (option float) :=
  match l with
  | [] => None
  | (k, v) :: r => if k =? slot then Some v else co2_of slot r
  end.

(* expected (WINDHI, ALTI, CO2KONZ) LoadYear hands over for a written slot *)
Definition load_want (cz : bool) (m : meta float) (co2s : list (Z * option float)) (slot : Z) : list float :=
  let co2 := if cz then match co2_of slot co2s with
                        | Some (Some v) => v | Some None => 360%float | None => (-1)%float end
             else opt_or (m_co2 m) (-1)%float in
  [opt_or (m_windhi m) (-1)%float; opt_or (m_alt m) (-1)%float; co2].

Fixpoint slots_same (cz : bool) (m : meta float) (co2s : list (Z * option float)) (k : Z)
         (st : store float) (os : list obs_slot) : bool :=
  match st, os with
  | [], [] => true
  | s :: st', o :: os' =>
      (s_jar s =? o_jar o) && (s_maxd s =? o_maxd o) && cells_same (s_maxd s) (s_cells s) (o_cells o)
      && (if o_jar o =? 0 then true
          else floats_same (load_want cz m co2s k) (o_load o) && (o_jtag o =? s_maxd s))
      && slots_same cz m co2s (k + 1) st' os'
  | _, _ => false
  end.

(* 0 = agree; 1 = class differs; 2 = arrays differ; 3 = optional columns (SUND, VERD, ETNULL) differ; 9 = the model abstains (TUnk) *)
Definition tok_check (c : tokcase) : Z :=
  let text := option_map (fun s => unesc (lstr_of s)) (t_text c) in
  if t_layout c =? 0 then
    match wetterk_text (t_none c) [] (t_nh c) (t_year c) text [empty_slot] with
    | TUnk => 9
    | TPanic => if t_class c =? 2 then 0 else 1
    | TFatal => if t_class c =? 3 then 0 else 1
    | TOk (st, m) => if negb (t_class c =? 0) then 1 else if slots_same false m [] 0 st (t_slots c) then
                       (if opt_same (t_none c) (t_nh c) text (t_slots c) then 0 else 3) else 2
    | TErr (st, m) => if negb (t_class c =? 1) then 1 else if slots_same false m [] 0 st (t_slots c) then 0 else 2
    end
  else
    let cz := t_layout c =? 2 in
    match multi_text (t_none c) cz [] (t_nh c) (t_year c) (t_nslots c) text with
    | TUnk => 9
    | TPanic => if t_class c =? 2 then 0 else 1
    | TFatal => if t_class c =? 3 then 0 else 1
    | TOk (st, m, co2s) => if negb (t_class c =? 0) then 1 else if slots_same cz m co2s 0 st (t_slots c) then 0 else 2
    | TErr (st, m, co2s) => if negb (t_class c =? 1) then 1
                            else match t_text c with
                                 | None => 0
                                 | Some _ => if slots_same cz m co2s 0 st (t_slots c) then 0 else 2
                                 end
    end.

Fixpoint tok_mismatches (i : nat) (cs : list tokcase) : list (nat * Z) :=
  match cs with
  | [] => []
  | c :: r => let k := tok_check c in
              if k =? 0 then tok_mismatches (S i) r else (i, k) :: tok_mismatches (S i) r
  end.

(* precipitation correction, the whole finite domain: one year of 10.0 mm days read by the real
   reader with twelve pairwise different monthly factors; obs = REG of day index 0, 1, ... *)
Fixpoint preco_diffs (corr : list float) (jar : Z) (idx : nat) (obs : list float) : list Z :=
  match obs with
  | [] => []
  | o :: r =>
      let want := w_prec (norm_cell corr jar idx (mkw 0 0 0 0 0 1 10)%float) in
      if float_same want o then preco_diffs corr jar (S idx) r else Z.of_nat idx :: preco_diffs corr jar (S idx) r
  end.

(* [] = the model's factor equals the reader's on every day of the year and the year has its length *)
Definition preco_sweep (corr : list float) (jar : Z) (obs : list float) : list Z :=
  (if Z.of_nat (List.length obs) =? ylen jar then [] else [-1]) ++ preco_diffs corr jar 0 obs.
