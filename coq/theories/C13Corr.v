(* C13Corr.v — decoding of harness observations (command cropstate) and the mismatch functions of
   the CropParamModel / OverrideModel correspondence (properties C13 and C18): the models are run on
   the very bytes the real readers were given, with binary64 numbers, and every field of the
   resulting state / record is compared bit for bit with what the real code produced. *)
From Coq Require Import ZArith List Bool Ascii String Floats Uint63.
From Hermes Require Import Num DateModel CropParamModel OverrideModel.
Import ListNotations.
Local Open Scope Z_scope.

(* ---- transport: the bytes of a file packed 7 per primitive integer (little endian), preceded by
   the byte count; an edited file as (base file, line index, new line) ---- *)
Definition byte_at (x : int) (k : nat) : ascii :=
  ascii_of_N (Z.to_N (Uint63.to_Z (Uint63.land (Uint63.lsr x (Uint63.of_Z (8 * Z.of_nat k))) 255%uint63))).
Fixpoint unpack (len : nat) (l : list int) : lstr :=
  match l with
  | [] => []
  | x :: r => map (byte_at x) (seq 0 (Nat.min 7 len)) ++ unpack (len - 7) r
  end.
Definition bytes_of (l : list int) : lstr :=
  match l with [] => [] | n :: r => unpack (Z.to_nat (Uint63.to_Z n)) r end.

Inductive fsrc := FFull (d : list int) | FPatch (base k : nat) (line : list int).

(* bufio.ScanLines: lines end at LF, one trailing CR is dropped, no empty last line *)
Definition drop_cr (l : lstr) : lstr :=
  match rev l with c :: r => if ascii_dec c "013"%char then rev r else l | [] => l end.
Definition split_lines (bytes : lstr) : list lstr :=
  let ls := split_on "010"%char bytes in
  let ls := match rev ls with [] :: r => rev r | _ => ls end in
  map drop_cr ls.
Definition set_nth {A} (l : list A) (k : nat) (x : A) : list A := mapi (fun i old => if Nat.eqb i k then x else old) l.
Fixpoint resolve (acc : list (list lstr)) (fs : list fsrc) : list (list lstr) :=
  match fs with
  | [] => acc
  | FFull d :: r => resolve (acc ++ [split_lines (bytes_of d)]) r
  | FPatch b k l :: r => resolve (acc ++ [set_nth (nth b acc []) k (bytes_of l)]) r
  end.

(* ---- flattening (same order as harness/c13.go flatState / flatRec) ---- *)
Definition flat_state (s : crop_state float) : list float * list Z :=
  ([MAXAMAX s; MINTMP s; WUMAXPF s; VELOC s; RGA s; RGB s; YIFAK s; PHYLLO s; VERNTAGE s; TROOTSUM s;
    GEHOB s; WUGEH s; kcini s; tendsum s]
   ++ SUM s ++ List.concat (PRO s) ++ List.concat (DEAD s) ++ WORG s ++ MAIRT s ++ WDORG s ++ ENDBBCH s
   ++ TSUM s ++ BAS s ++ VSCHWELL s ++ DAYL s ++ DLBAS s ++ DRYSWELL s ++ LUKRIT s ++ LAIFKT s ++ WGMAX s ++ kc s,
   [temptyp s; NGEFKT s; SubOrgan s; YORGAN s; NRKOM s; Z.b2z (DAUERKULT s); Z.b2z (LEGUM s); NRENTW s;
    Z.b2z (useBBCH s)] ++ STAGEDAYS s ++ DEV s ++ [Z.of_nat (List.length (AGO s))] ++ AGO s).

Definition flat_stage_f (st : stage_rec float) : list float :=
  [st_tsum st; st_bas st; st_vschwell st; st_dayl st; st_dlbas st; st_dryswell st; st_lukrit st; st_laifkt st;
   st_wgmax st; st_kc st] ++ st_pro st ++ st_dead st.
Definition flat_stage_z (st : stage_rec float) : list Z :=
  [st_bbch st; Z.of_nat (List.length (st_pro st)); Z.of_nat (List.length (st_dead st))].
Definition flat_rec (r : crop_rec float) : list float * list Z :=
  ([r_maxamax r; r_mintmp r; r_wumaxpf r; r_veloc r; r_rga r; r_rgb r; r_yifak r; r_initbiom r; r_initroot r; r_kcini r]
   ++ r_worg r ++ r_mairt r ++ List.concat (map flat_stage_f (r_stages r)),
   [r_temptyp r; r_ngefkt r; r_suborgan r; r_yorgan r; r_nrkom r; Z.of_nat (r_nnames r); Z.b2z (r_dauerkult r);
    Z.b2z (r_legum r); r_nrentw r; Z.of_nat (List.length (r_ago r))] ++ r_ago r
   ++ [Z.of_nat (List.length (r_worg r)); Z.of_nat (List.length (r_mairt r)); Z.of_nat (List.length (r_stages r))]
   ++ List.concat (map flat_stage_z (r_stages r))).

(* positions where model and observation differ: floats 0.., ints 10000.., a length mismatch 99999 *)
Fixpoint diff_f (i : Z) (a b : list float) : list Z :=
  match a, b with
  | [], [] => []
  | x :: r, y :: r' => if float_same x y then diff_f (i + 1) r r' else i :: diff_f (i + 1) r r'
  | _, _ => [99999]
  end.
Fixpoint diff_z (i : Z) (a b : list Z) : list Z :=
  match a, b with
  | [], [] => []
  | x :: r, y :: r' => if x =? y then diff_z (i + 1) r r' else i :: diff_z (i + 1) r r'
  | _, _ => [99998]
  end.
Definition diff_flat (m o : list float * list Z) : list Z :=
  diff_f 0 (fst m) (fst o) ++ diff_z 10000 (snd m) (snd o).

(* ---- prior states of a read (harness/c13.go priorState) ---- *)
Definition jf (f i : Z) : float := PrimFloat.div (F.of_Z (1000 + 64 * f + i)) (F.of_Z 8).
Definition jarr (f : Z) (n : nat) : list float := tab n (fun i => jf f (Z.of_nat i)).
Definition zeros (n : nat) : list float := repeat PrimFloat.zero n.

Definition fz : float := PrimFloat.zero.
Definition zero_state : crop_state float :=
  {| MAXAMAX := fz; temptyp := 0; MINTMP := fz; WUMAXPF := fz; VELOC := fz; NGEFKT := 0; RGA := fz; RGB := fz;
     SubOrgan := 0; AGO := []; YORGAN := 0; YIFAK := fz; NRKOM := 0; DAUERKULT := false; LEGUM := false;
     STAGEDAYS := [0; 0; 0; 0; 0]; PHYLLO := fz; VERNTAGE := fz; SUM := zeros 10; DEV := repeat 0 10;
     PRO := repeat (zeros 5) 10; DEAD := repeat (zeros 5) 10; TROOTSUM := fz; GEHOB := fz; WUGEH := fz;
     WORG := zeros 5; MAIRT := zeros 10; WDORG := zeros 10; kcini := fz; NRENTW := 0; tendsum := fz;
     useBBCH := false; ENDBBCH := zeros 10; TSUM := zeros 10; BAS := zeros 10; VSCHWELL := zeros 10;
     DAYL := zeros 10; DLBAS := zeros 10; DRYSWELL := zeros 10; LUKRIT := zeros 10; LAIFKT := zeros 10;
     WGMAX := zeros 10; kc := zeros 10 |}.

Definition jtab (f : Z) : list (list float) :=
  tab 10 (fun i => tab 5 (fun j => PrimFloat.div (jf f (Z.of_nat (i * 5 + j))) (F.of_Z 1024))).

Definition junk_state : crop_state float :=
  {| MAXAMAX := jf 0 0; temptyp := 3; MINTMP := jf 1 0; WUMAXPF := jf 2 0; VELOC := jf 3 0; NGEFKT := 3;
     RGA := jf 4 0; RGB := jf 5 0; SubOrgan := 3; AGO := [1; 2]; YORGAN := 3; YIFAK := jf 6 0; NRKOM := 3;
     DAUERKULT := true; LEGUM := true; STAGEDAYS := [11; 12; 13; 14; 15]; PHYLLO := jf 7 0; VERNTAGE := jf 8 0;
     SUM := jarr 14 10; DEV := tab 10 (fun i => 21 + Z.of_nat i); PRO := jtab 15; DEAD := jtab 16;
     TROOTSUM := jf 9 0; GEHOB := jf 10 0; WUGEH := jf 11 0; WORG := jarr 17 5; MAIRT := jarr 18 10;
     WDORG := jarr 19 10; kcini := jf 12 0; NRENTW := 3; tendsum := jf 13 0; useBBCH := true;
     ENDBBCH := jarr 20 10; TSUM := jarr 21 10; BAS := jarr 22 10; VSCHWELL := jarr 23 10; DAYL := jarr 24 10;
     DLBAS := jarr 25 10; DRYSWELL := jarr 26 10; LUKRIT := jarr 27 10; LAIFKT := jarr 28 10; WGMAX := jarr 29 10;
     kc := jarr 30 10 |}.

Definition prior (junk : bool) : crop_state float := if junk then junk_state else zero_state.

(* ---- cases ---- *)
Definition obs := option (list float * list Z).      (* None: the real code ended in Fatal / error *)

Definition lpair (kv : string * string) : lstr * lstr := (lstr_of (fst kv), lstr_of (snd kv)).

Inductive case :=
  | CClassic (file : nat) (junk cont : bool) (args : option (list (string * string))) (o : obs)
  | CYaml (rec : crop_rec float) (junk cont : bool) (args : option (list (string * string))) (o : obs)
  | CClassicTo (file : nat) (fname target : string) (junk cont : bool) (args : list (string * string)) (o : obs)
  | CYamlTo (rec : crop_rec float) (fname target : string) (junk cont : bool) (args : list (string * string)) (o : obs)
  | CConvert (file : nat) (o : obs)
  | CEdit (file : nat) (name : string) (i j : nat) (text : string) (edited : nat).

Definition with_override (cont : bool) (args : option (list (string * string))) (s : option (crop_state float))
    : option (crop_state float) :=
  match s, args with
  | Some s, Some a => match parse_overrides (map lpair a) with
                      | Some o => Some (apply cont o s)
                      | None => None
                      end
  | _, _ => s
  end.

Definition with_override_to (cont : bool) (fname target : string) (args : list (string * string))
    (s : option (crop_state float)) : option (crop_state float) :=
  match s with
  | Some s => match parse_overrides (map lpair args) with
              | Some o => Some (apply_to cont (lstr_of target) o (lstr_of fname) s)
              | None => None
              end
  | None => None
  end.

Definition cmp (m : option (list float * list Z)) (o : obs) : list Z :=
  match m, o with
  | Some a, Some b => diff_flat a b
  | None, None => []
  | Some _, None => [77777]        (* the model accepts what the code rejects *)
  | None, Some _ => [88888]        (* the model rejects what the code accepts *)
  end.

Definition lines_eqb (a b : list lstr) : bool :=
  if list_eq_dec (list_eq_dec ascii_dec) a b then true else false.

Definition case_diff (files : list (list lstr)) (c : case) : list Z :=
  match c with
  | CClassic f junk cont args o =>
      cmp (option_map flat_state (with_override cont args (state_of_classic cont (nth f files []) (prior junk)))) o
  | CYaml r junk cont args o =>
      cmp (option_map flat_state (with_override cont args (state_of_yaml cont r (prior junk)))) o
  | CClassicTo f fname target junk cont args o =>
      cmp (option_map flat_state (with_override_to cont fname target args (state_of_classic cont (nth f files []) (prior junk)))) o
  | CYamlTo r fname target junk cont args o =>
      cmp (option_map flat_state (with_override_to cont fname target args (state_of_yaml cont r (prior junk)))) o
  | CConvert f o => cmp (option_map flat_rec (convert (nth f files []))) o
  | CEdit f name i j text e =>
      match pname_of (lstr_of name) with
      | Some p => match edit_lines (nth f files []) p i j (lstr_of text) with
                  | Some ls => if lines_eqb ls (nth e files []) then [] else [66666]
                  | None => [55555]
                  end
      | None => [44444]
      end
  end.

Fixpoint mismatches_from (files : list (list lstr)) (i : nat) (cs : list case) : list (nat * list Z) :=
  match cs with
  | [] => []
  | c :: r => match case_diff files c with
              | [] => mismatches_from files (S i) r
              | d => (i, firstn 6 d) :: mismatches_from files (S i) r
              end
  end.
Definition mismatches (fs : list fsrc) (cs : list case) : list (nat * list Z) :=
  mismatches_from (resolve [] fs) 0 cs.
