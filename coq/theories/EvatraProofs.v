(* EvatraProofs.v — C08 lemmas about EvatraModel read over the reals (exact-arithmetic semantics of the
   program text, DESIGN.md §3 (R)), for every number of layers and every state in the stated class;
   plus the binary64 facts about the cap/floor step and the R->F gap of REDEV. *)
From Coq Require Import ZArith Reals List Bool Lia Lra Floats SpecFloat.
From Hermes Require Import Num RUtil WaterModel WaterProofs WaterBounds EvatraModel.
Import ListNotations.
Local Open Scope R_scope.

(* decimal literals over R *)
Ltac decsimp :=
  repeat match goal with
  | |- context [@dec R RNum ?m ?k] =>
      let v := eval vm_compute in (10 ^ Z.of_nat k)%Z in change (@dec R RNum m k) with (IZR m / IZR v)
  | H : context [@dec R RNum ?m ?k] |- _ =>
      let v := eval vm_compute in (10 ^ Z.of_nat k)%Z in change (@dec R RNum m k) with (IZR m / IZR v) in H
  end.

Lemma if_sb {A B : Prop} {X : Type} (d : {A} + {B}) (x y : X) :
  (if (if d then true else false) then x else y) = (if d then x else y).
Proof. destruct d; reflexivity. Qed.

Ltac rnum := unfold clamp0, ofN, gtb in *; rsimp; unfold RI.ltb, RI.leb, RI.eqb in *; decsimp; rewrite ?if_sb in *.

(* case analysis on the comparisons, innermost first *)
Ltac case_lt :=
  repeat match goal with
  | |- context [Rlt_dec ?a ?b] =>
      lazymatch a with
      | context [Rlt_dec] => fail
      | _ => lazymatch b with context [Rlt_dec] => fail | _ => destruct (Rlt_dec a b); cbv iota in * end
      end
  end.

Lemma div_nonneg a d : 0 <= a -> 0 < d -> 0 <= a / d.
Proof. intros. unfold Rdiv. apply Rmult_le_pos; [assumption | left; apply Rinv_0_lt_compat; assumption]. Qed.

Lemma div_le_1 a d : a <= d -> 0 < d -> a / d <= 1.
Proof.
  intros. apply (Rmult_le_reg_r d); [assumption|]. unfold Rdiv. rewrite Rmult_assoc, Rinv_l by lra. lra.
Qed.

Lemma DZ_R : @DZ R RNum = 10.
Proof. unfold DZ, ten. cbn. reflexivity. Qed.

(* ---------------------------------------------------------------- *)
(* 1. cap and floor of the potential ET                               *)
Definition cap_of (crop : bool) : R := if crop then 65 / 100 else 6 / 10.

Lemma pot_cap_lemma (crop : bool) (v : R) : 0 <= @pot_cap R RNum crop v <= cap_of crop.
Proof.
  unfold pot_cap, cap_of. rnum. destruct crop;
  case_lt; lra.
Qed.

(* the value is unchanged when it already lies in the range *)
Lemma pot_cap_id (crop : bool) (v : R) : 0 <= v <= cap_of crop -> @pot_cap R RNum crop v = v.
Proof.
  unfold pot_cap, cap_of. rnum. destruct crop; intros;
  case_lt; lra.
Qed.

(* ---------------------------------------------------------------- *)
(* 2. PROZ and REDEV                                                  *)
Lemma proz_range_lemma (wg00 regen wmin0 w0 : R) :
  wmin0 / 3 < w0 -> 0 <= @proz_of R RNum wg00 regen wmin0 w0 <= 1.
Proof.
  intros Hw. unfold proz_of. rewrite DZ_R. rnum.
  set (wob := if Rlt_dec (wg00 + regen / 10) (wmin0 / 3) then wmin0 / 3 else wg00 + regen / 10).
  assert (Hwob : wmin0 / 3 <= wob) by (unfold wob; destruct (Rlt_dec _ _); lra).
  assert (Hp : 0 <= (wob - wmin0 / 3) / (w0 - wmin0 / 3)) by (apply div_nonneg; lra).
  destruct (Rlt_dec 1 _); lra.
Qed.

Lemma redev_range_lemma (p : R) : 0 <= p <= 1 -> 0 <= @redev_of R RNum p <= 1.
Proof.
  intros Hp. unfold redev_of. rnum.
  case_lt; lra.
Qed.

(* the four segments join continuously and REDEV grows with PROZ: values at the break points *)
Lemma redev_breakpoints :
  @redev_of R RNum 0 = 0 /\ @redev_of R RNum (2/10) = 5/100 /\ @redev_of R RNum (22/100) = 275/1000 /\
  @redev_of R RNum (33/100) = 9/10 /\ @redev_of R RNum 1 = 1.
Proof.
  unfold redev_of. rnum.
  repeat split; case_lt; lra.
Qed.

(* ---------------------------------------------------------------- *)
(* 3. split of the potential ET                                       *)
Lemma split_lemma (crop : bool) (verdu e : R) :
  0 <= verdu -> 0 < e <= 1 ->
  let '(evmax, tramax, etcp) := @split_of R RNum crop verdu e in
  0 <= evmax /\ 0 <= tramax /\ evmax + tramax <= verdu /\ evmax <= 65 / 100 /\
  etcp = (if crop then verdu else 0) /\ (crop = false -> tramax = 0).
Proof.
  intros Hv He. unfold split_of. rnum.
  assert (0 <= verdu * e) by (apply Rmult_le_pos; lra).
  assert (verdu * e <= verdu) by nra.
  destruct crop; destruct (Rlt_dec _ _); repeat split; try lra; try congruence.
Qed.

(* ---------------------------------------------------------------- *)
(* 4. air shortage                                                    *)
(* the air-filled pore volume of the top three layers (water.go:567) *)
Definition lupor_of (wg0 porges : list R) : R :=
  (get 0 porges 0 + get 0 porges 1 + get 0 porges 2 - get 0 wg0 0 - get 0 wg0 1 - get 0 wg0 2) / 3.

(* LURMAX = LUPOR/LUKRIT is only computed when LUKRIT > 0 (water.go:568 after the repair F27) *)
Lemma lured_range_lemma (wg0 porges : list R) (lukrit : R) (lumday : Z) :
  (0 <= lumday)%Z ->
  let '(ld, lr) := @lured_of R RNum wg0 porges lukrit lumday in
  (0 <= ld <= 4)%Z /\ 0 <= lr <= 1.
Proof.
  intros Hd. unfold lured_of. rnum. fold (lupor_of wg0 porges). set (lupor := lupor_of wg0 porges) in *.
  destruct (Rlt_dec 0 lukrit) as [Hk'|Hk']; cbn [andb].
  - destruct (Rlt_dec lupor lukrit) as [Hl|Hl].
    + set (ld := if (4 <? lumday + 1)%Z then 4%Z else (lumday + 1)%Z).
      assert (Hld : (1 <= ld <= 4)%Z) by (unfold ld; destruct (Z.ltb_spec 4 (lumday + 1)); lia).
      set (lp := if Rlt_dec lupor 0 then 0 else lupor).
      assert (Hlp : 0 <= lp < lukrit) by (unfold lp; destruct (Rlt_dec lupor 0); lra).
      assert (Hm : 0 <= lp / lukrit <= 1).
      { split; [apply div_nonneg; lra | apply div_le_1; lra]. }
      assert (Hq : 0 <= IZR ld / 4 <= 1).
      { destruct Hld as [H1 H4]. apply IZR_le in H1, H4. lra. }
      assert (Hpr : 0 <= IZR ld / 4 * (1 - lp / lukrit) <= 1) by nra.
      split; [lia|]. destruct (Rlt_dec 1 _); lra.
    + split; [lia|]. destruct (Rlt_dec 1 1); lra.
  - split; [lia|]. destruct (Rlt_dec 1 1); lra.
Qed.

(* ---------------------------------------------------------------- *)
(* sums                                                               *)
Lemma fold_add_Rsum (l : list R) : forall a, fold_left (@add R RNum) l a = a + Rsum l.
Proof. induction l as [|x l IH]; intros a; cbn [fold_left Rsum]; [lra | rewrite IH; rsimp; lra]. Qed.

Lemma sum_list_Rsum (l : list R) : @sum_list R RNum l = Rsum l.
Proof. unfold sum_list. rewrite fold_add_Rsum. rsimp. lra. Qed.

Lemma Rsum_nonneg (l : list R) : Forall (fun x => 0 <= x) l -> 0 <= Rsum l.
Proof. induction 1; cbn [Rsum]; lra. Qed.

Definition wts (ls : list (rl (T:=R))) : list R := map (@rl_wt R RNum) ls.
Definition tps_of (ls : list (rl (T:=R))) : list R := map (@rl_tp R) ls.
Definition wt_ok (ls : list (rl (T:=R))) : Prop := Forall (fun l => 0 <= @rl_wt R RNum l) ls.

Lemma wts_nonneg ls : wt_ok ls -> Forall (fun x => 0 <= x) (wts ls).
Proof. unfold wt_ok, wts. induction 1; cbn [map]; constructor; auto. Qed.

Lemma In_firstn' {A} (x : A) k l : In x (firstn k l) -> In x l.
Proof. intros H. rewrite <- (firstn_skipn k l). apply in_or_app. left. exact H. Qed.

Lemma wt_ok_firstn k ls : wt_ok ls -> wt_ok (firstn k ls).
Proof. unfold wt_ok. rewrite !Forall_forall. intros H x Hx. apply H. eapply In_firstn'; exact Hx. Qed.

Lemma firstn_sum_mono (ls : list (rl (T:=R))) : forall k n, (k <= n)%nat -> wt_ok ls ->
  Rsum (wts (firstn k ls)) <= Rsum (wts (firstn n ls)).
Proof.
  induction ls as [|l ls IH]; intros k n Hkn Hok.
  - rewrite !firstn_nil. lra.
  - pose proof (Forall_inv Hok) as H0. pose proof (Forall_inv_tail Hok) as Ht.
    destruct k as [|k].
    + cbn [firstn wts map Rsum]. apply Rsum_nonneg. apply wts_nonneg. apply wt_ok_firstn. exact Hok.
    + destruct n as [|n]; [lia|]. cbn [firstn wts map Rsum]. specialize (IH k n ltac:(lia) Ht). unfold wts in IH. lra.
Qed.

(* ---------------------------------------------------------------- *)
(* 5. the redistribution loop                                         *)
Ltac case_all :=
  unfold Rmax, Rmin in *;
  repeat match goal with
  | |- context [Rlt_dec ?a ?b] =>
      lazymatch a with
      | context [Rlt_dec] => fail | context [Rle_dec] => fail
      | _ => lazymatch b with context [Rlt_dec] => fail | context [Rle_dec] => fail
                            | _ => destruct (Rlt_dec a b); cbv iota in * end
      end
  | |- context [Rle_dec ?a ?b] =>
      lazymatch a with
      | context [Rlt_dec] => fail | context [Rle_dec] => fail
      | _ => lazymatch b with context [Rlt_dec] => fail | context [Rle_dec] => fail
                            | _ => destruct (Rle_dec a b); cbv iota in * end
      end
  end.

(* the part of a layer's uptake handed downwards lies between 0 and that uptake *)
Lemma trest_range (l : rl (T:=R)) : 0 <= rl_tp l -> 0 <= @trest_of R RNum l <= rl_tp l.
Proof.
  intros Htp. unfold trest_of. cbv zeta. rewrite DZ_R. rnum.
  generalize dependent (rl_tp l). intros tp Htp.
  case_all; lra.
Qed.

Definition rl_ok (l : rl (T:=R)) : Prop := 0 <= rl_tp l /\ 0 <= @rl_wt R RNum l.

Lemma rl_wt_set (r : rl (T:=R)) t : @rl_wt R RNum (rl_set_tp r t) = rl_wt r.
Proof. reflexivity. Qed.

Lemma push_map (trest wr : R) (rest : list (rl (T:=R))) :
  0 <= trest -> 0 < wr -> Forall rl_ok rest ->
  let rest' := map (fun r => rl_set_tp r (rl_tp r + trest * rl_wu r * rl_wd r / wr)%num) rest in
  Forall rl_ok rest' /\ wts rest' = wts rest /\
  Rsum (tps_of rest') = Rsum (tps_of rest) + trest * Rsum (wts rest) / wr.
Proof.
  intros Ht Hw. induction 1 as [|r rest [Hr1 Hr2] Hrest IH]; cbn zeta.
  - cbn. repeat split; [constructor | unfold Rdiv; lra].
  - cbn zeta in IH. destruct IH as (IH1 & IH2 & IH3).
    cbn [map wts tps_of Rsum] in *. unfold wts, tps_of in *. rewrite IH2, IH3.
    repeat split.
    + constructor; [|exact IH1]. split; [|rewrite rl_wt_set; exact Hr2].
      unfold rl_wt in Hr2. cbn [rl_set_tp rl_tp]. rsimp.
      assert (0 <= trest * rl_wu r * rl_wd r / wr).
      { apply div_nonneg; [|exact Hw]. rewrite Rmult_assoc. apply Rmult_le_pos; assumption. }
      lra.
    + cbn [rl_set_tp rl_tp]. unfold rl_wt. rsimp. field. lra.
Qed.

Lemma redis_lemma (mn grw : R) : forall fuel ls i W tpakt gwauf,
  (length ls <= fuel)%nat -> Forall rl_ok ls -> Rsum (wts ls) <= W ->
  let '(tps, ta, gw) := @redis R RNum fuel i mn grw W tpakt gwauf ls in
  Rsum tps <= Rsum (tps_of ls) /\ Forall (fun t => 0 <= t) tps /\ ta = tpakt + Rsum tps /\
  length tps = length ls.
Proof.
  induction fuel as [|fuel IH]; intros ls i W tpakt gwauf Hlen Hok HW.
  - destruct ls; [|cbn in Hlen; lia]. cbn. repeat split; try lra; constructor.
  - destruct ls as [|l rest]. { cbn. repeat split; try lra; constructor. }
    cbn [redis]. cbv zeta.
    destruct (Forall_inv Hok) as [Htp Hwt]. pose proof (Forall_inv_tail Hok) as Hrest.
    pose proof (trest_range l Htp) as Htr.
    cbn [wts map Rsum tps_of] in HW |- *. fold (wts rest) in HW. fold (tps_of rest).
    set (trest := @trest_of R RNum l) in *.
    rsimp. set (wr := W - rl_wt l) in *.
    (* the layers below after the hand-over *)
    assert (Hpush : forall c : bool, (c = true -> 0 < wr) ->
              let rest' := if c then map (fun r => rl_set_tp r (rl_tp r + trest * rl_wu r * rl_wd r / wr)) rest
                           else rest in
              Forall rl_ok rest' /\ wts rest' = wts rest /\ Rsum (tps_of rest') <= Rsum (tps_of rest) + trest /\
              length rest' = length rest).
    { intros c Hc. destruct c; cbv zeta.
      - specialize (Hc eq_refl).
        destruct (push_map trest wr rest ltac:(lra) Hc Hrest) as (P1 & P2 & P3).
        cbv zeta in P1, P2, P3. rsimp. repeat split; [exact P1 | exact P2 | | apply map_length].
        rewrite P3.
        assert (0 <= Rsum (wts rest)) by (apply Rsum_nonneg, wts_nonneg; unfold wt_ok;
                                          eapply Forall_impl; [|exact Hrest]; intros a [_ Ha]; exact Ha).
        assert (Rsum (wts rest) / wr <= 1) by (apply div_le_1; unfold wr in *; lra).
        assert (trest * (Rsum (wts rest) / wr) <= trest * 1) by (apply Rmult_le_compat_l; lra).
        unfold Rdiv in *. lra.
      - repeat split; [exact Hrest | lra]. }
    match goal with
    | |- context [redis fuel (S i) mn grw wr ?ta ?gw (if ?c then ?m else rest)] =>
        specialize (Hpush c); specialize (IH (if c then m else rest) (S i) wr ta gw);
        destruct (redis fuel (S i) mn grw wr ta gw (if c then m else rest)) as [[tps ta'] gw']
    end.
    assert (Hc : (RI.ltb 0 trest && RI.ltb (IZR (Z.of_nat i)) mn && RI.ltb 0 wr)%bool = true -> 0 < wr).
    { intros E. apply andb_true_iff in E. destruct E as [_ E]. unfold RI.ltb in E. destruct (Rlt_dec 0 wr); [assumption|discriminate]. }
    specialize (Hpush Hc). cbv zeta in Hpush. destruct Hpush as (Q1 & Q2 & Q3 & Q4).
    specialize (IH ltac:(cbn [length] in Hlen; lia) Q1 ltac:(rewrite Q2; unfold wr; lra)).
    destruct IH as (I1 & I2 & I3 & I4).
    assert (Htp' : (if RI.ltb (rl_tp l - trest) 0 then 0 else rl_tp l - trest) = rl_tp l - trest).
    { unfold RI.ltb. destruct (Rlt_dec (rl_tp l - trest) 0); lra. }
    rewrite Htp' in *. cbn [Rsum length].
    repeat split; try lra.
    + constructor; [lra | exact I2].
    + rewrite I4, Q4. reflexivity.
Qed.

(* ---------------------------------------------------------------- *)
(* 6. root activity tables and the initial distribution               *)
Lemma clamp0_nonneg (x : R) : 0 <= @clamp0 R RNum x.
Proof. unfold clamp0. rsimp. unfold RI.ltb. destruct (Rlt_dec x 0); lra. Qed.

Lemma wueff_nonneg (nfk : R) : 0 <= @wueff_of R RNum nfk.
Proof. unfold wueff_of. apply clamp0_nonneg. Qed.

Lemma trred_nonneg (nfk : R) : 0 <= @trred_of R RNum nfk.
Proof. unfold trred_of. apply clamp0_nonneg. Qed.

Lemma tables_wu_nonneg (wurz : nat) (grw : R) (nfk : list R) : forall i,
  Forall (fun p => 0 <= snd p) (@tables R RNum i wurz grw nfk).
Proof.
  induction nfk as [|x r IH]; intros i; cbn [tables]; constructor; [|apply IH].
  destruct (Nat.ltb i wurz); cbn [snd]; [|rsimp; lra].
  destruct (gtb _ grw); [rsimp; lra | apply wueff_nonneg].
Qed.

Definition ls0_of (x : evatra_in (T:=R)) (nfk : list R) : list (rl (T:=R)) :=
  map (fun '(((tr, wu), wd), (g, m)) =>
         {| rl_tp := 0; rl_wu := wu; rl_wd := wd; rl_trred := tr; rl_wg := g; rl_wmin := m |})
      (combine (combine (@tables R RNum 0 (ei_wurz x) (ei_grw x) nfk) (ei_wudich x)) (combine (ei_wg0 x) (ei_wmin x))).

Lemma ls0_ok (x : evatra_in (T:=R)) nfk :
  Forall (fun d => 0 <= d) (ei_wudich x) -> Forall rl_ok (ls0_of x nfk).
Proof.
  intros Hd. unfold ls0_of. apply Forall_forall. intros l Hl.
  apply in_map_iff in Hl. destruct Hl as ([[[tr wu] wd] [g m]] & <- & Hin).
  apply in_combine_l in Hin. pose proof (in_combine_l _ _ _ _ Hin) as H1. apply in_combine_r in Hin.
  pose proof (tables_wu_nonneg (ei_wurz x) (ei_grw x) nfk 0%nat) as Ht. rewrite Forall_forall in Ht, Hd.
  specialize (Ht _ H1). specialize (Hd _ Hin). cbn [snd] in Ht.
  split; cbn; [lra | apply Rmult_le_pos; assumption].
Qed.

Lemma rl_ok_wt_ok ls : Forall rl_ok ls -> wt_ok ls.
Proof. intros H. unfold wt_ok. eapply Forall_impl; [|exact H]. intros a [_ Ha]. exact Ha. Qed.

Section Init.
  Variables (mn tramax weff lured : R).

  Lemma tp_init_wts (ls : list (rl (T:=R))) : forall i, wts (@tp_init R RNum i mn tramax weff lured ls) = wts ls.
  Proof. induction ls as [|l r IH]; intros i; cbn [tp_init wts map]; [reflexivity|]. rewrite rl_wt_set. unfold wts in IH. rewrite IH. reflexivity. Qed.

  Lemma tp_init_length (ls : list (rl (T:=R))) : forall i, length (@tp_init R RNum i mn tramax weff lured ls) = length ls.
  Proof. induction ls as [|l r IH]; intros i; cbn [tp_init length]; [reflexivity | rewrite IH; reflexivity]. Qed.

  (* summed weight of the layers the distribution serves: 1-based number <= min(WURZ, GRW) *)
  Fixpoint selsum (i : nat) (ls : list (rl (T:=R))) : R :=
    match ls with
    | [] => 0
    | l :: r => (if Rlt_dec mn (IZR (Z.of_nat (S i))) then 0 else @rl_wt R RNum l) + selsum (S i) r
    end.

  Lemma selsum_nonneg ls : wt_ok ls -> forall i, 0 <= selsum i ls.
  Proof.
    induction 1 as [|l r Hl Hr IH]; intros i; cbn [selsum]; [lra|]. specialize (IH (S i)).
    destruct (Rlt_dec mn _); lra.
  Qed.

  Lemma selsum_le_firstn (wurz : nat) ls : mn <= IZR (Z.of_nat wurz) -> wt_ok ls ->
    forall i, selsum i ls <= Rsum (wts (firstn (wurz - i) ls)).
  Proof.
    intros Hmn. induction 1 as [|l r Hl Hr IH]; intros i; cbn [selsum].
    - rewrite firstn_nil. cbn. lra.
    - specialize (IH (S i)).
      destruct (Rlt_dec mn (IZR (Z.of_nat (S i)))) as [Hlt|Hge].
      + destruct (wurz - i)%nat as [|m] eqn:E.
        * replace (wurz - S i)%nat with 0%nat in IH by lia. cbn [firstn] in *. lra.
        * replace (wurz - S i)%nat with m in IH by lia. cbn [firstn wts map Rsum]. unfold wts in IH. lra.
      + assert (Hi : (S i <= wurz)%nat).
        { apply Nat2Z.inj_le. apply le_IZR. lra. }
        replace (wurz - i)%nat with (S (wurz - S i)) by lia. cbn [firstn wts map Rsum]. unfold wts in IH. lra.
  Qed.

  Lemma tp_init_pos ls : 0 < weff -> 0 <= tramax -> 0 <= lured -> wt_ok ls -> forall i,
    Forall rl_ok (@tp_init R RNum i mn tramax weff lured ls) /\
    Rsum (tps_of (tp_init i mn tramax weff lured ls)) <= tramax * lured / weff * selsum i ls.
  Proof.
    intros Hw Ht Hl. induction 1 as [|l r Hwt Hr IH]; intros i; cbn [tp_init selsum tps_of map Rsum].
    - split; [constructor | lra].
    - destruct (IH (S i)) as [IH1 IH2]. fold (tps_of (tp_init (S i) mn tramax weff lured r)).
      assert (HK : 0 <= tramax * lured / weff) by (apply div_nonneg; [apply Rmult_le_pos|]; assumption).
      assert (Hhead : 0 <= @tp0_of R RNum i mn tramax weff lured l <=
                      tramax * lured / weff * (if Rlt_dec mn (IZR (Z.of_nat (S i))) then 0 else rl_wt l)).
      { unfold tp0_of. rnum. destruct (Rlt_dec mn _); [lra|].
        destruct (Rlt_dec 0 (rl_wt l)).
        - unfold rl_wt in *. rsimp.
          replace (tramax * rl_wu l * rl_wd l / weff * lured) with (tramax * lured / weff * (rl_wu l * rl_wd l)) by (field; lra).
          split; [apply Rmult_le_pos; lra | lra].
        - split; [lra | apply Rmult_le_pos; assumption]. }
      split.
      + constructor; [|exact IH1]. split; [cbn; lra | rewrite rl_wt_set; exact Hwt].
      + cbn [rl_set_tp rl_tp]. lra.
  Qed.

  Lemma tp_init_zero ls : wt_ok ls -> forall i, selsum i ls <= 0 ->
    Forall rl_ok (@tp_init R RNum i mn tramax weff lured ls) /\
    Rsum (tps_of (tp_init i mn tramax weff lured ls)) = 0.
  Proof.
    induction 1 as [|l r Hwt Hr IH]; intros i Hs; cbn [tp_init selsum tps_of map Rsum] in *.
    - split; [constructor | reflexivity].
    - pose proof (selsum_nonneg r Hr (S i)) as Hn.
      assert (Hhead : @tp0_of R RNum i mn tramax weff lured l = 0).
      { unfold tp0_of. rnum. destruct (Rlt_dec mn _); [reflexivity|]. destruct (Rlt_dec 0 (rl_wt l)); [lra | reflexivity]. }
      destruct (IH (S i)) as [IH1 IH2]. { destruct (Rlt_dec mn _); lra. }
      fold (tps_of (tp_init (S i) mn tramax weff lured r)). rewrite IH2.
      split.
      + constructor; [|exact IH1]. split; [cbn [rl_set_tp rl_tp]; lra | rewrite rl_wt_set; exact Hwt].
      + cbn [rl_set_tp rl_tp]. lra.
  Qed.

  (* outside the rooted, groundwater-free zone the initial uptake is zero *)
  Lemma tp_init_zone ls : forall i j, mn < IZR (Z.of_nat (S (i + j))) ->
    nth j (tps_of (@tp_init R RNum i mn tramax weff lured ls)) 0 = 0.
  Proof.
    induction ls as [|l r IH]; intros i j Hj; cbn [tp_init tps_of map].
    - destruct j; reflexivity.
    - destruct j as [|j]; cbn [nth].
      + rewrite Nat.add_0_r in Hj. cbn [rl_set_tp rl_tp]. unfold tp0_of. rnum.
        destruct (Rlt_dec mn _); [reflexivity | lra].
      + apply (IH (S i) j). replace (S i + j)%nat with (i + S j)%nat by lia. exact Hj.
  Qed.
End Init.

Lemma tp_init_lemma (mn tramax lured : R) (wurz : nat) (ls : list (rl (T:=R))) :
  0 <= tramax -> 0 <= lured -> wt_ok ls -> mn <= IZR (Z.of_nat wurz) ->
  let weff := Rsum (wts (firstn wurz ls)) in
  Forall rl_ok (@tp_init R RNum 0 mn tramax weff lured ls) /\
  Rsum (tps_of (tp_init 0 mn tramax weff lured ls)) <= tramax * lured.
Proof.
  intros Ht Hl Hok Hmn weff.
  pose proof (selsum_le_firstn mn wurz ls Hmn Hok 0%nat) as Hsel. rewrite Nat.sub_0_r in Hsel. fold weff in Hsel.
  pose proof (selsum_nonneg mn ls Hok 0%nat) as Hs0.
  destruct (Rlt_dec 0 weff) as [Hw|Hw].
  - destruct (tp_init_pos mn tramax weff lured ls Hw Ht Hl Hok 0%nat) as [P1 P2]. split; [exact P1|].
    assert (HK : 0 <= tramax * lured / weff) by (apply div_nonneg; [apply Rmult_le_pos|]; assumption).
    assert (tramax * lured / weff * selsum mn 0 ls <= tramax * lured / weff * weff) by (apply Rmult_le_compat_l; lra).
    replace (tramax * lured / weff * weff) with (tramax * lured) in * by (field; lra). lra.
  - destruct (tp_init_zero mn tramax weff lured ls Hok 0%nat ltac:(lra)) as [P1 P2]. split; [exact P1|].
    rewrite P2. apply Rmult_le_pos; assumption.
Qed.

(* ---------------------------------------------------------------- *)
(* 7. int(min(WURZ, GRW)) over the reals                              *)
Lemma trunc_nat_lt (x : R) (j : nat) : x < IZR (Z.of_nat (S j)) -> (Z.to_nat (RI.trunc_Z x) <= j)%nat.
Proof.
  intros Hx. unfold RI.trunc_Z. destruct (Rle_dec 0 x) as [H0|H0].
  - destruct (base_Int_part x) as [Hb _].
    assert (Int_part x < Z.of_nat (S j))%Z by (apply lt_IZR; lra). lia.
  - destruct (base_Int_part (- x)) as [_ Hb].
    assert (-1 < Int_part (- x))%Z by (apply lt_IZR; lra). lia.
Qed.

Lemma trunc_nat_le (x : R) (n : nat) : x <= IZR (Z.of_nat n) -> (Z.to_nat (RI.trunc_Z x) <= n)%nat.
Proof.
  intros Hx. apply trunc_nat_lt. rewrite Nat2Z.inj_succ, succ_IZR. lra.
Qed.

Lemma nth_skipn' {A} (d : A) : forall k (l : list A) j, (k <= j)%nat -> nth (j - k) (skipn k l) d = nth j l d.
Proof.
  induction k as [|k IH]; intros l j Hj.
  - rewrite Nat.sub_0_r. reflexivity.
  - destruct l as [|a l]; cbn [skipn].
    + destruct (j - S k)%nat; destruct j; reflexivity.
    + destruct j as [|j]; [lia|]. cbn [nth]. replace (S j - S k)%nat with (j - k)%nat by lia. apply IH. lia.
Qed.

(* ---------------------------------------------------------------- *)
(* 8. the uptake phase of the crop branch                             *)
Lemma uptake_struct_eq (x : evatra_in (T:=R)) nfk tramax lured :
  @uptake_struct R RNum x nfk tramax lured =
  let ls0 := ls0_of x nfk in
  let weff := @weff_of R RNum (ei_wurz x) ls0 in
  let mn := Rmin (IZR (Z.of_nat (ei_wurz x))) (ei_grw x) in
  let ls := @tp_init R RNum 0 mn tramax weff lured ls0 in
  let k := Z.to_nat (RI.trunc_Z mn) in
  let '(tps, tpakt, gwauf) := @redis R RNum k 1 mn (ei_grw x) weff 0 0 (firstn k ls) in
  (tps_of ls, tps ++ tps_of (skipn k ls), tpakt, gwauf, weff).
Proof. reflexivity. Qed.

Lemma uptake_lemma (x : evatra_in (T:=R)) (nfk : list R) (tramax lured : R) :
  0 <= tramax -> 0 <= lured -> Forall (fun d => 0 <= d) (ei_wudich x) ->
  let mn := Rmin (IZR (Z.of_nat (ei_wurz x))) (ei_grw x) in
  let '(tp0, tp, tpakt, gwauf, weff) := @uptake_struct R RNum x nfk tramax lured in
  Forall (fun t => 0 <= t) tp0 /\ Rsum tp0 <= tramax * lured /\
  Forall (fun t => 0 <= t) tp /\ Rsum tp <= Rsum tp0 /\ 0 <= tpakt <= Rsum tp /\
  length tp = length tp0 /\
  (forall j, mn < IZR (Z.of_nat (S j)) -> nth j tp0 0 = 0 /\ nth j tp 0 = 0).
Proof.
  intros Ht Hl Hd mn. rewrite uptake_struct_eq. cbv zeta. fold mn.
  pose proof (ls0_ok x nfk Hd) as Hok0. pose proof (rl_ok_wt_ok _ Hok0) as Hwt0.
  set (ls0 := ls0_of x nfk) in *. set (wurz := ei_wurz x) in *.
  assert (Hmn : mn <= IZR (Z.of_nat wurz)) by (unfold mn; apply Rmin_l).
  assert (Hweff : @weff_of R RNum wurz ls0 = Rsum (wts (firstn wurz ls0))).
  { unfold weff_of. rewrite sum_list_Rsum. reflexivity. }
  rewrite Hweff. set (weff := Rsum (wts (firstn wurz ls0))).
  destruct (tp_init_lemma mn tramax lured wurz ls0 Ht Hl Hwt0 Hmn) as [Hok Hsum]. fold weff in Hok, Hsum.
  set (ls := tp_init 0 mn tramax weff lured ls0) in *.
  set (k := Z.to_nat (RI.trunc_Z mn)).
  assert (Hk : (k <= wurz)%nat) by (apply trunc_nat_le; exact Hmn).
  assert (Hokf : Forall rl_ok (firstn k ls)).
  { rewrite Forall_forall in Hok |- *. intros a Ha. apply Hok. eapply In_firstn'; exact Ha. }
  assert (HW : Rsum (wts (firstn k ls)) <= weff).
  { unfold wts. rewrite <- firstn_map. fold (wts ls). unfold ls. rewrite tp_init_wts.
    unfold wts. rewrite firstn_map. apply (firstn_sum_mono ls0 k wurz Hk Hwt0). }
  pose proof (redis_lemma mn (ei_grw x) k (firstn k ls) 1%nat weff 0 0
                ltac:(rewrite firstn_length; lia) Hokf HW) as HR.
  destruct (redis k 1 mn (ei_grw x) weff 0 0 (firstn k ls)) as [[tps tpakt] gwauf].
  destruct HR as (R1 & R2 & R3 & R4).
  assert (Hall : Forall (fun t => 0 <= t) (tps_of ls)).
  { unfold tps_of. apply Forall_forall. intros t Hin. apply in_map_iff in Hin. destruct Hin as (a & <- & Ha).
    rewrite Forall_forall in Hok. apply (Hok a Ha). }
  assert (Hsplit : Rsum (tps_of ls) = Rsum (tps_of (firstn k ls)) + Rsum (tps_of (skipn k ls))).
  { rewrite <- (firstn_skipn k ls) at 1. unfold tps_of. rewrite map_app, Rsum_app. reflexivity. }
  assert (Hskip : Forall (fun t => 0 <= t) (tps_of (skipn k ls))).
  { unfold tps_of. apply Forall_forall. intros t Hin. apply in_map_iff in Hin. destruct Hin as (a & <- & Ha).
    rewrite Forall_forall in Hok. apply Hok. rewrite <- (firstn_skipn k ls). apply in_or_app. right. exact Ha. }
  pose proof (Rsum_nonneg _ Hskip) as Hskip0. pose proof (Rsum_nonneg _ R2) as Htps0.
  repeat split.
  - exact Hall.
  - exact Hsum.
  - apply Forall_app. split; assumption.
  - rewrite Rsum_app. lra.
  - lra.
  - rewrite Rsum_app. lra.
  - rewrite app_length, R4. unfold tps_of. rewrite !map_length, <- app_length, firstn_skipn. reflexivity.
  - unfold ls. apply (tp_init_zone mn tramax weff lured ls0 0 j). exact H.
  - assert (Hkj : (k <= j)%nat) by (apply trunc_nat_lt; exact H).
    destruct (Nat.lt_ge_cases j (length ls)) as [Hjl|Hjl].
    + assert (Hlt : length tps = k) by (rewrite R4, firstn_length; lia).
      rewrite app_nth2 by lia. rewrite Hlt. unfold tps_of. rewrite <- skipn_map. rewrite nth_skipn' by exact Hkj.
      apply (tp_init_zone mn tramax weff lured ls0 0 j). exact H.
    + apply nth_overflow. rewrite app_length, R4. unfold tps_of. rewrite map_length, firstn_length, skipn_length. lia.
Qed.

(* ---------------------------------------------------------------- *)
(* 9. the whole structural part                                       *)
(* the class of inputs the theorems are about: a non-negative potential ET (established by the
   cap/floor step), e = exp(-LAI/2) in (0,1], the dryness limit of the top layer below its field
   capacity, non-negative root densities, and in the crop branch a non-negative air-shortage day count
   (no condition on LUKRIT: the branch that divides by it is only taken when LUKRIT > 0) *)
Definition evatra_wf (x : evatra_in (T:=R)) : Prop :=
  0 <= ei_verdu x /\ 0 < ei_elai x <= 1 /\
  hd 0 (ei_wmin x) / 3 < hd 0 (ei_w x) /\
  Forall (fun d => 0 <= d) (ei_wudich x) /\
  (ei_crop x = true -> (0 <= ei_lumday x)%Z).

Lemma nth_map_zero {A} (l : list A) j : nth j (map (fun _ => 0) l) 0 = 0.
Proof. revert j; induction l as [|a l IH]; intros [|j]; cbn; auto. Qed.

Lemma Forall_map_zero {A} (l : list A) : Forall (fun t => 0 <= t) (map (fun _ => 0) l).
Proof. induction l; cbn; constructor; auto; lra. Qed.

Record evatra_facts (x : evatra_in (T:=R)) (o : evatra_out (T:=R)) : Prop := {
  ef_proz : 0 <= eo_proz o <= 1;
  ef_redev : 0 <= eo_redev o <= 1;
  ef_split : 0 <= eo_evmax o <= 65 / 100 /\ 0 <= eo_tramax o /\ eo_evmax o + eo_tramax o <= ei_verdu x;
  ef_eta : eo_eta o = eo_evmax o * eo_redev o;
  ef_lured : ei_crop x = true -> 0 <= eo_lured o <= 1 /\ (0 <= eo_lumday o <= 4)%Z;
  ef_tp0 : Forall (fun t => 0 <= t) (eo_tp0 o) /\ Rsum (eo_tp0 o) <= eo_tramax o * eo_lured o /\
           Rsum (eo_tp0 o) <= eo_tramax o;
  ef_tp : Forall (fun t => 0 <= t) (eo_tp o) /\ Rsum (eo_tp o) <= Rsum (eo_tp0 o) /\
          0 <= eo_tpakt o <= Rsum (eo_tp o) /\ length (eo_tp o) = length (eo_tp0 o);
  ef_zone : forall j, Rmin (IZR (Z.of_nat (eo_wurz o))) (ei_grw x) < IZR (Z.of_nat (S j)) ->
            nth j (eo_tp0 o) 0 = 0 /\ nth j (eo_tp o) 0 = 0;
  ef_etrel : (ei_crop x = true -> 0 <= eo_etrel o <= 1) /\ (ei_crop x = false -> eo_etrel o = ei_etrel x);
  ef_trrel : (ei_crop x = true -> 0 < eo_tramax o -> 0 <= eo_trrel o <= 1) /\
             (ei_crop x = true -> eo_tramax o <= 0 -> eo_trrel o = ei_trrel x) /\
             (ei_crop x = false -> eo_trrel o = 1);
}.

Lemma evatra_facts_lemma (x : evatra_in (T:=R)) : evatra_wf x -> evatra_facts x (evatra_struct x).
Proof.
  intros (Hv & He & Hw & Hd & Hc).
  pose proof (proz_range_lemma (hd 0 (ei_wg0 x)) (ei_regen x) (hd 0 (ei_wmin x)) (hd 0 (ei_w x)) Hw) as Hp.
  pose proof (redev_range_lemma _ Hp) as Hr.
  pose proof (split_lemma (ei_crop x) (ei_verdu x) (ei_elai x) Hv He) as Hs.
  unfold evatra_struct. rsimp.
  set (proz := proz_of _ _ _ _) in *. set (redev := redev_of proz) in *.
  destruct (split_of (ei_crop x) (ei_verdu x) (ei_elai x)) as [[evmax tramax] etcp].
  destruct Hs as (S1 & S2 & S3 & S4 & S5 & S6).
  assert (Heta : 0 <= evmax * redev <= evmax) by (split; [apply Rmult_le_pos; lra | nra]).
  destruct (ei_crop x) eqn:Ecrop.
  - pose proof (Hc eq_refl) as Hl.
    pose proof (lured_range_lemma (ei_wg0 x) (ei_porges x) (ei_lukrit x) (ei_lumday x) Hl) as HL.
    destruct (lured_of (ei_wg0 x) (ei_porges x) (ei_lukrit x) (ei_lumday x)) as [ld lured].
    destruct HL as [HL1 HL2].
    pose proof (uptake_lemma x (nfk_of (ei_regen x) (ei_wg0 x) (ei_wmin x) (ei_wnor x)) tramax lured S2 ltac:(lra) Hd) as HU.
    cbv zeta in HU.
    destruct (uptake_struct x _ tramax lured) as [[[[tp0 tp] tpakt] gwauf] weff].
    destruct HU as (U1 & U2 & U3 & U4 & U5 & U6 & U7).
    assert (Hcap : tramax * lured <= tramax) by nra.
    constructor; cbn [eo_proz eo_redev eo_evmax eo_tramax eo_eta eo_lured eo_lumday eo_tp0 eo_tp eo_tpakt eo_wurz eo_etrel eo_trrel];
      try (intros; discriminate); try tauto; try (repeat split; lra).
    + repeat split; try assumption; lra.
    + split; [intros _ | intros E; congruence]. subst etcp. unfold RI.ltb.
      destruct (Rlt_dec 0 (ei_verdu x)) as [Hpos|Hpos].
      * assert (0 <= (tpakt + evmax * redev) / ei_verdu x) by (apply div_nonneg; lra).
        destruct (Rlt_dec 1 _); lra.
      * destruct (Rlt_dec 1 1); lra.
    + unfold RI.ltb. repeat split; try (intros E; congruence).
      * destruct (Rlt_dec 0 tramax); [|lra]. apply div_nonneg; lra.
      * destruct (Rlt_dec 0 tramax); [|lra]. apply div_le_1; lra.
      * intros _ Hpos. destruct (Rlt_dec 0 tramax); [lra | reflexivity].
  - specialize (S6 eq_refl). subst tramax.
    constructor; cbn [eo_proz eo_redev eo_evmax eo_tramax eo_eta eo_lured eo_lumday eo_tp0 eo_tp eo_tpakt eo_wurz eo_etrel eo_trrel];
      try (intros; discriminate); try tauto; try (repeat split; lra).
    + intros E; congruence.
    + rewrite Rsum_map_zero. repeat split; [apply Forall_map_zero | lra | lra].
    + rewrite !Rsum_map_zero. repeat split; [apply Forall_map_zero | lra | lra | lra].
    + intros j _. rewrite nth_map_zero. split; reflexivity.
    + split; [intros E; congruence | reflexivity].
    + repeat split; intros; try congruence; try lra.
Qed.

(* the theorems of property C08, one conclusion each *)
Lemma aet_le_pet_lemma (x : evatra_in (T:=R)) : evatra_wf x ->
  let o := evatra_struct x in
  0 <= eo_eta o /\ 0 <= eo_tpakt o /\ eo_eta o + eo_tpakt o <= ei_verdu x /\
  Forall (fun t => 0 <= t) (eo_tp o) /\ eo_eta o + Rsum (eo_tp o) <= ei_verdu x.
Proof.
  intros H. destruct (evatra_facts_lemma x H) as [_ Hr Hs He _ H0 Ht _ _ _]. cbv zeta.
  destruct Hs as ((S1 & S1') & S2 & S3). destruct H0 as (A1 & A2 & A3). destruct Ht as (B1 & B2 & B3 & B4).
  rewrite He.
  assert (0 <= eo_evmax (evatra_struct x) * eo_redev (evatra_struct x) <= eo_evmax (evatra_struct x))
    by (split; [apply Rmult_le_pos; lra | nra]).
  repeat split; try assumption; lra.
Qed.

Lemma tp_initial_lemma (x : evatra_in (T:=R)) : evatra_wf x ->
  let o := evatra_struct x in
  Forall (fun t => 0 <= t) (eo_tp0 o) /\
  Rsum (eo_tp0 o) <= eo_tramax o * eo_lured o /\ Rsum (eo_tp0 o) <= eo_tramax o /\
  (ei_crop x = true -> 0 <= eo_lured o <= 1 /\ (0 <= eo_lumday o <= 4)%Z).
Proof.
  intros H. destruct (evatra_facts_lemma x H) as [_ _ _ _ Hl H0 _ _ _ _]. cbv zeta. tauto.
Qed.

Lemma redistribute_struct_lemma (x : evatra_in (T:=R)) : evatra_wf x ->
  let o := evatra_struct x in
  Forall (fun t => 0 <= t) (eo_tp o) /\ Rsum (eo_tp o) <= Rsum (eo_tp0 o) /\
  0 <= eo_tpakt o <= Rsum (eo_tp o) /\ length (eo_tp o) = length (eo_tp0 o).
Proof. intros H. destruct (evatra_facts_lemma x H) as [_ _ _ _ _ _ Ht _ _ _]. exact Ht. Qed.

Lemma uptake_zone_lemma (x : evatra_in (T:=R)) : evatra_wf x ->
  let o := evatra_struct x in
  forall i : nat, Rmin (IZR (Z.of_nat (eo_wurz o))) (ei_grw x) < IZR (Z.of_nat (i + 1)) ->
    nth i (eo_tp0 o) 0 = 0 /\ nth i (eo_tp o) 0 = 0.
Proof.
  intros H. destruct (evatra_facts_lemma x H) as [_ _ _ _ _ _ _ Hz _ _]. cbv zeta. intros i Hi.
  apply Hz. replace (S i) with (i + 1)%nat by lia. exact Hi.
Qed.

Lemma ratios_lemma (x : evatra_in (T:=R)) : evatra_wf x ->
  let o := evatra_struct x in
  (ei_crop x = true -> 0 <= eo_etrel o <= 1) /\ (ei_crop x = false -> eo_etrel o = ei_etrel x) /\
  (ei_crop x = true -> 0 < eo_tramax o -> 0 <= eo_trrel o <= 1) /\
  (ei_crop x = true -> eo_tramax o <= 0 -> eo_trrel o = ei_trrel x) /\
  (ei_crop x = false -> eo_trrel o = 1).
Proof. intros H. destruct (evatra_facts_lemma x H) as [_ _ _ _ _ _ _ _ He Ht]. cbv zeta. tauto. Qed.

Lemma redev_struct_lemma (x : evatra_in (T:=R)) :
  hd 0 (ei_wmin x) / 3 < hd 0 (ei_w x) ->
  let o := evatra_struct x in 0 <= eo_proz o <= 1 /\ 0 <= eo_redev o <= 1.
Proof.
  intros Hw. cbv zeta.
  pose proof (proz_range_lemma (hd 0 (ei_wg0 x)) (ei_regen x) (hd 0 (ei_wmin x)) (hd 0 (ei_w x)) Hw) as Hp.
  pose proof (redev_range_lemma _ Hp) as Hr.
  unfold evatra_struct. rsimp.
  destruct (split_of _ _ _) as [[evmax tramax] etcp]. destruct (ei_crop x).
  - destruct (lured_of _ _ _ _) as [ld lured]. destruct (uptake_struct _ _ _ _) as [[[[tp0 tp] tpakt] gwauf] weff].
    cbn [eo_proz eo_redev]. split; assumption.
  - cbn [eo_proz eo_redev]. split; assumption.
Qed.

(* ---------------------------------------------------------------- *)
(* 10. the uptake clamp of Water (WaterModel.uptake_layer, water.go:824-841): on the first sub-step of
   the day the uptake Evatra asked for is cut to the plant-available water of the layer            *)
Lemma uptake_avail_layer (wdt wg0 wmin tp : R) :
  let tp' := fst (@uptake_layer R RNum true wdt wg0 wmin tp) in
  tp' <= Rmax 0 (wg0 - wmin) * 10 /\ (0 <= tp -> 0 <= tp' <= tp).
Proof.
  cbv zeta. unfold uptake_layer. cbn [fst]. rewrite DZ_R. rnum. case_all; split; intros; lra.
Qed.

Lemma water_step_tp (x : water_in (T:=R)) : wo_tp (water_step x) = fst (uptake_phase x).
Proof.
  unfold water_step. destruct (uptake_phase x) as [tp' water0].
  destruct (surface_phase x water0) as [[[water1 q1] qdrain] ev'].
  destruct (cascade_phase x water1 q1) as [water1c q1c].
  destruct (capillary_phase x water1c q1c) as [[[water1k q1k] capterm] caplay]. reflexivity.
Qed.

Lemma uptake_avail_lemma (x : water_in (T:=R)) (n : nat) :
  wf_in x n -> wi_subd1 x = true ->
  forall i, (i < n)%nat ->
    let tp' := get 0 (wo_tp (water_step x)) i in
    tp' <= Rmax 0 (get 0 (wi_wg0 x) i - get 0 (wi_wmin x) i) * 10 /\
    (0 <= get 0 (wi_tp x) i -> 0 <= tp' <= get 0 (wi_tp x) i).
Proof.
  intros (Hn & Lwg & Ltp & Lw & Lwmin & Lnfk & Lev & Lq1) Hs i Hi. cbv zeta.
  rewrite water_step_tp. unfold uptake_phase. cbn [fst]. rewrite Hs. unfold get.
  set (f := fun '(wg0, wmin, tp) => @uptake_layer R RNum true (wi_wdt x) wg0 wmin tp).
  rewrite map_map.
  rewrite (nth_indep _ 0 (fst (f (0, 0, 0)))) by (rewrite map_length, !combine_length; lia).
  rewrite (map_nth (fun a => fst (f a))).
  rewrite !nth_combine by (rewrite ?combine_length; lia).
  unfold f. apply uptake_avail_layer.
Qed.

(* ---------------------------------------------------------------- *)
(* 11. binary64: the cap/floor step is exact — the result is the input, the cap or 0, never a rounded
   value, and lies in [0, cap] for every input that is not NaN                                      *)
Lemma SF_total (a b : spec_float) :
  a <> S754_nan -> b <> S754_nan -> SFltb b a = false -> SFleb a b = true.
Proof.
  unfold SFltb, SFleb.
  destruct a as [sa|sa| |sa ma ea], b as [sb|sb| |sb mb eb]; try congruence; intros _ _; cbn;
    try (destruct sa; try destruct sb; cbn; congruence).
  destruct sa, sb; cbn; try congruence.
  - rewrite (Z.compare_antisym eb ea). destruct (eb ?= ea)%Z; cbn; try congruence.
    pose proof (Pos.compare_cont_antisym mb ma Eq) as HA. cbn [CompOpp] in HA. rewrite <- HA.
    destruct (Pos.compare_cont Eq mb ma); cbn; congruence.
  - rewrite (Z.compare_antisym eb ea). destruct (eb ?= ea)%Z; cbn; try congruence.
    pose proof (Pos.compare_cont_antisym mb ma Eq) as HA. cbn [CompOpp] in HA. rewrite <- HA.
    destruct (Pos.compare_cont Eq mb ma); cbn; congruence.
Qed.

Lemma float_total (a b : float) :
  Prim2SF a <> S754_nan -> Prim2SF b <> S754_nan -> (b <? a)%float = false -> (a <=? b)%float = true.
Proof. rewrite ltb_spec, leb_spec. apply SF_total. Qed.

Definition capF (crop : bool) : float := if crop then @dec float FloatNum 65 2 else @dec float FloatNum 6 1.

Lemma pot_cap_binary64 (crop : bool) (v : float) :
  Prim2SF v <> S754_nan ->
  let r := @pot_cap float FloatNum crop v in
  (0 <=? r)%float = true /\ (r <=? capF crop)%float = true /\ (r = v \/ r = capF crop \/ r = 0%float).
Proof.
  intros Hv. cbv zeta. unfold pot_cap, gtb. cbn [ltb zero FloatNum]. unfold PrimFloat.zero.
  change (if crop then @dec float FloatNum 65 2 else @dec float FloatNum 6 1) with (capF crop).
  assert (Hc : Prim2SF (capF crop) <> S754_nan) by (destruct crop; vm_compute; discriminate).
  assert (H0 : Prim2SF 0%float <> S754_nan) by (vm_compute; discriminate).
  assert (Hc0 : (0 <=? capF crop)%float = true) by (destruct crop; vm_compute; reflexivity).
  assert (Hcc : (capF crop <=? capF crop)%float = true) by (destruct crop; vm_compute; reflexivity).
  assert (Hcneg : (capF crop <? 0)%float = false) by (destruct crop; vm_compute; reflexivity).
  assert (H00 : (0 <=? 0)%float = true) by (vm_compute; reflexivity).
  destruct (capF crop <? v)%float eqn:E1.
  - rewrite Hcneg. repeat split; auto.
  - destruct (v <? 0)%float eqn:E2.
    + repeat split; auto.
    + repeat split; auto; apply float_total; assumption.
Qed.

(* the R->F gap is real: at PROZ = 0 REDEV is 0 in exact arithmetic (redev_breakpoints) but negative at
   binary64 (.05 - .05*.2/.2 = -0x1p-57): ETA >= 0 holds at binary64 only up to round-off *)
Lemma redev_binary64_at_0 : (@redev_of float FloatNum 0%float <? 0)%float = true.
Proof. vm_compute. reflexivity. Qed.

(* non-vacuity of [evatra_wf] *)
Lemma C08_example_wf :
  evatra_wf {| ei_crop := true; ei_verdu := 4/10; ei_elai := 1/2; ei_expw := (1 :: 1/2 :: 1/4 :: nil);
               ei_regen := 0; ei_wg0 := (2/10 :: 2/10 :: 2/10 :: nil); ei_wmin := (1/10 :: 1/10 :: 1/10 :: nil);
               ei_w := (3/10 :: 3/10 :: 3/10 :: nil); ei_wnor := (3/10 :: 3/10 :: 3/10 :: nil);
               ei_porges := (4/10 :: 4/10 :: 4/10 :: nil); ei_wurz := 2; ei_wudich := (2 :: 1 :: 0 :: nil);
               ei_grw := 20; ei_lukrit := 8/100; ei_lumday := 0; ei_lured := 1; ei_etrel := 1; ei_trrel := 1 |}.
Proof.
  unfold evatra_wf. cbn. repeat split; try lra; try lia.
  repeat constructor; lra.
Qed.

(* ---------------------------------------------------------------- *)
(* 12. the day: what the Water sub-steps really take out and book as actual ET.  Every sub-step adds
   sum_i TP[i]*wdt + ETA*wdt to PFTRANS (water.go:954,970; the same terms go to ETAG after sowing and the
   TP part to TRAY).  With k >= 1 sub-steps of length 1/k — what C01_substeps_cover_day establishes for the
   day loop's own choice — the day's booked amount is ETA + sum of the clamped uptakes, hence at most the
   potential ET.                                                                                      *)
Lemma Rsum_le_pointwise (l l' : list R) : length l = length l' ->
  (forall i, (i < length l)%nat -> get 0 l i <= get 0 l' i) -> Rsum l <= Rsum l'.
Proof.
  revert l'. induction l as [|a l IH]; intros [|b l'] Hlen H; cbn in Hlen; try lia; cbn [Rsum]; [lra|].
  pose proof (H 0%nat ltac:(cbn; lia)) as H0. unfold get in H0. cbn in H0.
  assert (Rsum l <= Rsum l'). { apply IH; [lia|]. intros i Hi. apply (H (S i)). cbn. lia. }
  lra.
Qed.

Definition booked_aet (k : nat) (x : water_in (T:=R)) : R :=
  Rsum (map (fun o => Rsum (wo_tpsum_terms o) + wi_eta x * wi_wdt x) (water_iter k x)).

Lemma booked_aet_eq (x : water_in (T:=R)) (n k : nat) :
  wf_in x n -> (1 <= k)%nat -> wi_wdt x = / INR k ->
  booked_aet k x = wi_eta x + Rsum (wo_tp (water_step x)).
Proof.
  intros Hwf Hk Hwdt. unfold booked_aet.
  assert (HINR : INR k <> 0) by (apply not_0_INR; lia).
  assert (Hsplit : forall (c : R) (l : list (water_out (T:=R))),
            Rsum (map (fun o => Rsum (wo_tpsum_terms o) + c) l) =
            Rsum (map (fun o => Rsum (wo_tpsum_terms o)) l) + INR (length l) * c).
  { intros c l. induction l as [|o l IH]; [cbn; lra|].
    cbn [map Rsum]. rewrite IH.
    replace (INR (length (o :: l))) with (INR (length l) + 1) by (cbn [length]; rewrite S_INR; reflexivity). lra. }
  rewrite Hsplit, water_iter_length.
  assert (E2 : Rsum (map (fun o => Rsum (wo_tpsum_terms o)) (water_iter k x)) = Rsum (wo_tp (water_step x))).
  { destruct k as [|k]; [lia|]. cbn [water_iter]. cbv zeta. cbn [map Rsum].
    destruct (water_next_wf x n Hwf) as [Hwf' Hs'].
    pose proof (water_iter_tp k (water_next x (water_step x)) n Hwf' Hs') as HF.
    cbn [wi_wdt wi_tp water_next] in HF.
    assert (Hsum : Rsum (map (fun o => Rsum (wo_tpsum_terms o)) (water_iter k (water_next x (water_step x))))
                   = INR (length (water_iter k (water_next x (water_step x)))) * (Rsum (wo_tp (water_step x)) * wi_wdt x)).
    { induction HF as [|o l Ho HF IH]; cbn [map Rsum]; [cbn; lra|].
      rewrite Ho, IH, Rsum_map_scale.
      replace (INR (length (o :: l))) with (INR (length l) + 1) by (cbn [length]; rewrite S_INR; reflexivity).
      lra. }
    rewrite Hsum, water_iter_length, water_step_terms, Rsum_map_scale, Hwdt. rewrite S_INR in *. field. exact HINR. }
  rewrite E2, Hwdt. field. exact HINR.
Qed.

Lemma booked_le_pet_lemma (e : evatra_in (T:=R)) (x : water_in (T:=R)) (n k : nat) :
  evatra_wf e -> wf_in x n -> wi_subd1 x = true ->
  wi_tp x = eo_tp (evatra_struct e) -> wi_eta x = eo_eta (evatra_struct e) ->
  (1 <= k)%nat -> wi_wdt x = / INR k ->
  booked_aet k x = wi_eta x + Rsum (wo_tp (water_step x)) /\
  0 <= booked_aet k x <= ei_verdu e.
Proof.
  intros He Hwf Hs Htp Heta Hk Hwdt.
  pose proof (booked_aet_eq x n k Hwf Hk Hwdt) as Eb. split; [exact Eb|]. rewrite Eb.
  destruct (aet_le_pet_lemma e He) as (A1 & A2 & A3 & A4 & A5). cbv zeta in *.
  pose proof (water_step_balance_lemma x n Hwf) as HB. cbv zeta in HB. destruct HB as (_ & _ & _ & Ltp').
  destruct Hwf as (Hn & Lwg & Ltp & Hrest).
  assert (Hpt : forall i, (i < n)%nat ->
            0 <= get 0 (wo_tp (water_step x)) i <= get 0 (wi_tp x) i).
  { intros i Hi.
    destruct (uptake_avail_lemma x n (conj Hn (conj Lwg (conj Ltp Hrest))) Hs i Hi) as [_ H2]. cbv zeta in H2.
    apply H2. rewrite Htp. unfold get. rewrite Forall_forall in A4. apply A4. apply nth_In. rewrite <- Htp. lia. }
  assert (Hle : Rsum (wo_tp (water_step x)) <= Rsum (wi_tp x)).
  { apply Rsum_le_pointwise; [lia|]. intros i Hi. apply Hpt. lia. }
  assert (H0 : 0 <= Rsum (wo_tp (water_step x))).
  { apply Rsum_nonneg. apply Forall_forall. intros t Hin. destruct (In_nth _ _ 0 Hin) as (i & Hi & <-).
    apply (Hpt i). lia. }
  rewrite Heta, Htp in *. lra.
Qed.

(* ---------------------------------------------------------------- *)
(* 13. the season: the per-crop sums the crop record reports.  ETC0 collects the potential ET of every
   day (water.go:480) and is zeroed on the sowing day (run.go:613); ETAG / TRAG collect what the Water
   sub-steps book as actual ET / transpiration (water.go:954-973) and are zeroed on the sowing day
   (crop.go:68-69) and at harvest (nitro.go:428-429, DayWaterModel.season_reset), right after Nitro has
   copied (ETC0, ETAG, TRAG) into the crop record (nitro.go:391-393).  All resets happen after the day's
   Evatra and (first) Water call.                                                                    *)
Record sday := {
  sd_pet : R;          (* the day's potential ET (VERDU) *)
  sd_booked : R;       (* actual ET booked that day before the reset/record point: 0 when Water does not book
                          (not after sowing), a part of the day when the record is taken after sub-step 1 *)
  sd_tr : R;           (* its transpiration part *)
  sd_sow : bool;       (* sowing day: the three sums are zeroed *)
  sd_harvest : bool;   (* harvest: the sums are recorded, ETAG and TRAG zeroed *)
}.

Definition sday_ok (d : sday) : Prop := 0 <= sd_tr d <= sd_booked d /\ sd_booked d <= sd_pet d.
Definition sstate_ok (st : R * R * R) : Prop := let '(c, a, t) := st in 0 <= t <= a /\ a <= c.

(* [both] = the sowing block zeroes ETAG/TRAG together with ETC0 (the code); [both = false] is the variant
   in which only ETC0 is zeroed there *)
Fixpoint season_run (both : bool) (st : R * R * R) (days : list sday) : list (R * R * R) :=
  match days with
  | [] => []
  | d :: r =>
      let '(c, a, t) := st in
      let '(c1, a1, t1) := (c + sd_pet d, a + sd_booked d, t + sd_tr d) in
      if sd_sow d then season_run both (if both then (0, 0, 0) else (0, a1, t1)) r
      else if sd_harvest d then (c1, a1, t1) :: season_run both (c1, 0, 0) r
      else season_run both (c1, a1, t1) r
  end.

Lemma season_lemma (days : list sday) : forall st,
  Forall sday_ok days -> sstate_ok st ->
  Forall (fun rec => let '(etcg, etag, trag) := rec in 0 <= trag <= etag /\ etag <= etcg) (season_run true st days).
Proof.
  induction days as [|d r IH]; intros [[c a] t] Hd Hst; cbn [season_run]; [constructor|].
  pose proof (Forall_inv Hd) as (H1 & H2). pose proof (Forall_inv_tail Hd) as Hr.
  unfold sstate_ok in Hst. destruct Hst as [Ht Ha].
  destruct (sd_sow d).
  - apply IH; [exact Hr | unfold sstate_ok; lra].
  - destruct (sd_harvest d).
    + constructor; [lra|]. apply IH; [exact Hr | unfold sstate_ok; lra].
    + apply IH; [exact Hr | unfold sstate_ok; lra].
Qed.

(* the sowing reset of ETAG/TRAG is needed: with automatic sowing Water books the fallow's bare-soil
   evaporation (the sowing date of the next crop is still 0, "zeit > SAAT" holds); a fallow day, the sowing
   day, one day of growth and the harvest give ETaG > ETcG when only ETC0 is zeroed at sowing *)
Lemma season_reset_needed :
  exists days, Forall sday_ok days /\
    exists etcg etag trag, In (etcg, etag, trag) (season_run false (0, 0, 0) days) /\ etcg < etag.
Proof.
  exists [ {| sd_pet := 1; sd_booked := 1; sd_tr := 0; sd_sow := false; sd_harvest := false |};
           {| sd_pet := 1; sd_booked := 0; sd_tr := 0; sd_sow := true; sd_harvest := false |};
           {| sd_pet := 1; sd_booked := 1; sd_tr := 0; sd_sow := false; sd_harvest := true |} ].
  split.
  - repeat constructor; cbn; lra.
  - exists (0 + 1), (0 + 1 + 0 + 1), (0 + 0 + 0 + 0). split; [cbn; left; reflexivity | lra].
Qed.

(* a day of the season from Evatra and the Water sub-steps: transpiration part <= booked <= potential *)
Lemma season_day_lemma (e : evatra_in (T:=R)) (x : water_in (T:=R)) (n k : nat) :
  evatra_wf e -> wf_in x n -> wi_subd1 x = true ->
  wi_tp x = eo_tp (evatra_struct e) -> wi_eta x = eo_eta (evatra_struct e) ->
  (1 <= k)%nat -> wi_wdt x = / INR k ->
  sday_ok {| sd_pet := ei_verdu e; sd_booked := booked_aet k x; sd_tr := Rsum (wo_tp (water_step x));
             sd_sow := false; sd_harvest := false |}.
Proof.
  intros He Hwf Hs Htp Heta Hk Hwdt.
  destruct (booked_le_pet_lemma e x n k He Hwf Hs Htp Heta Hk Hwdt) as [Eb [B0 B1]].
  destruct (aet_le_pet_lemma e He) as (A1 & _). cbv zeta in A1.
  unfold sday_ok. cbn [sd_tr sd_booked sd_pet]. rewrite Eb in *. rewrite Heta in *.
  assert (H0 : 0 <= Rsum (wo_tp (water_step x))).
  { pose proof (water_step_balance_lemma x n Hwf) as HB. cbv zeta in HB. destruct HB as (_ & _ & _ & Ltp').
    destruct (aet_le_pet_lemma e He) as (_ & _ & _ & A4 & _). cbv zeta in A4.
    apply Rsum_nonneg. apply Forall_forall. intros t Hin. destruct (In_nth _ _ 0 Hin) as (i & Hi & <-).
    destruct Hwf as (Hn & Lwg & Ltp & Hrest).
    destruct (uptake_avail_lemma x n (conj Hn (conj Lwg (conj Ltp Hrest))) Hs i ltac:(lia)) as [_ H2]. cbv zeta in H2.
    apply H2. rewrite Htp. unfold get. rewrite Forall_forall in A4. apply A4. apply nth_In. rewrite <- Htp. lia. }
  lra.
Qed.

Definition season_stmt : Prop :=
  (forall (days : list sday) (st : R * R * R), Forall sday_ok days -> sstate_ok st ->
     Forall (fun rec => let '(etcg, etag, trag) := rec in 0 <= trag <= etag /\ etag <= etcg) (season_run true st days)) /\
  (forall (e : evatra_in (T:=R)) (x : water_in (T:=R)) (n k : nat),
     evatra_wf e -> wf_in x n -> wi_subd1 x = true ->
     wi_tp x = eo_tp (evatra_struct e) -> wi_eta x = eo_eta (evatra_struct e) ->
     (1 <= k)%nat -> wi_wdt x = / INR k ->
     sday_ok {| sd_pet := ei_verdu e; sd_booked := booked_aet k x; sd_tr := Rsum (wo_tp (water_step x));
                sd_sow := false; sd_harvest := false |}) /\
  (exists days, Forall sday_ok days /\
     exists etcg etag trag, In (etcg, etag, trag) (season_run false (0, 0, 0) days) /\ etcg < etag).

Lemma season_stmt_lemma : season_stmt.
Proof. exact (conj season_lemma (conj season_day_lemma season_reset_needed)). Qed.

(* ---------------------------------------------------------------- *)
(* 14. what leaves the soil through the surface: EVA = ETA - (rain + irrigation), FLUSS0 = -EVA; with a
   non-negative rain amount the evaporative surface flux is at most the actual evaporation ETA (a negative
   "rain" - a missing-value marker that reached Evatra - would be evaporated on top of it)            *)
Lemma surface_flux_lemma (x : evatra_in (T:=R)) :
  let o := evatra_struct x in
  eo_eva o = eo_eta o - ei_regen x /\ eo_fluss0 o = - eo_eva o /\
  (0 <= ei_regen x -> - eo_fluss0 o <= eo_eta o).
Proof.
  cbv zeta. unfold evatra_struct. rsimp.
  destruct (split_of _ _ _) as [[evmax tramax] etcp]. destruct (ei_crop x).
  - destruct (lured_of _ _ _ _) as [ld lured]. destruct (uptake_struct _ _ _ _) as [[[[tp0 tp] tpakt] gwauf] weff].
    cbn [eo_eva eo_eta eo_fluss0]. repeat split; try lra.
  - cbn [eo_eva eo_eta eo_fluss0]. repeat split; try lra.
Qed.
