(* DevModel.v — executable model of the DEVELOPMENT-RATE block of hermes.PhytoOut and of the
   functions it calls (hermes/crop.go:238-289, vern 1005-1040, root 981-1003), over [Num].
   Until now the vernalisation factor FV, the day-length factor FP and the stress acceleration
   devprog were ORACLE inputs of CropModel.stage_inc; here they are computed the way the code
   computes them, and [dev_step] composes them with the stage fragment of CropModel into one
   transition of (stage state, vernalisation days), so that statements about a whole crop cycle
   no longer assume anything about these three factors.  No proofs in this file.

   Oracles that remain (transcendental functions): the photoperiodic day length DLP
   (solar.go CalculateDayLenght: sin/cos/asin) and, in root(), the value of
   math.Pow(0.081476 + math.Exp(-veloc*(tempsum+Tsumbase)), 1.8).
   math.Pow(x, 2) is the product x*x (bit-exact, checked by the correspondence).
   Operation order follows the Go source. *)
From Coq Require Import ZArith List Bool.
From Hermes Require Import Num CropModel.
Import ListNotations.
Local Open Scope num_scope.

Section Dev.
  Context {T : Type} {NT : Num T}.

  (* ------------------------------------------------------------------ *)
  (* vern(): crop.go:1013-1029 — daily vernalisation effect of the mean temperature *)
  Definition vern_eff (t : T) : T :=
    if (t <? zero) && gtb t (- ofZ 4) then (t + ofZ 4) / ofZ 4
    else if t <? - ofZ 4 then zero
    else if gtb t (ofZ 3) && (t <? ofZ 7) then one - dec 2 1 * (t - ofZ 3) / ofZ 4
    else if gtb t (ofZ 7) && (t <? ofZ 9) then dec 8 1 - dec 4 1 * (t - ofZ 7) / ofZ 2
    else if gtb t (ofZ 9) && (t <? ofZ 18) then dec 4 1 - dec 4 1 * (t - ofZ 9) / ofZ 9
    else if (t <? - ofZ 4) || gtb t (ofZ 18) then zero
    else one.

  (* crop.go:1030-1040 — accumulated vernalisation days and the factor FV *)
  Definition vern_step (t verntage dt vschwell : T) : T * T :=
    let vt := verntage + vern_eff t * dt in
    let vs := minv vschwell (ofZ 9) - one in
    let fv := if geb vs one then
                let f := (vt - vs) / (vschwell - vs) in
                if f <? zero then zero else if gtb f one then one else f
              else one in
    (vt, fv).

  (* crop.go:238-243 — a stage without vernalisation requirement does not call vern() *)
  Definition dev_fv (t verntage dt vschwell : T) : T * T :=
    if vschwell =? zero then (verntage, one) else vern_step t verntage dt vschwell.

  (* crop.go:244-264 — day-length factor with its two clamps *)
  Definition dev_fp (dlp dayl dlbas : T) : T :=
    let fp0 := if gtb dayl zero then (dlp - dlbas) / (dayl - dlbas)
               else if dayl <? zero then
                 if dlp <=? absv dayl then one
                 else (dlp - absv dlbas) / (absv dayl - absv dlbas)
               else one in
    let fp1 := if gtb fp0 one then one else fp0 in
    if fp1 <? zero then zero else fp1.

  (* crop.go:266-285 — acceleration of development under N or water stress;
     [no_nstress] = the crop is sugar beet or silage maize *)
  Definition dev_prog (no_nstress : bool) (reduk trrel dryswell lured : T) : T :=
    let nprog := if no_nstress then one else one + (one - reduk) * (one - reduk) in
    let wprog := if trrel <? dryswell then
                   if lured <? one then one
                   else one + dec 2 1 * ((one - trrel) * (one - trrel))
                 else one in
    maxv nprog wprog.

  (* ------------------------------------------------------------------ *)
  (* the day's inputs of the development block; per-stage parameter arrays have 10 entries *)
  Record dev_in := { di_stage : stage_in (T:=T);     (* its three oracle fields are NOT read *)
                     di_vschwell : list T; di_dayl : list T; di_dlbas : list T; di_dryswell : list T;
                     di_dlp : T;                      (* oracle: CalculateDayLenght *)
                     di_reduk : T; di_trrel : T; di_lured : T; di_no_nstress : bool }.

  Record dev_st := { ds_stage : stage_st (T:=T); ds_verntage : T }.

  (* the three factors of the day for stage index k *)
  Definition dev_factors (x : dev_in) (k : nat) (verntage : T) : T * T * T * T :=
    let sx := di_stage x in
    let '(vt, fv) := dev_fv (si_temp sx) verntage (si_dt sx) (cg (di_vschwell x) k) in
    let fp := dev_fp (di_dlp x) (cg (di_dayl x) k) (cg (di_dlbas x) k) in
    let dp := dev_prog (di_no_nstress x) (di_reduk x) (di_trrel x) (cg (di_dryswell x) k) (di_lured x) in
    (vt, fv, fp, dp).

  Definition with_factors (sx : stage_in (T:=T)) (fv fp dp : T) : stage_in (T:=T) :=
    {| si_tsum := si_tsum sx; si_bas := si_bas sx; si_nrentw := si_nrentw sx; si_doy := si_doy sx;
       si_zeit := si_zeit sx; si_temp := si_temp sx; si_wg00 := si_wg00 sx; si_w0 := si_w0 sx;
       si_wmin0 := si_wmin0 sx; si_dt := si_dt sx; si_fv := fv; si_fp := fp; si_devprog := dp |}.

  (* one day of the development part of PhytoOut: emergence sum, stage advance (crop.go:130-158),
     then — inside the growth block — the factors for the stage reached and the increment *)
  Definition dev_step (x : dev_in) (s : dev_st) : dev_st :=
    let sx := di_stage x in
    let st := ds_stage s in
    let s1 := {| st_k := st_k st; st_sum := emerge_sum sx (st_k st) (st_sum st); st_dev := st_dev st;
                 st_dates := st_dates st; st_phyllo := st_phyllo st |} in
    let s2 := stage_advance sx s1 in
    if grown (st_sum s2) (si_tsum sx) then
      let '(vt, fv, fp, dp) := dev_factors x (st_k s2) (ds_verntage s) in
      {| ds_stage := stage_inc (with_factors sx fv fp dp) s2; ds_verntage := vt |}
    else {| ds_stage := s2; ds_verntage := ds_verntage s |}.

  Fixpoint dev_run (xs : list dev_in) (s : dev_st) : dev_st :=
    match xs with
    | [] => s
    | x :: r => dev_run r (dev_step x s)
    end.

  (* ------------------------------------------------------------------ *)
  (* root(): crop.go:981-1003.  [p] = math.Pow(0.081476 + math.Exp(-veloc*(tempsum+Tsumbase)), 1.8) *)
  Definition root_qrez (p : T) : T := maxv p (dec 22 3).
  Definition pot_root_depth (qrez : T) : T := dec 45 1 / qrez.
  Definition root_layers (qrez dz : T) : Z := truncZ (pot_root_depth qrez / dz).
  (* cumulative root share down to the lower boundary of layer i (1-based), [e] = math.Exp(-qrez*(i*10)) *)
  Definition root_cum (e : T) : T := (one - e) * ofZ 100.
  (* ------------------------------------------------------------------ *)
  (* crop coefficient and BBCH code from the development progress (crop.go:138-139 before emergence, 293-307 in the growth block) *)
  Definition relint_of (sum tsum : T) : T := let r := sum / tsum in if gtb r one then one else r.

  (* before emergence (stage 1, growth block not reached): no clamp, the product is divided last *)
  Definition fkc_pre (kcini kc0 sum0 tsum0 : T) : T := kcini + (kc0 - kcini) * sum0 / tsum0.
  Definition bbch_pre (end0 sum0 tsum0 : T) : Z := truncZ (end0 * sum0 / tsum0).

  (* in the growth block: stage 1 interpolates from the bare-soil value, later stages from the previous stage's value *)
  Definition fkc_of (first_stage : bool) (kcini kc_prev kc_k relint : T) : T :=
    if first_stage then kcini + (kc_k - kcini) * relint else kc_prev + (kc_k - kc_prev) * relint.
  Definition bbch_of (first_stage : bool) (end_prev end_k relint : T) : Z :=
    if first_stage then truncZ (end_k * relint) else truncZ (end_prev + (end_k - end_prev) * relint).
End Dev.
