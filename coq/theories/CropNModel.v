(* CropNModel.v — second layer of executable models of hermes.PhytoOut (hermes/crop.go), over [Num]:
     6. critical / maximal N concentration of the biomass GEHMIN / GEHMAX, all nine N-content
        functions NGEFKT = 1..9                                         (crop.go:313-419)
     7. N concentration of roots and shoot after the day's uptake: WUGEH, GEHOB   (crop.go:741-763)
     8. dry-matter partitioning: row lookup in the partition / death-rate tables PRO / DEAD per
        development stage (crop.go:457-458; the organ update itself is CropModel.organs_day)
   Oracle arguments (never axioms): every value of math.Exp / math.Pow / math.Log.  For each of them
   the model also computes the ARGUMENT it would pass, so that the correspondence can check that the
   harness evaluated Go's function on exactly that argument.
   Operation order follows the Go source.  No proofs here. *)
From Coq Require Import ZArith List Bool.
From Hermes Require Import Num CropModel.
Import ListNotations.
Local Open Scope num_scope.

Section CropN.
  Context {T : Type} {NT : Num T}.

  (* ------------------------------------------------------------------ *)
  (* 6. GEHMIN / GEHMAX                                                   *)

  Record nc_in := { nc_fkt : Z;            (* NGEFKT *)
                    nc_wrsg : bool;         (* crop is WR or SG *)
                    nc_phyllo : T; nc_obmas : T; nc_worg3 : T (* WORG[3] *);
                    nc_suborg : T           (* WORG[SubOrgan-1], 0 when SubOrgan = 0 *);
                    nc_rga : T; nc_rgb : T; nc_tendsum : T;
                    nc_lg : T               (* oracle: math.Log(1 - math.Sqrt2/2) *);
                    nc_o1 : T; nc_o2 : T    (* oracles: value of Exp/Pow for GEHMIN resp. GEHMAX *) }.

  Definition ndec (m : Z) (k : nat) : T := opp (dec m k).       (* a negative decimal constant *)

  (* which branch: true = the constant start values, false = the declining function *)
  Definition nc_early (x : nc_in) : bool :=
    match nc_fkt x with
    | 1%Z => nc_phyllo x <? ofZ 200
    | 3%Z | 7%Z => nc_obmas x <? ofZ 1000
    | 4%Z | 9%Z => (nc_obmas x + nc_worg3 x) <? ofZ 1000
    | 5%Z => (nc_obmas x + nc_suborg x) <? ofZ 1100
    | 6%Z => nc_phyllo x <? ofZ 400
    | 8%Z => nc_phyllo x <? ofZ 200 * nc_tendsum x / ofZ 1260
    | _ => false
    end.

  (* crop.go:402: correction of the development scale for variety specific temperature sums *)
  Definition nc_dvkor (x : nc_in) : T := one / ((nc_tendsum x - ofZ 200) / ofZ 1060).

  (* arguments of the oracle calls: (argument behind GEHMIN, argument behind GEHMAX);
     for Pow the base is the argument (the exponent is a constant / RGB) *)
  Definition nc_args (x : nc_in) : T * T :=
    let p := nc_phyllo x in
    match nc_fkt x with
    | 1%Z => if nc_wrsg x then (ndec 165 5 * p, ndec 17 4 * p) else (ndec 14 4 * p, ndec 147 5 * p)
    | 2%Z => (opp (p - dec 15230391 5 * nc_lg x - dec 43863545 5) / dec 15230391 5,
            opp (p - dec 20150354 5 * nc_lg x - dec 3858318 4) / dec 20150354 5)
    | 3%Z | 7%Z => (nc_obmas x / ofZ 1000, nc_obmas x / ofZ 1000)
    | 4%Z => (ndec 26 2 * (nc_obmas x + nc_worg3 x) / ofZ 1000, ndec 26 2 * (nc_obmas x + nc_worg3 x) / ofZ 1000)
    | 5%Z => ((nc_obmas x + nc_suborg x) / ofZ 1000, (nc_obmas x + nc_suborg x) / ofZ 1000)
    | 6%Z => (ndec 7 4 * p, ndec 7 4 * p)
    | 8%Z => if nc_wrsg x then (ndec 165 5 * nc_dvkor x * p, ndec 17 4 * nc_dvkor x * p)
           else (ndec 14 4 * nc_dvkor x * p, ndec 147 5 * nc_dvkor x * p)
    | 9%Z => (ndec 26 2 * nc_obmas x / ofZ 1000, ndec 26 2 * nc_obmas x / ofZ 1000)
    | _ => (zero, zero)
    end.

  Definition sq (v : T) : T := v * v.         (* math.Pow(v, 2) *)

  (* (GEHMIN, GEHMAX); [None] = NGEFKT outside 1..9: both keep their values *)
  Definition ncontent (x : nc_in) : option (T * T) :=
    let o1 := nc_o1 x in let o2 := nc_o2 x in
    match nc_fkt x with
    | 1%Z => Some (if nc_early x then (dec 415 4, dec 6 2)
                 else if nc_wrsg x then (dec 51 1 * o1 / ofZ 100, ofZ 8 * o2 / ofZ 100)
                 else (dec 55 1 * o1 / ofZ 100, dec 81 1 * o2 / ofZ 100))
    | 2%Z => Some (if nc_phyllo x <? ofZ 263 then dec 35 3 else dec 35 3 - dec 24645 6 * sq (one - o1),
                 if nc_phyllo x <? ofZ 142 then dec 49 3 else dec 49 3 - dec 37883841 9 * sq (one - o2))
    | 3%Z => Some (if nc_early x then (dec 45 3, dec 6 2) else (dec 45 3 * o1, dec 6 2 * o2))
    | 4%Z => Some (if nc_early x then (dec 45 3, dec 6 2) else (dec 135 4 + dec 403 4 * o1, dec 285 4 + dec 403 4 * o2))
    | 5%Z => Some (if nc_early x then (nc_rga x, dec 6 2) else (nc_rga x * o1, dec 6 2 * o2))
    | 6%Z => Some (if nc_early x then (dec 415 4, dec 6 2) else (dec 55 1 * o1 / ofZ 100, dec 81 1 * o2 / ofZ 100))
    | 7%Z => Some (if nc_early x then (dec 448 4, dec 615 4) else (dec 448 4 * o1, dec 615 4 * o2))
    | 8%Z => Some (if nc_early x then (dec 415 4, dec 6 2)
                 else if nc_wrsg x then (dec 51 1 * o1 / ofZ 100, ofZ 8 * o2 / ofZ 100)
                 else (dec 55 1 * o1 / ofZ 100, dec 81 1 * o2 / ofZ 100))
    | 9%Z => Some (if nc_early x then (dec 45 3, dec 6 2) else (dec 135 4 + dec 403 4 * o1, dec 285 4 + dec 403 4 * o2))
    | _ => None
    end.

  (* ------------------------------------------------------------------ *)
  (* 7. WUGEH / GEHOB after the uptake (crop.go:741-763)                  *)

  Record nq_in := { nq_zrk : bool;
                    nq_wumalt : T; nq_obalt : T; nq_gehalt : T;     (* values before the growth step; 0 before emergence *)
                    nq_wumas : T; nq_obmas : T; nq_worg3 : T;
                    nq_wugeh : T; nq_wgmax : T;
                    nq_pesum : T; nq_sumpe : T; nq_nfix : T }.

  (* share of the day's uptake booked on the roots: dWUMAS / (dOBMAS + dWUMAS) *)
  Definition root_share (x : nq_in) : T :=
    if nq_zrk x then (nq_wumas x - nq_wumalt x) / (nq_obmas x + nq_worg3 x - nq_obalt x + nq_wumas x - nq_wumalt x)
    else (nq_wumas x - nq_wumalt x) / (nq_obmas x - nq_obalt x + nq_wumas x - nq_wumalt x).

  (* crop.go:741-755 *)
  Definition wugeh_of (x : nq_in) : T :=
    if gtb (nq_wumas x) (nq_wumalt x) then
      let w1 :=
        if gtb (nq_obmas x - nq_obalt x + nq_wumas x - nq_wumalt x) zero then
          if nq_zrk x then (nq_wumalt x * nq_wugeh x + (root_share x * nq_sumpe x)) / nq_wumas x
          else (nq_wumalt x * nq_wugeh x + root_share x * (nq_sumpe x + nq_nfix x)) / nq_wumas x
        else nq_wugeh x in
      let w2 := minv w1 (nq_wgmax x) in
      if w2 <? dec 5 3 then dec 5 3 else w2
    else nq_wugeh x.

  (* crop.go:756-763: (GEHOB, WUGEH) *)
  Definition nquota (x : nq_in) : T * T :=
    let wg := wugeh_of x in
    if nq_zrk x then
      let geh := (nq_pesum x + nq_sumpe x - nq_wumas x * wg) / (nq_obmas x + nq_worg3 x) in
      if geh * (nq_obmas x + nq_worg3 x) <? nq_obalt x * nq_gehalt x then
        (geh, (nq_pesum x + nq_sumpe x - (nq_obmas x + nq_worg3 x) * geh) / nq_wumas x)
      else (geh, wg)
    else
      ((nq_pesum x + nq_sumpe x + nq_nfix x - nq_wumas x * wg) / nq_obmas x, wg).

  (* ------------------------------------------------------------------ *)
  (* 8. partition / death-rate tables                                     *)

  (* row of stage k of a table (g.PRO[k], g.DEAD[k]); stages beyond the table read as zeros like the Go array *)
  Definition table_row (tab : list (list T)) (k : nat) : list T := nth k tab [].

  (* the organ-update input of stage index k >= 1 (crop.go:457-458 read rows k-1 and k) *)
  Definition organ_in_of_tables (pro dead : list (list T)) (k : nat) (x : organ_in (T:=T)) : organ_in (T:=T) :=
    {| oi_nrkom := oi_nrkom x; oi_last := oi_last x; oi_sumk := oi_sumk x; oi_tsumk := oi_tsumk x; oi_gtw := oi_gtw x;
       oi_mterm := oi_mterm x; oi_reduk := oi_reduk x;
       oi_pro_lo := table_row pro (k - 1); oi_pro_hi := table_row pro k;
       oi_dead_lo := table_row dead (k - 1); oi_dead_hi := table_row dead k;
       oi_dt := oi_dt x; oi_laifkt_lo := oi_laifkt_lo x; oi_laifkt_hi := oi_laifkt_hi x; oi_laifkt0 := oi_laifkt0 x;
       oi_gehalt := oi_gehalt x |}.

  (* growth rate of organ i alone (first component of organ_rates; it does not depend on the state) *)
  Definition growth_rate (x : organ_in (T:=T)) (i : nat) : T :=
    if gtb (oi_sumk x / oi_tsumk x) one then zero
    else oi_gtw x * dec 7 1 * (cg (oi_pro_lo x) i + (cg (oi_pro_hi x) i - cg (oi_pro_lo x) i) * oi_sumk x / oi_tsumk x) * oi_reduk x
         - cg (oi_mterm x) i.
  (* ------------------------------------------------------------------ *)
  (* 9. daily gross assimilation from the light-response values (crop.go:919-978, inside radia()).
        DGAC / DGAO (assimilation of a clear / overcast day), DLE, DRC, MAINTS*TEFF come from the radiation and
        light-response code that is not modelled.  Tied bit for bit through the harness' shadow of radia() (recorder for the locals,
        shadow = real kernel via the hook VerifRadia on every case): C09Corr.assim_check. *)
  Record as_in := { as_rad : T; as_sund : T; as_dle : T; as_dgac : T; as_dgao : T; as_drc : T;
                    as_trrel : T; as_vswell : T; as_maint_pot : T (* MAINTS*TEFF *); as_cold : bool (* TEMP < MINTMP *) }.

  Definition assim_dtga (x : as_in) : T :=
    if as_rad x =? zero then
      let sund := if gtb (as_sund x) (as_dle x) then as_dle x else as_sund x in
      sund / as_dle x * as_dgac x + (one - sund / as_dle x) * as_dgao x
    else
      let fov0 := (as_drc x - ofZ 1000000 * as_rad x * one) / (dec 8 1 * as_drc x) in
      let fov1 := if gtb fov0 one then one else fov0 in
      let fov := if fov1 <? zero then zero else fov1 in
      fov * as_dgao x + (one - fov) * as_dgac x.

  (* (GPHOT, MAINT) *)
  Definition assim_of (x : as_in) : T * T :=
    let g0 := assim_dtga x * ofZ 30 / ofZ 44 in
    let g1 := if as_trrel x <? as_vswell x then g0 * as_trrel x else g0 in
    let maint := if g1 <? as_maint_pot x then g1 else as_maint_pot x in
    (if as_cold x then maint else g1, maint).
  (* ------------------------------------------------------------------ *)
  (* 10. the three day lengths of CalculateDayLenght (hermes/solar.go:19-27): astronomical DL, effective DLE (sun more
         than 8 degrees above the horizon), photoperiodic DLP (civil twilight, 6 degrees below).  SINLD, COSLD, sin(8 deg),
         sin(-6 deg) and math.Pi enter as values; the three math.Asin results are oracles, the model computes their
         ARGUMENTS: each ratio is shifted first and clamped to [-1,1] afterwards *)
  Definition limit1 (v : T) : T := if gtb v one then one else if v <? opp one then opp one else v.   (* Limit(v, 1, -1) *)

  Record dl_in := { dl_sinld : T; dl_cosld : T; dl_s8 : T; dl_s6 : T; dl_pi : T;
                    dl_v0 : T; dl_v1 : T; dl_v2 : T (* oracles: asin of the three arguments *) }.

  Definition dl_args (x : dl_in) : T * T * T :=
    (limit1 (dl_sinld x / dl_cosld x),
     limit1 ((opp (dl_s8 x) + dl_sinld x) / dl_cosld x),
     limit1 ((opp (dl_s6 x) + dl_sinld x) / dl_cosld x)).

  Definition dl_hours (pi v : T) : T := ofZ 12 * (pi + two * v) / pi.

  (* (DL, DLE, DLP) *)
  Definition daylengths (x : dl_in) : T * T * T :=
    (dl_hours (dl_pi x) (dl_v0 x), dl_hours (dl_pi x) (dl_v1 x), dl_hours (dl_pi x) (dl_v2 x)).

  (* ------------------------------------------------------------------ *)
  (* 11. season means of the stress factors in the crop record (hermes/nitro.go:327-328):
         sum over the days of the season / number of days between sowing and harvest (ERNTE - SAAT) *)
  Definition season_mean (total : T) (saat ernte : Z) : T := total / ofZ (ernte - saat).
End CropN.

(* ---------------------------------------------------------------------- *)
(* decimal tables as they stand in the parameter files: entry = (mantissa, number of decimals) *)
Definition dec_row {T} {NT : Num T} (r : list (Z * nat)) : list T := map (fun e => dec (fst e) (snd e)) r.
Definition dec_table {T} {NT : Num T} (t : list (list (Z * nat))) : list (list T) := map dec_row t.
