(* DayBounds.v — the dryness-limit clause of C06 for the COMPOSED day (DayWaterModel.day_water: irrigation glue,
   Evatra, the model's own sub-step choice, all Water sub-steps): on a day whose surface flux as Evatra computes it
   is not net evaporation, every layer that starts the day at or above its dryness limit ends every sub-step at or
   above it.  Composition of C08 (Evatra's uptake is non-negative), C01 (the sub-steps cover exactly one day) and
   the whole-day induction of WaterDayBounds. *)
From Coq Require Import ZArith Reals List Bool Lra Lia.
From Hermes Require Import Num RUtil WaterModel WaterProofs WaterBounds WaterDayBounds EvatraModel EvatraProofs
     DayWaterModel DayWaterProofs.
Import ListNotations.
Local Open Scope R_scope.

Lemma day_lower_composed_lemma (x : day_in (T:=R)) (n : nat) :
  day_wf x n ->
  evatra_wf (evatra_in_of x (day_regen x)) ->
  let o := day_water x in
  0 <= eo_fluss0 (do_ev o) ->
  0 <= di_draifak x <= 1 -> Forall (fun c => 0 <= c) (di_caps x) ->
  Forall (fun wmin => 0 <= wmin) (di_wmin x) ->
  Forall2 (fun w wmin => wmin / 3 <= w) (di_w x) (di_wmin x) ->
  Forall2 (fun wg0 wmin => wmin / 3 <= wg0) (di_wg1 x) (di_wmin x) ->
  (forall i, (i < n)%nat ->
     nth i (day_tp o) 0 * (1 - do_wdt o) <= (nth i (di_w x) 0 - nth i (di_wmin x) 0 / 3) * 10) ->
  Forall (fun o' => forall i, (i < n)%nat -> nth i (di_wmin x) 0 / 3 <= get 0 (wo_wg1 o') i) (do_outs o).
Proof.
  intros Hwf Hev o Hfl Hdf Hcaps Hwmin Hw Hstart Hfit.
  pose proof (day_steps_lemma x) as (Hk1 & Hwdt & Hcov). fold o in Hk1, Hwdt, Hcov.
  subst o. unfold day_water in *.
  set (regen := day_regen x) in *.
  set (e := evatra_struct (evatra_in_of x regen)) in *.
  destruct (steps_of (wdt_of (zsr_of (eo_fluss0 e) regen (di_w x) (di_wg1 x)))) as [steps wdt] eqn:Est.
  cbn [do_outs do_ev do_steps do_wdt day_tp] in *.
  pose proof (evatra_facts_lemma _ Hev) as HF. fold e in HF.
  destruct (ef_tp _ _ HF) as (Htp & _).
  set (x1 := water_in_of x e wdt) in *.
  assert (Hwf1 : wf_in x1 n) by (apply water_in_of_wf; exact Hwf).
  assert (Hwdt0 : 0 <= wdt).
  { rewrite Hwdt. left. apply Rinv_0_lt_compat. apply IZR_lt. lia. }
  assert (Hp : params_ok x1).
  { unfold params_ok, x1, water_in_of. cbn [wi_wdt wi_draifak wi_caps wi_w wi_wmin]. repeat split; try assumption; lra. }
  destruct (Z.to_nat steps) as [|k] eqn:Ek; [lia|].
  cbn [day_tp do_outs do_wdt water_iter] in Hfit. cbv zeta in Hfit.
  assert (Hcov' : INR (S k) * wi_wdt x1 <= 1).
  { unfold x1, water_in_of. cbn [wi_wdt]. rewrite <- Ek. rewrite INR_IZR_INZ, Z2Nat.id by lia. lra. }
  exact (day_lower_nonevap_lemma x1 n k Hwf1 Hp Hfl eq_refl Hcov' Hwmin Htp Hstart Hfit).
Qed.

(* ---- the upper bound at every sub-step of a day (any number of sub-steps), and for the composed day ---- *)
Lemma water_iter_upper k : forall (x : water_in (T:=R)) n,
  wf_in x n ->
  Forall (fun o => forall i, (i < n)%nat ->
            get 0 (wo_wg1 o) i <= get 0 (wi_w x) i
              + (if Nat.eqb (S i) (wo_caplay o) then wo_capterm o / 10 else 0))
         (water_iter k x).
Proof.
  induction k as [|k IH]; intros x n Hwf; cbn [water_iter]; [constructor|].
  cbv zeta. constructor.
  - exact (upper_bound_lemma x n Hwf).
  - destruct (water_next_wf x n Hwf) as [Hwf' _].
    specialize (IH (water_next x (water_step x)) n Hwf').
    change (wi_w (water_next x (water_step x))) with (wi_w x) in IH. exact IH.
Qed.

Lemma day_upper_composed_lemma (x : day_in (T:=R)) (n : nat) :
  day_wf x n ->
  let o := day_water x in
  Forall (fun o' => forall i, (i < n)%nat ->
            get 0 (wo_wg1 o') i <= get 0 (di_w x) i
              + (if Nat.eqb (S i) (wo_caplay o') then wo_capterm o' / 10 else 0))
         (do_outs o).
Proof.
  intros Hwf o. subst o. unfold day_water.
  set (regen := day_regen x). set (e := evatra_struct (evatra_in_of x regen)).
  destruct (steps_of (wdt_of (zsr_of (eo_fluss0 e) regen (di_w x) (di_wg1 x)))) as [steps wdt].
  cbn [do_outs].
  pose proof (water_iter_upper (Z.to_nat steps) (water_in_of x e wdt) n (water_in_of_wf x regen wdt n Hwf)) as H.
  exact H.
Qed.
