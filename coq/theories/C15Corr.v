(* C15Corr.v — runs PtfModel / HydroModel at binary64 on what the harness observed of the real code and compares
   bit for bit (kernel tie and trace tie, DESIGN.md §2.3).  The HYPAR.TRU rows come from the generated C15Tables.v. *)
From Coq Require Import ZArith List Bool Floats Ascii.
From Hermes Require Import Num WaterModel PtfModel HydroModel.
Import ListNotations.

Fixpoint mismatches {A} (chk : A -> nat) (i : nat) (l : list A) : list (nat * nat) :=
  match l with
  | [] => []
  | c :: r => let v := chk c in
              if Nat.eqb v 0 then mismatches chk (S i) r else (i, v) :: mismatches chk (S i) r
  end.

Definition bit (ok : bool) (v : nat) : nat := if ok then 0%nat else v.

(* PTF k: (k, Corg, clay, silt|sand, fc, wmin) *)
Definition ptf_check (c : Z * float * float * float * float * float) : nat :=
  let '(k, cg, ton, x, fc, wm) := c in
  let '(f, w) := ptf k cg ton x in
  (bit (float_same f fc) 1 + bit (float_same w wm) 2)%nat.

(* calcWRed: (sand, wp%, fc%, WRED) *)
Definition wred_check (c : bool * float * float * float) : nat :=
  let '(sand, wp, fc, out) := c in bit (float_same (calc_wred sand wp fc) out) 1.

(* Hydro: (texture, LD, Corg, GRW, stone fraction, FELDW, LIM, PRGES, NORMFK, WRED) *)
Definition hydro_check (rows : tables) (c : texture * Z * float * float * float * (float * float * float * float * float)) : nat :=
  let '(t, ld, cg, grw, st, (feldw, lim, prges, normfk, wred)) := c in
  match triple_of rows t ld with
  | None => 64%nat
  | Some (fk, nfk, pv) =>
      let h := hydro t fk nfk pv grw cg st in
      (bit (float_same (ho_feldw h) feldw) 1 + bit (float_same (ho_lim h) lim) 2 + bit (float_same (ho_prges h) prges) 4
       + bit (float_same (ho_normfk h) normfk) 8 + bit (float_same (ho_wred h) wred) 16)%nat
  end.

(* ---------------- whole runs ---------------- *)
Record c15_static := {
  cs_route : nat;                                  (* 0: PTF = 0 (per horizon: explicit values or table), 2: pedotransfer function *)
  cs_cappar : bool;                                (* CAPPAR == 1 as the probe shows it on the first day *)
  cs_sand : bool; cs_n : nat; cs_gw : float; cs_grw0 : float;
  (* per horizon: texture, LD, Corg, stone fraction, UKT, (FKA, WP, GPV) of the soil file (percent; 0 = column empty) *)
  cs_hz : list (texture * Z * float * float * Z * (float * float * float));
  cs_ptf : Z;                                      (* the pedotransfer function selected (0 = none) *)
  cs_frac : list (float * float * float);          (* per horizon: sand, silt, clay (percent) as the soil FILE gives them *)
  cs_wb : list float; cs_wmb : list float; cs_pb : list float; cs_wnb : list float;   (* the backups Input saved *)
}.

Definition params_same (a : params (T:=float)) (w wmin porges wnor : list float) (wred : float) : nat :=
  (bit (floats_same (P_w a) w) 1 + bit (floats_same (P_wmin a) wmin) 2 + bit (floats_same (P_porges a) porges) 4
   + bit (floats_same (P_wnor a) wnor) 8 + bit (float_same (P_wred a) wred) 16)%nat.

Definition fhz_of (rows : tables) (s : c15_static) : option (list (fhorizon (T:=float))) :=
  fold_right (fun (h : texture * Z * float * float * Z * (float * float * float)) acc =>
                let '(t, ld, c, st, ukt, e) := h in
                match triple_of rows t ld, acc with
                | Some tr, Some l => Some (((t, tr, c, st, ukt), e) :: l)
                | _, _ => None
                end) (Some []) (cs_hz s).

Definition backup_of (s : c15_static) (wred : float) : params (T:=float) :=
  {| P_w := cs_wb s; P_wmin := cs_wmb s; P_porges := cs_pb s; P_wnor := cs_wnb s; P_wred := wred |}.

(* what Input assigned (before the groundwater raise): from the soil data where the probe shows them, else the backups *)
Definition base_of (rows : tables) (s : c15_static) : option (params (T:=float) * bool) :=
  match cs_route s with
  | 0%nat => match fhz_of rows s with
             | Some hz => Some (file_params (cs_n s) hz (cs_gw s), file_cappar hz)
             | None => None
             end
  | _ =>
      (* input.go:250-270: PTF k on (Corg, clay, silt | sand) of every horizon, pore volume GPV/100 from the file, WRED from
         the first layer's fractions * 100 *)
      let ls := layers (cs_n s)
                  (map (fun x : (texture * Z * float * float * Z * (float * float * float)) * (float * float * float) =>
                          let '((_, _, c, _, ukt, (_, _, gpv)), (sand, silt, clay)) := x in
                          (route_ptf (cs_ptf s) c clay silt sand gpv, ukt))
                       (combine (cs_hz s) (cs_frac s))) in
      Some (params_of ls (match ls with p :: _ => wred_fraction (cs_sand s) p | [] => PrimFloat.zero end), true)
  end.

(* one observed day: (initial?, GRW, W, WMIN, PORGES, WNOR, WRED).  Result bits: 1-16 arrays/WRED of the day,
   32 backups differ from the routes' assignment, 64 texture/density class not in the table, 128 CAPPAR differs *)
Definition gwday_check (rows : tables) (c : c15_static * (bool * float * list float * list float * list float * list float * float)) : nat :=
  let '(s, (initial, grw, w, wmin, porges, wnor, wred)) := c in
  match base_of rows s with
  | None => 64%nat
  | Some (base, cappar) =>
      if initial then
        (params_same (initial_params base (cs_gw s) (cs_grw0 s)) w wmin porges wnor wred
         + bit (Nat.eqb (params_same base (cs_wb s) (cs_wmb s) (cs_pb s) (cs_wnb s) (P_wred base)) 0) 32
         + bit (Bool.eqb cappar (cs_cappar s)) 128)%nat
      else if cappar then
        params_same (gw_update_restore (cs_sand s) (backup_of s PrimFloat.zero) grw) w wmin porges wnor wred
      else
        match fhz_of rows s with
        | Some hz => params_same (gw_update_table (cs_n s) (map fst hz) grw) w wmin porges wnor wred
        | None => 64%nat
        end
  end.
