(* DateProofs.v — lemmas for C12 about DateModel (model of hermes/helper.go).
   Finite sweeps ([vm_compute] over the whole stated domain, lifted by Util lemmas) give
   the numeric bijection; the text round trip is proved structurally for every
   separator of length <= 1 and every century split. *)
From Coq Require Import ZArith List Bool Ascii String Lia.
From Hermes Require Import Util Calendar DateModel.
Import ListNotations.
Open Scope Z_scope.

(* ------------------------------------------------------------------ *)
(* 1. numeric part: sweep over all day numbers 1..72684                 *)

Definition check_day (n : N) (t : date) : bool :=
  match kalender_date (Z.of_N n) with
  | Some (y, m, d) =>
      date_eqb (mkdate y m d) t &&
      match masdat_num d m (y - 1900) with
      | Some (zt, mas) => (mas =? Z.of_N n) && (zt =? doy t)
      | None => false
      end
  | None => false
  end
  && (1901 <=? dy t) && (dy t <=? 2099) && valid_date t.

Definition LAST_N : N := 72684.

Lemma sweep_days : snd (ic_run next_day day0 check_day LAST_N) = true.
Proof. vm_compute. reflexivity. Qed.

Lemma day_facts (n : N) :
  (1 <= n <= LAST_N)%N ->
  let t := civil_of_day n in
  kalender_date (Z.of_N n) = Some (dy t, dm t, dd t) /\
  masdat_num (dd t) (dm t) (dy t - 1900) = Some (doy t, Z.of_N n) /\
  1901 <= dy t <= 2099 /\ valid_date t = true.
Proof.
  intros Hn t.
  pose proof (ic_run_forall next_day day0 check_day LAST_N sweep_days n Hn) as H.
  change (nth_iter next_day day0 n) with t in H.
  unfold check_day in H.
  apply andb_true_iff in H as [H Hv].
  apply andb_true_iff in H as [H Hhi].
  apply andb_true_iff in H as [H Hlo].
  destruct (kalender_date (Z.of_N n)) as [[[y m] d]|]; [|discriminate].
  apply andb_true_iff in H as [He H].
  apply date_eqb_eq in He. subst t. rewrite <- He in *. cbn [dy dm dd] in *.
  destruct (masdat_num d m (y - 1900)) as [[zt mas]|]; [|discriminate].
  apply andb_true_iff in H as [H1 H2].
  apply Z.eqb_eq in H1, H2. subst.
  repeat split; try lia; auto.
Qed.

(* 2. sweep over all (year, month, day) triples: every valid date is reached *)
Definition check_triple (y m d : Z) : bool :=
  if valid_date (mkdate y m d) then
    match masdat_num d m (y - 1900) with
    | Some (_, n) =>
        (1 <=? n) && (n <=? LAST_DAY) &&
        match kalender_date n with
        | Some (y', m', d') => (y' =? y) && (m' =? m) && (d' =? d)
        | None => false
        end
    | None => false
    end
  else true.

Lemma sweep_triples :
  forallb (fun y => forallb (fun m => forallb (fun d => check_triple y m d) (zrange 1 31))
                            (zrange 1 12)) (zrange 1901 199) = true.
Proof. vm_compute. reflexivity. Qed.

Lemma triple_facts y m d :
  1901 <= y <= 2099 -> valid_date (mkdate y m d) = true ->
  exists zt n, masdat_num d m (y - 1900) = Some (zt, n) /\ 1 <= n <= LAST_DAY /\
               kalender_date n = Some (y, m, d).
Proof.
  intros Hy Hv.
  assert (Hm : 1 <= m < 1 + Z.of_nat 12 /\ 1 <= d < 1 + Z.of_nat 31).
  { unfold valid_date in Hv; cbn [dy dm dd] in Hv.
    repeat (apply andb_true_iff in Hv as [Hv ?]).
    pose proof (mlen_le31 y m).
    lia. }
  pose proof (zrange_forall _ _ _ sweep_triples y ltac:(lia)) as H1. cbv beta in H1.
  pose proof (zrange_forall _ _ _ H1 m (proj1 Hm)) as H2. cbv beta in H2.
  pose proof (zrange_forall _ _ _ H2 d (proj2 Hm)) as H3. cbv beta in H3.
  unfold check_triple in H3. rewrite Hv in H3.
  destruct (masdat_num d m (y - 1900)) as [[zt n]|]; [|discriminate].
  exists zt, n.
  apply andb_true_iff in H3 as [H3 H4]. apply andb_true_iff in H3 as [Ha Hb].
  destruct (kalender_date n) as [[[y' m'] d']|]; [|discriminate].
  apply andb_true_iff in H4 as [H4 Hd]. apply andb_true_iff in H4 as [Hyy Hmm].
  apply Z.eqb_eq in Hyy, Hmm, Hd. subst. repeat split; lia.
Qed.

(* ------------------------------------------------------------------ *)
(* 3. text part                                                         *)

Definition is_digit (c : ascii) : bool :=
  match digit_val c with Some _ => true | None => false end.

Lemma digit_not_space c : is_digit c = true -> is_space c = false.
Proof.
  destruct c as [[] [] [] [] [] [] [] []]; vm_compute; congruence.
Qed.

(* two-digit fields 0..99 and four-digit years 1901..2099: shape and value *)
Definition check_pad2 (a : Z) : bool :=
  match pad2 a with
  | [c1; c2] => is_digit c1 && is_digit c2 &&
                match parse_int [c1; c2] with Some v => v =? a | None => false end
  | _ => false
  end.

Definition check_dec4 (y : Z) : bool :=
  match dec y with
  | [c1; c2; c3; c4] => is_digit c1 && is_digit c2 && is_digit c3 && is_digit c4 &&
                match parse_int [c1; c2; c3; c4] with Some v => v =? y | None => false end
  | _ => false
  end.

Lemma sweep_pad2 : forallb check_pad2 (zrange 0 100) = true.
Proof. vm_compute. reflexivity. Qed.
Lemma sweep_dec4 : forallb check_dec4 (zrange 1901 199) = true.
Proof. vm_compute. reflexivity. Qed.

Lemma pad2_shape a : 0 <= a <= 99 ->
  exists c1 c2, pad2 a = [c1; c2] /\ is_digit c1 = true /\ is_digit c2 = true /\
                parse_int [c1; c2] = Some a.
Proof.
  intros Ha. pose proof (zrange_forall _ _ _ sweep_pad2 a ltac:(lia)) as H.
  unfold check_pad2 in H.
  destruct (pad2 a) as [|c1 [|c2 [|]]]; try discriminate.
  exists c1, c2.
  apply andb_true_iff in H as [H Hp]. apply andb_true_iff in H as [H1 H2].
  destruct (parse_int [c1; c2]) as [v|]; [|discriminate].
  apply Z.eqb_eq in Hp. subst. auto.
Qed.

Lemma dec4_shape y : 1901 <= y <= 2099 ->
  exists c1 c2 c3 c4, dec y = [c1; c2; c3; c4] /\ is_digit c1 = true /\ is_digit c2 = true /\
     is_digit c3 = true /\ is_digit c4 = true /\ parse_int [c1; c2; c3; c4] = Some y.
Proof.
  intros Hy. pose proof (zrange_forall _ _ _ sweep_dec4 y ltac:(lia)) as H.
  unfold check_dec4 in H.
  destruct (dec y) as [|c1 [|c2 [|c3 [|c4 [|]]]]]; try discriminate.
  exists c1, c2, c3, c4.
  apply andb_true_iff in H as [H Hp].
  apply andb_true_iff in H as [H H4]. apply andb_true_iff in H as [H H3].
  apply andb_true_iff in H as [H1 H2].
  destruct (parse_int [c1; c2; c3; c4]) as [v|]; [|discriminate].
  apply Z.eqb_eq in Hp. subst. repeat split; auto.
Qed.

Lemma ltrim_nonspace c r : is_space c = false -> ltrim (c :: r) = c :: r.
Proof. intros H; cbn [ltrim]; rewrite H; reflexivity. Qed.

(* a string that starts and ends with a non-space character is its own trim *)
Lemma trim_id c mid e :
  is_space c = false -> is_space e = false -> trim (c :: mid ++ [e]) = c :: mid ++ [e].
Proof.
  intros Hc He. unfold trim. rewrite (ltrim_nonspace c _ Hc).
  change (c :: mid ++ [e]) with ((c :: mid) ++ [e]) at 1.
  rewrite rev_app_distr. cbn [rev app]. rewrite (ltrim_nonspace e _ He).
  change (e :: rev mid ++ [c]) with ([e] ++ rev (c :: mid)).
  rewrite rev_app_distr, rev_involutive. reflexivity.
Qed.

Lemma trim2 a b : is_digit a = true -> is_digit b = true -> trim [a; b] = [a; b].
Proof. intros Ha Hb. apply (trim_id a [] b); now apply digit_not_space. Qed.
Lemma trim4 a b c d : is_digit a = true -> is_digit d = true -> trim [a; b; c; d] = [a; b; c; d].
Proof. intros Ha Hd. apply (trim_id a [b; c] d); now apply digit_not_space. Qed.

Definition sep_ok (sep : lstr) : Prop := (List.length sep <= 1)%nat.

(* extractDate inverts the three-field rendering, short year *)
Lemma extract_short a b c sep :
  sep_ok sep -> 0 <= a <= 99 -> 0 <= b <= 99 -> 0 <= c <= 99 ->
  let s := pad2 a ++ sep ++ pad2 b ++ sep ++ pad2 c in
  trim s = s /\ extract_date s true = Some (a, b, c).
Proof.
  intros Hs Ha Hb Hc.
  destruct (pad2_shape a Ha) as (a1 & a2 & -> & Da1 & Da2 & Pa).
  destruct (pad2_shape b Hb) as (b1 & b2 & -> & Db1 & Db2 & Pb).
  destruct (pad2_shape c Hc) as (c1 & c2 & -> & Dc1 & Dc2 & Pc).
  unfold sep_ok in Hs.
  destruct sep as [|x [|x' sep']]; [| |cbn in Hs; lia]; cbn [app]; split.
  - apply (trim_id a1 [a2; b1; b2; c1] c2); now apply digit_not_space.
  - unfold extract_date, slice, val_as_int. cbn [List.length Nat.eqb firstn skipn Nat.sub].
    rewrite !trim2 by assumption. rewrite Pa, Pb, Pc. reflexivity.
  - apply (trim_id a1 [a2; x; b1; b2; x; c1] c2); now apply digit_not_space.
  - unfold extract_date, slice, val_as_int. cbn [List.length Nat.eqb firstn skipn Nat.sub].
    rewrite !trim2 by assumption. rewrite Pa, Pb, Pc. reflexivity.
Qed.

Lemma extract_long a b y sep :
  sep_ok sep -> 0 <= a <= 99 -> 0 <= b <= 99 -> 1901 <= y <= 2099 ->
  let s := pad2 a ++ sep ++ pad2 b ++ sep ++ dec y in
  trim s = s /\ extract_date s false = Some (a, b, y).
Proof.
  intros Hs Ha Hb Hy.
  destruct (pad2_shape a Ha) as (a1 & a2 & -> & Da1 & Da2 & Pa).
  destruct (pad2_shape b Hb) as (b1 & b2 & -> & Db1 & Db2 & Pb).
  destruct (dec4_shape y Hy) as (c1 & c2 & c3 & c4 & -> & Dc1 & Dc2 & Dc3 & Dc4 & Pc).
  unfold sep_ok in Hs.
  destruct sep as [|x [|x' sep']]; [| |cbn in Hs; lia]; cbn [app]; split.
  - apply (trim_id a1 [a2; b1; b2; c1; c2; c3] c4); now apply digit_not_space.
  - unfold extract_date, slice, val_as_int. cbn [List.length Nat.eqb firstn skipn Nat.sub].
    rewrite !trim2, trim4 by assumption. rewrite Pa, Pb, Pc. reflexivity.
  - apply (trim_id a1 [a2; x; b1; b2; x; c1; c2; c3] c4); now apply digit_not_space.
  - unfold extract_date, slice, val_as_int. cbn [List.length Nat.eqb firstn skipn Nat.sub].
    rewrite !trim2, trim4 by assumption. rewrite Pa, Pb, Pc. reflexivity.
Qed.

(* the window of a short format: years 1900+cent .. 1999+cent *)
Definition in_window (f : datefmt) (cent : Z) (y : Z) : Prop :=
  if is_short f then cent <= y - 1900 <= cent + 99 else True.

Lemma valid_bounds t : valid_date t = true -> 1 <= dm t <= 12 /\ 1 <= dd t <= 31.
Proof.
  destruct t as [y m d]. unfold valid_date; cbn [dy dm dd]. intros Hv.
  repeat (apply andb_true_iff in Hv as [Hv ?]).
  pose proof (mlen_le31 y m).
  lia.
Qed.

Lemma roundtrip_text_lemma (f : datefmt) (sep : lstr) (cent : Z) (n : N) :
  sep_ok sep -> 0 <= cent <= 100 -> (1 <= n <= LAST_N)%N ->
  in_window f cent (dy (civil_of_day n)) ->
  exists s, kalender_converter f sep (Z.of_N n) = Some s /\
            date_converter cent f s = Some (doy (civil_of_day n), Z.of_N n).
Proof.
  intros Hs Hc Hn Hw.
  destruct (day_facts n Hn) as (HK & HM & Hy & Hv).
  set (t := civil_of_day n) in *.
  destruct (valid_bounds t Hv) as [Hm Hd].
  unfold kalender_converter. rewrite HK.
  eexists; split; [reflexivity|].
  unfold date_converter, in_window, render_date in *.
  destruct f; cbn [is_short] in Hw.
  - (* DEshort *)
    destruct (Z.ltb_spec 99 (dy t - 1900)) as [Hgt|Hle].
    + destruct (extract_short (dd t) (dm t) (dy t - 1900 - 100) sep Hs) as [-> ->]; try lia.
      destruct (Z.ltb_spec (dy t - 1900 - 100) cent); [|lia].
      replace (dy t - 1900 - 100 + 100) with (dy t - 1900) by lia. exact HM.
    + destruct (extract_short (dd t) (dm t) (dy t - 1900) sep Hs) as [-> ->]; try lia.
      destruct (Z.ltb_spec (dy t - 1900) cent); [lia|]. exact HM.
  - (* DElong *)
    destruct (extract_long (dd t) (dm t) (dy t) sep Hs) as [-> ->]; try lia.
    destruct (Z.ltb_spec (dy t) 1901); [lia|]. exact HM.
  - (* ENshort *)
    destruct (Z.ltb_spec 99 (dy t - 1900)) as [Hgt|Hle].
    + destruct (extract_short (dm t) (dd t) (dy t - 1900 - 100) sep Hs) as [-> ->]; try lia.
      destruct (Z.ltb_spec (dy t - 1900 - 100) cent); [|lia].
      replace (dy t - 1900 - 100 + 100) with (dy t - 1900) by lia. exact HM.
    + destruct (extract_short (dm t) (dd t) (dy t - 1900) sep Hs) as [-> ->]; try lia.
      destruct (Z.ltb_spec (dy t - 1900) cent); [lia|]. exact HM.
  - (* ENlong *)
    destruct (extract_long (dm t) (dd t) (dy t) sep Hs) as [-> ->]; try lia.
    destruct (Z.ltb_spec (dy t) 1901); [lia|]. exact HM.
Qed.

Lemma roundtrip_text_strong (f : datefmt) (sep : lstr) (cent : Z) (n : N) :
  sep_ok sep -> 0 <= cent <= 100 -> (1 <= n <= LAST_N)%N ->
  let t := civil_of_day n in
  in_window f cent (dy t) ->
  kalender_converter f sep (Z.of_N n) = Some (render_date f sep (dy t) (dm t) (dd t)) /\
  date_converter cent f (render_date f sep (dy t) (dm t) (dd t)) = Some (doy t, Z.of_N n).
Proof.
  intros Hs Hc Hn t Hw.
  destruct (roundtrip_text_lemma f sep cent n Hs Hc Hn Hw) as (s & H1 & H2).
  destruct (day_facts n Hn) as (HK & _).
  unfold kalender_converter in *. rewrite HK in *. injection H1 as <-. split; [reflexivity|exact H2].
Qed.

(* ------------------------------------------------------------------ *)
(* 4. corollaries                                                       *)

Lemma civil_succ n : civil_of_day (N.succ n) = next_day (civil_of_day n).
Proof. unfold civil_of_day. apply N.iter_succ. Qed.

(* masdat of a civil date, as a total function on dates in range *)
Definition masdat_of (t : date) : option Z :=
  option_map snd (masdat_num (dd t) (dm t) (dy t - 1900)).

Lemma masdat_civil n : (1 <= n <= LAST_N)%N -> masdat_of (civil_of_day n) = Some (Z.of_N n).
Proof. intros Hn. destruct (day_facts n Hn) as (_ & HM & _). unfold masdat_of. rewrite HM. reflexivity. Qed.

Lemma consecutive_lemma n :
  (1 <= n)%N -> (N.succ n <= LAST_N)%N ->
  exists a, masdat_of (civil_of_day n) = Some a /\
            masdat_of (next_day (civil_of_day n)) = Some (a + 1).
Proof.
  intros H1 H2. exists (Z.of_N n). split.
  - apply masdat_civil; lia.
  - rewrite <- civil_succ, masdat_civil by lia. f_equal. lia.
Qed.

(* every valid date of the range is the civil date of exactly its own day number *)
Lemma date_is_civil y m d :
  1901 <= y <= 2099 -> valid_date (mkdate y m d) = true ->
  exists n, (1 <= n <= LAST_N)%N /\ civil_of_day n = mkdate y m d /\
            masdat_of (mkdate y m d) = Some (Z.of_N n).
Proof.
  intros Hy Hv. destruct (triple_facts y m d Hy Hv) as (zt & n & HM & Hn & HK).
  exists (Z.to_N n).
  assert (Hn' : (1 <= Z.to_N n <= LAST_N)%N) by (unfold LAST_DAY, LAST_N in *; lia).
  destruct (day_facts (Z.to_N n) Hn') as (HK' & _).
  rewrite Z2N.id in HK' by lia. rewrite HK in HK'. injection HK' as E1 E2 E3.
  repeat split; try lia.
  - destruct (civil_of_day (Z.to_N n)); cbn in *; congruence.
  - unfold masdat_of; cbn [dy dm dd]. rewrite HM. cbn. f_equal. lia.
Qed.

Lemma leap_range y : 1901 <= y <= 2099 -> leap y = (y mod 4 =? 0).
Proof.
  intros Hy. unfold leap.
  destruct (Z.eqb_spec (y mod 4) 0) as [H4|H4]; cbn [andb]; [|reflexivity].
  destruct (Z.eqb_spec (y mod 100) 0) as [H100|H100]; cbn [negb orb]; [|reflexivity].
  apply Z.eqb_eq.
  assert (y = 2000) by (apply Z.mod_divide in H100; [destruct H100 as [k ->]|]; lia).
  subst; reflexivity.
Qed.

Lemma feb29_lemma y :
  1901 <= y <= 2099 ->
  ((exists n, 1 <= n <= LAST_DAY /\ kalender_date n = Some (y, 2, 29)) <-> y mod 4 = 0).
Proof.
  intros Hy. split.
  - intros (n & Hn & HK).
    assert (Hn' : (1 <= Z.to_N n <= LAST_N)%N) by (unfold LAST_DAY, LAST_N in *; lia).
    destruct (day_facts (Z.to_N n) Hn') as (HK' & _ & _ & Hv).
    rewrite Z2N.id in HK' by lia. rewrite HK in HK'. injection HK' as E1 E2 E3.
    unfold valid_date in Hv. rewrite <- E1, <- E2, <- E3 in Hv.
    repeat (apply andb_true_iff in Hv as [Hv ?]).
    cbn [mlen] in *. rewrite leap_range in * by lia.
    destruct (Z.eqb_spec (y mod 4) 0); [assumption|]. discriminate.
  - intros H4.
    assert (Hv : valid_date (mkdate y 2 29) = true).
    { unfold valid_date; cbn [dy dm dd mlen]. rewrite leap_range by lia.
      apply Z.eqb_eq in H4. rewrite H4. reflexivity. }
    destruct (triple_facts y 2 29 Hy Hv) as (zt & n & _ & Hn & HK).
    exists n; split; assumption.
Qed.

(* text -> number -> text for the canonical text of any valid date of the range *)
Lemma text_number_text_lemma f sep cent y m d :
  sep_ok sep -> 0 <= cent <= 100 -> 1901 <= y <= 2099 -> valid_date (mkdate y m d) = true ->
  in_window f cent y ->
  exists n, 1 <= n <= LAST_DAY /\
    date_converter cent f (render_date f sep y m d) = Some (doy (mkdate y m d), n) /\
    kalender_converter f sep n = Some (render_date f sep y m d).
Proof.
  intros Hs Hc Hy Hv Hw.
  destruct (date_is_civil y m d Hy Hv) as (n & Hn & Hciv & _).
  assert (Hw' : in_window f cent (dy (civil_of_day n))) by (rewrite Hciv; exact Hw).
  destruct (roundtrip_text_strong f sep cent n Hs Hc Hn Hw') as [H1 H2].
  rewrite Hciv in H1, H2. cbn [dy dm dd] in H1, H2.
  exists (Z.of_N n). unfold LAST_DAY, LAST_N in *. repeat split; try lia; assumption.
Qed.
