(* BatchProofs.v — lemmas about BatchModel: the partition is a contiguous cover whose ranges,
   handed to the dispatch filter, execute every line once (unbounded L, K); the chunked line
   counter agrees with the ScanLines + len>0 specification for every read pattern whose reads
   (except the last) return at least 2 bytes. *)
From Coq Require Import ZArith List Bool Lia.
From Hermes Require Import BatchModel.
Import ListNotations.
Open Scope Z_scope.

(* ================================ part A: cover ================================ *)

Lemma len_app {A} (x y : list A) : len (x ++ y) = len x + len y.
Proof. unfold len. rewrite app_length. lia. Qed.
Lemma len_cons {A} (a : A) (x : list A) : len (a :: x) = 1 + len x.
Proof. unfold len. cbn [length]. lia. Qed.
Lemma len_nil {A} : len (@nil A) = 0.
Proof. reflexivity. Qed.
Lemma len_nonneg {A} (x : list A) : 0 <= len x.
Proof. unfold len. lia. Qed.
Lemma len_nil_iff {A} (x : list A) : len x = 0 <-> x = [].
Proof. unfold len. destruct x; cbn; split; intros; try discriminate; try reflexivity; lia. Qed.

Lemma singles_length i n : length (singles i n) = n.
Proof. revert i; induction n; intros; cbn; [reflexivity | now rewrite IHn]. Qed.

Lemma slices_length n : forall i sz rest last, length (slices i n sz rest last) = n.
Proof.
  induction n; intros; cbn; [reflexivity|].
  destruct (i <=? rest); cbn; now rewrite IHn.
Qed.

Lemma singles_contig n : forall i, contiguous (i - 1) (singles i n) (i - 1 + Z.of_nat n).
Proof.
  induction n as [|n IH]; intros i.
  - cbn. lia.
  - cbn [singles contiguous]. repeat split; try lia.
    specialize (IH (i + 1)). replace (i + 1 - 1) with i in IH by lia.
    replace (i - 1 + Z.of_nat (S n)) with (i + Z.of_nat n) by lia. exact IH.
Qed.

(* number of indices j in [i, i+n) with j <= rest *)
Definition extra (i : Z) (n : nat) (rest : Z) : Z := Z.max 0 (Z.min (Z.of_nat n) (rest - i + 1)).

Lemma slices_contig n : forall i sz rest last, 1 <= sz ->
  contiguous last (slices i n sz rest last) (last + Z.of_nat n * sz + extra i n rest).
Proof.
  induction n as [|n IH]; intros i sz rest last Hsz.
  - cbn. unfold extra. cbn. lia.
  - cbn [slices]. destruct (Z.leb_spec i rest) as [Hle|Hgt]; cbn [contiguous].
    + repeat split; try lia.
      specialize (IH (i + 1) sz rest (last + sz + 1) Hsz).
      replace (last + Z.of_nat (S n) * sz + extra i (S n) rest)
        with (last + sz + 1 + Z.of_nat n * sz + extra (i + 1) n rest); [exact IH|].
      unfold extra. nia.
    + repeat split; try lia.
      specialize (IH (i + 1) sz rest (last + sz) Hsz).
      replace (last + Z.of_nat (S n) * sz + extra i (S n) rest)
        with (last + sz + Z.of_nat n * sz + extra (i + 1) n rest); [exact IH|].
      unfold extra. nia.
Qed.

Lemma partition_contig L K : 1 <= L -> 1 <= K -> contiguous 0 (partition L K) L.
Proof.
  intros HL HK. unfold partition.
  destruct (Z.eqb_spec (L / K) 0) as [E|E].
  - pose proof (singles_contig (Z.to_nat L) 1) as H. cbn in H.
    rewrite Z2Nat.id in H by lia. exact H.
  - assert (1 <= L / K) by (pose proof (Z.div_pos L K); lia).
    pose proof (slices_contig (Z.to_nat K) 1 (L / K) (L mod K) 0 H) as C.
    replace (0 + Z.of_nat (Z.to_nat K) * (L / K) + extra 1 (Z.to_nat K) (L mod K)) with L in C; [exact C|].
    unfold extra. rewrite Z2Nat.id by lia.
    pose proof (Z.mod_pos_bound L K ltac:(lia)). pose proof (Z.div_mod L K ltac:(lia)). nia.
Qed.

Lemma partition_length L K : 1 <= L -> 1 <= K -> len (partition L K) = jobsize L K.
Proof.
  intros HL HK. unfold partition, jobsize, len.
  destruct (Z.eqb_spec (L / K) 0).
  - rewrite singles_length. lia.
  - rewrite slices_length. lia.
Qed.

Lemma contiguous_le rs : forall s e, contiguous s rs e -> s <= e.
Proof.
  induction rs as [|[a b] r IH]; intros s e H; cbn in H.
  - lia.
  - destruct H as (-> & Hab & H). apply IH in H. lia.
Qed.

Lemma indexed_app {A} (x y : list A) : forall i, indexed i (x ++ y) = indexed i x ++ indexed (i + len x) y.
Proof.
  induction x as [|a x IH]; intros i; cbn [app indexed].
  - unfold len; cbn. now rewrite Z.add_0_r.
  - rewrite IH, len_cons. f_equal. f_equal. f_equal. lia.
Qed.

Lemma dispatch_skip {A} (l1 : list A) : forall i s n l2, i + len l1 = s ->
  dispatch i s n (l1 ++ l2) = dispatch s s n l2.
Proof.
  induction l1 as [|a l1 IH]; intros i s n l2 H.
  - unfold len in H; cbn in H. cbn. now replace i with s by lia.
  - rewrite len_cons in H. pose proof (len_nonneg l1). cbn [app dispatch].
    destruct (Z.ltb_spec i s); [|lia]. apply IH. lia.
Qed.

Lemma dispatch_take {A} (l2 : list A) : forall i s n l3, s <= i -> 0 < n -> i + len l2 = n ->
  dispatch i s n (l2 ++ l3) = indexed i l2.
Proof.
  induction l2 as [|a l2 IH]; intros i s n l3 Hs Hn H.
  - unfold len in H; cbn in H. cbn [app indexed]. destruct l3 as [|x r]; cbn [dispatch]; [reflexivity|].
    destruct (Z.ltb_spec i s); [lia|].
    destruct (Z.ltb_spec 0 n); [|lia]. destruct (Z.leb_spec n i); [|lia]. reflexivity.
  - rewrite len_cons in H. pose proof (len_nonneg l2). cbn [app dispatch indexed].
    destruct (Z.ltb_spec i s); [lia|].
    destruct (Z.leb_spec n i); [lia|]. rewrite andb_false_r.
    f_equal. apply IH; lia.
Qed.

Lemma executed_chain {A} rs : forall s e, contiguous s rs e ->
  forall (l1 l2 : list A), len l1 = s -> len l1 + len l2 = e ->
  executed_all rs (l1 ++ l2) = Some (indexed s l2).
Proof.
  induction rs as [|[a b] r IH]; intros s e C l1 l2 H1 H2; cbn in C.
  - assert (len l2 = 0) by lia. apply len_nil_iff in H. subst l2. reflexivity.
  - destruct C as (-> & Hab & C).
    pose proof (contiguous_le _ _ _ C) as Hbe. pose proof (len_nonneg l1).
    set (k := Z.to_nat (b - s)).
    assert (Hm : len (firstn k l2) = b - s).
    { unfold len in *. rewrite firstn_length. subst k. lia. }
    rewrite <- (firstn_skipn k l2) at 1.
    cbn [executed_all]. unfold executed at 1. cbn [lines_arg].
    destruct (Z.ltb_spec b (s + 1)); [lia|].
    replace (s + 1 - 1) with s by lia.
    rewrite (dispatch_skip l1 0 s b) by lia.
    rewrite (dispatch_take (firstn k l2) s s b) by lia.
    rewrite app_assoc.
    rewrite (IH b e C (l1 ++ firstn k l2) (skipn k l2)).
    + f_equal. rewrite <- (firstn_skipn k l2) at 3. rewrite indexed_app. rewrite Hm.
      now replace (s + (b - s)) with b by lia.
    + rewrite len_app. lia.
    + rewrite len_app. pose proof (f_equal len (firstn_skipn k l2)) as E. rewrite len_app in E. lia.
Qed.

Lemma cover_lemma : forall L K, 1 <= L -> 1 <= K ->
  len (partition L K) = jobsize L K /\
  contiguous 0 (partition L K) L /\
  forall (A : Type) (lines : list A), len lines = L ->
    executed_all (partition L K) lines = Some (indexed 0 lines).
Proof.
  intros L K HL HK. split; [now apply partition_length|]. split; [now apply partition_contig|].
  intros A lines Hl.
  apply (executed_chain (partition L K) 0 L (partition_contig L K HL HK) [] lines); unfold len in *; cbn; lia.
Qed.

(* what [contiguous 0 rs L] says in words *)
Lemma contiguous_first rs s e a b : contiguous s rs e -> hd_error rs = Some (a, b) -> a = s + 1.
Proof. destruct rs as [|[a' b'] r]; cbn; intros H E; [discriminate|]. injection E as -> ->. tauto. Qed.

Lemma contiguous_last rs : forall s e, contiguous s rs e -> rs <> [] -> snd (last rs (0, 0)) = e.
Proof.
  induction rs as [|[a b] r IH]; intros s e H Hne; [congruence|].
  cbn in H. destruct H as (_ & _ & H). destruct r as [|p r'].
  - cbn in H. cbn. exact H.
  - change (last ((a, b) :: p :: r') (0, 0)) with (last (p :: r') (0, 0)).
    apply (IH b e H). discriminate.
Qed.

(* every line number 1..e lies in exactly one range: ranges are sorted and adjacent *)
Lemma contiguous_unique rs : forall s e x, contiguous s rs e -> s < x <= e ->
  exists pre a b post, rs = pre ++ (a, b) :: post /\ a <= x <= b /\
    (forall a' b', In (a', b') pre -> b' < x) /\ (forall a' b', In (a', b') post -> x < a').
Proof.
  induction rs as [|[a b] r IH]; intros s e x C Hx; cbn in C.
  - lia.
  - destruct C as (-> & Hab & C). destruct (Z_le_gt_dec x b) as [Hle|Hgt].
    + exists [], (s + 1), b, r. repeat split; try lia; try (intros ? ? []).
      intros a' b' Hin. clear IH Hx.
      revert b Hab C Hle Hin. induction r as [|[a2 b2] r IHr]; intros b Hab C Hle Hin; [destruct Hin|].
      cbn in C. destruct C as (-> & Hab2 & C). destruct Hin as [E|Hin].
      * injection E as <- <-. lia.
      * apply (IHr b2); try lia; assumption.
    + destruct (IH b e x C ltac:(lia)) as (pre & a2 & b2 & post & -> & Hx2 & Hpre & Hpost).
      exists ((s + 1, b) :: pre), a2, b2, post. repeat split; try lia; try assumption.
      intros a' b' [E|Hin]; [injection E as <- <-; lia | eauto].
Qed.

Lemma each_line_lemma : forall L K x, 1 <= L -> 1 <= K -> 1 <= x <= L ->
  exists pre a b post, partition L K = pre ++ (a, b) :: post /\ a <= x <= b /\
    (forall a' b', In (a', b') pre -> b' < x) /\ (forall a' b', In (a', b') post -> x < a').
Proof.
  intros L K x HL HK Hx.
  apply (contiguous_unique (partition L K) 0 L x (partition_contig L K HL HK)). lia.
Qed.

(* ================================ part B: count ================================ *)

Definition spec_count (pr l : list byte) : Z := len (filter nonempty (scan_lines pr l)).

Lemma nonempty_len (x : list byte) : nonempty x = (0 <? len x).
Proof. destruct x; reflexivity. Qed.

Lemma len_rev {A} (x : list A) : len (rev x) = len x.
Proof. unfold len. now rewrite rev_length. Qed.

Lemma frev_rev l : frev l = rev l.
Proof. unfold frev. symmetry. apply rev_alt. Qed.

Lemma cut_lf_some s : forall b a, cut_lf s = Some (b, a) ->
  s = b ++ LF :: a /\
  forall pr rest, scan_lines pr (s ++ rest) = dropCR_rev (rev b ++ pr) :: scan_lines [] (a ++ rest) /\
                  tail_line pr (s ++ rest) = tail_line [] (a ++ rest).
Proof.
  induction s as [|c r IH]; intros b a H; cbn in H; [discriminate|].
  destruct (Z.eqb_spec c LF) as [->|Hc].
  - injection H as <- <-. split; [reflexivity|]. intros pr rest. cbn. split; reflexivity.
  - destruct (cut_lf r) as [[b' a']|] eqn:E; [|discriminate]. injection H as <- <-.
    destruct (IH b' a' eq_refl) as [-> IH2]. split; [reflexivity|].
    intros pr rest. cbn [app scan_lines tail_line].
    destruct (Z.eqb_spec c LF); [contradiction|].
    destruct (IH2 (c :: pr) rest) as [E1 E2]. cbn [app] in E1, E2. rewrite E1, E2.
    cbn [rev]. rewrite <- app_assoc. cbn [app]. split; reflexivity.
Qed.

Lemma cut_lf_none s : cut_lf s = None ->
  forall pr rest, scan_lines pr (s ++ rest) = scan_lines (rev s ++ pr) rest /\
                  tail_line pr (s ++ rest) = tail_line (rev s ++ pr) rest.
Proof.
  induction s as [|c r IH]; intros H pr rest; cbn in H.
  - cbn. split; reflexivity.
  - destruct (Z.eqb_spec c LF) as [->|Hc]; [discriminate|].
    destruct (cut_lf r) as [[b' a']|] eqn:E; [discriminate|].
    cbn [app scan_lines tail_line]. destruct (Z.eqb_spec c LF); [contradiction|].
    destruct (IH eq_refl (c :: pr) rest) as [E1 E2]. rewrite E1, E2.
    cbn [rev]. rewrite <- app_assoc. cbn [app]. split; reflexivity.
Qed.

(* relation between the counter's state and the true partial line [pr] (reversed) *)
Definition Inv (m : Z) (pr : list byte) (carry : Z) (pnc : bool) : Prop :=
  (carry = len pr \/ m <= carry <= len pr) /\ (pr <> [] -> pnc = negb (hd 0 pr =? CR)).

Lemma Inv_mono m pr carry pnc : m <= 2 -> Inv 2 pr carry pnc -> Inv m pr carry pnc.
Proof. intros Hm [H1 H2]. split; [|exact H2]. destruct H1; [left; assumption | right; lia]. Qed.

Lemma Inv_nil m pnc : Inv m [] 0 pnc.
Proof. split; [left; reflexivity | congruence]. Qed.

Lemma last_snoc (x : list byte) (a d : byte) : last (x ++ [a]) d = a.
Proof. apply last_last. Qed.

Lemma list_snoc_cases {A} (l : list A) : l = [] \/ exists x a, l = x ++ [a].
Proof.
  destruct (rev l) as [|a t] eqn:E.
  - left. rewrite <- (rev_involutive l), E. reflexivity.
  - right. exists (rev t), a. rewrite <- (rev_involutive l), E. reflexivity.
Qed.

Ltac len_norm := repeat (rewrite ?len_rev, ?len_cons, ?len_app, ?(@len_nil Z)).
Ltac ltb_cases :=
  match goal with |- (?a <? ?b) = (?c <? ?d) => destruct (Z.ltb_spec a b), (Z.ltb_spec c d) end;
  try reflexivity; lia.

(* line 127 of calchermesbatch.go decides "this line is non-empty" exactly like the specification *)
Lemma decision_ok pr carry pnc before :
  Inv 2 pr carry pnc ->
  let index := len before in
  let distance := carry + index + 1 in
  let pnc' := if 0 <? index then negb (last before 0 =? CR) else pnc in
  ((1 <? distance) && pnc') || ((2 <? distance) && negb pnc') = nonempty (dropCR_rev (rev before ++ pr)).
Proof.
  intros [Hc Hp]. cbv zeta.
  destruct (list_snoc_cases before) as [->|(x & a & ->)].
  - cbn [rev app]. change (len (@nil byte)) with 0. cbn [Z.ltb].
    replace (0 <? 0) with false by reflexivity.
    destruct pr as [|c t].
    + change (len (@nil byte)) with 0 in Hc. assert (carry = 0) by lia. subst. reflexivity.
    + rewrite (Hp ltac:(discriminate)). cbn [hd dropCR_rev]. rewrite !frev_rev. rewrite len_cons in Hc.
      pose proof (len_nonneg t).
      destruct (c =? CR); cbn [negb]; rewrite nonempty_len; len_norm.
      * rewrite andb_false_r, andb_true_r. cbn [orb].
        ltb_cases.
      * rewrite andb_false_r, andb_true_r, orb_false_r.
        ltb_cases.
  - rewrite last_snoc, rev_app_distr. cbn [rev app dropCR_rev]. rewrite !frev_rev. rewrite len_app.
    change (len [a]) with 1. pose proof (len_nonneg x). pose proof (len_nonneg pr).
    destruct (Z.ltb_spec 0 (len x + 1)); [|lia].
    destruct (a =? CR); cbn [negb]; rewrite nonempty_len; len_norm.
    + rewrite andb_false_r, andb_true_r. cbn [orb].
      ltb_cases.
    + rewrite andb_false_r, andb_true_r, orb_false_r.
      ltb_cases.
Qed.

Lemma spec_count_cons x pr l :
  len (filter nonempty (x :: scan_lines pr l)) = (if nonempty x then 1 else 0) + spec_count pr l.
Proof. unfold spec_count. cbn [filter]. destruct (nonempty x); [rewrite len_cons|]; lia. Qed.

Lemma scan_slice_ok : forall fuel s cnt carry pnc pr m,
  (length s <= fuel)%nat -> s <> [] -> 1 <= m <= 2 ->
  Inv 2 pr carry pnc ->
  (pr <> [] -> cut_lf s = None -> m <= len s) ->
  exists cnt' carry' pnc' pr',
    scan_slice fuel (cnt, carry, pnc) s = Some (cnt', carry', pnc') /\
    Inv m pr' carry' pnc' /\
    forall rest, cnt' + spec_count pr' rest = cnt + spec_count pr (s ++ rest) /\
                 tail_line pr' rest = tail_line pr (s ++ rest).
Proof.
  induction fuel as [|f IH]; intros s cnt carry pnc pr m Hf Hs Hm HI Hlen.
  - destruct s; [congruence | cbn in Hf; lia].
  - cbn [scan_slice]. destruct (cut_lf s) as [[before after]|] eqn:Ecut.
    + destruct (cut_lf_some s before after Ecut) as [Es Hspec].
      pose proof (decision_ok pr carry pnc before HI) as Hdec. cbv zeta in Hdec.
      rewrite Hdec.
      set (pnc1 := if 0 <? len before then negb (last before 0 =? CR) else pnc).
      set (q := dropCR_rev (rev before ++ pr)).
      set (cnt1 := if nonempty q then cnt + 1 else cnt).
      assert (Hcnt : forall rest, cnt1 + spec_count [] (after ++ rest) = cnt + spec_count pr (s ++ rest)).
      { intros rest. destruct (Hspec pr rest) as [E1 _]. unfold spec_count at 2. rewrite E1.
        fold q. rewrite spec_count_cons. subst cnt1. destruct (nonempty q); lia. }
      destruct after as [|y after'].
      * exists cnt1, 0, pnc1, []. split; [reflexivity|]. split; [apply Inv_nil|].
        intros rest. split; [apply (Hcnt rest)|]. destruct (Hspec pr rest) as [_ E2]. now rewrite E2.
      * assert (Hf' : (length (y :: after') <= f)%nat).
        { rewrite Es in Hf. rewrite app_length in Hf. cbn [length] in Hf |- *. lia. }
        destruct (IH (y :: after') cnt1 0 pnc1 [] m Hf' ltac:(discriminate) Hm (Inv_nil 2 pnc1) ltac:(congruence))
          as (c2 & ca2 & p2 & pr2 & E & HI2 & Hr).
        exists c2, ca2, p2, pr2. split; [exact E|]. split; [exact HI2|].
        intros rest. destruct (Hr rest) as [R1 R2]. destruct (Hspec pr rest) as [_ E2].
        split; [rewrite R1; apply Hcnt | rewrite R2, E2; reflexivity].
    + exists cnt, (len s), (negb (last s 0 =? CR)), (rev s ++ pr).
      split; [reflexivity|]. split.
      * destruct HI as [Hc Hp]. split.
        -- rewrite len_app, len_rev. destruct pr as [|c t].
           ++ left. change (len (@nil byte)) with 0. lia.
           ++ right. pose proof (len_nonneg (c :: t)). specialize (Hlen ltac:(discriminate) eq_refl). lia.
        -- intros _. destruct (list_snoc_cases s) as [->|(x & a & ->)]; [congruence|].
           rewrite last_snoc, rev_app_distr. reflexivity.
      * intros rest. destruct (cut_lf_none s Ecut pr rest) as [E1 E2].
        unfold spec_count. rewrite E1, E2. split; reflexivity.
Qed.

Lemma go_chunk_ok ch cnt carry pnc pr m :
  1 <= m <= 2 -> Inv 2 pr carry pnc -> (ch <> [] -> m <= len ch) ->
  exists cnt' carry' pnc' pr',
    go_chunk (Some (cnt, carry, pnc)) ch = Some (cnt', carry', pnc') /\
    Inv m pr' carry' pnc' /\
    forall rest, cnt' + spec_count pr' rest = cnt + spec_count pr (ch ++ rest) /\
                 tail_line pr' rest = tail_line pr (ch ++ rest).
Proof.
  intros Hm HI Hl. destruct ch as [|c r].
  - exists cnt, carry, pnc, pr. split; [reflexivity|]. split; [apply Inv_mono; [lia|exact HI]|].
    intros rest. split; reflexivity.
  - cbn [go_chunk]. apply scan_slice_ok; try assumption; try discriminate; [lia|].
    intros _ _. apply Hl. discriminate.
Qed.

Lemma fold_ok : forall chunks cnt carry pnc pr,
  reads_ge 2 chunks -> Inv 2 pr carry pnc ->
  exists cnt' carry' pnc' pr',
    fold_left go_chunk chunks (Some (cnt, carry, pnc)) = Some (cnt', carry', pnc') /\
    Inv 1 pr' carry' pnc' /\
    forall rest, cnt' + spec_count pr' rest = cnt + spec_count pr (concat chunks ++ rest) /\
                 tail_line pr' rest = tail_line pr (concat chunks ++ rest).
Proof.
  induction chunks as [|c r IH]; intros cnt carry pnc pr HR HI.
  - exists cnt, carry, pnc, pr. split; [reflexivity|]. split; [apply Inv_mono; [lia|exact HI]|].
    intros rest. split; reflexivity.
  - cbn [fold_left concat]. cbn [reads_ge] in HR. destruct HR as [Hc HR].
    destruct r as [|c2 r'].
    + destruct (go_chunk_ok c cnt carry pnc pr 1 ltac:(lia) HI) as (c1 & ca1 & p1 & pr1 & E & HI1 & Hr).
      { intros Hne. destruct c as [|c0 c1]; [congruence|]. rewrite len_cons. pose proof (len_nonneg c1). lia. }
      exists c1, ca1, p1, pr1. cbn [fold_left concat]. split; [exact E|]. split; [exact HI1|].
      intros rest. rewrite app_nil_r. apply Hr.
    + destruct (go_chunk_ok c cnt carry pnc pr 2 ltac:(lia) HI) as (c1 & ca1 & p1 & pr1 & E & HI1 & Hr).
      { intros _. apply Hc. discriminate. }
      rewrite E.
      destruct (IH c1 ca1 p1 pr1 HR HI1) as (c3 & ca3 & p3 & pr3 & E3 & HI3 & Hr3).
      exists c3, ca3, p3, pr3. split; [exact E3|]. split; [exact HI3|].
      intros rest. destruct (Hr3 rest) as [A1 A2]. destruct (Hr (concat (c2 :: r') ++ rest)) as [B1 B2].
      rewrite <- app_assoc. split; [rewrite A1, B1 | rewrite A2, B2]; reflexivity.
Qed.

(* the general statement: any read pattern with reads of >= 2 bytes (the last may be shorter), any
   bytes; the only excluded input is a file whose unterminated last line is a single '\r' *)
Lemma count_general : forall chunks,
  reads_ge 2 chunks -> tail_line [] (concat chunks) <> [CR] ->
  count_lines chunks = Some (len (nonempty_lines (concat chunks))).
Proof.
  intros chunks HR HT. unfold count_lines.
  destruct (fold_ok chunks 0 0 true [] HR (Inv_nil 2 true)) as (cnt & carry & pnc & pr & E & HI & Hr).
  rewrite E. destruct (Hr []) as [R1 R2]. rewrite app_nil_r in R1, R2. cbn [tail_line] in R2.
  unfold nonempty_lines. fold (spec_count [] (concat chunks)). f_equal.
  rewrite <- R2 in HT. destruct HI as [Hc _]. unfold spec_count in R1 at 1. cbn [scan_lines] in R1.
  destruct pr as [|c t].
  - change (len (@nil byte)) with 0 in Hc. assert (carry = 0) by lia. subst carry. cbn in R1. cbn [Z.ltb].
    replace (0 <? 0) with false by reflexivity. unfold len in R1. cbn in R1. lia.
  - rewrite len_cons in Hc. pose proof (len_nonneg t).
    destruct (Z.ltb_spec 0 carry); [|lia].
    assert (Hq : nonempty (dropCR_rev (c :: t)) = true).
    { cbn [dropCR_rev]. rewrite !frev_rev. destruct (Z.eqb_spec c CR) as [->|Hne].
      - destruct t; [congruence|]. rewrite nonempty_len, len_rev, len_cons. apply Z.ltb_lt. pose proof (len_nonneg t). lia.
      - rewrite nonempty_len, len_rev, len_cons. apply Z.ltb_lt. lia. }
    cbn [filter] in R1. rewrite Hq in R1. change (len [dropCR_rev (c :: t)]) with 1 in R1. lia.
Qed.

(* chunks_of: full reads of B bytes *)
Lemma chunks_fuel_nil f B : chunks_fuel f B [] = [].
Proof. destruct f; reflexivity. Qed.

Lemma chunks_fuel_ok : forall fuel B l, (1 <= B)%nat -> (length l <= fuel)%nat ->
  concat (chunks_fuel fuel B l) = l /\ reads_ge (Z.of_nat B) (chunks_fuel fuel B l).
Proof.
  induction fuel as [|f IH]; intros B l HB Hl.
  - destruct l; [|cbn in Hl; lia]. cbn. split; [reflexivity|exact I].
  - destruct l as [|c r]; [cbn; split; [reflexivity|exact I]|].
    cbn [chunks_fuel]. set (l := c :: r) in *.
    assert (Hsk : (length (skipn B l) <= f)%nat).
    { rewrite skipn_length. subst l. cbn [length] in *. lia. }
    destruct (IH B (skipn B l) HB Hsk) as [E R].
    cbn [concat reads_ge]. rewrite E. split; [apply firstn_skipn|]. split; [|exact R].
    intros Hne. unfold len. rewrite firstn_length.
    assert (skipn B l <> []) by (intros Z0; rewrite Z0, chunks_fuel_nil in Hne; congruence).
    assert (length (skipn B l) <> 0%nat) by (destruct (skipn B l); [congruence | discriminate]).
    rewrite skipn_length in H0. lia.
Qed.

Lemma reads_ge_mono m m' chunks : m <= m' -> reads_ge m' chunks -> reads_ge m chunks.
Proof.
  intros Hm. induction chunks as [|c r IH]; cbn; [trivial|].
  intros [H1 H2]. split; [intros Hne; specialize (H1 Hne); lia | auto].
Qed.

Lemma tail_line_last l : forall pr x t, tail_line pr l = x :: t -> l <> [] -> last l 0 = x.
Proof.
  induction l as [|c r IH]; intros pr x t H Hne; [congruence|].
  cbn [tail_line] in H. destruct (c =? LF).
  - destruct r as [|d r']; [cbn in H; discriminate|].
    change (last (c :: d :: r') 0) with (last (d :: r') 0). apply (IH [] x t H). discriminate.
  - destruct r as [|d r'].
    + cbn in H. injection H as <- _. reflexivity.
    + change (last (c :: d :: r') 0) with (last (d :: r') 0). apply (IH (c :: pr) x t H). discriminate.
Qed.

Lemma cr_only_last l : cr_only_before_lf l = true -> l <> [] -> last l 0 <> CR.
Proof.
  induction l as [|c r IH]; intros H Hne; [congruence|].
  cbn [cr_only_before_lf] in H. apply andb_true_iff in H as [H1 H2].
  destruct r as [|d r'].
  - cbn. destruct (Z.eqb_spec c CR); [discriminate | assumption].
  - change (last (c :: d :: r') 0) with (last (d :: r') 0). apply IH; [assumption | discriminate].
Qed.

Lemma clean_tail file : cr_only_before_lf file = true -> tail_line [] file <> [CR].
Proof.
  intros H E. destruct file as [|c r]; [cbn in E; discriminate|].
  pose proof (tail_line_last (c :: r) [] CR [] E ltac:(discriminate)).
  exact (cr_only_last (c :: r) H ltac:(discriminate) H0).
Qed.

Lemma count_lemma : forall (B : nat) (file : list byte), (2 <= B)%nat ->
  cr_only_before_lf file = true ->
  count_lines (chunks_of B file) = Some (len (nonempty_lines file)).
Proof.
  intros B file HB Hclean. unfold chunks_of.
  destruct (chunks_fuel_ok (length file) B file ltac:(lia) (le_n _)) as [E R].
  pose proof (count_general (chunks_fuel (length file) B file)) as G. rewrite E in G. apply G.
  - apply (reads_ge_mono 2 (Z.of_nat B)); [lia | exact R].
  - now apply clean_tail.
Qed.

(* the same for every file whose unterminated last line is not a lone '\r' (stray '\r' elsewhere allowed) *)
Lemma count_lemma_strong : forall (B : nat) (file : list byte), (2 <= B)%nat ->
  tail_line [] file <> [CR] ->
  count_lines (chunks_of B file) = Some (len (nonempty_lines file)).
Proof.
  intros B file HB HT. unfold chunks_of.
  destruct (chunks_fuel_ok (length file) B file ltac:(lia) (le_n _)) as [E R].
  pose proof (count_general (chunks_fuel (length file) B file)) as G. rewrite E in G. apply G.
  - apply (reads_ge_mono 2 (Z.of_nat B)); [lia | exact R].
  - exact HT.
Qed.

(* end to end: the calculator's count, its ranges and the simulator's filter, on one batch file *)
Lemma end_to_end : forall (B : nat) (file : list byte) (K : Z), (2 <= B)%nat -> 1 <= K ->
  cr_only_before_lf file = true ->
  let lines := nonempty_lines file in
  1 <= len lines ->
  exists L, count_lines (chunks_of B file) = Some L /\
    len (partition L K) = jobsize L K /\ contiguous 0 (partition L K) L /\
    executed_all (partition L K) lines = Some (indexed 0 lines).
Proof.
  intros B file K HB HK Hc lines HL. exists (len lines). split; [now apply count_lemma|].
  destruct (cover_lemma (len lines) K HL HK) as (H1 & H2 & H3). repeat split; auto.
Qed.

(* ================================ part C: order of the command-line options ================================ *)
From Coq Require Import Permutation.

Lemma parse_step_comm {A} (st : pstate A) (o1 o2 : opt A) : opt_kind o1 <> opt_kind o2 ->
  match parse_step st o1 with Some s => parse_step s o2 | None => None end =
  match parse_step st o2 with Some s => parse_step s o1 | None => None end.
Proof.
  intros H. destruct st as [ls s e c lg m wd].
  destruct o1, o2; cbn in H; try congruence; cbn;
    repeat match goal with |- context [if ?b then _ else _] => destruct b; cbn end;
    try reflexivity; destruct wd; reflexivity.
Qed.

Lemma parse_perm {A} (o o' : list (opt A)) : Permutation o o' -> NoDup (map opt_kind o) ->
  forall st, parse_opts_from st o = parse_opts_from st o'.
Proof.
  induction 1 as [| x l l' P IH | x y l | l l' l'' P1 IH1 P2 IH2]; intros ND st.
  - reflexivity.
  - cbn. inversion ND; subst. destruct (parse_step st x); [now apply IH | reflexivity].
  - cbn [map] in ND. inversion ND as [|? ? Hk ND']; subst.
    assert (opt_kind y <> opt_kind x) by (intros E; apply Hk; left; now symmetry).
    cbn [parse_opts_from].
    pose proof (parse_step_comm st y x H) as C.
    destruct (parse_step st y) as [s1|], (parse_step st x) as [s2|]; cbn in C |- *;
      [rewrite C | rewrite C | rewrite <- C | ]; reflexivity.
  - rewrite (IH1 ND). apply IH2. eapply Permutation_NoDup; [apply Permutation_map; exact P1 | exact ND].
Qed.

Lemma options_order_lemma : forall (A : Type) (o o' : list (opt A)),
  NoDup (map opt_kind o) -> Permutation o o' -> parse_opts o = parse_opts o'.
Proof. intros. unfold parse_opts. now apply parse_perm. Qed.

(* options of other kinds leave configLines / startLine / endLine alone *)
Lemma parse_rest_keeps {A} (r : list (opt A)) : forall st,
  (forall o, In o r -> opt_kind o <> 0%nat /\ opt_kind o <> 1%nat) ->
  exists st', parse_opts_from st r = Some st' /\
    p_lines st' = p_lines st /\ p_start st' = p_start st /\ p_end st' = p_end st.
Proof.
  induction r as [|o r IH]; intros st H.
  - exists st. repeat split; reflexivity.
  - destruct (H o (or_introl eq_refl)) as [K0 K1].
    assert (exists s1, parse_step st o = Some s1 /\ p_lines s1 = p_lines st /\ p_start s1 = p_start st /\ p_end s1 = p_end st)
      as (s1 & E & L1 & L2 & L3).
    { destruct st as [ls s e c lg m wd]. destruct o; cbn in K0, K1; try congruence; eexists; (split; [reflexivity|]); repeat split. }
    destruct (IH s1 (fun o' Hin => H o' (or_intror Hin))) as (st' & E' & M1 & M2 & M3).
    exists st'. cbn. rewrite E. split; [exact E'|]. repeat split; congruence.
Qed.

Lemma in_perm_front {A} (x : A) l : In x l -> exists r, Permutation l (x :: r).
Proof.
  intros H. apply in_split in H as (l1 & l2 & ->). exists (l1 ++ l2). symmetry. apply Permutation_middle.
Qed.

(* any command line that carries -batch f and -lines a-b once each (plus any other options once each, in any
   order) executes what the model's [executed (a, b)] says *)
Lemma cmd_range_lemma : forall (A : Type) (opts : list (opt A)) d lines a b,
  NoDup (map opt_kind opts) -> In (OBatch d lines) opts -> In (OLinesRange a b) opts ->
  cmd_executed opts = executed (a, b) lines.
Proof.
  intros A opts d lines a b ND Hb Hl.
  destruct (in_perm_front _ _ Hb) as (r1 & P1).
  assert (Hl1 : In (OLinesRange a b) r1).
  { pose proof (Permutation_in _ P1 Hl) as [E|]; [discriminate | assumption]. }
  destruct (in_perm_front _ _ Hl1) as (r2 & P2).
  assert (P : Permutation opts (OBatch d lines :: OLinesRange a b :: r2))
    by (etransitivity; [exact P1 | now constructor]).
  unfold cmd_executed. rewrite (options_order_lemma A _ _ ND P).
  assert (ND' : NoDup (map opt_kind (OBatch d lines :: OLinesRange a b :: r2)))
    by (eapply Permutation_NoDup; [apply Permutation_map; exact P | exact ND]).
  cbn [map opt_kind] in ND'. inversion ND' as [|? ? N0 ND1]; subst. inversion ND1 as [|? ? N1 ND2]; subst.
  assert (Hr : forall o, In o r2 -> opt_kind o <> 0%nat /\ opt_kind o <> 1%nat).
  { intros o Hin. split; intros E.
    - apply N0. right. rewrite <- E. now apply in_map.
    - apply N1. rewrite <- E. now apply in_map. }
  unfold parse_opts, executed, lines_arg. cbn [parse_opts_from pinit parse_step app].
  destruct (b <? a); [reflexivity|].
  destruct (parse_rest_keeps r2 (mk_pstate lines (a - 1) b 10 false 0 (Some d)) Hr) as (st' & E & L1 & L2 & L3).
  rewrite E. cbn in L1, L2, L3. now rewrite L1, L2, L3.
Qed.
