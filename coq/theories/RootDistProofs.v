(* RootDistProofs.v — lemmas about RootDistModel over the reals: root radius > 0 in every layer, root length
   density >= 0, root shares >= 0 and telescoping to 1 - exp(-Qrez*depth) <= 1, dead-root N >= 0 and
   handed to the soil pools in an amount that never exceeds what the roots lost. *)
From Coq Require Import ZArith Reals List Bool Lia Lra Psatz.
From Hermes Require Import Num RUtil CropModel CropProofs RootDistModel.
Import ListNotations.
Local Open Scope R_scope.

Ltac rn := unfold gtb, geb in *; rsimp; unfold RI.ltb, RI.leb, RI.eqb in *; decs.

Lemma wrad_pos (zrk : bool) (i : Z) : 0 < wrad zrk i.
Proof.
  unfold wrad. destruct zrk; rn; [lra|].
  destruct (Rle_dec _ _); lra.
Qed.

Lemma dead_root_n_nonneg (wumas wumalt wugeh : R) : 0 <= wugeh -> 0 <= dead_root_n wumas wumalt wugeh.
Proof.
  intros H. unfold dead_root_n. rn. destruct (Rlt_dec _ _); [|lra]. apply Rmult_le_pos; lra.
Qed.

Lemma root_dense_nonneg first (fresh prev r pi dz : R) : 0 < r -> 0 < pi -> 0 < dz ->
  0 <= root_dense first fresh prev r pi dz.
Proof.
  intros Hr Hp Hd. unfold root_dense. rsimp.
  assert (0 < r * r * pi) by (apply Rmult_lt_0_compat; [apply Rmult_lt_0_compat|]; assumption).
  assert (Ha : 0 <= (if first then Rabs fresh else Rabs (fresh - prev))) by (destruct first; apply Rabs_pos).
  unfold Rdiv. apply Rmult_le_pos; [apply Rmult_le_pos; [exact Ha|]|]; left; apply Rinv_0_lt_compat; assumption.
Qed.

(* the oracle values of the exponentials form a chain: the upper boundary of a layer is the lower boundary of the
   layer above, and the values fall with depth and stay positive (true of exp(-Qrez*depth) for Qrez, DZ >= 0) *)
Fixpoint chained (prev : R) (es : list (R * R)) : Prop :=
  match es with
  | [] => True
  | (h, l) :: r => l = prev /\ 0 < h <= prev /\ chained h r
  end.

Fixpoint last_hi (es : list (R * R)) (d : R) : R :=
  match es with [] => d | (h, _) :: r => last_hi r h end.

Lemma root_loop_shares zrk (wumas pi dz : R) i prev fprev es : 0 < prev -> chained prev es ->
  Rsum (map snd (root_loop zrk wumas pi dz i false fprev es)) = prev - last_hi es prev /\
  Forall (fun s => 0 <= s) (map snd (root_loop zrk wumas pi dz i false fprev es)) /\
  0 < last_hi es prev <= prev.
Proof.
  revert i prev fprev; induction es as [|[h l] r IH]; intros i prev fprev Hp H; cbn [root_loop map snd Rsum last_hi].
  - split; [lra|]. split; [constructor | lra].
  - cbn [chained] in H. destruct H as (-> & Hh & Hr).
    destruct (IH (i + 1)%Z h (root_fresh wumas h) (proj1 Hh) Hr) as (E & F & L).
    rewrite E. unfold root_share. rsimp. split; [lra|]. split; [|lra].
    constructor; [lra | exact F].
Qed.

(* the whole layer loop: shares >= 0, their sum is 1 - (the exponential at the rooting depth), a number in [0,1) *)
Lemma root_dist_shares zrk (wumas pi dz : R) es : chained 1 es ->
  let shares := map snd (root_dist zrk wumas pi dz es) in
  Forall (fun s => 0 <= s) shares /\ Rsum shares = 1 - last_hi es 1 /\ 0 <= Rsum shares < 1.
Proof.
  intros H. cbv zeta. unfold root_dist. destruct es as [|[h l] r]; cbn [root_loop map snd Rsum last_hi].
  - split; [constructor|]. split; lra.
  - cbn [chained] in H. destruct H as (_ & Hh & Hr).
    destruct (root_loop_shares zrk wumas pi dz (1 + 1)%Z h (root_fresh wumas h) r (proj1 Hh) Hr) as (E & F & L).
    rewrite E. unfold root_share. rsimp. split; [constructor; [lra | exact F]|]. split; lra.
Qed.

Lemma root_dist_dense zrk (wumas pi dz : R) es : 0 < pi -> 0 < dz ->
  Forall (fun d => 0 <= d) (map fst (root_dist zrk wumas pi dz es)).
Proof.
  intros Hp Hd. unfold root_dist. generalize 1%Z, true, (@zero R RNum).
  induction es as [|[h l] r IH]; intros i first prev; cbn [root_loop map fst]; constructor.
  - apply root_dense_nonneg; [apply wrad_pos | exact Hp | exact Hd].
  - apply IH.
Qed.

(* the true exponentials form such a chain *)
Fixpoint es_true (q dz : R) (i : nat) (n : nat) : list (R * R) :=
  match n with
  | O => []
  | S m => (exp (- q * (INR i * dz)), exp (- q * (INR i * dz - dz))) :: es_true q dz (S i) m
  end.

Lemma exp_le a b : a <= b -> exp a <= exp b.
Proof. intros [H| ->]; [left; apply exp_increasing; exact H | lra]. Qed.

Lemma es_true_chained (q dz : R) (i n : nat) : 0 <= q -> 0 <= dz ->
  chained (exp (- q * (INR (S i) * dz - dz))) (es_true q dz (S i) n).
Proof.
  intros Hq Hd. revert i; induction n as [|m IH]; intros i; cbn [es_true chained]; [exact I|].
  split; [reflexivity|]. split.
  - split; [apply exp_pos|]. apply exp_le. nra.
  - replace (- q * (INR (S i) * dz)) with (- q * (INR (S (S i)) * dz - dz)) by (rewrite (S_INR (S i)); ring).
    apply IH.
Qed.

Lemma es_true_chained_1 (q dz : R) (n : nat) : 0 <= q -> 0 <= dz -> chained 1 (es_true q dz 1 n).
Proof.
  intros Hq Hd. pose proof (es_true_chained q dz 0 n Hq Hd) as H.
  replace (- q * (INR 1 * dz - dz)) with 0 in H by (cbn; ring). rewrite exp_0 in H. exact H.
Qed.

(* dead-root N: what the fast and the slow pools of all rooted layers receive together *)
Lemma dead_root_pools (wumm : R) (shares : list R) :
  Rsum (map (fun s => (dead_root_to_pool wumm s 0) + (dead_root_to_pool wumm s 0)) shares) = wumm * Rsum shares.
Proof.
  induction shares as [|s r IH]; cbn [map Rsum]; [lra|]. rewrite IH. unfold dead_root_to_pool. rn. lra.
Qed.

Lemma dead_root_balance zrk (wumas wumalt wugeh pi dz : R) es : 0 <= wugeh -> chained 1 es ->
  let wumm := dead_root_n wumas wumalt wugeh in
  let shares := map snd (root_dist zrk wumas pi dz es) in
  let to_pools := Rsum (map (fun s => (dead_root_to_pool wumm s 0) + (dead_root_to_pool wumm s 0)) shares) in
  0 <= to_pools <= wumm.
Proof.
  intros Hw Hc. cbv zeta. rewrite dead_root_pools.
  pose proof (dead_root_n_nonneg wumas wumalt wugeh Hw) as Hm.
  destruct (root_dist_shares zrk wumas pi dz es Hc) as (_ & _ & Hs). nra.
Qed.

Lemma dead_root_pool_mono (wumm share pool : R) : 0 <= wumm -> 0 <= share -> pool <= dead_root_to_pool wumm share pool.
Proof. intros H1 H2. unfold dead_root_to_pool. rn. assert (0 <= 5 / 10 * wumm * share) by (apply Rmult_le_pos; [lra|exact H2]). lra. Qed.

(* ==================================================================== *)
(* pool inputs of a growth day *)

(* dead leaves and stems: the two pools of the top layer gain together exactly the 70 % of the dead organs' N that the crop's N sum loses *)
Lemma leaf_to_pools_sum (dgorgs : list R) (gehalt dt f0 a0 : R) :
  fst (leaf_to_pools dgorgs gehalt dt f0 a0) + snd (leaf_to_pools dgorgs gehalt dt f0 a0)
  = f0 + a0 + 7 / 10 * Rsum dgorgs * gehalt * dt.
Proof.
  unfold leaf_to_pools. revert f0 a0. induction dgorgs as [|d r IH]; intros f0 a0; cbn [fold_left Rsum fst snd]; [lra|].
  rewrite IH. cbn [fst snd]. rn. lra.
Qed.

Lemma leaf_to_pools_mono (dgorgs : list R) (gehalt dt f0 a0 : R) : 0 <= gehalt -> 0 <= dt -> Forall (fun d => 0 <= d) dgorgs ->
  f0 <= fst (leaf_to_pools dgorgs gehalt dt f0 a0) /\ a0 <= snd (leaf_to_pools dgorgs gehalt dt f0 a0).
Proof.
  intros Hg Ht. unfold leaf_to_pools. revert f0 a0. induction dgorgs as [|d r IH]; intros f0 a0 H; cbn [fold_left fst snd]; [lra|].
  inversion H as [|? ? Hd Hr]; subst. destruct (IH (f0 + dec 56 2 * d * gehalt * dt) (a0 + dec 14 2 * d * gehalt * dt) Hr) as [H1 H2].
  cbn [fst snd] in *. rn.
  assert (0 <= d * gehalt * dt) by (apply Rmult_le_pos; [apply Rmult_le_pos|]; assumption).
  split; [eapply Rle_trans; [|exact H1] | eapply Rle_trans; [|exact H2]]; nra.
Qed.

Lemma roots_to_pool_sum (wumm : R) (shares pool : list R) : (length shares <= length pool)%nat ->
  Rsum (roots_to_pool wumm shares pool) = Rsum pool + 5 / 10 * wumm * Rsum shares.
Proof.
  revert pool; induction shares as [|s sr IH]; intros pool H; cbn [roots_to_pool Rsum]; [destruct pool; lra|].
  destruct pool as [|p pr]; cbn in H; [lia|]. cbn [Rsum]. rewrite IH by lia. unfold dead_root_to_pool. rn. lra.
Qed.

(* the whole pool input of an ordinary growth day: fast + slow pools of all layers gain 0.7 * (N of the dead leaves and stems) + WUMM * (sum of
   the root shares) - nothing else, nothing less *)
Lemma pools_after_sum (dgorgs : list R) (gehalt dt wumm : R) (shares nfos naos : list R) :
  (0 < length nfos)%nat -> (length nfos = length naos) -> (length shares <= length nfos)%nat ->
  let '(f, a) := pools_after dgorgs gehalt dt wumm shares nfos naos in
  Rsum f + Rsum a = Rsum nfos + Rsum naos + 7 / 10 * Rsum dgorgs * gehalt * dt + wumm * Rsum shares.
Proof.
  intros H0 Hl Hs. unfold pools_after. destruct nfos as [|f0 fr]; [cbn in H0; lia|]. destruct naos as [|a0 ar]; [cbn in Hl; lia|].
  pose proof (leaf_to_pools_sum dgorgs gehalt dt f0 a0) as E.
  destruct (leaf_to_pools dgorgs gehalt dt f0 a0) as [f0' a0']. cbn [fst snd] in E.
  rewrite !roots_to_pool_sum by (cbn in *; lia). cbn [Rsum]. lra.
Qed.
