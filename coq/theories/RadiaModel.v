(* RadiaModel.v — executable model of the HEAD of hermes.radia (hermes/crop.go:776-914): light-use efficiency and
   light-saturated assimilation rate AMAX under the three CO2 methods and the two temperature-response types, the
   AMAX floor, and the light-response computation after Penning de Vries that yields the daily gross assimilation of a
   clear (DGAC) and of an overcast (DGAO) day.  The TAIL of radia (DTGA, GPHOT, MAINT) is CropNModel.assim_of.
   Written over [Num]; the operation order follows the Go source.  No proofs.

   Inputs that come from CalculateDayLenght (DL, DLE, RDN, DRC) are plain inputs.  Oracles (transcendental calls; the
   model computes the ARGUMENTS of the logarithms and of the two saturation exponentials, the correspondence compares
   them with what the code passed): 2^((T-10)/10), the three Arrhenius exponentials of method 3, cos(2 pi day/365),
   sin of the solar elevation at noon, log(1+..) twice, exp(-0.8 LAI), exp(-MAPHC/MIPHC), exp(-MAPHO/MIPHO).
   math.Pow(T,2) and math.Pow(T,3) are the products T*T and T*T*T (bit-exact, checked by the correspondence). *)
From Coq Require Import ZArith List Bool.
From Hermes Require Import Num CropNModel.
Import ListNotations.
Local Open Scope num_scope.

Section Radia.
  Context {T : Type} {NT : Num T}.

  Record rd_in := {
    rd_temp : T; rd_mintmp : T; rd_maxamax : T; rd_co2 : T; rd_meth : Z; rd_temptyp : Z;
    rd_rad : T; rd_sund : T; rd_lai : T;
    rd_dl : T; rd_dle : T; rd_rdn : T; rd_drc : T;
    (* oracles *)
    rd_p2 : T; rd_ktv : T; rd_ktc : T; rd_kto : T; rd_cossc : T; rd_sslae : T;
    rd_logx : T; rd_logy : T; rd_elai : T; rd_ec : T; rd_eo : T }.

  Definition eff0 : T := dec 5 1.

  (* crop.go:787-811: CO2 compensation point, light-use efficiency, and AMAX of method 3 (0 for the other methods) *)
  Definition rd_co2_part (x : rd_in) : T * T * T (* cocomp, EFF, amax *) :=
    let t := rd_temp x in
    if (rd_meth x =? 1)%Z then
      let cocomp := dec 175 1 * rd_p2 x in
      (cocomp, (rd_co2 x - cocomp) / (rd_co2 x + two * cocomp) * eff0, zero)
    else if (rd_meth x =? 3)%Z then
      let fakamax := rd_maxamax x / dec 34695 3 in
      let vcmax := ofZ 98 * fakamax * rd_ktv x in
      let mkc := ofZ 460 * rd_ktc x in
      let mko := ofZ 210 * rd_kto x in
      let oi := ofZ 210 + (dec 47 3 - dec 13087 7 * t + dec 25603 9 * (t * t) - dec 21441 11 * (t * t * t)) / dec 26934 6 in
      let ci := rd_co2 x * dec 7 1 * (dec 1674 3 - dec 61294 6 * t + dec 11688 7 * (t * t) - dec 88741 10 * (t * t * t)) / dec 73547 5 in
      let cocomp := dec 105 3 * vcmax * oi / (vcmax * mko) in
      let a := (ci - cocomp) * vcmax / (ci + mkc * (one + oi / mko)) * dec 1656 3 in
      (cocomp, eff0, if t <? rd_mintmp x then zero else a)
    else (zero, eff0, zero).

  (* crop.go:813-827: temperature response of a C3 crop (temptyp = 1), unless method 3 has computed AMAX *)
  Definition rd_amax_c3 (x : rd_in) (amax3 : T) : T :=
    let t := rd_temp x in let m := rd_maxamax x in
    if (rd_meth x =? 3)%Z then amax3
    else if t <? rd_mintmp x then zero
    else if t <? ofZ 10 then m * t / ofZ 10 * dec 4 1
    else if t <? ofZ 15 then m * (dec 4 1 + (t - ofZ 10) / ofZ 5 * dec 5 1)
    else if t <? ofZ 25 then m * (dec 9 1 + (t - ofZ 15) / ofZ 10 * dec 1 1)
    else if t <? ofZ 35 then m * (one - (t - ofZ 25) / ofZ 10)
    else zero.

  (* crop.go:828-846: CO2 response of AMAX for methods 1 and 2 (C3 crops) *)
  Definition rd_amax_co2 (x : rd_in) (cocomp amax : T) : T :=
    if (rd_meth x =? 1)%Z then amax * (rd_co2 x - cocomp) / (ofZ 350 - cocomp)
    else if (rd_meth x =? 2)%Z then
      let '(kco1, coco) :=
        if gtb (rd_rad x) zero then
          (ofZ 220 + dec 158 3 * rd_rad x * ofZ 20, ofZ 80 - dec 36 4 * rd_rad x * ofZ 20)
        else
          let sc := ofZ 1367 * (one + dec 33 3 * rd_cossc x) in
          let ext := sc * rd_rdn x / ofZ 10000 in
          let glob := ext * (dec 19 2 + dec 55 2 * rd_sund x / rd_dl x) in
          (ofZ 220 + dec 158 3 * glob, ofZ 80 - dec 36 4 * glob) in
      let kco2 := ((rd_co2 x - coco) / (kco1 + rd_co2 x - coco)) / ((ofZ 350 - coco) / (kco1 + ofZ 350 - coco)) in
      amax * kco2
    else amax.

  (* crop.go:847-867: temperature response of a C4 crop (temptyp <> 1) *)
  Definition rd_amax_c4 (x : rd_in) : T :=
    let t := rd_temp x in let m := rd_maxamax x in
    if t <? rd_mintmp x then zero
    else if t <? ofZ 9 then m * t / ofZ 10 * dec 555 4
    else if t <? ofZ 16 then m * (dec 5 2 + (t - ofZ 9) / ofZ 7 * dec 75 2)
    else if t <? ofZ 18 then m * (dec 8 1 + (t - ofZ 16) * dec 7 2)
    else if t <? ofZ 20 then m * (dec 94 2 + (t - ofZ 18) * dec 3 2)
    else if geb t (ofZ 20) && (t <=? ofZ 30) then m
    else if t <? ofZ 36 then m * (one - (t - ofZ 30) * dec 83 4)
    else if t <? ofZ 42 then m * (one - (t - ofZ 36) * dec 65 4)
    else zero.

  (* crop.go:787-870: (EFF, AMAX) with the floor 0.1 *)
  Definition rd_eff_amax (x : rd_in) : T * T :=
    let '(cocomp, eff, amax3) := rd_co2_part x in
    let a := if (rd_temptyp x =? 1)%Z then rd_amax_co2 x cocomp (rd_amax_c3 x amax3) else rd_amax_c4 x in
    (eff, if a <? dec 1 1 then dec 1 1 else a).

  (* crop.go:871-873: an effective day length of 0 on a day with daylight becomes 0.1 h *)
  Definition rd_dle_eff (x : rd_in) : T :=
    if (rd_dle x =? zero) && gtb (rd_dl x) zero then dec 1 1 else rd_dle x.

  Record rd_out := { ro_amax : T; ro_effe : T; ro_dle : T; ro_dgac : T; ro_dgao : T;
                     ro_xarg : T; ro_yarg : T; ro_ecarg : T; ro_eoarg : T }.

  (* crop.go:874-914: light response.  (MIPH, MAPH) = the smaller and the larger of the two candidate rates *)
  Definition rd_minmax (a b : T) : T * T :=
    let '(mi, ma) := if a <? b then (a, b) else (b, a) in
    (if mi =? zero then dec 1 6 else mi, ma).

  Definition rd_light (x : rd_in) : rd_out :=
    let '(eff, amax) := rd_eff_amax x in
    let dle := rd_dle_eff x in
    let effe := (one - dec 8 2) * eff in
    let ss := rd_sslae x in
    let drc := rd_drc x in
    let xarg := one + dec 45 2 * drc / (dle * ofZ 3600) * effe / (ss * amax) in
    let lx := rd_logx x in
    let phch1 := ss * amax * dle * lx / (one + lx) in
    let yarg := one + dec 55 2 * drc / (dle * ofZ 3600) * effe / ((ofZ 5 - ss) * amax) in
    let ly := rd_logy x in
    let phch2 := (ofZ 5 - ss) * amax * dle * ly / (one + ly) in
    let phch := dec 95 2 * (phch1 + phch2) + dec 205 1 in
    let phc3 := phch * (one - rd_elai x) in
    let phc4 := rd_dl x * rd_lai x * amax in
    let '(miphc, maphc) := rd_minmax phc3 phc4 in
    let ecarg := - maphc / miphc in
    let phcl := miphc * (one - rd_ec x) in
    let dro := dec 2 1 * drc in
    let z := dro / (dle * ofZ 3600) * effe / (ofZ 5 * amax) in
    let phoh1 := ofZ 5 * amax * dle * z / (one + z) in
    let phoh := dec 9935 4 * phoh1 + dec 11 1 in
    let pho3 := phoh * (one - rd_elai x) in
    let '(mipho, mapho) := rd_minmax pho3 phc4 in
    let eoarg := - mapho / mipho in
    let phol := mipho * (one - rd_eo x) in
    let low := (rd_lai x - ofZ 5) <? zero in
    {| ro_amax := amax; ro_effe := effe; ro_dle := dle;
       ro_dgac := if low then phcl else phch; ro_dgao := if low then phol else phoh;
       ro_xarg := xarg; ro_yarg := yarg; ro_ecarg := ecarg; ro_eoarg := eoarg |}.
  (* crop.go:955-964 — maintenance: MAINTS = sum of WORG[i]*MAIRT[i] in loop order, the organs' shares MANT[i], and the potential
     maintenance MAINTS*TEFF that assim_of takes as one value; [teff] = math.Pow(2, 0.1*T - 2.5) *)
  Definition maint_sum (worg mairt : list T) : T := fold_left (fun a p => a + fst p * snd p) (combine worg mairt) zero.
  Definition mant_of (worg mairt : list T) : list T :=
    let s := maint_sum worg mairt in map (fun p => fst p * snd p / s) (combine worg mairt).
  Definition maint_pot_of (worg mairt : list T) (teff : T) : T := maint_sum worg mairt * teff.

  (* radia() as a whole (GPHOT, MAINT): the light response feeds the assimilation kernel CropNModel.assim_of *)
  Definition radia_of (x : rd_in) (trrel vswell maint_pot : T) (cold : bool) : T * T :=
    let r := rd_light x in
    assim_of {| as_rad := rd_rad x; as_sund := rd_sund x; as_dle := ro_dle r; as_dgac := ro_dgac r; as_dgao := ro_dgao r;
                as_drc := rd_drc x; as_trrel := trrel; as_vswell := vswell; as_maint_pot := maint_pot; as_cold := cold |}.
End Radia.
