(* Prop_C14.v — property C14 (configuration precedence: batch line over project file over defaults),
   stated about ConfigModel (model of hermes/config.go readConfig/commandlineOverride and of the
   token splitting of hermes/run.go) for EVERY schema [s] (the actual one is regenerated from /repo on
   every run and re-checked in gen/ConfigSchemaCheck.v), every decoded project file [f], every
   ParseFloat oracle [pf], every batch line [tokens].  Only statements closed by [exact lemma],
   one example by computation, and Print Assumptions. *)
From Coq Require Import ZArith List Bool String Permutation.
From Hermes Require Import ConfigModel ConfigProofs.
Import ListNotations.
Open Scope string_scope.

(* precedence — whatever order [es] Go iterates the argument map in:
   the run aborts (log.Fatalf) exactly when the last token of some numeric key does not parse;
   otherwise every field n of the schema holds: the parsed value of the LAST token n=... on the line
   (float / int / text / on-off table), else — no such token, or an on-off spelling outside the table —
   the value of the project file, else the default. *)
Theorem C14_precedence : forall pf s f tokens es, Permutation es (arg_map tokens) ->
  (effective pf s f es = None <->
     exists n str kd, arg_get tokens n = Some str /\ kind_of n s = Some kd /\ parse_kind pf kd str = PFatal) /\
  forall cfg, effective pf s f es = Some cfg ->
    forall n kd d, kind_of n s = Some kd -> get n s = Some d ->
      let basev := match f n with Some v => v | None => d end in
      get n cfg = Some match arg_get tokens n with
                       | Some str => match parse_kind pf kd str with PSet v => v | _ => basev end
                       | None => basev
                       end.
Proof. exact precedence_lemma. Qed.

(* unknown keys are ignored: an entry whose key is no field of the schema changes nothing, wherever it
   is iterated; a token that is not of the shape k=v, or whose key is unknown, changes nothing, wherever
   it stands on the line *)
Theorem C14_unknown_ignored : forall pf s f es1 es2 k v, kind_of k s = None ->
  effective pf s f (es1 ++ (k, v) :: es2) = effective pf s f (es1 ++ es2).
Proof. exact unknown_entry_lemma. Qed.

Theorem C14_unknown_token_ignored : forall pf s f t1 t2 t,
  (token_kv t = None \/ exists k v, token_kv t = Some (k, v) /\ kind_of k s = None) ->
  effective pf s f (arg_map (t1 ++ t :: t2)) = effective pf s f (arg_map (t1 ++ t2)).
Proof. exact unknown_token_lemma. Qed.

(* order independence: of the map iteration (any permutation of the entries), and of the order in
   which arguments with distinct keys are written on the line *)
Theorem C14_order_independent : forall pf s f es es', NoDup (map fst es) -> Permutation es es' ->
  effective pf s f es = effective pf s f es'.
Proof. exact order_entries_lemma. Qed.

Theorem C14_token_order_independent : forall pf s f tokens tokens',
  NoDup (map fst (kvs tokens)) -> Permutation tokens tokens' ->
  effective pf s f (arg_map tokens) = effective pf s f (arg_map tokens').
Proof. exact order_tokens_lemma. Qed.

(* the result depends on the line only through the last value it gives to each schema key *)
Theorem C14_depends_on_last_values_only : forall pf s f tokens tokens',
  (forall n, kind_of n s <> None -> arg_get tokens n = arg_get tokens' n) ->
  effective pf s f (arg_map tokens) = effective pf s f (arg_map tokens').
Proof. exact tokens_ext. Qed.

(* the fix-ups after the override (empty WeatherFolder / WeatherRootFolder / ResultFileExt) touch no other key *)
Theorem C14_fixups_touch_three_keys : forall root cfg n,
  n <> "WeatherFolder" -> n <> "WeatherRootFolder" -> n <> "ResultFileExt" ->
  get n (fixup root cfg) = get n cfg.
Proof. exact fixup_other_lemma. Qed.

(* history independence — a project WITHOUT config.yml gets one generated from the defaults before the first
   run reads it; over ANY sequence of runs on the project (same session or later program starts), the
   configuration of run k depends only on the project file as it was before the first run and on line k
   itself; with no file at the start it is: defaults overlaid by line k's own arguments — never by those
   of an earlier line *)
Theorem C14_history_independent : forall pf s runs st k es, nth_error runs k = Some es ->
  nth_error (run_seq pf s st runs) k = Some (effective pf s (autogen s st) es).
Proof. exact history_lemma. Qed.

Theorem C14_history_independent_no_file : forall pf s runs k es, NoDup (names s) -> nth_error runs k = Some es ->
  nth_error (run_seq pf s None runs) k = Some (effective pf s (fun _ => None) es).
Proof. exact history_nofile_lemma. Qed.

(* the batch LINE as text (src/hermes2go/hermes_main.go: strings.Fields): whatever runs of white space (blanks,
   tabs, CR, ...) separate and surround the arguments, the tokens are exactly the arguments *)
Theorem C14_fields_any_whitespace : forall lead pairs, all_ws lead = true ->
  Forall tok_ok (map fst pairs) -> seps_ok pairs ->
  fields (lead ++ render pairs) = map fst pairs.
Proof. exact fields_render_lemma. Qed.

(* the Run glue: the map readConfig receives is the parsed line — reading the crop overrides (CropFile=, c_...=)
   from it consumes nothing, so every theorem above applies to [line_config] with tokens = fields line, also for keys
   that share a prefix with the crop-override arguments (CropFileFormat, CropParameterFormat) *)
Theorem C14_crop_parsing_keeps_arguments : forall line, glue_args line = arg_map (fields line).
Proof. exact glue_args_lemma. Qed.

(* order independence stated on the line text: same arguments (distinct keys), any order, any white space *)
Theorem C14_line_order_independent : forall pf s f lead lead' pairs pairs',
  all_ws lead = true -> all_ws lead' = true ->
  Forall tok_ok (map fst pairs) -> Forall tok_ok (map fst pairs') -> seps_ok pairs -> seps_ok pairs' ->
  NoDup (map fst (kvs (map fst pairs))) -> Permutation (map fst pairs) (map fst pairs') ->
  line_config pf s f (lead ++ render pairs) = line_config pf s f (lead' ++ render pairs').
Proof. exact line_order_lemma. Qed.

(* the loop of commandlineOverride ranges over a Go MAP (random order): applying the (key, value) pairs of the line to
   any configuration gives the same result in every order of distinct keys, because the handler of a key writes
   only the field of that name *)
Theorem C14_apply_overrides_order_independent : forall pf l l' c, Permutation l l' -> NoDup (map fst l) ->
  override pf l c = override pf l' c.
Proof. exact apply_overrides_lemma. Qed.

Theorem C14_key_writes_own_field_only : forall pf k v c c' n,
  set_field pf k v c = Some c' -> n <> k -> get n c' = get n c.
Proof. exact key_writes_own_field_lemma. Qed.

Example C14_switch_pair_both_orders :
  let c := [("AutoSowingHarvest", KBool, VBool true); ("AutoHarvest", KBool, VBool false)] in
  let want := Some [("AutoSowingHarvest", KBool, VBool false); ("AutoHarvest", KBool, VBool true)] in
  override (fun _ => None) [("AutoSowingHarvest", "0"); ("AutoHarvest", "1")] c = want /\
  override (fun _ => None) [("AutoHarvest", "1"); ("AutoSowingHarvest", "0")] c = want.
Proof. vm_compute. split; reflexivity. Qed.

(* non-vacuity: a three-key schema; line "B=7 zz=1 A=2.5 B=8 C=maybe D"; file gives A and C *)
Example C14_nonvacuous :
  let pf := fun s => if s =? "2.5" then Some 4612811918334230528%Z else None in
  let s := [("A", KFloat, VFloat 0); ("B", KInt, VInt 1); ("C", KBool, VBool false)] in
  let f := fun k => if k =? "A" then Some (VFloat 5) else if k =? "C" then Some (VBool true) else None in
  let tokens := ["B=7"; "zz=1"; "A=2.5"; "B=8"; "C=maybe"; "D"; "B=1=2"] in
  arg_map tokens = [("B", "8"); ("zz", "1"); ("A", "2.5"); ("C", "maybe")] /\
  effective pf s f (arg_map tokens) =
    Some [("A", KFloat, VFloat 4612811918334230528); ("B", KInt, VInt 8); ("C", KBool, VBool true)] /\
  effective pf s f (arg_map ["A=x"]) = None /\ effective pf s f (arg_map ["B=99999999999999999999"]) = None.
Proof. vm_compute. repeat split; reflexivity. Qed.

Print Assumptions C14_precedence.
Print Assumptions C14_unknown_ignored.
Print Assumptions C14_unknown_token_ignored.
Print Assumptions C14_order_independent.
Print Assumptions C14_token_order_independent.
Print Assumptions C14_depends_on_last_values_only.
Print Assumptions C14_fixups_touch_three_keys.
Print Assumptions C14_fields_any_whitespace.
Print Assumptions C14_crop_parsing_keeps_arguments.
Print Assumptions C14_line_order_independent.
Print Assumptions C14_apply_overrides_order_independent.
Print Assumptions C14_key_writes_own_field_only.
Print Assumptions C14_history_independent.
Print Assumptions C14_history_independent_no_file.
