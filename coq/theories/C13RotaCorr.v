(* C13RotaCorr.v — correspondence of RotaReaderModel with the real rotation reader inside hermes.Input
   (harness command inputstate: the run is started in-process, the arrays are captured by the probe on
   the first simulated day): crop names, varieties, sowing / harvest day numbers, ITAG, the entry behind
   the last one, ODU, JN, ERTR — compared exactly; python's renderings of an abstract rotation are
   compared with the Coq renderers. *)
From Coq Require Import ZArith List Bool Ascii String Floats Uint63.
From Hermes Require Import Num DateModel CropParamModel SoilModel RotaReaderModel C13Corr C13SoilCorr.
Import ListNotations.
Local Open Scope Z_scope.

Inductive robs := ROk (crop var : list string) (z : list Z) (f : list float) | RErr | RCrash.

Definition flat_rot (r : rotation float) : list lstr * list lstr * list Z * list float :=
  let es := ro_entries r in
  (map (fun e => re_crop e) es, map (fun e => re_var e) es,
   map (fun e => re_saat e) es ++ map (fun e => re_ernte e) es ++ [ro_itag r] ++
   tab (S (List.length es)) (fun i => fold_left (fun a w => if Nat.eqb (fst w) i then snd w else a) (ro_sentinels r) 0),
   map (fun e => re_odu e) es ++ map (fun e => re_jn e) es ++ map (fun e => re_ertr e) es).

Definition rot_cmp (m : res (rotation float)) (o : robs) : list Z :=
  match m, o with
  | Ok r, ROk c v z f =>
      let '(mc, mv, mz, mf) := flat_rot r in
      diff_s 20000 mc c ++ diff_s 30000 mv v ++ diff_z 10000 mz z ++ diff_f 0 mf f
  | Err, RErr => []
  | Crash, RCrash => []
  | Ok _, _ => [77777]
  | _, ROk _ _ _ _ => [88888]
  | _, _ => [70000]
  end.

Definition fmt_of_z (z : Z) : datefmt := match z with 0 => DEshort | 1 => DElong | 2 => ENshort | _ => ENlong end.

Definition mk_arow (f : list string) (org : option string) : arow :=
  let g k := lstr_of (nth k f ""%string) in
  {| ar_field := g 0%nat; ar_crop := g 1%nat; ar_sow := g 2%nat; ar_har := g 3%nat; ar_rex := g 4%nat; ar_yld := g 5%nat;
     ar_org := option_map lstr_of org; ar_var := g 6%nat; ar_comment := g 7%nat |}.

Inductive rcase :=
  | RLoad (file : nat) (csv : bool) (fmt cent : Z) (pkt : string) (o : robs)
  | RRender (rows : list arow) (txt csv : nat).

Definition rcase_diff (files : list (list lstr)) (c : rcase) : list Z :=
  match c with
  | RLoad f csv fm cent pkt o =>
      rot_cmp ((if csv then read_rot_csv else read_rot_txt) cent (fmt_of_z fm) (lstr_of pkt) (nth f files [])) o
  | RRender rows t c =>
      (if lines_eqb (render_rot_txt rows) (nth t files []) then [] else [66661]) ++
      (if lines_eqb (render_rot_csv rows) (nth c files []) then [] else [66662])
  end.

Fixpoint rmismatches_from (files : list (list lstr)) (i : nat) (cs : list rcase) : list (nat * list Z) :=
  match cs with
  | [] => []
  | c :: r => match rcase_diff files c with
              | [] => rmismatches_from files (S i) r
              | d => (i, firstn 6 d) :: rmismatches_from files (S i) r
              end
  end.
Definition rmismatches (fs : list fsrc) (cs : list rcase) : list (nat * list Z) :=
  rmismatches_from (resolve [] fs) 0 cs.
