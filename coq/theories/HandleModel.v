(* HandleModel.v — several writers holding open handles on ONE result file at the same time
   (C03: the same batch line repeated in a batch, -concurrent >= 2, same result folder).

   hermes/path.go:246-262 DefaultFoutGenerator opens with O_CREATE|O_WRONLY plus
       O_APPEND            when append     (every write goes to the current end of the file)
       O_TRUNC             when not append (the file is emptied at open; each handle then
                                            writes at ITS OWN offset, starting at 0)
   A file is (content : position -> byte, length), positions in N; a write beyond the end
   leaves a hole that reads as zero (POSIX).  The bufio layer of Fout is not modelled: the
   events below are the writes that reach the operating system. *)
From Coq Require Import NArith Arith List Bool Lia.
Import ListNotations.
Local Open Scope N_scope.

Section Handle.
  Context {byte : Type} (zero : byte).

  Record hfile := HFile { cont : N -> byte; flen : N }.
  Record handle := Handle { happ : bool; hoff : N }.

  Definition empty_file : hfile := HFile (fun _ => zero) 0.

  (* open(path, O_CREATE|O_WRONLY [|O_APPEND] [|O_TRUNC]) *)
  Definition hopen (append trunc : bool) (f : hfile) : hfile * handle :=
    ((if trunc then empty_file else f), Handle append 0).

  (* DefaultFoutGenerator as it is *)
  Definition fout_hopen (append : bool) (f : hfile) : hfile * handle := hopen append (negb append) f.

  (* write of the n bytes g 0 .. g (n-1) *)
  Definition hwritef (f : hfile) (h : handle) (g : N -> byte) (n : N) : hfile * handle :=
    let o := if happ h then flen f else hoff h in
    (HFile (fun p => if (o <=? p) && (p <? o + n) then g (p - o) else cont f p)
           (N.max (flen f) (o + n)),
     Handle (happ h) (o + n)).

  Definition hwrite (f : hfile) (h : handle) (data : list byte) : hfile * handle :=
    hwritef f h (fun i => nth (N.to_nat i) data zero) (N.of_nat (length data)).

  Fixpoint bytes_from (f : hfile) (n : nat) (p : N) : list byte :=
    match n with O => [] | S k => cont f p :: bytes_from f k (N.succ p) end.
  Definition file_bytes (f : hfile) : list byte := bytes_from f (N.to_nat (flen f)) 0.

  (* ---- any number of writers producing the SAME content d, opened truncating, interleaved
     arbitrarily: offs i = Some o  <->  writer i is open and has written d[0..o) *)
  Variable d : list byte.

  Record wstate := WState { wfile : hfile; offs : nat -> option N }.

  Inductive wevent := EOpen (i : nat) | EWrite (i : nat) (k : N).

  Definition upd (m : nat -> option N) (i : nat) (v : option N) : nat -> option N :=
    fun j => if Nat.eqb j i then v else m j.

  Inductive wstep : wstate -> wevent -> wstate -> Prop :=
  | ws_open s i : offs s i = None ->
      wstep s (EOpen i) (WState (fst (fout_hopen false (wfile s))) (upd (offs s) i (Some 0)))
  | ws_write s i o k : offs s i = Some o -> o + k <= N.of_nat (length d) ->
      wstep s (EWrite i k)
            (WState (fst (hwrite (wfile s) (Handle false o) (firstn (N.to_nat k) (skipn (N.to_nat o) d))))
                    (upd (offs s) i (Some (o + k)))).

  Inductive wexec : wstate -> list wevent -> wstate -> Prop :=
  | we_nil s : wexec s [] s
  | we_cons s e s1 tr s2 : wstep s e s1 -> wexec s1 tr s2 -> wexec s (e :: tr) s2.
End Handle.
