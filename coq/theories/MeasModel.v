(* MeasModel.v — executable model of the two readers of the measured initial values
   (endit_<project>.txt / .csv): hermes/input.go ExtractMeasuredDataTxt (:757) and
   ExtractMeasuredDataCSV (:914), without automatic fertilisation.  The first row of the plot gives
   the date, the mineral N of six depth intervals (0-3, 3-6, 6-9, 9-12, 12-15, 15-20 dm) and the
   water of the same intervals; the readers spread them over the N 1-dm layers of the profile:
   Nmin of an interval divided by its number of layers (3, 3, 3, 3, 3 and 5), water according to
   the mode column M.  No proofs here.  A panic / Fatal is [Crash].  Numbers: any type [T]. *)
From Coq Require Import ZArith List Bool Ascii String Lia.
From Hermes Require Import Num DateModel CropParamModel SoilModel RotaReaderModel.
Import ListNotations.
Local Open Scope Z_scope.

Section Model.
  Context {T : Type} {NT : Num T}.

  (* the values of the first row of the plot *)
  Record mvals := { mv_date : lstr; mv_k : list T (* 6 *); mv_mode : lstr; mv_w : list T (* 6 *) }.

  Record minit := {
    mi_nmess : Z; mi_mes0 : lstr; mi_mess0 : Z;
    mi_wg2 : list T;            (* WG[2][0 .. N] *)
    mi_wnz0 : T; mi_knz : list T (* KNZ1..KNZ6 [0] *);
    mi_cn1 : list T             (* CN[1][0 .. N-1] *) }.

  Definition interval (zi : nat) : nat :=      (* zi = 1-based layer: which of the six depth intervals *)
    if Nat.ltb zi 4 then 0 else if Nat.ltb zi 7 then 1 else if Nat.ltb zi 10 then 2
    else if Nat.ltb zi 13 then 3 else if Nat.ltb zi 16 then 4 else 5.

  Definition wfactor (k : nat) : T :=
    match k with 0%nat => Num.dec 14 1 | 1%nat => Num.dec 15 1 | _ => Num.dec 16 1 end.

  (* water content of layer zi (:784-840): mode "3" = the value, "2" = value * factor, else between wilting
     point and field capacity *)
  Definition wg_layer (mode : lstr) (w : list T) (W WMIN : list T) (zi : nat) : T :=
    let k := interval zi in
    let v := nth k w zero in
    if leqb mode (lstr_of "3") then v
    else if leqb mode (lstr_of "2") then mul v (wfactor k)
    else add (nth (zi - 1) WMIN zero) (mul (sub (nth (zi - 1) W zero) (nth (zi - 1) WMIN zero)) v).

  (* Nmin of layer i (:858-872): the interval's value over its number of layers; [deep] = divisor of 15-20 dm *)
  Definition cn_layer (deep : T) (k : list T) (i : nat) : T :=
    let j := interval i in
    div (nth j k zero) (if Nat.eqb j 5 then deep else ofZ 3).

  (* what both readers do with the values of the row.  [wg2old]: WG[2] before (entries 9.. of a shallow
     profile enter the 0-9 dm water sum of the default mode) *)
  Definition spread (deep : T) (cent : Z) (f : datefmt) (n : nat) (W WMIN wg2old : list T) (nmess : Z) (v : mvals) : res minit :=
    match date_converter cent f (mv_date v) with
    | None => Crash
    | Some (_, mess) =>
        if Nat.eqb n 0 then Crash else                    (* WG[2][N-1] with N = 0 *)
        let layers := tab n (fun i => wg_layer (mv_mode v) (mv_w v) W WMIN (S i)) in
        let wg2 := tab 21 (fun i => if Nat.ltb i n then nth i layers zero
                                    else if Nat.eqb i n then nth (n - 1) layers zero else nth i wg2old zero) in
        let w := mv_w v in
        let w0 := nth 0 w zero in let w1 := nth 1 w zero in let w2 := nth 2 w zero in
        let wnz := if leqb (mv_mode v) (lstr_of "3") then mul (add (add w0 w1) w2) (ofZ 300)
                   else if leqb (mv_mode v) (lstr_of "2")
                        then mul (add (add (mul w0 (Num.dec 14 1)) (mul w1 (Num.dec 15 1))) (mul w2 (Num.dec 16 1))) (ofZ 300)
                        else mul (fold_left add (firstn 8 (skipn 1 wg2)) (nth 0 wg2 zero)) (ofZ 100) in
        Ok {| mi_nmess := nmess; mi_mes0 := mv_date v; mi_mess0 := mess; mi_wg2 := firstn (S n) wg2; mi_wnz0 := wnz;
              mi_knz := mv_k v; mi_cn1 := tab n (fun i => cn_layer deep (mv_k v) (S i)) |}
    end.

  (* ---- text: white-space tokens id date Nm03 Nm36 Nm69 M W03 W36 W69 [NM9-12 NM12-15 NM15-20 W9-12 W12-15 W15-20] ---- *)
  Definition vf (t : option lstr) : res T := crash_if_none (let? x := t in val_as_float x).

  Definition txt_vals (toks : list lstr) : res mvals :=
    let g k := nth_error toks k in
    let* date := crash_if_none (g 1%nat) in
    let* k1 := vf (g 2%nat) in let* k2 := vf (g 3%nat) in let* k3 := vf (g 4%nat) in
    let long := Nat.ltb 9 (List.length toks) in
    let* k4 := if long then vf (g 9%nat) else Ok zero in
    let* k5 := if long then vf (g 10%nat) else Ok zero in
    let* k6 := if long then vf (g 11%nat) else Ok zero in
    let* mode := crash_if_none (g 5%nat) in
    let* w1 := vf (g 6%nat) in let* w2 := vf (g 7%nat) in let* w3 := vf (g 8%nat) in
    let* w4 := if long then vf (g 12%nat) else Ok zero in
    let* w5 := if long then vf (g 13%nat) else Ok zero in
    let* w6 := if long then vf (g 14%nat) else Ok zero in
    Ok {| mv_date := date; mv_k := [k1; k2; k3; k4; k5; k6]; mv_mode := mode; mv_w := [w1; w2; w3; w4; w5; w6] |}.

  (* the rows of the plot: nested loops as in the rotation reader (a row that is not one of the plot ends the
     block and is dropped; the outer loop ends at a row without tokens); returns the first row and the count *)
  Fixpoint txt_scan (ident : lstr) (inner : bool) (rows : list (list lstr)) (first : option (list lstr)) (cnt : Z)
      : option (list lstr) * Z :=
    match rows with
    | [] => (first, cnt)
    | r :: rest =>
        let valid := Nat.ltb 0 (List.length r) in
        let mine := valid && leqb (trim (nth 0 r [])) ident in
        if mine then txt_scan ident true rest (match first with None => Some r | s => s end) (cnt + 1)
        else if inner then txt_scan ident false rest first cnt
        else if negb valid then (first, cnt)
        else txt_scan ident false rest first cnt
    end.

  Definition no_meas (n : nat) (wg2old : list T) : minit :=
    {| mi_nmess := 0; mi_mes0 := []; mi_mess0 := 0; mi_wg2 := firstn (S n) (tab 21 (fun i => nth i wg2old zero));
       mi_wnz0 := zero; mi_knz := repeat zero 6; mi_cn1 := [] |}.

  Definition read_meas_txt (cent : Z) (f : datefmt) (n : nat) (W WMIN wg2old : list T) (ident : lstr) (lines : list lstr)
      : res (option minit) :=
    match lines with
    | [] => Crash
    | _ :: data =>
        match txt_scan ident false (map fields data) None 0 with
        | (None, _) => Ok None
        | (Some r, cnt) => let* v := txt_vals r in
                           let* m := spread (ofZ 5) cent f n W WMIN wg2old cnt v in Ok (Some m)
        end
    end.

  (* ---- CSV: header names (two sets) -> columns; a missing name reads column 0; cells split at ',' ---- *)
  Definition mcol (hdr : list lstr) (names : list string) : nat :=
    (* the Go map is filled name by name: the last name of the list that occurs in the header wins *)
    fold_left (fun acc nm => match index_of (lstr_of nm) hdr 0 with Some i => i | None => acc end) names O.

  Record midx := { xi : nat; xd : nat; xk : list nat; xm : nat; xw : list nat }.
  Definition midx_of (hdr : list lstr) : midx :=
    {| xi := mcol hdr ["Id"; "Plot_ID"]%string; xd := mcol hdr ["Date"]%string;
       xk := [mcol hdr ["Nm03"; "Nmin0-3"]%string; mcol hdr ["Nm36"; "Nmin3-6"]%string; mcol hdr ["Nm69"; "Nmin6-9"]%string;
              mcol hdr ["NM9-12"; "Nmin9-12"]%string; mcol hdr ["NM12-15"; "Nmin12-15"]%string; mcol hdr ["NM15-20"; "Nmin15-20"]%string];
       xm := mcol hdr ["M"]%string;
       xw := [mcol hdr ["Water0-3"; "W0_3"]%string; mcol hdr ["Water3-6"; "W3_6"]%string; mcol hdr ["Water6-9"; "W6_9"]%string;
              mcol hdr ["W9-12"; "Water9-12"]%string; mcol hdr ["W12-15"; "Water12-15"]%string; mcol hdr ["W15-20"; "Water15-20"]%string] |}.

  Definition tf (t : option lstr) : res T := match t with Some x => Ok (try_float x) | None => Crash end.

  Definition csv_vals (x : midx) (toks : list lstr) : res mvals :=
    let g k := nth_error toks k in
    let c l k := g (nth k l O) in
    let* date := crash_if_none (g (xd x)) in
    let* k1 := vf (c (xk x) 0%nat) in let* k2 := vf (c (xk x) 1%nat) in let* k3 := vf (c (xk x) 2%nat) in
    let* k4 := tf (c (xk x) 3%nat) in let* k5 := tf (c (xk x) 4%nat) in let* k6 := tf (c (xk x) 5%nat) in
    let* mode := crash_if_none (g (xm x)) in
    let* w1 := vf (c (xw x) 0%nat) in let* w2 := vf (c (xw x) 1%nat) in let* w3 := vf (c (xw x) 2%nat) in
    let* w4 := tf (c (xw x) 3%nat) in let* w5 := tf (c (xw x) 4%nat) in let* w6 := tf (c (xw x) 5%nat) in
    Ok {| mv_date := date; mv_k := [k1; k2; k3; k4; k5; k6]; mv_mode := mode; mv_w := [w1; w2; w3; w4; w5; w6] |}.

  (* every line that starts with the plot id and whose id cell (trimmed) is the plot id; a line that starts
     with it but has no id cell is an index panic *)
  Fixpoint csv_scan (x : midx) (ident : lstr) (lines : list lstr) (first : option (list lstr)) (cnt : Z)
      : res (option (list lstr) * Z) :=
    match lines with
    | [] => Ok (first, cnt)
    | l :: rest =>
        if negb (has_prefix ident l) then csv_scan x ident rest first cnt else
        let toks := split_on ","%char l in
        match nth_error toks (xi x) with
        | None => Crash
        | Some t => if leqb (trim t) ident
                    then csv_scan x ident rest (match first with None => Some toks | s => s end) (cnt + 1)
                    else csv_scan x ident rest first cnt
        end
    end.

  Definition read_meas_csv (cent : Z) (f : datefmt) (n : nat) (W WMIN wg2old : list T) (ident : lstr) (lines : list lstr)
      : res (option minit) :=
    match lines with
    | [] => Crash
    | hd :: data =>
        let x := midx_of (explode [","%char; ";"%char] hd) in
        let* r := csv_scan x ident data None 0 in
        match r with
        | (None, _) => Ok None
        | (Some toks, cnt) => let* v := csv_vals x toks in
                              let* m := spread (ofZ 5) cent f n W WMIN wg2old cnt v in Ok (Some m)
        end
    end.
End Model.

Arguments mvals T : clear implicits.
Arguments minit T : clear implicits.

(* ------------------------------------------------------------------ *)
(* an abstract measurement row (texts) and its two renderings *)
Record amrow := { am_id : lstr; am_date : lstr; am_k : list lstr (* 6 *); am_mode : lstr; am_w : list lstr (* 6 *) }.
Definition am_tokens (r : amrow) : list lstr :=
  [am_id r; am_date r] ++ firstn 3 (am_k r) ++ [am_mode r] ++ firstn 3 (am_w r) ++ skipn 3 (am_k r) ++ skipn 3 (am_w r).
Definition render_meas_txt_row (r : amrow) : lstr := List.concat (map (fun t => t ++ [" "%char]) (am_tokens r)).
(* the CSV row always has its 15 cells: a row without the deep values has them empty *)
Definition am_cells (r : amrow) : list lstr := am_tokens r ++ repeat [] (15 - List.length (am_tokens r)).
Definition render_meas_csv_row (r : amrow) : lstr := intercalate [","%char] (am_cells r).
Definition meas_txt_header : lstr := lstr_of "Plot_ID Date Nm03 Nm36 Nm69 M W0_3 W3_6 W6_9 NM9-12 NM12-15 NM15-20 W9-12 W12-15 W15-20".
Definition meas_csv_header : lstr := lstr_of "Plot_ID,Date,Nm03,Nm36,Nm69,M,W0_3,W3_6,W6_9,NM9-12,NM12-15,NM15-20,W9-12,W12-15,W15-20".
Definition render_meas_txt (rows : list amrow) : list lstr := meas_txt_header :: map render_meas_txt_row rows.
Definition render_meas_csv (rows : list amrow) : list lstr := meas_csv_header :: map render_meas_csv_row rows.
