(* Prop_C13.v — property C13 (alternative input formats of the same content give identical
   results).  A run is write o simulate o load and simulate depends on the loaded state only, so
   byte-identical results follow from LOADER AGREEMENT per format pair.  Stated here about the
   models DateModel (helper.go) and CropParamModel (cropparam.go); only statements, each closed by
   [exact lemma], and Print Assumptions. *)
From Coq Require Import ZArith List Bool Ascii String Floats.
From Hermes Require Import Util Num Calendar DateModel DateProofs PredDateModel CropParamModel CropParamProofs SoilModel SoilProofs RotaReaderModel RotaReaderProofs MeasModel MeasProofs CropSamples C13Proofs WeatherModel WeatherProofs.
Local Open Scope Z_scope.

(* the four date formats (with any separator of length <= 1) of one civil date are read as the
   same day of year and day number — a consequence of C12 *)
Theorem C13_dates_agree : forall f1 f2 sep1 sep2 cent y m d,
  sep_ok sep1 -> sep_ok sep2 -> 0 <= cent <= 100 -> 1901 <= y <= 2099 ->
  valid_date (mkdate y m d) = true -> in_window f1 cent y -> in_window f2 cent y ->
  exists n, 1 <= n <= 72684 /\
    date_converter cent f1 (render_date f1 sep1 y m d) = Some (doy (mkdate y m d), n) /\
    date_converter cent f2 (render_date f2 sep2 y m d) = Some (doy (mkdate y m d), n).
Proof. exact dates_agree_lemma. Qed.

(* the fertiliser-prediction date (longday.go LangTagConverter) is written in the project's date format too:
   the year LangTag takes from it = the year DateConverter takes from it = the civil year - 1900, in all
   four formats with the century split of the two-digit ones *)
Theorem C13_prediction_year_agrees : forall f sep cent y m d,
  sep_ok sep -> 0 <= cent <= 100 -> 1901 <= y <= 2099 -> valid_date (mkdate y m d) = true -> in_window f cent y ->
  langtag_year cent f (render_date f sep y m d) = Some (y - 1900) /\
  datum_year cent f (render_date f sep y m d) = Some (y - 1900).
Proof. exact prediction_year_lemma. Qed.

(* classic crop parameter file vs the YAML record the shipped converter makes of it: the two
   readers put the model into the same state, whatever the state before (T: any number type; a
   decimal text is the same value on both paths).  Hypotheses = the differences of the two
   readers: organ/stage counts within the arrays, above-ground organs within 1..NRKOM (YAML reader
   stops, classic reader does not), BBCH codes of the stage headlines in [0,100) (classic reader
   drops others, the converter keeps them), and nothing stale in RGA/RGB/SubOrgan where the
   classic reader leaves the previous crop's value and the converter writes 0. *)
Theorem C13_crop_yaml_agree : forall (T : Type) (NT : Num T) cont lines (r : crop_rec T) s0,
  convert lines = Some r ->
  r_nrkom r <= 5 -> r_nrentw r <= 10 -> ago_ok (r_nrkom r) (r_ago r) = true ->
  bbch_ok lines (ztn (r_nrentw r)) ->
  stale_ok lines s0 ->
  state_of_yaml cont r s0 = state_of_classic cont lines s0.
Proof. exact (@crop_yaml_agree_lemma). Qed.

(* a BBCH code the classic reader accepts satisfies the hypothesis above *)
Theorem C13_bbch_in_range_suffices : forall (T : Type) (NT : Num T) h,
  (forall v, val_as_float (T:=T) (skipn 65 h) = Some v -> leb zero v && ltb v (ofZ 100) = true) ->
  read_bbch (T:=T) true h = read_bbch (T:=T) false h.
Proof. exact (@bbch_in_range). Qed.

(* the listed differences are real: a headline with BBCH code 100 separates the two readers *)
Theorem C13_bbch_difference_refuted :
  exists h, read_bbch (T:=PrimFloat.float) true h <> read_bbch (T:=PrimFloat.float) false h.
Proof. exact bbch_difference. Qed.

(* soil profiles: the fixed-width reader on the fixed-width rendering of an abstract profile and the
   CSV reader on its CSV rendering return the same SoilFileData (or the same error / the same
   Fatal), with and without the ground-water column, for every profile whose texts fit their
   columns and contain no comma (character-level slicing / splitting models of LoadSoil and
   LoadSoilCSV; CSV without a bulk-density value, which the fixed-width layout cannot express) *)
Theorem C13_soil_agree : forall (T : Type) (NT : Num T) gw p, wf_profile p ->
  load_soil_txt (T:=T) gw (ap_sid p) (render_txt p) = load_soil_csv gw (ap_sid p) (render_csv p).
Proof. exact (@soil_agree_lemma). Qed.

(* non-vacuity of C13_soil_agree: a well-formed two-horizon profile that loads *)
Example C13_soil_nonvacuous :
  wf_profile sample_profile /\
  exists sd, load_soil_txt (T:=PrimFloat.float) true (ap_sid sample_profile) (render_txt sample_profile) = Ok sd /\
             sd_azho sd = 2 /\ sd_n sd = 20.
Proof. exact sample_profile_loads. Qed.

(* crop rotations: the text reader (white-space separated tokens) on the text rendering of an abstract
   rotation and the CSV reader (cells split at ',', EMPTY CELLS KEPT, columns by header name) on its CSV
   rendering leave the same rotation — or end in the same error / the same Fatal (date order check) —
   for every date format and century split, every field id, and all rows whose texts are tokens
   without blanks resp. cells without commas; a row may end after yld, after autorg, carry a variety,
   and — in the CSV — a comment behind an empty variety cell (runs without automatic management) *)
Theorem C13_rotation_agree : forall (T : Type) (NT : Num T) cent f pkt rows, Forall wf_arow rows ->
  read_rot_txt (T:=T) cent f pkt (render_rot_txt rows) = read_rot_csv cent f pkt (render_rot_csv rows).
Proof. exact (@rotation_agree_lemma). Qed.

Example C13_rotation_nonvacuous :
  Forall wf_arow sample_rotation /\
  exists r, read_rot_csv (T:=PrimFloat.float) 60 DElong (lstr_of "FLD1") (render_rot_csv sample_rotation) = Ok r /\
            List.length (ro_entries r) = 4%nat /\ List.map (fun e => str_of (re_var e)) (ro_entries r) = (""%string :: "ii"%string :: ""%string :: ""%string :: nil).
Proof. exact sample_rotation_reads. Qed.

(* measured initial values: the text reader on the text rendering of an abstract measurement set and the
   CSV reader on its CSV rendering (15 cells per row, the deep ones possibly empty) leave the same
   initial values — date, day number, the water of the N layers and of layer N+1, the 0-9 dm water
   sum, the six interval values, the per-layer mineral N with the interval divisors 3, 3, 3, 3, 3 and 5 —
   for EVERY profile depth N, every plot id, date format, mode column and field capacity / wilting
   point arrays (runs without automatic fertilisation) *)
Theorem C13_measurement_agree : forall (T : Type) (NT : Num T) cent f n W WMIN old ident rows, Forall wf_amrow rows ->
  read_meas_txt (T:=T) cent f n W WMIN old ident (render_meas_txt rows) =
  read_meas_csv cent f n W WMIN old ident (render_meas_csv rows).
Proof. exact (@measurement_agree_lemma). Qed.

Example C13_measurement_nonvacuous :
  Forall wf_amrow sample_meas /\
  exists m, read_meas_csv (T:=PrimFloat.float) 60 DElong 17 (List.repeat PrimFloat.one 21) (List.repeat PrimFloat.zero 21) nil
              (lstr_of "ALLE") (render_meas_csv sample_meas) = Ok (Some m) /\
            mi_nmess m = 1 /\ List.length (mi_cn1 m) = 17%nat /\ List.nth 16 (mi_cn1 m) PrimFloat.zero = PrimFloat.div 7.5%float 5%float.
Proof. exact sample_meas_reads. Qed.

(* weather layouts (imported from the C04 development, record level: WeatherModel / WeatherProofs): the
   multi-year CSV reader and the day-of-year (CZ) reader build the same store from the same series when the
   CSV mean temperature is (tmax + tmin) / 2; and two loads of the same day — one file per year vs a
   multi-year layout — agree on every value, the mean temperature unless it is the missing-value sentinel
   (the year-edge sentinel of the per-year layout is the known finding F21) *)
Theorem C13_weather_csv_cz_agree : forall (T : Type) (NT : Num T) none corr sy nslots (ser : list (date * wrec T)),
  (forall t r, In (t, r) ser -> w_tavg r = div (add (w_tmax r) (w_tmin r)) two) ->
  read_multi none corr sy nslots (map (fun tr => csv_rec (fst tr) (snd tr)) ser)
  = read_multi none corr sy nslots (map (fun tr => cz_rec (dy (fst tr)) (doy (fst tr)) (snd tr)) ser).
Proof. exact @layouts_agree_multi. Qed.

Theorem C13_weather_values_agree : forall (T : Type) (NT : Num T) none corr y d (r c1 c2 : wrec T),
  normalised none corr y d r c1 -> normalised none corr y d r c2 ->
  w_tmin c1 = w_tmin c2 /\ w_tmax c1 = w_tmax c2 /\ w_rh c1 = w_rh c2 /\ w_wind c1 = w_wind c2 /\
  w_rad c1 = w_rad c2 /\ w_prec c1 = w_prec c2 /\ (eqb (w_tavg r) none = false -> w_tavg c1 = w_tavg c2).
Proof. exact @normalised_agree. Qed.

(* non-vacuity: a complete two-stage classic file satisfies every hypothesis of C13_crop_yaml_agree *)
Example C13_nonvacuous :
  exists r, convert (T:=PrimFloat.float) sample_lines = Some r /\ r_nrkom r = 2 /\ r_nrentw r = 2 /\
            ago_ok (r_nrkom r) (r_ago r) = true.
Proof. exact sample_converts. Qed.

Print Assumptions C13_dates_agree.
Print Assumptions C13_prediction_year_agrees.
Print Assumptions C13_crop_yaml_agree.
Print Assumptions C13_bbch_in_range_suffices.
Print Assumptions C13_bbch_difference_refuted.
Print Assumptions C13_soil_agree.
Print Assumptions C13_rotation_agree.
Print Assumptions C13_measurement_agree.
Print Assumptions C13_weather_csv_cz_agree.
Print Assumptions C13_weather_values_agree.
