(* WaterModel.v — executable model of hermes.Water (hermes/water.go:802-991), written once over
   the numeric interface [Num]: run on binary64 for the bit-exact correspondence, read over R by the
   theorems.  No proofs here.  Arrays are lists of exactly the used length:
     layer arrays (TP, W, WMIN, NFK, WATER): N entries; Q1, EV, WG: N+1 entries; CAPS: 21.
   Operation order inside every expression follows the Go source (it matters at binary64). *)
From Coq Require Import ZArith List Bool.
From Hermes Require Import Num.
Import ListNotations.
Local Open Scope num_scope.

Section Water.
  Context {T : Type} {NT : Num T}.

  Definition DZ : T := ten.

  (* ---- water.go:824-841: uptake clamp (sub-step 1) and start-of-step storage ---- *)
  (* returns TP' and WATER0 for one layer *)
  Definition uptake_layer (subd1 : bool) (wdt wg0 wmin tp : T) : T * T :=
    let tp' :=
      if subd1 then
        if gtb tp ((wg0 - wmin) * DZ) then
          (if wg0 <? wmin then zero else (wg0 - wmin) * DZ)
        else tp
      else tp in
    (tp', wg0 * DZ - tp' * wdt).

  (* ---- water.go:843-871: infiltration cascade; [k1] is the 1-based layer number ---- *)
  (* input per layer: (WATER0, W); output: WATER1 list, Q1[k1..N] list, QDRAIN *)
  Fixpoint infil (draidep : nat) (draifak : T) (k1 : nat) (a qdrain : T) (ls : list (T * T))
    : list T * list T * T :=
    match ls with
    | [] => ([], [], qdrain)
    | (w0, w) :: rest =>
        let b := a + w0 in
        let a' := b - w * DZ in
        if a' <? zero then
          (b :: map fst rest, zero :: map (fun _ => zero) rest, qdrain)
        else
          let '(q, qd) :=
            if Nat.eqb k1 draidep then ((one - draifak) * a', draifak * a') else (a', qdrain) in
          let '(w1s, q1s, qd') := infil draidep draifak (S k1) q qd rest in
          (w * DZ :: w1s, q :: q1s, qd')
    end.

  (* ---- water.go:874-902: evaporation withdrawal ---- *)
  (* [ev] = current EV[k1] (possibly already raised by the previous layer), [evs] = EV[k1+1..N];
     input per layer: (WATER0, WMIN); output: WATER1, Q1[k1+1..N], EV'[k1..N] *)
  Fixpoint evap (wdt a1 ev : T) (evs : list T) (ls : list (T * T)) : list T * list T * list T :=
    match ls with
    | [] => ([], [], ev :: evs)
    | (w0, wmin) :: rest =>
        let lim0 := w0 - ev * wdt in
        let low := lim0 <? (wmin / ofZ 3) * DZ in
        let evnext0 := hd zero evs in
        let evnext := if low then evnext0 + (ev - w0 + wmin / ofZ 3 * DZ) else evnext0 in
        let ev' := if low then w0 - wmin / ofZ 3 * DZ else ev in
        let lim := if low then wmin / ofZ 3 * DZ else lim0 in
        let vcap := w0 - lim in
        if gtb vcap a1 then
          (w0 - a1 :: map fst rest, zero :: map (fun _ => zero) rest, ev' :: evnext :: tl evs)
        else
          let a1' := a1 - vcap in
          let '(w1s, q1s, evs') := evap wdt a1' evnext (tl evs) rest in
          (w0 - vcap :: w1s, (- a1') :: q1s, ev' :: evs')
    end.

  (* ---- water.go:910-917: overflow cascade; [carry] = sink arriving from the layer above;
     returns WATER1', Q1' (same indices as the input q1s = Q1[i+1..N]) and the bottom overflow ---- *)
  Fixpoint cascade (carry : T) (has_carry : bool) (ls : list (T * T)) (q1s : list T) : list T * list T :=
    match ls, q1s with
    | (w1, w) :: rest, q :: qrest =>
        let w1c := if has_carry then w1 + carry else w1 in
        if gtb (w1c / DZ) w then
          let sink := w1c - w * DZ in
          let '(ws, qs) := cascade sink true rest qrest in
          (w * DZ :: ws, (q + sink) :: qs)
        else
          let '(ws, qs) := cascade zero false rest qrest in
          (w1c :: ws, q :: qs)
    | _, _ => ([], [])
    end.

  (* ---- water.go:926-935: deepest layer (1-based) whose NFK < 0.7, 0 if none ---- *)
  Fixpoint caplay_of (k : nat) (nfk : list T) : nat :=
    match nfk with
    | [] => O
    | x :: r => let below := caplay_of (S k) r in
                if Nat.eqb below O then (if x <? dec 7 1 then k else O) else below
    end.

  Fixpoint add_from (i : nat) (c : T) (l : list T) : list T :=
    match l with
    | [] => []
    | x :: r => match i with O => (x - c) :: add_from O c r | S k => x :: add_from k c r end
    end.

  Record water_in := {
    wi_subd1 : bool; wi_wdt : T; wi_after_sow : bool;
    wi_fluss0 : T; wi_grw : T; wi_draidep : nat; wi_draifak : T; wi_outn : nat;
    wi_gwauf : T; wi_eta : T;
    wi_wg0 : list T;   (* WG[0][0..N-1] at entry (already replaced by WG[1] when subd > 1) *)
    wi_tp : list T; wi_w : list T; wi_wmin : list T; wi_nfk : list T;
    wi_ev : list T;    (* N+1 *)
    wi_q1 : list T;    (* N+1, Q1[0..N] at entry *)
    wi_caps : list T;  (* 21 *)
  }.

  Record water_out := {
    wo_tp : list T; wo_wg1 : list T (* N+1 *); wo_q1 : list T (* N+1 *); wo_ev : list T;
    wo_qdrain : T;
    (* counter increments of this sub-step, in the order the code adds them *)
    wo_tpsum_terms : list T;     (* TP[i]*wdt per layer *)
    wo_capterm : T;              (* CAPS[idx]*DZ*wdt applied, or zero *)
    wo_caplay : nat;
  }.

  (* start-of-step storage after the uptake clamp: (TP', WATER0) *)
  Definition uptake_phase (x : water_in) : list T * list T :=
    let ups := map (fun '(wg0, wmin, tp) => uptake_layer (wi_subd1 x) (wi_wdt x) wg0 wmin tp)
                   (combine (combine (wi_wg0 x) (wi_wmin x)) (wi_tp x)) in
    (map fst ups, map snd ups).

  (* the three surface cases: (WATER1, Q1[0..N], QDRAIN, EV') *)
  Definition surface_phase (x : water_in) (water0 : list T) : list T * list T * T * list T :=
    let wdt := wi_wdt x in
    if gtb (wi_fluss0 x) zero then
      let a := wi_fluss0 x * wdt in
      let '(w1s, q1s, qd) := infil (wi_draidep x) (wi_draifak x) 1 a zero (combine water0 (wi_w x)) in
      (w1s, a :: q1s, qd, wi_ev x)
    else if wi_fluss0 x <? zero then
      let a := absv (wi_fluss0 x) * wdt in
      let '(w1s, q1s, evs) := evap wdt a (hd zero (wi_ev x)) (tl (wi_ev x)) (combine water0 (wi_wmin x)) in
      (w1s, zero :: q1s, zero, evs)
    else
      (water0, hd zero (wi_q1 x) :: map (fun _ => zero) water0, zero, wi_ev x).

  Definition cascade_phase (x : water_in) (water1 q1 : list T) : list T * list T :=
    let '(water1c, q1tl) := cascade zero false (combine water1 (wi_w x)) (tl q1) in
    (water1c, hd zero q1 :: q1tl).

  (* capillary rise: (WATER1, Q1, applied term, caplay) *)
  Definition capillary_phase (x : water_in) (water1c q1c : list T) : list T * list T * T * nat :=
    let wdt := wi_wdt x in
    let caplay := caplay_of 1 (wi_nfk x) in
    if Nat.eqb caplay O then (water1c, q1c, zero, caplay) else
    let gwdist := wi_grw x + one - ofZ (Z.of_nat caplay) in
    if gwdist <? ofZ 21 then
      let gwdist := if gwdist <? zero then zero else gwdist in
      if gtb gwdist (dec 9 1) then
        let idx := Z.to_nat (roundZ (maxv gwdist one) - 1) in
        let c := get zero (wi_caps x) idx * DZ * wdt in
        (upd water1c (caplay - 1) (get zero water1c (caplay - 1) + c), add_from caplay c q1c, c, caplay)
      else (water1c, q1c, zero, caplay)
    else (water1c, q1c, zero, caplay).

  Definition water_step (x : water_in) : water_out :=
    let '(tp', water0) := uptake_phase x in
    let '(water1, q1, qdrain, ev') := surface_phase x water0 in
    let '(water1c, q1c) := cascade_phase x water1 q1 in
    let '(water1k, q1k, capterm, caplay) := capillary_phase x water1c q1c in
    let wg1 := map (fun w => w / DZ) water1k in
    {| wo_tp := tp';
       wo_wg1 := wg1 ++ [last wg1 zero];
       wo_q1 := q1k; wo_ev := ev'; wo_qdrain := qdrain;
       wo_tpsum_terms := map (fun tp => tp * wi_wdt x) tp';
       wo_capterm := capterm; wo_caplay := caplay |}.

  (* ---- the cumulative counters (water.go:949-990), as a separate fold so the kernel above stays
     small: each returns the new counter value ---- *)
  Record water_counters := {
    c_pftrans : T; c_tray : T; c_trag : T; c_etag : T; c_tp3 : T; c_tp6 : T; c_tp9 : T;
    c_draisum : T; c_sicker : T; c_capsum : T; c_perg : T; c_infilt : T;
  }.

  Fixpoint tp_fold (i : nat) (after_sow : bool) (terms : list T) (c : water_counters) : water_counters :=
    match terms with
    | [] => c
    | t :: r =>
        let c1 := {| c_pftrans := c_pftrans c + t; c_tray := c_tray c + t;
                     c_trag := if after_sow then c_trag c + t else c_trag c;
                     c_etag := if after_sow then c_etag c + t else c_etag c;
                     c_tp3 := if Nat.ltb i 4 then c_tp3 c + t else c_tp3 c;
                     c_tp6 := if Nat.ltb i 4 then c_tp6 c else if Nat.ltb i 7 then c_tp6 c + t else c_tp6 c;
                     c_tp9 := if Nat.ltb i 7 then c_tp9 c else if Nat.ltb i 10 then c_tp9 c + t else c_tp9 c;
                     c_draisum := c_draisum c; c_sicker := c_sicker c; c_capsum := c_capsum c;
                     c_perg := c_perg c; c_infilt := c_infilt c |} in
        tp_fold (S i) after_sow r c1
    end.

  Definition water_counters_step (x : water_in) (o : water_out) (c : water_counters) : water_counters :=
    let wdt := wi_wdt x in
    let c1 := tp_fold 1 (wi_after_sow x) (wo_tpsum_terms o) c in
    let qout := get zero (wo_q1 o) (wi_outn x) in
    let pf := c_pftrans c1 + wi_eta x * wdt in
    let etag := if wi_after_sow x then c_etag c1 + wi_eta x * wdt else c_etag c1 in
    let sicker := if gtb qout zero then c_sicker c1 + qout * ofZ 10 else c_sicker c1 in
    let capsum0 := if gtb qout zero then c_capsum c1 else c_capsum c1 + qout * ofZ 10 in
    let capsum := capsum0 - wi_gwauf x * ofZ 10 * wdt in
    {| c_pftrans := pf; c_tray := c_tray c1; c_trag := c_trag c1; c_etag := etag;
       c_tp3 := c_tp3 c1; c_tp6 := c_tp6 c1; c_tp9 := c_tp9 c1;
       c_draisum := c_draisum c1 + wo_qdrain o * ofZ 10;
       c_sicker := sicker; c_capsum := capsum;
       c_perg := if wi_after_sow x then c_perg c1 + qout * ofZ 10 - wi_gwauf x * ofZ 10 * wdt else c_perg c1;
       c_infilt := if gtb (wi_fluss0 x) zero then c_infilt c1 + wi_fluss0 x * wdt else c_infilt c1 |}.
End Water.

(* ---- the day: run.go:576-636 runs Water STEPS times with the same wdt; sub-step k > 1 starts from
   the previous sub-step's WG[1], the clamped TP, the updated EV and Q1 ---- *)
Section Day.
  Context {T : Type} {NT : Num T}.

  Definition water_next (x : water_in (T:=T)) (o : water_out (T:=T)) : water_in (T:=T) :=
    {| wi_subd1 := false; wi_wdt := wi_wdt x; wi_after_sow := wi_after_sow x;
       wi_fluss0 := wi_fluss0 x; wi_grw := wi_grw x; wi_draidep := wi_draidep x;
       wi_draifak := wi_draifak x; wi_outn := wi_outn x; wi_gwauf := wi_gwauf x; wi_eta := wi_eta x;
       wi_wg0 := firstn (length (wi_wg0 x)) (wo_wg1 o);
       wi_tp := wo_tp o; wi_w := wi_w x; wi_wmin := wi_wmin x; wi_nfk := wi_nfk x;
       wi_ev := wo_ev o; wi_q1 := wo_q1 o; wi_caps := wi_caps x |}.

  (* outputs of [k] consecutive sub-steps starting from input [x] *)
  Fixpoint water_iter (k : nat) (x : water_in (T:=T)) : list (water_out (T:=T)) :=
    match k with
    | O => []
    | S k' => let o := water_step x in o :: water_iter k' (water_next x o)
    end.

  (* run.go:499-524,576-583: the sub-step count from ZSR (already the maximum over the layer
     criteria); DT = 1 *)
  (* run.go:499-524: time-step demand from the surface flux class and from the rain that the
     cumulative free storage above each layer cannot take up *)
  Fixpoint fscsum (fscs : T) (ls : list (T * T)) : list T :=
    match ls with
    | [] => []
    | (w, wg0) :: rest => let f := fscs + (w - wg0) * DZ in f :: fscsum f rest
    end.

  Fixpoint zsr_max (regen zsr : T) (ws fs : list T) : T :=
    match ws, fs with
    | w :: wr, f :: fr =>
        let zsr' := if gtb (regen - f) (w * DZ / ofZ 3) then maxv zsr ((regen - f) / (w * DZ / ofZ 3)) else zsr in
        zsr_max regen zsr' wr fr
    | _, _ => zsr
    end.

  Definition zsr_of (fluss0 regen : T) (w wg0 : list T) : T :=
    let pri := absv (fluss0 * DZ) in
    let f := if pri <=? ofZ 5 then one
             else if (ofZ 5 <? pri) && (pri <=? ofZ 10) then dec 5 1
             else if (ofZ 10 <? pri) && (pri <=? ofZ 15) then dec 25 2
             else if ofZ 15 <? pri then dec 125 3 else one in
    zsr_max regen (one / f) w (fscsum zero (combine w wg0)).

  Definition wdt_of (zsr : T) : T := one / ceilv zsr.
  Definition steps_of (wdt : T) : Z * T :=
    if wdt <? one then (truncZ (roundv (one / wdt)), wdt) else (1%Z, one).
End Day.

(* ---------------- setFieldCapacityWithGW (init.go:90-98) ---------------- *)
Section GW.
  Context {T : Type} {NT : Num T}.
  Local Open Scope num_scope.
  (* l runs over 1-based layer numbers int(GRW+1) .. N; returns the new W *)
  Fixpoint set_fc_gw_from (l : nat) (first : nat) (fr : T) (w porges : list T) : list T :=
    match w, porges with
    | wv :: wr, pv :: pr =>
        (if Nat.ltb l first then wv
         else if Nat.eqb l first then (one - fr) * pv + wv * fr
         else pv) :: set_fc_gw_from (S l) first fr wr pr
    | _, _ => w
    end.
  Definition set_fc_gw (grw : T) (w porges : list T) : list T :=
    let first := Z.to_nat (truncZ (grw + one)) in
    (* Go: for l := int(GRW+1); l <= N: a start below 1 would index W[-1] (panic) *)
    set_fc_gw_from 1 first (frac1 (grw + one)) w porges.
End GW.

