(* SupplyProofs.v — lemmas about SupplyModel over the reals: mass flow >= 0, diffusion coefficient >= 0, the sign of the
   diffusive supply is the sign of (concentration of the soil solution - 14 mg N/l), range of the uptake limit maxup inside the season. *)
From Coq Require Import ZArith Reals List Bool Lia Lra Psatz.
From Hermes Require Import Num RUtil CropModel CropProofs RootDistModel RootDistProofs SupplyModel.
Import ListNotations.
Local Open Scope R_scope.

Ltac rn := unfold gtb, geb in *; rsimp; unfold RI.ltb, RI.leb, RI.eqb in *; decs.

Lemma dnn2 a d : 0 <= a -> 0 < d -> 0 <= a / d.
Proof. intros. unfold Rdiv. apply Rmult_le_pos; [assumption | left; apply Rinv_0_lt_compat; assumption]. Qed.

Lemma mass_nonneg (tp c1 wg dz dt : R) : 0 <= tp -> 0 <= c1 -> 0 < wg -> 0 < dz -> 0 <= dt -> 0 <= mass_of tp c1 wg dz dt.
Proof.
  intros. unfold mass_of. rsimp. apply Rmult_le_pos; [apply Rmult_le_pos; [assumption|]|assumption].
  apply dnn2; [assumption | apply Rmult_lt_0_compat; assumption].
Qed.

Lemma dcoef_nonneg (ad e wg : R) : 0 <= ad -> 0 < e -> 0 < wg -> 0 <= dcoef_of ad e wg.
Proof. intros. unfold dcoef_of. rn. apply dnn2; [|assumption]. apply Rmult_le_pos; [lra|]. apply Rmult_le_pos; lra. Qed.

(* the sign of the diffusive supply is the sign of (concentration - threshold): towards the root iff the soil solution holds more than
   0.000014 kg N per litre (14 mg/l) *)
Lemma diff_sign (d wg pi wr c1 wud dt : R) : 0 <= d -> 0 < wg -> 0 < pi -> 0 < wr -> 0 <= wud -> 0 <= dt ->
  (14 / 1000000 <= c1 / 1000 / wg -> 0 <= diff_of d wg pi wr c1 wud dt) /\
  (c1 / 1000 / wg <= 14 / 1000000 -> diff_of d wg pi wr c1 wud dt <= 0).
Proof.
  intros Hd Hw Hp Hr Hu Ht. unfold diff_of, two. rn. cbn [sqrtv RNum].
  set (k := d * wg * 2 * pi * wr).
  assert (Hk : 0 <= k) by (unfold k; apply Rmult_le_pos; [apply Rmult_le_pos; [apply Rmult_le_pos; [apply Rmult_le_pos|]|]|]; lra).
  pose proof (sqrt_pos (pi * wud)) as Hs.
  set (s := sqrt (pi * wud)) in *. set (c := c1 / 1000 / wg - 14 / 1000000).
  assert (Hm : 0 <= wud * 1000 * dt) by (apply Rmult_le_pos; [apply Rmult_le_pos|]; lra).
  split; intros Hc.
  - assert (0 <= c) by (unfold c; lra).
    assert (0 <= k * c * s) by (apply Rmult_le_pos; [apply Rmult_le_pos|]; assumption).
    match goal with |- 0 <= ?e => replace e with (k * c * s * (wud * 1000 * dt)) by (unfold k, c, s; ring) end.
    apply Rmult_le_pos; [assumption | exact Hm].
  - assert (Hc0 : c <= 0) by (unfold c; lra).
    assert (0 <= k * s * (wud * 1000 * dt)) by (apply Rmult_le_pos; [apply Rmult_le_pos|]; assumption).
    match goal with |- ?e <= 0 => replace e with (c * (k * s * (wud * 1000 * dt))) by (unfold k, c, s; ring) end. nra.
Qed.

(* the uptake limit per unit root length is positive inside the season *)
Lemma maxup_range (c : maxup_class) (phyllo tendsum : R) : 0 <= phyllo ->
  match c with
  | MxVeg => phyllo <= 7560 -> 0 < maxup_of c phyllo tendsum <= 9145 / 100000
  | MxOther => phyllo <= 2600 -> 0 <= maxup_of c phyllo tendsum <= 3145 / 100000
  | MxSM => 0 < tendsum -> phyllo <= tendsum -> 64 / 1000 <= maxup_of c phyllo tendsum <= 74 / 1000
  | MxZR => 0 < tendsum -> phyllo <= tendsum -> 4645 / 100000 <= maxup_of c phyllo tendsum <= 5645 / 100000
  end.
Proof.
  intros Hp. destruct c; unfold maxup_of; rn.
  - intros H. lra.
  - intros Ht Hl. assert (0 <= phyllo / tendsum <= 1).
    { split; [apply dnn2; assumption|]. apply (Rmult_le_reg_r tendsum); [assumption|]. unfold Rdiv. rewrite Rmult_assoc, Rinv_l by lra. lra. }
    lra.
  - intros Ht Hl. assert (0 <= phyllo / tendsum <= 1).
    { split; [apply dnn2; assumption|]. apply (Rmult_le_reg_r tendsum); [assumption|]. unfold Rdiv. rewrite Rmult_assoc, Rinv_l by lra. lra. }
    lra.
  - intros H. lra.
Qed.

(* every layer of the loop: mass flow >= 0 *)
Lemma supply_mass_nonneg zrk (pi dz dt : R) ls : 0 < dz -> 0 <= dt ->
  Forall (fun l => 0 <= sl_tp l /\ 0 <= sl_c1 l /\ 0 < sl_wg l) ls ->
  Forall (fun m => 0 <= m) (map fst (supply zrk pi dz dt ls)).
Proof.
  intros Hz Ht. unfold supply. generalize 1%Z. induction ls as [|l r IH]; intros i H; cbn [supply_loop map fst]; constructor.
  - inversion H as [|? ? (H1 & H2 & H3) ?]; subst. apply mass_nonneg; assumption.
  - apply IH. inversion H; assumption.
Qed.
