(* SoilModel.v — executable model of hermes/soil.go (no proofs here):
     load_soil_txt   LoadSoil      soil.go:97-190   fixed-width text, byte slicing
     load_soil_csv   LoadSoilCSV   soil.go:192-306  CSV, strings.Split at ','
   both ending in the same SoilFileData.  A file is the list of its lines (bufio.ScanLines), a line
   a list of bytes; a panic (slice / index out of range) or log.Fatal is [Crash], an error return
   is [Err].  Numbers as in CropParamModel: decimal text -> [dec m k], any number type [T].
   Plus the two renderers of an abstract profile (fixed-width line, CSV line) the agreement
   theorem is stated about. *)
From Coq Require Import ZArith List Bool Ascii String Lia.
From Hermes Require Import Num DateModel CropParamModel.
Import ListNotations.
Local Open Scope Z_scope.

Inductive res (A : Type) := Ok (a : A) | Err | Crash.
Arguments Ok {A} a. Arguments Err {A}. Arguments Crash {A}.

Notation "'let!' x ':=' e 'in' k" := (match e with Some x => k | None => Crash end)
  (at level 200, x pattern, e at level 100, k at level 200, right associativity).

(* strings.ToUpper for ASCII *)
Definition upper (c : ascii) : ascii :=
  let n := N_of_ascii c in if (N.leb 97 n && N.leb n 122)%N then ascii_of_N (n - 32) else c.

(* soil.go:796 VerifyAndCorrectTexture: None = error *)
Definition verify_texture (t : lstr) : option lstr :=
  match List.length t with
  | 1%nat => Some (map upper (t ++ lstr_of "  "))
  | 2%nat => Some (map upper (t ++ lstr_of " "))
  | 3%nat => Some (map upper t)
  | _ => None
  end.

Definition leqb (a b : lstr) : bool := if list_eq_dec ascii_dec a b then true else false.

(* the raw texts of one horizon line / of the profile-level columns of the first line *)
Record hfields := {
  hf_corg : lstr; hf_tex : lstr; hf_depth : lstr; hf_ld : lstr; hf_bulk : option lstr; hf_stone : lstr; hf_cn : lstr;
  hf_fc : lstr; hf_wp : lstr; hf_ps : lstr; hf_sand : lstr; hf_silt : lstr; hf_clay : lstr }.
Record pfields := { pf_nhor : lstr; pf_root : lstr; pf_gw : option lstr; pf_draindepth : lstr; pf_drainpct : lstr }.

Definition bind {A B} (x : res A) (f : A -> res B) : res B :=
  match x with Ok a => f a | Err => Err | Crash => Crash end.
Notation "'let*' x ':=' e 'in' k" := (bind e (fun x => k))
  (at level 200, x pattern, e at level 100, k at level 200, right associativity).
Definition crash_if_none {A} (x : option A) : res A := match x with Some a => Ok a | None => Crash end.

Section Model.
  Context {T : Type} {NT : Num T}.

  Record horizon := {
    h_bart : lstr; h_ukt : Z; h_ld : Z; h_bulk : T; h_cgehalt : T; h_cnratio : T; h_ngehalt : T; h_humus : T;
    h_stein : T; h_fka : T; h_wp : T; h_gpv : T; h_ssand : T; h_sluf : T; h_ton : T }.

  (* SoilFileData (soil.go:35): the per-horizon arrays as the list of the AZHO horizons read *)
  Record soildata := {
    sd_azho : Z; sd_wurzmax : Z; sd_usegw : bool; sd_gw : Z; sd_draidep : Z; sd_draifak : T;
    sd_n : Z; sd_hor : list horizon }.

  (* soil.go:309 BulkDensityClassToDensity: the array cell keeps its 0 for an unknown class *)
  Definition bulk_of_class (ld : Z) : T :=
    if ld =? 1 then Num.dec 11 1 else if ld =? 2 then Num.dec 13 1 else if ld =? 3 then Num.dec 15 1
    else if ld =? 4 then Num.dec 17 1 else if ld =? 5 then Num.dec 185 2 else zero.

  Definition try_float (l : lstr) : T := match val_as_float l with Some v => v | None => zero end.

  (* one horizon from the texts of its line (soil.go:129-175 / 239-291): texture check first (an
     error), then the parses (Fatal); a bulk density given in the CSV replaces the class value *)
  Definition read_horizon (f : hfields) : res horizon :=
    match verify_texture (hf_tex f) with
    | None => Err
    | Some bart =>
        crash_if_none (
        let? ukt := val_as_int (hf_depth f) in
        let? ld := val_as_int (hf_ld f) in
        let? bulk := match hf_bulk f with
                     | Some b => val_as_float b
                     | None => Some (bulk_of_class ld)
                     end in
        let? c := val_as_float (hf_corg f) in
        let? cn0 := val_as_float (hf_cn f) in
        let cn := if eqb cn0 zero then ofZ 10 else cn0 in                       (* cNSetup :615 *)
        let? st := val_as_float (hf_stone f) in
        Some {| h_bart := bart; h_ukt := ukt; h_ld := ld; h_bulk := bulk; h_cgehalt := c; h_cnratio := cn;
                h_ngehalt := div c cn; h_humus := div (mul c (Num.dec 172 2)) (ofZ 100);
                h_stein := div st (ofZ 100);
                h_fka := try_float (hf_fc f); h_wp := try_float (hf_wp f); h_gpv := try_float (hf_ps f);
                h_ssand := try_float (hf_sand f); h_sluf := try_float (hf_silt f); h_ton := try_float (hf_clay f) |})
    end.

  (* the profile once its lines are sliced / split: first line -> profile columns, then AZHO horizon
     lines (the first line is also the first horizon).  [hor k] = texts of the k-th line of the
     profile (None: reading past the end of the file, or a slice out of range) *)
  Fixpoint read_horizons (n : nat) (k : nat) (hor : nat -> res hfields) : res (list horizon) :=
    match n with
    | O => Ok []
    | S m => let* f := hor k in
             let* h := read_horizon f in
             let* r := read_horizons m (S k) hor in Ok (h :: r)
    end.

  Definition read_profile (withgw : bool) (pf : option pfields) (hor : nat -> res hfields) : res soildata :=
    let* p := crash_if_none pf in
    let* azho := crash_if_none (val_as_int (pf_nhor p)) in
    let* wurz := crash_if_none (val_as_int (pf_root p)) in
    let* gw := if withgw then crash_if_none (let? g := pf_gw p in val_as_int g) else Ok 0 in
    let* dd := crash_if_none (val_as_int (pf_draindepth p)) in
    let* df := crash_if_none (val_as_float (pf_drainpct p)) in
    if 10 <? azho then Crash else                                 (* BART[i] : [10]string *)
    let* hs := read_horizons (ztn azho) 0 hor in
    if azho <? 0 then Crash else                                  (* UKT[AZHO] *)
    let n := match rev hs with h :: _ => h_ukt h | [] => 0 end in
    if (20 <? n) || (n <? 1) then Err else                        (* :178 *)
    Ok {| sd_azho := azho; sd_wurzmax := wurz; sd_usegw := withgw; sd_gw := gw; sd_draidep := dd;
          sd_draifak := df; sd_n := n; sd_hor := hs |}.

  (* ---- fixed-width slicing (soil.go:110-170) ---- *)
  Definition txt_pfields (withgw : bool) (l : lstr) : option pfields :=
    let? nhor := subs 35 37 l in let? root := subs 32 34 l in
    let? gw := if withgw then (let? g := subs 70 72 l in Some (Some g)) else Some None in
    let? dd := subs 62 64 l in let? dp := subs 67 70 l in
    Some {| pf_nhor := nhor; pf_root := root; pf_gw := gw; pf_draindepth := dd; pf_drainpct := dp |}.

  Definition txt_hfields (l : lstr) : option hfields :=
    let? tex := subs 9 12 l in let? depth := subs 13 15 l in let? ld := subs 16 17 l in
    let? corg := subs 4 8 l in let? cn := subs 21 24 l in let? stone := subs 18 20 l in
    let? fc := subs 40 42 l in let? wp := subs 43 45 l in let? ps := subs 46 48 l in
    let? sand := subs 49 51 l in let? silt := subs 52 54 l in let? clay := subs 55 57 l in
    Some {| hf_corg := corg; hf_tex := tex; hf_depth := depth; hf_ld := ld; hf_bulk := None; hf_stone := stone;
            hf_cn := cn; hf_fc := fc; hf_wp := wp; hf_ps := ps; hf_sand := sand; hf_silt := silt; hf_clay := clay |}.

  (* LoadSoil: scanning the lines after the header; a later profile of the same id replaces an
     earlier one.  [found] = result of the last matching profile. *)
  Fixpoint scan_txt (fuel : nat) (withgw : bool) (sid : lstr) (lines : list lstr) (found : option soildata)
      : res (option soildata) :=
    match fuel with
    | O => Crash
    | S fuel' =>
      match lines with
      | [] => Ok found
      | l :: rest =>
          if Nat.ltb (List.length l) 3 then scan_txt fuel' withgw sid rest found else
          if negb (leqb (firstn 3 l) sid) then scan_txt fuel' withgw sid rest found else
          let hor k := crash_if_none (let? lk := nth_error lines k in txt_hfields lk) in
          let* sd := read_profile withgw (txt_pfields withgw l) hor in
          scan_txt fuel' withgw sid (skipn (Nat.max 1 (ztn (sd_azho sd))) lines) (Some sd)
      end
    end.

  Definition load_soil_txt (withgw : bool) (sid : lstr) (lines : list lstr) : res soildata :=
    match lines with
    | [] => Crash                                                  (* LineInut: EOF *)
    | _ :: data =>
        let* r := scan_txt (S (List.length data)) withgw sid data None in
        match r with Some sd => Ok sd | None => Err end             (* :186 SoilID not found *)
    end.

  (* ---- CSV (soil.go:676 readSoilHeader: tokens of the header line split at ',' and ';', empty
     tokens dropped; column of a name = first token equal to it; a missing name reads Go's zero
     value of the map: column 0) ---- *)
  Fixpoint split_any (seps : list ascii) (cur : lstr) (l : lstr) : list lstr :=
    match l with
    | [] => [rev cur]
    | c :: r => if existsb (fun s => if ascii_dec c s then true else false) seps
                then rev cur :: split_any seps [] r else split_any seps (c :: cur) r
    end.
  Definition explode (seps : list ascii) (l : lstr) : list lstr :=
    filter (fun t => negb (Nat.eqb (List.length t) 0)) (split_any seps [] l).

  Fixpoint index_of (name : lstr) (toks : list lstr) (i : nat) : option nat :=
    match toks with
    | [] => None
    | t :: r => if leqb name t then Some i else index_of name r (S i)
    end.
  Definition col (hdr : list lstr) (name : string) : nat :=
    match index_of (lstr_of name) hdr 0 with Some i => i | None => O end.
  Definition has_col (hdr : list lstr) (name : string) : bool :=
    match index_of (lstr_of name) hdr 0 with Some _ => true | None => false end.
  Definition tok (hdr : list lstr) (toks : list lstr) (name : string) : option lstr := nth_error toks (col hdr name).

  Definition csv_pfields (withgw : bool) (hdr toks : list lstr) : option pfields :=
    let? nhor := tok hdr toks "NumberHorizon" in let? root := tok hdr toks "RootDepth" in
    let? gw := if withgw then (let? g := tok hdr toks "GroundWaterLevel" in Some (Some g)) else Some None in
    let? dd := tok hdr toks "DrainageDepth" in let? dp := tok hdr toks "Drainage%" in
    Some {| pf_nhor := nhor; pf_root := root; pf_gw := gw; pf_draindepth := dd; pf_drainpct := dp |}.

  Definition csv_hfields (hdr toks : list lstr) : option hfields :=
    let? tex := tok hdr toks "Texture" in let? depth := tok hdr toks "LayerDepth" in
    let? ld := tok hdr toks "BulkDensityClass" in
    let? bulk := if has_col hdr "BulkDensity"
                 then (let? b := tok hdr toks "BulkDensity" in
                       Some (if Nat.eqb (List.length b) 0 then None else Some b))
                 else Some None in
    let? corg := tok hdr toks "C_org" in let? cn := tok hdr toks "C/N" in let? stone := tok hdr toks "Stone" in
    let? fc := tok hdr toks "FieldCapacity" in let? wp := tok hdr toks "WiltingPoint" in
    let? ps := tok hdr toks "PoreVolume" in let? sand := tok hdr toks "Sand" in let? silt := tok hdr toks "Silt" in
    let? clay := tok hdr toks "Clay" in
    Some {| hf_corg := corg; hf_tex := tex; hf_depth := depth; hf_ld := ld; hf_bulk := bulk; hf_stone := stone;
            hf_cn := cn; hf_fc := fc; hf_wp := wp; hf_ps := ps; hf_sand := sand; hf_silt := silt; hf_clay := clay |}.

  (* horizon k > 0 of a CSV profile must carry the profile's id (:231), an error otherwise *)
  Definition csv_hor (hdr : list lstr) (sid : lstr) (lines : list lstr) (k : nat) : res hfields :=
    match nth_error lines k with
    | None => Crash
    | Some lk =>
        let toks := split_on ","%char lk in
        match tok hdr toks "SID" with
        | None => Crash
        | Some id => if Nat.ltb 0 k && negb (leqb id sid) then Err else crash_if_none (csv_hfields hdr toks)
        end
    end.

  Fixpoint scan_csv (fuel : nat) (withgw : bool) (hdr : list lstr) (sid : lstr) (lines : list lstr)
      (found : option soildata) : res (option soildata) :=
    match fuel with
    | O => Crash
    | S fuel' =>
      match lines with
      | [] => Ok found
      | l :: rest =>
          let toks := split_on ","%char l in
          match tok hdr toks "SID" with
          | None => Crash
          | Some id =>
              if negb (leqb id sid) then scan_csv fuel' withgw hdr sid rest found else
              let* sd := read_profile withgw (csv_pfields withgw hdr toks) (csv_hor hdr sid lines) in
              scan_csv fuel' withgw hdr sid (skipn (Nat.max 1 (ztn (sd_azho sd))) lines) (Some sd)
          end
      end
    end.

  Definition load_soil_csv (withgw : bool) (sid : lstr) (lines : list lstr) : res soildata :=
    match lines with
    | [] => Crash
    | h :: data =>
        let hdr := explode [","%char; ";"%char] h in
        let* r := scan_csv (S (List.length data)) withgw hdr sid data None in
        match r with Some sd => Ok sd | None => Err end
    end.
End Model.

Arguments horizon T : clear implicits.
Arguments soildata T : clear implicits.

(* ------------------------------------------------------------------ *)
(* the two renderings of an abstract profile (texts of the fields; what the agreement theorem and the
   generators of the check are about) *)
Record ahor := { a_corg : lstr; a_tex : lstr; a_depth : lstr; a_ld : lstr; a_stone : lstr; a_cn : lstr;
                 a_fc : lstr; a_wp : lstr; a_ps : lstr; a_sand : lstr; a_silt : lstr; a_clay : lstr }.
Record aprofile := { ap_sid : lstr; ap_root : lstr; ap_draindepth : lstr; ap_drainpct : lstr; ap_gw : lstr;
                     ap_hor : list ahor }.

Definition spaces (n : nat) : lstr := repeat " "%char n.
Definition rjust (n : nat) (s : lstr) : lstr := spaces (n - List.length s) ++ s.
Definition ljust (n : nat) (s : lstr) : lstr := s ++ spaces (n - List.length s).
Definition two_digits (n : nat) : lstr := [digit_char (Z.of_nat (n / 10)); digit_char (Z.of_nat (n mod 10))].

Definition txt_header : lstr :=
  lstr_of "SID Corg Te  lb B St C/N C/S Hy Rd NuHo  FC WP PS S% SI% C% lamda DraiT  Drai% GW LBG".
Definition csv_header : lstr :=
  lstr_of "SID,C_org,Texture,LayerDepth,BulkDensityClass,BulkDensity,Stone,C/N,C/S,RootDepth,NumberHorizon,FieldCapacity,WiltingPoint,PoreVolume,Sand,Silt,Clay,DrainageDepth,Drainage%,GroundWaterLevel".

(* columns: SID 0-2, Corg 4-7, Te 9-11, lb 13-14, B 16, St 18-19, C/N 21-23, Hy 29-30, Rd 32-33, NuHo 35-36,
   FC 40-41, WP 43-44, PS 46-47, S 49-50, SI 52-53, C 55-56, lamda 58-59, DraiT 62-63, Drai% 67-69, GW 70-71, LBG 73-74 *)
Definition txt_cells (first : bool) (n : nat) (p : aprofile) (h : ahor) : list lstr :=
  [ap_sid p; spaces 1; rjust 4 (a_corg h); spaces 1; ljust 3 (a_tex h); spaces 1; rjust 2 (a_depth h); spaces 1;
   a_ld h; spaces 1; rjust 2 (a_stone h); spaces 1; ljust 3 (a_cn h); spaces 5; lstr_of "00"; spaces 1;
   (if first then rjust 2 (ap_root p) else spaces 2); spaces 1; (if first then two_digits n else spaces 2); spaces 3;
   rjust 2 (a_fc h); spaces 1; rjust 2 (a_wp h); spaces 1; rjust 2 (a_ps h); spaces 1; rjust 2 (a_sand h); spaces 1;
   rjust 2 (a_silt h); spaces 1; rjust 2 (a_clay h); spaces 1; lstr_of "00"; spaces 2;
   rjust 2 (ap_draindepth p); spaces 3; ljust 3 (ap_drainpct p);
   (if first then rjust 2 (ap_gw p) else spaces 2); spaces 1; (if first then lstr_of "01" else spaces 2)].
Definition txt_lens : list nat :=
  [3; 1; 4; 1; 3; 1; 2; 1; 1; 1; 2; 1; 3; 5; 2; 1; 2; 1; 2; 3; 2; 1; 2; 1; 2; 1; 2; 1; 2; 1; 2; 1; 2; 2; 2; 3; 3; 2; 1; 2]%nat.
Definition render_txt_line (first : bool) (n : nat) (p : aprofile) (h : ahor) : lstr :=
  List.concat (txt_cells first n p h).

Fixpoint intercalate (sep : lstr) (l : list lstr) : lstr :=
  match l with [] => [] | [x] => x | x :: r => x ++ sep ++ intercalate sep r end.

Definition render_csv_line (first : bool) (n : nat) (p : aprofile) (h : ahor) : lstr :=
  intercalate [","%char]
    [ap_sid p; a_corg h; a_tex h; a_depth h; a_ld h; []; a_stone h; a_cn h; lstr_of "00";
     if first then ap_root p else []; if first then two_digits n else []; a_fc h; a_wp h; a_ps h; a_sand h; a_silt h;
     a_clay h; ap_draindepth p; ap_drainpct p; if first then ap_gw p else spaces 3].

Definition render_lines (f : bool -> nat -> aprofile -> ahor -> lstr) (p : aprofile) : list lstr :=
  let n := List.length (ap_hor p) in
  mapi (fun i h => f (Nat.eqb i 0) n p h) (ap_hor p).
Definition render_txt (p : aprofile) : list lstr := txt_header :: render_lines render_txt_line p.
Definition render_csv (p : aprofile) : list lstr := csv_header :: render_lines render_csv_line p.
