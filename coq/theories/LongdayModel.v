(* LongdayModel.v — model of hermes/longday.go:15-36 (LangTag: search of the first day
   longer than 14 h and, after it, of the first day longer than 16 h) as the code is now
   (both do-while loops stop at TAG >= 366), and of the two loops of hermes/run.go that
   bound a run: the day loop (run.go:310, 758-760) and the sub-step loop (run.go:588).

   The day length DL = CalculateDayLenght(TAG, LAT) enters as boolean oracles
   longer14 d = (DL(d) > 14), longer16 d = (DL(d) > 16): no property of the day-length
   formula is used. *)
From Coq Require Import ZArith Bool List.
Import ListNotations.
Local Open Scope Z_scope.

(* longday.go:19-25 / 26-32
     for ok := true; ok; ok = P == 0 && TAG < 366 { TAG++; if DL(TAG) > h { P = TAG } }
   returns (TAG, P, number of iterations); None = fuel exhausted *)
Fixpoint search (longer : Z -> bool) (fuel : nat) (tag p iters : Z) : option (Z * Z * Z) :=
  match fuel with
  | O => None
  | S f =>
      let tag := tag + 1 in
      let p := if longer tag then tag else p in
      if (p =? 0) && (tag <? 366) then search longer f tag p (iters + 1)
      else Some (tag, p, iters + 1)
  end.

(* longday.go:15-65; [yoff] = (y-1)*365 + y/4 for the year y the code derives from
   progDat/anjahr (longday.go:37-64).  Result (TAG, P1, P2, total iterations). *)
Definition langtag (longer14 longer16 : Z -> bool) (yoff : Z) (fuel : nat) : option (Z * Z * Z * Z) :=
  match search longer14 fuel 0 0 0 with
  | None => None
  | Some (tag1, p1, n1) =>
      match search longer16 fuel tag1 0 n1 with
      | None => None
      | Some (tag2, p2, n2) =>
          if (p1 =? 0) || (p2 =? 0) then Some (0, 0, 0, n2)          (* longday.go:33-36 *)
          else Some (tag2, yoff + (p1 + 20), yoff + p2, n2)         (* longday.go:57-63 *)
      end
  end.

Definition year_offset (y : Z) : Z := (y - 1) * 365 + Z.quot y 4.

(* run.go:310-760
     for ZEIT := BEGINN; ZEIT <= ENDE; ZEIT = ZEIT + DT { body; if ZEIT == ENDE { break } }
   [body z ende] = (left by an error return (run.go:318, 636, ...), value of g.ENDE after the
   body).  g.ENDE is reassigned inside the loop only by the fertiliser prediction
   (PrognoseTime dung.go:158-180 at ZEIT == PROGNOS, SimulateFertilizationAfterPrognose
   dung.go:87-92: ENDE = today); without prediction the body leaves it unchanged (the
   generated LOOPVAR inventory is compared with this list on every run).
   Result: (number of iterations started, left by an error) *)
Fixpoint day_loop (body : Z -> Z -> bool * Z) (fuel : nat) (zeit ende dt : Z) (n : Z) : option (Z * bool) :=
  if zeit <=? ende then
    match fuel with
    | O => None
    | S f =>
        let '(err, ende') := body zeit ende in
        if err then Some (n + 1, true)
        else if zeit =? ende' then Some (n + 1, false)
        else day_loop body f (zeit + dt) ende' dt (n + 1)
    end
  else Some (n, false).

(* run.go:588   for SUBD := 1; SUBD <= int(STEPS); SUBD++ { body } *)
Fixpoint substep_loop (body : Z -> bool) (fuel : nat) (subd steps : Z) (n : Z) : option (Z * bool) :=
  if subd <=? steps then
    match fuel with
    | O => None
    | S f =>
        if body subd then Some (n + 1, true)
        else substep_loop body f (subd + 1) steps (n + 1)
    end
  else Some (n, false).
