(* SoilTempProofs.v — property C19 over the reals: the explicit scheme of hermes.Soiltemp is a convex
   combination in every interior layer as long as the diffusion number r = alpha*DT/24/DZ^2 lies in
   [0, 1/2]; hence layer temperatures stay in the envelope of the boundary values.  The diffusion
   number bound is derived from the bulk density range; below (567 / 1000) g/cm3 it is refuted (F17). *)
From Coq Require Import ZArith Reals List Bool Lra Lia Psatz.
From Hermes Require Import Num RUtil SoilTempModel.
Import ListNotations.
Local Open Scope R_scope.

(* decimal literals of the model at R: IZR m / IZR (10^k) with the power evaluated *)
Ltac decs :=
  unfold dec in *; rsimp;
  repeat match goal with
         | |- context [(10 ^ Z.of_nat ?k)%Z] =>
             let v := eval vm_compute in (10 ^ Z.of_nat k)%Z in change (10 ^ Z.of_nat k)%Z with v
         | H : context [(10 ^ Z.of_nat ?k)%Z] |- _ =>
             let v := eval vm_compute in (10 ^ Z.of_nat k)%Z in change (10 ^ Z.of_nat k)%Z with v in H
         end.

Definition within (lo hi : R) (l : list R) : Prop := Forall (fun x => lo <= x <= hi) l.

(* the diffusion number of one layer as the code applies it (soiltemp.go:53-54) *)
Definition rnum (dt dz2 alpha : R) : R := alpha * dt / 24 / dz2.
Definition alphas_ok (d : day_in R) : Prop :=
  Forall (fun a => 0 <= rnum (d_dt d) (d_dz d * d_dz d) a <= 1 / 2) (map (alpha_of (d_dt d)) (d_layers d)).

(* ------------------------------------------------------------------ *)
(* one interior node, one hour                                          *)

Lemma upd_T_form alpha dt dz2 prev cur nxt :
  @upd_T R RNum alpha dt dz2 prev cur nxt =
  (1 - 2 * rnum dt dz2 alpha) * cur + rnum dt dz2 alpha * prev + rnum dt dz2 alpha * nxt.
Proof. unfold upd_T, rnum. rsimp. unfold Rdiv. ring. Qed.

Lemma convex3 r lo hi a b c :
  0 <= r <= 1 / 2 -> lo <= a <= hi -> lo <= b <= hi -> lo <= c <= hi ->
  lo <= (1 - 2 * r) * b + r * a + r * c <= hi.
Proof.
  intros Hr Ha Hb Hc.
  assert (0 <= (1 - 2 * r) * (b - lo)) by (apply Rmult_le_pos; lra).
  assert (0 <= r * (a - lo)) by (apply Rmult_le_pos; lra).
  assert (0 <= r * (c - lo)) by (apply Rmult_le_pos; lra).
  assert (0 <= (1 - 2 * r) * (hi - b)) by (apply Rmult_le_pos; lra).
  assert (0 <= r * (hi - a)) by (apply Rmult_le_pos; lra).
  assert (0 <= r * (hi - c)) by (apply Rmult_le_pos; lra).
  split; nra.
Qed.

Lemma hour_step_convex_lemma : forall alpha dt dz2 prev cur nxt,
  0 <= rnum dt dz2 alpha <= 1 / 2 ->
  Rmin cur (Rmin prev nxt) <= @upd_T R RNum alpha dt dz2 prev cur nxt <= Rmax cur (Rmax prev nxt).
Proof.
  intros alpha dt dz2 prev cur nxt Hr. rewrite upd_T_form.
  apply convex3; auto.
  - split; [eapply Rle_trans; [apply Rmin_r | apply Rmin_l] | eapply Rle_trans; [|apply Rmax_r]; apply Rmax_l].
  - split; [apply Rmin_l | apply Rmax_l].
  - split; [eapply Rle_trans; [apply Rmin_r | apply Rmin_r] | eapply Rle_trans; [|apply Rmax_r]; apply Rmax_r].
Qed.

(* ------------------------------------------------------------------ *)
(* one hour, one day                                                    *)

Lemma inner_within lo hi dt dz2 : forall l alphas prev,
  Forall (fun a => 0 <= rnum dt dz2 a <= 1 / 2) alphas ->
  lo <= prev <= hi -> within lo hi l -> within lo hi (@inner R RNum alphas dt dz2 prev l).
Proof.
  induction l as [|cur l IH]; intros alphas prev Ha Hp Hl; [cbn; apply Forall_nil|].
  destruct l as [|nxt tl]; [cbn; apply Forall_nil|].
  destruct alphas as [|a as']; [cbn; apply Forall_nil|].
  inversion Hl as [|? ? Hc Hl']; subst. inversion Hl' as [|? ? Hn _]; subst.
  inversion Ha as [|? ? Hr Ha']; subst.
  cbn [inner]. constructor.
  - rewrite upd_T_form. apply convex3; auto.
  - apply IH; auto.
Qed.

Lemma zipadd_within k lo hi : forall a b,
  within (INR k * lo) (INR k * hi) a -> within lo hi b ->
  within (INR (S k) * lo) (INR (S k) * hi) (@zipadd R RNum a b).
Proof.
  induction a as [|x a IH]; intros [|y b] Ha Hb; try (cbn; apply Forall_nil). cbn [zipadd]. constructor.
  - inversion Ha; inversion Hb; subst. rewrite S_INR. rsimp. lra.
  - inversion Ha; inversion Hb; subst. apply IH; auto.
Qed.

(* invariant after k hours of a day *)
Definition inv (lo hi : R) (k : nat) (st : list R * list R) : Prop :=
  within lo hi (fst st) /\ within (INR k * lo) (INR k * hi) (snd st).

Lemma hour_inv lo hi alphas dt dz2 surf tbase k st :
  Forall (fun a => 0 <= rnum dt dz2 a <= 1 / 2) alphas ->
  lo <= surf <= hi -> lo <= tbase <= hi ->
  inv lo hi k st -> inv lo hi (S k) (@hour R RNum alphas dt dz2 surf tbase st).
Proof.
  intros Ha Hs Hb [Ht Hsum]. destruct st as [[|top rest] sums]; cbn [hour fst snd] in *.
  - split; apply Forall_nil.
  - inversion Ht as [|? ? Htop Hrest]; subst.
    assert (Hmid : within lo hi (inner alphas dt dz2 top rest)) by (apply inner_within; auto).
    split.
    + constructor; auto. apply Forall_app; split; auto.
    + apply zipadd_within; auto.
Qed.

Lemma hours_inv lo hi alphas dt dz2 surf tbase :
  Forall (fun a => 0 <= rnum dt dz2 a <= 1 / 2) alphas ->
  lo <= surf <= hi -> lo <= tbase <= hi ->
  forall j k st, inv lo hi k st -> inv lo hi (k + j) (@hours R RNum j alphas dt dz2 surf tbase st).
Proof.
  intros Ha Hs Hb. induction j as [|j IH]; intros k st Hi; cbn [hours].
  - rewrite Nat.add_0_r. exact Hi.
  - replace (k + S j)%nat with (S k + j)%nat by lia. apply IH. apply hour_inv; auto.
Qed.

Lemma removelast_within lo hi l : within lo hi l -> within lo hi (removelast l).
Proof.
  induction l as [|x l IH]; intros H; [exact H|]. inversion H; subst.
  destruct l as [|y l]; [cbn; apply Forall_nil|].
  change (removelast (x :: y :: l)) with (x :: removelast (y :: l)). constructor; [assumption | apply IH; assumption].
Qed.

Lemma repeat_zero_within lo hi n : within (INR 0 * lo) (INR 0 * hi) (repeat 0 n).
Proof. cbn [INR]. induction n; cbn [repeat]; constructor; auto. lra. Qed.

(* ---- one call of Soiltemp ---- *)
Lemma day_envelope_lemma : forall (d : day_in R) (t0 : list R) (lo hi : R),
  alphas_ok d -> within lo hi t0 -> lo <= d_tbase d <= hi ->
  let o := soiltemp_day d t0 in
  lo <= o_surf o <= hi ->
  within lo hi (o_td o) /\ within lo hi (o_tsoil0 o) /\ within lo hi (o_tsoil1 o).
Proof.
  intros d t0 lo hi Ha Ht Hb o Hs. subst o. unfold soiltemp_day in *.
  set (surf := surface _ _ _ _) in *.
  destruct (hours 24 _ _ _ _ _ _) as [tH sums] eqn:E.
  cbn [o_surf o_td o_tsoil0 o_tsoil1] in *.
  assert (Hinv : inv lo hi (0 + 24) (tH, sums)).
  { rewrite <- E. apply hours_inv; auto.
    split; cbn [fst snd].
    - unfold set_last. apply Forall_app; split; [apply removelast_within; auto | constructor; auto].
    - rsimp. apply repeat_zero_within. }
  destruct Hinv as [HtH Hsum]; cbn [fst snd] in *.
  assert (Htd : within lo hi (surf :: map (fun s => s / ofZ 24) sums ++ [d_tbase d])).
  { constructor; auto. apply Forall_app; split; [|constructor; auto].
    apply Forall_map. eapply Forall_impl; [|exact Hsum]. cbn beta. intros s Hs'.
    replace (INR (0 + 24)) with 24 in Hs' by (cbn [Nat.add]; rewrite INR_IZR_INZ; reflexivity).
    rsimp. lra. }
  auto.
Qed.

(* ---- a run of any length ---- *)
Lemma run_envelope_lemma : forall (days : list (day_in R)) (t0 : list R) (tbase lo hi : R),
  Forall (fun d => alphas_ok d /\ d_tbase d = tbase) days ->
  within lo hi t0 -> lo <= tbase <= hi ->
  within lo hi (snd (run days t0)) ->
  within lo hi (fst (run days t0)).
Proof.
  induction days as [|d rest IH]; intros t0 tbase lo hi Hd Ht Hb Hs; cbn [run fst snd] in *; [exact Ht|].
  inversion Hd as [|? ? [Ha Hbase] Hrest]; subst.
  destruct (run rest (o_tsoil0 (soiltemp_day d t0))) as [tf ss] eqn:E. cbn [fst snd] in *.
  unfold within in Hs. pose proof (Forall_inv Hs) as Hs0. pose proof (Forall_inv_tail Hs) as Hss.
  destruct (day_envelope_lemma d t0 lo hi Ha Ht Hb Hs0) as (_ & H0 & _).
  specialize (IH (o_tsoil0 (soiltemp_day d t0)) (d_tbase d) lo hi Hrest H0 Hb).
  rewrite E in IH. cbn [fst snd] in IH. auto.
Qed.

(* ---- the start profile of hermes.Init is inside [min, max] of the first air temperature and TBASE ---- *)
Lemma init_from_within t00 tbase (n : Z) : (0 < n)%Z ->
  forall k i, (0 <= i)%Z -> (i + Z.of_nat k <= n + 1)%Z ->
  within (Rmin t00 tbase) (Rmax t00 tbase) (@init_from R RNum t00 ((t00 - tbase) / IZR n) i k).
Proof.
  intros Hn. induction k as [|k IH]; intros i Hi Hk; cbn [init_from]; [apply Forall_nil|].
  constructor.
  - rsimp.
    assert (Hn' : 0 < IZR n) by (apply IZR_lt; lia).
    set (th := IZR i / IZR n).
    assert (Hth : 0 <= th <= 1).
    { unfold th. split.
      - apply Rmult_le_pos; [apply IZR_le; lia | left; apply Rinv_0_lt_compat; auto].
      - apply Rmult_le_reg_r with (IZR n); auto. unfold Rdiv. rewrite Rmult_assoc, Rinv_l by lra.
        rewrite Rmult_1_r, Rmult_1_l. apply IZR_le. lia. }
    replace (t00 - (t00 - tbase) / IZR n * IZR i) with ((1 - th) * t00 + th * tbase) by (unfold th; field; lra).
    pose proof (Rmin_l t00 tbase). pose proof (Rmin_r t00 tbase).
    pose proof (Rmax_l t00 tbase). pose proof (Rmax_r t00 tbase).
    split; nra.
  - apply IH; lia.
Qed.

Lemma init_envelope_lemma : forall (tmin tmax tbase : R) (n : nat), (1 <= n)%nat ->
  let t00 := (tmin + tmax) / 2 in
  within (Rmin t00 tbase) (Rmax t00 tbase) (init_profile tmin tmax tbase n).
Proof.
  intros tmin tmax tbase n Hn t00. unfold init_profile. rsimp. fold t00. constructor.
  - split; [apply Rmin_l | apply Rmax_l].
  - apply init_from_within; lia.
Qed.

(* ------------------------------------------------------------------ *)
(* the diffusion number                                                 *)

Definition admissible (l : layer R) : Prop :=
  (567 / 1000) <= l_bd l <= (23 / 10) /\ 0 <= l_hum l /\ 0 <= l_wg l /\ 0 <= l_ex l <= 1.

Lemma div_le_of_le_mul a b c : 0 < c -> a <= b * c -> a / c <= b.
Proof.
  intros Hc H. apply Rmult_le_reg_r with c; auto. unfold Rdiv. rewrite Rmult_assoc, Rinv_l by lra. lra.
Qed.

(* DT = 1 day, DZ = 10 cm as everywhere in Hermes2Go *)
Lemma diffusion_number_lemma : forall l : layer R, admissible l ->
  let r := rnum 1 (10 * 10) (alpha_of 1 l) in
  0 <= r /\ r <= (6 / 10) - (34 / 100) / l_bd l /\ r < 1 / 2.
Proof.
  intros [bd wg hum pw ex] (Hbd & Hh & Hw & He). cbn [l_bd l_wg l_hum l_pw l_ex] in *.
  cbv zeta. unfold rnum, alpha_of, heatcond, heatcap. cbn [l_bd l_wg l_hum l_pw l_ex]. decs.
  set (A := (3 * bd - 17 / 10) * (1 / 1000)).
  set (D := 1 + (115 / 10 - 5 * bd) * ex).
  set (C := (wg * 1 * 1 + (1 - bd / (265 / 100) - wg) * (13 / 10000) * (23 / 100)
             + hum * (13 / 10) * (13 / 10) * (45 / 100)
             + (bd / (265 / 100) - hum * (13 / 10)) * (265 / 100) * (18 / 100)) * (4189 / 1000)).
  assert (HA : 0 <= A) by (unfold A; lra).
  assert (HD : 1 <= D) by (unfold D; assert (0 <= (115 / 10 - 5 * bd) * ex) by (apply Rmult_le_pos; lra); lra).
  assert (HC : 4189 / 1000 * (18 / 100) * bd <= C).
  { unfold C.
    replace (bd / (265 / 100)) with (bd * (100 / 265)) by (field).
    lra. }
  assert (HCpos : 0 < C) by lra.
  set (num := A * 86400 * (4189 / 1000)).
  set (den := D * C * 2400).
  assert (Hden : 4189 / 1000 * (18 / 100) * bd * 2400 <= den).
  { unfold den. assert (C <= D * C) by nra. nra. }
  assert (Hdenpos : 0 < den) by lra.
  replace (A / D * 86400 * 1 * (4189 / 1000) / C * 1 / 24 / (10 * 10)) with (num / den)
    by (unfold num, den; field; lra).
  assert (Hx : 0 <= (6 / 10) - (34 / 100) / bd).
  { assert ((34 / 100) / bd <= (6 / 10)); [|lra]. apply div_le_of_le_mul; lra. }
  split; [|split].
  - apply Rmult_le_pos; [unfold num; nra | left; apply Rinv_0_lt_compat; auto].
  - apply div_le_of_le_mul; auto.
    apply Rle_trans with (((6 / 10) - (34 / 100) / bd) * (4189 / 1000 * (18 / 100) * bd * 2400)).
    + right. unfold num, A. field. lra.
    + apply Rmult_le_compat_l; auto.
  - apply Rle_lt_trans with ((6 / 10) - (34 / 100) / bd).
    + apply div_le_of_le_mul; auto.
      apply Rle_trans with (((6 / 10) - (34 / 100) / bd) * (4189 / 1000 * (18 / 100) * bd * 2400)).
      * right. unfold num, A. field. lra.
      * apply Rmult_le_compat_l; auto.
    + assert ((34 / 100) / (23 / 10) <= (34 / 100) / bd); [|lra].
      apply div_le_of_le_mul; [lra|]. unfold Rdiv. rewrite Rmult_assoc.
      assert (1 <= / bd * (23 / 10)); [|nra].
      replace 1 with (/ bd * bd) by (field; lra). apply Rmult_le_compat_l; [left; apply Rinv_0_lt_compat|]; lra.
Qed.

Lemma admissible_alphas_ok (d : day_in R) :
  d_dt d = 1 -> d_dz d = 10 -> Forall admissible (d_layers d) -> alphas_ok d.
Proof.
  intros Hdt Hdz Hl. unfold alphas_ok. rewrite Hdt, Hdz. apply Forall_map.
  eapply Forall_impl; [|exact Hl]. intros l Ha. destruct (diffusion_number_lemma l Ha) as (H0 & _ & H1).
  cbv zeta in *. lra.
Qed.

(* F17: below (567 / 1000) g/cm3 the conductivity factor 3*BD - 1.7 is negative: the scheme anti-diffuses *)
Lemma diffusion_number_refuted_lemma :
  exists l : layer R, 0 < l_bd l /\ 0 <= l_hum l /\ 0 <= l_wg l /\ 0 <= l_ex l <= 1 /\
    rnum 1 (10 * 10) (alpha_of 1 l) < 0.
Proof.
  exists {| l_bd := 3 / 10; l_wg := 3 / 10; l_hum := 0; l_pw := 1; l_ex := 0 |}.
  cbn [l_bd l_wg l_hum l_pw l_ex]. repeat split; try lra.
  unfold rnum, alpha_of, heatcond, heatcap. cbn [l_bd l_wg l_hum l_pw l_ex]. decs.
  lra.
Qed.

(* with the anti-diffusive coefficient one hourly step already leaves the envelope of its inputs *)
Lemma hour_step_refuted_lemma :
  exists alpha prev cur nxt, rnum 1 (10 * 10) alpha < 0 /\
    @upd_T R RNum alpha 1 (10 * 10) prev cur nxt < Rmin cur (Rmin prev nxt).
Proof.
  exists (-2400), 1, 0, 1. split; [unfold rnum; lra|].
  unfold upd_T. rsimp. unfold Rmin. repeat destruct (Rle_dec _ _); lra.
Qed.

(* ---- the surface value (soiltemp.go:41-45) ---- *)
Lemma surface_value_lemma : forall radiat tmin tmax t00 : R, tmin <= tmax ->
  let s := sqrt (3 / 10000 * radiat) in
  let v := @surface R RNum radiat tmin tmax t00 in
  (radiat <= 833 -> v = (tmin + tmax) / 2 /\ tmin <= v <= tmax) /\
  (833 < radiat -> v = (1 - 31 / 100) * (tmin + (tmax - tmin) * s) + 31 / 100 * t00 /\
                   Rmin tmin t00 <= v /\ (s <= 1 -> v <= Rmax tmax t00)).
Proof.
  intros radiat tmin tmax t00 Hm s v. subst v. unfold surface, gtb. split; intros Hr.
  - assert (E : @ltb R RNum (ofZ 833) radiat = false) by (apply ltbR_false; rsimp; lra).
    rewrite E. rsimp. split; lra.
  - assert (E : @ltb R RNum (ofZ 833) radiat = true) by (apply ltbR; rsimp; lra).
    rewrite E. unfold ALBEDO. decs. cbn [sqrtv RNum]. fold s. split; [reflexivity|].
    assert (Hs : 0 <= s) by apply sqrt_pos.
    pose proof (Rmin_l tmin t00). pose proof (Rmin_r tmin t00).
    pose proof (Rmax_l tmax t00). pose proof (Rmax_r tmax t00).
    assert (0 <= (tmax - tmin) * s) by (apply Rmult_le_pos; lra).
    clearbody s. split; [|intros Hs1]; nra.
Qed.

(* ---- the whole statement: from Init's profile, admissible soil on every day ---- *)
Definition day_admissible (tbase : R) (d : day_in R) : Prop :=
  d_dt d = 1 /\ d_dz d = 10 /\ d_tbase d = tbase /\ Forall admissible (d_layers d).

Lemma run_envelope_admissible_lemma : forall (days : list (day_in R)) (tmin tmax tbase lo hi : R) (n : nat),
  (1 <= n)%nat -> Forall (day_admissible tbase) days ->
  let t0 := init_profile tmin tmax tbase n in
  lo <= (tmin + tmax) / 2 <= hi -> lo <= tbase <= hi ->
  within lo hi (snd (run days t0)) ->
  within lo hi (fst (run days t0)).
Proof.
  intros days tmin tmax tbase lo hi n Hn Hd t0 H0 Hb Hs.
  apply run_envelope_lemma with tbase; auto.
  - eapply Forall_impl; [|exact Hd]. intros d (Hdt & Hdz & Htb & Hl). split; auto.
    apply admissible_alphas_ok; auto.
  - pose proof (init_envelope_lemma tmin tmax tbase n Hn) as Hi. cbv zeta in Hi.
    eapply Forall_impl; [|exact Hi]. cbn beta. intros x [Hx1 Hx2]. split.
    + eapply Rle_trans; [|exact Hx1]. apply Rmin_glb; lra.
    + eapply Rle_trans; [exact Hx2|]. apply Rmax_lub; lra.
Qed.

(* ------------------------------------------------------------------ *)
(* the readers establish the bulk density hypothesis for class input   *)

Definition bd_admissible (v : R) : Prop := 567 / 1000 <= v <= 23 / 10.

Lemma class_density_lemma : forall c : Z, (1 <= c <= 5)%Z ->
  exists v : R, bd_of_class c = Some v /\ bd_admissible v.
Proof.
  intros c Hc. assert (H : c = 1%Z \/ c = 2%Z \/ c = 3%Z \/ c = 4%Z \/ c = 5%Z) by lia.
  destruct H as [-> | [-> | [-> | [-> | ->]]]]; cbn [bd_of_class Z.eqb Pos.eqb]; eexists; (split; [reflexivity|]);
    unfold bd_admissible; decs; lra.
Qed.

Lemma class_density_none_lemma : forall c : Z, (c < 1 \/ 5 < c)%Z -> @bd_of_class R RNum c = None.
Proof.
  intros c Hc. unfold bd_of_class.
  repeat match goal with |- context [Z.eqb c ?k] => destruct (Z.eqb_spec c k); [lia|] end. reflexivity.
Qed.

(* a horizon of the soil file: class 1..5 without a measured value, or a measured value in the range *)
Definition horizon_admissible (h : Z * Z * option R) : Prop :=
  let '(_, c, m) := h in
  match m with Some v => bd_admissible v | None => (1 <= c <= 5)%Z end.

Lemma layer_bd_admissible_lemma : forall (hs : list (Z * Z * option R)) (prev : Z),
  Forall horizon_admissible hs -> Forall bd_admissible (layer_bd prev hs).
Proof.
  induction hs as [|[[ukt c] m] r IH]; intros prev H; cbn [layer_bd]; [constructor|].
  inversion H as [|? ? Hh Hr]; subst. apply Forall_app; split; [|apply IH; assumption].
  apply Forall_forall. intros x Hx. apply repeat_spec in Hx. subst x.
  cbn in Hh. unfold horizon_bulk. destruct m as [v|]; [exact Hh|].
  destruct (class_density_lemma c Hh) as (v & -> & Hv). exact Hv.
Qed.

(* the stone content does not enter: BD is a function of the horizons' (depth, class, measured) only — by
   construction of [layer_bd]; every layer's density is one of the soil file's horizon densities *)
Lemma layer_bd_from_file_lemma : forall (hs : list (Z * Z * option R)) (prev : Z) (x : R),
  In x (layer_bd prev hs) -> exists h, In h hs /\ x = horizon_bulk (snd (fst h)) (snd h).
Proof.
  induction hs as [|[[ukt c] m] r IH]; intros prev x Hx; cbn [layer_bd] in Hx; [destruct Hx|].
  apply in_app_or in Hx. destruct Hx as [Hx | Hx].
  - apply repeat_spec in Hx. exists (ukt, c, m). split; [left; reflexivity | exact Hx].
  - destruct (IH _ _ Hx) as (h & Hin & E). exists h. split; [right; exact Hin | exact E].
Qed.

(* the run constant is the configured annual mean temperature (config.go:120): the lower boundary node of every
   day's result is that value, and the envelope statement holds with it *)
Lemma day_lower_boundary_lemma : forall (d : day_in R) (t0 : list R) (x : R),
  last (o_tsoil0 (soiltemp_day d t0)) x = d_tbase d /\ last (o_td (soiltemp_day d t0)) x = d_tbase d.
Proof.
  intros d t0 x. unfold soiltemp_day. destruct (hours 24 _ _ _ _ _ _) as [tH sums]. cbn [o_tsoil0 o_td].
  split; (change (?a :: ?l ++ [d_tbase d]) with ((a :: l) ++ [d_tbase d]); apply last_last).
Qed.

Lemma run_envelope_configured_lemma : forall (days : list (day_in R)) (tmin tmax amt lo hi : R) (n : nat),
  (1 <= n)%nat -> Forall (day_admissible (tbase_of_config amt)) days ->
  let t0 := init_profile tmin tmax (tbase_of_config amt) n in
  lo <= (tmin + tmax) / 2 <= hi -> lo <= amt <= hi ->
  within lo hi (snd (run days t0)) ->
  within lo hi (fst (run days t0)).
Proof. intros. apply run_envelope_admissible_lemma; auto. Qed.
