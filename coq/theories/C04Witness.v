(* C04Witness.v — F9 at model level: concrete inputs (binary64 instance, evaluated by vm_compute)
   on which the model of the unchanged code does NOT end in an error although the weather input
   does not cover the simulated days / has a short year / lacks a year file. *)
From Coq Require Import ZArith List Bool Floats.
From Hermes Require Import Num Util Calendar WeatherModel CtrlModel.
Import ListNotations.
Open Scope Z_scope.

Definition wr (t : float) : wrec float := mkw t (t - 2)%float (t + 2)%float 80%float 10%float 3%float 0%float.

(* 1 Jan 1981 = day 29221.  The series holds 1-3 January 1981 only; the run 1-5 January 1981
   "succeeds": on 4 January the year counter jumps to 82, the day index to 0, and the record of
   1 January is consumed again. *)
Definition short_series : list (mrec float) := [(1981, 1, wr 1); (1981, 2, wr 2); (1981, 3, wr 3)].

Definition summary (l : list (Z * cal * wrec float)) : list (Z * Z * Z * float) :=
  map (fun x => (fst (fst x), c_tag (snd (fst x)), c_j (snd (fst x)), w_tavg (snd x))) l.

Lemma uncovered_is_error_refuted_lemma :
  exists l, run_multi false (-99)%float [] short_series 1981 29221 1 29225 = RunOk l /\
            summary l = [(29221, 0, 81, 1%float); (29222, 1, 81, 2%float); (29223, 2, 81, 3%float);
                         (29224, 0, 82, 1%float); (29225, 1, 82, 2%float)].
Proof. eexists. split; vm_compute; reflexivity. Qed.

(* F32 repaired: a gap that ends on a 1 January is "missing days" (the year before has to end on its 31 December) ... *)
Lemma gap_to_jan1_is_error_lemma :
  read_multi (-99)%float [] 1981 2 [(1981, 1, wr 1); (1981, 2, wr 2); (1982, 1, wr 3)] = None.
Proof. vm_compute. reflexivity. Qed.

(* F33 repaired: ... and so is a series that jumps over a whole year (31 Dec 1981 -> 1 Jan 1983, both years 365 days) *)
Definition full_year (y : Z) : list (mrec float) := map (fun d => (y, d, wr 1)) (zrange 1 (Z.to_nat (ylen y))).
Lemma missing_year_is_error_lemma :
  read_multi (-99)%float [] 1981 3 (full_year 1981 ++ full_year 1983) = None.
Proof. vm_compute. reflexivity. Qed.

(* per-year layout: the file of 1981 stops after 3 January, no file for 1982: same outcome, the
   errors of WetterK/LoadYear are dropped *)
Lemma missing_file_is_error_refuted_lemma :
  exists l, run_peryear false (-99)%float [] [(1981, [(1, wr 1); (2, wr 2); (3, wr 3)])] 1981 29221 1 29225 = RunOk l /\
            summary l = [(29221, 0, 81, 1%float); (29222, 1, 81, 2%float); (29223, 2, 81, 3%float);
                         (29224, 0, 82, 1%float); (29225, 1, 82, 2%float)].
Proof. eexists. split; vm_compute; reflexivity. Qed.

(* ------------------------------------------------------------------ *)
(* outside the property's quantifier (malformed files): lines the multi-year readers accept as a
   record shifted by one column *)
From Coq Require Import Ascii String.
Set Warnings "-inexact-float".

From Hermes Require Import DateModel WeatherTokModel.

Definition csv_hdr9 : header := read_header (lstr_of "iso-date,tmin,tavg,tmax,precip,globrad,wind,relhumid,extra0"%string).

(* empty tavg field; a surplus column keeps the token count sufficient *)
Lemma empty_field_shifted_lemma :
  csv_line (-99)%float csv_hdr9 1983 (lstr_of "1983-01-07,12.8,,23.2,1.5,8.0,2.0,51.0,0.6"%string)
  = IRec (1983, 7, mkw 23.2%float 12.8%float 1.5%float 0.6%float 2.0%float 51.0%float 8.0%float) None.
Proof. vm_compute. reflexivity. Qed.

(* without the surplus column the same line is an index panic *)
Lemma empty_field_panic_lemma :
  csv_line (-99)%float (read_header (lstr_of "iso-date,tmin,tavg,tmax,precip,globrad,wind,relhumid"%string)) 1983
           (lstr_of "1983-01-07,12.8,,23.2,1.5,8.0,2.0,51.0"%string) = IPanic.
Proof. vm_compute. reflexivity. Qed.

(* decimal comma: one token more, every later column read from its left neighbour *)
Lemma decimal_comma_shifted_lemma :
  csv_line (-99)%float (read_header (lstr_of "iso-date;tmin;tavg;tmax;precip;globrad;wind;relhumid"%string)) 1983
           (lstr_of "1983-01-28;-8,6;-3.1;1.7;0.0;5.5;2.2;61.0"%string)
  = IRec (1983, 28, mkw 6%float (-8)%float (-3.1)%float 2.2%float 0.0%float 5.5%float 1.7%float) None.
Proof. vm_compute. reflexivity. Qed.

(* CZ layout, empty TMAX, the optional CO2 column supplies the missing token *)
Lemma cz_empty_field_shifted_lemma :
  cz_line (-99)%float (read_header (lstr_of "@YYYYJJJ;TMIN;TMAX;RAD;PREC;WIND;RH;CO2"%string)) 1979
          (lstr_of "1979123;2.9;;12.4;0.0;3.1;88.5;350"%string)
  = IRec (cz_rec 1979 123 (mkw 0%float 2.9%float 12.4%float 350%float 0.0%float 88.5%float 3.1%float)) None.
Proof. vm_compute. reflexivity. Qed.

(* per-year layout: the same kind of line never yields a record: index panic / log.Fatal *)
Lemma year_empty_field_panic_lemma :
  year_line (T:=float) (lstr_of "4.1;1;;-99;90;0.2;3.1;0;64;1;1"%string) 0 empty_slot = TPanic.
Proof. vm_compute. reflexivity. Qed.
Lemma year_nonnumeric_fatal_lemma :
  year_line (T:=float) (lstr_of "4.1;1;5.6;n/a;90;0.2;3.1;0;64;1;1"%string) 0 empty_slot = TFatal.
Proof. vm_compute. reflexivity. Qed.
