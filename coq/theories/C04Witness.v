(* C04Witness.v — F9 at model level: concrete inputs (binary64 instance, evaluated by vm_compute)
   on which the model of the unchanged code does NOT end in an error although the weather input
   does not cover the simulated days / has a short year / lacks a year file. *)
From Coq Require Import ZArith List Bool Floats.
From Hermes Require Import Num Calendar WeatherModel CtrlModel.
Import ListNotations.
Open Scope Z_scope.

Definition wr (t : float) : wrec float := mkw t (t - 2)%float (t + 2)%float 80%float 10%float 3%float 0%float.

(* 1 Jan 1981 = day 29221.  The series holds 1-3 January 1981 only; the run 1-5 January 1981
   "succeeds": on 4 January the year counter jumps to 82, the day index to 0, and the record of
   1 January is consumed again. *)
Definition short_series : list (mrec float) := [(1981, 1, wr 1); (1981, 2, wr 2); (1981, 3, wr 3)].

Definition summary (l : list (Z * cal * wrec float)) : list (Z * Z * Z * float) :=
  map (fun x => (fst (fst x), c_tag (snd (fst x)), c_j (snd (fst x)), w_tavg (snd x))) l.

Lemma uncovered_is_error_refuted_lemma :
  exists l, run_multi false (-99)%float [] short_series 1981 29221 1 29225 = RunOk l /\
            summary l = [(29221, 0, 81, 1%float); (29222, 1, 81, 2%float); (29223, 2, 81, 3%float);
                         (29224, 0, 82, 1%float); (29225, 1, 82, 2%float)].
Proof. eexists. split; vm_compute; reflexivity. Qed.

(* the multi-year readers accept a gap that ends on a 1 January: 2 Jan 1981 -> 1 Jan 1982;
   the year 1981 is stored with MaxYearDays = 2 *)
Lemma gap_to_jan1_is_error_refuted_lemma :
  exists st, read_multi (-99)%float [] 1981 2 [(1981, 1, wr 1); (1981, 2, wr 2); (1982, 1, wr 3)] = Some st /\
             maxd_at st 0 = 2 /\ s_jar (slot_at st 1) = 1982.
Proof. eexists. split; [vm_compute; reflexivity|]. split; vm_compute; reflexivity. Qed.

(* per-year layout: the file of 1981 stops after 3 January, no file for 1982: same outcome, the
   errors of WetterK/LoadYear are dropped *)
Lemma missing_file_is_error_refuted_lemma :
  exists l, run_peryear false (-99)%float [] [(1981, [(1, wr 1); (2, wr 2); (3, wr 3)])] 1981 29221 1 29225 = RunOk l /\
            summary l = [(29221, 0, 81, 1%float); (29222, 1, 81, 2%float); (29223, 2, 81, 3%float);
                         (29224, 0, 82, 1%float); (29225, 1, 82, 2%float)].
Proof. eexists. split; vm_compute; reflexivity. Qed.
