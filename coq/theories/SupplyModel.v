(* SupplyModel.v — executable model of the N-supply terms of hermes.PhytoOut (hermes/crop.go:662-699): the crop-specific
   maximum uptake rate per unit root length (maxup), the mass-flow supply MASS[i] and the diffusive supply DIFF[i] of the
   rooted layers above the groundwater table (at most the first ten layers).  Until round 9 these three were mirrored in the
   harness and entered CropModel.uptake_day as oracle inputs.  Oracle left: exp(10*WG) of the diffusion coefficient.
   math.Sqrt is the correctly rounded square root of [Num]; the root radius is RootDistModel.wrad.  No proofs. *)
From Coq Require Import ZArith List Bool.
From Hermes Require Import Num RootDistModel.
Import ListNotations.
Local Open Scope num_scope.

Section Supply.
  Context {T : Type} {NT : Num T}.

  (* crop.go:663-681 — the four crop classes of the uptake limit *)
  Inductive maxup_class := MxVeg (* ORH WRA SE LET WCA ONI CEL GAR CAR PMK *) | MxSM | MxZR | MxOther.

  Definition maxup_of (c : maxup_class) (phyllo tendsum : T) : T :=
    match c with
    | MxVeg => dec 9145 5 - dec 15725 6 * (phyllo / ofZ 1300)
    | MxSM => dec 74 3 - dec 1 2 * (phyllo / tendsum)
    | MxZR => dec 5645 5 - dec 1 2 * (phyllo / tendsum)
    | MxOther => dec 3145 5 - dec 15725 6 * (phyllo / ofZ 1300)
    end.

  (* crop.go:692 — N carried to the root with the transpiration stream *)
  Definition mass_of (tp c1 wg dz dt : T) : T := tp * (c1 / (wg * dz)) * dt.

  (* crop.go:694 — diffusion coefficient; [e] = math.Exp(WG*10) *)
  Definition dcoef_of (ad e wg : T) : T := dec 214 2 * (ad * e) / wg.

  (* crop.go:695 — diffusive supply towards the root surface *)
  Definition diff_of (d wg pi wrad c1 wudich dt : T) : T :=
    (d * wg * two * pi * wrad * (c1 / ofZ 1000 / wg - dec 14 6) * sqrtv (pi * wudich)) * wudich * ofZ 1000 * dt.

  Record sup_layer := { sl_tp : T; sl_c1 : T; sl_wg : T; sl_ad : T; sl_e : T; sl_wudich : T }.

  Fixpoint supply_loop (zrk : bool) (pi dz dt : T) (i : Z) (ls : list sup_layer) : list (T * T) :=
    match ls with
    | [] => []
    | l :: r =>
        (mass_of (sl_tp l) (sl_c1 l) (sl_wg l) dz dt,
         diff_of (dcoef_of (sl_ad l) (sl_e l) (sl_wg l)) (sl_wg l) pi (wrad zrk i) (sl_c1 l) (sl_wudich l) dt)
        :: supply_loop zrk pi dz dt (i + 1)%Z r
    end.
  Definition supply (zrk : bool) (pi dz dt : T) (ls : list sup_layer) : list (T * T) := supply_loop zrk pi dz dt 1%Z ls.
End Supply.
