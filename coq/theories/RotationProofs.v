(* RotationProofs.v — lemmas about RotationModel (property C16, sowing/harvest part of C10). *)
From Coq Require Import ZArith List Bool Lia Reals Lra Sorted.
From Hermes Require Import Num RotationModel.
Import ListNotations.
Open Scope Z_scope.

(* ------------------------------------------------------------------------------------------ *)
(* fixed dates: closed form of the rotation cursor                                             *)

Section Fixed.
  Variables saat ernte ernte2 : Z -> Z.

  (* the ideal executor: entries (s, e) from index k on; [sown] says whether entry k is already sown *)
  Fixpoint rot_expected (E k : Z) (sown : bool) (l : list (Z * Z)) : list (Z * rkind * Z) :=
    match l with
    | [] => []
    | (s, e) :: r =>
        (if negb sown && (s <=? E) then [(s, Sow, k)] else []) ++
        (if e <=? E then (e, Harv, k) :: rot_expected E (k + 1) false r else [])
    end.

  (* dates of the remaining entries are strictly increasing: s_k < e_k < s_{k+1} < ... *)
  Fixpoint chain (p : Z) (l : list (Z * Z)) : Prop :=
    match l with [] => True | (s, e) :: r => p < s /\ s < e /\ chain e r end.

  (* the arrays hold the entries l from index k on, zeros after them *)
  Definition holds (k : Z) (l : list (Z * Z)) : Prop :=
    (forall i, (i < length l)%nat ->
       saat (k + Z.of_nat i) = fst (nth i l (0, 0)) /\ ernte (k + Z.of_nat i) = snd (nth i l (0, 0)) /\
       ernte2 (k + Z.of_nat i) = snd (nth i l (0, 0))) /\
    saat (k + Z.of_nat (length l)) = 0 /\ ernte (k + Z.of_nat (length l)) = 0.

  Lemma holds_tail k s e r : holds k ((s, e) :: r) -> holds (k + 1) r.
  Proof.
    intros [H1 H2]. split.
    - intros i Hi. specialize (H1 (S i) ltac:(cbn; lia)). cbn [nth] in H1.
      replace (k + 1 + Z.of_nat i) with (k + Z.of_nat (S i)) by lia. exact H1.
    - cbn [length] in H2. replace (k + 1 + Z.of_nat (length r)) with (k + Z.of_nat (S (length r))) by lia. exact H2.
  Qed.

  Lemma rot_run_closed : forall fuel z k sown l,
    0 < z -> 0 <= k -> 1 <= k \/ sown = true ->
    holds k l ->
    match l with
    | [] => True
    | (s, e) :: r => (if sown then s < z else z <= s) /\ z <= e /\ s < e /\ chain e r
    end ->
    rot_run saat ernte ernte2 fuel z k = rot_expected (z + Z.of_nat fuel - 1) k sown l.
  Proof.
    induction fuel as [|fuel IH]; intros z k sown l Hz Hk0 Hk Hh Hp.
    - cbn [rot_run]. destruct l as [|[s e] r]; cbn [rot_expected]; [reflexivity|].
      destruct Hp as (Hs & He & Hse & _).
      assert (e <=? z + Z.of_nat 0 - 1 = false) as -> by (apply Z.leb_gt; lia).
      destruct sown; cbn [negb andb]; [reflexivity|].
      assert (s <=? z + Z.of_nat 0 - 1 = false) as -> by (apply Z.leb_gt; lia). reflexivity.
    - cbn [rot_run]. unfold rot_day.
      replace (z + Z.of_nat (S fuel) - 1) with (z + 1 + Z.of_nat fuel - 1) by lia.
      destruct l as [|[s e] r].
      + destruct Hh as [_ [Hs0 He0]]. cbn [length] in *. rewrite Z.add_0_r in *.
        rewrite Hs0, He0. assert (z =? 0 = false) as -> by (apply Z.eqb_neq; lia).
        replace (0 <? 0) with false by reflexivity. rewrite !andb_false_r, ?andb_false_l. cbn [app].
        rewrite (IH (z + 1) k sown []); [reflexivity | lia | lia | exact Hk | split; [intros i Hi; cbn in Hi; lia | cbn [length]; rewrite Z.add_0_r; tauto] | exact I].
      + destruct Hp as (Hs & He & Hse & Hc).
        pose proof Hh as [Hh1 _]. specialize (Hh1 O ltac:(cbn; lia)). cbn [nth fst snd] in Hh1. rewrite Z.add_0_r in Hh1.
        destruct Hh1 as (Hsa & Her & He2). rewrite Hsa, Her, He2. clear Hsa Her He2.
        cbn [rot_expected].
        destruct (z =? e) eqn:Ee; [apply Z.eqb_eq in Ee | apply Z.eqb_neq in Ee].
        * (* harvest day: not a sowing day *)
          subst e. assert (z =? s = false) as -> by (apply Z.eqb_neq; lia). rewrite !andb_false_r. cbn [app].
          assert (z <=? z + 1 + Z.of_nat fuel - 1 = true) as -> by (apply Z.leb_le; lia).
          assert (Hsown : sown = true).
          { destruct sown; [reflexivity|]. lia. }
          subst sown. cbn [negb andb app]. f_equal.
          rewrite (IH (z + 1) (k + 1) false r); [reflexivity | lia | lia | left; lia | eapply holds_tail; exact Hh |].
          destruct r as [|[s' e'] r']; [exact I|]. cbn [chain] in Hc. destruct Hc as (C1 & C2 & C3). repeat split; try lia; exact C3.
        * idtac.
          destruct (z =? s) eqn:Es; [apply Z.eqb_eq in Es | apply Z.eqb_neq in Es].
          -- (* sowing day *)
             subst s. assert (sown = false) by (destruct sown; [lia | reflexivity]). subst sown.
             assert (k = 0 -> False) by (intros ->; destruct Hk as [Hk|Hk]; [lia | discriminate]).
             assert (1 <=? k = true) as -> by (apply Z.leb_le; lia).
             assert (0 <? z = true) as -> by (apply Z.ltb_lt; lia).
             assert (z <=? z = true) as -> by (apply Z.leb_le; lia).
             assert (z <=? e = true) as -> by (apply Z.leb_le; lia).
             cbn [andb negb app].
             assert (z <=? z + 1 + Z.of_nat fuel - 1 = true) as -> by (apply Z.leb_le; lia).
             cbn [app]. f_equal.
             rewrite (IH (z + 1) k true ((z, e) :: r)); [| lia | lia | left; lia | exact Hh | repeat split; try lia; exact Hc].
             cbn [rot_expected negb andb app]. reflexivity.
          -- rewrite !andb_false_r. cbn [app].
             rewrite (IH (z + 1) k sown ((s, e) :: r)); [| lia | lia | exact Hk | exact Hh | repeat split; try lia; try exact Hc; destruct sown; lia].
             cbn [rot_expected].
             reflexivity.
  Qed.

  (* facts about the closed form *)
  Lemma rot_expected_In E : forall l k sown z kind j,
    In (z, kind, j) (rot_expected E k sown l) ->
    z <= E /\ k <= j < k + Z.of_nat (length l) /\
    z = (match kind with Sow => fst | Harv => snd end) (nth (Z.to_nat (j - k)) l (0, 0)).
  Proof.
    induction l as [|[s e] r IH]; intros k sown z kind j; cbn [rot_expected]; [cbn; tauto|].
    intros Hin. apply in_app_or in Hin. cbn [length]. destruct Hin as [Hin|Hin].
    - destruct (negb sown && (s <=? E)) eqn:C; [|cbn in Hin; tauto].
      apply andb_true_iff in C as [_ C]. apply Z.leb_le in C.
      destruct Hin as [Hin|[]]. inversion Hin; subst. replace (j - j) with 0 by lia. cbn. lia.
    - destruct (e <=? E) eqn:C; [|cbn in Hin; tauto]. apply Z.leb_le in C.
      destruct Hin as [Hin|Hin].
      + inversion Hin; subst. replace (j - j) with 0 by lia. cbn. lia.
      + apply IH in Hin. destruct Hin as (H1 & H2 & H3). repeat split; try lia.
        replace (Z.to_nat (j - k)) with (S (Z.to_nat (j - (k + 1)))) by lia. exact H3.
  Qed.

  Lemma rot_expected_harvest_order E : forall l k sown,
    StronglySorted Z.lt
      (flat_map (fun e => match e with (_, Harv, j) => [j] | _ => [] end) (rot_expected E k sown l)).
  Proof.
    induction l as [|[s e] r IH]; intros k sown; cbn [rot_expected]; [constructor|].
    rewrite flat_map_app.
    assert (flat_map (fun e0 : Z * rkind * Z => let '(_, y, j) := e0 in match y with Sow => [] | Harv => [j] end)
              (if negb sown && (s <=? E) then [(s, Sow, k)] else []) = []) as ->
      by (destruct (negb sown && (s <=? E)); reflexivity).
    cbn [app]. destruct (e <=? E); [|constructor]. cbn [flat_map app]. constructor; [apply IH|].
    apply Forall_forall. intros j Hj. apply in_flat_map in Hj as ([[z kind] j'] & Hin & Hj).
    destruct kind; cbn in Hj; [tauto|]. destruct Hj as [<-|[]]. apply rot_expected_In in Hin. lia.
  Qed.
End Fixed.

(* ------------------------------------------------------------------------------------------ *)
(* automatic sowing                                                                            *)

Lemma auto_sow_rule z saat1 saat2 prev trig s' :
  auto_sow z 0 saat1 saat2 prev trig = s' -> s' <> 0 ->
  s' = z /\ saat1 <= z /\ (z = saat2 \/ (trig = true /\ prev + 4 < z)).
Proof.
  unfold auto_sow. cbn [Z.eqb andb].
  destruct (saat1 <=? z) eqn:E1; [apply Z.leb_le in E1 | intros <-; congruence].
  destruct trig; cbn [andb].
  - destruct (prev + 4 <? z) eqn:E2; [apply Z.ltb_lt in E2|].
    + destruct (z =? 0) eqn:Ez; [apply Z.eqb_eq in Ez; subst z|]; rewrite ?andb_true_r, ?andb_false_r.
      * destruct (0 =? saat2); intros <-; congruence.
      * intros <- _. auto.
    + cbn [Z.eqb]. rewrite andb_true_r. destruct (z =? saat2) eqn:E3; [apply Z.eqb_eq in E3 | intros <-; congruence].
      intros <- _. auto.
  - cbn [Z.eqb]. rewrite andb_true_r. destruct (z =? saat2) eqn:E3; [apply Z.eqb_eq in E3 | intros <-; congruence].
    intros <- _. auto.
Qed.

Lemma auto_sow_forced saat1 saat2 prev trig : saat1 <= saat2 -> saat2 <> 0 ->
  auto_sow saat2 0 saat1 saat2 prev trig = saat2.
Proof.
  intros H1 H2. unfold auto_sow. cbn [Z.eqb andb].
  assert (saat1 <=? saat2 = true) as -> by now apply Z.leb_le.
  rewrite Z.eqb_refl. destruct (trig && (prev + 4 <? saat2)); cbn [andb].
  - assert (saat2 =? 0 = false) as -> by now apply Z.eqb_neq. reflexivity.
  - reflexivity.
Qed.

Lemma auto_sow_keeps z s saat1 saat2 prev trig : s <> 0 -> auto_sow z s saat1 saat2 prev trig = s.
Proof. intros H. unfold auto_sow. assert (s =? 0 = false) as -> by now apply Z.eqb_neq. reflexivity. Qed.

Lemma auto_sow_not_before z saat1 saat2 prev trig : z < saat1 -> auto_sow z 0 saat1 saat2 prev trig = 0.
Proof. intros H. unfold auto_sow. assert (saat1 <=? z = false) as -> by (apply Z.leb_gt; lia). reflexivity. Qed.

(* running the sowing block from a day not after the window end through the window end: the entry is
   sown inside its window, after the previous harvest + 4 unless forced on the last day *)
Lemma sow_loop_window trig saat1 saat2 prev : forall fuel z,
  0 < saat1 -> saat1 <= saat2 -> z <= saat2 -> saat2 < z + Z.of_nat fuel ->
  let s := sow_loop trig saat1 saat2 prev fuel z 0 in
  saat1 <= s <= saat2 /\ z <= s /\ (s = saat2 \/ prev + 4 < s).
Proof.
  induction fuel as [|fuel IH]; intros z H0 H1 H2 H3; [lia|].
  cbn [sow_loop]. destruct (Z.eq_dec (auto_sow z 0 saat1 saat2 prev (trig z)) 0) as [E|E].
  - rewrite E. destruct (Z.eq_dec z saat2) as [->|Hne].
    + rewrite auto_sow_forced in E by lia. lia.
    + specialize (IH (z + 1) H0 H1 ltac:(lia) ltac:(lia)). cbn zeta in IH. lia.
  - destruct (auto_sow_rule z saat1 saat2 prev (trig z) _ eq_refl E) as (Hs & Hw & Hc).
    rewrite Hs.
    assert (Hk : forall f y, sow_loop trig saat1 saat2 prev f y z = z).
    { induction f as [|f IHf]; intros y; cbn [sow_loop]; [reflexivity|]. rewrite auto_sow_keeps by lia. apply IHf. }
    rewrite Hk. cbn zeta. lia.
Qed.

(* ------------------------------------------------------------------------------------------ *)
(* automatic harvest                                                                           *)

Lemma auto_harvest_rule z e2 trig e' e2' :
  auto_harvest z 0 e2 trig = (e', e2') -> e' <> 0 ->
  (trig = true /\ e' = z /\ e2' = z) \/ (trig = false /\ z = e2 - 1 /\ e' = e2 /\ e2' = e2).
Proof.
  unfold auto_harvest. cbn [Z.eqb]. destruct trig.
  - destruct (z =? 0) eqn:Ez; [apply Z.eqb_eq in Ez; subst z|]; rewrite ?andb_false_r, ?andb_true_r.
    + destruct (0 =? 0 - 1) eqn:E; [apply Z.eqb_eq in E; lia|]. intros [= <- <-]. congruence.
    + intros [= <- <-] _. left. auto.
  - cbn [Z.eqb]. rewrite andb_true_r. destruct (z =? e2 - 1) eqn:E; [apply Z.eqb_eq in E|]; intros [= <- <-] H; [|congruence].
    right. repeat split; lia.
Qed.

Lemma auto_harvest_keeps z e e2 trig : e <> 0 -> auto_harvest z e e2 trig = (e, e2).
Proof. intros H. unfold auto_harvest. assert (e =? 0 = false) as -> by now apply Z.eqb_neq. reflexivity. Qed.

(* from a day before the latest harvest date through the day before it: the harvest date is fixed,
   not before that day and not after the configured latest date *)
Lemma harvest_loop_latest trig : forall fuel z e2,
  0 < z -> z <= e2 - 1 -> e2 - 1 < z + Z.of_nat fuel ->
  let '(e, e2') := harvest_loop trig fuel z 0 e2 in
  z <= e <= e2 /\ e2' = (if e <? e2 then e else e2) /\ e <> 0.
Proof.
  induction fuel as [|fuel IH]; intros z e2 H0 H1 H2; [lia|].
  cbn [harvest_loop]. destruct (auto_harvest z 0 e2 (trig z)) as [e e2'] eqn:A.
  assert (Hk : forall f y a b, a <> 0 -> harvest_loop trig f y a b = (a, b)).
  { induction f as [|f IHf]; intros y a b Ha; cbn [harvest_loop]; [reflexivity|]. rewrite auto_harvest_keeps by exact Ha. now apply IHf. }
  destruct (Z.eq_dec e 0) as [->|E].
  - (* nothing decided today: then today is not the forced day and the trigger was off *)
    assert (e2' = e2 /\ z <> e2 - 1) as [-> Hne].
    { unfold auto_harvest in A. cbn [Z.eqb] in A. destruct (trig z).
      - destruct (z =? 0) eqn:Ez; [apply Z.eqb_eq in Ez; lia|]. rewrite andb_false_r in A. inversion A. lia.
      - cbn [Z.eqb] in A. rewrite andb_true_r in A. destruct (z =? e2 - 1) eqn:Ee; inversion A; subst; [lia|].
        apply Z.eqb_neq in Ee. auto. }
    specialize (IH (z + 1) e2 ltac:(lia) ltac:(lia) ltac:(lia)).
    destruct (harvest_loop trig fuel (z + 1) 0 e2) as [e' e2'']. lia.
  - rewrite Hk by exact E.
    destruct (auto_harvest_rule z e2 (trig z) e e2' A E) as [(_ & -> & ->)|(_ & Hz & -> & ->)].
    + assert (z <? e2 = true) as -> by (apply Z.ltb_lt; lia). lia.
    + rewrite Z.ltb_irrefl. lia.
Qed.

Lemma move_next_sowing_rule z h s s2 : let '(s', s2') := move_next_sowing z h s s2 in
  (0 < s < z -> s' = h + 4 /\ s2' = h + 4) /\ (~ (0 < s < z) -> s' = s /\ s2' = s2).
Proof.
  unfold move_next_sowing. destruct (0 <? s) eqn:A; destruct (s <? z) eqn:C; cbn [andb];
    try apply Z.ltb_lt in A; try apply Z.ltb_lt in C; try apply Z.ltb_ge in A; try apply Z.ltb_ge in C; split; intros; lia.
Qed.

(* ------------------------------------------------------------------------------------------ *)
(* automatic irrigation and automatic N (over the reals)                                       *)

Section AutoR.
  Local Open Scope R_scope.

  Lemma auto_irr_rule (z saat : Z) (intwick irrst1 irrst2 : R) trig (defzsum irrmax amount : R) :
    auto_irr z saat intwick irrst1 irrst2 trig defzsum irrmax = Some amount ->
    (0 < saat < z)%Z /\ irrst1 <= intwick < irrst2 + 1 /\ trig = true /\
    amount = Rmin (defzsum * (9 / 10)) irrmax /\ amount <= irrmax /\
    (0 <= defzsum -> 0 <= irrmax -> 0 <= amount).
  Proof.
    unfold auto_irr. cbn.
    destruct (0 <? saat)%Z eqn:A; [apply Z.ltb_lt in A | discriminate].
    destruct (saat <? z)%Z eqn:C; [apply Z.ltb_lt in C | discriminate]. cbn [andb].
    destruct (RI.leb_spec irrst1 intwick) as [D|D]; [|discriminate].
    destruct (RI.ltb_spec intwick (irrst2 + 1)) as [F|F]; [|discriminate].
    destruct trig; [|discriminate]. cbn [andb]. intros [= <-].
    unfold dec. cbn. replace (10 ^ Z.of_nat 1)%Z with 10%Z by reflexivity.
    repeat split; try lia; try lra.
    - apply Rmin_r.
    - intros H1 H2. apply Rmin_glb; lra.
  Qed.

  Lemma auto_irr_outside (z saat : Z) (intwick irrst1 irrst2 : R) trig (defzsum irrmax : R) :
    (~ (0 < saat < z)%Z \/ intwick < irrst1 \/ irrst2 + 1 <= intwick \/ trig = false) ->
    auto_irr z saat intwick irrst1 irrst2 trig defzsum irrmax = None.
  Proof.
    intros H. destruct (auto_irr z saat intwick irrst1 irrst2 trig defzsum irrmax) eqn:E; [|reflexivity].
    apply auto_irr_rule in E. destruct E as (E1 & E2 & E3 & _). destruct H as [H|[H|[H|H]]]; try lia; try lra. congruence.
  Qed.

  Lemma auto_n_nonneg (ndem nmin : R) : 0 <= auto_n ndem nmin /\ auto_n ndem nmin = Rmax (ndem - nmin) 0.
  Proof. unfold auto_n; cbn. split; [apply Rmax_r | reflexivity]. Qed.
End AutoR.

(* ------------------------------------------------------------------------------------------ *)
(* packaged statements for Prop_C10.v / Prop_C16.v                                             *)

Lemma rot_fixed_dates (saat ernte ernte2 : Z -> Z) (B : Z) (l : list (Z * Z)) (fuel : nat) :
  0 < B -> holds saat ernte ernte2 0 ((0, B) :: l) -> chain B l ->
  rot_run saat ernte ernte2 fuel B 0 = rot_expected (B + Z.of_nat fuel - 1) 0 true ((0, B) :: l).
Proof.
  intros HB Hh Hc. apply rot_run_closed; try lia; auto. repeat split; try lia. exact Hc.
Qed.

(* rotation order: harvests (hence crop records) come in the order of the rotation entries, each
   for its own entry on its own harvest date; sowing k on its own sowing date *)
Lemma rot_order (saat ernte ernte2 : Z -> Z) (B : Z) (l : list (Z * Z)) (fuel : nat) :
  0 < B -> holds saat ernte ernte2 0 ((0, B) :: l) -> chain B l ->
  let evs := rot_run saat ernte ernte2 fuel B 0 in
  StronglySorted Z.lt (flat_map (fun e => match e with (_, Harv, j) => [j] | _ => [] end) evs) /\
  (forall z kind j, In (z, kind, j) evs ->
     z <= B + Z.of_nat fuel - 1 /\ 0 <= j <= Z.of_nat (length l) /\
     z = (match kind with Sow => fst | Harv => snd end) (nth (Z.to_nat j) ((0, B) :: l) (0, 0))).
Proof.
  intros HB Hh Hc. cbn zeta. rewrite (rot_fixed_dates _ _ _ _ _ _ HB Hh Hc). split.
  - apply (rot_expected_harvest_order saat ernte ernte2).
  - intros z kind j Hin. apply (rot_expected_In saat ernte ernte2) in Hin. cbn [length] in Hin.
    rewrite Z.sub_0_r in Hin. destruct Hin as (H1 & H2 & H3). repeat split; try lia; try exact H3.
Qed.

(* crop records carry FRUCHT[k] and the harvest year of entry k, k = 1, 2, ... increasing *)
Lemma crop_records_spec frucht year : forall evs k c y,
  In (k, c, y) (crop_records frucht year evs) ->
  1 <= k /\ c = frucht k /\ exists z, In (z, Harv, k) evs /\ y = year z.
Proof.
  induction evs as [|[[z kind] j] r IH]; intros k c y; cbn [crop_records flat_map]; [cbn; tauto|].
  intros Hin. apply in_app_or in Hin. destruct Hin as [Hin|Hin].
  - destruct kind; [cbn in Hin; tauto|]. destruct (1 <=? j) eqn:E; [apply Z.leb_le in E | cbn in Hin; tauto].
    destruct Hin as [Hin|[]]. inversion Hin; subst. repeat split; try lia. exists z. split; [now left | reflexivity].
  - destruct (IH k c y Hin) as (H1 & H2 & z' & H3 & H4). repeat split; auto. exists z'. split; [now right | exact H4].
Qed.

(* ------------------------------------------------------------------------------------------ *)
(* statements about the state: first day on which the modelled condition holds                 *)

Lemma auto_sow_spec z s1 s2 p b : z <> 0 ->
  auto_sow z 0 s1 s2 p b = if (s1 <=? z) && ((b && (p + 4 <? z)) || (z =? s2)) then z else 0.
Proof.
  intros Hz. unfold auto_sow. cbn [Z.eqb andb].
  destruct (s1 <=? z); cbn [andb]; [|reflexivity].
  destruct (b && (p + 4 <? z)); cbn [orb].
  - assert (z =? 0 = false) as -> by now apply Z.eqb_neq. rewrite andb_false_r. reflexivity.
  - cbn [Z.eqb]. rewrite andb_true_r. destruct (z =? s2); reflexivity.
Qed.

(* the entry is sown on the first day of its window on which the condition holds and that is later than the
   previous harvest + 4, else on the last day of the window — for every condition function (in particular
   [fun y => sow_cond (env y)] for any sequence of daily states) *)
Lemma sow_loop_first trig saat1 saat2 prev : forall fuel z,
  0 < z -> 0 < saat1 -> saat1 <= saat2 -> z <= saat2 -> saat2 < z + Z.of_nat fuel ->
  let s := sow_loop trig saat1 saat2 prev fuel z 0 in
  let lo := Z.max z saat1 in
  lo <= s <= saat2 /\
  (forall y, lo <= y < s -> ~ (trig y = true /\ prev + 4 < y)) /\
  (s < saat2 -> trig s = true /\ prev + 4 < s).
Proof.
  induction fuel as [|fuel IH]; intros z Hz H0 H1 H2 H3; [lia|].
  cbn [sow_loop]. rewrite auto_sow_spec by lia.
  assert (Hk : forall f y v, v <> 0 -> sow_loop trig saat1 saat2 prev f y v = v).
  { induction f as [|f IHf]; intros y v Hv; cbn [sow_loop]; [reflexivity|]. rewrite auto_sow_keeps by exact Hv. now apply IHf. }
  destruct (saat1 <=? z) eqn:E1; [apply Z.leb_le in E1 | apply Z.leb_gt in E1]; cbn [andb].
  - destruct (trig z && (prev + 4 <? z)) eqn:E2; cbn [orb].
    + rewrite Hk by lia. apply andb_true_iff in E2 as [Et Ep]. apply Z.ltb_lt in Ep. cbn zeta.
      repeat split; try lia; auto; try (intros y Hy; lia).
    + destruct (z =? saat2) eqn:E3; [apply Z.eqb_eq in E3 | apply Z.eqb_neq in E3].
      * rewrite Hk by lia. cbn zeta. subst z. repeat split; try lia; try (intros y Hy; lia).
      * specialize (IH (z + 1) ltac:(lia) H0 H1 ltac:(lia) ltac:(lia)). cbn zeta in IH |- *.
        destruct IH as (I1 & I2 & I3). split; [lia|]. split; [|intros Hs; apply I3; lia].
        intros y Hy. destruct (Z.eq_dec y z) as [->|Hne].
        -- intros [Ht Hp]. rewrite Ht in E2. cbn [andb] in E2. apply Z.ltb_ge in E2. lia.
        -- apply I2. lia.
  - specialize (IH (z + 1) ltac:(lia) H0 H1 ltac:(lia) ltac:(lia)). cbn zeta in IH |- *.
    destruct IH as (I1 & I2 & I3). split; [lia|]. split; [|intros Hs; apply I3; lia].
    intros y Hy. apply I2. lia.
Qed.

Lemma auto_harvest_spec z e2 b : z <> 0 ->
  auto_harvest z 0 e2 b = if b then (z, z) else if z =? e2 - 1 then (z + 1, e2) else (0, e2).
Proof.
  intros Hz. unfold auto_harvest. cbn [Z.eqb]. destruct b.
  - assert (z =? 0 = false) as -> by now apply Z.eqb_neq. now rewrite andb_false_r.
  - cbn [Z.eqb]. rewrite andb_true_r. reflexivity.
Qed.

(* the harvest date is the first day (from the day the test starts) on which the condition holds, else the
   configured latest date *)
Lemma harvest_loop_first trig : forall fuel z e2,
  0 < z -> z <= e2 - 1 -> e2 - 1 < z + Z.of_nat fuel ->
  let '(e, e2') := harvest_loop trig fuel z 0 e2 in
  z <= e <= e2 /\ (forall y, z <= y < e -> y <= e2 - 1 -> trig y = false) /\ (e < e2 -> trig e = true) /\
  e2' = (if e <? e2 then e else e2).
Proof.
  induction fuel as [|fuel IH]; intros z e2 H0 H1 H2; [lia|].
  cbn [harvest_loop]. rewrite auto_harvest_spec by lia.
  assert (Hk : forall f y a b, a <> 0 -> harvest_loop trig f y a b = (a, b)).
  { induction f as [|f IHf]; intros y a b Ha; cbn [harvest_loop]; [reflexivity|]. rewrite auto_harvest_keeps by exact Ha. now apply IHf. }
  destruct (trig z) eqn:Et.
  - rewrite Hk by lia. assert (z <? e2 = true) as -> by (apply Z.ltb_lt; lia).
    repeat split; try lia; auto; try (intros y Hy; lia).
  - destruct (z =? e2 - 1) eqn:E; [apply Z.eqb_eq in E | apply Z.eqb_neq in E].
    + rewrite Hk by lia. replace (z + 1) with e2 by lia. rewrite Z.ltb_irrefl.
      repeat split; try lia. intros y Hy Hy2. assert (y = z) by lia. now subst.
    + specialize (IH (z + 1) e2 ltac:(lia) ltac:(lia) ltac:(lia)).
      destruct (harvest_loop trig fuel (z + 1) 0 e2) as [e e2'].
      destruct IH as (I1 & I2 & I3 & I4). split; [lia|]. split; [|split; [exact I3 | exact I4]].
      intros y Hy Hy2. destruct (Z.eq_dec y z) as [->|Hne]; [exact Et | apply I2; lia].
Qed.

(* ------------------------------------------------------------------------------------------ *)
(* irrigation deficit, automatic N doses, organic fertiliser (over the reals)                    *)

Lemma in_firstn {A} (x : A) : forall n l, In x (firstn n l) -> In x l.
Proof. induction n as [|n IH]; intros [|y l]; cbn; try tauto. intros [->|H]; auto. Qed.

Section TriggersR.
  Local Open Scope R_scope.

  (* with field capacity above the wilting point in every layer, both sums stay non-negative *)
  Lemma irr_sums_nonneg : forall (ls : list (R * R * R)) first rdz acc,
    (forall wg w wmin, In (wg, w, wmin) ls -> wmin < w) ->
    0 <= fst acc -> 0 <= snd acc ->
    0 <= fst (irr_sums first rdz ls acc) /\ 0 <= snd (irr_sums first rdz ls acc).
  Proof.
    induction ls as [|[[wg w] wmin] r IH]; intros first rdz acc Hl Ha Hb; cbn [irr_sums]; [tauto|].
    assert (Hw : wmin < w) by (apply (Hl wg); now left).
    set (nfk0 := if first then _ else _). set (defz0 := if first then _ else _).
    assert (Hd : nfk0 <= 1 -> 0 <= defz0).
    { unfold nfk0, defz0. cbn. destruct first; intros H.
      - apply (Rmult_le_compat_r (w - wmin)) in H; [|lra]. unfold Rdiv in H. rewrite Rmult_assoc, Rinv_l in H by lra. lra.
      - apply (Rmult_le_compat_r (w - wmin)) in H; [|lra]. unfold Rdiv in H. rewrite Rmult_assoc, Rinv_l in H by lra. lra. }
    cbn [ltb RNum zero one] in *.
    destruct (RI.ltb_spec nfk0 0) as [H0|H0].
    - destruct (RI.ltb_spec 1 0) as [H1|H1]; [lra|]. apply IH; cbn [fst snd add RNum]; try lra;
        try (intros; eapply Hl; right; eassumption);
        try (apply Rplus_le_le_0_compat; [lra|]; apply Hd; lra).
    - destruct (RI.ltb_spec 1 nfk0) as [H1|H1]; apply IH; cbn [fst snd add RNum]; try lra;
        try (intros; eapply Hl; right; eassumption);
        try (apply Rplus_le_le_0_compat; [lra|]; apply Hd; lra).
  Qed.

  Lemma irr_state_nonneg (e : irr_env R) :
    (forall wg w wmin, In (wg, w, wmin) (ie_layers e) -> wmin < w) -> 0 <= snd (irr_state e).
  Proof.
    intros H. unfold irr_state.
    match goal with |- context [irr_sums ?a ?b ?c ?d] =>
      pose proof (irr_sums_nonneg c a b d) as P; destruct (irr_sums a b c d) as [x y] end.
    cbn [fst snd] in *. apply P; cbn; try lra.
    intros wg w wmin Hin. apply (H wg). eapply in_firstn. exact Hin.
  Qed.

  (* automatic irrigation as a function of the state: applied iff after sowing, inside the stage window, the mean
     plant-available water of the irrigation depth is below IRRLOW and the two-day forecast is dry; the amount is
     90 % of the modelled deficit clipped to IRRMAX, never negative *)
  Lemma auto_irr_state_rule (z saat : Z) (intwick irrst1 irrst2 irrmax : R) (e : irr_env R) amount :
    auto_irr_state z saat intwick irrst1 irrst2 irrmax e = Some amount ->
    (0 < saat < z)%Z /\ irrst1 <= intwick < irrst2 + 1 /\
    fst (irr_state e) < ie_irrlow e /\ ie_rain1 e + ie_rain2 e < 9 / 10 /\
    amount = Rmin (snd (irr_state e) * (9 / 10)) irrmax /\ amount <= irrmax /\
    ((forall wg w wmin, In (wg, w, wmin) (ie_layers e) -> wmin < w) -> 0 <= irrmax -> 0 <= amount).
  Proof.
    unfold auto_irr_state. intros H. apply auto_irr_rule in H. destruct H as (H1 & H2 & H3 & H4 & H5 & H6).
    unfold irr_cond in H3. apply andb_true_iff in H3 as [Ha Hb].
    cbn [ltb RNum] in Ha, Hb.
    destruct (RI.ltb_spec (fst (irr_state e)) (ie_irrlow e)) as [Ha'|]; [|discriminate].
    unfold dec in Hb. cbn in Hb. replace (10 ^ Z.of_nat 1)%Z with 10%Z in Hb by reflexivity.
    destruct (RI.ltb_spec (ie_rain1 e + ie_rain2 e) (9 / 10)) as [Hb'|]; [|discriminate].
    repeat split; try lia; try lra; auto.
    intros Hl Hm. apply H6; [now apply irr_state_nonneg | exact Hm].
  Qed.

  Lemma auto_irr_state_none (z saat : Z) (intwick irrst1 irrst2 irrmax : R) (e : irr_env R) :
    (~ (0 < saat < z)%Z \/ intwick < irrst1 \/ irrst2 + 1 <= intwick \/ irr_cond e = false) ->
    auto_irr_state z saat intwick irrst1 irrst2 irrmax e = None.
  Proof. intros H. apply auto_irr_outside. exact H. Qed.
End TriggersR.

(* ------------------------------------------------------------------------------------------ *)
(* automatic fertilisation: organic payload, mineral doses (over the reals)                      *)

Section AutoFertR.
  Local Open Scope R_scope.

  Definition orgh_fires (e : af_env R) : bool := ae_prev_h e && (ae_z e =? ae_ztdg_prev e)%Z.
  Definition orgs_date (e : af_env R) (s : af_state R) : Z :=
    if (ae_z e =? ae_saat e)%Z then (ae_z e + ae_orgdoy e)%Z else as_ztdg s.
  Definition orgs_fires (e : af_env R) (s : af_state R) : bool :=
    (0 <? ae_saat e)%Z && (ae_saat e <=? ae_z e)%Z && ae_cur_s e && (ae_z e =? orgs_date e s)%Z.

  (* pools (NFOS[0], NAOS[0], C1[0]) and the ZTDG slot are what the organic steps touch; the mineral steps leave them *)
  Definition same_pools (s s' : af_state R) : Prop :=
    as_nfos0 s' = as_nfos0 s /\ as_naos0 s' = as_naos0 s /\ as_c10 s' = as_c10 s /\ as_ztdg s' = as_ztdg s.

  Lemma af_orgh_spec e s :
    let '(s', ev) := af_orgh e s in
    as_nfos0 s' = as_nfos0 s + (if orgh_fires e then o_nsas (ae_pay_prev e) else 0) /\
    as_naos0 s' = as_naos0 s + (if orgh_fires e then o_nlas (ae_pay_prev e) else 0) /\
    as_dsumm s' = as_dsumm s + (if orgh_fires e then o_ndir (ae_pay_prev e) else 0) /\
    as_c10 s' = as_c10 s /\ as_ztdg s' = as_ztdg s /\ as_nfertsim s' = as_nfertsim s /\
    ev = (if orgh_fires e then [(0%Z, o_ndir (ae_pay_prev e))] else []).
  Proof. unfold af_orgh, orgh_fires. destruct (ae_prev_h e && (ae_z e =? ae_ztdg_prev e)%Z); cbn; repeat split; lra. Qed.

  Lemma af_orgs_spec e s :
    let fires := ae_cur_s e && (ae_z e =? orgs_date e s)%Z in
    let '(s', ev) := af_orgs e s in
    as_nfos0 s' = as_nfos0 s + (if fires then o_nsas (ae_pay_cur e) else 0) /\
    as_naos0 s' = as_naos0 s + (if fires then o_nlas (ae_pay_cur e) else 0) /\
    as_c10 s' = (if fires then Rmax 0 (as_c10 s + o_ndir (ae_pay_cur e)) else as_c10 s) /\
    as_dsumm s' = as_dsumm s /\ as_nfertsim s' = as_nfertsim s /\
    as_ztdg s' = (if ae_cur_s e then orgs_date e s else as_ztdg s) /\
    ev = (if fires then [(1%Z, o_ndir (ae_pay_cur e))] else []).
  Proof.
    unfold af_orgs, orgs_date. destruct (ae_cur_s e); cbn [andb]; [|cbn; repeat split; lra].
    destruct (ae_z e =? (if (ae_z e =? ae_saat e)%Z then (ae_z e + ae_orgdoy e)%Z else as_ztdg s))%Z; cbn; repeat split; try lra.
    destruct (RI.ltb_spec (as_c10 s + o_ndir (ae_pay_cur e)) 0); [rewrite Rmax_left by lra | rewrite Rmax_right by lra]; reflexivity.
  Qed.

  Lemma dose_pools s d : same_pools s (dose s d).
  Proof. unfold same_pools, dose; cbn; auto. Qed.
  Lemma set_ndoy_pools w s v : same_pools s (set_ndoy w s v).
  Proof. unfold same_pools, set_ndoy; cbn; auto. Qed.
  Lemma same_pools_trans a b c : same_pools a b -> same_pools b c -> same_pools a c.
  Proof. unfold same_pools. intros (A1 & A2 & A3 & A4) (B1 & B2 & B3 & B4). repeat split; congruence. Qed.
  Lemma same_pools_refl a : same_pools a a.
  Proof. unfold same_pools; auto. Qed.

  Lemma af_min1_spec e d s :
    let '(s', ev) := af_min1 e d s in
    same_pools s s' /\ (ev = [] /\ as_nfertsim s' = as_nfertsim s /\ as_dsumm s' = as_dsumm s \/
                        ev = [(2%Z, d)] /\ as_nfertsim s' = as_nfertsim s + d /\ as_dsumm s' = as_dsumm s + d).
  Proof.
    unfold af_min1.
    repeat match goal with |- context [if ?c then _ else _] => destruct c end;
      (split; [first [apply same_pools_refl | apply dose_pools | eapply same_pools_trans; [apply dose_pools | apply set_ndoy_pools]] |]);
      cbn; auto.
  Qed.

  Lemma af_minn_spec w e ndoy d s :
    let '(s', ev) := af_minn w e ndoy d s in
    same_pools s s' /\ (ev = [] /\ as_nfertsim s' = as_nfertsim s /\ as_dsumm s' = as_dsumm s \/
                        ev = [((w + 1)%Z, d)] /\ as_nfertsim s' = as_nfertsim s + d /\ as_dsumm s' = as_dsumm s + d).
  Proof.
    unfold af_minn.
    repeat match goal with |- context [if ?c then _ else _] => destruct c end;
      (split; [first [apply same_pools_refl | apply dose_pools | eapply same_pools_trans; [apply dose_pools | apply set_ndoy_pools]] |]);
      cbn; auto.
  Qed.

  (* payload of the organic applications: the fast/slow organic pools of the top layer receive exactly the split of
     the entry's fertiliser, when (and only when) the application is due *)
  Lemma autofert_org_payload (e : af_env R) (s : af_state R) :
    let s' := fst (autofert_day e s) in
    as_nfos0 s' = as_nfos0 s + (if orgh_fires e then o_nsas (ae_pay_prev e) else 0)
                             + (if orgs_fires e s then o_nsas (ae_pay_cur e) else 0) /\
    as_naos0 s' = as_naos0 s + (if orgh_fires e then o_nlas (ae_pay_prev e) else 0)
                             + (if orgs_fires e s then o_nlas (ae_pay_cur e) else 0) /\
    as_c10 s' = (if orgs_fires e s then Rmax 0 (as_c10 s + o_ndir (ae_pay_cur e)) else as_c10 s).
  Proof.
    unfold autofert_day, orgs_fires.
    pose proof (af_orgh_spec e s) as H0. destruct (af_orgh e s) as [s0 ev0].
    destruct H0 as (A1 & A2 & _ & A3 & A4 & _).
    destruct ((0 <? ae_saat e)%Z && (ae_saat e <=? ae_z e)%Z) eqn:G; cbn [andb fst].
    - pose proof (af_orgs_spec e s0) as H1. destruct (af_orgs e s0) as [s1 ev1]. cbn zeta in H1.
      destruct H1 as (B1 & B2 & B3 & _).
      match goal with |- context [af_min1 e ?d s1] => pose proof (af_min1_spec e d s1) as H2; destruct (af_min1 e d s1) as [s2 ev2] end.
      destruct H2 as [(C1 & C2 & C3 & _) _].
      match goal with |- context [af_minn 2 e ?n ?d s2] => pose proof (af_minn_spec 2 e n d s2) as H3; destruct (af_minn 2 e n d s2) as [s3 ev3] end.
      destruct H3 as [(D1 & D2 & D3 & _) _].
      match goal with |- context [af_minn 3 e ?n ?d s3] => pose proof (af_minn_spec 3 e n d s3) as H4; destruct (af_minn 3 e n d s3) as [s4 ev4] end.
      destruct H4 as [(E1 & E2 & E3 & _) _]. cbn [fst].
      unfold orgs_date in *. rewrite A4 in B1, B2, B3. rewrite A3 in B3.
      rewrite E1, D1, C1, B1, A1, E2, D2, C2, B2, A2, E3, D3, C3, B3.
      destruct (ae_cur_s e && (ae_z e =? (if (ae_z e =? ae_saat e)%Z then (ae_z e + ae_orgdoy e)%Z else as_ztdg s))%Z); repeat split; lra.
    - rewrite A1, A2, A3. repeat split; lra.
  Qed.

  Lemma auto_n_R (ndem nmin : R) : 0 <= auto_n ndem nmin /\ auto_n ndem nmin = Rmax (ndem - nmin) 0.
  Proof. unfold auto_n; cbn. split; [apply Rmax_r | reflexivity]. Qed.

  (* every mineral dose of the call is max(0, demand - Nmin) of the depth it is compared with (upper 3 dm for the
     first, rooted depth up to 9 dm for the second and third application), hence >= 0; the organic events carry the
     directly available N of the fertiliser; NFERTSIM grows by exactly the sum of the mineral doses *)
  Lemma autofert_doses (e : af_env R) (s : af_state R) : forall k a,
    In (k, a) (snd (autofert_day e s)) ->
    (k = 0%Z /\ a = o_ndir (ae_pay_prev e)) \/ (k = 1%Z /\ a = o_ndir (ae_pay_cur e)) \/
    (0 <= a /\ exists nmin, a = Rmax ((if (k =? 2)%Z then ae_ndem1 e else if (k =? 3)%Z then ae_ndem2 e else ae_ndem3 e) - nmin) 0 /\
                           (2 <= k <= 4)%Z).
  Proof.
    intros k a. unfold autofert_day.
    pose proof (af_orgh_spec e s) as H0. destruct (af_orgh e s) as [s0 ev0].
    destruct H0 as (_ & _ & _ & _ & _ & _ & A).
    assert (Hev0 : In (k, a) ev0 -> k = 0%Z /\ a = o_ndir (ae_pay_prev e)).
    { rewrite A. destruct (orgh_fires e); cbn; [intros [H|[]]; inversion H; auto | tauto]. }
    destruct ((0 <? ae_saat e)%Z && (ae_saat e <=? ae_z e)%Z); cbn [snd]; [|intros H; left; auto].
    pose proof (af_orgs_spec e s0) as H1. destruct (af_orgs e s0) as [s1 ev1]. cbn zeta in H1.
    destruct H1 as (_ & _ & _ & _ & _ & _ & B).
    match goal with |- context [af_min1 e ?d s1] => pose proof (af_min1_spec e d s1) as H2; pose proof (auto_n_R (ae_ndem1 e) (sum_first 3 (match ae_c1 e with [] => [] | _ :: r => as_c10 s1 :: r end))) as N1; destruct (af_min1 e d s1) as [s2 ev2] end.
    destruct H2 as [_ C].
    match goal with |- context [af_minn 2 e ?n ?d s2] => pose proof (af_minn_spec 2 e n d s2) as H3; destruct (af_minn 2 e n d s2) as [s3 ev3] end.
    destruct H3 as [_ D].
    match goal with |- context [af_minn 3 e ?n ?d s3] => pose proof (af_minn_spec 3 e n d s3) as H4; destruct (af_minn 3 e n d s3) as [s4 ev4] end.
    destruct H4 as [_ E]. cbn [snd].
    intros Hin. repeat (apply in_app_or in Hin; destruct Hin as [Hin|Hin]).
    - left; auto.
    - right; left. rewrite B in Hin. destruct (ae_cur_s e && _); cbn in Hin; [destruct Hin as [H|[]]; inversion H; auto | tauto].
    - right; right. destruct C as [(-> & _)|(-> & _)]; cbn in Hin; [tauto|]. destruct Hin as [H|[]]. inversion H; subst.
      split; [apply N1|]. eexists. split; [reflexivity | lia].
    - right; right. destruct D as [(-> & _)|(-> & _)]; cbn in Hin; [tauto|]. destruct Hin as [H|[]]. inversion H; subst.
      split; [apply auto_n_R|]. eexists. split; [reflexivity | lia].
    - right; right. destruct E as [(-> & _)|(-> & _)]; cbn in Hin; [tauto|]. destruct Hin as [H|[]]. inversion H; subst.
      split; [apply auto_n_R|]. eexists. split; [reflexivity | lia].
  Qed.
End AutoFertR.

(* organic fertiliser "H": applied exactly once, ORGDOY days after the harvest — when ORGDOY >= 1 and the next
   entry is still current on that day; with ORGDOY = 0 the date is the harvest day itself, which has passed *)
Lemma orgh_days_closed t : forall fuel z,
  orgh_days t fuel z = if (z <=? t) && (t <? z + Z.of_nat fuel) then [t] else [].
Proof.
  induction fuel as [|fuel IH]; intros z; cbn [orgh_days].
  - destruct (z <=? t) eqn:A; destruct (t <? z + Z.of_nat 0) eqn:B; cbn [andb]; try reflexivity.
    apply Z.leb_le in A. apply Z.ltb_lt in B. lia.
  - rewrite IH. destruct (z =? t) eqn:E; [apply Z.eqb_eq in E | apply Z.eqb_neq in E].
    + subst. assert (t <=? t = true) as -> by (apply Z.leb_le; lia).
      assert (t <? t + Z.of_nat (S fuel) = true) as -> by (apply Z.ltb_lt; lia).
      assert (t + 1 <=? t = false) as -> by (apply Z.leb_gt; lia). reflexivity.
    + cbn [app]. destruct (z <=? t) eqn:A; destruct (z + 1 <=? t) eqn:A';
        destruct (t <? z + 1 + Z.of_nat fuel) eqn:B; destruct (t <? z + Z.of_nat (S fuel)) eqn:B'; cbn [andb]; try reflexivity;
        try apply Z.leb_le in A; try apply Z.leb_gt in A; try apply Z.leb_le in A'; try apply Z.leb_gt in A';
        try apply Z.ltb_lt in B; try apply Z.ltb_ge in B; try apply Z.ltb_lt in B'; try apply Z.ltb_ge in B'; lia.
Qed.

Lemma orgh_exactly_once (h d : Z) (fuel : nat) :
  orgh_days (h + d) fuel (h + 1) = if (1 <=? d) && (d <=? Z.of_nat fuel) then [h + d] else [].
Proof.
  rewrite orgh_days_closed.
  destruct (1 <=? d) eqn:A; destruct (d <=? Z.of_nat fuel) eqn:B;
    destruct (h + 1 <=? h + d) eqn:A'; destruct (h + d <? h + 1 + Z.of_nat fuel) eqn:B'; cbn [andb]; try reflexivity;
    try apply Z.leb_le in A; try apply Z.leb_gt in A; try apply Z.leb_le in B; try apply Z.leb_gt in B;
    try apply Z.leb_le in A'; try apply Z.leb_gt in A'; try apply Z.ltb_lt in B'; try apply Z.ltb_ge in B'; lia.
Qed.

(* the crop-skip branch: the cursor passes over the next entry exactly when its sowing window has already ended on
   the harvest day, automatic sowing is on and the harvested entry carries organic fertiliser "H" *)
Lemma harvest_cursor_rule z k org_h orgdoy saat2 automan zt :
  let '(k', zt', skipped) := harvest_cursor z k org_h orgdoy saat2 automan zt in
  zt' = (if org_h k then z + orgdoy k else zt) /\
  (skipped = true <-> (saat2 (k + 1) <= z /\ automan = true /\ org_h k = true)) /\
  k' = (if skipped then k + 2 else k + 1).
Proof.
  unfold harvest_cursor. replace (k + 1 - 1) with k by lia.
  destruct (saat2 (k + 1) <=? z) eqn:A; destruct automan; destruct (org_h k) eqn:C; cbn [andb];
    try apply Z.leb_le in A; try apply Z.leb_gt in A;
    (split; [reflexivity|]; split; [|lia]); split; intros H; try discriminate; try tauto;
    destruct H as (H1 & H2 & H3); try discriminate; lia.
Qed.

(* packaged: the first-day theorems instantiated with the modelled conditions on a sequence of daily states *)
Lemma sow_first_day_state (env : Z -> sow_env R) saat1 saat2 prev : forall fuel z,
  0 < z -> 0 < saat1 -> saat1 <= saat2 -> z <= saat2 -> saat2 < z + Z.of_nat fuel ->
  let s := sow_loop (fun y => sow_cond (env y)) saat1 saat2 prev fuel z 0 in
  let lo := Z.max z saat1 in
  lo <= s <= saat2 /\
  (forall y, lo <= y < s -> ~ (sow_cond (env y) = true /\ prev + 4 < y)) /\
  (s < saat2 -> sow_cond (env s) = true /\ prev + 4 < s).
Proof. exact (sow_loop_first (fun y => sow_cond (env y)) saat1 saat2 prev). Qed.

Lemma harvest_first_day_state (env : Z -> harv_env R) : forall fuel z e2,
  0 < z -> z <= e2 - 1 -> e2 - 1 < z + Z.of_nat fuel ->
  let '(e, e2') := harvest_loop (fun y => harvest_cond (env y)) fuel z 0 e2 in
  z <= e <= e2 /\ (forall y, z <= y < e -> y <= e2 - 1 -> harvest_cond (env y) = false) /\
  (e < e2 -> harvest_cond (env e) = true) /\ e2' = (if e <? e2 then e else e2).
Proof. exact (harvest_loop_first (fun y => harvest_cond (env y))). Qed.
