(* RotationProofs.v — lemmas about RotationModel (property C16, sowing/harvest part of C10). *)
From Coq Require Import ZArith List Bool Lia Reals Lra Sorted.
From Hermes Require Import Num RotationModel.
Import ListNotations.
Open Scope Z_scope.

(* ------------------------------------------------------------------------------------------ *)
(* fixed dates: closed form of the rotation cursor                                             *)

Section Fixed.
  Variables saat ernte ernte2 : Z -> Z.

  (* the ideal executor: entries (s, e) from index k on; [sown] says whether entry k is already sown *)
  Fixpoint rot_expected (E k : Z) (sown : bool) (l : list (Z * Z)) : list (Z * rkind * Z) :=
    match l with
    | [] => []
    | (s, e) :: r =>
        (if negb sown && (s <=? E) then [(s, Sow, k)] else []) ++
        (if e <=? E then (e, Harv, k) :: rot_expected E (k + 1) false r else [])
    end.

  (* dates of the remaining entries are strictly increasing: s_k < e_k < s_{k+1} < ... *)
  Fixpoint chain (p : Z) (l : list (Z * Z)) : Prop :=
    match l with [] => True | (s, e) :: r => p < s /\ s < e /\ chain e r end.

  (* the arrays hold the entries l from index k on, zeros after them *)
  Definition holds (k : Z) (l : list (Z * Z)) : Prop :=
    (forall i, (i < length l)%nat ->
       saat (k + Z.of_nat i) = fst (nth i l (0, 0)) /\ ernte (k + Z.of_nat i) = snd (nth i l (0, 0)) /\
       ernte2 (k + Z.of_nat i) = snd (nth i l (0, 0))) /\
    saat (k + Z.of_nat (length l)) = 0 /\ ernte (k + Z.of_nat (length l)) = 0.

  Lemma holds_tail k s e r : holds k ((s, e) :: r) -> holds (k + 1) r.
  Proof.
    intros [H1 H2]. split.
    - intros i Hi. specialize (H1 (S i) ltac:(cbn; lia)). cbn [nth] in H1.
      replace (k + 1 + Z.of_nat i) with (k + Z.of_nat (S i)) by lia. exact H1.
    - cbn [length] in H2. replace (k + 1 + Z.of_nat (length r)) with (k + Z.of_nat (S (length r))) by lia. exact H2.
  Qed.

  Lemma rot_run_closed : forall fuel z k sown l,
    0 < z -> 0 <= k -> 1 <= k \/ sown = true ->
    holds k l ->
    match l with
    | [] => True
    | (s, e) :: r => (if sown then s < z else z <= s) /\ z <= e /\ s < e /\ chain e r
    end ->
    rot_run saat ernte ernte2 fuel z k = rot_expected (z + Z.of_nat fuel - 1) k sown l.
  Proof.
    induction fuel as [|fuel IH]; intros z k sown l Hz Hk0 Hk Hh Hp.
    - cbn [rot_run]. destruct l as [|[s e] r]; cbn [rot_expected]; [reflexivity|].
      destruct Hp as (Hs & He & Hse & _).
      assert (e <=? z + Z.of_nat 0 - 1 = false) as -> by (apply Z.leb_gt; lia).
      destruct sown; cbn [negb andb]; [reflexivity|].
      assert (s <=? z + Z.of_nat 0 - 1 = false) as -> by (apply Z.leb_gt; lia). reflexivity.
    - cbn [rot_run]. unfold rot_day.
      replace (z + Z.of_nat (S fuel) - 1) with (z + 1 + Z.of_nat fuel - 1) by lia.
      destruct l as [|[s e] r].
      + destruct Hh as [_ [Hs0 He0]]. cbn [length] in *. rewrite Z.add_0_r in *.
        rewrite Hs0, He0. assert (z =? 0 = false) as -> by (apply Z.eqb_neq; lia).
        replace (0 <? 0) with false by reflexivity. rewrite !andb_false_r, ?andb_false_l. cbn [app].
        rewrite (IH (z + 1) k sown []); [reflexivity | lia | lia | exact Hk | split; [intros i Hi; cbn in Hi; lia | cbn [length]; rewrite Z.add_0_r; tauto] | exact I].
      + destruct Hp as (Hs & He & Hse & Hc).
        pose proof Hh as [Hh1 _]. specialize (Hh1 O ltac:(cbn; lia)). cbn [nth fst snd] in Hh1. rewrite Z.add_0_r in Hh1.
        destruct Hh1 as (Hsa & Her & He2). rewrite Hsa, Her, He2. clear Hsa Her He2.
        cbn [rot_expected].
        destruct (z =? e) eqn:Ee; [apply Z.eqb_eq in Ee | apply Z.eqb_neq in Ee].
        * (* harvest day: not a sowing day *)
          subst e. assert (z =? s = false) as -> by (apply Z.eqb_neq; lia). rewrite !andb_false_r. cbn [app].
          assert (z <=? z + 1 + Z.of_nat fuel - 1 = true) as -> by (apply Z.leb_le; lia).
          assert (Hsown : sown = true).
          { destruct sown; [reflexivity|]. lia. }
          subst sown. cbn [negb andb app]. f_equal.
          rewrite (IH (z + 1) (k + 1) false r); [reflexivity | lia | lia | left; lia | eapply holds_tail; exact Hh |].
          destruct r as [|[s' e'] r']; [exact I|]. cbn [chain] in Hc. destruct Hc as (C1 & C2 & C3). repeat split; try lia; exact C3.
        * idtac.
          destruct (z =? s) eqn:Es; [apply Z.eqb_eq in Es | apply Z.eqb_neq in Es].
          -- (* sowing day *)
             subst s. assert (sown = false) by (destruct sown; [lia | reflexivity]). subst sown.
             assert (k = 0 -> False) by (intros ->; destruct Hk as [Hk|Hk]; [lia | discriminate]).
             assert (1 <=? k = true) as -> by (apply Z.leb_le; lia).
             assert (0 <? z = true) as -> by (apply Z.ltb_lt; lia).
             assert (z <=? z = true) as -> by (apply Z.leb_le; lia).
             assert (z <=? e = true) as -> by (apply Z.leb_le; lia).
             cbn [andb negb app].
             assert (z <=? z + 1 + Z.of_nat fuel - 1 = true) as -> by (apply Z.leb_le; lia).
             cbn [app]. f_equal.
             rewrite (IH (z + 1) k true ((z, e) :: r)); [| lia | lia | left; lia | exact Hh | repeat split; try lia; exact Hc].
             cbn [rot_expected negb andb app]. reflexivity.
          -- rewrite !andb_false_r. cbn [app].
             rewrite (IH (z + 1) k sown ((s, e) :: r)); [| lia | lia | exact Hk | exact Hh | repeat split; try lia; try exact Hc; destruct sown; lia].
             cbn [rot_expected].
             reflexivity.
  Qed.

  (* facts about the closed form *)
  Lemma rot_expected_In E : forall l k sown z kind j,
    In (z, kind, j) (rot_expected E k sown l) ->
    z <= E /\ k <= j < k + Z.of_nat (length l) /\
    z = (match kind with Sow => fst | Harv => snd end) (nth (Z.to_nat (j - k)) l (0, 0)).
  Proof.
    induction l as [|[s e] r IH]; intros k sown z kind j; cbn [rot_expected]; [cbn; tauto|].
    intros Hin. apply in_app_or in Hin. cbn [length]. destruct Hin as [Hin|Hin].
    - destruct (negb sown && (s <=? E)) eqn:C; [|cbn in Hin; tauto].
      apply andb_true_iff in C as [_ C]. apply Z.leb_le in C.
      destruct Hin as [Hin|[]]. inversion Hin; subst. replace (j - j) with 0 by lia. cbn. lia.
    - destruct (e <=? E) eqn:C; [|cbn in Hin; tauto]. apply Z.leb_le in C.
      destruct Hin as [Hin|Hin].
      + inversion Hin; subst. replace (j - j) with 0 by lia. cbn. lia.
      + apply IH in Hin. destruct Hin as (H1 & H2 & H3). repeat split; try lia.
        replace (Z.to_nat (j - k)) with (S (Z.to_nat (j - (k + 1)))) by lia. exact H3.
  Qed.

  Lemma rot_expected_harvest_order E : forall l k sown,
    StronglySorted Z.lt
      (flat_map (fun e => match e with (_, Harv, j) => [j] | _ => [] end) (rot_expected E k sown l)).
  Proof.
    induction l as [|[s e] r IH]; intros k sown; cbn [rot_expected]; [constructor|].
    rewrite flat_map_app.
    assert (flat_map (fun e0 : Z * rkind * Z => let '(_, y, j) := e0 in match y with Sow => [] | Harv => [j] end)
              (if negb sown && (s <=? E) then [(s, Sow, k)] else []) = []) as ->
      by (destruct (negb sown && (s <=? E)); reflexivity).
    cbn [app]. destruct (e <=? E); [|constructor]. cbn [flat_map app]. constructor; [apply IH|].
    apply Forall_forall. intros j Hj. apply in_flat_map in Hj as ([[z kind] j'] & Hin & Hj).
    destruct kind; cbn in Hj; [tauto|]. destruct Hj as [<-|[]]. apply rot_expected_In in Hin. lia.
  Qed.
End Fixed.

(* ------------------------------------------------------------------------------------------ *)
(* automatic sowing                                                                            *)

Lemma auto_sow_rule z saat1 saat2 prev trig s' :
  auto_sow z 0 saat1 saat2 prev trig = s' -> s' <> 0 ->
  s' = z /\ saat1 <= z /\ (z = saat2 \/ (trig = true /\ prev + 4 < z)).
Proof.
  unfold auto_sow. cbn [Z.eqb andb].
  destruct (saat1 <=? z) eqn:E1; [apply Z.leb_le in E1 | intros <-; congruence].
  destruct trig; cbn [andb].
  - destruct (prev + 4 <? z) eqn:E2; [apply Z.ltb_lt in E2|].
    + destruct (z =? 0) eqn:Ez; [apply Z.eqb_eq in Ez; subst z|]; rewrite ?andb_true_r, ?andb_false_r.
      * destruct (0 =? saat2); intros <-; congruence.
      * intros <- _. auto.
    + cbn [Z.eqb]. rewrite andb_true_r. destruct (z =? saat2) eqn:E3; [apply Z.eqb_eq in E3 | intros <-; congruence].
      intros <- _. auto.
  - cbn [Z.eqb]. rewrite andb_true_r. destruct (z =? saat2) eqn:E3; [apply Z.eqb_eq in E3 | intros <-; congruence].
    intros <- _. auto.
Qed.

Lemma auto_sow_forced saat1 saat2 prev trig : saat1 <= saat2 -> saat2 <> 0 ->
  auto_sow saat2 0 saat1 saat2 prev trig = saat2.
Proof.
  intros H1 H2. unfold auto_sow. cbn [Z.eqb andb].
  assert (saat1 <=? saat2 = true) as -> by now apply Z.leb_le.
  rewrite Z.eqb_refl. destruct (trig && (prev + 4 <? saat2)); cbn [andb].
  - assert (saat2 =? 0 = false) as -> by now apply Z.eqb_neq. reflexivity.
  - reflexivity.
Qed.

Lemma auto_sow_keeps z s saat1 saat2 prev trig : s <> 0 -> auto_sow z s saat1 saat2 prev trig = s.
Proof. intros H. unfold auto_sow. assert (s =? 0 = false) as -> by now apply Z.eqb_neq. reflexivity. Qed.

Lemma auto_sow_not_before z saat1 saat2 prev trig : z < saat1 -> auto_sow z 0 saat1 saat2 prev trig = 0.
Proof. intros H. unfold auto_sow. assert (saat1 <=? z = false) as -> by (apply Z.leb_gt; lia). reflexivity. Qed.

(* running the sowing block from a day not after the window end through the window end: the entry is
   sown inside its window, after the previous harvest + 4 unless forced on the last day *)
Lemma sow_loop_window trig saat1 saat2 prev : forall fuel z,
  0 < saat1 -> saat1 <= saat2 -> z <= saat2 -> saat2 < z + Z.of_nat fuel ->
  let s := sow_loop trig saat1 saat2 prev fuel z 0 in
  saat1 <= s <= saat2 /\ z <= s /\ (s = saat2 \/ prev + 4 < s).
Proof.
  induction fuel as [|fuel IH]; intros z H0 H1 H2 H3; [lia|].
  cbn [sow_loop]. destruct (Z.eq_dec (auto_sow z 0 saat1 saat2 prev (trig z)) 0) as [E|E].
  - rewrite E. destruct (Z.eq_dec z saat2) as [->|Hne].
    + rewrite auto_sow_forced in E by lia. lia.
    + specialize (IH (z + 1) H0 H1 ltac:(lia) ltac:(lia)). cbn zeta in IH. lia.
  - destruct (auto_sow_rule z saat1 saat2 prev (trig z) _ eq_refl E) as (Hs & Hw & Hc).
    rewrite Hs.
    assert (Hk : forall f y, sow_loop trig saat1 saat2 prev f y z = z).
    { induction f as [|f IHf]; intros y; cbn [sow_loop]; [reflexivity|]. rewrite auto_sow_keeps by lia. apply IHf. }
    rewrite Hk. cbn zeta. lia.
Qed.

(* ------------------------------------------------------------------------------------------ *)
(* automatic harvest                                                                           *)

Lemma auto_harvest_rule z e2 trig e' e2' :
  auto_harvest z 0 e2 trig = (e', e2') -> e' <> 0 ->
  (trig = true /\ e' = z /\ e2' = z) \/ (trig = false /\ z = e2 - 1 /\ e' = e2 /\ e2' = e2).
Proof.
  unfold auto_harvest. cbn [Z.eqb]. destruct trig.
  - destruct (z =? 0) eqn:Ez; [apply Z.eqb_eq in Ez; subst z|]; rewrite ?andb_false_r, ?andb_true_r.
    + destruct (0 =? 0 - 1) eqn:E; [apply Z.eqb_eq in E; lia|]. intros [= <- <-]. congruence.
    + intros [= <- <-] _. left. auto.
  - cbn [Z.eqb]. rewrite andb_true_r. destruct (z =? e2 - 1) eqn:E; [apply Z.eqb_eq in E|]; intros [= <- <-] H; [|congruence].
    right. repeat split; lia.
Qed.

Lemma auto_harvest_keeps z e e2 trig : e <> 0 -> auto_harvest z e e2 trig = (e, e2).
Proof. intros H. unfold auto_harvest. assert (e =? 0 = false) as -> by now apply Z.eqb_neq. reflexivity. Qed.

(* from a day before the latest harvest date through the day before it: the harvest date is fixed,
   not before that day and not after the configured latest date *)
Lemma harvest_loop_latest trig : forall fuel z e2,
  0 < z -> z <= e2 - 1 -> e2 - 1 < z + Z.of_nat fuel ->
  let '(e, e2') := harvest_loop trig fuel z 0 e2 in
  z <= e <= e2 /\ e2' = (if e <? e2 then e else e2) /\ e <> 0.
Proof.
  induction fuel as [|fuel IH]; intros z e2 H0 H1 H2; [lia|].
  cbn [harvest_loop]. destruct (auto_harvest z 0 e2 (trig z)) as [e e2'] eqn:A.
  assert (Hk : forall f y a b, a <> 0 -> harvest_loop trig f y a b = (a, b)).
  { induction f as [|f IHf]; intros y a b Ha; cbn [harvest_loop]; [reflexivity|]. rewrite auto_harvest_keeps by exact Ha. now apply IHf. }
  destruct (Z.eq_dec e 0) as [->|E].
  - (* nothing decided today: then today is not the forced day and the trigger was off *)
    assert (e2' = e2 /\ z <> e2 - 1) as [-> Hne].
    { unfold auto_harvest in A. cbn [Z.eqb] in A. destruct (trig z).
      - destruct (z =? 0) eqn:Ez; [apply Z.eqb_eq in Ez; lia|]. rewrite andb_false_r in A. inversion A. lia.
      - cbn [Z.eqb] in A. rewrite andb_true_r in A. destruct (z =? e2 - 1) eqn:Ee; inversion A; subst; [lia|].
        apply Z.eqb_neq in Ee. auto. }
    specialize (IH (z + 1) e2 ltac:(lia) ltac:(lia) ltac:(lia)).
    destruct (harvest_loop trig fuel (z + 1) 0 e2) as [e' e2'']. lia.
  - rewrite Hk by exact E.
    destruct (auto_harvest_rule z e2 (trig z) e e2' A E) as [(_ & -> & ->)|(_ & Hz & -> & ->)].
    + assert (z <? e2 = true) as -> by (apply Z.ltb_lt; lia). lia.
    + rewrite Z.ltb_irrefl. lia.
Qed.

Lemma move_next_sowing_rule z h s s2 : let '(s', s2') := move_next_sowing z h s s2 in
  (0 < s < z -> s' = h + 4 /\ s2' = h + 4) /\ (~ (0 < s < z) -> s' = s /\ s2' = s2).
Proof.
  unfold move_next_sowing. destruct (0 <? s) eqn:A; destruct (s <? z) eqn:C; cbn [andb];
    try apply Z.ltb_lt in A; try apply Z.ltb_lt in C; try apply Z.ltb_ge in A; try apply Z.ltb_ge in C; split; intros; lia.
Qed.

(* ------------------------------------------------------------------------------------------ *)
(* automatic irrigation and automatic N (over the reals)                                       *)

Section AutoR.
  Local Open Scope R_scope.

  Lemma auto_irr_rule (z saat : Z) (intwick irrst1 irrst2 : R) trig (defzsum irrmax amount : R) :
    auto_irr z saat intwick irrst1 irrst2 trig defzsum irrmax = Some amount ->
    (0 < saat < z)%Z /\ irrst1 <= intwick < irrst2 + 1 /\ trig = true /\
    amount = Rmin (defzsum * (9 / 10)) irrmax /\ amount <= irrmax /\
    (0 <= defzsum -> 0 <= irrmax -> 0 <= amount).
  Proof.
    unfold auto_irr. cbn.
    destruct (0 <? saat)%Z eqn:A; [apply Z.ltb_lt in A | discriminate].
    destruct (saat <? z)%Z eqn:C; [apply Z.ltb_lt in C | discriminate]. cbn [andb].
    destruct (RI.leb_spec irrst1 intwick) as [D|D]; [|discriminate].
    destruct (RI.ltb_spec intwick (irrst2 + 1)) as [F|F]; [|discriminate].
    destruct trig; [|discriminate]. cbn [andb]. intros [= <-].
    unfold dec. cbn. replace (10 ^ Z.of_nat 1)%Z with 10%Z by reflexivity.
    repeat split; try lia; try lra.
    - apply Rmin_r.
    - intros H1 H2. apply Rmin_glb; lra.
  Qed.

  Lemma auto_irr_outside (z saat : Z) (intwick irrst1 irrst2 : R) trig (defzsum irrmax : R) :
    (~ (0 < saat < z)%Z \/ intwick < irrst1 \/ irrst2 + 1 <= intwick \/ trig = false) ->
    auto_irr z saat intwick irrst1 irrst2 trig defzsum irrmax = None.
  Proof.
    intros H. destruct (auto_irr z saat intwick irrst1 irrst2 trig defzsum irrmax) eqn:E; [|reflexivity].
    apply auto_irr_rule in E. destruct E as (E1 & E2 & E3 & _). destruct H as [H|[H|[H|H]]]; try lia; try lra. congruence.
  Qed.

  Lemma auto_n_nonneg (ndem nmin : R) : 0 <= auto_n ndem nmin /\ auto_n ndem nmin = Rmax (ndem - nmin) 0.
  Proof. unfold auto_n; cbn. split; [apply Rmax_r | reflexivity]. Qed.
End AutoR.

(* ------------------------------------------------------------------------------------------ *)
(* packaged statements for Prop_C10.v / Prop_C16.v                                             *)

Lemma rot_fixed_dates (saat ernte ernte2 : Z -> Z) (B : Z) (l : list (Z * Z)) (fuel : nat) :
  0 < B -> holds saat ernte ernte2 0 ((0, B) :: l) -> chain B l ->
  rot_run saat ernte ernte2 fuel B 0 = rot_expected (B + Z.of_nat fuel - 1) 0 true ((0, B) :: l).
Proof.
  intros HB Hh Hc. apply rot_run_closed; try lia; auto. repeat split; try lia. exact Hc.
Qed.

(* rotation order: harvests (hence crop records) come in the order of the rotation entries, each
   for its own entry on its own harvest date; sowing k on its own sowing date *)
Lemma rot_order (saat ernte ernte2 : Z -> Z) (B : Z) (l : list (Z * Z)) (fuel : nat) :
  0 < B -> holds saat ernte ernte2 0 ((0, B) :: l) -> chain B l ->
  let evs := rot_run saat ernte ernte2 fuel B 0 in
  StronglySorted Z.lt (flat_map (fun e => match e with (_, Harv, j) => [j] | _ => [] end) evs) /\
  (forall z kind j, In (z, kind, j) evs ->
     z <= B + Z.of_nat fuel - 1 /\ 0 <= j <= Z.of_nat (length l) /\
     z = (match kind with Sow => fst | Harv => snd end) (nth (Z.to_nat j) ((0, B) :: l) (0, 0))).
Proof.
  intros HB Hh Hc. cbn zeta. rewrite (rot_fixed_dates _ _ _ _ _ _ HB Hh Hc). split.
  - apply (rot_expected_harvest_order saat ernte ernte2).
  - intros z kind j Hin. apply (rot_expected_In saat ernte ernte2) in Hin. cbn [length] in Hin.
    rewrite Z.sub_0_r in Hin. destruct Hin as (H1 & H2 & H3). repeat split; try lia; try exact H3.
Qed.

(* crop records carry FRUCHT[k] and the harvest year of entry k, k = 1, 2, ... increasing *)
Lemma crop_records_spec frucht year : forall evs k c y,
  In (k, c, y) (crop_records frucht year evs) ->
  1 <= k /\ c = frucht k /\ exists z, In (z, Harv, k) evs /\ y = year z.
Proof.
  induction evs as [|[[z kind] j] r IH]; intros k c y; cbn [crop_records flat_map]; [cbn; tauto|].
  intros Hin. apply in_app_or in Hin. destruct Hin as [Hin|Hin].
  - destruct kind; [cbn in Hin; tauto|]. destruct (1 <=? j) eqn:E; [apply Z.leb_le in E | cbn in Hin; tauto].
    destruct Hin as [Hin|[]]. inversion Hin; subst. repeat split; try lia. exists z. split; [now left | reflexivity].
  - destruct (IH k c y Hin) as (H1 & H2 & z' & H3 & H4). repeat split; auto. exists z'. split; [now right | exact H4].
Qed.
