(* WaterRun.v — the water balance over a whole RUN: any number of days, each with its own inputs and its own number
   of sub-steps; the state (water content per layer) is carried from the end of one day to the start of the next
   unchanged (the day loop copies WG[1] to WG[0]; checked on every traced day: "storage at the start of a day =
   storage at the end of the previous one").  By induction over the list of days from the day theorem. *)
From Coq Require Import ZArith Reals List Bool Lra Lia.
From Hermes Require Import Num RUtil WaterModel WaterProofs.
Import ListNotations.
Local Open Scope R_scope.

(* the inputs of a day with the carried state put in *)
Definition with_wg (x : water_in (T:=R)) (wg : list R) : water_in (T:=R) :=
  {| wi_subd1 := true; wi_wdt := wi_wdt x; wi_after_sow := wi_after_sow x;
     wi_fluss0 := wi_fluss0 x; wi_grw := wi_grw x; wi_draidep := wi_draidep x;
     wi_draifak := wi_draifak x; wi_outn := wi_outn x; wi_gwauf := wi_gwauf x; wi_eta := wi_eta x;
     wi_wg0 := wg;
     wi_tp := wi_tp x; wi_w := wi_w x; wi_wmin := wi_wmin x; wi_nfk := wi_nfk x;
     wi_ev := wi_ev x; wi_q1 := wi_q1 x; wi_caps := wi_caps x |}.

(* a day = its inputs (whatever Evatra, the crop and the weather made them) and its number of sub-steps *)
Definition day_spec := (water_in (T:=R) * nat)%type.

(* what leaves or enters the profile during one day that starts from [wg] *)
Definition day_net (wg : list R) (d : day_spec) : R :=
  let x := with_wg (fst d) wg in
  let outs := water_iter (snd d) x in
  wi_fluss0 x - Rsum (wo_tp (water_step x))
  - Rsum (map (fun o => last (wo_q1 o) 0) outs) - Rsum (map (fun o => wo_qdrain o) outs).

Definition day_end (n : nat) (wg : list R) (d : day_spec) : list R :=
  final_wg wg n (water_iter (snd d) (with_wg (fst d) wg)).

(* the run: final state and the summed net flux *)
Fixpoint run_days (n : nat) (wg : list R) (days : list day_spec) : list R * R :=
  match days with
  | [] => (wg, 0)
  | d :: r => let '(wg', s) := run_days n (day_end n wg d) r in (wg', day_net wg d + s)
  end.

Definition day_ok (n : nat) (d : day_spec) : Prop :=
  (1 <= n)%nat /\ length (wi_tp (fst d)) = n /\ length (wi_w (fst d)) = n /\ length (wi_wmin (fst d)) = n /\
  length (wi_nfk (fst d)) = n /\ length (wi_ev (fst d)) = S n /\ length (wi_q1 (fst d)) = S n /\
  (1 <= snd d)%nat /\ wi_wdt (fst d) = / INR (snd d).

Lemma with_wg_wf n wg d : day_ok n d -> length wg = n -> wf_in (with_wg (fst d) wg) n.
Proof. intros (Hn & L1 & L2 & L3 & L4 & L5 & L6 & _) Lwg. unfold wf_in, with_wg. cbn. repeat split; assumption. Qed.

Lemma final_wg_length k : forall (x : water_in (T:=R)) n wg,
  wf_in x n -> length wg = n -> length (final_wg wg n (water_iter k x)) = n.
Proof.
  induction k as [|k IH]; intros x n wg Hwf Lwg; cbn [water_iter final_wg]; [exact Lwg|].
  cbv zeta. cbn [final_wg].
  destruct (water_next_wf x n Hwf) as [Hwf' _].
  apply IH; [exact Hwf'|].
  pose proof (water_step_balance_lemma x n Hwf) as (_ & L1 & _). rewrite firstn_length, L1. lia.
Qed.

Lemma run_balance_lemma n days : forall wg,
  length wg = n -> Forall (day_ok n) days ->
  storage (fst (run_days n wg days)) = storage wg + snd (run_days n wg days)
  /\ length (fst (run_days n wg days)) = n.
Proof.
  induction days as [|d r IH]; intros wg Lwg HF.
  - cbn [run_days fst snd]. split; [lra | exact Lwg].
  - pose proof (Forall_inv HF) as Hd. pose proof (Forall_inv_tail HF) as Hr.
    pose proof (with_wg_wf n wg d Hd Lwg) as Hwf.
    destruct Hd as (Hn & _ & _ & _ & _ & _ & _ & Hk & Hwdt).
    pose proof (day_balance_lemma (with_wg (fst d) wg) n (snd d) Hwf Hk Hwdt) as HB. cbv zeta in HB.
    assert (Lend : length (day_end n wg d) = n) by (apply final_wg_length; assumption).
    specialize (IH (day_end n wg d) Lend Hr).
    cbn [run_days]. destruct (run_days n (day_end n wg d) r) as [wg' s] eqn:E.
    cbn [fst snd] in *. destruct IH as [IH1 IH2]. split; [|exact IH2].
    rewrite IH1. unfold day_end, day_net. cbn [wi_wg0 with_wg] in HB. cbv zeta.
    change (wi_wg0 (with_wg (fst d) wg)) with wg in HB. rewrite HB.
    change (wi_fluss0 (with_wg (fst d) wg)) with (wi_fluss0 (fst d)). lra.
Qed.
