(* DispatchProofs.v — properties of every schedule of the batch dispatcher (DispatchModel). *)
From stdpp Require Import gmap.
From Hermes Require Import PoolModel PoolProofs DispatchModel.

Lemma lfilter_Permutation {A} (f : A -> bool) (l1 l2 : list A) :
  l1 ≡ₚ l2 -> List.filter f l1 ≡ₚ List.filter f l2.
Proof.
  induction 1 as [|x l l' _ IH|x y l|l l' l'' _ IH1 _ IH2]; cbn.
  - reflexivity.
  - destruct (f x); [now constructor | exact IH].
  - destruct (f x), (f y); try reflexivity. apply perm_swap.
  - etransitivity; eassumption.
Qed.

Lemma lfilter_fmap {A B} (g : A -> B) (f : B -> bool) (l : list A) :
  List.filter f (g <$> l) = g <$> List.filter (fun x => f (g x)) l.
Proof. induction l as [|x l IH]; cbn; [reflexivity|]. destruct (f (g x)); cbn; now rewrite IH. Qed.

Lemma lfilter_ext_Forall {A} (f g : A -> bool) (l : list A) :
  Forall (fun x => f x = g x) l -> List.filter f l = List.filter g l.
Proof. induction 1 as [|x l Hx _ IH]; cbn; [reflexivity|]. rewrite Hx, IH. reflexivity. Qed.

Section Tot.
  Context {A : Type} (f : A -> nat).
  Definition tot (l : list A) : nat := foldr (fun x n => f x + n) 0 l.
  Lemma tot_app l1 l2 : tot (l1 ++ l2) = tot l1 + tot l2.
  Proof. unfold tot. induction l1 as [|x l IH]; cbn; [reflexivity|]. rewrite IH. lia. Qed.
  Lemma tot_cons x l : tot (x :: l) = f x + tot l.
  Proof. reflexivity. Qed.
  Lemma tot_nil : tot [] = 0.
  Proof. reflexivity. Qed.
  Lemma tot_Permutation l1 l2 : l1 ≡ₚ l2 -> tot l1 = tot l2.
  Proof. induction 1; cbn in *; unfold tot in *; lia. Qed.
End Tot.

Section DispatchProofs.
  Context {path bytes L R : Type} `{Countable path}.
  Variable disk : path -> bytes.
  Variable nilb : bytes.
  Variable run_prog : L -> @prog path bytes R.
  Variable err : R -> bool.
  Variable c : nat.

  Notation step := (step disk nilb run_prog err c).
  Notation exec := (exec disk nilb run_prog err c).
  Notation stuck := (stuck disk nilb run_prog err c).
  Notation eval := (eval disk).
  Notation reads := (reads disk).
  Notation pool_ok := (pool_ok disk).
  Notation st := (@st path bytes L R _ _).

  (* ---------------- line selection ---------------- *)
  Lemma lookup_cons_Z (l0 : L) r (i k : Z) (l : L) : (k <= i)%Z ->
    (l0 :: r) !! Z.to_nat (i - k) = Some l <->
    ((i = k /\ l = l0) \/ ((k + 1 <= i)%Z /\ r !! Z.to_nat (i - (k + 1)) = Some l)).
  Proof.
    intros Hk. destruct (decide (i = k)) as [->|Hne].
    - replace (k - k)%Z with 0%Z by lia. cbn. split.
      + intros E. injection E as ->. now left.
      + intros [[_ ->]|[A _]]; [reflexivity|lia].
    - replace (Z.to_nat (i - k)) with (S (Z.to_nat (i - (k + 1)))) by lia. cbn. split.
      + intros D. right. split; [lia|exact D].
      + intros [[A _]|[_ D]]; [lia|exact D].
  Qed.

  Lemma select_lines_elem s n : forall (ls : list L) k i l,
    (i, l) ∈ select_lines s n k ls <->
    (k <= i /\ s <= i /\ (0 < n -> i < n) /\ ls !! Z.to_nat (i - k) = Some l)%Z.
  Proof.
    induction ls as [|l0 r IH]; intros k i l; cbn [select_lines].
    - rewrite elem_of_nil, lookup_nil. intuition discriminate.
    - destruct (Z.ltb_spec k s) as [Hks|Hks].
      + rewrite IH. split.
        * intros (A & B & C & D). repeat split; try lia.
          apply lookup_cons_Z; [lia|]. right. split; [lia|exact D].
        * intros (A & B & C & D). apply (proj1 (lookup_cons_Z l0 r i k l A)) in D as [[-> _]|[A' D]]; [lia|].
          repeat split; try lia. exact D.
      + assert (Hcons : ((0 < n)%Z -> (k < n)%Z) ->
                        ((i, l) ∈ (k, l0) :: select_lines s n (k + 1) r <->
                         (k <= i /\ s <= i /\ (0 < n -> i < n) /\
                          (l0 :: r) !! Z.to_nat (i - k) = Some l)%Z)).
        { intros Hkn. rewrite elem_of_cons, IH. split.
          - intros [E|(A & B & C & D)].
            + injection E as -> ->. repeat split; try lia. apply lookup_cons_Z; [lia|]. now left.
            + repeat split; try lia. apply lookup_cons_Z; [lia|]. right. split; [lia|exact D].
          - intros (A & B & C & D). apply (proj1 (lookup_cons_Z l0 r i k l A)) in D as [[-> ->]|[A' D]].
            + now left.
            + right. repeat split; try lia. exact D. }
        destruct (Z.ltb_spec 0 n) as [Hn|Hn]; destruct (Z.leb_spec n k) as [Hnk|Hnk]; cbn [andb].
        * rewrite elem_of_nil. split; [tauto|]. intros (A & B & C & D). lia.
        * apply Hcons. lia.
        * apply Hcons. lia.
        * apply Hcons. lia.
  Qed.

  Lemma select_lines_NoDup s n : forall (ls : list L) k, NoDup (select_lines s n k ls).*1.
  Proof.
    induction ls as [|l0 r IH]; intros k; cbn [select_lines].
    - constructor.
    - destruct (k <? s)%Z; [apply IH|].
      destruct ((0 <? n) && (n <=? k))%Z; [constructor|].
      cbn. constructor; [|apply IH].
      rewrite elem_of_list_fmap. intros ([i l] & E & Hin). cbn in E. subst i.
      apply select_lines_elem in Hin. lia.
  Qed.

  (* ---------------- single-step facts ---------------- *)
  Definition ids (a : list (@run path bytes L R)) : list (Z * L) := (fun r => (rid r, rline r)) <$> a.
  Definition rl (rs : list (Z * L * R)) : list (Z * L) := (fun x => x.1) <$> rs.
  Definition acct (s : st) : list (Z * L) := rl (results s) ++ ids (active s) ++ todo s.
  Definition errline (x : Z * L) : bool := err (eval (run_prog x.2)).
  Definition cost (x : Z * L) : nat := 2 + reads (run_prog x.2).
  Definition msr (s : st) : nat :=
    tot cost (todo s) + tot (fun r => 1 + reads (rprog r)) (active s).

  Definition inv1 (s : st) : Prop :=
    pool_ok (pool s) /\
    Forall (fun r => eval (rprog r) = eval (run_prog (rline r))) (active s) /\
    Forall (fun x => x.2 = eval (run_prog x.1.2)) (results s).

  Lemma step_inv1 s l s' : step s l s' -> inv1 s -> inv1 s'.
  Proof.
    intros Hs (Hp & Ha & Hr). destruct Hs; cbn in *.
    - split; [exact Hp|]. split; [constructor; [reflexivity|exact Ha] | exact Hr].
    - destruct (get_spec disk nilb pl p Hp) as [Hv Hp'].
      repeat split; auto.
      apply Forall_app in Ha as [Ha1 Ha2]. apply Forall_cons in Ha2 as [Hx Ha2].
      apply Forall_app. split; [exact Ha1|]. constructor; [|exact Ha2].
      cbn in *. rewrite Hv. exact Hx.
    - apply Forall_app in Ha as [Ha1 Ha2]. apply Forall_cons in Ha2 as [Hx Ha2].
      repeat split; auto.
      + apply Forall_app; auto.
      + constructor; [|exact Hr]. cbn in *. exact Hx.
  Qed.

  Lemma step_active_le s l s' : step s l s' -> length (active s) <= c -> length (active s') <= c.
  Proof.
    intros Hs Hl. destruct Hs; cbn in *.
    - lia.
    - rewrite app_length in *. cbn in *. lia.
    - rewrite app_length in *. cbn in *. lia.
  Qed.

  Lemma step_acct s l s' : step s l s' -> acct s' ≡ₚ acct s.
  Proof.
    intros Hs. destruct Hs; unfold acct, ids, rl; cbn.
    - apply Permutation_app_head. apply Permutation_middle.
    - rewrite !fmap_app. cbn. reflexivity.
    - rewrite !fmap_app. cbn.
      etransitivity; [apply Permutation_middle|]. apply Permutation_app_head.
      rewrite <- !app_assoc. cbn. apply Permutation_middle.
  Qed.

  Definition inv_sum (s : st) : Prop :=
    summary s ≡ₚ (fun x => x.1.1) <$> List.filter (fun x => err x.2) (results s).
  Lemma step_sum s l s' : step s l s' -> inv_sum s -> inv_sum s'.
  Proof.
    intros Hs Hi. unfold inv_sum in *. destruct Hs; cbn in *; auto.
    destruct (err v); cbn; [|exact Hi].
    rewrite <- Hi. rewrite Permutation_app_comm. reflexivity.
  Qed.

  Definition inv_seen (s : st) : Prop :=
    seen s = match results s with [] => false | _ => true end.
  Lemma step_seen s l s' : step s l s' -> inv_seen s -> inv_seen s'.
  Proof. intros Hs Hi. unfold inv_seen in *. destruct Hs; cbn in *; auto. Qed.

  Lemma step_msr s l s' : step s l s' -> pool_ok (pool s) -> msr s = S (msr s').
  Proof.
    intros Hs Hp. destruct Hs; unfold msr; cbn [todo active pool] in *.
    - rewrite !tot_cons. unfold cost. cbn. lia.
    - destruct (get_spec disk nilb pl p Hp) as [Hv _].
      rewrite !tot_app, !tot_cons. cbn [rprog]. rewrite Hv. cbn [DispatchModel.reads]. lia.
    - rewrite !tot_app, !tot_cons. cbn. lia.
  Qed.

  (* ---------------- schedules ---------------- *)
  Lemma exec_inv (P : st -> Prop) :
    (forall s l s', step s l s' -> P s -> P s') ->
    forall s tr s', exec s tr s' -> P s -> P s'.
  Proof. intros HP s tr s' He. induction He; eauto. Qed.

  Lemma exec_app s tr1 s1 tr2 s2 : exec s tr1 s1 -> exec s1 tr2 s2 -> exec s (tr1 ++ tr2) s2.
  Proof. induction 1; cbn; [auto|]. intros. econstructor; eauto. Qed.

  Lemma exec_starts s tr s' : exec s tr s' -> starts tr ++ (todo s').*1 = (todo s).*1.
  Proof.
    induction 1 as [|s l s1 tr s2 Hs _ IH]; [reflexivity|].
    destruct Hs; cbn in *; [f_equal; exact IH | exact IH | exact IH].
  Qed.

  Lemma finishes_cons (l : @label path) tr :
    finishes (l :: tr) = match l with LFinish i => i :: finishes tr | _ => finishes tr end.
  Proof. destruct l; reflexivity. Qed.

  Lemma exec_finishes s tr s' :
    exec s tr s' -> length (finishes tr) + length (results s) = length (results s').
  Proof.
    induction 1 as [|s l s1 tr s2 Hs _ IH]; [reflexivity|].
    rewrite finishes_cons. destruct Hs; cbn [length results] in *; lia.
  Qed.

  Lemma exec_msr s tr s' : exec s tr s' -> inv1 s -> msr s = length tr + msr s'.
  Proof.
    induction 1 as [|s l s1 tr s2 Hs _ IH]; intros Hi; [reflexivity|].
    rewrite (step_msr _ _ _ Hs (proj1 Hi)). cbn. rewrite IH; [lia|]. eapply step_inv1; eauto.
  Qed.

  Lemma stuck_final s : 1 <= c -> stuck s -> todo s = [] /\ active s = [].
  Proof.
    intros Hc Hst. destruct s as [td a pl sm sn rs]. cbn.
    assert (Ha : a = []).
    { destruct a as [|[i l pg] a]; [reflexivity|]. exfalso. destruct pg as [v|p k].
      - eapply Hst. apply (step_finish disk nilb run_prog err c i l v td [] a).
      - eapply Hst. apply (step_read disk nilb run_prog err c i l p k td [] a). }
    subst a. split; [|reflexivity].
    destruct td as [|[i l] td]; [reflexivity|]. exfalso.
    eapply Hst. apply step_start. cbn. lia.
  Qed.

  Section FromInit.
    Variable b : list (Z * L).
    Variable pl0 : gmap path bytes.
    Hypothesis Hpl0 : pool_ok pl0.
    Notation init := (init b pl0).

    Lemma init_inv1 : inv1 init.
    Proof. repeat split; cbn; auto. Qed.

    (* every reachable state *)
    Lemma reach_facts tr s : exec init tr s ->
      inv1 s /\ length (active s) <= c /\ acct s ≡ₚ b /\ inv_sum s /\ inv_seen s.
    Proof.
      intros He. split; [|split; [|split; [|split]]].
      - apply (exec_inv inv1 step_inv1 _ _ _ He). apply init_inv1.
      - apply (exec_inv (fun s => length (active s) <= c) step_active_le _ _ _ He). cbn. lia.
      - refine (exec_inv (fun s => acct s ≡ₚ b) _ _ _ _ He _).
        + intros s0 l s1 Hs Hi. rewrite (step_acct _ _ _ Hs). exact Hi.
        + unfold acct. cbn. reflexivity.
      - apply (exec_inv inv_sum step_sum _ _ _ He). unfold inv_sum. cbn. reflexivity.
      - apply (exec_inv inv_seen step_seen _ _ _ He). reflexivity.
    Qed.

    (* every maximal schedule *)
    Lemma maximal_facts tr s : 1 <= c -> exec init tr s -> stuck s ->
      todo s = [] /\ active s = [] /\
      starts tr = b.*1 /\
      rl (results s) ≡ₚ b /\
      Forall (fun x => x.2 = eval (run_prog x.1.2)) (results s) /\
      length (starts tr) = length b /\ length (finishes tr) = length b /\
      length tr = tot cost b /\
      summary s ≡ₚ (List.filter errline b).*1 /\
      printed_count s = (if decide (b = []) then -1 else Z.of_nat (length (List.filter errline b)))%Z.
    Proof.
      intros Hc He Hst.
      destruct (stuck_final s Hc Hst) as [Htd Hac].
      destruct (reach_facts tr s He) as (Hi1 & _ & Hacct & Hsum & Hseen).
      unfold inv_sum in Hsum. unfold inv_seen in Hseen.
      pose proof (exec_starts _ _ _ He) as Hstarts. rewrite Htd in Hstarts. cbn in Hstarts.
      rewrite app_nil_r in Hstarts.
      unfold acct in Hacct. rewrite Htd, Hac in Hacct. cbn in Hacct. rewrite app_nil_r in Hacct.
      pose proof (exec_finishes _ _ _ He) as Hfin. cbn [results DispatchModel.init length] in Hfin.
      pose proof (exec_msr _ _ _ He init_inv1) as Hm. unfold msr in Hm. rewrite Htd, Hac in Hm.
      cbn [todo active DispatchModel.init] in Hm. rewrite !tot_nil in Hm.
      destruct Hi1 as (_ & _ & Hres).
      assert (Hlen : length (results s) = length b).
      { rewrite <- (Permutation_length Hacct). unfold rl. now rewrite fmap_length. }
      (* the error flags of the received results are those of their lines *)
      assert (Hflt : (fun x => x.1.1) <$> List.filter (fun x => err x.2) (results s)
                     ≡ₚ (List.filter errline b).*1).
      { rewrite <- (lfilter_Permutation errline _ _ Hacct). unfold rl.
        rewrite lfilter_fmap, <- list_fmap_compose.
        rewrite (lfilter_ext_Forall (fun x => err x.2) (fun x => errline x.1)); [reflexivity|].
        eapply Forall_impl; [exact Hres|]. intros x Hx. unfold errline. cbn. now rewrite Hx. }
      repeat split; auto.
      - rewrite Hstarts. now rewrite fmap_length.
      - lia.
      - lia.
      - rewrite Hsum. exact Hflt.
      - unfold printed_count, printed_lines. rewrite Hseen.
        destruct (results s) as [|x rs] eqn:Ers.
        + cbn in Hlen. destruct b; [|discriminate]. rewrite decide_True by reflexivity. reflexivity.
        + rewrite decide_False by (intros ->; discriminate).
          cbn [length]. rewrite fmap_length.
          rewrite (Permutation_length Hsum), (Permutation_length Hflt), fmap_length. lia.
    Qed.

    (* no schedule is longer than the length of the maximal ones: termination *)
    Lemma exec_bounded tr s : exec init tr s -> length tr <= tot cost b.
    Proof.
      intros He. pose proof (exec_msr _ _ _ He init_inv1) as Hm. unfold msr in Hm at 1.
      cbn [todo active DispatchModel.init] in Hm. rewrite tot_nil in Hm. lia.
    Qed.
  End FromInit.

  (* ---------------- the executable scheduler produces maximal schedules ---------------- *)
  Notation sim_step := (sim_step disk nilb run_prog err c).
  Notation sim := (sim disk nilb run_prog err c).

  Lemma start_step_sound s l s' : start_step run_prog c s = Some (l, s') -> step s l s'.
  Proof.
    unfold start_step. destruct s as [td a pl sm sn rs]; cbn.
    destruct td as [|[i ln] td]; [discriminate|].
    destruct (decide (length a < c)); [|discriminate].
    intros E. injection E as <- <-. now apply step_start.
  Qed.

  Lemma act_step_sound n s l s' : act_step disk nilb err n s = Some (l, s') -> step s l s'.
  Proof.
    unfold act_step. destruct s as [td a pl sm sn rs]; cbn.
    destruct (a !! n) as [[i ln pg]|] eqn:E; [|discriminate].
    pose proof (take_drop_middle _ _ _ E) as Hsplit.
    remember (take n a) as a1. remember (drop (S n) a) as a2. clear Heqa1 Heqa2 E.
    subst a. destruct pg as [v|p k]; intros E; injection E as <- <-.
    - apply step_finish.
    - apply step_read.
  Qed.

  Lemma sim_step_sound ch s l s' : sim_step ch s = Some (l, s') -> step s l s'.
  Proof.
    unfold DispatchModel.sim_step. destruct (Nat.even ch).
    - destruct (start_step run_prog c s) as [x|] eqn:E.
      + intros E'. injection E' as ->. now apply start_step_sound.
      + apply act_step_sound.
    - destruct (act_step disk nilb err _ s) as [x|] eqn:E.
      + intros E'. injection E' as ->. eapply act_step_sound; eauto.
      + apply start_step_sound.
  Qed.

  Lemma sim_step_None ch s : sim_step ch s = None -> stuck s.
  Proof.
    intros Hn l s' Hs.
    assert (Hcases : start_step run_prog c s <> None \/
                     act_step disk nilb err ((ch / 2) mod length (active s)) s <> None).
    { destruct Hs.
      - left. unfold start_step. cbn. rewrite decide_True by assumption. discriminate.
      - right. unfold act_step. cbn [active].
        set (a := a1 ++ Run i l (Read p k) :: a2).
        assert (Hlt : (ch / 2) mod length a < length a).
        { apply Nat.mod_upper_bound. unfold a. rewrite app_length. cbn. lia. }
        destruct (lookup_lt_is_Some_2 _ _ Hlt) as [[i' l' pg] ->]. destruct pg; discriminate.
      - right. unfold act_step. cbn [active].
        set (a := a1 ++ Run i l (Done v) :: a2).
        assert (Hlt : (ch / 2) mod length a < length a).
        { apply Nat.mod_upper_bound. unfold a. rewrite app_length. cbn. lia. }
        destruct (lookup_lt_is_Some_2 _ _ Hlt) as [[i' l' pg] ->]. destruct pg; discriminate. }
    unfold DispatchModel.sim_step in Hn.
    destruct (Nat.even ch);
      destruct (start_step run_prog c s); destruct (act_step disk nilb err _ s);
      try discriminate; destruct Hcases; congruence.
  Qed.

  Lemma sim_sound fuel : forall rnd s tr0 tr s',
    sim fuel rnd s tr0 = Some (tr, s') ->
    exists tr1, tr = rev tr0 ++ tr1 /\ exec s tr1 s' /\ stuck s'.
  Proof.
    induction fuel as [|f IH]; intros rnd s tr0 tr s'; cbn [DispatchModel.sim].
    - destruct (sim_step _ s) as [[l s1]|] eqn:E; [discriminate|].
      intros E'. injection E' as <- <-. exists []. rewrite app_nil_r.
      repeat split; [constructor | eapply sim_step_None; eauto].
    - destruct (sim_step _ s) as [[l s1]|] eqn:E.
      + intros Hsim. destruct (IH _ _ _ _ _ Hsim) as (tr1 & -> & He & Hst).
        exists (l :: tr1). cbn. rewrite <- app_assoc. cbn.
        repeat split; auto. econstructor; [eapply sim_step_sound; eauto | exact He].
      + intros E'. injection E' as <- <-. exists []. rewrite app_nil_r.
        repeat split; [constructor | eapply sim_step_None; eauto].
  Qed.
End DispatchProofs.

(* ======================= statements used by Prop_C03 / Prop_C11 ======================= *)
Section Final.
  Context {path bytes L R : Type} `{Countable path}.
  Variable disk : path -> bytes.
  Variable nilb : bytes.
  Variable run_prog : L -> @prog path bytes R.
  Variable err : R -> bool.

  Notation step c := (step disk nilb run_prog err c).
  Notation exec c := (exec disk nilb run_prog err c).
  Notation stuck c := (stuck disk nilb run_prog err c).
  Notation eval := (eval disk).
  Notation reads := (reads disk).
  Notation pool_ok := (pool_ok disk).

  (* a maximal schedule exists from every reachable state (so "for every maximal schedule"
     is never vacuous), constructively *)
  Ltac nil_app :=
    match goal with
    | Hx : [] = _ ++ _ :: _ |- _ => symmetry in Hx; apply app_eq_nil in Hx as [_ Hx]; discriminate
    | Hx : _ ++ _ :: _ = [] |- _ => apply app_eq_nil in Hx as [_ Hx]; discriminate
    end.

  Lemma progress c (s : @st path bytes L R _ _) :
    stuck c s \/ exists l s', step c s l s'.
  Proof.
    destruct s as [td a pl sm sn rs].
    destruct a as [|[i l pg] a].
    - destruct td as [|[i l] td].
      + left. intros l s' Hs. inversion Hs; subst; nil_app.
      + destruct (decide (0 < c)) as [Hc|Hc].
        * right. eexists _, _. apply step_start. cbn. exact Hc.
        * left. intros l' s' Hs. inversion Hs; subst.
          -- cbn in *. lia.
          -- nil_app.
          -- nil_app.
    - right. destruct pg as [v|p k].
      + eexists _, _. apply (step_finish disk nilb run_prog err c i l v td [] a).
      + eexists _, _. apply (step_read disk nilb run_prog err c i l p k td [] a).
  Qed.

  Lemma maximal_exists c : forall n (s : @st path bytes L R _ _),
    msr disk run_prog s <= n -> inv1 disk run_prog s ->
    exists tr s', exec c s tr s' /\ stuck c s'.
  Proof.
    induction n as [|n IH]; intros s Hn Hi.
    - destruct (progress c s) as [Hst|(l & s' & Hs)].
      + exists [], s. split; [constructor|exact Hst].
      + pose proof (step_msr disk nilb run_prog err c _ _ _ Hs (proj1 Hi)). lia.
    - destruct (progress c s) as [Hst|(l & s' & Hs)].
      + exists [], s. split; [constructor|exact Hst].
      + pose proof (step_msr disk nilb run_prog err c _ _ _ Hs (proj1 Hi)) as Hm.
        destruct (IH s') as (tr & s2 & He & Hst); [lia | eapply step_inv1; eauto |].
        exists (l :: tr), s2. split; [econstructor; eauto | exact Hst].
  Qed.

  (* C03 dispatch_exact_once / C11 termination *)
  Theorem dispatch_exact_once_lemma : forall (c : nat) (startLine numberOfLines : Z) (lines : list L)
      (pl0 : gmap path bytes),
    1 <= c -> pool_ok pl0 ->
    let b := select_lines startLine numberOfLines 0 lines in
    let s0 := init b pl0 in
    (* the selected lines: indices of [max startLine 0, stop), once each *)
    (forall i l, (i, l) ∈ b <->
       (0 <= i /\ startLine <= i /\ (0 < numberOfLines -> i < numberOfLines) /\
        lines !! Z.to_nat i = Some l)%Z) /\
    NoDup b.*1 /\
    (* every schedule is finite and bounded; at most c runs are ever active *)
    (forall tr s, exec c s0 tr s ->
       length tr <= tot (cost disk run_prog) b /\ length (active s) <= c) /\
    (* a maximal schedule exists *)
    (exists tr s, exec c s0 tr s /\ stuck c s) /\
    (* every maximal schedule starts exactly the selected lines, in file order, once each,
       receives one result per line, ends with nothing left and nothing active, and has
       exactly 2 transitions per line plus one per file read *)
    (forall tr s, exec c s0 tr s -> stuck c s ->
       starts tr = b.*1 /\
       length (finishes tr) = length b /\
       rl (results s) ≡ₚ b /\
       todo s = [] /\ active s = [] /\
       length tr = 2 * length b + tot (fun x => reads (run_prog x.2)) b).
  Proof.
    intros c startLine numberOfLines lines pl0 Hc Hpl b s0.
    split; [|split; [|split; [|split]]].
    - intros i l. unfold b. rewrite (select_lines_elem run_prog).
      replace (i - 0)%Z with i by lia. reflexivity.
    - apply (select_lines_NoDup run_prog).
    - intros tr s He. split.
      + eapply exec_bounded; eauto.
      + destruct (reach_facts disk nilb run_prog err c b pl0 Hpl tr s He) as (_ & Hle & _). exact Hle.
    - apply (maximal_exists c (msr disk run_prog s0) s0); [lia|]. apply init_inv1. exact Hpl.
    - intros tr s He Hst.
      destruct (maximal_facts disk nilb run_prog err c b pl0 Hpl tr s Hc He Hst) as (A & B & C & D & E & F & G & I & J & K).
      split; [exact C|]. split; [exact G|]. split; [exact D|]. split; [exact A|]. split; [exact B|].
      rewrite I. clear. induction b as [|x b' IH]; [reflexivity|].
      rewrite !tot_cons. unfold cost at 1. cbn [length]. unfold tot in *. lia.
  Qed.

  (* C11 summary_exact *)
  Theorem summary_exact_lemma : forall (c : nat) (b : list (Z * L)) (pl0 : gmap path bytes) tr s,
    1 <= c -> pool_ok pl0 -> exec c (init b pl0) tr s -> stuck c s ->
    let failed := List.filter (fun x => err (eval (run_prog x.2))) b in
    summary s ≡ₚ failed.*1 /\
    (b <> [] -> printed_count s = Z.of_nat (length failed) /\
                printed_lines s ≡ₚ None :: (Some <$> failed.*1)) /\
    (b = [] -> printed_count s = (-1)%Z /\ printed_lines s = []).
  Proof.
    intros c b pl0 tr s Hc Hpl He Hst failed.
    destruct (maximal_facts disk nilb run_prog err c b pl0 Hpl tr s Hc He Hst) as (A & B & C & D & E & F & G & I & J & K).
    destruct (reach_facts disk nilb run_prog err c b pl0 Hpl tr s He) as (_ & _ & _ & _ & Hseen).
    unfold inv_seen in Hseen.
    assert (Hlen : length (results s) = length b).
    { rewrite <- (Permutation_length D). unfold rl. now rewrite fmap_length. }
    split; [exact J|]. split.
    - intros Hne. rewrite decide_False in K by exact Hne. split; [exact K|].
      unfold printed_lines. rewrite Hseen. destruct (results s); [destruct b; [congruence|discriminate]|].
      constructor. now apply fmap_Permutation.
    - intros ->. rewrite decide_True in K by reflexivity. split; [exact K|].
      unfold printed_lines. rewrite Hseen. destruct (results s); [reflexivity|discriminate].
  Qed.

  (* the results of a maximal schedule, as (line, result) pairs *)
  Lemma final_results c (b : list (Z * L)) (pl0 : gmap path bytes) tr s :
    1 <= c -> pool_ok pl0 -> exec c (init b pl0) tr s -> stuck c s ->
    (fun x => (x.1.2, x.2)) <$> results s ≡ₚ (fun l => (l, eval (run_prog l))) <$> b.*2.
  Proof.
    intros Hc Hpl He Hst.
    destruct (maximal_facts disk nilb run_prog err c b pl0 Hpl tr s Hc He Hst) as (A & B & C & D & E & _).
    rewrite <- D. unfold rl. rewrite <- !list_fmap_compose.
    apply eq_subrelation; [typeclasses eauto|].
    apply Forall_fmap_ext_1. eapply Forall_impl; [exact E|]. intros x Hx. cbn. now rewrite Hx.
  Qed.

  (* C03 results_schedule_independent: two executions of the same multiset of lines — any two
     concurrency levels, any two orders of the lines (hence different logIDs), any two
     maximal schedules, any two initial cache states — give the same (line, result) pairs,
     each result being the function [eval (run_prog line)] of the line and the disk. *)
  Theorem results_schedule_independent_lemma :
    forall (c1 c2 : nat) (b1 b2 : list (Z * L)) (pl1 pl2 : gmap path bytes) tr1 s1 tr2 s2,
    1 <= c1 -> 1 <= c2 -> pool_ok pl1 -> pool_ok pl2 -> b1.*2 ≡ₚ b2.*2 ->
    exec c1 (init b1 pl1) tr1 s1 -> stuck c1 s1 ->
    exec c2 (init b2 pl2) tr2 s2 -> stuck c2 s2 ->
    (fun x => (x.1.2, x.2)) <$> results s1 ≡ₚ (fun x => (x.1.2, x.2)) <$> results s2 /\
    (forall i l v, (i, l, v) ∈ results s1 -> v = eval (run_prog l)) /\
    (forall i l v, (i, l, v) ∈ results s2 -> v = eval (run_prog l)).
  Proof.
    intros c1 c2 b1 b2 pl1 pl2 tr1 s1 tr2 s2 Hc1 Hc2 Hp1 Hp2 Hperm He1 Hs1 He2 Hs2.
    split; [|split].
    - rewrite (final_results c1 b1 pl1 tr1 s1 Hc1 Hp1 He1 Hs1).
      rewrite (final_results c2 b2 pl2 tr2 s2 Hc2 Hp2 He2 Hs2).
      now apply fmap_Permutation.
    - intros i l v Hin.
      destruct (reach_facts disk nilb run_prog err c1 b1 pl1 Hp1 tr1 s1 He1) as ((_ & _ & Hr) & _).
      rewrite Forall_forall in Hr. exact (Hr _ Hin).
    - intros i l v Hin.
      destruct (reach_facts disk nilb run_prog err c2 b2 pl2 Hp2 tr2 s2 He2) as ((_ & _ & Hr) & _).
      rewrite Forall_forall in Hr. exact (Hr _ Hin).
  Qed.

  (* the executable scheduler used by the correspondence only produces maximal schedules *)
  Theorem sim_maximal_lemma : forall (c fuel : nat) (rnd : N) (s : @st path bytes L R _ _) tr s',
    sim disk nilb run_prog err c fuel rnd s [] = Some (tr, s') -> exec c s tr s' /\ stuck c s'.
  Proof.
    intros c fuel rnd s tr s' Hsim.
    destruct (sim_sound disk nilb run_prog err c fuel rnd s [] tr s' Hsim) as (tr1 & -> & He & Hst).
    cbn. auto.
  Qed.

  (* C11 isolation: the result a line gets inside any batch equals the result of running
     that line alone *)
  Theorem isolation_lemma :
    forall (c c' : nat) (b : list (Z * L)) (pl pl' : gmap path bytes) tr s i l v tr' s',
    1 <= c -> 1 <= c' -> pool_ok pl -> pool_ok pl' ->
    exec c (init b pl) tr s -> stuck c s -> (i, l, v) ∈ results s ->
    exec c' (init [(0%Z, l)] pl') tr' s' -> stuck c' s' ->
    results s' = [(0%Z, l, v)].
  Proof.
    intros c c' b pl pl' tr s i l v tr' s' Hc Hc' Hp Hp' He Hst Hin He' Hst'.
    destruct (reach_facts disk nilb run_prog err c b pl Hp tr s He) as ((_ & _ & Hr) & _).
    rewrite Forall_forall in Hr. pose proof (Hr _ Hin) as Hv. cbn in Hv.
    destruct (maximal_facts disk nilb run_prog err c' [(0%Z, l)] pl' Hp' tr' s' Hc' He' Hst') as (_ & _ & _ & D & E & _).
    unfold rl in D. apply Permutation_singleton_r in D.
    destruct (results s') as [|[[i0 l0] v0] [|y r]]; try discriminate.
    cbn in D. injection D as -> ->. apply Forall_cons in E as [E _]. cbn in E. now rewrite E, Hv.
  Qed.
End Final.
