(* C16Corr.v — decoding of the observations of harness/c16.go and comparison with RotationModel:
   decisions of the automatic sowing / harvest / irrigation / N blocks on the days of real runs, and the
   whole sowing/harvest event sequence of a run against the rotation cursor on the final date arrays.
   Trigger conditions are oracles: a decision must equal the model's for SOME trigger value; where the
   model does not depend on the trigger (before the window, forced at its end, outside the stage window)
   the comparison is sharp. *)
From Coq Require Import ZArith List Bool Floats Uint63.
From Hermes Require Import Num RotationModel.
Import ListNotations.
Open Scope Z_scope.

Definition zi (x : int) : Z := Uint63.to_Z x.

(* z, SAAT before, SAAT1, SAAT2, ERNTE[k-1], SAAT after *)
Definition sow_check (r : int * int * int * int * int * int) : nat :=
  let '(z, sb, s1, s2, pe, sa) := r in
  let m b := auto_sow (zi z) (zi sb) (zi s1) (zi s2) (zi pe) b in
  if (m true =? zi sa) || (m false =? zi sa) then 0%nat else 1%nat.

Definition pair_eqb (a b : Z * Z) : bool := (fst a =? fst b) && (snd a =? snd b).

(* z, PhytoOut called, (ERNTE, ERNTE2) before/after, (SAAT, SAAT2) of the next entry before/after *)
Definition hdec_check (r : int * bool * (int * int * int * int) * (int * int * int * int)) : nat :=
  let '(z, called, (e0, e20, e1, e21), (n0, n20, n1, n21)) := r in
  let z := zi z in
  let before := (zi e0, zi e20) in let after := (zi e1, zi e21) in
  let nb := (zi n0, zi n20) in let na := (zi n1, zi n21) in
  if negb called then (if pair_eqb before after && pair_eqb nb na then 0 else 2)%nat
  else
    let m b := auto_harvest z (zi e0) (zi e20) b in
    let okE := pair_eqb (m true) after || pair_eqb (m false) after in
    let decided := (zi e0 =? 0) && negb (zi e1 =? 0) in
    let okN :=
      if decided then
        if zi e1 =? z then pair_eqb na (move_next_sowing z z (zi n0) (zi n20))
        else pair_eqb na nb || pair_eqb na (move_next_sowing z (z + 1) (zi n0) (zi n20))
      else pair_eqb na nb in
    ((if okE then 0 else 1) + (if okN then 0 else 4))%nat.

(* z, SAAT, INTWICK, IRRST1, IRRST2, DEFZSUM, IRRMAX, amount *)
Definition airr_check (r : int * int * (float * float * float) * (float * float * float)) : nat :=
  let '(z, saat, (intw, s1, s2), (defz, imax, amount)) := r in
  match auto_irr (zi z) (zi saat) intw s1 s2 true defz imax with
  | Some a => if float_same a amount then 0%nat else 2%nat
  | None => 1%nat
  end.

(* NFERTSIM before/after a Nitro call, candidates (demand, Nmin) of the three applications *)
Definition an_check (r : float * float * list (float * float)) : nat :=
  let '(pre, post, cand) := r in
  let amounts := map (fun c => auto_n (fst c) (snd c)) cand in
  let fix sums (l : list float) (acc : float) : list float :=
    match l with [] => [acc] | a :: t => sums t acc ++ sums t (add acc a) end in
  if existsb (fun s => float_same s post) (sums amounts pre) then 0%nat else 1%nat.

(* whole run: final SAAT/ERNTE/ERNTE2 arrays, BEGINN, ENDE, observed events (day, kind 0 sow / 1 harvest, entry) *)
Definition arr (l : list int) : Z -> Z := fun k => if k <? 0 then 0 else zi (nth (Z.to_nat k) l 0%uint63).

Definition rot_check (r : int * int * (list int * list int * list int) * list (int * int * int)) : nat :=
  let '(B, E, (sa, er, er2), evs) := r in
  let m := rot_run (arr sa) (arr er) (arr er2) (Z.to_nat (zi E - zi B + 1)) (zi B) 0 in
  let fix same (a : list (Z * rkind * Z)) (b : list (int * int * int)) : bool :=
    match a, b with
    | [], [] => true
    | (z, kd, k) :: a', (z', kd', k') :: b' =>
        (z =? zi z') && (k =? zi k') && (match kd with Sow => zi kd' =? 0 | Harv => zi kd' =? 1 end) && same a' b'
    | _, _ => false
    end in
  if same m evs then 0%nat else 1%nat.

Fixpoint mismatches {A} (chk : A -> nat) (i : nat) (l : list A) : list (nat * nat) :=
  match l with
  | [] => []
  | c :: r => let v := chk c in
              if Nat.eqb v 0 then mismatches chk (S i) r else (i, v) :: mismatches chk (S i) r
  end.
